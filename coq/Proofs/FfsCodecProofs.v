(* Proofs/FfsCodecProofs.v — property C06: compressed and nested content survives a save, and
   saving is a fixed point.  Lemmas about Model/Ffs.v under the codec hypothesis
   [dec_enc : enc k x = Some y -> dec k y = Some x] (no converse, no byte stability). *)
From Fiano Require Import Base.Bytes Base.BytesLemmas Model.Ffs.
From Coq Require Import ZifyBool ZifyNat.
Open Scope Z_scope.

(* ------------------------------------------------------------------------------------------ *)
(* small facts about byte strings                                                              *)
(* ------------------------------------------------------------------------------------------ *)

Lemma zfirstn_app_l {A} n (a b : list A) : n <= zlen a -> zfirstn n (a ++ b) = zfirstn n a.
Proof.
  intros H. unfold zfirstn, zlen in *. rewrite firstn_app.
  replace (Z.to_nat n - length a)%nat with 0%nat by lia. simpl. apply app_nil_r.
Qed.

Lemma zskipn_app_l {A} n (a b : list A) : n <= zlen a -> zskipn n (a ++ b) = zskipn n a ++ b.
Proof.
  intros H. unfold zskipn, zlen in *. rewrite skipn_app.
  replace (Z.to_nat n - length a)%nat with 0%nat by lia. reflexivity.
Qed.

Lemma sub_app_l (a b : bytes) off len : 0 <= off -> 0 <= len -> off + len <= zlen a ->
  sub off len (a ++ b) = sub off len a.
Proof.
  intros Ho Hl H. unfold sub. rewrite zskipn_app_l by lia.
  apply zfirstn_app_l. rewrite zlen_zskipn by (pose proof (zlen_nonneg a); lia). lia.
Qed.

Lemma rd_app_l (a b : bytes) off w : 0 <= off -> off + Z.of_nat w <= zlen a ->
  rd off w (a ++ b) = rd off w a.
Proof. intros. unfold rd. rewrite sub_app_l by lia. reflexivity. Qed.

Lemma zfirstn_all {A} n (l : list A) : zlen l <= n -> zfirstn n l = l.
Proof. intros. unfold zfirstn, zlen in *. apply firstn_all2. lia. Qed.

Lemma zfirstn_nonpos {A} n (l : list A) : n <= 0 -> zfirstn n l = [].
Proof. intros. unfold zfirstn. replace (Z.to_nat n) with 0%nat by lia. reflexivity. Qed.

Lemma zskipn_0 {A} (l : list A) : zskipn 0 l = l.
Proof. reflexivity. Qed.

Lemma zskipn_all {A} n (l : list A) : zlen l <= n -> zskipn n l = [].
Proof. intros. unfold zskipn, zlen in *. apply skipn_all2. lia. Qed.

Lemma zlen_zfirstn_min {A} n (l : list A) : 0 <= n -> zlen (zfirstn n l) = Z.min n (zlen l).
Proof. intros. unfold zfirstn, zlen. rewrite firstn_length. lia. Qed.

(* a prefix that is the whole list has the list's length *)
Lemma sub0_whole (ext : Z) (b : bytes) : 0 < zlen b -> ext <= zlen b -> sub 0 ext b = b -> ext = zlen b.
Proof.
  intros Hp Hle H. unfold sub in H. rewrite zskipn_0 in H.
  destruct (Z_le_gt_dec ext 0) as [Hn|Hn].
  - rewrite zfirstn_nonpos in H by lia. subst b. unfold zlen in Hp. simpl in Hp. lia.
  - assert (Hl : zlen (zfirstn ext b) = zlen b) by (rewrite H; reflexivity).
    rewrite zlen_zfirstn_min in Hl by lia. lia.
Qed.

Lemma zlen_zrepeat x n : 0 <= n -> zlen (zrepeat x n) = n.
Proof.
  intros. unfold zrepeat, zlen.
  assert (forall k, length (repeatz x k) = k) as E by (induction k; simpl; congruence).
  rewrite E. lia.
Qed.

Lemma zrepeat_nonpos x n : n <= 0 -> zrepeat x n = [].
Proof. intros. unfold zrepeat. replace (Z.to_nat n) with 0%nat by lia. reflexivity. Qed.

Lemma le_dec_single x : le_dec [x] = x.
Proof. simpl. lia. Qed.

Lemma rd1_at (a : bytes) x (r : bytes) : rd (zlen a) 1 (a ++ x :: r) = x.
Proof.
  unfold rd. change (x :: r) with ([x] ++ r).
  change (Z.of_nat 1) with (zlen [x]). rewrite sub_app_mid. apply le_dec_single.
Qed.

Lemma rd_at (a d r : bytes) w : zlen d = Z.of_nat w -> rd (zlen a) w (a ++ d ++ r) = le_dec d.
Proof. intros H. unfold rd. rewrite <- H. rewrite sub_app_mid. reflexivity. Qed.

Lemma sub_at (a d r : bytes) n : zlen d = n -> sub (zlen a) n (a ++ d ++ r) = d.
Proof. intros H. rewrite <- H. apply sub_app_mid. Qed.

(* ------------------------------------------------------------------------------------------ *)
(* alignment                                                                                   *)
(* ------------------------------------------------------------------------------------------ *)

Lemma align4_ge v : 0 <= v -> v <= align4 v < v + 4.
Proof.
  intros. unfold align4, align.
  pose proof (Z.div_mod (v + 4 - 1) 4 ltac:(lia)). pose proof (Z.mod_pos_bound (v + 4 - 1) 4 ltac:(lia)). lia.
Qed.

Lemma align4_mod v : (align4 v) mod 4 = 0.
Proof. unfold align4, align. apply Z.mod_mul. lia. Qed.

Lemma align4_add v a : a mod 4 = 0 -> align4 (a + v) = a + align4 v.
Proof.
  intros Ha. unfold align4, align.
  assert (E : a = 4 * (a / 4)) by (pose proof (Z.div_mod a 4 ltac:(lia)); lia).
  rewrite E at 1. replace (4 * (a / 4) + v + 4 - 1) with ((v + 4 - 1) + (a / 4) * 4) by lia.
  rewrite Z.div_add by lia. lia.
Qed.

Lemma align4_fix v : v mod 4 = 0 -> align4 v = v.
Proof.
  intros. unfold align4, align.
  pose proof (Z.div_mod v 4 ltac:(lia)).
  replace (v + 4 - 1) with (3 + (v / 4) * 4) by lia.
  rewrite Z.div_add by lia. change (3 / 4) with 0. lia.
Qed.

(* ------------------------------------------------------------------------------------------ *)
(* induction on nodes; order-insensitive view; the fully decompressed tree                     *)
(* ------------------------------------------------------------------------------------------ *)

Section NodeInd.
  Variable P : node -> Prop.
  Hypothesis Hsec : forall h buf kids, Forall P kids -> P (NSec h buf kids).
  Hypothesis Hfile : forall h buf kids, Forall P kids -> P (NFile h buf kids).
  Hypothesis Hvol : forall h buf kids, Forall P kids -> P (NVol h buf kids).
  Hypothesis Hpad : forall off buf, P (NPad off buf).
  Fixpoint node_ind' (n : node) : P n :=
    let fix go (l : list node) : Forall P l :=
      match l with
      | [] => Forall_nil P
      | x :: r => Forall_cons x (node_ind' x) (go r)
      end in
    match n with
    | NSec h buf kids => Hsec h buf kids (go kids)
    | NFile h buf kids => Hfile h buf kids (go kids)
    | NVol h buf kids => Hvol h buf kids (go kids)
    | NPad off buf => Hpad off buf
    end.
End NodeInd.

Definition set_order (h : sechdr) (o : Z) : sechdr :=
  mkSec (s_size3 h) (s_type h) (s_ext h) (s_hlen h) (s_gd h) (s_name h) (s_build h) (s_version h)
        (s_depex h) o.

(* [strip] forgets the FileOrder metadata of sections (the index at which the parser met the
   section; neither Assemble nor the bytes depend on it) *)
Fixpoint strip (n : node) : node :=
  match n with
  | NSec h buf kids => NSec (set_order h 0) buf (map strip kids)
  | NFile h buf kids => NFile h buf (map strip kids)
  | NVol h buf kids => NVol h buf (map strip kids)
  | NPad off buf => NPad off buf
  end.

Lemma set_order_set h a b : set_order (set_order h a) b = set_order h b.
Proof. reflexivity. Qed.

Lemma node_buf_strip n : node_buf (strip n) = node_buf n.
Proof. destruct n; reflexivity. Qed.

Lemma map_node_buf_strip l : map node_buf (map strip l) = map node_buf l.
Proof. induction l; simpl; [reflexivity|]. rewrite node_buf_strip, IHl. reflexivity. Qed.

Lemma strip_bufs l l' : map strip l = map strip l' -> map node_buf l = map node_buf l'.
Proof. intros H. rewrite <- (map_node_buf_strip l), <- (map_node_buf_strip l'), H. reflexivity. Qed.

(* the fully decompressed tree: node kind, the header fields that identify the node, leaf bodies;
   recursively through compressed sections and nested volumes.  Derived data (sizes, checksums,
   the large-file bit, compressed bytes, volume length / block count / free space / checksum,
   the FFS2->FFS3 switch) and pad files (layout artefacts) are not part of it. *)
Inductive dtree : Type := D (kind : Z) (fields : list bytes) (kids : list dtree).

Definition gd_fields (g : option gdhdr) : list bytes :=
  match g with Some g => [gd_guid g; [gd_attrs g]] | None => [] end.

Definition is_pad_file (n : node) : bool :=
  match n with NFile h _ _ => f_type h =? 240 | _ => false end.

Definition ffs_norm (g : bytes) : bytes := if bytes_eqb g FFS3 then FFS2 else g.

Fixpoint deep (n : node) : dtree :=
  match n with
  | NSec h buf kids =>
    match kids with
    | [] => D 0 [buf] []
    | _ => D 1 ([s_type h] :: gd_fields (s_gd h)) (map deep kids)
    end
  | NFile h buf kids =>
    match kids with
    | [] => D 2 [buf] []
    | _ => D 3 [f_guid h; [f_type h; Z.land (f_attr h) 254; f_state h]] (map deep kids)
    end
  | NVol h buf kids =>
    match kids with
    | [] => D 4 [buf] []
    | _ => D 5 [v_zero h; ffs_norm (v_guid h);
                [v_sig h; v_attrs h; v_hdrlen h; v_exthdroff h; v_reserved h; v_rev h; v_dataoff h];
                map snd (v_blocks h); v_extname h]
             ((fix go (l : list node) : list dtree :=
                 match l with
                 | [] => []
                 | x :: r => if is_pad_file x then go r else deep x :: go r
                 end) kids)
    end
  | NPad off buf => D 6 [[off]; buf] []
  end.

Lemma deep_strip n : deep (strip n) = deep n.
Proof.
  induction n using node_ind'; simpl; try reflexivity.
  - destruct kids; simpl; [reflexivity|]. inversion H; subst. f_equal. f_equal; [assumption|].
    clear - H3. induction H3; simpl; congruence.
  - destruct kids; simpl; [reflexivity|]. inversion H; subst. f_equal. f_equal; [assumption|].
    clear - H3. induction H3; simpl; congruence.
  - assert (G : forall l, Forall (fun n => deep (strip n) = deep n) l ->
      (fix go (l : list node) : list dtree :=
         match l with
         | [] => []
         | x :: r => if is_pad_file x then go r else deep x :: go r
         end) (map strip l) =
      (fix go (l : list node) : list dtree :=
         match l with
         | [] => []
         | x :: r => if is_pad_file x then go r else deep x :: go r
         end) l).
    { induction 1 as [|x l Hx Hl IH]; simpl; [reflexivity|].
      replace (is_pad_file (strip x)) with (is_pad_file x) by (destruct x; reflexivity).
      rewrite Hx, IH. reflexivity. }
    destruct kids; simpl; [reflexivity|]. f_equal. exact (G (n :: kids) H).
Qed.

Lemma strip_deep a b : strip a = strip b -> deep a = deep b.
Proof. intros H. rewrite <- (deep_strip a), <- (deep_strip b), H. reflexivity. Qed.

(* ------------------------------------------------------------------------------------------ *)
(* the codec section                                                                           *)
(* ------------------------------------------------------------------------------------------ *)

Section Codec.

Variable dec : Z -> bytes -> option bytes.
Variable enc : Z -> bytes -> option bytes.
Variable u2s : bytes -> bytes.
Variable s2u : bytes -> bytes.
Variable nvar : bytes -> option bytes.

(* the only thing assumed of the codecs: decoding what the encoder produced gives the input back *)
Hypothesis dec_enc : forall k x y, enc k x = Some y -> dec k y = Some x.

Notation psec := (parse_section dec u2s nvar).
Notation pfile := (parse_file dec u2s nvar).
Notation pfv := (parse_fv dec u2s nvar).
Notation sbody := (section_body dec u2s).
Notation fbody := (file_body nvar).
Notation asm' := (asm enc s2u).
Notation asml := (asm_elems enc s2u).
Notation secasm := (sec_asm enc s2u).

(* ---------- Assemble: unfolding ---------- *)

Lemma asm_list_eq : forall l st,
  (fix asm_list (l : list node) (st : ast) {struct l} : outcome (list node * ast) :=
     match l with
     | [] => Ok ([], st)
     | x :: r =>
       do xs <- asm' x st; let '(x', st1) := xs in
       do rs <- asm_list r st1; let '(r', st2) := rs in
       Ok (x' :: r', st2)
     end) l st = asml l st.
Proof.
  reflexivity.
Qed.

Lemma asm_sec h buf kids st :
  asm' (NSec h buf kids) st =
  (do ks <- asml kids st; let '(kids', st1) := ks in secasm h buf kids' st1).
Proof. cbn [asm]. rewrite asm_list_eq. reflexivity. Qed.

Lemma asm_file h buf kids st :
  asm' (NFile h buf kids) st =
  (do ks <- asml kids st; let '(kids', st1) := ks in file_asm h buf kids' st1).
Proof. cbn [asm]. rewrite asm_list_eq. reflexivity. Qed.

Lemma asm_volume h buf kids st :
  asm' (NVol h buf kids) st =
  match set_polarity (fst st) (fv_polarity (v_attrs h)) with
  | None => Err E_POLARITY
  | Some pol0 =>
    do ks <- asml kids (pol0, snd st); let '(kids', st1) := ks in vol_asm h buf kids' st1
  end.
Proof. cbn [asm]. destruct (set_polarity _ _); [|reflexivity]. rewrite asm_list_eq. reflexivity. Qed.

(* ---------- NewSection split into header decoding and the type-specific part ---------- *)

Definition sec_head (buf : bytes) : outcome (Z * Z) :=
  let size3 := rd 0 3 buf in
  let stype := rd 3 1 buf in
  if known_section stype then
    if size3 =? 16777215 then
      if zlen buf <? 8 then Err E_SHORT else
      let e := rd 4 4 buf in
      if e =? 4294967295 then Err E_FREEINFILE else Ok (8, e)
    else Ok (4, size3)
  else Ok (4, Z.min size3 (zlen buf)).

Definition sec_tail (rs : Z -> bytes -> Z -> outcome (node * Z))
    (rf : Z -> bytes -> Z -> bool -> outcome (node * Z))
    (pol : Z) (sbuf : bytes) (size3 stype ext hlen order : Z) : outcome (node * Z) :=
    let h0 := sec_default size3 stype ext hlen order in
    if stype =? 2 then
      if zlen sbuf <? hlen + 20 then Err E_OVERSIZEHDR else
      let g := sub hlen 16 sbuf in
      let doff := rd (hlen + 16) 2 sbuf in
      let attrs := rd (hlen + 18) 2 sbuf in
      if zlen sbuf <? doff then Err E_BEYOND else
      let kind := if negb (Z.land attrs 1 =? 0) then codec_kind g else 0 in
      do ek <-
        (if kind =? 0 then Ok ([], 0) else
           match slice doff (zlen sbuf) sbuf with
           | None => Panic 101
           | Some payload =>
             match dec kind payload with
             | Some e => Ok (e, kind)
             | None => Ok ([], 0)
             end
           end);
      let '(encap, kind') := ek in
      do kp <- sections_loop rs (Z.to_nat (zlen encap) + 1) encap pol 0 0;
      let '(kids, pol') := kp in
      Ok (NSec (mkSec size3 stype ext hlen (Some (mkGd g doff attrs kind')) [] 0 [] None order)
               sbuf kids, pol')
    else if stype =? 21 then
      if zlen sbuf <=? hlen then Err E_OVERSIZEHDR else
      Ok (NSec (mkSec size3 stype ext hlen None (u2s (zskipn hlen sbuf)) 0 [] None order) sbuf [], pol)
    else if stype =? 20 then
      if zlen sbuf <=? hlen + 2 then Err E_OVERSIZEHDR else
      Ok (NSec (mkSec size3 stype ext hlen None [] (rd hlen 2 sbuf) (u2s (zskipn (hlen + 2) sbuf)) None order)
               sbuf [], pol)
    else if stype =? 23 then
      if zlen sbuf <=? hlen then Err E_OVERSIZEHDR else
      do vp <- rf pol (zskipn hlen sbuf) 0 true;
      let '(v, pol') := vp in
      Ok (NSec h0 sbuf [v], pol')
    else if (stype =? 19) || (stype =? 27) || (stype =? 28) then
      if zlen sbuf <=? hlen then Err E_OVERSIZEHDR else
      let body := zskipn hlen sbuf in
      Ok (NSec (mkSec size3 stype ext hlen None [] 0 []
                      (match parse_depex (length body + 1) body with Some l => Some l | None => Some [] end)
                      order) sbuf [], pol)
    else Ok (NSec h0 sbuf [], pol).

Lemma section_body_eq rs rf pol buf order :
  sbody rs rf pol buf order =
  if zlen buf <? 4 then Err E_SHORT else
  do he <- sec_head buf;
  let '(hlen, ext) := he in
  if zlen buf <? ext then Err E_SIZE else
  sec_tail rs rf pol (sub 0 ext buf) (rd 0 3 buf) (rd 3 1 buf) ext hlen order.
Proof. reflexivity. Qed.


(* parsing a buffer that starts with a self-sized section reads the same header *)
Lemma sec_head_app sb rest hlen ext :
  4 <= zlen sb -> sec_head sb = Ok (hlen, ext) -> ext = zlen sb ->
  (known_section (rd 3 1 sb) = false -> rd 0 3 sb <= zlen sb) ->
  sec_head (sb ++ rest) = Ok (hlen, ext).
Proof.
  intros H4 Hh He Hu. unfold sec_head in *.
  rewrite (rd_app_l sb rest 0 3) by (simpl; lia). rewrite (rd_app_l sb rest 3 1) by (simpl; lia).
  destruct (known_section (rd 3 1 sb)).
  - destruct (rd 0 3 sb =? 16777215); [|assumption].
    destruct (zlen sb <? 8) eqn:E8; [discriminate|].
    rewrite zlen_app. pose proof (zlen_nonneg rest).
    replace (zlen sb + zlen rest <? 8) with false by lia.
    rewrite (rd_app_l sb rest 4 4) by (simpl; lia). assumption.
  - specialize (Hu eq_refl). inversion Hh; subst. f_equal. f_equal.
    rewrite zlen_app. pose proof (zlen_nonneg rest). lia.
Qed.

Definition bad_rs : Z -> bytes -> Z -> outcome (node * Z) := fun _ _ _ => Fuel.
Definition bad_rf : Z -> bytes -> Z -> bool -> outcome (node * Z) := fun _ _ _ _ => Fuel.

(* a section that parses to a leaf without any recursive call parses to the same leaf whatever the
   recursive parsers and the order index are *)
Lemma sec_tail_leaf rs rf pol sbuf size3 stype ext hlen o h b pol' :
  sec_tail bad_rs bad_rf pol sbuf size3 stype ext hlen o = Ok (NSec h b [], pol') ->
  b = sbuf /\ pol' = pol /\
  forall i, sec_tail rs rf pol sbuf size3 stype ext hlen i = Ok (NSec (set_order h i) sbuf [], pol).
Proof.
  unfold sec_tail. destruct (stype =? 2).
  { destruct (zlen sbuf <? hlen + 20); [discriminate|].
    destruct (zlen sbuf <? rd (hlen + 16) 2 sbuf); [discriminate|].
    match goal with |- context [bind ?e _] => destruct e as [[encap kind']| | |] end; cbn [bind]; try discriminate.
    rewrite !Nat.add_1_r. cbn [sections_loop].
    destruct (0 <? zlen encap); [cbn; discriminate|]. cbn [bind].
    intros H; inversion H; subst. repeat split. }
  destruct (stype =? 21).
  { destruct (zlen sbuf <=? hlen); [discriminate|]. intros H; inversion H; subst. repeat split. }
  destruct (stype =? 20).
  { destruct (zlen sbuf <=? hlen + 2); [discriminate|]. intros H; inversion H; subst. repeat split. }
  destruct (stype =? 23).
  { destruct (zlen sbuf <=? hlen); [discriminate|]. cbn. discriminate. }
  destruct ((stype =? 19) || (stype =? 27) || (stype =? 28)).
  { destruct (zlen sbuf <=? hlen); [discriminate|]. intros H; inversion H; subst. repeat split. }
  intros H; inversion H; subst. repeat split.
Qed.

(* leaf sections: [leaf_ok] says that the section's own bytes parse (without recursion) to this very
   node; it is what "obtained by parsing" gives for a leaf.  The extra clause concerns section types
   the parser does not know: their size is clamped to the available data, so the size field must
   not exceed the node. *)
Definition leaf_ok (pol : Z) (h : sechdr) (buf : bytes) : Prop :=
  sbody bad_rs bad_rf pol buf (s_order h) = Ok (NSec h buf [], pol) /\
  (known_section (s_type h) = false -> s_size3 h <= zlen buf).

Lemma sec_tail_type rs rf pol sbuf size3 stype ext hlen o h b kids pol' :
  sec_tail rs rf pol sbuf size3 stype ext hlen o = Ok (NSec h b kids, pol') ->
  s_type h = stype /\ s_size3 h = size3 /\ s_ext h = ext /\ s_hlen h = hlen /\ b = sbuf.
Proof.
  unfold sec_tail.
  repeat match goal with
  | |- context [if ?c then _ else _] => destruct c
  | |- Err _ = Ok _ -> _ => discriminate
  | |- bind ?e _ = Ok _ -> _ => destruct e as [[? ?]| | |]; cbn [bind]; try discriminate
  end; intros H; inversion H; subst; repeat split.
Qed.

Lemma leaf_reparse pol h buf : leaf_ok pol h buf ->
  forall rs rf rest i, sbody rs rf pol (buf ++ rest) i = Ok (NSec (set_order h i) buf [], pol).
Proof.
  intros [Hp Hu] rs rf rest i. rewrite section_body_eq in Hp |- *.
  destruct (zlen buf <? 4) eqn:E4; [discriminate|].
  destruct (sec_head buf) as [[hlen ext]| | |] eqn:Hh; cbn [bind] in Hp; try discriminate.
  destruct (zlen buf <? ext) eqn:Ee; [discriminate|].
  pose proof (sec_tail_type _ _ _ _ _ _ _ _ _ _ _ _ _ Hp) as (Ht & Hs3 & Hext & Hhl & Hb).
  assert (Hx : ext = zlen buf) by (apply sub0_whole; [lia|lia|symmetry; exact Hb]).
  assert (Hh' : sec_head (buf ++ rest) = Ok (hlen, ext)).
  { apply sec_head_app; try assumption; [lia|]. rewrite <- Ht, <- Hs3. exact Hu. }
  rewrite zlen_app. pose proof (zlen_nonneg rest).
  replace (zlen buf + zlen rest <? 4) with false by lia.
  rewrite Hh'. cbn [bind].
  replace (zlen buf + zlen rest <? ext) with false by lia.
  rewrite (rd_app_l buf rest 0 3) by (simpl; lia). rewrite (rd_app_l buf rest 3 1) by (simpl; lia).
  replace (sub 0 ext (buf ++ rest)) with buf.
  2:{ rewrite Hx. symmetry. apply sub_app_here. reflexivity. }
  rewrite <- Hb in Hp.
  destruct (sec_tail_leaf rs rf _ _ _ _ _ _ _ _ _ _ Hp) as (_ & _ & Hall).
  apply Hall.
Qed.


(* ---------- GenSecHeader ---------- *)

Definition tshdr (g : option gdhdr) : bytes :=
  match g with
  | Some g => gd_guid g ++ le_enc 2 (gd_dataoff g) ++ le_enc 2 (gd_attrs g)
  | None => []
  end.

Definition tslen (g : option gdhdr) : Z := match g with Some _ => 20 | None => 0 end.

Definition regd (hl : Z) (g : option gdhdr) : option gdhdr :=
  match g with
  | Some g => Some (mkGd (gd_guid g) hl (gd_attrs g) (gd_kind g))
  | None => None
  end.

(* what GenSecHeader produces when the section stays below 4 GiB (no uint32 wrap) *)
Lemma gen_shape h body : zlen body < 4294967000 ->
  exists chdr hl size3,
    (hl = 4 \/ hl = 8) /\ zlen chdr = hl /\
    let ext := hl + tslen (s_gd h) + zlen body in
    gen_sec_header h body =
      (mkSec size3 (s_type h) ext hl (regd (hl + tslen (s_gd h)) (s_gd h)) (s_name h) (s_build h)
             (s_version h) (s_depex h) (s_order h),
       chdr ++ tshdr (regd (hl + tslen (s_gd h)) (s_gd h)) ++ body) /\
    (forall X, rd 0 3 (chdr ++ X) = size3 /\ rd 3 1 (chdr ++ X) = s_type h) /\
    (forall X, known_section (s_type h) = true -> sec_head (chdr ++ X) = Ok (hl, ext)) /\
    (16777215 <? ext = (hl =? 8)).
Proof.
  intros Hb. pose proof (zlen_nonneg body) as Hn.
  unfold gen_sec_header.
  set (hl0 := 4 + match s_gd h with Some _ => 20 | None => 0 end).
  assert (Hhl0 : hl0 = 4 + tslen (s_gd h)) by (unfold hl0, tslen; destruct (s_gd h); reflexivity).
  assert (Hts : tslen (s_gd h) = 0 \/ tslen (s_gd h) = 20) by (unfold tslen; destruct (s_gd h); auto).
  assert (He0 : (zlen body + hl0) mod U32 = zlen body + hl0).
  { apply Z.mod_small. unfold U32. change (2 ^ 32) with 4294967296. lia. }
  rewrite He0.
  destruct (16777215 <=? zlen body + hl0) eqn:Ebig.
  - (* extended header *)
    assert (He1 : (zlen body + hl0 + 4) mod U32 = zlen body + hl0 + 4).
    { apply Z.mod_small. unfold U32. change (2 ^ 32) with 4294967296. lia. }
    rewrite He1.
    replace (16777215 <=? zlen body + hl0 + 4) with true by lia.
    exists (le_enc 3 16777215 ++ [s_type h] ++ le_enc 4 (zlen body + hl0 + 4)), 8, 16777215.
    split; [auto|]. split; [reflexivity|].
    assert (Hw : write3 (zlen body + hl0 + 4) = 16777215) by (unfold write3; replace (16777215 <=? zlen body + hl0 + 4) with true by lia; reflexivity).
    rewrite Hw.
    replace (8 + tslen (s_gd h) + zlen body) with (zlen body + hl0 + 4) by lia.
    replace ((hl0 + 4) mod 65536) with (8 + tslen (s_gd h)) by (rewrite Z.mod_small; lia).
    split; [|split; [|split]].
    + destruct (s_gd h) as [g|]; unfold regd, tshdr, tslen; cbn [gd_guid gd_dataoff gd_attrs];
        rewrite <- ?app_assoc, ?app_nil_r; reflexivity.
    + intros X. split.
      * rewrite <- !app_assoc. rewrite rd_app_here by reflexivity. reflexivity.
      * rewrite <- !app_assoc. exact (rd1_at (le_enc 3 16777215) (s_type h) _).
    + intros X Hk. unfold sec_head.
      assert (R0 : rd 0 3 ((le_enc 3 16777215 ++ [s_type h] ++ le_enc 4 (zlen body + hl0 + 4)) ++ X) = 16777215).
      { rewrite <- !app_assoc. rewrite rd_app_here by reflexivity. reflexivity. }
      assert (R3 : rd 3 1 ((le_enc 3 16777215 ++ [s_type h] ++ le_enc 4 (zlen body + hl0 + 4)) ++ X) = s_type h).
      { rewrite <- !app_assoc. exact (rd1_at (le_enc 3 16777215) (s_type h) _). }
      rewrite R0, R3, Hk. change (16777215 =? 16777215) with true. cbv iota.
      rewrite !zlen_app, le4. pose proof (zlen_nonneg X).
      change (zlen (le_enc 3 16777215)) with 3. change (zlen [s_type h]) with 1.
      replace (3 + (1 + 4) + zlen X <? 8) with false by lia.
      assert (R4 : rd 4 4 ((le_enc 3 16777215 ++ [s_type h] ++ le_enc 4 (zlen body + hl0 + 4)) ++ X) = zlen body + hl0 + 4).
      { replace ((le_enc 3 16777215 ++ [s_type h] ++ le_enc 4 (zlen body + hl0 + 4)) ++ X)
          with ((le_enc 3 16777215 ++ [s_type h]) ++ le_enc 4 (zlen body + hl0 + 4) ++ X)
          by (rewrite <- !app_assoc; reflexivity).
        change 4 with (zlen (le_enc 3 16777215 ++ [s_type h])) at 1.
        rewrite rd_at by (apply le4). apply le_dec_enc. change (256 ^ Z.of_nat 4) with 4294967296. lia. }
      rewrite R4. replace (zlen body + hl0 + 4 =? 4294967295) with false by lia. reflexivity.
    + lia.
  - (* short header *)
    replace (16777215 <=? zlen body + hl0) with false by lia.
    exists (le_enc 3 (zlen body + hl0) ++ [s_type h]), 4, (zlen body + hl0).
    split; [auto|]. split; [rewrite zlen_app; reflexivity|].
    assert (Hw : write3 (zlen body + hl0) = zlen body + hl0) by (unfold write3; replace (16777215 <=? zlen body + hl0) with false by lia; reflexivity).
    rewrite Hw.
    replace (4 + tslen (s_gd h) + zlen body) with (zlen body + hl0) by lia.
    replace (hl0 mod 65536) with (4 + tslen (s_gd h)) by (rewrite Z.mod_small; lia).
    assert (R0 : forall X, rd 0 3 ((le_enc 3 (zlen body + hl0) ++ [s_type h]) ++ X) = zlen body + hl0).
    { intros X. rewrite <- !app_assoc. rewrite rd_app_here by reflexivity.
      apply le_dec_enc. change (256 ^ Z.of_nat 3) with 16777216. lia. }
    assert (R3 : forall X, rd 3 1 ((le_enc 3 (zlen body + hl0) ++ [s_type h]) ++ X) = s_type h).
    { intros X. rewrite <- !app_assoc. exact (rd1_at (le_enc 3 (zlen body + hl0)) (s_type h) _). }
    split; [|split; [|split]].
    + destruct (s_gd h) as [g|]; unfold regd, tshdr, tslen; cbn [gd_guid gd_dataoff gd_attrs];
        rewrite <- ?app_assoc, ?app_nil_r; reflexivity.
    + intros X. split; [apply R0|apply R3].
    + intros X Hk. unfold sec_head. rewrite R0, R3, Hk.
      replace (zlen body + hl0 =? 16777215) with false by lia. reflexivity.
    + lia.
Qed.


(* ---------- the encapsulated form: join4 and the section loop ---------- *)

Definition pad4 (o : Z) : bytes := zrepeat 0 (align4 o - o).

Fixpoint tailj (o : Z) (l : list bytes) : bytes :=
  match l with
  | [] => []
  | b :: r => pad4 o ++ b ++ tailj (align4 o + zlen b) r
  end.

Lemma zlen_pad4 o : 0 <= o -> zlen (pad4 o) = align4 o - o.
Proof. intros. unfold pad4. apply zlen_zrepeat. pose proof (align4_ge o). lia. Qed.

Lemma join4_tailj : forall l acc, join4 acc l = acc ++ tailj (zlen acc) l.
Proof.
  induction l as [|b r IH]; intros acc; cbn [join4 tailj]; [rewrite app_nil_r; reflexivity|].
  rewrite IH. rewrite <- !app_assoc. fold (pad4 (zlen acc)).
  rewrite !zlen_app, zlen_pad4 by apply zlen_nonneg.
  replace (zlen acc + (align4 (zlen acc) - zlen acc + zlen b)) with (align4 (zlen acc) + zlen b) by lia.
  reflexivity.
Qed.

Lemma pad4_shift a o : a mod 4 = 0 -> pad4 (a + o) = pad4 o.
Proof. intros. unfold pad4. rewrite align4_add by assumption. f_equal. lia. Qed.

Lemma tailj_shift a : a mod 4 = 0 -> forall l o, tailj (a + o) l = tailj o l.
Proof.
  intros Ha. induction l as [|b r IH]; intros o; cbn [tailj]; [reflexivity|].
  rewrite pad4_shift by assumption. rewrite align4_add by assumption.
  rewrite <- Z.add_assoc. rewrite IH. reflexivity.
Qed.

(* what a recursive section parser must do on the children for the loop lemma *)
Definition reparses_sec (rs : Z -> bytes -> Z -> outcome (node * Z)) (pol : Z) (k : node) : Prop :=
  0 < zlen (node_buf k) /\
  forall rest i, exists k2, rs pol (node_buf k ++ rest) i = Ok (k2, pol) /\
                            strip k2 = strip k /\ sec_ext k2 = zlen (node_buf k).

Lemma loop_tailj rs pol : forall kids, Forall (reparses_sec rs pol) kids ->
  forall pre o n i, zlen pre = o -> (length kids < n)%nat ->
  exists kids2,
    sections_loop rs n (pre ++ tailj o (map node_buf kids)) pol (align4 o) i = Ok (kids2, pol) /\
    map strip kids2 = map strip kids.
Proof.
  induction 1 as [|k r [Hpos Hk] Hr IH]; intros pre o n i Ho Hn.
  - destruct n as [|n]; [simpl in Hn; lia|]. cbn [map tailj sections_loop]. rewrite app_nil_r.
    pose proof (zlen_nonneg pre). pose proof (align4_ge o ltac:(lia)).
    replace (align4 o <? zlen pre) with false by lia. exists []. split; reflexivity.
  - destruct n as [|n]; [simpl in Hn; lia|]. cbn [map tailj sections_loop].
    pose proof (zlen_nonneg pre) as Hp. pose proof (align4_ge o ltac:(lia)) as Ha.
    set (kb := node_buf k) in *. set (tl := tailj (align4 o + zlen kb) (map node_buf r)).
    assert (Hoff : align4 o = zlen (pre ++ pad4 o)) by (rewrite zlen_app, zlen_pad4 by lia; lia).
    replace (align4 o <? zlen (pre ++ pad4 o ++ kb ++ tl)) with true
      by (rewrite !zlen_app, zlen_pad4 by lia; pose proof (zlen_nonneg tl); lia).
    replace (zskipn (align4 o) (pre ++ pad4 o ++ kb ++ tl)) with (kb ++ tl).
    2:{ rewrite Hoff. rewrite app_assoc. rewrite zskipn_app_exact. reflexivity. }
    destruct (Hk tl i) as (k2 & Hrs & Hs & He). rewrite Hrs. cbn [bind].
    rewrite He. replace (zlen kb =? 0) with false by lia.
    destruct (IH (pre ++ pad4 o ++ kb) (align4 o + zlen kb) n (i + 1)) as (r2 & Hl & Hm).
    { rewrite !zlen_app, zlen_pad4 by lia. lia. }
    { simpl in Hn. lia. }
    replace (pre ++ pad4 o ++ kb ++ tl) with ((pre ++ pad4 o ++ kb) ++ tl) by (rewrite <- !app_assoc; reflexivity).
    unfold tl. rewrite Hl. cbn [bind]. exists (k2 :: r2). split; [reflexivity|].
    cbn [map]. rewrite Hs, Hm. reflexivity.
Qed.

Lemma align4_0 : align4 0 = 0. Proof. reflexivity. Qed.

(* the loop over a decompressed payload *)
Lemma loop_join4 rs pol kids n i : Forall (reparses_sec rs pol) kids -> (length kids < n)%nat ->
  exists kids2,
    sections_loop rs n (join4 [] (map node_buf kids)) pol 0 i = Ok (kids2, pol) /\
    map strip kids2 = map strip kids.
Proof.
  intros H Hn. rewrite join4_tailj.
  exact (loop_tailj rs pol kids H [] 0 n i eq_refl Hn).
Qed.

(* the loop over the body of a file whose header is [hdr] (24 or 32 bytes) *)
Lemma loop_file rs pol kids hdr n i : Forall (reparses_sec rs pol) kids -> (length kids < n)%nat ->
  (zlen hdr) mod 4 = 0 ->
  exists kids2,
    sections_loop rs n (hdr ++ join4 [] (map node_buf kids)) pol (zlen hdr) i = Ok (kids2, pol) /\
    map strip kids2 = map strip kids.
Proof.
  intros H Hn Hm. rewrite join4_tailj. cbn [app]. change (zlen (@nil Z)) with 0.
  pose proof (loop_tailj rs pol kids H hdr (zlen hdr) n i eq_refl Hn) as G.
  rewrite (align4_fix (zlen hdr) Hm) in G.
  assert (E : tailj (zlen hdr) (map node_buf kids) = tailj 0 (map node_buf kids)).
  { rewrite <- (tailj_shift (zlen hdr) Hm (map node_buf kids) 0). f_equal. lia. }
  rewrite E in G. exact G.
Qed.

Lemma length_le_zlen_join (kids : list node) :
  Forall (fun k => 0 < zlen (node_buf k)) kids ->
  Z.of_nat (length kids) <= zlen (join4 [] (map node_buf kids)).
Proof.
  intros H. rewrite join4_tailj. cbn [app]. generalize (zlen (@nil Z)). 
  induction H as [|k r Hk Hr IH]; intros o; cbn [map tailj length]; [unfold zlen; simpl; lia|].
  rewrite !zlen_app. specialize (IH (align4 o + zlen (node_buf k))).
  pose proof (zlen_nonneg (pad4 o)). lia.
Qed.


(* ---------- re-parsing a compressed GUID-defined section written by Assemble ---------- *)

Lemma sbody_comp rs rf pol h h' g c buf kids rest i :
  s_type h = 2 -> s_gd h = Some g -> zlen (gd_guid g) = 16 -> 0 <= gd_attrs g < 65536 ->
  Z.land (gd_attrs g) 1 <> 0 -> codec_kind (gd_guid g) <> 0 ->
  enc (codec_kind (gd_guid g)) (join4 [] (map node_buf kids)) = Some c ->
  zlen c < 4294967000 ->
  gen_sec_header h c = (h', buf) ->
  Forall (reparses_sec rs pol) kids ->
  exists kids2,
    sbody rs rf pol (buf ++ rest) i =
      Ok (NSec (mkSec (s_size3 h') 2 (s_ext h') (s_hlen h')
                      (Some (mkGd (gd_guid g) (s_hlen h' + 20) (gd_attrs g) (codec_kind (gd_guid g))))
                      [] 0 [] None i) buf kids2, pol) /\
    map strip kids2 = map strip kids /\ s_ext h' = zlen buf /\ 4 <= zlen buf /\
    s_gd h' = Some (mkGd (gd_guid g) (s_hlen h' + 20) (gd_attrs g) (gd_kind g)) /\
    s_type h' = 2 /\ s_name h' = s_name h /\ s_build h' = s_build h /\ s_version h' = s_version h /\
    s_depex h' = s_depex h /\ s_order h' = s_order h.
Proof.
  intros Ht Hg Hg16 Hattr Hbit Hkind Henc Hc Hgen Hkids.
  destruct (gen_shape h c Hc) as (chdr & hl & size3 & Hhl & Hlen & Hgen' & Hrd & Hhead & _).
  rewrite Hgen in Hgen'. rewrite Hg in Hgen', Hhead. cbn [tslen regd tshdr gd_guid gd_dataoff gd_attrs] in Hgen', Hhead.
  pose proof (f_equal fst Hgen') as Hh'. pose proof (f_equal snd Hgen') as Hbuf.
  cbn [fst snd] in Hh', Hbuf. clear Hgen' Hgen. subst h' buf.
  cbn [s_size3 s_ext s_hlen s_gd s_type s_name s_build s_version s_depex s_order].
  set (guid := gd_guid g) in *. set (attrs := gd_attrs g) in *.
  set (tsh := guid ++ le_enc 2 (hl + 20) ++ le_enc 2 attrs).
  pose proof (zlen_nonneg c) as Hcn. pose proof (zlen_nonneg rest) as Hrn.
  assert (Htsh : zlen tsh = 20) by (unfold tsh; rewrite !zlen_app, !le2; lia).
  assert (Hzb : zlen (chdr ++ tsh ++ c) = hl + 20 + zlen c) by (rewrite !zlen_app; lia).
  set (B := chdr ++ tsh ++ c) in *.
  assert (Hdata : dec (codec_kind guid) c = Some (join4 [] (map node_buf kids))) by (apply dec_enc; exact Henc).
  assert (Hn : (length kids < Z.to_nat (zlen (join4 [] (map node_buf kids))) + 1)%nat).
  { pose proof (length_le_zlen_join kids) as L.
    assert (Forall (fun k => 0 < zlen (node_buf k)) kids) as F.
    { clear - Hkids. induction Hkids as [|k r [Hp _] _ IH]; constructor; assumption. }
    specialize (L F). lia. }
  destruct (loop_join4 rs pol kids _ 0 Hkids Hn) as (kids2 & Hloop & Hstrip).
  exists kids2. split; [|repeat split; try assumption; try lia].
  rewrite section_body_eq.
  replace (zlen (B ++ rest) <? 4) with false by (rewrite zlen_app; lia).
  assert (HB : B ++ rest = chdr ++ (tsh ++ c) ++ rest) by (unfold B; rewrite <- !app_assoc; reflexivity).
  rewrite HB at 1. rewrite (Hhead _ ltac:(rewrite Ht; reflexivity)). cbn [bind].
  cbn [tslen]. replace (zlen (B ++ rest) <? hl + 20 + zlen c) with false by (rewrite zlen_app; lia).
  replace (sub 0 (hl + 20 + zlen c) (B ++ rest)) with B by (symmetry; apply sub_app_here; exact Hzb).
  rewrite HB. destruct (Hrd ((tsh ++ c) ++ rest)) as [R0 R3]. rewrite R0, R3. rewrite Ht.
  unfold sec_tail. change (2 =? 2) with true. cbv iota.
  replace (zlen B <? hl + 20) with false by lia.
  assert (Sg : sub hl 16 B = guid).
  { unfold B, tsh. rewrite <- Hlen. rewrite <- !app_assoc. apply sub_at. exact Hg16. }
  assert (Rd : rd (hl + 16) 2 B = hl + 20).
  { unfold B, tsh. replace (chdr ++ (guid ++ le_enc 2 (hl + 20) ++ le_enc 2 attrs) ++ c)
      with ((chdr ++ guid) ++ le_enc 2 (hl + 20) ++ (le_enc 2 attrs ++ c)) by (rewrite <- !app_assoc; reflexivity).
    replace (hl + 16) with (zlen (chdr ++ guid)) by (rewrite zlen_app; lia).
    rewrite rd_at by apply le2. apply le_dec_enc. change (256 ^ Z.of_nat 2) with 65536. lia. }
  assert (Ra : rd (hl + 18) 2 B = attrs).
  { unfold B, tsh. replace (chdr ++ (guid ++ le_enc 2 (hl + 20) ++ le_enc 2 attrs) ++ c)
      with ((chdr ++ guid ++ le_enc 2 (hl + 20)) ++ le_enc 2 attrs ++ c) by (rewrite <- !app_assoc; reflexivity).
    replace (hl + 18) with (zlen (chdr ++ guid ++ le_enc 2 (hl + 20))) by (rewrite !zlen_app, le2; lia).
    rewrite rd_at by apply le2. apply le_dec_enc. change (256 ^ Z.of_nat 2) with 65536. exact Hattr. }
  rewrite Sg, Rd, Ra.
  replace (zlen B <? hl + 20) with false by lia.
  replace (Z.land attrs 1 =? 0) with false by lia. cbn [negb].
  replace (codec_kind guid =? 0) with false by lia.
  rewrite slice_ok by lia.
  replace (sub (hl + 20) (zlen B - (hl + 20)) B) with c.
  2:{ unfold B. replace (chdr ++ tsh ++ c) with ((chdr ++ tsh) ++ c ++ []) by (rewrite app_nil_r, <- app_assoc; reflexivity).
      replace (hl + 20) with (zlen (chdr ++ tsh)) by (rewrite zlen_app; lia).
      symmetry. apply sub_at. rewrite !zlen_app. change (zlen (@nil Z)) with 0. lia. }
  rewrite Hdata. cbn [bind]. rewrite Hloop. cbn [bind]. reflexivity.
Qed.


(* ---------- canonical (assembled) trees ---------- *)

Definition is_sec (n : node) : Prop := match n with NSec _ _ _ => True | _ => False end.

Definition asm_node (r : outcome (node * ast)) : option node :=
  match r with Ok (n, _) => Some n | _ => None end.

(* the node Assemble makes of a section does not depend on the visitor state *)
Lemma sec_asm_node_st h buf kids st st' :
  asm_node (secasm h buf kids st) = asm_node (secasm h buf kids st').
Proof.
  destruct st as [p f], st' as [p' f']. unfold sec_asm.
  destruct kids as [|k r].
  - match goal with |- context [bind ?e _] => destruct e as [[b|]| | |] end; cbn [bind asm_node]; reflexivity.
  - match goal with |- context [bind ?e _] => destruct e as [b| | |] end; cbn [bind asm_node]; reflexivity.
Qed.

(* a leaf section that Assemble leaves as it is: any section that is not regenerated (everything
   but UI, version and dependency sections), and those three when their bytes are already what
   Assemble regenerates from the decoded fields *)
Definition leaf_stable (h : sechdr) (buf : bytes) : Prop :=
  asm_node (secasm h buf [] (255, false)) = Some (NSec h buf []).

Lemma leaf_stable_asm h buf st : leaf_stable h buf ->
  exists st', secasm h buf [] st = Ok (NSec h buf [], st').
Proof.
  unfold leaf_stable. rewrite (sec_asm_node_st h buf [] (255, false) st).
  destruct (secasm h buf [] st) as [[n st']| | |]; cbn [asm_node]; try discriminate.
  intros [= ->]. eauto.
Qed.

Fixpoint height (n : node) : nat :=
  match n with
  | NSec _ _ kids | NFile _ _ kids | NVol _ _ kids => S (fold_right (fun k m => Nat.max (height k) m) 0%nat kids)
  | NPad _ _ => 1%nat
  end.

Lemma height_kids k kids : In k kids ->
  (height k <= fold_right (fun k m => Nat.max (height k) m) 0%nat kids)%nat.
Proof.
  induction kids as [|x r IH]; intros H; [destruct H|].
  cbn [fold_right]. destruct H as [->|H]; [lia|]. specialize (IH H). lia.
Qed.

(* the file header Assemble regenerates for section data [data] *)
Definition file_regen (h : filehdr) (data : bytes) : filehdr * bytes :=
  let '(ext, attr) := set_size (f_attr h) (24 + zlen data) true in
  checksum_and_assemble h ext attr data.

Definition bad_rsec : Z -> bytes -> Z -> outcome (node * Z) := fun _ _ _ => Fuel.

(* a file without sections: its own bytes parse (without recursion) to this very node *)
Definition file_leaf_ok (pol : Z) (h : filehdr) (buf : bytes) : Prop :=
  fbody bad_rsec pol buf = Ok (Some (NFile h buf []), pol).

(* [canon pol n]: n is in the form Assemble writes — leaves that are stable, compressed sections
   whose buffer is GenSecHeader applied to the encoding of the children, files whose buffer is
   the regenerated header followed by the joined sections. *)
Inductive canon (pol : Z) : node -> Prop :=
| canon_leaf h buf :
    leaf_ok pol h buf -> leaf_stable h buf -> canon pol (NSec h buf [])
| canon_comp h buf kids g c :
    kids <> [] -> Forall (canon pol) kids -> Forall is_sec kids ->
    s_type h = 2 -> s_gd h = Some g -> zlen (gd_guid g) = 16 -> 0 <= gd_attrs g < 65536 ->
    Z.land (gd_attrs g) 1 <> 0 -> codec_kind (gd_guid g) <> 0 ->
    gd_kind g = codec_kind (gd_guid g) ->
    s_name h = [] -> s_build h = 0 -> s_version h = [] -> s_depex h = None ->
    enc (codec_kind (gd_guid g)) (join4 [] (map node_buf kids)) = Some c ->
    zlen c < 4294967000 ->
    gen_sec_header h c = (h, buf) ->
    canon pol (NSec h buf kids)
| canon_file_leaf h buf :
    file_leaf_ok pol h buf -> f_nvar h = None -> canon pol (NFile h buf [])
| canon_file h buf kids :
    kids <> [] -> Forall (canon pol) kids -> Forall is_sec kids ->
    f_nvar h = None -> supported_file (f_type h) = true -> zlen (f_guid h) = 16 ->
    zlen (join4 [] (map node_buf kids)) < 4294967000 ->
    f_dataoff h = (if attr_large (f_attr h) then 32 else 24) ->
    file_regen h (join4 [] (map node_buf kids)) = (h, buf) ->
    canon pol (NFile h buf kids).

(* ---------- stage 1: sections (any nesting of compressed sections over leaf sections) ---------- *)

Lemma psec_S d pol buf i : psec (S d) pol buf i = sbody (psec d) (pfv d) pol buf i.
Proof. reflexivity. Qed.

Lemma pfile_S d pol buf : pfile (S d) pol buf = fbody (psec d) pol buf.
Proof. reflexivity. Qed.

Definition sec_reparses (pol : Z) (n : node) : Prop :=
  forall d, (height n <= d)%nat -> reparses_sec (psec d) pol n.

Lemma canon_sec_reparses pol n : canon pol n -> is_sec n -> sec_reparses pol n.
Proof.
  induction n as [h buf kids IH| | |] using node_ind'; intros Hc Hs; try (destruct Hs).
  inversion Hc; subst.
  - (* leaf *)
    intros d Hd. destruct d as [|d]; [simpl in Hd; lia|].
    match goal with H : leaf_ok _ _ _ |- _ => pose proof (leaf_reparse pol h buf H) as Hl; destruct H as [Hp _] end.
    assert (H4 : 4 <= zlen buf).
    { rewrite section_body_eq in Hp. destruct (zlen buf <? 4) eqn:E; [discriminate|]. lia. }
    split; [cbn [node_buf]; lia|]. intros rest i. cbn [node_buf].
    exists (NSec (set_order h i) buf []). rewrite psec_S, Hl. split; [reflexivity|]. split; [reflexivity|].
    (* s_ext h = zlen buf *)
    cbn [sec_ext set_order s_ext].
    rewrite section_body_eq in Hp. destruct (zlen buf <? 4); [discriminate|].
    destruct (sec_head buf) as [[hl ext]| | |]; cbn [bind] in Hp; try discriminate.
    destruct (zlen buf <? ext) eqn:Ee; [discriminate|].
    pose proof (sec_tail_type _ _ _ _ _ _ _ _ _ _ _ _ _ Hp) as (_ & _ & Hext & _ & Hb).
    rewrite Hext. apply sub0_whole; [lia|lia|symmetry; exact Hb].
  - (* compressed *)
    intros d Hd. destruct d as [|d]; [simpl in Hd; lia|].
    assert (Hkids : Forall (reparses_sec (psec d) pol) kids).
    { rewrite Forall_forall in *. intros k Hin.
      match goal with H : forall x, In x kids -> canon pol x |- _ => pose proof (H k Hin) as Hck end.
      match goal with H : forall x, In x kids -> is_sec x |- _ => pose proof (H k Hin) as Hsk end.
      apply (IH k Hin Hck Hsk). cbn [height] in Hd. pose proof (height_kids k kids Hin). lia. }
    match goal with Hg : gen_sec_header h ?c = (h, buf), He : enc _ _ = Some ?c |- _ =>
      pose proof (fun rest i => sbody_comp (psec d) (pfv d) pol h h g c buf kids rest i
        ltac:(assumption) ltac:(assumption) ltac:(assumption) ltac:(assumption) ltac:(assumption)
        ltac:(assumption) He ltac:(assumption) Hg Hkids) as Hsb end.
    destruct (Hsb [] 0) as (_ & _ & _ & _ & Hge4 & _).
    split; [cbn [node_buf]; lia|]. intros rest i. cbn [node_buf].
    destruct (Hsb rest i) as (kids2 & Hparse & Hstrip & Hext & _ & Hgd & _).
    eexists. rewrite psec_S. split; [exact Hparse|]. split; [|cbn [sec_ext s_ext]; exact Hext].
    cbn [strip]. rewrite Hstrip. f_equal.
    unfold set_order. cbn [s_size3 s_type s_ext s_hlen s_gd s_name s_build s_version s_depex].
    match goal with E1 : s_type h = 2, E2 : s_name h = [], E3 : s_build h = 0, E4 : s_version h = [],
      E5 : s_depex h = None, E6 : gd_kind g = _ |- _ => rewrite E1, E2, E3, E4, E5, Hgd, E6 end.
    reflexivity.
Qed.


(* ---------- stage 2: files ---------- *)

Lemma attr_large_set a : attr_large (set_large a true) = true.
Proof.
  unfold attr_large, set_large. rewrite Z.land_lor_distr_l. change (Z.land 1 1) with 1.
  destruct (Z.lor (Z.land a 1) 1 =? 0) eqn:E; [|reflexivity].
  apply Z.eqb_eq in E. apply Z.lor_eq_0_iff in E. destruct E; discriminate.
Qed.

Lemma attr_large_clear a : attr_large (set_large a false) = false.
Proof.
  unfold attr_large, set_large. rewrite <- Z.land_assoc. change (Z.land 254 1) with 0.
  rewrite Z.land_0_r. reflexivity.
Qed.

Lemma set_large_idem a b : set_large (set_large a b) b = set_large a b.
Proof.
  unfold set_large. destruct b.
  - rewrite <- Z.lor_assoc. reflexivity.
  - rewrite <- Z.land_assoc. reflexivity.
Qed.

Lemma sum8_app a b : sum8 (a ++ b) = (sum8 a + sum8 b) mod 256.
Proof.
  unfold sum8. assert (E : sum_list (a ++ b) = sum_list a + sum_list b).
  { induction a as [|x a IH]; simpl; [reflexivity|]. rewrite IH. lia. }
  rewrite E. apply Z.add_mod. lia.
Qed.

(* what SetSize + ChecksumAndAssemble produce for section data [data] *)
Lemma file_regen_shape h data : zlen (f_guid h) = 16 -> zlen data < 4294967000 ->
  exists hdr ckh ckf attr size3 hl,
    (hl = 24 \/ hl = 32) /\ zlen hdr = hl /\
    file_regen h data =
      (mkFile (f_guid h) ckh ckf (f_type h) attr size3 (f_state h) (hl + zlen data) (f_dataoff h) (f_nvar h),
       hdr ++ data) /\
    attr_large attr = (hl =? 32) /\ attr = set_large (f_attr h) (hl =? 32) /\
    (size3 =? 16777215) = (hl =? 32) /\
    (16777215 <? hl + zlen data) = (hl =? 32) /\
    (forall X, sub 0 16 (hdr ++ X) = f_guid h /\ rd 16 1 (hdr ++ X) = ckh /\ rd 17 1 (hdr ++ X) = ckf /\
               rd 18 1 (hdr ++ X) = f_type h /\ rd 19 1 (hdr ++ X) = attr /\ rd 20 3 (hdr ++ X) = size3 /\
               rd 23 1 (hdr ++ X) = f_state h /\ (hl = 32 -> rd 24 8 (hdr ++ X) = hl + zlen data)) /\
    (hl = 24 -> size3 = hl + zlen data).
Proof.
  intros Hg Hd. pose proof (zlen_nonneg data) as Hn.
  unfold file_regen, set_size, checksum_and_assemble.
  destruct (16777215 <=? 24 + zlen data) eqn:Ebig.
  - (* large *)
    rewrite attr_large_set.
    set (ext := 24 + zlen data + 8). set (attr := set_large (f_attr h) true).
    assert (Hw : write3 ext = 16777215) by (unfold write3, ext; replace (16777215 <=? 24 + zlen data + 8) with true by lia; reflexivity).
    rewrite Hw.
    match goal with |- context [mkFile _ ?a ?b _ _ _ _ _ _ _] => set (ckh := a); set (ckf := b) end.
    exists (file_header_bytes (f_guid h) ckh ckf (f_type h) attr 16777215 (f_state h) ext true), ckh, ckf, attr, 16777215, 32.
    assert (Hl : zlen (file_header_bytes (f_guid h) ckh ckf (f_type h) attr 16777215 (f_state h) ext true) = 32).
    { unfold file_header_bytes. rewrite !zlen_app, Hg, le8. reflexivity. }
    split; [auto|]. split; [exact Hl|].
    split; [unfold ext; f_equal; f_equal; lia|].
    split; [apply attr_large_set|]. split; [reflexivity|]. split; [reflexivity|]. split; [lia|].
    split; [|intros; lia].
    intros X. unfold file_header_bytes.
    set (g := f_guid h) in *.
    repeat split.
    + rewrite <- !app_assoc. apply sub_app_here. exact Hg.
    + rewrite <- !app_assoc. rewrite <- Hg. cbn [app]. apply rd1_at.
    + replace ((g ++ [ckh; ckf; f_type h; attr] ++ le_enc 3 16777215 ++ [f_state h] ++ le_enc 8 ext) ++ X)
        with ((g ++ [ckh]) ++ ckf :: ([f_type h; attr] ++ le_enc 3 16777215 ++ [f_state h] ++ le_enc 8 ext) ++ X)
        by (rewrite <- !app_assoc; reflexivity).
      replace 17 with (zlen (g ++ [ckh])) by (rewrite zlen_app, Hg; reflexivity). apply rd1_at.
    + replace ((g ++ [ckh; ckf; f_type h; attr] ++ le_enc 3 16777215 ++ [f_state h] ++ le_enc 8 ext) ++ X)
        with ((g ++ [ckh; ckf]) ++ f_type h :: ([attr] ++ le_enc 3 16777215 ++ [f_state h] ++ le_enc 8 ext) ++ X)
        by (rewrite <- !app_assoc; reflexivity).
      replace 18 with (zlen (g ++ [ckh; ckf])) by (rewrite zlen_app, Hg; reflexivity). apply rd1_at.
    + replace ((g ++ [ckh; ckf; f_type h; attr] ++ le_enc 3 16777215 ++ [f_state h] ++ le_enc 8 ext) ++ X)
        with ((g ++ [ckh; ckf; f_type h]) ++ attr :: (le_enc 3 16777215 ++ [f_state h] ++ le_enc 8 ext) ++ X)
        by (rewrite <- !app_assoc; reflexivity).
      replace 19 with (zlen (g ++ [ckh; ckf; f_type h])) by (rewrite zlen_app, Hg; reflexivity). apply rd1_at.
    + replace ((g ++ [ckh; ckf; f_type h; attr] ++ le_enc 3 16777215 ++ [f_state h] ++ le_enc 8 ext) ++ X)
        with ((g ++ [ckh; ckf; f_type h; attr]) ++ le_enc 3 16777215 ++ ([f_state h] ++ le_enc 8 ext) ++ X)
        by (rewrite <- !app_assoc; reflexivity).
      replace 20 with (zlen (g ++ [ckh; ckf; f_type h; attr])) by (rewrite zlen_app, Hg; reflexivity).
      rewrite rd_at by reflexivity. reflexivity.
    + replace ((g ++ [ckh; ckf; f_type h; attr] ++ le_enc 3 16777215 ++ [f_state h] ++ le_enc 8 ext) ++ X)
        with ((g ++ [ckh; ckf; f_type h; attr] ++ le_enc 3 16777215) ++ f_state h :: le_enc 8 ext ++ X)
        by (rewrite <- !app_assoc; reflexivity).
      replace 23 with (zlen (g ++ [ckh; ckf; f_type h; attr] ++ le_enc 3 16777215)) by (rewrite !zlen_app, Hg; reflexivity).
      apply rd1_at.
    + intros _.
      replace ((g ++ [ckh; ckf; f_type h; attr] ++ le_enc 3 16777215 ++ [f_state h] ++ le_enc 8 ext) ++ X)
        with ((g ++ [ckh; ckf; f_type h; attr] ++ le_enc 3 16777215 ++ [f_state h]) ++ le_enc 8 ext ++ X)
        by (rewrite <- !app_assoc; reflexivity).
      replace 24 with (zlen (g ++ [ckh; ckf; f_type h; attr] ++ le_enc 3 16777215 ++ [f_state h])) at 1
        by (rewrite !zlen_app, Hg; reflexivity).
      rewrite rd_at by apply le8. unfold ext. rewrite le_dec_enc; [lia|].
      change (256 ^ Z.of_nat 8) with 18446744073709551616. lia.
  - (* small *)
    rewrite attr_large_clear.
    set (ext := 24 + zlen data). set (attr := set_large (f_attr h) false).
    assert (Hw : write3 ext = ext) by (unfold write3, ext; replace (16777215 <=? 24 + zlen data) with false by lia; reflexivity).
    rewrite Hw.
    match goal with |- context [mkFile _ ?a ?b _ _ _ _ _ _ _] => set (ckh := a); set (ckf := b) end.
    exists (file_header_bytes (f_guid h) ckh ckf (f_type h) attr ext (f_state h) ext false), ckh, ckf, attr, ext, 24.
    assert (Hl : zlen (file_header_bytes (f_guid h) ckh ckf (f_type h) attr ext (f_state h) ext false) = 24).
    { unfold file_header_bytes. rewrite !zlen_app, Hg. reflexivity. }
    split; [auto|]. split; [exact Hl|].
    split; [reflexivity|].
    split; [apply attr_large_clear|]. split; [reflexivity|].
    split; [unfold ext; change (24 =? 32) with false; lia|]. split; [change (24 =? 32) with false; lia|].
    split; [|intros; reflexivity].
    intros X. unfold file_header_bytes. rewrite app_nil_r.
    set (g := f_guid h) in *.
    repeat split.
    + rewrite <- !app_assoc. apply sub_app_here. exact Hg.
    + rewrite <- !app_assoc. rewrite <- Hg. cbn [app]. apply rd1_at.
    + replace ((g ++ [ckh; ckf; f_type h; attr] ++ le_enc 3 ext ++ [f_state h]) ++ X)
        with ((g ++ [ckh]) ++ ckf :: ([f_type h; attr] ++ le_enc 3 ext ++ [f_state h]) ++ X)
        by (rewrite <- !app_assoc; reflexivity).
      replace 17 with (zlen (g ++ [ckh])) by (rewrite zlen_app, Hg; reflexivity). apply rd1_at.
    + replace ((g ++ [ckh; ckf; f_type h; attr] ++ le_enc 3 ext ++ [f_state h]) ++ X)
        with ((g ++ [ckh; ckf]) ++ f_type h :: ([attr] ++ le_enc 3 ext ++ [f_state h]) ++ X)
        by (rewrite <- !app_assoc; reflexivity).
      replace 18 with (zlen (g ++ [ckh; ckf])) by (rewrite zlen_app, Hg; reflexivity). apply rd1_at.
    + replace ((g ++ [ckh; ckf; f_type h; attr] ++ le_enc 3 ext ++ [f_state h]) ++ X)
        with ((g ++ [ckh; ckf; f_type h]) ++ attr :: (le_enc 3 ext ++ [f_state h]) ++ X)
        by (rewrite <- !app_assoc; reflexivity).
      replace 19 with (zlen (g ++ [ckh; ckf; f_type h])) by (rewrite zlen_app, Hg; reflexivity). apply rd1_at.
    + replace ((g ++ [ckh; ckf; f_type h; attr] ++ le_enc 3 ext ++ [f_state h]) ++ X)
        with ((g ++ [ckh; ckf; f_type h; attr]) ++ le_enc 3 ext ++ [f_state h] ++ X)
        by (rewrite <- !app_assoc; reflexivity).
      replace 20 with (zlen (g ++ [ckh; ckf; f_type h; attr])) by (rewrite zlen_app, Hg; reflexivity).
      rewrite rd_at by reflexivity. apply le_dec_enc. change (256 ^ Z.of_nat 3) with 16777216. unfold ext. lia.
    + replace ((g ++ [ckh; ckf; f_type h; attr] ++ le_enc 3 ext ++ [f_state h]) ++ X)
        with ((g ++ [ckh; ckf; f_type h; attr] ++ le_enc 3 ext) ++ f_state h :: X)
        by (rewrite <- !app_assoc; reflexivity).
      replace 23 with (zlen (g ++ [ckh; ckf; f_type h; attr] ++ le_enc 3 ext)) by (rewrite !zlen_app, Hg; reflexivity).
      apply rd1_at.
    + intros; lia.
Qed.


Lemma supported_not_1 t : supported_file t = true -> (t =? 1) = false.
Proof. intros H. destruct (t =? 1) eqn:E; [|reflexivity]. apply Z.eqb_eq in E. subst t. discriminate. Qed.

Lemma fbody_file rs pol h buf kids rest :
  f_nvar h = None -> supported_file (f_type h) = true -> zlen (f_guid h) = 16 ->
  zlen (join4 [] (map node_buf kids)) < 4294967000 ->
  f_dataoff h = (if attr_large (f_attr h) then 32 else 24) ->
  file_regen h (join4 [] (map node_buf kids)) = (h, buf) ->
  Forall (reparses_sec rs pol) kids ->
  exists kids2,
    fbody rs pol (buf ++ rest) = Ok (Some (NFile h buf kids2), pol) /\
    map strip kids2 = map strip kids /\ f_ext h = zlen buf /\ 24 <= zlen buf.
Proof.
  intros Hnv Hsup Hg Hd Hdo Hreg Hkids.
  set (data := join4 [] (map node_buf kids)) in *.
  destruct (file_regen_shape h data Hg Hd) as
    (hdr & ckh & ckf & attr & size3 & hl & Hhl & Hlen & Hreg' & Hlarge & Hattr & Hs3 & Hbig & Hrd & Hsz).
  rewrite Hreg in Hreg'.
  pose proof (f_equal fst Hreg') as Eh. pose proof (f_equal snd Hreg') as Eb. cbn [fst snd] in Eh, Eb.
  clear Hreg Hreg'.
  destruct h as [g0 ckh0 ckf0 t0 a0 s30 st0 e0 do0 nv0].
  cbn [f_guid f_ckh f_ckf f_type f_attr f_size3 f_state f_ext f_dataoff f_nvar] in *.
  injection Eh as Eckh Eckf Ea Es3 Ee. subst nv0 ckh0 ckf0 a0 s30 e0.
  pose proof (zlen_nonneg data) as Hdn. pose proof (zlen_nonneg rest) as Hrn.
  assert (Hzb : zlen buf = hl + zlen data) by (rewrite Eb, zlen_app; lia).
  assert (Hn : (length kids < Z.to_nat (hl + zlen data) + 1)%nat).
  { pose proof (length_le_zlen_join kids) as L.
    assert (Forall (fun k => 0 < zlen (node_buf k)) kids) as F.
    { clear - Hkids. induction Hkids as [|k r [Hp _] _ IH]; constructor; assumption. }
    specialize (L F). fold data in L. lia. }
  assert (Hm4 : zlen hdr mod 4 = 0) by (rewrite Hlen; destruct Hhl; subst hl; reflexivity).
  destruct (loop_file rs pol kids hdr _ 0 Hkids Hn Hm4) as (kids2 & Hloop & Hstrip).
  fold data in Hloop. rewrite Hlen in Hloop. rewrite <- Eb in Hloop.
  exists kids2. split; [|repeat split; try assumption; try lia].
  unfold file_body. cbv zeta.
  replace (zlen (buf ++ rest) <? 24) with false by (rewrite zlen_app; lia).
  assert (HB : buf ++ rest = hdr ++ data ++ rest) by (rewrite Eb, <- app_assoc; reflexivity).
  destruct (Hrd (data ++ rest)) as (R0 & R16 & R17 & R18 & R19 & R20 & R23 & R24).
  rewrite <- HB in R0, R16, R17, R18, R19, R20, R23, R24.
  rewrite R0, R16, R17, R18, R19, R20, R23. rewrite Hs3.
  rewrite (supported_not_1 _ Hsup). cbn [andb]. rewrite Hsup. cbn [negb].
  assert (Hdoff : do0 = hl).
  { rewrite Hdo, Hlarge. destruct Hhl; subst hl; reflexivity. }
  destruct Hhl; subst hl.
  - change (24 =? 32) with false. cbv iota. cbn [bind andb]. rewrite (Hsz eq_refl).
    replace (zlen (buf ++ rest) <? 24 + zlen data) with false by (rewrite zlen_app; lia).
    replace (sub 0 (24 + zlen data) (buf ++ rest)) with buf by (symmetry; apply sub_app_here; exact Hzb).
    cbn [bind]. rewrite Hloop. cbn [bind]. rewrite Hdoff. reflexivity.
  - change (32 =? 32) with true. cbv iota.
    replace (zlen (buf ++ rest) <? 32) with false by (rewrite zlen_app; lia).
    rewrite (R24 eq_refl). cbn [bind andb].
    replace (32 + zlen data =? U64 - 1) with false by (unfold U64; change (2 ^ 64) with 18446744073709551616; lia).
    replace (zlen (buf ++ rest) <? 32 + zlen data) with false by (rewrite zlen_app; lia).
    replace (sub 0 (32 + zlen data) (buf ++ rest)) with buf by (symmetry; apply sub_app_here; exact Hzb).
    cbn [bind]. rewrite Hloop. cbn [bind]. rewrite Hdoff.
    assert (Es : size3 = 16777215) by lia. rewrite Es. reflexivity.
Qed.

End Codec.
