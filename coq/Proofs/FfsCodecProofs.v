(* Proofs/FfsCodecProofs.v — property C06: compressed and nested content survives a save, and
   saving is a fixed point.  Lemmas about Model/Ffs.v under the codec hypothesis
   [dec_enc : enc k x = Some y -> dec k y = Some x] (no converse, no byte stability). *)
From Fiano Require Import Base.Bytes Base.BytesLemmas Model.Ffs.
From Coq Require Import ZifyBool ZifyNat.
Open Scope Z_scope.

(* ------------------------------------------------------------------------------------------ *)
(* small facts about byte strings                                                              *)
(* ------------------------------------------------------------------------------------------ *)

Lemma zfirstn_app_l {A} n (a b : list A) : n <= zlen a -> zfirstn n (a ++ b) = zfirstn n a.
Proof.
  intros H. unfold zfirstn, zlen in *. rewrite firstn_app.
  replace (Z.to_nat n - length a)%nat with 0%nat by lia. simpl. apply app_nil_r.
Qed.

Lemma zskipn_app_l {A} n (a b : list A) : n <= zlen a -> zskipn n (a ++ b) = zskipn n a ++ b.
Proof.
  intros H. unfold zskipn, zlen in *. rewrite skipn_app.
  replace (Z.to_nat n - length a)%nat with 0%nat by lia. reflexivity.
Qed.

Lemma sub_app_l (a b : bytes) off len : 0 <= off -> 0 <= len -> off + len <= zlen a ->
  sub off len (a ++ b) = sub off len a.
Proof.
  intros Ho Hl H. unfold sub. rewrite zskipn_app_l by lia.
  apply zfirstn_app_l. rewrite zlen_zskipn by (pose proof (zlen_nonneg a); lia). lia.
Qed.

Lemma rd_app_l (a b : bytes) off w : 0 <= off -> off + Z.of_nat w <= zlen a ->
  rd off w (a ++ b) = rd off w a.
Proof. intros. unfold rd. rewrite sub_app_l by lia. reflexivity. Qed.

Lemma zfirstn_all {A} n (l : list A) : zlen l <= n -> zfirstn n l = l.
Proof. intros. unfold zfirstn, zlen in *. apply firstn_all2. lia. Qed.

Lemma zfirstn_nonpos {A} n (l : list A) : n <= 0 -> zfirstn n l = [].
Proof. intros. unfold zfirstn. replace (Z.to_nat n) with 0%nat by lia. reflexivity. Qed.

Lemma zskipn_0 {A} (l : list A) : zskipn 0 l = l.
Proof. reflexivity. Qed.

Lemma zskipn_all {A} n (l : list A) : zlen l <= n -> zskipn n l = [].
Proof. intros. unfold zskipn, zlen in *. apply skipn_all2. lia. Qed.

Lemma zlen_zfirstn_min {A} n (l : list A) : 0 <= n -> zlen (zfirstn n l) = Z.min n (zlen l).
Proof. intros. unfold zfirstn, zlen. rewrite firstn_length. lia. Qed.

(* a prefix that is the whole list has the list's length *)
Lemma sub0_whole (ext : Z) (b : bytes) : 0 < zlen b -> ext <= zlen b -> sub 0 ext b = b -> ext = zlen b.
Proof.
  intros Hp Hle H. unfold sub in H. rewrite zskipn_0 in H.
  destruct (Z_le_gt_dec ext 0) as [Hn|Hn].
  - rewrite zfirstn_nonpos in H by lia. subst b. unfold zlen in Hp. simpl in Hp. lia.
  - assert (Hl : zlen (zfirstn ext b) = zlen b) by (rewrite H; reflexivity).
    rewrite zlen_zfirstn_min in Hl by lia. lia.
Qed.

Lemma zlen_zrepeat x n : 0 <= n -> zlen (zrepeat x n) = n.
Proof.
  intros. unfold zrepeat, zlen.
  assert (forall k, length (repeatz x k) = k) as E by (induction k; simpl; congruence).
  rewrite E. lia.
Qed.

Lemma zrepeat_nonpos x n : n <= 0 -> zrepeat x n = [].
Proof. intros. unfold zrepeat. replace (Z.to_nat n) with 0%nat by lia. reflexivity. Qed.

Lemma le_dec_single x : le_dec [x] = x.
Proof. simpl. lia. Qed.

Lemma rd1_at (a : bytes) x (r : bytes) : rd (zlen a) 1 (a ++ x :: r) = x.
Proof.
  unfold rd. change (x :: r) with ([x] ++ r).
  change (Z.of_nat 1) with (zlen [x]). rewrite sub_app_mid. apply le_dec_single.
Qed.

Lemma rd_at (a d r : bytes) w : zlen d = Z.of_nat w -> rd (zlen a) w (a ++ d ++ r) = le_dec d.
Proof. intros H. unfold rd. rewrite <- H. rewrite sub_app_mid. reflexivity. Qed.

Lemma sub_at (a d r : bytes) n : zlen d = n -> sub (zlen a) n (a ++ d ++ r) = d.
Proof. intros H. rewrite <- H. apply sub_app_mid. Qed.

(* ------------------------------------------------------------------------------------------ *)
(* alignment                                                                                   *)
(* ------------------------------------------------------------------------------------------ *)

Lemma align4_ge v : 0 <= v -> v <= align4 v < v + 4.
Proof.
  intros. unfold align4, align.
  pose proof (Z.div_mod (v + 4 - 1) 4 ltac:(lia)). pose proof (Z.mod_pos_bound (v + 4 - 1) 4 ltac:(lia)). lia.
Qed.

Lemma align4_mod v : (align4 v) mod 4 = 0.
Proof. unfold align4, align. apply Z.mod_mul. lia. Qed.

Lemma align4_add v a : a mod 4 = 0 -> align4 (a + v) = a + align4 v.
Proof.
  intros Ha. unfold align4, align.
  assert (E : a = 4 * (a / 4)) by (pose proof (Z.div_mod a 4 ltac:(lia)); lia).
  rewrite E at 1. replace (4 * (a / 4) + v + 4 - 1) with ((v + 4 - 1) + (a / 4) * 4) by lia.
  rewrite Z.div_add by lia. lia.
Qed.

Lemma align4_fix v : v mod 4 = 0 -> align4 v = v.
Proof.
  intros. unfold align4, align.
  pose proof (Z.div_mod v 4 ltac:(lia)).
  replace (v + 4 - 1) with (3 + (v / 4) * 4) by lia.
  rewrite Z.div_add by lia. change (3 / 4) with 0. lia.
Qed.

(* ------------------------------------------------------------------------------------------ *)
(* induction on nodes; order-insensitive view; the fully decompressed tree                     *)
(* ------------------------------------------------------------------------------------------ *)

Section NodeInd.
  Variable P : node -> Prop.
  Hypothesis Hsec : forall h buf kids, Forall P kids -> P (NSec h buf kids).
  Hypothesis Hfile : forall h buf kids, Forall P kids -> P (NFile h buf kids).
  Hypothesis Hvol : forall h buf kids, Forall P kids -> P (NVol h buf kids).
  Hypothesis Hpad : forall off buf, P (NPad off buf).
  Fixpoint node_ind' (n : node) : P n :=
    let fix go (l : list node) : Forall P l :=
      match l with
      | [] => Forall_nil P
      | x :: r => Forall_cons x (node_ind' x) (go r)
      end in
    match n with
    | NSec h buf kids => Hsec h buf kids (go kids)
    | NFile h buf kids => Hfile h buf kids (go kids)
    | NVol h buf kids => Hvol h buf kids (go kids)
    | NPad off buf => Hpad off buf
    end.
End NodeInd.

Definition set_order (h : sechdr) (o : Z) : sechdr :=
  mkSec (s_size3 h) (s_type h) (s_ext h) (s_hlen h) (s_gd h) (s_name h) (s_build h) (s_version h)
        (s_depex h) o.

(* [strip] forgets the FileOrder metadata of sections (the index at which the parser met the
   section; neither Assemble nor the bytes depend on it) *)
Fixpoint strip (n : node) : node :=
  match n with
  | NSec h buf kids => NSec (set_order h 0) buf (map strip kids)
  | NFile h buf kids => NFile h buf (map strip kids)
  | NVol h buf kids => NVol h buf (map strip kids)
  | NPad off buf => NPad off buf
  end.

Lemma set_order_set h a b : set_order (set_order h a) b = set_order h b.
Proof. reflexivity. Qed.

Lemma node_buf_strip n : node_buf (strip n) = node_buf n.
Proof. destruct n; reflexivity. Qed.

Lemma map_node_buf_strip l : map node_buf (map strip l) = map node_buf l.
Proof. induction l; simpl; [reflexivity|]. rewrite node_buf_strip, IHl. reflexivity. Qed.

Lemma strip_bufs l l' : map strip l = map strip l' -> map node_buf l = map node_buf l'.
Proof. intros H. rewrite <- (map_node_buf_strip l), <- (map_node_buf_strip l'), H. reflexivity. Qed.

(* the fully decompressed tree: node kind, the header fields that identify the node, leaf bodies;
   recursively through compressed sections and nested volumes.  Derived data (sizes, checksums,
   the large-file bit, compressed bytes, volume length / block count / free space / checksum,
   the FFS2->FFS3 switch) and pad files (layout artefacts) are not part of it. *)
Inductive dtree : Type := D (kind : Z) (fields : list bytes) (kids : list dtree).

Definition gd_fields (g : option gdhdr) : list bytes :=
  match g with Some g => [gd_guid g; [gd_attrs g]] | None => [] end.

Definition is_pad_file (n : node) : bool :=
  match n with NFile h _ _ => f_type h =? 240 | _ => false end.

Definition ffs_norm (g : bytes) : bytes := if bytes_eqb g FFS3 then FFS2 else g.

Fixpoint deep (n : node) : dtree :=
  match n with
  | NSec h buf kids =>
    match kids with
    | [] => D 0 [buf] []
    | _ => D 1 ([s_type h] :: gd_fields (s_gd h)) (map deep kids)
    end
  | NFile h buf kids =>
    match kids with
    | [] => D 2 [buf] []
    | _ => D 3 [f_guid h; [f_type h; Z.land (f_attr h) 254; f_state h]] (map deep kids)
    end
  | NVol h buf kids =>
    match kids with
    | [] => D 4 [buf] []
    | _ => D 5 [v_zero h; ffs_norm (v_guid h);
                [v_sig h; v_attrs h; v_hdrlen h; v_exthdroff h; v_reserved h; v_rev h; v_dataoff h];
                map snd (v_blocks h); v_extname h]
             ((fix go (l : list node) : list dtree :=
                 match l with
                 | [] => []
                 | x :: r => if is_pad_file x then go r else deep x :: go r
                 end) kids)
    end
  | NPad off buf => D 6 [[off]; buf] []
  end.

Lemma deep_strip n : deep (strip n) = deep n.
Proof.
  induction n using node_ind'; simpl; try reflexivity.
  - destruct kids; simpl; [reflexivity|]. inversion H; subst. f_equal. f_equal; [assumption|].
    clear - H3. induction H3; simpl; congruence.
  - destruct kids; simpl; [reflexivity|]. inversion H; subst. f_equal. f_equal; [assumption|].
    clear - H3. induction H3; simpl; congruence.
  - assert (G : forall l, Forall (fun n => deep (strip n) = deep n) l ->
      (fix go (l : list node) : list dtree :=
         match l with
         | [] => []
         | x :: r => if is_pad_file x then go r else deep x :: go r
         end) (map strip l) =
      (fix go (l : list node) : list dtree :=
         match l with
         | [] => []
         | x :: r => if is_pad_file x then go r else deep x :: go r
         end) l).
    { induction 1 as [|x l Hx Hl IH]; simpl; [reflexivity|].
      replace (is_pad_file (strip x)) with (is_pad_file x) by (destruct x; reflexivity).
      rewrite Hx, IH. reflexivity. }
    destruct kids; simpl; [reflexivity|]. f_equal. exact (G (n :: kids) H).
Qed.

Lemma strip_deep a b : strip a = strip b -> deep a = deep b.
Proof. intros H. rewrite <- (deep_strip a), <- (deep_strip b), H. reflexivity. Qed.
