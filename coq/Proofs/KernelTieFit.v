(* Proofs/KernelTieFit.v — the address arithmetic of pkg/intel/metadata/fit/calc_offset.go as
   TRANSCRIBED FROM THE GO SOURCE (Gen/GoKernels.v, regenerated on every run of bin/check) equals
   the functions of the hand-written model Model/Fit.v, for ALL arguments (both sides are uint64
   arithmetic wrapping at 2^64; the base address is the constant consts.BasePhysAddr on the Go side
   and Gen.Consts.fit_base_phys_addr on the model side).  See Proofs/KernelTie.v. *)
From Fiano Require Import Base.Bytes Base.GoInt Gen.Consts Gen.GoKernels Model.Fit.
Open Scope Z_scope.

Lemma go_CalculatePhysAddrFromOffset_tie off size :
  go_CalculatePhysAddrFromOffset off size = Fit.phys_of_offset off size.
Proof. reflexivity. Qed.

Lemma go_CalculateOffsetFromPhysAddr_tie addr size :
  go_CalculateOffsetFromPhysAddr addr size = Fit.offset_of_phys addr size.
Proof. reflexivity. Qed.

Lemma go_CalculateTailOffsetFromPhysAddr_tie addr :
  go_CalculateTailOffsetFromPhysAddr addr = Fit.tail_offset_of_phys addr.
Proof. reflexivity. Qed.

(* ---------------------------------------------------------------- *)
(* entry_headers.go: Address64, Uint24, TypeAndIsChecksumValid, data segment size *)
(* ---------------------------------------------------------------- *)
From Fiano Require Import Base.BytesLemmas.
From Coq Require Import ZifyBool ZifyNat.

(* a changed kernel must make a tie lemma FAIL, not make a conversion check run for an hour *)
Set Default Timeout 120.

Lemma go_Address64_Offset_tie addr size : go_Address64_Offset addr size = Fit.offset_of_phys addr size.
Proof. reflexivity. Qed.

(* SetOffset: the new value of the address (the old one is not read) *)
Lemma go_Address64_SetOffset_tie old off size : go_Address64_SetOffset old off size = Fit.phys_of_offset off size.
Proof. reflexivity. Qed.

(* Uint24{Value [3]byte}: the value is a list of three bytes *)
Lemma go_Uint24_Uint32_tie a b c : go_Uint24_Uint32 [a; b; c] = Ok (Fit.u24_get [a; b; c]).
Proof. reflexivity. Qed.

(* SetUint32: the new contents of Value; a value of 2^24 or more panics on both sides (site 1) *)
Lemma go_Uint24_SetUint32_tie a b c v : go_Uint24_SetUint32 [a; b; c] v = Fit.u24_set v.
Proof.
  unfold go_Uint24_SetUint32, Fit.u24_set. change (2 ^ 24) with 16777216.
  destruct (16777216 <=? v); reflexivity.
Qed.

Lemma go_TypeAndIsChecksumValid_Type_tie f : go_TypeAndIsChecksumValid_Type f = Fit.tc_type f.
Proof. reflexivity. Qed.

Lemma go_TypeAndIsChecksumValid_IsChecksumValid_tie f :
  go_TypeAndIsChecksumValid_IsChecksumValid f = Fit.tc_cv f.
Proof. reflexivity. Qed.

Definition fit_byte_values : list Z := map Z.of_nat (seq 0 256).
Lemma fit_byte_values_in a : 0 <= a < 256 -> In a fit_byte_values.
Proof.
  intros Ha. unfold fit_byte_values. apply in_map_iff. exists (Z.to_nat a). split; [lia|].
  apply in_seq. lia.
Qed.
Lemma byte_sweep (P : Z -> bool) : forallb P fit_byte_values = true -> forall a, 0 <= a < 256 -> P a = true.
Proof. intros H a Ha. rewrite forallb_forall in H. apply H, fit_byte_values_in, Ha. Qed.

(* SetType on bytes: the test "newType has no bit above 0x7f" and the kept C_V bit, each by a
   sweep over one byte; a type above 0x7f panics on both sides (the model calls the site 2) *)
Lemma go_TypeAndIsChecksumValid_SetType_tie f t : 0 <= f < 256 -> 0 <= t < 256 ->
  go_TypeAndIsChecksumValid_SetType f t =
  match Fit.tc_set_type f t with Panic _ => Panic 1 | o => o end.
Proof.
  intros Hf Ht. unfold go_TypeAndIsChecksumValid_SetType, Fit.tc_set_type. cbv zeta.
  assert (H1 : (Z.land (wrap 64 t) 18446744073709551488 =? 0) = (Z.land t 127 =? t)).
  { apply (byte_sweep (fun t => Bool.eqb (Z.land (wrap 64 t) 18446744073709551488 =? 0) (Z.land t 127 =? t))
             ltac:(vm_compute; reflexivity)) in Ht. apply eqb_prop in Ht. exact Ht. }
  assert (H2 : wrap 8 (Z.land (wrap 64 f) 18446744073709551488) = Z.land f 128).
  { apply (byte_sweep (fun f => wrap 8 (Z.land (wrap 64 f) 18446744073709551488) =? Z.land f 128)
             ltac:(vm_compute; reflexivity)) in Hf. lia. }
  rewrite H1, H2. destruct (Z.land t 127 =? t); reflexivity.
Qed.

Lemma go_TypeAndIsChecksumValid_SetIsChecksumValid_tie f v : 0 <= f < 256 ->
  go_TypeAndIsChecksumValid_SetIsChecksumValid f v = Fit.tc_set_cv f v.
Proof.
  intros Hf. unfold go_TypeAndIsChecksumValid_SetIsChecksumValid, Fit.tc_set_cv. cbv zeta.
  assert (H : wrap 8 (Z.land (wrap 64 f) 127) = Z.land f 127).
  { apply (byte_sweep (fun f => wrap 8 (Z.land (wrap 64 f) 127) =? Z.land f 127)
             ltac:(vm_compute; reflexivity)) in Hf. lia. }
  rewrite H. destruct v; reflexivity.
Qed.

(* the most common data segment size: Size.Uint32() << 4 as uint64 (no truncation: the 24-bit
   value times 16 is below 2^28).  The model writes [hsz h * 16]. *)
Lemma go_EntryHeaders_mostCommonGetDataSegmentSize_tie a b c :
  0 <= a < 256 -> 0 <= b < 256 -> 0 <= c < 256 ->
  go_EntryHeaders_mostCommonGetDataSegmentSize [a; b; c] = Ok (Fit.u24_get [a; b; c] * 16).
Proof.
  intros Ha Hb Hc. unfold go_EntryHeaders_mostCommonGetDataSegmentSize.
  rewrite go_Uint24_Uint32_tie. cbn [bind].
  assert (Hr : 0 <= Fit.u24_get [a; b; c] < 2 ^ 24).
  { unfold Fit.u24_get. change (zfirstn 3 [a; b; c]) with [a; b; c]. cbn [app le_dec]. lia. }
  unfold go_shl. rewrite (wrap_small 64 (Fit.u24_get [a; b; c])) by lia. rewrite Z.shiftl_mul_pow2 by lia.
  rewrite wrap_small by lia. reflexivity.
Qed.

(* SizeM16.Size (size in units of 16 bytes); no model function: stated for the record *)
Lemma go_SizeM16_Size_eq s : 0 <= s < 65536 -> go_SizeM16_Size s = s * 16.
Proof.
  intros Hs. unfold go_SizeM16_Size, go_shl. rewrite (wrap_small 64 s) by lia.
  rewrite Z.shiftl_mul_pow2 by lia. rewrite wrap_small by lia. reflexivity.
Qed.
