(* Proofs/KernelTieFit.v — the address arithmetic of pkg/intel/metadata/fit/calc_offset.go as
   TRANSCRIBED FROM THE GO SOURCE (Gen/GoKernels.v, regenerated on every run of bin/check) equals
   the functions of the hand-written model Model/Fit.v, for ALL arguments (both sides are uint64
   arithmetic wrapping at 2^64; the base address is the constant consts.BasePhysAddr on the Go side
   and Gen.Consts.fit_base_phys_addr on the model side).  See Proofs/KernelTie.v. *)
From Fiano Require Import Base.Bytes Base.GoInt Gen.Consts Gen.GoKernels Model.Fit.
Open Scope Z_scope.

Lemma go_CalculatePhysAddrFromOffset_tie off size :
  go_CalculatePhysAddrFromOffset off size = Fit.phys_of_offset off size.
Proof. reflexivity. Qed.

Lemma go_CalculateOffsetFromPhysAddr_tie addr size :
  go_CalculateOffsetFromPhysAddr addr size = Fit.offset_of_phys addr size.
Proof. reflexivity. Qed.

Lemma go_CalculateTailOffsetFromPhysAddr_tie addr :
  go_CalculateTailOffsetFromPhysAddr addr = Fit.tail_offset_of_phys addr.
Proof. reflexivity. Qed.
