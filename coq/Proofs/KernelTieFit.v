(* Proofs/KernelTieFit.v — the address arithmetic of pkg/intel/metadata/fit/calc_offset.go as
   TRANSCRIBED FROM THE GO SOURCE (Gen/GoKernels.v, regenerated on every run of bin/check) equals
   the functions of the hand-written model Model/Fit.v, for ALL arguments (both sides are uint64
   arithmetic wrapping at 2^64; the base address is the constant consts.BasePhysAddr on the Go side
   and Gen.Consts.fit_base_phys_addr on the model side).  See Proofs/KernelTie.v. *)
From Fiano Require Import Base.Bytes Base.BytesLemmas Base.GoInt Gen.Consts Gen.GoKernels Model.Fit.
From Coq Require Import ZifyBool ZifyNat.
Open Scope Z_scope.
Set Default Timeout 120.

Lemma go_CalculatePhysAddrFromOffset_tie off size :
  go_CalculatePhysAddrFromOffset off size = Fit.phys_of_offset off size.
Proof. unfold go_CalculatePhysAddrFromOffset, Fit.phys_of_offset, Fit.w64, fit_base_phys_addr. go_arith. Qed.

Lemma go_CalculateOffsetFromPhysAddr_tie addr size :
  go_CalculateOffsetFromPhysAddr addr size = Fit.offset_of_phys addr size.
Proof. unfold go_CalculateOffsetFromPhysAddr, Fit.offset_of_phys, Fit.w64, fit_base_phys_addr. go_arith. Qed.

Lemma go_CalculateTailOffsetFromPhysAddr_tie addr :
  go_CalculateTailOffsetFromPhysAddr addr = Fit.tail_offset_of_phys addr.
Proof. unfold go_CalculateTailOffsetFromPhysAddr, Fit.tail_offset_of_phys, Fit.w64, fit_base_phys_addr. go_arith. Qed.

(* ---------------------------------------------------------------- *)
(* entry_headers.go: Address64, Uint24, TypeAndIsChecksumValid, data segment size *)
(* ---------------------------------------------------------------- *)

(* a changed kernel must make a tie lemma FAIL, not make a conversion check run for an hour *)
Set Default Timeout 120.

Lemma go_Address64_Offset_tie addr size : go_Address64_Offset addr size = Fit.offset_of_phys addr size.
Proof.
  unfold go_Address64_Offset. try unfold go_Address64_Pointer.
  first [ apply go_CalculateOffsetFromPhysAddr_tie
        | unfold Fit.offset_of_phys, Fit.w64, fit_base_phys_addr; go_arith ].
Qed.

(* SetOffset: the new value of the address (the old one is not read) *)
Lemma go_Address64_SetOffset_tie old off size : go_Address64_SetOffset old off size = Fit.phys_of_offset off size.
Proof.
  unfold go_Address64_SetOffset. cbv zeta.
  first [ apply go_CalculatePhysAddrFromOffset_tie
        | unfold Fit.phys_of_offset, Fit.w64, fit_base_phys_addr; go_arith ].
Qed.

(* Uint24{Value [3]byte}: the value is a list of three bytes *)
Lemma go_Uint24_Uint32_tie a b c : 0 <= a < 256 -> 0 <= b < 256 -> 0 <= c < 256 ->
  go_out (go_Uint24_Uint32 [a; b; c]) = Ok (Fit.u24_get [a; b; c]).
Proof.
  intros Ha Hb Hc. cbv [go_out go_out_pure go_out_m].
  first [ reflexivity
        | unfold go_Uint24_Uint32, Fit.u24_get; change (zfirstn 3 [a; b; c]) with [a; b; c];
          cbn [nth app le_dec]; f_equal; go_arith ].
Qed.

(* SetUint32: the new contents of Value; a value of 2^24 or more panics on both sides (site 1) *)
Lemma go_Uint24_SetUint32_tie a b c v : 0 <= v < 2 ^ 32 ->
  go_out (go_Uint24_SetUint32 [a; b; c] v) = Fit.u24_set v.
Proof.
  intros Hv. cbv [go_out go_out_pure go_out_m]. unfold go_Uint24_SetUint32, Fit.u24_set. cbv zeta.
  change (2 ^ 24) with 16777216.
  change (zfirstn 3 (le_enc 4 v)) with [v mod 256; (v / 256) mod 256; (v / 256 / 256) mod 256].
  repeat match goal with |- context [if ?c then _ else _] => destruct c eqn:? end;
    try reflexivity; try go_absurd;
    f_equal;
    repeat match goal with |- _ :: _ = _ :: _ => apply f_equal2 | |- [] = [] => reflexivity end;
    go_arith.
Qed.

Lemma go_TypeAndIsChecksumValid_Type_tie f : go_TypeAndIsChecksumValid_Type f = Fit.tc_type f.
Proof. first [ reflexivity | unfold go_TypeAndIsChecksumValid_Type, Fit.tc_type; go_arith ]. Qed.

Lemma go_TypeAndIsChecksumValid_IsChecksumValid_tie f :
  go_TypeAndIsChecksumValid_IsChecksumValid f = Fit.tc_cv f.
Proof. first [ reflexivity | unfold go_TypeAndIsChecksumValid_IsChecksumValid, Fit.tc_cv; f_equal; f_equal; go_arith ]. Qed.


(* SetType on bytes: the test "newType has no bit above 0x7f" and the kept C_V bit, each by a
   sweep over one byte; a type above 0x7f panics on both sides (the model calls the site 2) *)
(* SetType on bytes, by a sweep over both bytes: the new value of the field, or a panic on both sides
   for a type above 0x7f *)
Lemma go_TypeAndIsChecksumValid_SetType_tie f t : 0 <= f < 256 -> 0 <= t < 256 ->
  outcome_agree (go_out (go_TypeAndIsChecksumValid_SetType f t)) (Fit.tc_set_type f t).
Proof.
  intros Hf Ht. apply out_eqb_agree.
  apply (go_sweep2 (fun f t => out_eqb (go_out (go_TypeAndIsChecksumValid_SetType f t)) (Fit.tc_set_type f t)));
    [vm_compute; reflexivity | exact Hf | exact Ht].
Qed.

Lemma go_TypeAndIsChecksumValid_SetIsChecksumValid_tie f v : 0 <= f < 256 ->
  go_out (go_TypeAndIsChecksumValid_SetIsChecksumValid f v) = Ok (Fit.tc_set_cv f v).
Proof.
  intros Hf. apply out_eqb_ok.
  destruct v;
    [ apply (go_sweep1 (fun f => out_eqb (go_out (go_TypeAndIsChecksumValid_SetIsChecksumValid f true)) (Ok (Fit.tc_set_cv f true))))
    | apply (go_sweep1 (fun f => out_eqb (go_out (go_TypeAndIsChecksumValid_SetIsChecksumValid f false)) (Ok (Fit.tc_set_cv f false)))) ];
    first [ vm_compute; reflexivity | exact Hf ].
Qed.

(* the most common data segment size: Size.Uint32() << 4 as uint64 (no truncation: the 24-bit
   value times 16 is below 2^28).  The model writes [hsz h * 16]. *)
Lemma go_EntryHeaders_mostCommonGetDataSegmentSize_tie a b c :
  0 <= a < 256 -> 0 <= b < 256 -> 0 <= c < 256 ->
  go_out (go_EntryHeaders_mostCommonGetDataSegmentSize [a; b; c]) = Ok (Fit.u24_get [a; b; c] * 16).
Proof.
  intros Ha Hb Hc.
  pose proof (go_Uint24_Uint32_tie a b c Ha Hb Hc) as HU.
  cbv [go_out go_out_pure go_out_m] in *. unfold go_EntryHeaders_mostCommonGetDataSegmentSize.
  first [ rewrite HU; cbn [bind] | injection HU as HU; rewrite HU ].
  assert (Hr : 0 <= Fit.u24_get [a; b; c] < 2 ^ 24).
  { unfold Fit.u24_get. change (zfirstn 3 [a; b; c]) with [a; b; c]. cbn [app le_dec]. lia. }
  f_equal. set (x := Fit.u24_get [a; b; c]) in *. go_arith.
Qed.

(* SizeM16.Size (size in units of 16 bytes); no model function: stated for the record *)
Lemma go_SizeM16_Size_eq s : 0 <= s < 65536 -> go_SizeM16_Size s = s * 16.
Proof. intros Hs. unfold go_SizeM16_Size. go_arith. Qed.
