(* Proofs/KernelTieAmd.v — the arithmetic kernels of pkg/amd/manifest as TRANSCRIBED FROM THE GO
   SOURCE (Gen/GoKernels.v, regenerated on every run of bin/check) equal the functions of the
   hand-written model Model/Amd.v.  See Proofs/KernelTie.v.

   fletcherCRC32 is two nested unbounded loops with index arithmetic in Go; the model pairs the
   bytes into little-endian words and folds over blocks of 360 words.  The transcription runs on
   fuel; the tie is proved for byte lists ([bytes_ok]) shorter than 2^62 (where Go's int index does
   not wrap) and any fuel above the length.  The two loop bodies of the generated definition are
   named here ([fl_inner], [fl_outer]); [go_fletcherCRC32_shape] checks by conversion that the
   generated definition is exactly that loop nest, so ANY change of the Go function breaks it. *)
From Fiano Require Import Base.Bytes Base.BytesLemmas Base.GoInt Gen.GoKernels Model.Amd.
From Coq Require Import ZifyBool ZifyNat.
Open Scope Z_scope.

(* a changed kernel must make a tie lemma FAIL, not make a conversion check run for an hour *)
Set Default Timeout 120.

(* FirmwareImage.PhysAddrToOffset: uint64(basePhysAddr - len(img)) goes through int; the signed
   wrap disappears under the conversion to uint64.  All image lengths, all addresses. *)
Lemma go_FirmwareImage_PhysAddrToOffset_tie img addr :
  go_FirmwareImage_PhysAddrToOffset img addr = Amd.phys_to_off (zlen img) addr.
Proof.
  unfold go_FirmwareImage_PhysAddrToOffset, Amd.phys_to_off. cbv zeta.
  rewrite wrap_swrap by lia. reflexivity.
Qed.

(* ---------------------------------------------------------------- *)
(* fletcherCRC32                                                      *)
(* ---------------------------------------------------------------- *)

Definition fl_inner (data : list Z) : Z * Z * Z * Z -> outcome (ctl (Z * Z * Z * Z) Empty_set) :=
  fun '(c0, c1, i, blockLen) =>
    if true then
      do d0 <- go_index 1 data i;
      let val := wrap 16 d0 in
      let i := swrap 64 (i + 1) in
      do iv <- (if i <? zlen data
                then do d1 <- go_index 2 data i;
                     let val := wrap 16 (val + go_shl 16 (wrap 16 d1) 8) in
                     let i := swrap 64 (i + 1) in
                     Ok (i, val)
                else Ok (i, val));
      let '(i, val) := iv in
      let c0 := wrap 32 (c0 + wrap 32 val) in
      let c1 := wrap 32 (c1 + c0) in
      let blockLen := swrap 64 (blockLen - 2) in
      if blockLen =? 0 then Ok (Break (c0, c1, i, blockLen)) else Ok (Next (c0, c1, i, blockLen))
    else Ok (Break (c0, c1, i, blockLen)).

Definition fl_outer (fuel : nat) (data : list Z) : Z * Z * Z * Z -> outcome (ctl (Z * Z * Z * Z) Empty_set) :=
  fun '(c0, c1, i, l) =>
    if 0 <? l then
      let blockLen := l in
      do bl <- (if 720 <? blockLen then Ok 720 else Ok blockLen);
      let blockLen := bl in
      let l := swrap 64 (l - blockLen) in
      do r <- go_loop fuel (fl_inner data) (c0, c1, i, blockLen);
      match r with
      | inl (c0, c1, i, blockLen) => Ok (Next (c0 mod 65535, c1 mod 65535, i, l))
      | inr e => match e : Empty_set with end
      end
    else Ok (Break (c0, c1, i, l)).

Lemma go_fletcherCRC32_shape fuel data :
  go_fletcherCRC32 fuel data =
  do r <- go_loop fuel (fl_outer fuel data) (0, 0, 0, Z.land (swrap 64 (zlen data + 1)) (-2));
  match r with
  | inl (c0, c1, i, l) => Ok (Z.lor (go_shl 32 c1 16) c0)
  | inr e => match e : Empty_set with end
  end.
Proof. reflexivity. Qed.

Lemma go_index_app {A} site (pre : list A) x r : go_index site (pre ++ x :: r) (zlen pre) = Ok x.
Proof.
  unfold go_index. rewrite zlen_app, zlen_cons.
  pose proof (zlen_nonneg pre). pose proof (zlen_nonneg r).
  replace ((0 <=? zlen pre) && (zlen pre <? zlen pre + (1 + zlen r))) with true by lia.
  unfold zlen. rewrite Nat2Z.id, nth_error_app2, Nat.sub_diag by lia. reflexivity.
Qed.

Lemma zlen_words b : zlen (words b) = (zlen b + 1) / 2.
Proof.
  assert (H : forall n b, (length b <= n)%nat -> zlen (words b) = (zlen b + 1) / 2).
  { induction n as [|n IH]; intros [|x [|y r]] Hn; cbn [length] in Hn; try lia; try reflexivity.
    cbn [words]. rewrite !zlen_cons, IH by lia.
    replace (1 + (1 + zlen r) + 1) with (zlen r + 1 + 1 * 2) by lia.
    rewrite Z.div_add by lia. lia. }
  apply (H (length b)). lia.
Qed.

Lemma words_length_le b : (length (words b) <= length b)%nat.
Proof.
  assert (H : forall n b, (length b <= n)%nat -> (length (words b) <= length b)%nat).
  { induction n as [|n IH]; intros [|x [|y r]] Hn; cbn [length] in Hn; try lia; cbn [words length]; try lia.
    specialize (IH r). lia. }
  apply (H (length b)). lia.
Qed.

Lemma land_m2 x : Z.land x (-2) = 2 * (x / 2).
Proof.
  change (-2) with (Z.lnot (Z.ones 1)).
  rewrite <- Z.ldiff_land, Z.ldiff_ones_r by lia.
  rewrite Z.shiftr_div_pow2, Z.shiftl_mul_pow2 by lia. change (2 ^ 1) with 2. lia.
Qed.

Section Fletcher.
Variable data : list Z.
Hypothesis Hok : bytes_ok data = true.
Hypothesis Hlen : zlen data < 2 ^ 62.

Lemma inner_step2 pre x y r c0 c1 bl :
  data = pre ++ x :: y :: r -> - 2 ^ 62 < bl < 2 ^ 63 ->
  fl_inner data (c0, c1, zlen pre, bl) =
  let st := fl_step (c0, c1) (x + 256 * y) in
  if bl - 2 =? 0 then Ok (Break (fst st, snd st, zlen pre + 2, bl - 2))
  else Ok (Next (fst st, snd st, zlen pre + 2, bl - 2)).
Proof.
  intros Hd Hbl.
  assert (Hx : 0 <= x < 256 /\ 0 <= y < 256).
  { rewrite Hd, bytes_ok_app, !bytes_ok_cons in Hok.
    rewrite <- !byte_ok_iff. destruct (byte_ok x), (byte_ok y); auto; rewrite ?andb_false_r in Hok; discriminate. }
  destruct Hx as [Hx Hy].
  assert (Hl : zlen data = zlen pre + 2 + zlen r) by (rewrite Hd, zlen_app, !zlen_cons; lia).
  pose proof (zlen_nonneg pre) as Hp. pose proof (zlen_nonneg r) as Hr.
  unfold fl_inner. cbv iota.
  rewrite Hd at 1. rewrite go_index_app. cbn [bind]. cbv zeta.
  rewrite (swrap_small 64 (zlen pre + 1)) by lia.
  replace (zlen pre + 1 <? zlen data) with true by lia.
  replace (go_index 2 data (zlen pre + 1)) with (Ok (A:=Z) y).
  2:{ rewrite Hd. replace (pre ++ x :: y :: r) with ((pre ++ [x]) ++ y :: r) by (rewrite <- app_assoc; reflexivity).
      replace (zlen pre + 1) with (zlen (pre ++ [x])) by (rewrite zlen_app, zlen_cons, zlen_nil; lia).
      rewrite go_index_app. reflexivity. }
  cbn [bind]. cbv zeta.
  rewrite (swrap_small 64 (zlen pre + 1 + 1)) by lia.
  rewrite (swrap_small 64 (bl - 2)) by lia.
  rewrite (wrap_small 16 x), (wrap_small 16 y) by lia.
  unfold go_shl. rewrite Z.shiftl_mul_pow2 by lia. rewrite (wrap_small 16 (y * 2 ^ 8)) by lia.
  rewrite (wrap_small 16 (x + y * 2 ^ 8)) by lia. rewrite (wrap_small 32 (x + y * 2 ^ 8)) by lia.
  replace (x + y * 2 ^ 8) with (x + 256 * y) by lia.
  replace (zlen pre + 1 + 1) with (zlen pre + 2) by lia.
  reflexivity.
Qed.

Lemma inner_step1 pre x c0 c1 bl :
  data = pre ++ [x] -> - 2 ^ 62 < bl < 2 ^ 63 ->
  fl_inner data (c0, c1, zlen pre, bl) =
  let st := fl_step (c0, c1) x in
  if bl - 2 =? 0 then Ok (Break (fst st, snd st, zlen pre + 1, bl - 2))
  else Ok (Next (fst st, snd st, zlen pre + 1, bl - 2)).
Proof.
  intros Hd Hbl.
  assert (Hx : 0 <= x < 256).
  { rewrite Hd, bytes_ok_app, !bytes_ok_cons in Hok.
    rewrite <- !byte_ok_iff. destruct (byte_ok x); auto; rewrite ?andb_false_r in Hok; discriminate. }
  assert (Hl : zlen data = zlen pre + 1) by (rewrite Hd, zlen_app, !zlen_cons, zlen_nil; lia).
  pose proof (zlen_nonneg pre) as Hp.
  unfold fl_inner. cbv iota.
  rewrite Hd at 1. rewrite go_index_app. cbn [bind]. cbv zeta.
  rewrite (swrap_small 64 (zlen pre + 1)) by lia.
  replace (zlen pre + 1 <? zlen data) with false by lia.
  cbn [bind]. cbv zeta.
  rewrite (swrap_small 64 (bl - 2)) by lia.
  rewrite (wrap_small 16 x) by lia. rewrite (wrap_small 32 x) by lia.
  reflexivity.
Qed.

Lemma inner_loop : forall (n : nat) fuel pre rem c0 c1,
  data = pre ++ rem -> (S n <= length (words rem))%nat -> (S n <= fuel)%nat ->
  exists pre' rem', data = pre' ++ rem' /\ words rem' = skipn (S n) (words rem) /\
    go_loop fuel (fl_inner data) (c0, c1, zlen pre, 2 * Z.of_nat (S n)) =
    Ok (inl (fst (fl_block (firstn (S n) (words rem)) (c0, c1)),
             snd (fl_block (firstn (S n) (words rem)) (c0, c1)), zlen pre', 0)).
Proof.
  induction n as [|n IH]; intros fuel pre rem c0 c1 Hd Hn Hf;
    (destruct fuel as [|fuel]; [lia|]);
    (destruct rem as [|x [|y r]]; [cbn in Hn; lia| |]).
  - (* one word left, it is a single byte *)
    exists (pre ++ [x]), []. split; [rewrite <- app_assoc; exact Hd|]. split; [reflexivity|].
    cbn [go_loop]. rewrite (inner_step1 pre x c0 c1 _ Hd) by lia. cbv zeta.
    replace (2 * Z.of_nat 1 - 2 =? 0) with true by lia.
    replace (2 * Z.of_nat 1 - 2) with 0 by lia.
    replace (zlen (pre ++ [x])) with (zlen pre + 1) by (rewrite zlen_app; reflexivity).
    reflexivity.
  - exists (pre ++ [x; y]), r. split; [rewrite <- app_assoc; exact Hd|]. split; [reflexivity|].
    cbn [go_loop]. rewrite (inner_step2 pre x y r c0 c1 _ Hd) by lia. cbv zeta.
    replace (2 * Z.of_nat 1 - 2 =? 0) with true by lia.
    replace (2 * Z.of_nat 1 - 2) with 0 by lia.
    replace (zlen (pre ++ [x; y])) with (zlen pre + 2) by (rewrite zlen_app; reflexivity).
    reflexivity.
  - cbn in Hn. lia.
  - cbn [words length] in Hn.
    assert (Hb : Z.of_nat (S (S n)) < 2 ^ 62).
    { pose proof (words_length_le r). rewrite Hd, zlen_app in Hlen. unfold zlen in Hlen.
      cbn [length] in Hlen. lia. }
    destruct (IH fuel (pre ++ [x; y]) r (fst (fl_step (c0, c1) (x + 256 * y))) (snd (fl_step (c0, c1) (x + 256 * y))))
      as (pre' & rem' & Hd' & Hw' & Hl'); [rewrite <- app_assoc; exact Hd|lia|lia|].
    exists pre', rem'. split; [exact Hd'|]. split; [exact Hw'|].
    cbn [go_loop]. rewrite (inner_step2 pre x y r c0 c1 _ Hd) by lia. cbv zeta.
    replace (2 * Z.of_nat (S (S n)) - 2 =? 0) with false by lia.
    replace (2 * Z.of_nat (S (S n)) - 2) with (2 * Z.of_nat (S n)) by lia.
    replace (zlen pre + 2) with (zlen (pre ++ [x; y])) by (rewrite zlen_app; reflexivity).
    rewrite Hl'. rewrite <- (surjective_pairing (fl_step (c0, c1) (x + 256 * y))). reflexivity.
Qed.

Lemma outer_step fi c0 c1 i l bl a0 a1 i' b' :
  0 < l < 2 ^ 63 -> bl = (if 720 <? l then 720 else l) ->
  go_loop fi (fl_inner data) (c0, c1, i, bl) = Ok (inl (a0, a1, i', b')) ->
  fl_outer fi data (c0, c1, i, l) = Ok (Next (a0 mod 65535, a1 mod 65535, i', l - bl)).
Proof.
  intros Hl Hbl Hi. unfold fl_outer. replace (0 <? l) with true by lia. cbv zeta.
  assert (E : (if 720 <? l then Ok 720 else Ok l) = Ok (A:=Z) bl) by (rewrite Hbl; destruct (720 <? l); reflexivity).
  rewrite E. cbn [bind]. rewrite Hi. cbn [bind].
  rewrite swrap_small by (destruct (720 <? l) eqn:E7; lia). reflexivity.
Qed.

Lemma firstn_min {A} k (l : list A) : firstn (Nat.min k (length l)) l = firstn k l.
Proof.
  destruct (le_lt_dec k (length l)).
  - rewrite Nat.min_l by lia. reflexivity.
  - rewrite Nat.min_r, firstn_all, firstn_all2 by lia. reflexivity.
Qed.

Lemma skipn_min {A} k (l : list A) : skipn (Nat.min k (length l)) l = skipn k l.
Proof.
  destruct (le_lt_dec k (length l)).
  - rewrite Nat.min_l by lia. reflexivity.
  - rewrite Nat.min_r, skipn_all, skipn_all2 by lia. reflexivity.
Qed.

Lemma outer_loop : forall (f : nat) fo fi pre rem c0 c1,
  data = pre ++ rem -> (length (words rem) <= f)%nat -> (length (words rem) < fo)%nat ->
  (length (words rem) <= fi)%nat ->
  exists st i', fl_blocks f (words rem) (c0, c1) = Ok st /\
    go_loop fo (fl_outer fi data) (c0, c1, zlen pre, 2 * zlen (words rem)) = Ok (inl (fst st, snd st, i', 0)).
Proof.
  induction f as [|f IH]; intros fo fi pre rem c0 c1 Hd Hf Hfo Hfi;
    (destruct fo as [|fo]; [lia|]).
  - destruct (words rem) as [|w ws] eqn:Ew; [|cbn in Hf; lia].
    exists (c0, c1), (zlen pre). split; reflexivity.
  - destruct (words rem) as [|w ws] eqn:Ew.
    + exists (c0, c1), (zlen pre). split; reflexivity.
    + assert (Hne : (1 <= length (words rem))%nat) by (rewrite Ew; cbn; lia).
      change (fl_blocks (S f) (w :: ws) (c0, c1)) with
        (fl_blocks f (skipn 360 (w :: ws))
           (fst (fl_block (firstn 360 (w :: ws)) (c0, c1)) mod 65535,
            snd (fl_block (firstn 360 (w :: ws)) (c0, c1)) mod 65535)).
      rewrite <- Ew in Hf, Hfo, Hfi |- *. clear Ew w ws.
      assert (Hwl : (length (words rem) <= length data)%nat).
      { pose proof (words_length_le rem). rewrite Hd, app_length. lia. }
      assert (HL : Z.of_nat (length data) < 2 ^ 62) by exact Hlen.
      set (len := length (words rem)) in *.
      set (n' := pred (Nat.min 360 len)).
      assert (Hn' : S n' = Nat.min 360 len) by (subst n'; lia).
      destruct (inner_loop n' fi pre rem c0 c1 Hd) as (pre' & rem' & Hd' & Hw' & Hl'); [fold len; lia|lia|].
      rewrite Hn' in Hw', Hl'. unfold len in Hw', Hl'. rewrite firstn_min in Hl'. rewrite skipn_min in Hw'.
      fold len in Hl'.
      assert (Hlr : length (words rem') = (len - Nat.min 360 len)%nat).
      { rewrite Hw', <- (skipn_min 360), skipn_length. reflexivity. }
      destruct (IH fo fi pre' rem'
                  (fst (fl_block (firstn 360 (words rem)) (c0, c1)) mod 65535)
                  (snd (fl_block (firstn 360 (words rem)) (c0, c1)) mod 65535) Hd')
        as (st & i' & E1 & E2); [lia|lia|lia|].
      exists st, i'. split; [rewrite <- Hw'; exact E1|].
      cbn [go_loop].
      rewrite (outer_step fi c0 c1 (zlen pre) (2 * zlen (words rem)) (2 * Z.of_nat (Nat.min 360 len)) _ _ _ _ ltac:(unfold zlen; fold len; lia) ltac:(unfold zlen; fold len; destruct (720 <? 2 * Z.of_nat len) eqn:E7; lia) Hl').
      replace (2 * zlen (words rem) - 2 * Z.of_nat (Nat.min 360 len)) with (2 * zlen (words rem'))
        by (unfold zlen; rewrite Hlr; fold len; lia).
      exact E2.
Qed.
End Fletcher.

Lemma bind_ret {A} (x : outcome A) : (do y <- x; Ok y) = x.
Proof. destruct x; reflexivity. Qed.

Lemma go_fletcherCRC32_tie fuel data :
  bytes_ok data = true -> zlen data < 2 ^ 62 -> (length data < fuel)%nat ->
  go_fletcherCRC32 fuel data = Amd.fletcher32 data.
Proof.
  intros Hok Hlen Hf. rewrite go_fletcherCRC32_shape.
  pose proof (zlen_nonneg data) as Hn. pose proof (words_length_le data) as Hw.
  rewrite swrap_small by lia. rewrite land_m2, <- zlen_words.
  destruct (outer_loop data Hok Hlen (length (words data)) fuel fuel [] data 0 0 eq_refl) as (st & i' & E1 & E2);
    [lia|lia|lia|].
  change (zlen []) with 0 in E2.
  unfold Amd.fletcher32. cbv zeta. rewrite E1, E2. reflexivity.
Qed.

(* CalculateBiosDirectoryCheckSum / CalculatePSPDirectoryCheckSum: fletcherCRC32(raw[8:]) *)
Lemma dir_checksum_tie (g : nat -> list Z -> outcome Z) fuel raw :
  (forall fuel raw, g fuel raw = (do d <- go_slice_from 1 raw 8; do c <- go_fletcherCRC32 fuel d; Ok c)) ->
  bytes_ok raw = true -> zlen raw < 2 ^ 62 -> (length raw < fuel)%nat ->
  g fuel raw = Amd.dir_checksum raw.
Proof.
  intros Hg Hok Hlen Hf. rewrite Hg. unfold go_slice_from, Amd.dir_checksum.
  destruct (slice 8 (zlen raw) raw) as [d|] eqn:Es; [|reflexivity].
  cbn [of_opt bind]. rewrite bind_ret.
  unfold slice in Es. destruct ((0 <=? 8) && (8 <=? zlen raw) && (zlen raw <=? zlen raw)); [|discriminate].
  injection Es as <-.
  assert (Hl : (length (zfirstn (zlen raw - 8) (zskipn 8 raw)) <= length raw)%nat).
  { unfold zfirstn, zskipn. rewrite firstn_length, skipn_length. lia. }
  apply go_fletcherCRC32_tie.
  - unfold zfirstn, zskipn. apply bytes_ok_firstn, bytes_ok_skipn, Hok.
  - unfold zlen in *. lia.
  - lia.
Qed.

Lemma go_CalculateBiosDirectoryCheckSum_tie fuel raw :
  bytes_ok raw = true -> zlen raw < 2 ^ 62 -> (length raw < fuel)%nat ->
  go_CalculateBiosDirectoryCheckSum fuel raw = Amd.dir_checksum raw.
Proof. apply (dir_checksum_tie go_CalculateBiosDirectoryCheckSum). reflexivity. Qed.

Lemma go_CalculatePSPDirectoryCheckSum_tie fuel raw :
  bytes_ok raw = true -> zlen raw < 2 ^ 62 -> (length raw < fuel)%nat ->
  go_CalculatePSPDirectoryCheckSum fuel raw = Amd.dir_checksum raw.
Proof. apply (dir_checksum_tie go_CalculatePSPDirectoryCheckSum). reflexivity. Qed.
