(* Proofs/KernelTieFlash.v — the flash-descriptor level kernels of pkg/uefi (region.go, flash.go,
   meregion.go) as TRANSCRIBED FROM THE GO SOURCE (Gen/GoKernels.v, regenerated on every run of
   bin/check) equal the functions of the hand-written model Model/TightenMe.v, which Model/FlashImage.v
   (flash level of C01) reuses.  See Proofs/KernelTie.v.

   Domains: FlashRegion.Base/Limit are uint16 ([0 <= x < 65536]); everything else holds for all
   arguments.  FindSignature returns an outcome: Err 1 = ErrTooShort, Err 2 = signature not found
   (the transcription numbers the error returns of a function in source order; the model's
   E_TOOSHORT / E_NOSIG are the same numbers). *)
From Fiano Require Import Base.Bytes Base.BytesLemmas Base.GoInt Gen.Consts Gen.GoKernels Model.TightenMe.
From Coq Require Import ZifyBool ZifyNat.
Open Scope Z_scope.
Set Default Timeout 120.

(* a changed kernel must make a tie lemma FAIL, not make a conversion check run for an hour *)
Set Default Timeout 120.

Lemma go_FlashRegion_Valid_tie base limit :
  go_FlashRegion_Valid limit base = TightenMe.fr_valid (mkFR base limit).
Proof.
  first [ reflexivity
        | unfold go_FlashRegion_Valid, TightenMe.fr_valid; cbn [fr_base fr_limit]; lia ].
Qed.

Lemma go_FlashRegion_BaseOffset_tie base limit : 0 <= base < 65536 ->
  go_FlashRegion_BaseOffset base = TightenMe.base_off (mkFR base limit).
Proof.
  intros H. unfold go_FlashRegion_BaseOffset, TightenMe.base_off, ifd_block. cbn [fr_base]. go_arith.
Qed.

Lemma go_FlashRegion_EndOffset_tie base limit : 0 <= limit < 65536 ->
  go_FlashRegion_EndOffset limit = TightenMe.end_off (mkFR base limit).
Proof.
  intros H. unfold go_FlashRegion_EndOffset, TightenMe.end_off, ifd_block. cbn [fr_limit]. go_arith.
Qed.

Lemma go_MEPartitionEntry_OffsetIsValid_tie o :
  go_MEPartitionEntry_OffsetIsValid o = TightenMe.offset_is_valid o.
Proof.
  first [ reflexivity | unfold go_MEPartitionEntry_OffsetIsValid, TightenMe.offset_is_valid; lia ].
Qed.

Lemma go_IsErased_flash_tie buf pol : go_IsErased buf pol = TightenMe.is_erased buf pol.
Proof.
  unfold go_IsErased, TightenMe.is_erased. induction buf as [|c r IH]; [reflexivity|].
  cbn [go_fold_c forallb]. destruct (c =? pol); cbn [negb andb]; [exact IH|reflexivity].
Qed.

Lemma go_slice_sub site b lo hi : 0 <= lo <= hi -> hi <= zlen b ->
  go_slice site b lo hi = Ok (sub lo (hi - lo) b).
Proof.
  intros H1 H2. unfold go_slice, slice, sub.
  replace ((0 <=? lo) && (lo <=? hi) && (hi <=? zlen b)) with true by lia. reflexivity.
Qed.

(* all byte strings *)
Lemma go_FindSignature_tie b : go_FindSignature b = TightenMe.find_signature b.
Proof.
  unfold go_FindSignature, TightenMe.find_signature, E_TOOSHORT, E_NOSIG.
  change go_tbl_FlashSignature with ifd_signature.
  change (zlen ifd_signature) with 4.
  destruct (zlen b <? 20) eqn:E; [reflexivity|].
  rewrite (swrap_small 64 (16 + 4)) by lia.
  rewrite go_slice_sub by lia. cbn [bind]. change (16 + 4 - 16) with 4.
  destruct (bytes_eqb (sub 16 4 b) ifd_signature); [reflexivity|].
  replace (4 <=? zlen b) with true by lia.
  rewrite go_slice_sub by lia. cbn [bind]. change (4 - 0) with 4.
  destruct (bytes_eqb (sub 0 4 b) ifd_signature); [reflexivity|].
  cbv zeta. cbn [bind]. rewrite go_slice_sub by lia. reflexivity.
Qed.
