(* Proofs/FfsCodecLeaf.v — a compressed section whose payload the codec REJECTS is a leaf of [wf].

   NewSection keeps a GUID-defined section with a codec GUID and the processing-required bit whose payload
   does not decode as a section without children (log, Compression = "UNKNOWN"); Assemble leaves a section
   without children alone unless it is a UI / version / depex section. So such a section satisfies
   [leaf_ok] and [leaf_stable], i.e. it is one of the leaves the preservation and fixed-point theorems of
   C06 quantify over. No hypothesis on the codecs is needed. (Added by the C06 coverage audit together
   with the generator feature COpts.Corrupt.) *)
From Coq Require Import ZArith List Lia Bool.
From Fiano Require Import Base.Bytes Base.BytesLemmas Model.Ffs Model.FfsSpec Proofs.FfsVolLemmas Proofs.FfsCodecProofs.
Import ListNotations.
Open Scope Z_scope.

Lemma sbody_undecodable dec u2s rs rf pol h h' g c buf rest i :
  s_type h = 2 -> s_gd h = Some g -> zlen (gd_guid g) = 16 -> 0 <= gd_attrs g < 65536 ->
  Z.land (gd_attrs g) 1 <> 0 -> codec_kind (gd_guid g) <> 0 ->
  dec (codec_kind (gd_guid g)) c = None ->
  zlen c < 4294967000 ->
  gen_sec_header h c = (h', buf) ->
  section_body dec u2s rs rf pol (buf ++ rest) i =
    Ok (NSec (mkSec (s_size3 h') 2 (s_ext h') (s_hlen h')
                    (Some (mkGd (gd_guid g) (s_hlen h' + 20) (gd_attrs g) 0)) [] 0 [] None i) buf [], pol).
Proof.
  intros Ht Hg Hg16 Hattr Hbit Hkind Hnone Hc Hgen.
  destruct (gen_shape h c Hc) as (chdr & hl & size3 & Hhl & Hlen & Hgen' & Hrd & Hhead & Hbig).
  rewrite Hgen in Hgen'. rewrite Hg in Hgen', Hhead, Hbig. cbn [tslen regd tshdr gd_guid gd_dataoff gd_attrs] in Hgen', Hhead, Hbig.
  pose proof (f_equal fst Hgen') as Hh'. pose proof (f_equal snd Hgen') as Hbuf.
  cbn [fst snd] in Hh', Hbuf. clear Hgen' Hgen. subst h' buf.
  cbn [s_size3 s_ext s_hlen s_gd s_type s_name s_build s_version s_depex s_order].
  set (guid := gd_guid g) in *. set (attrs := gd_attrs g) in *.
  set (tsh := guid ++ le_enc 2 (hl + 20) ++ le_enc 2 attrs).
  pose proof (zlen_nonneg c) as Hcn. pose proof (zlen_nonneg rest) as Hrn.
  assert (Htsh : zlen tsh = 20) by (unfold tsh; rewrite !zlen_app, !le2; lia).
  assert (Hzb : zlen (chdr ++ tsh ++ c) = hl + 20 + zlen c) by (rewrite !zlen_app; lia).
  set (B := chdr ++ tsh ++ c) in *.
  assert (HB : B ++ rest = chdr ++ (tsh ++ c) ++ rest) by (unfold B; rewrite <- !app_assoc; reflexivity).
  destruct (Hrd ((tsh ++ c) ++ rest)) as [R0 R3].
  rewrite section_body_eq.
  replace (zlen (B ++ rest) <? 4) with false by (rewrite zlen_app; lia).
  rewrite HB at 1. rewrite (Hhead _ ltac:(rewrite Ht; reflexivity)). cbn [bind].
  replace (zlen (B ++ rest) <? hl + 20 + zlen c) with false by (rewrite zlen_app; lia).
  replace (hl + 20 + zlen c <? hl) with false by lia.
  replace (sub 0 (hl + 20 + zlen c) (B ++ rest)) with B by (symmetry; apply sub_app_here; exact Hzb).
  rewrite HB. rewrite R0, R3. rewrite Ht.
  unfold sec_tail. change (2 =? 2) with true. cbv iota.
  replace (zlen B <? hl + 20) with false by lia.
  assert (Sg : sub hl 16 B = guid).
  { unfold B, tsh. rewrite <- Hlen. rewrite <- !app_assoc. apply sub_at. exact Hg16. }
  assert (Rd : rd (hl + 16) 2 B = hl + 20).
  { unfold B, tsh. replace (chdr ++ (guid ++ le_enc 2 (hl + 20) ++ le_enc 2 attrs) ++ c)
      with ((chdr ++ guid) ++ le_enc 2 (hl + 20) ++ (le_enc 2 attrs ++ c)) by (rewrite <- !app_assoc; reflexivity).
    replace (hl + 16) with (zlen (chdr ++ guid)) by (rewrite zlen_app; lia).
    rewrite rd_at by apply le2. apply le_dec_enc. change (256 ^ Z.of_nat 2) with 65536. lia. }
  assert (Ra : rd (hl + 18) 2 B = attrs).
  { unfold B, tsh. replace (chdr ++ (guid ++ le_enc 2 (hl + 20) ++ le_enc 2 attrs) ++ c)
      with ((chdr ++ guid ++ le_enc 2 (hl + 20)) ++ le_enc 2 attrs ++ c) by (rewrite <- !app_assoc; reflexivity).
    replace (hl + 18) with (zlen (chdr ++ guid ++ le_enc 2 (hl + 20))) by (rewrite !zlen_app, le2; lia).
    rewrite rd_at by apply le2. apply le_dec_enc. change (256 ^ Z.of_nat 2) with 65536. exact Hattr. }
  rewrite Sg, Rd, Ra.
  replace (zlen B <? hl + 20) with false by lia.
  replace (Z.land attrs 1 =? 0) with false by lia. cbn [negb].
  replace (codec_kind guid =? 0) with false by lia.
  rewrite slice_ok by lia.
  replace (sub (hl + 20) (zlen B - (hl + 20)) B) with c.
  2:{ unfold B. replace (chdr ++ tsh ++ c) with ((chdr ++ tsh) ++ c ++ []) by (rewrite app_nil_r, <- app_assoc; reflexivity).
      replace (hl + 20) with (zlen (chdr ++ tsh)) by (rewrite zlen_app; lia).
      symmetry. apply sub_at. rewrite !zlen_app. change (zlen (@nil Z)) with 0. lia. }
  rewrite Hnone. cbn [bind]. reflexivity.
Qed.

(* the two leaf conditions of [wf], for any codec pair and any polarity *)
Theorem undecodable_section_is_leaf dec enc u2s s2u nvar pol h h' g c buf i :
  s_type h = 2 -> s_gd h = Some g -> zlen (gd_guid g) = 16 -> 0 <= gd_attrs g < 65536 ->
  Z.land (gd_attrs g) 1 <> 0 -> codec_kind (gd_guid g) <> 0 ->
  dec (codec_kind (gd_guid g)) c = None ->
  zlen c < SZ ->
  gen_sec_header h c = (h', buf) ->
  let hp := mkSec (s_size3 h') 2 (s_ext h') (s_hlen h')
                  (Some (mkGd (gd_guid g) (s_hlen h' + 20) (gd_attrs g) 0)) [] 0 [] None i in
  leaf_ok dec u2s pol hp buf /\ leaf_stable enc s2u hp buf /\ wf dec enc u2s s2u nvar pol (NSec hp buf []).
Proof.
  intros Ht Hg Hg16 Hattr Hbit Hkind Hnone Hc Hgen hp.
  assert (L : leaf_ok dec u2s pol hp buf).
  { split.
    - pose proof (sbody_undecodable dec u2s bad_rs bad_rf pol h h' g c buf [] i Ht Hg Hg16 Hattr Hbit Hkind Hnone Hc Hgen) as S.
      rewrite app_nil_r in S. exact S.
    - intros K. discriminate K. }
  assert (T : leaf_stable enc s2u hp buf) by reflexivity.
  split; [exact L|]. split; [exact T|]. apply wf_leaf; assumption.
Qed.
