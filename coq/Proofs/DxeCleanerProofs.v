(* Proofs/DxeCleanerProofs.v — lemmas about Model/DxeCleaner.v.
   Part 1: Go list operations.  Part 2: Remove.Visit / Remove.Run — every
   variant is undone by unwinding the whole Undo chain and never runs out of
   fuel; the repaired loop deletes exactly the matched files.  Part 3: the
   cleaner's loop — termination, the invariant tying image, report and call
   log together, the monotone tester.  Part 4: witnesses for the unrepaired
   code. *)
From Coq Require Import ZifyBool ZifyNat.
From Fiano Require Import Base.Bytes Base.BytesLemmas Gen.Consts Model.DxeCleaner.
Open Scope Z_scope.

(* ================= Part 1: lists ================= *)

Lemma idx_mid {A} (a : list A) x b i : zlen a = i -> idx i (a ++ x :: b) = Some x.
Proof.
  intro H. unfold idx. pose proof (zlen_nonneg a). rewrite zlen_app, zlen_cons.
  pose proof (zlen_nonneg b).
  replace ((0 <=? i) && (i <? zlen a + (1 + zlen b))) with true by lia.
  subst i. unfold zlen. rewrite Nat2Z.id. rewrite nth_error_app2 by lia.
  rewrite Nat.sub_diag. reflexivity.
Qed.

Lemma idx_none {A} (l : list A) i : zlen l <= i -> idx i l = None.
Proof. intro H. unfold idx. replace ((0 <=? i) && (i <? zlen l)) with false by lia. reflexivity. Qed.

Lemma idx_some_split {A} (l : list A) i x : idx i l = Some x ->
  exists a b, l = a ++ x :: b /\ zlen a = i.
Proof.
  unfold idx. destruct ((0 <=? i) && (i <? zlen l)) eqn:E; [|discriminate].
  intro H. apply nth_error_split in H. destruct H as (a & b & -> & Hl).
  exists a, b. split; [reflexivity|]. unfold zlen. lia.
Qed.

Lemma idx_lt {A} (l : list A) i : 0 <= i < zlen l -> exists x, idx i l = Some x.
Proof.
  intro H. unfold idx. replace ((0 <=? i) && (i <? zlen l)) with true by lia.
  destruct (nth_error l (Z.to_nat i)) eqn:E; [eauto|].
  apply nth_error_None in E. unfold zlen in H. lia.
Qed.

Lemma slc_prefix {A} (a b : list A) i : zlen a = i -> slc 0 i (a ++ b) = Some a.
Proof.
  intro H. unfold slc. pose proof (zlen_nonneg a). pose proof (zlen_nonneg b).
  rewrite zlen_app.
  replace ((0 <=? 0) && (0 <=? i) && (i <=? zlen a + zlen b)) with true by lia.
  f_equal. unfold zskipn. cbn [Z.to_nat skipn]. rewrite Z.sub_0_r. subst i.
  apply zfirstn_app_exact.
Qed.

Lemma slc_suffix {A} (a : list A) x b i : zlen a = i ->
  slc (i + 1) (zlen (a ++ x :: b)) (a ++ x :: b) = Some b.
Proof.
  intro H. unfold slc. pose proof (zlen_nonneg a). pose proof (zlen_nonneg b).
  rewrite zlen_app, zlen_cons.
  replace ((0 <=? i + 1) && (i + 1 <=? zlen a + (1 + zlen b)) &&
           (zlen a + (1 + zlen b) <=? zlen a + (1 + zlen b))) with true by lia.
  f_equal. replace (a ++ x :: b) with ((a ++ [x]) ++ b) by (rewrite <- app_assoc; reflexivity).
  replace (i + 1) with (zlen (a ++ [x])) by (rewrite zlen_app, zlen_cons, zlen_nil; lia).
  rewrite zskipn_app_exact.
  replace (zlen a + (1 + zlen b) - zlen (a ++ [x])) with (zlen b)
    by (rewrite zlen_app, zlen_cons, zlen_nil; lia).
  replace b with (b ++ []) at 2 by apply app_nil_r. rewrite zfirstn_app_exact. reflexivity.
Qed.

Lemma set_nth_length {A} n (x : A) l : length (set_nth n x l) = length l.
Proof. revert n; induction l as [|y r IH]; intros [|n]; cbn; auto. Qed.

Lemma set_nth_same {A} n (x : A) l : nth_error l n = Some x -> set_nth n x l = l.
Proof.
  revert n; induction l as [|y r IH]; intros [|n] H; cbn in *; try discriminate.
  - congruence.
  - f_equal. auto.
Qed.

Lemma set_nth_twice {A} n (x y : A) l : set_nth n x (set_nth n y l) = set_nth n x l.
Proof. revert n; induction l as [|z r IH]; intros [|n]; cbn; auto. f_equal. auto. Qed.

Lemma nth_error_set_nth {A} n (x : A) l : (n < length l)%nat -> nth_error (set_nth n x l) n = Some x.
Proof.
  revert n; induction l as [|z r IH]; intros [|n] H; cbn in *; try lia; auto.
  apply IH. lia.
Qed.

Lemma set_nth_app {A} (pre : list A) x y post :
  set_nth (length pre) x (pre ++ y :: post) = pre ++ x :: post.
Proof. induction pre as [|z r IH]; cbn; [reflexivity|]. f_equal. exact IH. Qed.

Lemma nth_error_mid {A} (pre : list A) y post : nth_error (pre ++ y :: post) (length pre) = Some y.
Proof. rewrite nth_error_app2 by lia. rewrite Nat.sub_diag. reflexivity. Qed.

Lemma remove_nth_length {A} n (l : list A) : (n < length l)%nat ->
  length (remove_nth n l) = pred (length l).
Proof.
  revert n; induction l as [|y r IH]; intros [|n] H; cbn in *; try lia.
  rewrite IH by lia. lia.
Qed.

Lemma remove_nth_split {A} n (l : list A) x : nth_error l n = Some x ->
  exists a b, l = a ++ x :: b /\ length a = n /\ remove_nth n l = a ++ b.
Proof.
  revert n; induction l as [|y r IH]; intros [|n] H; cbn in *; try discriminate.
  - injection H as ->. exists [], r. auto.
  - destruct (IH _ H) as (a & b & -> & Hl & Hr). exists (y :: a), b. cbn. rewrite Hr. auto.
Qed.

(* the in-place deletion on (backing array, len) shows the same elements as the
   list-level deletion used by the model, and the array keeps its length *)
Lemma sl_delete_view {A} (arr : list A) len i : 0 <= i < len -> len <= zlen arr ->
  sl_view (sl_delete (arr, len) i) =
    zfirstn i (sl_view (arr, len)) ++ zfirstn (len - (i + 1)) (zskipn (i + 1) (sl_view (arr, len))) /\
  zlen (fst (sl_delete (arr, len) i)) = zlen arr.
Proof.
  intros Hi Hl. unfold sl_view, sl_delete, zfirstn, zskipn, zlen in *. cbn [fst snd].
  assert (Hn : (Z.to_nat len <= length arr)%nat) by lia.
  split.
  - rewrite app_assoc. rewrite firstn_app.
    assert (L1 : length (firstn (Z.to_nat i) arr ++
                 firstn (Z.to_nat (len - i - 1)) (skipn (Z.to_nat (i + 1)) arr)) = Z.to_nat (len - 1)).
    { rewrite app_length, !firstn_length, skipn_length. lia. }
    rewrite L1, Nat.sub_diag. cbn [firstn]. rewrite app_nil_r.
    rewrite firstn_all2 by lia.
    rewrite firstn_firstn. replace (Nat.min (Z.to_nat i) (Z.to_nat len)) with (Z.to_nat i) by lia.
    f_equal. rewrite firstn_skipn_comm. rewrite firstn_skipn_comm. rewrite firstn_firstn.
    f_equal. f_equal; lia.
  - rewrite !app_length, !firstn_length, !skipn_length. lia.
Qed.

Lemma memz_true x l : memz x l = true <-> In x l.
Proof.
  unfold memz. rewrite existsb_exists. split.
  - intros (y & Hy & E). apply Z.eqb_eq in E. subst. exact Hy.
  - intro H. exists x. split; [exact H|apply Z.eqb_refl].
Qed.

Lemma memz_false x l : memz x l = false <-> ~ In x l.
Proof. rewrite <- memz_true. destruct (memz x l); split; congruence. Qed.

Lemma memz_app x a b : memz x (a ++ b) = memz x a || memz x b.
Proof. unfold memz. apply existsb_app. Qed.

Lemma nodupz_NoDup l : nodupz l = true <-> NoDup l.
Proof.
  induction l as [|x r IH]; cbn.
  - split; [constructor|reflexivity].
  - rewrite andb_true_iff, negb_true_iff, memz_false, IH. split.
    + intros [H1 H2]. constructor; assumption.
    + intro H. inversion H. auto.
Qed.

Lemma filter_filter {A} (p q : A -> bool) l :
  filter p (filter q l) = filter (fun x => q x && p x) l.
Proof.
  induction l as [|x r IH]; cbn; [reflexivity|].
  destruct (q x); cbn; [destruct (p x)|]; rewrite IH; reflexivity.
Qed.

Lemma filter_ext_in' {A} (p q : A -> bool) l :
  (forall x, In x l -> p x = q x) -> filter p l = filter q l.
Proof.
  induction l as [|x r IH]; cbn; intro H; [reflexivity|].
  rewrite (H x) by auto. rewrite IH by auto. reflexivity.
Qed.

Lemma filter_all {A} (p : A -> bool) l : (forall x, In x l -> p x = true) -> filter p l = l.
Proof.
  induction l as [|x r IH]; cbn; intro H; [reflexivity|].
  rewrite (H x) by auto. rewrite IH by auto. reflexivity.
Qed.

Lemma concat_map_filter_in {A} (p : A -> bool) (ll : list (list A)) x :
  In x (concat (map (filter p) ll)) <-> In x (concat ll) /\ p x = true.
Proof.
  induction ll as [|l r IH]; cbn; [tauto|].
  rewrite !in_app_iff, IH, filter_In. tauto.
Qed.

(* ================= Part 1b: the tree ================= *)

(* induction over the nested type *)
Section FileInd.
Variable P : file -> Prop.
Hypothesis HP : forall f, Forall (Forall P) (f_kids f) -> P f.
Fixpoint file_ind' (f : file) : P f :=
  match f as f0 return P f0 with
  | mkFile a b c d e k =>
    HP (mkFile a b c d e k)
       ((fix gv (vs : list (list file)) : Forall (Forall P) vs :=
           match vs with
           | [] => Forall_nil _
           | v :: r =>
             Forall_cons v
               ((fix gf (fl : list file) : Forall P fl :=
                   match fl with
                   | [] => Forall_nil _
                   | x :: q => Forall_cons x (file_ind' x) (gf q)
                   end) v) (gv r)
           end) k)
  end.
End FileInd.

Lemma with_kids_eta f : with_kids f (f_kids f) = f.
Proof. destruct f; reflexivity. Qed.

Lemma with_kids_twice f k k' : with_kids (with_kids f k) k' = with_kids f k'.
Proof. reflexivity. Qed.

Lemma flat_file_eq f : flat_file f = f :: flat (f_kids f).
Proof. destruct f; reflexivity. Qed.

Lemma fdepth_eq f : fdepth f = S (vdepth (f_kids f)).
Proof. destruct f; reflexivity. Qed.

Lemma flat_cons v vs : flat (v :: vs) = flat_vol v ++ flat vs.
Proof. reflexivity. Qed.

Lemma flat_vol_cons x v : flat_vol (x :: v) = flat_file x ++ flat_vol v.
Proof. reflexivity. Qed.

Lemma flat_vol_app a b : flat_vol (a ++ b) = flat_vol a ++ flat_vol b.
Proof. unfold flat_vol. rewrite map_app, concat_app. reflexivity. Qed.

Lemma in_flat_vol x v y : In x v -> In y (flat_file x) -> In y (flat_vol v).
Proof.
  intros Hx Hy. unfold flat_vol. apply in_concat. exists (flat_file x). split; [apply in_map; exact Hx|exact Hy].
Qed.

Lemma in_flat v vs y : In v vs -> In y (flat_vol v) -> In y (flat vs).
Proof.
  intros Hv Hy. unfold flat. apply in_concat. exists (flat_vol v). split; [apply in_map; exact Hv|exact Hy].
Qed.

Lemma in_flat_self x v vs : In x v -> In v vs -> In x (flat vs).
Proof.
  intros Hx Hv. eapply in_flat; [exact Hv|]. eapply in_flat_vol; [exact Hx|].
  rewrite flat_file_eq. left. reflexivity.
Qed.

Lemma in_flat_kids x v vs y : In x v -> In v vs -> In y (flat (f_kids x)) -> In y (flat vs).
Proof.
  intros Hx Hv Hy. eapply in_flat; [exact Hv|]. eapply in_flat_vol; [exact Hx|].
  rewrite flat_file_eq. right. exact Hy.
Qed.

Lemma vdepth_cons v vs :
  vdepth (v :: vs) = Nat.max (fold_right (fun x m' => Nat.max (fdepth x) m') O v) (vdepth vs).
Proof. reflexivity. Qed.

Lemma fdepth_le_vol x v : In x v -> (fdepth x <= fold_right (fun x m' => Nat.max (fdepth x) m') O v)%nat.
Proof.
  induction v as [|y r IH]; intro H; [destruct H|]. cbn [fold_right].
  destruct H as [->|H]; [lia|]. specialize (IH H). lia.
Qed.

Lemma fdepth_le x v vs : In x v -> In v vs -> (fdepth x <= vdepth vs)%nat.
Proof.
  intros Hx Hv. induction vs as [|w r IH]; [destruct Hv|]. rewrite vdepth_cons.
  destruct Hv as [->|Hv].
  - pose proof (fdepth_le_vol x v Hx). lia.
  - specialize (IH Hv). lia.
Qed.

Lemma map_nth_mid {A} (pre : list A) y post g :
  map_nth (length pre) g (pre ++ y :: post) = pre ++ g y :: post.
Proof. induction pre as [|z r IH]; cbn; [reflexivity|]. f_equal. exact IH. Qed.

Lemma in_set_nth {A} n (x y : A) l : In y (set_nth n x l) -> y = x \/ In y l.
Proof.
  revert n; induction l as [|z r IH]; intros [|n] H; cbn in *; try tauto.
  - destruct H as [<-|H]; auto.
  - destruct H as [<-|H]; auto. destruct (IH _ H); auto.
Qed.

(* header-only predicates *)
Definition hdr_inv (K : file -> bool) : Prop := forall f k, K (with_kids f k) = K f.

Definition pv (K : file -> bool) (v : volume) : volume := filter K (map (prune_file K) v).

Lemma prune_file_eq K f : prune_file K f = with_kids f (prune K (f_kids f)).
Proof. destruct f; reflexivity. Qed.

Lemma prune_eq K vs : prune K vs = map (pv K) vs.
Proof. reflexivity. Qed.

Lemma hdr_prune K K' f : hdr_inv K -> K (prune_file K' f) = K f.
Proof. intro H. rewrite prune_file_eq. apply H. Qed.

Lemma filter_map_hdr {A} (K : A -> bool) (g : A -> A) l :
  (forall x, K (g x) = K x) -> filter K (map g l) = map g (filter K l).
Proof.
  intro H. induction l as [|x r IH]; cbn; [reflexivity|]. rewrite H.
  destruct (K x); cbn; rewrite IH; reflexivity.
Qed.

Lemma pv_alt K v : hdr_inv K -> pv K v = map (prune_file K) (filter K v).
Proof. intro H. unfold pv. apply filter_map_hdr. intro x. apply hdr_prune. exact H. Qed.

Lemma prune_file_ext K1 K2 : hdr_inv K1 -> hdr_inv K2 -> forall f,
  (forall x, In x (flat_file f) -> K1 x = K2 x) -> prune_file K1 f = prune_file K2 f.
Proof.
  intros H1 H2. apply (file_ind' (fun f => (forall x, In x (flat_file f) -> K1 x = K2 x) ->
                                            prune_file K1 f = prune_file K2 f)).
  intros f IH HK. rewrite !prune_file_eq. f_equal. rewrite flat_file_eq in HK.
  assert (HK' : forall x, In x (flat (f_kids f)) -> K1 x = K2 x) by (intros; apply HK; right; assumption).
  clear HK. induction (f_kids f) as [|v r IHr]; [reflexivity|].
  inversion IH as [|? ? IHv IHr']; subst. cbn [prune map]. f_equal.
  - assert (Hv : forall x, In x (flat_vol v) -> K1 x = K2 x)
      by (intros x Hx; apply HK'; rewrite flat_cons; apply in_or_app; left; exact Hx).
    clear - H1 H2 IHv Hv. induction v as [|x q IHq]; [reflexivity|].
    inversion IHv as [|? ? IHx IHq']; subst. cbn [map filter].
    assert (Ex : prune_file K1 x = prune_file K2 x).
    { apply IHx. intros y Hy. apply Hv. rewrite flat_vol_cons. apply in_or_app. left. exact Hy. }
    rewrite Ex. rewrite (hdr_prune K1 K2 x H1), (hdr_prune K2 K2 x H2).
    rewrite (Hv x) by (rewrite flat_vol_cons, flat_file_eq; left; reflexivity).
    rewrite IHq; [reflexivity|exact IHq'|].
    intros y Hy. apply Hv. rewrite flat_vol_cons. apply in_or_app. right. exact Hy.
  - apply IHr; [exact IHr'|]. intros x Hx. apply HK'. rewrite flat_cons. apply in_or_app. right. exact Hx.
Qed.

Lemma pv_ext K1 K2 v : hdr_inv K1 -> hdr_inv K2 ->
  (forall x, In x (flat_vol v) -> K1 x = K2 x) -> pv K1 v = pv K2 v.
Proof.
  intros H1 H2 Hv. unfold pv. induction v as [|x q IH]; [reflexivity|]. cbn [map filter].
  assert (Ex : prune_file K1 x = prune_file K2 x).
  { apply prune_file_ext; auto. intros y Hy. apply Hv. rewrite flat_vol_cons. apply in_or_app. left. exact Hy. }
  rewrite Ex, (hdr_prune K1 K2 x H1), (hdr_prune K2 K2 x H2).
  rewrite (Hv x) by (rewrite flat_vol_cons, flat_file_eq; left; reflexivity).
  rewrite IH; [reflexivity|]. intros y Hy. apply Hv. rewrite flat_vol_cons. apply in_or_app. right. exact Hy.
Qed.

Lemma prune_ext K1 K2 vs : hdr_inv K1 -> hdr_inv K2 ->
  (forall x, In x (flat vs) -> K1 x = K2 x) -> prune K1 vs = prune K2 vs.
Proof.
  intros H1 H2 H. induction vs as [|v r IH]; [reflexivity|]. cbn [prune map]. f_equal.
  - apply (pv_ext K1 K2 v H1 H2). intros x Hx. apply H. rewrite flat_cons. apply in_or_app. left. exact Hx.
  - apply IH. intros x Hx. apply H. rewrite flat_cons. apply in_or_app. right. exact Hx.
Qed.

Lemma prune_file_all K : (forall x, K x = true) -> forall f, prune_file K f = f.
Proof.
  intro HK. apply (file_ind' (fun f => prune_file K f = f)). intros f IH.
  rewrite prune_file_eq.
  assert (E : prune K (f_kids f) = f_kids f).
  { induction (f_kids f) as [|v r IHr]; [reflexivity|]. inversion IH as [|? ? IHv IHr']; subst.
    cbn [prune map]. f_equal; [|apply IHr; exact IHr'].
    clear - HK IHv. induction v as [|x q IHq]; [reflexivity|]. inversion IHv as [|? ? Hx Hq]; subst.
    cbn [map filter]. rewrite HK, Hx. f_equal. apply IHq. exact Hq. }
  rewrite E. apply with_kids_eta.
Qed.

Lemma prune_all K vs : (forall x, K x = true) -> prune K vs = vs.
Proof.
  intro HK. induction vs as [|v r IH]; [reflexivity|]. cbn [prune map]. f_equal; [|exact IH].
  induction v as [|x q IHq]; [reflexivity|]. cbn [map filter]. rewrite HK, (prune_file_all K HK x).
  f_equal. exact IHq.
Qed.

Lemma prune_file_comp P Q : hdr_inv P -> hdr_inv Q -> forall f,
  prune_file P (prune_file Q f) = prune_file (fun x => Q x && P x) f.
Proof.
  intros HP HQ. apply (file_ind' (fun f => prune_file P (prune_file Q f) = prune_file (fun x => Q x && P x) f)).
  intros f IH. rewrite (prune_file_eq Q f), (prune_file_eq P), (prune_file_eq _ f).
  cbn [f_kids with_kids]. unfold with_kids at 1. cbn [f_id f_guid f_type f_size f_ui with_kids].
  unfold with_kids. f_equal.
  induction (f_kids f) as [|v r IHr]; [reflexivity|]. inversion IH as [|? ? IHv IHr']; subst.
  cbn [prune map]. f_equal; [|apply IHr; exact IHr'].
  rewrite (filter_map_hdr Q (prune_file Q) v) by (intro x; apply hdr_prune; exact HQ).
  rewrite map_map.
  rewrite (filter_map_hdr P _ (filter Q v))
    by (intro x; rewrite (hdr_prune P P _ HP); apply hdr_prune; exact HP).
  rewrite filter_filter.
  rewrite (filter_map_hdr (fun x => Q x && P x) (prune_file (fun x => Q x && P x)) v).
  2:{ intro x. rewrite !prune_file_eq. rewrite HP, HQ. reflexivity. }
  apply map_ext_in. intros x Hx. apply filter_In in Hx. destruct Hx as [Hx _].
  rewrite Forall_forall in IHv. apply IHv. exact Hx.
Qed.

Lemma prune_comp P Q vs : hdr_inv P -> hdr_inv Q ->
  prune P (prune Q vs) = prune (fun x => Q x && P x) vs.
Proof.
  intros HP HQ. induction vs as [|v r IH]; [reflexivity|]. cbn [prune map]. f_equal; [|exact IH].
  rewrite (filter_map_hdr Q (prune_file Q) v) by (intro x; apply hdr_prune; exact HQ).
  rewrite map_map.
  rewrite (filter_map_hdr P _ (filter Q v))
    by (intro x; rewrite (hdr_prune P P _ HP); apply hdr_prune; exact HP).
  rewrite filter_filter.
  rewrite (filter_map_hdr (fun x => Q x && P x) (prune_file (fun x => Q x && P x)) v).
  2:{ intro x. rewrite !prune_file_eq. rewrite HP, HQ. reflexivity. }
  apply map_ext. intro x. apply prune_file_comp; assumption.
Qed.

(* ---- what pruning does to the pre-order listing ---- *)

Inductive subseq {A} : list A -> list A -> Prop :=
| ss_nil : subseq [] []
| ss_keep x a b : subseq a b -> subseq (x :: a) (x :: b)
| ss_skip x a b : subseq a b -> subseq a (x :: b).

Lemma subseq_refl {A} (l : list A) : subseq l l.
Proof. induction l; constructor; auto. Qed.

Lemma subseq_nil_l {A} (l : list A) : subseq [] l.
Proof. induction l; constructor; auto. Qed.

Lemma subseq_app {A} (a a' b b' : list A) : subseq a a' -> subseq b b' -> subseq (a ++ b) (a' ++ b').
Proof. intros H1 H2. induction H1; cbn; try constructor; auto. Qed.

Lemma subseq_skip_app {A} (a b c : list A) : subseq a b -> subseq a (c ++ b).
Proof. intro H. induction c; cbn; [exact H|constructor; exact IHc]. Qed.

Lemma subseq_in {A} (a b : list A) x : subseq a b -> In x a -> In x b.
Proof.
  intro H. induction H; cbn; intro Hx.
  - exact Hx.
  - destruct Hx; auto.
  - auto.
Qed.

Lemma subseq_NoDup {A} (a b : list A) : subseq a b -> NoDup b -> NoDup a.
Proof.
  intro H. induction H; intro Hn; [constructor| |].
  - inversion Hn; subst. constructor; auto. intro Hx. eapply subseq_in in Hx; eauto.
  - inversion Hn; subst. auto.
Qed.

Lemma ids_prune_file K : hdr_inv K -> forall f,
  subseq (map f_id (flat_file (prune_file K f))) (map f_id (flat_file f)).
Proof.
  intro HK. apply (file_ind' (fun f => subseq (map f_id (flat_file (prune_file K f))) (map f_id (flat_file f)))).
  intros f IH. rewrite prune_file_eq, !flat_file_eq. cbn [map f_kids with_kids f_id].
  apply ss_keep.
  induction (f_kids f) as [|v r IHr]; [constructor|]. inversion IH as [|? ? IHv IHr']; subst.
  cbn [prune map]. rewrite !flat_cons, !map_app. apply subseq_app; [|apply IHr; exact IHr'].
  clear - HK IHv. induction v as [|x q IHq]; [constructor|]. inversion IHv as [|? ? Hx Hq]; subst.
  cbn [map filter]. rewrite flat_vol_cons, map_app.
  destruct (K (prune_file K x)).
  - rewrite flat_vol_cons, map_app. apply subseq_app; [exact Hx|apply IHq; exact Hq].
  - apply subseq_skip_app. apply IHq. exact Hq.
Qed.

Lemma ids_prune K vs : hdr_inv K -> subseq (map f_id (flat (prune K vs))) (map f_id (flat vs)).
Proof.
  intro HK. induction vs as [|v r IH]; [constructor|]. cbn [prune map].
  rewrite !flat_cons, !map_app. apply subseq_app; [|exact IH].
  induction v as [|x q IHq]; [constructor|]. cbn [map filter]. rewrite flat_vol_cons, map_app.
  destruct (K (prune_file K x)).
  - rewrite flat_vol_cons, map_app. apply subseq_app; [apply ids_prune_file; exact HK|exact IHq].
  - apply subseq_skip_app. exact IHq.
Qed.

(* a file of the pruned tree is a file of the tree, with pruned kids *)
Lemma flat_prune_file_in K : forall f y, In y (flat_file (prune_file K f)) ->
  exists y0, In y0 (flat_file f) /\ y = prune_file K y0.
Proof.
  apply (file_ind' (fun f => forall y, In y (flat_file (prune_file K f)) ->
     exists y0, In y0 (flat_file f) /\ y = prune_file K y0)).
  intros f IH y Hy. rewrite flat_file_eq in Hy. destruct Hy as [<-|Hy].
  - exists f. rewrite flat_file_eq. split; [left; reflexivity|reflexivity].
  - rewrite prune_file_eq in Hy. cbn [f_kids with_kids] in Hy.
    assert (G : exists y0, In y0 (flat (f_kids f)) /\ y = prune_file K y0).
    { clear - IH Hy. induction (f_kids f) as [|v r IHr]; [destruct Hy|].
      inversion IH as [|? ? IHv IHr']; subst. cbn [prune map] in Hy. rewrite flat_cons in Hy.
      apply in_app_or in Hy. destruct Hy as [Hy|Hy].
      - assert (Gv : exists y0, In y0 (flat_vol v) /\ y = prune_file K y0).
        { clear - IHv Hy. induction v as [|x q IHq]; [destruct Hy|].
          inversion IHv as [|? ? Hx Hq]; subst. cbn [map filter] in Hy.
          assert (Hy' : In y (flat_file (prune_file K x)) \/
                        In y (flat_vol (filter K (map (prune_file K) q)))).
          { destruct (K (prune_file K x)); [|right; exact Hy].
            rewrite flat_vol_cons in Hy. apply in_app_or in Hy. exact Hy. }
          destruct Hy' as [Hy'|Hy'].
          - destruct (Hx y Hy') as (y0 & H0 & E). exists y0. rewrite flat_vol_cons.
            split; [apply in_or_app; left; exact H0|exact E].
          - destruct (IHq Hy' Hq) as (y0 & H0 & E). exists y0. rewrite flat_vol_cons.
            split; [apply in_or_app; right; exact H0|exact E]. }
        destruct Gv as (y0 & H0 & E). exists y0. rewrite flat_cons.
        split; [apply in_or_app; left; exact H0|exact E].
      - destruct (IHr IHr' Hy) as (y0 & H0 & E). exists y0. rewrite flat_cons.
        split; [apply in_or_app; right; exact H0|exact E]. }
    destruct G as (y0 & H0 & E). exists y0. rewrite flat_file_eq. split; [right; exact H0|exact E].
Qed.

Lemma flat_prune_in K vs y : In y (flat (prune K vs)) ->
  exists y0, In y0 (flat vs) /\ y = prune_file K y0.
Proof.
  induction vs as [|v r IH]; intro Hy; [destruct Hy|]. cbn [prune map] in Hy. rewrite flat_cons in Hy.
  apply in_app_or in Hy. destruct Hy as [Hy|Hy].
  - assert (Gv : exists y0, In y0 (flat_vol v) /\ y = prune_file K y0).
    { clear - Hy. induction v as [|x q IHq]; [destruct Hy|]. cbn [map filter] in Hy.
      assert (Hy' : In y (flat_file (prune_file K x)) \/
                    In y (flat_vol (filter K (map (prune_file K) q)))).
      { destruct (K (prune_file K x)); [|right; exact Hy].
        rewrite flat_vol_cons in Hy. apply in_app_or in Hy. exact Hy. }
      destruct Hy' as [Hy'|Hy'].
      - destruct (flat_prune_file_in K x y Hy') as (y0 & H0 & E). exists y0. rewrite flat_vol_cons.
        split; [apply in_or_app; left; exact H0|exact E].
      - destruct (IHq Hy') as (y0 & H0 & E). exists y0. rewrite flat_vol_cons.
        split; [apply in_or_app; right; exact H0|exact E]. }
    destruct Gv as (y0 & H0 & E). exists y0. rewrite flat_cons.
    split; [apply in_or_app; left; exact H0|exact E].
  - destruct (IH Hy) as (y0 & H0 & E). exists y0. rewrite flat_cons.
    split; [apply in_or_app; right; exact H0|exact E].
Qed.

(* every file left in a pruned tree passes the test *)
Lemma flat_pv_keep K v y :
  (forall x, In x v -> In y (flat (f_kids (prune_file K x))) -> K y = true) ->
  In y (flat_vol (pv K v)) -> K y = true.
Proof.
  unfold pv. induction v as [|x q IHq]; intros Hk Hy; [destruct Hy|]. cbn [map filter] in Hy.
  destruct (K (prune_file K x)) eqn:Ex.
  - rewrite flat_vol_cons in Hy. apply in_app_or in Hy. destruct Hy as [Hy|Hy].
    + rewrite flat_file_eq in Hy. destruct Hy as [<-|Hy]; [exact Ex|].
      apply (Hk x); [left; reflexivity|exact Hy].
    + apply IHq; [|exact Hy]. intros x' Hx'. apply Hk. right. exact Hx'.
  - apply IHq; [|exact Hy]. intros x' Hx'. apply Hk. right. exact Hx'.
Qed.

Lemma flat_prune_file_keep K : forall f y, In y (flat (f_kids (prune_file K f))) -> K y = true.
Proof.
  apply (file_ind' (fun f => forall y, In y (flat (f_kids (prune_file K f))) -> K y = true)).
  intros f IH y Hy. rewrite prune_file_eq in Hy. cbn [f_kids with_kids] in Hy.
  induction (f_kids f) as [|v r IHr]; [destruct Hy|]. inversion IH as [|? ? IHv IHr']; subst.
  cbn [prune map] in Hy. rewrite flat_cons in Hy. apply in_app_or in Hy. destruct Hy as [Hy|Hy].
  - apply (flat_pv_keep K v y); [|exact Hy]. rewrite Forall_forall in IHv. intros x Hx. apply IHv. exact Hx.
  - apply IHr; assumption.
Qed.

Lemma flat_prune_keep K vs y : In y (flat (prune K vs)) -> K y = true.
Proof.
  induction vs as [|v r IH]; intro Hy; [destruct Hy|]. cbn [prune map] in Hy. rewrite flat_cons in Hy.
  apply in_app_or in Hy. destruct Hy as [Hy|Hy]; [|apply IH; exact Hy].
  apply (flat_pv_keep K v y); [|exact Hy]. intros x _. apply flat_prune_file_keep.
Qed.

(* ================= Part 2: Remove ================= *)

(* what the saved lists of one volume put back: the oldest one *)
Fixpoint lunwind (cur : list file) (origs : list (list file)) : list file :=
  match origs with
  | [] => cur
  | o :: r => lunwind o r
  end.

(* closures addressed relative to a volume: [] is the volume itself *)
Definition fset (a : addr) (o : list file) (fs : list file) : list file :=
  match a with
  | [] => o
  | fi :: a2 => map_nth fi (fun f => with_kids f (set_at a2 o (f_kids f))) fs
  end.

Fixpoint funwind (fs : list file) (u : undo) : list file :=
  match u with
  | [] => fs
  | (a, o) :: r => funwind (fset a o fs) r
  end.

Lemma set_at_cons vi a1 o vs : set_at (vi :: a1) o vs = map_nth vi (fset a1 o) vs.
Proof. destruct a1; reflexivity. Qed.

Lemma unwind_app img a b : unwind img (a ++ b) = unwind (unwind img a) b.
Proof. revert img; induction a as [|[x o] r IH]; intro img; cbn [app unwind]; auto. Qed.

Lemma funwind_app fs a b : funwind fs (a ++ b) = funwind (funwind fs a) b.
Proof. revert fs; induction a as [|[x o] r IH]; intro fs; cbn [app funwind]; auto. Qed.

Lemma unwind_pfx : forall u pre fs post,
  unwind (pre ++ fs :: post) (map (pfx (length pre)) u) = pre ++ funwind fs u :: post.
Proof.
  induction u as [|[a o] r IH]; intros pre fs post; [reflexivity|].
  cbn [map pfx fst snd unwind funwind]. rewrite set_at_cons, map_nth_mid. apply IH.
Qed.

Lemma funwind_pfx : forall u pre f post,
  funwind (pre ++ f :: post) (map (pfx (length pre)) u) =
  pre ++ with_kids f (unwind (f_kids f) u) :: post.
Proof.
  induction u as [|[a o] r IH]; intros pre f post.
  - cbn. rewrite with_kids_eta. reflexivity.
  - cbn [map pfx fst snd unwind funwind fset]. rewrite map_nth_mid. rewrite IH. reflexivity.
Qed.

Lemma funwind_here fs origs : funwind fs (map (fun o => ([], o)) origs) = lunwind fs origs.
Proof. revert fs; induction origs as [|o r IH]; intro fs; [reflexivity|]. cbn. apply IH. Qed.

Lemma create_pad_kids pol size nx pf : create_pad pol size nx = Ok pf -> f_kids pf = [].
Proof.
  unfold create_pad. destruct (size <? _); [discriminate|].
  destruct (pol =? 255); [intro H; injection H as <-; reflexivity|].
  destruct (pol =? 0); [intro H; injection H as <-; reflexivity|discriminate].
Qed.

(* [inner], any variant: the saved lists put back the list it started from,
   (length - index) does not grow, no file with nested volumes is invented *)
Lemma inner_inv var pol pad ms : forall i fs u nx i' fs' u' nx',
  inner var pol pad ms i fs u nx = Ok (i', fs', u', nx') ->
  exists new, u' = new ++ u /\ (forall new0, lunwind fs' (new ++ new0) = lunwind fs new0) /\
              zlen fs' - i' <= zlen fs - i /\
              (forall x, In x fs' -> In x fs \/ f_kids x = []).
Proof.
  induction ms as [|m ms IH]; intros i fs u nx i' fs' u' nx' H; cbn [inner] in H.
  - injection H as <- <- <- <-. exists []. cbn. repeat split; auto; lia.
  - destruct (idx i fs) as [x|] eqn:Ex; cbn in H; [|discriminate].
    destruct (f_id x =? m) eqn:Em.
    + destruct (pad || (f_type x =? fv_filetype_peim)) eqn:Ep.
      * destruct (create_pad pol (f_size x) nx) as [pf| | |] eqn:Ec; cbn in H; try discriminate.
        assert (Hlen : zlen (set_nth (Z.to_nat i) pf fs) = zlen fs)
          by (unfold zlen; rewrite set_nth_length; reflexivity).
        assert (Hin : forall y, In y (set_nth (Z.to_nat i) pf fs) -> In y fs \/ f_kids y = []).
        { intros y Hy. apply in_set_nth in Hy. destruct Hy as [->|Hy]; [right|left; exact Hy].
          eapply create_pad_kids; eauto. }
        destruct (v_index var).
        -- injection H as <- <- <- <-. exists [fs]. cbn. repeat split; auto; lia.
        -- apply IH in H. destruct H as (new & -> & U' & Hm & Hf). exists (new ++ [fs]).
           rewrite <- !app_assoc. cbn. split; [reflexivity|]. split.
           { intro new0. rewrite <- app_assoc. cbn. rewrite U'. reflexivity. }
           split; [lia|]. intros y Hy. destruct (Hf y Hy) as [Hy'|Hy']; auto.
      * destruct (slc 0 i fs) as [a|] eqn:Ea; cbn in H; [|discriminate].
        destruct (slc (i + 1) (zlen fs) fs) as [b|] eqn:Eb; cbn in H; [|discriminate].
        apply idx_some_split in Ex. destruct Ex as (a0 & b0 & -> & Hi).
        rewrite (slc_prefix a0 (x :: b0) i Hi) in Ea. injection Ea as <-.
        rewrite (slc_suffix a0 x b0 i Hi) in Eb. injection Eb as <-.
        assert (Hlen : zlen (a0 ++ b0) = zlen (a0 ++ x :: b0) - 1)
          by (rewrite !zlen_app, zlen_cons; lia).
        assert (Hin : forall y, In y (a0 ++ b0) -> In y (a0 ++ x :: b0) \/ f_kids y = []).
        { intros y Hy. left. apply in_app_or in Hy. apply in_or_app. destruct Hy; [left|right; right]; auto. }
        destruct (v_index var).
        -- injection H as <- <- <- <-. exists [a0 ++ x :: b0]. cbn. repeat split; auto; lia.
        -- apply IH in H. destruct H as (new & -> & U' & Hm & Hf). exists (new ++ [a0 ++ x :: b0]).
           rewrite <- !app_assoc. cbn. split; [reflexivity|]. split.
           { intro new0. rewrite <- app_assoc. cbn. rewrite U'. reflexivity. }
           split; [lia|]. intros y Hy. destruct (Hf y Hy) as [Hy'|Hy']; auto.
    + apply IH in H. exact H.
Qed.

Lemma inner_no_fuel var pol pad ms : forall i fs u nx,
  inner var pol pad ms i fs u nx <> Fuel.
Proof.
  induction ms as [|m ms IH]; intros i fs u nx; cbn [inner]; [discriminate|].
  destruct (idx i fs) as [x|]; cbn; [|discriminate].
  destruct (f_id x =? m); [|apply IH].
  destruct (pad || (f_type x =? fv_filetype_peim)).
  - unfold create_pad. destruct (f_size x <? file_header_min_length); cbn; [discriminate|].
    destruct (pol =? 255); cbn; [destruct (v_index var); [discriminate|apply IH]|].
    destruct (pol =? 0); cbn; [destruct (v_index var); [discriminate|apply IH]|discriminate].
  - destruct (slc 0 i fs); cbn; [|discriminate].
    destruct (slc (i + 1) (zlen fs) fs); cbn; [|discriminate].
    destruct (v_index var); [discriminate|apply IH].
Qed.

Lemma outer_inv var pol pad ms : forall fuel i fs u nx fs' u' nx',
  outer fuel var pol pad ms i fs u nx = Ok (fs', u', nx') ->
  exists new, u' = new ++ u /\ (forall new0, lunwind fs' (new ++ new0) = lunwind fs new0) /\
              (forall x, In x fs' -> In x fs \/ f_kids x = []).
Proof.
  induction fuel as [|k IH]; intros i fs u nx fs' u' nx' H; cbn [outer] in H; [discriminate|].
  destruct (i <? zlen fs).
  - destruct (inner var pol pad ms i fs u nx) as [[[[i1 fs1] u1] nx1]| | |] eqn:Ei; cbn in H; try discriminate.
    destruct (inner_inv _ _ _ _ _ _ _ _ _ _ _ _ Ei) as (new1 & -> & U1 & _ & F1).
    destruct (IH _ _ _ _ _ _ _ H) as (new2 & -> & U2 & F2).
    exists (new2 ++ new1). rewrite <- !app_assoc. split; [reflexivity|]. split.
    + intro new0. rewrite <- app_assoc, U2, U1. reflexivity.
    + intros x Hx. destruct (F2 x Hx) as [Hx'|Hx']; auto.
  - injection H as <- <- <-. exists []. cbn. auto.
Qed.

Lemma outer_no_fuel var pol pad ms : forall fuel i fs u nx,
  (Z.to_nat (zlen fs - i) < fuel)%nat -> outer fuel var pol pad ms i fs u nx <> Fuel.
Proof.
  induction fuel as [|k IH]; intros i fs u nx Hf; [lia|]. cbn [outer].
  destruct (i <? zlen fs) eqn:El; [|discriminate].
  destruct (inner var pol pad ms i fs u nx) as [[[[i1 fs1] u1] nx1]| | |] eqn:Ei; cbn; try discriminate.
  - destruct (inner_inv _ _ _ _ _ _ _ _ _ _ _ _ Ei) as (_ & _ & _ & Hm & _).
    apply IH. lia.
  - exfalso. exact (inner_no_fuel _ _ _ _ _ _ _ _ Ei).
Qed.

Lemma visit_loop_inv var pol pad ms fs nx fs' origs nx' :
  visit_loop var pol pad ms fs nx = Ok (fs', origs, nx') ->
  lunwind fs' origs = fs /\ (forall x, In x fs' -> In x fs \/ f_kids x = []).
Proof.
  unfold visit_loop. intro H. apply outer_inv in H. destruct H as (new & -> & U & F).
  split; [|exact F]. specialize (U []). rewrite !app_nil_r in *. exact U.
Qed.

Lemma visit_loop_no_fuel var pol pad ms fs nx : visit_loop var pol pad ms fs nx <> Fuel.
Proof. unfold visit_loop. apply outer_no_fuel. unfold zlen. lia. Qed.

(* ---- unwinding everything a descent pushed gives the tree back ---- *)

Definition rec_undo (rec : list volume -> Z -> outcome (list volume * undo * Z)) : Prop :=
  forall k nx k' new nx', rec k nx = Ok (k', new, nx') -> unwind k' new = k.

Lemma visit_files_undo rec : rec_undo rec -> forall fl fi nx fl' new nx',
  visit_files rec fi fl nx = Ok (fl', new, nx') ->
  forall pre, length pre = fi -> funwind (pre ++ fl') new = pre ++ fl.
Proof.
  intro R. induction fl as [|f r IH]; intros fi nx fl' new nx' H pre Hp; cbn [visit_files] in H.
  - injection H as <- <- <-. reflexivity.
  - destruct (rec (f_kids f) nx) as [[[k' uk] nx1]| | |] eqn:E1; cbn in H; try discriminate.
    destruct (visit_files rec (S fi) r nx1) as [[[r' ur] nx2]| | |] eqn:E2; cbn in H; try discriminate.
    injection H as <- <- <-. rewrite funwind_app.
    replace (pre ++ with_kids f k' :: r') with ((pre ++ [with_kids f k']) ++ r')
      by (rewrite <- app_assoc; reflexivity).
    rewrite (IH _ _ _ _ _ E2) by (rewrite app_length; cbn; lia).
    rewrite <- app_assoc. cbn [app]. subst fi. rewrite funwind_pfx. cbn [f_kids with_kids].
    rewrite (R _ _ _ _ _ E1). unfold with_kids at 1. cbn [f_id f_guid f_type f_size f_ui with_kids].
    fold (with_kids f (f_kids f)). rewrite with_kids_eta. reflexivity.
Qed.

Lemma visit_one_undo rec var pol pad ms fs nx fs' new nx' : rec_undo rec ->
  visit_one rec var pol pad ms fs nx = Ok (fs', new, nx') -> funwind fs' new = fs.
Proof.
  intros R H. unfold visit_one in H.
  destruct (visit_loop var pol pad ms fs nx) as [[[fs1 origs] nx1]| | |] eqn:E1; cbn in H; try discriminate.
  destruct (visit_files rec 0 fs1 nx1) as [[[fl uk] nx2]| | |] eqn:E2; cbn in H; try discriminate.
  injection H as <- <- <-. rewrite funwind_app.
  pose proof (visit_files_undo rec R _ _ _ _ _ _ E2 [] eq_refl) as X. cbn [app] in X. rewrite X.
  rewrite funwind_here. apply visit_loop_inv in E1. tauto.
Qed.

Lemma visit_seq_undo rec var pol pad ms : rec_undo rec -> forall vs vi nx vs' new nx',
  visit_seq rec var pol pad ms vi vs nx = Ok (vs', new, nx') ->
  forall pre, length pre = vi -> unwind (pre ++ vs') new = pre ++ vs.
Proof.
  intro R. induction vs as [|fs r IH]; intros vi nx vs' new nx' H pre Hp; cbn [visit_seq] in H.
  - injection H as <- <- <-. reflexivity.
  - destruct (visit_one rec var pol pad ms fs nx) as [[[fs1 u1] nx1]| | |] eqn:E1; cbn in H; try discriminate.
    destruct (visit_seq rec var pol pad ms (S vi) r nx1) as [[[r1 u2] nx2]| | |] eqn:E2; cbn in H; try discriminate.
    injection H as <- <- <-. rewrite unwind_app.
    replace (pre ++ fs1 :: r1) with ((pre ++ [fs1]) ++ r1) by (rewrite <- app_assoc; reflexivity).
    rewrite (IH _ _ _ _ _ E2) by (rewrite app_length; cbn; lia).
    rewrite <- app_assoc. cbn [app]. subst vi. rewrite unwind_pfx.
    rewrite (visit_one_undo _ _ _ _ _ _ _ _ _ _ R E1). reflexivity.
Qed.

Lemma visit_vols_undo var pol pad ms : forall d, rec_undo (visit_vols d var pol pad ms).
Proof.
  induction d as [|d IH]; intros k nx k' new nx' H.
  - destruct k; cbn in H; [injection H as <- <- <-; reflexivity|discriminate].
  - destruct k as [|v r]; [cbn in H; injection H as <- <- <-; reflexivity|].
    cbn [visit_vols] in H. exact (visit_seq_undo _ _ _ _ _ IH _ _ _ _ _ _ H [] eq_refl).
Qed.

Lemma remove_unwind var pol pad p img nx img' u nx' :
  remove_run var pol pad p img nx = Ok (img', u, nx') -> unwind img' u = img.
Proof. unfold remove_run. apply visit_vols_undo. Qed.

(* ---- no descent runs out of fuel ---- *)

Lemma visit_files_no_fuel rec : forall fl fi nx,
  (forall x nx', In x fl -> rec (f_kids x) nx' <> Fuel) -> visit_files rec fi fl nx <> Fuel.
Proof.
  induction fl as [|f r IH]; intros fi nx Hr; cbn [visit_files]; [discriminate|].
  destruct (rec (f_kids f) nx) as [a| | |] eqn:E1; cbn; try discriminate.
  - destruct (visit_files rec (S fi) r (snd a)) eqn:E2; cbn; try discriminate.
    exfalso. apply (IH (S fi) (snd a)); [|exact E2]. intros x nx' Hx. apply Hr. right. exact Hx.
  - exfalso. apply (Hr f nx); [left; reflexivity|exact E1].
Qed.

Lemma visit_vols_no_fuel var pol pad ms : forall d vs nx,
  (vdepth vs < d)%nat -> visit_vols d var pol pad ms vs nx <> Fuel.
Proof.
  induction d as [|d IH]; intros vs nx Hd; [lia|].
  destruct vs as [|v0 r0]; [discriminate|]. cbn [visit_vols].
  set (vs := v0 :: r0) in *. clearbody vs.
  assert (G : forall l vi nx, (forall v, In v l -> In v vs) ->
              visit_seq (visit_vols d var pol pad ms) var pol pad ms vi l nx <> Fuel).
  { induction l as [|fs r IHl]; intros vi nx1 Hs; cbn [visit_seq]; [discriminate|].
    assert (Hone : visit_one (visit_vols d var pol pad ms) var pol pad ms fs nx1 <> Fuel).
    { unfold visit_one.
      destruct (visit_loop var pol pad ms fs nx1) as [[[fs1 origs] nx2]| | |] eqn:E1; cbn; try discriminate.
      - destruct (visit_files (visit_vols d var pol pad ms) 0 fs1 nx2) eqn:E2; cbn; try discriminate.
        exfalso. revert E2. apply visit_files_no_fuel. intros x nx' Hx.
        apply visit_loop_inv in E1. destruct E1 as [_ F]. destruct (F x Hx) as [Hin|Hk].
        + apply IH. pose proof (fdepth_le x fs vs Hin (Hs fs (or_introl eq_refl))) as Hle.
          rewrite fdepth_eq in Hle. lia.
        + rewrite Hk. destruct d; discriminate.
      - exfalso. exact (visit_loop_no_fuel _ _ _ _ _ _ E1). }
    destruct (visit_one _ var pol pad ms fs nx1) as [a| | |] eqn:E1; cbn; try discriminate; [|congruence].
    destruct (visit_seq _ var pol pad ms (S vi) r (snd a)) eqn:E2; cbn; try discriminate.
    exfalso. revert E2. apply IHl. intros v Hv. apply Hs. right. exact Hv. }
  apply G. auto.
Qed.

Lemma remove_no_fuel var pol pad p img nx : remove_run var pol pad p img nx <> Fuel.
Proof. unfold remove_run. apply visit_vols_no_fuel. lia. Qed.

(* ---- the repaired loop deletes exactly the matched files, at every depth ---- *)

Definition keep (ms : list Z) (f : file) : bool := negb (memz (f_id f) ms).

Lemma keep_hdr ms : hdr_inv (keep ms).
Proof. intros f k. reflexivity. Qed.

Lemma inner_fixed_nomatch pol pad ms : forall i fs u nx x,
  idx i fs = Some x -> memz (f_id x) ms = false ->
  inner fixed pol pad ms i fs u nx = Ok (i, fs, u, nx).
Proof.
  induction ms as [|m ms IH]; intros i fs u nx x Hx Hm; cbn [inner]; [reflexivity|].
  rewrite Hx. cbn. cbn in Hm. apply orb_false_iff in Hm. destruct Hm as [Hm1 Hm2].
  rewrite Hm1. eapply IH; eauto.
Qed.

Lemma inner_fixed_match pol ms : forall i a x b u nx,
  zlen a = i -> memz (f_id x) ms = true -> f_type x <> fv_filetype_peim ->
  inner fixed pol false ms i (a ++ x :: b) u nx =
    Ok (i - 1, a ++ b, (a ++ x :: b) :: u, nx).
Proof.
  induction ms as [|m ms IH]; intros i a x b u nx Hi Hm Ht; cbn [inner]; [discriminate|].
  rewrite (idx_mid a x b i Hi). cbn [of_opt bind].
  destruct (f_id x =? m) eqn:Em.
  - replace (false || (f_type x =? fv_filetype_peim)) with false by lia.
    rewrite (slc_prefix a (x :: b) i Hi), (slc_suffix a x b i Hi). cbn. reflexivity.
  - apply IH; auto. cbn in Hm. rewrite Em in Hm. exact Hm.
Qed.

Lemma outer_fixed_spec pol ms : forall todo fuel done u nx,
  (length todo < fuel)%nat ->
  (forall x, In x todo -> memz (f_id x) ms = true -> f_type x <> fv_filetype_peim) ->
  exists u', outer fuel fixed pol false ms (zlen done) (done ++ todo) u nx =
             Ok (done ++ filter (keep ms) todo, u', nx).
Proof.
  induction todo as [|x todo IH]; intros fuel done u nx Hf Hp.
  - destruct fuel as [|k]; [cbn in Hf; lia|]. cbn [outer]. rewrite app_nil_r.
    rewrite Z.ltb_irrefl. exists u. cbn [filter]. rewrite app_nil_r. reflexivity.
  - destruct fuel as [|k]; [cbn in Hf; lia|]. cbn [outer].
    pose proof (zlen_nonneg todo).
    replace (zlen done <? zlen (done ++ x :: todo)) with true
      by (rewrite zlen_app, zlen_cons; lia).
    cbn [filter]. unfold keep at 1.
    destruct (memz (f_id x) ms) eqn:Em; cbn [negb].
    + rewrite inner_fixed_match;
        [|reflexivity|exact Em|apply Hp; [left; reflexivity|exact Em]].
      cbn [bind fst snd]. replace (zlen done - 1 + 1) with (zlen done) by lia.
      apply IH; [cbn in Hf; lia|]. intros y Hy. apply Hp. right. exact Hy.
    + rewrite (inner_fixed_nomatch pol false ms (zlen done) (done ++ x :: todo) u nx x)
        by (first [exact Em|apply idx_mid; reflexivity]).
      cbn [bind fst snd].
      replace (done ++ x :: todo) with ((done ++ [x]) ++ todo) by (rewrite <- app_assoc; reflexivity).
      replace (zlen done + 1) with (zlen (done ++ [x])) by (rewrite zlen_app, zlen_cons, zlen_nil; lia).
      destruct (IH k (done ++ [x]) u nx) as (u' & E); [cbn in Hf; lia| |].
      { intros y Hy. apply Hp. right. exact Hy. }
      exists u'. rewrite E. rewrite <- app_assoc. reflexivity.
Qed.

Lemma visit_loop_fixed pol ms fs nx :
  (forall x, In x fs -> memz (f_id x) ms = true -> f_type x <> fv_filetype_peim) ->
  exists u, visit_loop fixed pol false ms fs nx = Ok (filter (keep ms) fs, u, nx).
Proof.
  intro Hp. unfold visit_loop.
  destruct (outer_fixed_spec pol ms fs (S (length fs)) [] [] nx) as (u & E); [lia|exact Hp|].
  cbn [app] in E. change (zlen (@nil file)) with 0 in E. exists u. exact E.
Qed.

Lemma visit_files_fixed rec K : forall fl fi nx,
  (forall x nx', In x fl -> exists u, rec (f_kids x) nx' = Ok (prune K (f_kids x), u, nx')) ->
  exists u, visit_files rec fi fl nx = Ok (map (prune_file K) fl, u, nx).
Proof.
  induction fl as [|f r IH]; intros fi nx Hr; cbn [visit_files map].
  - exists []. reflexivity.
  - destruct (Hr f nx (or_introl eq_refl)) as (u1 & E1). rewrite E1. cbn [bind fst snd].
    destruct (IH (S fi) nx) as (u2 & E2). { intros x nx' Hx. apply Hr. right. exact Hx. }
    rewrite E2. cbn [bind fst snd]. rewrite prune_file_eq. eexists. reflexivity.
Qed.

Lemma visit_vols_fixed pol ms : forall d vs nx,
  (vdepth vs < d)%nat ->
  (forall x, In x (flat vs) -> memz (f_id x) ms = true -> f_type x <> fv_filetype_peim) ->
  exists u, visit_vols d fixed pol false ms vs nx = Ok (prune (keep ms) vs, u, nx).
Proof.
  induction d as [|d IH]; intros vs nx Hd Hp; [lia|].
  destruct vs as [|v0 r0]; [exists []; reflexivity|]. cbn [visit_vols].
  set (vs := v0 :: r0) in *. clearbody vs.
  assert (G : forall l vi nx, (forall v, In v l -> In v vs) ->
              exists u, visit_seq (visit_vols d fixed pol false ms) fixed pol false ms vi l nx =
                        Ok (prune (keep ms) l, u, nx)).
  { induction l as [|fs r IHl]; intros vi nx1 Hs; cbn [visit_seq prune map].
    - exists []. reflexivity.
    - assert (Hfs : In fs vs) by (apply Hs; left; reflexivity).
      unfold visit_one.
      destruct (visit_loop_fixed pol ms fs nx1) as (u1 & E1).
      { intros x Hx. apply Hp. exact (in_flat_self x fs vs Hx Hfs). }
      rewrite E1. cbn [bind fst snd].
      destruct (visit_files_fixed (visit_vols d fixed pol false ms) (keep ms) (filter (keep ms) fs) 0 nx1)
        as (u2 & E2).
      { intros x nx' Hx. apply filter_In in Hx. destruct Hx as [Hx _]. apply IH.
        - pose proof (fdepth_le x fs vs Hx Hfs) as Hle. rewrite fdepth_eq in Hle. lia.
        - intros y Hy. apply Hp. exact (in_flat_kids x fs vs y Hx Hfs Hy). }
      rewrite E2. cbn [bind fst snd].
      destruct (IHl (S vi) nx1) as (u3 & E3). { intros v Hv. apply Hs. right. exact Hv. }
      rewrite E3. cbn [bind fst snd]. rewrite <- (pv_alt (keep ms) fs (keep_hdr ms)).
      eexists. reflexivity. }
  apply G. auto.
Qed.

(* with distinct file objects, "is one of the objects found by GUID g" is
   "has GUID g" *)
Lemma id_in_found g img f : NoDup (map f_id (flat img)) -> In f (flat img) ->
  memz (f_id f) (map f_id (find (guid_pred g) img)) = (f_guid f =? g).
Proof.
  intros Hn Hf. unfold find. destruct (f_guid f =? g) eqn:Eg.
  - apply memz_true. apply in_map. apply filter_In. split; [exact Hf|exact Eg].
  - apply memz_false. intro H. apply in_map_iff in H. destruct H as (f' & Hid & Hf').
    apply filter_In in Hf'. destruct Hf' as [Hin Hg]. unfold guid_pred in Hg.
    assert (f' = f).
    { clear - Hn Hf Hin Hid. induction (flat img) as [|y l IH]; [destruct Hf|].
      cbn in Hn. inversion Hn as [|? ? Hny Hnl]; subst.
      destruct Hf as [->|Hf], Hin as [->|Hin]; auto.
      - exfalso. apply Hny. rewrite <- Hid. apply in_map. exact Hin.
      - exfalso. apply Hny. rewrite Hid. apply in_map. exact Hf. }
    subst f'. congruence.
Qed.

Lemma guid_keep_hdr g : hdr_inv (fun f => negb (f_guid f =? g)).
Proof. intros f k. reflexivity. Qed.

Lemma set_keep_hdr gs : hdr_inv (fun f => negb (memz (f_guid f) gs)).
Proof. intros f k. reflexivity. Qed.

Lemma remove_fixed_spec pol g img nx :
  NoDup (map f_id (flat img)) ->
  (forall f, In f (flat img) -> f_guid f = g -> f_type f <> fv_filetype_peim) ->
  exists u, remove_run fixed pol false (guid_pred g) img nx = Ok (remove_guid g img, u, nx).
Proof.
  intros Hn Hp. unfold remove_run.
  destruct (visit_vols_fixed pol (map f_id (find (guid_pred g) img)) (S (vdepth img)) img nx) as (u & E).
  - lia.
  - intros x Hx Hm. rewrite id_in_found in Hm by assumption. apply Hp; [exact Hx|lia].
  - exists u. rewrite E. f_equal. f_equal. f_equal. unfold remove_guid.
    apply prune_ext; [apply keep_hdr|apply guid_keep_hdr|].
    intros x Hx. unfold keep. rewrite id_in_found; auto.
Qed.
(* ================= Part 3: the cleaner ================= *)

Lemma concat_map_filter {A} (p : A -> bool) ll : concat (map (filter p) ll) = filter p (concat ll).
Proof. induction ll as [|l r IH]; cbn; [reflexivity|]. rewrite filter_app, IH. reflexivity. Qed.

Lemma NoDup_map_filter {A B} (f : A -> B) p l : NoDup (map f l) -> NoDup (map f (filter p l)).
Proof.
  induction l as [|a l IH]; cbn; intro H; [constructor|].
  inversion H as [|? ? Hn Hl]; subst. destruct (p a); cbn; auto.
  constructor; auto. intro Hin. apply Hn. apply in_map_iff in Hin.
  destruct Hin as (y & Hy & Hin). apply filter_In in Hin. rewrite <- Hy. apply in_map. tauto.
Qed.

Lemma minus_guids_snoc rs g img : remove_guid g (minus_guids rs img) = minus_guids (rs ++ [g]) img.
Proof.
  unfold remove_guid, minus_guids. rewrite prune_comp by (intros f k; reflexivity).
  apply prune_ext; try (intros f k; reflexivity).
  intros x _. rewrite memz_app. cbn. rewrite orb_false_r, negb_orb. reflexivity.
Qed.

Lemma minus_guids_nil img : minus_guids [] img = img.
Proof. unfold minus_guids. apply prune_all. reflexivity. Qed.

Lemma prune_file_hdr K f : f_id (prune_file K f) = f_id f /\ f_guid (prune_file K f) = f_guid f /\
                           f_type (prune_file K f) = f_type f.
Proof. rewrite prune_file_eq. auto. Qed.

Lemma minus_guids_in rs img f : In f (flat (minus_guids rs img)) ->
  exists f0, In f0 (flat img) /\ f_guid f = f_guid f0 /\ f_type f = f_type f0.
Proof.
  unfold minus_guids. intro H. apply flat_prune_in in H. destruct H as (f0 & H0 & ->).
  exists f0. split; [exact H0|]. split; apply prune_file_hdr.
Qed.

Lemma minus_guids_nodup rs img : NoDup (map f_id (flat img)) ->
  NoDup (map f_id (flat (minus_guids rs img))).
Proof.
  intro H. unfold minus_guids. eapply subseq_NoDup; [|exact H]. apply ids_prune. intros f k. reflexivity.
Qed.

Lemma accepted_guids_snoc l e :
  accepted_guids (l ++ [e]) = accepted_guids l ++ (if accepted (answer_of e) then [guid_of e] else []).
Proof.
  unfold accepted_guids. rewrite filter_app, map_app. cbn.
  destruct (accepted (answer_of e)); reflexivity.
Qed.

Lemma firstn_snoc_le {A} k (l : list A) e : (k <= length l)%nat -> firstn k (l ++ [e]) = firstn k l.
Proof.
  intro H. rewrite firstn_app. replace (k - length l)%nat with O by lia. cbn. apply app_nil_r.
Qed.

Lemma firstn_succ_nth {A} (l : list A) i x : nth_error l i = Some x -> firstn (S i) l = firstn i l ++ [x].
Proof.
  revert i; induction l as [|y r IH]; intros [|i] H; cbn in *; try discriminate.
  - congruence.
  - f_equal. auto.
Qed.

(* ---- termination: every variant, every oracle ---- *)

Definition phi (c : cstate) : nat :=
  ((length (c_dxes c) - c_i c) + 1 +
   (if c_more c then S (length (c_dxes c)) * S (length (c_dxes c))
    else length (c_dxes c) * length (c_dxes c)))%nat.

Lemma step_no_fuel var orc pol c : step var orc pol c <> Fuel.
Proof.
  unfold step. destruct (c_i c <? length (c_dxes c))%nat.
  - destruct (nth_error (c_dxes c) (c_i c)) as [g|]; cbn [of_opt bind]; [|discriminate].
    destruct (remove_run var pol false (guid_pred g) (c_img c) (c_nx c)) as [r| | |] eqn:E; cbn [bind]; try discriminate.
    + destruct (snd (orc (length (c_log c)) (fst (fst r))) =? 1); [discriminate|].
      destruct (fst (orc (length (c_log c)) (fst (fst r))) && _); [discriminate|].
      destruct (fst (orc (length (c_log c)) (fst (fst r)))); [discriminate|].
      destruct (v_unwind var); [discriminate|].
      unfold call_undo. destruct (snd (fst r)) as [|[vi o] prev]; cbn; discriminate.
    + exfalso. exact (remove_no_fuel _ _ _ _ _ _ E).
  - destruct (c_more c); discriminate.
Qed.

Lemma step_phi var orc pol c c' : step var orc pol c = Ok (false, c') -> (phi c' < phi c)%nat.
Proof.
  unfold step. destruct (c_i c <? length (c_dxes c))%nat eqn:Ei.
  - apply Nat.ltb_lt in Ei.
    destruct (nth_error (c_dxes c) (c_i c)) as [g|]; cbn [of_opt bind]; [|discriminate].
    destruct (remove_run var pol false (guid_pred g) (c_img c) (c_nx c)) as [r| | |]; cbn [bind]; try discriminate.
    destruct (snd (orc (length (c_log c)) (fst (fst r))) =? 1); [discriminate|].
    destruct (fst (orc (length (c_log c)) (fst (fst r))) && _); [discriminate|].
    destruct (fst (orc (length (c_log c)) (fst (fst r)))).
    + intro H. injection H as <-. unfold phi. cbn.
      pose proof (remove_nth_length (c_i c) (c_dxes c) Ei) as Hl. rewrite Hl.
      replace (S (Nat.pred (length (c_dxes c)))) with (length (c_dxes c)) by lia.
      destruct (c_more c); nia.
    + assert (G : forall img1, Ok (false, mkC img1 (snd r) (c_dxes c) (c_rem c) (S (c_i c)) (c_more c)
                  (c_log c ++ [(g, fst (fst r), orc (length (c_log c)) (fst (fst r)))])) = Ok (false, c') ->
                  (phi c' < phi c)%nat).
      { intros img1 H. injection H as <-. unfold phi. cbn. destruct (c_more c); lia. }
      destruct (v_unwind var); [apply G|].
      destruct (call_undo (fst (fst r)) (snd (fst r))) as [w| | |]; cbn; try discriminate. apply G.
  - apply Nat.ltb_ge in Ei. destruct (c_more c) eqn:Em; [|discriminate].
    intro H. injection H as <-. unfold phi. cbn. rewrite Em. nia.
Qed.

Lemma run_no_fuel var orc pol : forall fuel c, (phi c <= fuel)%nat -> run fuel var orc pol c <> Fuel.
Proof.
  induction fuel as [|k IH]; intros c Hf.
  - unfold phi in Hf. lia.
  - cbn [run]. destruct (step var orc pol c) as [[fin c']| | |] eqn:E; cbn; try discriminate.
    + destruct fin; cbn; [discriminate|]. apply IH. apply step_phi in E. lia.
    + exfalso. exact (step_no_fuel _ _ _ _ E).
Qed.

Lemma clean_no_fuel var orc pol pred img nx : dxe_clean var orc pol pred img nx <> Fuel.
Proof.
  unfold dxe_clean, init. destruct (cand_guids pred img) as [|g l] eqn:E; cbn [bind]; [discriminate|].
  apply run_no_fuel. unfold phi, clean_fuel. cbn [c_dxes c_i c_more]. lia.
Qed.

(* ---- a step that reports nothing leaves every volume as it was ---- *)

Lemma step_fixed_unreported orc pol c fin c' :
  step fixed orc pol c = Ok (fin, c') -> c_rem c' = c_rem c -> c_img c' = c_img c.
Proof.
  unfold step. destruct (c_i c <? length (c_dxes c))%nat.
  - destruct (nth_error (c_dxes c) (c_i c)) as [g|]; cbn [of_opt bind]; [|discriminate].
    destruct (remove_run fixed pol false (guid_pred g) (c_img c) (c_nx c)) as [[[img' u] nx']| | |] eqn:E;
      cbn [bind fst snd]; try discriminate.
    apply remove_unwind in E.
    destruct (snd (orc (length (c_log c)) img') =? 1).
    { intros H _. injection H as <- <-. cbn. exact E. }
    destruct (fst (orc (length (c_log c)) img') && _); [discriminate|].
    destruct (fst (orc (length (c_log c)) img')).
    + intros H Hr. injection H as <- <-. cbn in Hr. exfalso.
      apply (f_equal (@length Z)) in Hr. rewrite app_length in Hr. cbn in Hr. lia.
    + intros H _. injection H as <- <-. cbn. exact E.
  - destruct (c_more c); intros H _; injection H as <- <-; reflexivity.
Qed.

(* the report only grows, so a run that reports nothing never changed the tree *)
Lemma step_rem_grows var orc pol c fin c' :
  step var orc pol c = Ok (fin, c') -> exists l, c_rem c' = c_rem c ++ l.
Proof.
  unfold step. destruct (c_i c <? length (c_dxes c))%nat.
  - destruct (nth_error (c_dxes c) (c_i c)) as [g|]; cbn [of_opt bind]; [|discriminate].
    destruct (remove_run var pol false (guid_pred g) (c_img c) (c_nx c)) as [r| | |];
      cbn [bind]; try discriminate.
    destruct (snd (orc (length (c_log c)) (fst (fst r))) =? 1).
    { intro H. injection H as <- <-. exists []. cbn. rewrite app_nil_r. reflexivity. }
    destruct (fst (orc (length (c_log c)) (fst (fst r))) && _); [discriminate|].
    destruct (fst (orc (length (c_log c)) (fst (fst r)))).
    { intro H. injection H as <- <-. exists [g]. reflexivity. }
    destruct (v_unwind var).
    { intro H. injection H as <- <-. exists []. cbn. rewrite app_nil_r. reflexivity. }
    destruct (call_undo (fst (fst r)) (snd (fst r))) as [w| | |]; cbn [bind]; try discriminate.
    intro H. injection H as <- <-. exists []. cbn. rewrite app_nil_r. reflexivity.
  - destruct (c_more c); intro H; injection H as <- <-; exists []; cbn; rewrite app_nil_r; reflexivity.
Qed.

Lemma run_rem_grows var orc pol : forall fuel c cf,
  run fuel var orc pol c = Ok cf -> exists l, c_rem cf = c_rem c ++ l.
Proof.
  induction fuel as [|k IH]; intros c cf H; cbn [run] in H; [discriminate|].
  destruct (step var orc pol c) as [[fin c']| | |] eqn:E; cbn [bind fst snd] in H; try discriminate.
  destruct (step_rem_grows _ _ _ _ _ _ E) as (l & Hl).
  destruct fin; cbn in H.
  - injection H as <-. exists l. exact Hl.
  - destruct (IH _ _ H) as (l' & Hl'). exists (l ++ l'). rewrite Hl', Hl, app_assoc. reflexivity.
Qed.

Lemma run_fixed_unreported orc pol : forall fuel c cf,
  run fuel fixed orc pol c = Ok cf -> c_rem cf = c_rem c -> c_img cf = c_img c.
Proof.
  induction fuel as [|k IH]; intros c cf H Hr; cbn [run] in H; [discriminate|].
  destruct (step fixed orc pol c) as [[fin c']| | |] eqn:E; cbn [bind fst snd] in H; try discriminate.
  destruct (step_rem_grows _ _ _ _ _ _ E) as (l & Hl).
  destruct fin; cbn in H.
  - injection H as <-. eapply step_fixed_unreported; eauto.
  - destruct (run_rem_grows _ _ _ _ _ _ H) as (l' & Hl').
    assert (l = [] /\ l' = []).
    { rewrite Hl', Hl, <- app_assoc in Hr. apply (f_equal (@length Z)) in Hr.
      rewrite !app_length in Hr. destruct l, l'; cbn in Hr; try lia. auto. }
    destruct H0 as [-> ->]. rewrite app_nil_r in Hl, Hl'.
    rewrite (IH _ _ H Hl'). eapply step_fixed_unreported; eauto.
Qed.

Lemma clean_unreported orc pol pred img nx c :
  dxe_clean fixed orc pol pred img nx = Ok c -> c_rem c = [] -> c_img c = img.
Proof.
  unfold dxe_clean, init. destruct (cand_guids pred img) as [|g l]; cbn [bind]; [discriminate|].
  intros H Hr. apply run_fixed_unreported in H; [exact H|exact Hr].
Qed.

(* ---- the invariant of the repaired cleaner ---- *)

Section Cleaner.
Variable orc : oracle.
Variable pol : Z.
Variable pred : file -> bool.
Variable img0 : image.
Hypothesis WF : wf_image pred img0 = true.

Lemma wf_nodup : NoDup (map f_id (flat img0)).
Proof. unfold wf_image in WF. apply andb_true_iff in WF. apply nodupz_NoDup. tauto. Qed.

Lemma wf_peim f : In f (flat img0) -> In (f_guid f) (cand_guids pred img0) ->
  f_type f <> fv_filetype_peim.
Proof.
  intros Hf Hg Ht. unfold wf_image in WF. apply andb_true_iff in WF. destruct WF as [_ W].
  rewrite forallb_forall in W. specialize (W f Hf). apply memz_true in Hg. rewrite Hg in W.
  apply Z.eqb_eq in Ht. rewrite Ht in W. discriminate.
Qed.

Record Inv (c : cstate) : Prop := mkInv {
  inv_img : c_img c = minus_guids (c_rem c) img0;
  inv_rem : c_rem c = accepted_guids (c_log c);
  inv_log : forall k e, nth_error (c_log c) k = Some e ->
      answer_of e = orc k (shown_of e) /\
      shown_of e = remove_guid (guid_of e)
                     (minus_guids (accepted_guids (firstn k (c_log c))) img0);
  inv_dxes : incl (c_dxes c) (cand_guids pred img0)
}.

Lemma init_inv nx c0 : init pred img0 nx = Ok c0 -> Inv c0.
Proof.
  unfold init. destruct (cand_guids pred img0) as [|g l] eqn:E; [discriminate|].
  intro H. injection H as <-. constructor; cbn.
  - symmetry. apply minus_guids_nil.
  - reflexivity.
  - intros [|k] e; discriminate.
  - rewrite E. apply incl_refl.
Qed.

(* the shape of one iteration of the repaired loop *)
Lemma step_fixed_iter c g : Inv c -> nth_error (c_dxes c) (c_i c) = Some g ->
  let img' := remove_guid g (c_img c) in
  let t := orc (length (c_log c)) img' in
  let log' := c_log c ++ [(g, img', t)] in
  step fixed orc pol c =
    if snd t =? 1 then
      Ok (true, mkC (c_img c) (c_nx c) (c_dxes c) (c_rem c) (c_i c) (c_more c) log')
    else if fst t && negb (snd t =? 0) then Err E_TEST
    else if fst t then
      Ok (false, mkC img' (c_nx c) (remove_nth (c_i c) (c_dxes c)) (c_rem c ++ [g]) (c_i c) true log')
    else Ok (false, mkC (c_img c) (c_nx c) (c_dxes c) (c_rem c) (S (c_i c)) (c_more c) log').
Proof.
  intros I Hg. cbn zeta. unfold step.
  assert (Hi : (c_i c < length (c_dxes c))%nat) by (apply nth_error_Some; congruence).
  apply Nat.ltb_lt in Hi. rewrite Hi, Hg. cbn [of_opt bind].
  destruct (remove_fixed_spec pol g (c_img c) (c_nx c)) as (u & E).
  - rewrite (inv_img c I). apply minus_guids_nodup. exact wf_nodup.
  - intros f Hf Hfg. rewrite (inv_img c I) in Hf. apply minus_guids_in in Hf.
    destruct Hf as (f0 & Hf0 & Eg & Et). rewrite Et. apply wf_peim; [exact Hf0|].
    rewrite <- Eg, Hfg. apply (inv_dxes c I). eapply nth_error_In. exact Hg.
  - rewrite E. cbn [bind fst snd fixed v_cancel v_unwind].
    rewrite (remove_unwind _ _ _ _ _ _ _ _ _ E). reflexivity.
Qed.

Lemma log_extend c g t :
  Inv c ->
  forall k e, nth_error (c_log c ++ [(g, remove_guid g (c_img c), t)]) k = Some e ->
    t = orc (length (c_log c)) (remove_guid g (c_img c)) ->
    answer_of e = orc k (shown_of e) /\
    shown_of e = remove_guid (guid_of e)
      (minus_guids (accepted_guids (firstn k (c_log c ++ [(g, remove_guid g (c_img c), t)]))) img0).
Proof.
  intros I k e Hn Ht.
  destruct (Nat.lt_ge_cases k (length (c_log c))) as [Hk|Hk].
  - rewrite nth_error_app1 in Hn by exact Hk.
    rewrite firstn_snoc_le by lia. apply (inv_log c I). exact Hn.
  - rewrite nth_error_app2 in Hn by exact Hk.
    destruct (k - length (c_log c))%nat as [|j] eqn:Ej; [|destruct j; discriminate].
    cbn in Hn. injection Hn as <-.
    assert (k = length (c_log c)) by lia. subst k.
    unfold answer_of, shown_of, guid_of. cbn [fst snd]. split; [exact Ht|].
    rewrite firstn_app, Nat.sub_diag, firstn_all. cbn [firstn]. rewrite app_nil_r.
    rewrite <- (inv_rem c I), <- (inv_img c I). reflexivity.
Qed.

Lemma incl_remove_nth {A} n (l : list A) : incl (remove_nth n l) l.
Proof.
  revert n; induction l as [|y r IH]; intros [|n]; cbn; try apply incl_refl.
  - apply incl_tl, incl_refl.
  - intros x [->|H]; [left; reflexivity|right; apply (IH n); exact H].
Qed.

Lemma step_inv c fin c' : Inv c -> step fixed orc pol c = Ok (fin, c') -> Inv c'.
Proof.
  intros I H.
  destruct (c_i c <? length (c_dxes c))%nat eqn:Ei.
  - apply Nat.ltb_lt in Ei.
    destruct (nth_error (c_dxes c) (c_i c)) as [g|] eqn:Eg; [|apply nth_error_None in Eg; lia].
    rewrite (step_fixed_iter c g I Eg) in H. cbn zeta in H.
    set (img' := remove_guid g (c_img c)) in *.
    set (t := orc (length (c_log c)) img') in *.
    pose proof (log_extend c g t I) as HL. fold img' in HL.
    destruct (snd t =? 1) eqn:Ec.
    { injection H as <- <-. constructor; cbn [c_img c_rem c_log c_dxes].
      - exact (inv_img c I).
      - rewrite accepted_guids_snoc. unfold answer_of, accepted. cbn [snd].
        replace (snd t =? 0) with false by lia. rewrite andb_false_r, app_nil_r. exact (inv_rem c I).
      - intros k e Hn. apply HL; [exact Hn|reflexivity].
      - exact (inv_dxes c I). }
    destruct (fst t && negb (snd t =? 0)) eqn:Ee; [discriminate|].
    destruct (fst t) eqn:Ea.
    + injection H as <- <-. constructor; cbn [c_img c_rem c_log c_dxes].
      * unfold img'. rewrite (inv_img c I). apply minus_guids_snoc.
      * rewrite accepted_guids_snoc. unfold answer_of, accepted, guid_of. cbn [fst snd].
        rewrite Ea. replace (snd t =? 0) with true by lia. cbn. rewrite <- (inv_rem c I). reflexivity.
      * intros k e Hn. apply HL; [exact Hn|reflexivity].
      * eapply incl_tran; [apply incl_remove_nth|exact (inv_dxes c I)].
    + injection H as <- <-. constructor; cbn [c_img c_rem c_log c_dxes].
      * exact (inv_img c I).
      * rewrite accepted_guids_snoc. unfold answer_of, accepted. cbn [fst snd].
        rewrite Ea. cbn. rewrite app_nil_r. exact (inv_rem c I).
      * intros k e Hn. apply HL; [exact Hn|reflexivity].
      * exact (inv_dxes c I).
  - unfold step in H. rewrite Ei in H. destruct (c_more c).
    + injection H as <- <-. constructor; cbn [c_img c_rem c_log c_dxes]; apply I.
    + injection H as <- <-. exact I.
Qed.

(* the repaired step never panics *)
Lemma step_fixed_total c : Inv c ->
  (exists fin c', step fixed orc pol c = Ok (fin, c')) \/ step fixed orc pol c = Err E_TEST.
Proof.
  intro I. destruct (c_i c <? length (c_dxes c))%nat eqn:Ei.
  - apply Nat.ltb_lt in Ei.
    destruct (nth_error (c_dxes c) (c_i c)) as [g|] eqn:Eg; [|apply nth_error_None in Eg; lia].
    rewrite (step_fixed_iter c g I Eg). cbn zeta.
    destruct (snd _ =? 1); [left; eauto|].
    destruct (fst _ && negb _); [right; reflexivity|].
    destruct (fst _); left; eauto.
  - unfold step. rewrite Ei. destruct (c_more c); left; eauto.
Qed.

Lemma run_inv : forall fuel c cf, Inv c -> run fuel fixed orc pol c = Ok cf -> Inv cf.
Proof.
  induction fuel as [|k IH]; intros c cf I H; cbn [run] in H; [discriminate|].
  destruct (step fixed orc pol c) as [[fin c']| | |] eqn:E; cbn in H; try discriminate.
  pose proof (step_inv c fin c' I E) as I'.
  destruct fin; cbn in H; [injection H as <-; exact I'|]. eapply IH; eauto.
Qed.

Lemma run_fixed_total : forall fuel c, Inv c ->
  (exists cf, run fuel fixed orc pol c = Ok cf) \/ run fuel fixed orc pol c = Err E_TEST \/
  run fuel fixed orc pol c = Fuel.
Proof.
  induction fuel as [|k IH]; intros c I; cbn [run]; [right; right; reflexivity|].
  destruct (step_fixed_total c I) as [(fin & c' & E)|E]; rewrite E; cbn.
  - destruct fin; cbn; [left; eauto|]. apply IH. eapply step_inv; eauto.
  - right; left; reflexivity.
Qed.

End Cleaner.

Lemma clean_final_matches orc pol pred img nx c :
  wf_image pred img = true -> dxe_clean fixed orc pol pred img nx = Ok c ->
  c_img c = minus_guids (c_rem c) img.
Proof.
  intros WF H. unfold dxe_clean in H.
  destruct (init pred img nx) as [c0| | |] eqn:E0; cbn [bind] in H; try discriminate.
  apply (inv_img orc pred img c).
  apply (run_inv orc pol pred img WF (clean_fuel (length (c_dxes c0))) c0 c); [eapply init_inv; eauto|exact H].
Qed.

Lemma clean_reported_accepted orc pol pred img nx c :
  wf_image pred img = true -> dxe_clean fixed orc pol pred img nx = Ok c ->
  c_rem c = accepted_guids (c_log c) /\
  forall k e, nth_error (c_log c) k = Some e ->
    answer_of e = orc k (shown_of e) /\
    shown_of e = remove_guid (guid_of e)
                   (minus_guids (accepted_guids (firstn k (c_log c))) img).
Proof.
  intros WF H. unfold dxe_clean in H.
  destruct (init pred img nx) as [c0| | |] eqn:E0; cbn [bind] in H; try discriminate.
  assert (I : Inv orc pred img c)
    by (apply (run_inv orc pol pred img WF (clean_fuel (length (c_dxes c0))) c0 c); [eapply init_inv; eauto|exact H]).
  split; [apply (inv_rem _ _ _ _ I)|apply (inv_log _ _ _ _ I)].
Qed.

Lemma clean_fixed_total orc pol pred img nx :
  wf_image pred img = true ->
  (exists c, dxe_clean fixed orc pol pred img nx = Ok c) \/
  dxe_clean fixed orc pol pred img nx = Err E_NODXES \/
  dxe_clean fixed orc pol pred img nx = Err E_TEST.
Proof.
  intro WF. pose proof (clean_no_fuel fixed orc pol pred img nx) as NF.
  unfold dxe_clean in *. unfold init in *.
  destruct (cand_guids pred img) as [|g l] eqn:E; cbn [bind] in *; [right; left; reflexivity|].
  set (c0 := mkC img nx (g :: l) [] (length (g :: l)) true []) in *.
  assert (I : Inv orc pred img c0).
  { apply (init_inv orc pred img nx). unfold init. rewrite E. reflexivity. }
  destruct (run_fixed_total orc pol pred img WF (clean_fuel (length (c_dxes c0))) c0 I) as [H|[H|H]]; [left; exact H|right; right; exact H|].
  exfalso. exact (NF H).
Qed.

(* ---- a tester that boots iff a required set of GUIDs is present ---- *)

Lemma present_true g img : present g img = true <-> exists f, In f (flat img) /\ f_guid f = g.
Proof.
  unfold present. rewrite existsb_exists. split; intros (f & Hf & E); exists f; (split; [exact Hf|lia]).
Qed.

Lemma present_remove_same g img : present g (remove_guid g img) = false.
Proof.
  destruct (present g (remove_guid g img)) eqn:E; [|reflexivity].
  apply present_true in E. destruct E as (f & Hf & Hg). unfold remove_guid in Hf.
  apply flat_prune_keep in Hf. lia.
Qed.

(* the listing that cannot be touched by removing files with a [bad] GUID *)
Lemma safe_file_in bad : forall f y, In y (safe_file bad f) -> In y (flat_file f).
Proof.
  apply (file_ind' (fun f => forall y, In y (safe_file bad f) -> In y (flat_file f))).
  intros f IH y Hy. destruct f as [a b c d e k]. cbn [safe_file f_guid f_kids] in Hy.
  destruct (bad b); [destruct Hy|]. rewrite flat_file_eq. destruct Hy as [<-|Hy]; [left; reflexivity|].
  right. cbn [f_kids] in *. induction k as [|v r IHr]; [destruct Hy|].
  inversion IH as [|? ? IHv IHr']; subst. cbn [map concat] in Hy. rewrite flat_cons.
  apply in_app_or in Hy. apply in_or_app. destruct Hy as [Hy|Hy]; [left|right; apply IHr; assumption].
  clear - IHv Hy. induction v as [|x q IHq]; [destruct Hy|]. inversion IHv as [|? ? Hx Hq]; subst.
  cbn [map concat] in Hy. rewrite flat_vol_cons. apply in_app_or in Hy. apply in_or_app.
  destruct Hy as [Hy|Hy]; [left; apply Hx; exact Hy|right; apply IHq; assumption].
Qed.

Lemma safe_flat_in bad img y : In y (safe_flat bad img) -> In y (flat img).
Proof.
  unfold safe_flat. induction img as [|v r IH]; intro Hy; [destruct Hy|]. cbn [map concat] in Hy.
  rewrite flat_cons. apply in_app_or in Hy. apply in_or_app.
  destruct Hy as [Hy|Hy]; [left|right; apply IH; exact Hy].
  induction v as [|x q IHq]; [destruct Hy|]. cbn [map concat] in Hy. rewrite flat_vol_cons.
  apply in_app_or in Hy. apply in_or_app.
  destruct Hy as [Hy|Hy]; [left; eapply safe_file_in; eauto|right; apply IHq; exact Hy].
Qed.

Lemma safe_present_present bad g img : safe_present bad g img = true -> present g img = true.
Proof.
  unfold safe_present. rewrite existsb_exists. intros (f & Hf & E). apply present_true.
  exists f. split; [eapply safe_flat_in; eauto|lia].
Qed.

Definition sv (bad : Z -> bool) (v : volume) : list file := concat (map (safe_file bad) v).

Lemma safe_file_eq bad f :
  safe_file bad f = if bad (f_guid f) then [] else f :: concat (map (sv bad) (f_kids f)).
Proof. destruct f; reflexivity. Qed.

(* removing files with a bad GUID does not change the GUIDs of the safe listing *)
Lemma safe_guids_prune_file bad g : bad g = true -> forall f,
  map f_guid (safe_file bad (prune_file (fun x => negb (f_guid x =? g)) f)) = map f_guid (safe_file bad f).
Proof.
  intro Hb. set (K := fun x => negb (f_guid x =? g)).
  apply (file_ind' (fun f => map f_guid (safe_file bad (prune_file K f)) = map f_guid (safe_file bad f))).
  intros f IH. rewrite !safe_file_eq, prune_file_eq. cbn [f_guid with_kids f_kids].
  destruct (bad (f_guid f)); [reflexivity|]. cbn [map]. f_equal.
  induction (f_kids f) as [|v r IHr]; [reflexivity|]. inversion IH as [|? ? IHv IHr']; subst.
  cbn [prune map concat]. rewrite !map_app. f_equal; [|apply IHr; exact IHr'].
  clear - Hb IHv. unfold sv. induction v as [|x q IHq]; [reflexivity|].
  inversion IHv as [|? ? Hx Hq]; subst. cbn [map filter concat].
  replace (K (prune_file K x)) with (K x) by (rewrite prune_file_eq; reflexivity).
  unfold K at 1. destruct (f_guid x =? g) eqn:Eg; cbn [negb].
  - rewrite (safe_file_eq bad x). replace (f_guid x) with g by lia. rewrite Hb. cbn [app map].
    apply IHq. exact Hq.
  - cbn [map concat]. rewrite !map_app. f_equal; [exact Hx|apply IHq; exact Hq].
Qed.

Lemma safe_guids_prune bad g img : bad g = true ->
  map f_guid (safe_flat bad (remove_guid g img)) = map f_guid (safe_flat bad img).
Proof.
  intro Hb. unfold remove_guid, safe_flat. set (K := fun x => negb (f_guid x =? g)).
  induction img as [|v r IH]; [reflexivity|]. cbn [prune map concat]. rewrite !map_app.
  f_equal; [|exact IH].
  induction v as [|x q IHq]; [reflexivity|]. cbn [map filter concat].
  replace (K (prune_file K x)) with (K x) by (rewrite prune_file_eq; reflexivity).
  unfold K at 1. destruct (f_guid x =? g) eqn:Eg; cbn [negb].
  - rewrite (safe_file_eq bad x). replace (f_guid x) with g by lia. rewrite Hb. cbn [app map]. exact IHq.
  - cbn [map concat]. rewrite !map_app. f_equal; [apply safe_guids_prune_file; exact Hb|exact IHq].
Qed.

Lemma safe_present_prune bad g r img : bad g = true ->
  safe_present bad r (remove_guid g img) = safe_present bad r img.
Proof.
  intro Hb. unfold safe_present.
  assert (E : forall l, existsb (fun f => f_guid f =? r) l = existsb (fun z => z =? r) (map f_guid l)).
  { induction l as [|x q IH]; [reflexivity|]. cbn. rewrite IH. reflexivity. }
  rewrite !E, safe_guids_prune by exact Hb. reflexivity.
Qed.

Section Monotone.
Variable req : list Z.
Variable pol : Z.
Variable pred : file -> bool.
Variable img0 : image.
Hypothesis WF : wf_image pred img0 = true.

Notation orc := (boots_iff req).
Definition boots (img : image) : bool := forallb (fun g => present g img) req.
Definition bad_guid (g : Z) : bool := memz g (cand_guids pred img0) && negb (memz g req).

Lemma orc_eq k img : orc k img = (boots img, 0).
Proof. reflexivity. Qed.

Record MInv (c : cstate) : Prop := mkMInv {
  m_cover : forall g, In g (cand_guids pred img0) -> In g (c_rem c) \/ In g (c_dxes c);
  m_prefix : c_more c = false -> forall g, In g (firstn (c_i c) (c_dxes c)) -> In g req;
  m_safe : forall r, In r req -> safe_present bad_guid r (c_img c) = true;
  m_rem : forall g, In g (c_rem c) -> ~ In g req
}.

(* removing candidate g from an image whose required files are all safe:
   it still boots iff g is not required *)
Lemma boots_remove g img : In g (cand_guids pred img0) ->
  (forall r, In r req -> safe_present bad_guid r img = true) ->
  boots (remove_guid g img) = negb (memz g req).
Proof.
  intros Hc Hs. unfold boots.
  destruct (memz g req) eqn:Em; cbn [negb].
  - apply memz_true in Em. destruct (forallb _ req) eqn:E; [|reflexivity].
    rewrite forallb_forall in E. specialize (E g Em). rewrite present_remove_same in E. discriminate.
  - apply forallb_forall. intros r Hr. apply (safe_present_present bad_guid).
    rewrite safe_present_prune; [apply Hs; exact Hr|].
    unfold bad_guid. rewrite Em. apply memz_true in Hc. rewrite Hc. reflexivity.
Qed.

Lemma mono_step c fin c' : Inv orc pred img0 c -> MInv c ->
  step fixed orc pol c = Ok (fin, c') ->
  MInv c' /\ (fin = true -> c_more c' = false /\ (length (c_dxes c') <= c_i c')%nat).
Proof.
  intros I M H.
  destruct (c_i c <? length (c_dxes c))%nat eqn:Ei.
  - apply Nat.ltb_lt in Ei.
    destruct (nth_error (c_dxes c) (c_i c)) as [g|] eqn:Eg; [|apply nth_error_None in Eg; lia].
    assert (Hc : In g (cand_guids pred img0))
      by (apply (inv_dxes _ _ _ _ I); eapply nth_error_In; exact Eg).
    rewrite (step_fixed_iter orc pol pred img0 WF c g I Eg) in H. cbn zeta in H.
    rewrite !orc_eq in H. cbn [fst snd] in H.
    change (0 =? 1) with false in H. change (0 =? 0) with true in H. cbn [negb] in H.
    rewrite andb_false_r in H.
    rewrite (boots_remove g (c_img c) Hc (m_safe c M)) in H.
    destruct (memz g req) eqn:Em; cbn [negb] in H.
    + (* rejected: g is required *)
      injection H as <- <-. split; [|discriminate]. apply memz_true in Em.
      constructor; cbn [c_img c_rem c_dxes c_i c_more].
      * exact (m_cover c M).
      * intros Hm x Hx. rewrite (firstn_succ_nth _ _ _ Eg) in Hx. apply in_app_or in Hx.
        destruct Hx as [Hx|[<-|[]]]; [exact (m_prefix c M Hm x Hx)|exact Em].
      * exact (m_safe c M).
      * exact (m_rem c M).
    + (* accepted *)
      injection H as <- <-. split; [|discriminate].
      assert (Hb : bad_guid g = true).
      { unfold bad_guid. rewrite Em. apply memz_true in Hc. rewrite Hc. reflexivity. }
      apply memz_false in Em.
      constructor; cbn [c_img c_rem c_dxes c_i c_more].
      * intros x Hx. destruct (m_cover c M x Hx) as [Hr|Hd].
        -- left. apply in_or_app. left. exact Hr.
        -- destruct (remove_nth_split _ _ _ Eg) as (a & b & Hab & _ & Hr). rewrite Hr.
           rewrite Hab in Hd. apply in_app_or in Hd. destruct Hd as [Hd|[<-|Hd]].
           ++ right. apply in_or_app. left. exact Hd.
           ++ left. apply in_or_app. right. left. reflexivity.
           ++ right. apply in_or_app. right. exact Hd.
      * discriminate.
      * intros r Hr. rewrite safe_present_prune by exact Hb. apply (m_safe c M). exact Hr.
      * intros x Hx. apply in_app_or in Hx. destruct Hx as [Hx|[<-|[]]]; [exact (m_rem c M x Hx)|exact Em].
  - unfold step in H. rewrite Ei in H. apply Nat.ltb_ge in Ei. destruct (c_more c) eqn:Emore.
    + injection H as <- <-. split; [|discriminate]. constructor; cbn [c_img c_rem c_dxes c_i c_more].
      * exact (m_cover c M).
      * intros _ x [].
      * exact (m_safe c M).
      * exact (m_rem c M).
    + injection H as <- <-. split; [exact M|]. intros _. split; [exact Emore|exact Ei].
Qed.

Lemma mono_step_ok c : Inv orc pred img0 c -> MInv c -> exists fin c', step fixed orc pol c = Ok (fin, c').
Proof.
  intros I M. destruct (step_fixed_total orc pol pred img0 WF c I) as [H|H]; [exact H|].
  exfalso. destruct (c_i c <? length (c_dxes c))%nat eqn:Ei.
  - apply Nat.ltb_lt in Ei.
    destruct (nth_error (c_dxes c) (c_i c)) as [g|] eqn:Eg; [|apply nth_error_None in Eg; lia].
    rewrite (step_fixed_iter orc pol pred img0 WF c g I Eg) in H. cbn zeta in H.
    rewrite !orc_eq in H. cbn [fst snd] in H.
    change (0 =? 1) with false in H. change (0 =? 0) with true in H. cbn [negb] in H.
    rewrite andb_false_r in H. destruct (boots _) in H; discriminate.
  - unfold step in H. rewrite Ei in H. destruct (c_more c); discriminate.
Qed.

Lemma mono_run : forall fuel c, Inv orc pred img0 c -> MInv c ->
  run fuel fixed orc pol c = Fuel \/
  exists cf, run fuel fixed orc pol c = Ok cf /\ MInv cf /\ c_more cf = false /\
             (length (c_dxes cf) <= c_i cf)%nat.
Proof.
  induction fuel as [|k IH]; intros c I M; cbn [run]; [left; reflexivity|].
  destruct (mono_step_ok c I M) as (fin & c' & E). rewrite E. cbn [bind fst snd].
  destruct (mono_step c fin c' I M E) as [M' Hf].
  destruct fin.
  - right. exists c'. destruct (Hf eq_refl). auto.
  - apply IH; [eapply step_inv; eauto|exact M'].
Qed.

Lemma mono_complete nx :
  req_safe pred req img0 = true -> cand_guids pred img0 <> [] ->
  exists c, dxe_clean fixed orc pol pred img0 nx = Ok c /\
    (forall g, In g (cand_guids pred img0) -> ~ In g req -> In g (c_rem c)) /\
    (forall g, In g (c_rem c) -> ~ In g req) /\
    boots (c_img c) = true.
Proof.
  intros Hb Hne. pose proof (clean_no_fuel fixed orc pol pred img0 nx) as NF.
  unfold dxe_clean in *. unfold init in *.
  destruct (cand_guids pred img0) as [|g l] eqn:E; [congruence|]. cbn [bind] in *.
  set (c0 := mkC img0 nx (g :: l) [] (length (g :: l)) true []) in *.
  assert (I : Inv orc pred img0 c0).
  { apply (init_inv orc pred img0 nx). unfold init. rewrite E. reflexivity. }
  assert (M : MInv c0).
  { constructor; cbn [c_img c_rem c_dxes c_i c_more c0].
    - intros x Hx. right. rewrite <- E. exact Hx.
    - discriminate.
    - intros r Hr. unfold req_safe in Hb. rewrite forallb_forall in Hb. apply Hb. exact Hr.
    - intros x []. }
  destruct (mono_run (clean_fuel (length (c_dxes c0))) c0 I M) as [H|(cf & H & Mf & Hm & Hi)];
    [exfalso; exact (NF H)|].
  exists cf. split; [exact H|]. split; [|split; [exact (m_rem cf Mf)|]].
  - intros x Hx Hnr. rewrite <- E in Hx. destruct (m_cover cf Mf x Hx) as [Hr|Hd]; [exact Hr|].
    exfalso. apply Hnr. apply (m_prefix cf Mf Hm). rewrite firstn_all2 by exact Hi. exact Hd.
  - unfold boots. apply forallb_forall. intros r Hr. apply (safe_present_present bad_guid).
    apply (m_safe cf Mf). exact Hr.
Qed.

End Monotone.
(* ================= Part 4: the unrepaired code ================= *)

Definition wF (id g : Z) : file := mkFile id g fv_filetype_driver 32 None [].
Definition is_driver : file -> bool := type_pred fv_filetype_driver.
Definition t_accept : testres := (true, 0).
Definition t_reject : testres := (false, 0).
Definition t_cancel : testres := (false, 1).

(* the same GUID in two volumes, every test fails: only the last volume is restored *)
Definition w_dup : image := [[wF 0 1; wF 1 2]; [wF 2 1; wF 3 3]].
(* the same GUID is the last file of two volumes *)
Definition w_last : image := [[wF 0 1]; [wF 1 1]].

Lemma asis_reject_not_undone :
  wf_image is_driver w_dup = true /\
  exists c, dxe_clean asis (script_oracle []) 255 is_driver w_dup 4 = Ok c /\
            c_rem c = [] /\ c_img c = [[wF 1 2]; [wF 2 1; wF 3 3]].
Proof. split; [vm_compute; reflexivity|]. eexists. split; [vm_compute; reflexivity|]. split; reflexivity. Qed.

Lemma asis_index_panic :
  wf_image is_driver w_last = true /\
  dxe_clean asis (script_oracle []) 255 is_driver w_last 2 = Panic P_INDEX.
Proof. split; vm_compute; reflexivity. Qed.

Lemma asis_nil_undo_panic :
  dxe_clean asis (script_oracle [t_accept]) 255 is_driver w_dup 4 = Panic P_NILUNDO.
Proof. vm_compute. reflexivity. Qed.

Lemma asis_cancel_unreported :
  exists c, dxe_clean asis (script_oracle [t_cancel]) 255 is_driver [[wF 0 1; wF 1 2]] 2 = Ok c /\
            c_rem c = [] /\ c_img c = [[wF 1 2]].
Proof. eexists. split; [vm_compute; reflexivity|]. split; reflexivity. Qed.

Lemma asis_monotone_panic :
  req_safe is_driver [2] [[wF 0 1]; [wF 1 1; wF 2 2]] = true /\
  dxe_clean asis (boots_iff [2]) 255 is_driver [[wF 0 1]; [wF 1 1; wF 2 2]] 3 = Panic P_INDEX.
Proof. split; vm_compute; reflexivity. Qed.

(* each repair is needed on its own *)
Lemma only_index_missing :
  dxe_clean (mkVar false true true) (script_oracle []) 255 is_driver w_last 2 = Panic P_INDEX.
Proof. vm_compute. reflexivity. Qed.

Lemma only_unwind_missing :
  exists c, dxe_clean (mkVar true false true) (script_oracle []) 255 is_driver w_dup 4 = Ok c /\
            c_rem c = [] /\ c_img c <> w_dup.
Proof. eexists. split; [vm_compute; reflexivity|]. split; [reflexivity|discriminate]. Qed.

Lemma only_cancel_missing :
  exists c, dxe_clean (mkVar true true false) (script_oracle [t_cancel]) 255 is_driver w_dup 4 = Ok c /\
            c_rem c = [] /\ c_img c <> w_dup.
Proof. eexists. split; [vm_compute; reflexivity|]. split; [reflexivity|discriminate]. Qed.

(* nesting: driver 1 holds a volume with drivers 2 and 3 (3 also in the outer volume) *)
Definition wN (id g : Z) (k : list volume) : file := mkFile id g fv_filetype_driver 32 None k.
Definition w_nest : image := [[wN 0 1 [[wF 1 3; wF 2 2]]; wF 3 3]; [wF 4 5]].

(* pinned code: rejecting the removal of GUID 3 (nested and outer occurrence)
   restores only the nested volume *)
Lemma asis_nested_not_undone :
  wf_image is_driver w_nest = true /\
  exists c, dxe_clean asis (script_oracle []) 255 is_driver w_nest 5 = Ok c /\
            c_rem c = [] /\ c_img c = [[wN 0 1 [[wF 1 3; wF 2 2]]]; [wF 4 5]].
Proof. split; [vm_compute; reflexivity|]. eexists. split; [vm_compute; reflexivity|]. split; reflexivity. Qed.
