(* Proofs/DxeCleanerProofs.v — lemmas about Model/DxeCleaner.v.
   Part 1: Go list operations.  Part 2: Remove.Visit / Remove.Run — every
   variant is undone by unwinding the whole Undo chain and never runs out of
   fuel; the repaired loop deletes exactly the matched files.  Part 3: the
   cleaner's loop — termination, the invariant tying image, report and call
   log together, the monotone tester.  Part 4: witnesses for the unrepaired
   code. *)
From Coq Require Import ZifyBool ZifyNat.
From Fiano Require Import Base.Bytes Base.BytesLemmas Gen.Consts Model.DxeCleaner.
Open Scope Z_scope.

(* ================= Part 1: lists ================= *)

Lemma idx_mid {A} (a : list A) x b i : zlen a = i -> idx i (a ++ x :: b) = Some x.
Proof.
  intro H. unfold idx. pose proof (zlen_nonneg a). rewrite zlen_app, zlen_cons.
  pose proof (zlen_nonneg b).
  replace ((0 <=? i) && (i <? zlen a + (1 + zlen b))) with true by lia.
  subst i. unfold zlen. rewrite Nat2Z.id. rewrite nth_error_app2 by lia.
  rewrite Nat.sub_diag. reflexivity.
Qed.

Lemma idx_none {A} (l : list A) i : zlen l <= i -> idx i l = None.
Proof. intro H. unfold idx. replace ((0 <=? i) && (i <? zlen l)) with false by lia. reflexivity. Qed.

Lemma idx_some_split {A} (l : list A) i x : idx i l = Some x ->
  exists a b, l = a ++ x :: b /\ zlen a = i.
Proof.
  unfold idx. destruct ((0 <=? i) && (i <? zlen l)) eqn:E; [|discriminate].
  intro H. apply nth_error_split in H. destruct H as (a & b & -> & Hl).
  exists a, b. split; [reflexivity|]. unfold zlen. lia.
Qed.

Lemma idx_lt {A} (l : list A) i : 0 <= i < zlen l -> exists x, idx i l = Some x.
Proof.
  intro H. unfold idx. replace ((0 <=? i) && (i <? zlen l)) with true by lia.
  destruct (nth_error l (Z.to_nat i)) eqn:E; [eauto|].
  apply nth_error_None in E. unfold zlen in H. lia.
Qed.

Lemma slc_prefix {A} (a b : list A) i : zlen a = i -> slc 0 i (a ++ b) = Some a.
Proof.
  intro H. unfold slc. pose proof (zlen_nonneg a). pose proof (zlen_nonneg b).
  rewrite zlen_app.
  replace ((0 <=? 0) && (0 <=? i) && (i <=? zlen a + zlen b)) with true by lia.
  f_equal. unfold zskipn. cbn [Z.to_nat skipn]. rewrite Z.sub_0_r. subst i.
  apply zfirstn_app_exact.
Qed.

Lemma slc_suffix {A} (a : list A) x b i : zlen a = i ->
  slc (i + 1) (zlen (a ++ x :: b)) (a ++ x :: b) = Some b.
Proof.
  intro H. unfold slc. pose proof (zlen_nonneg a). pose proof (zlen_nonneg b).
  rewrite zlen_app, zlen_cons.
  replace ((0 <=? i + 1) && (i + 1 <=? zlen a + (1 + zlen b)) &&
           (zlen a + (1 + zlen b) <=? zlen a + (1 + zlen b))) with true by lia.
  f_equal. replace (a ++ x :: b) with ((a ++ [x]) ++ b) by (rewrite <- app_assoc; reflexivity).
  replace (i + 1) with (zlen (a ++ [x])) by (rewrite zlen_app, zlen_cons, zlen_nil; lia).
  rewrite zskipn_app_exact.
  replace (zlen a + (1 + zlen b) - zlen (a ++ [x])) with (zlen b)
    by (rewrite zlen_app, zlen_cons, zlen_nil; lia).
  replace b with (b ++ []) at 2 by apply app_nil_r. rewrite zfirstn_app_exact. reflexivity.
Qed.

Lemma set_nth_length {A} n (x : A) l : length (set_nth n x l) = length l.
Proof. revert n; induction l as [|y r IH]; intros [|n]; cbn; auto. Qed.

Lemma set_nth_same {A} n (x : A) l : nth_error l n = Some x -> set_nth n x l = l.
Proof.
  revert n; induction l as [|y r IH]; intros [|n] H; cbn in *; try discriminate.
  - congruence.
  - f_equal. auto.
Qed.

Lemma set_nth_twice {A} n (x y : A) l : set_nth n x (set_nth n y l) = set_nth n x l.
Proof. revert n; induction l as [|z r IH]; intros [|n]; cbn; auto. f_equal. auto. Qed.

Lemma nth_error_set_nth {A} n (x : A) l : (n < length l)%nat -> nth_error (set_nth n x l) n = Some x.
Proof.
  revert n; induction l as [|z r IH]; intros [|n] H; cbn in *; try lia; auto.
  apply IH. lia.
Qed.

Lemma set_nth_app {A} (pre : list A) x y post :
  set_nth (length pre) x (pre ++ y :: post) = pre ++ x :: post.
Proof. induction pre as [|z r IH]; cbn; [reflexivity|]. f_equal. exact IH. Qed.

Lemma nth_error_mid {A} (pre : list A) y post : nth_error (pre ++ y :: post) (length pre) = Some y.
Proof. rewrite nth_error_app2 by lia. rewrite Nat.sub_diag. reflexivity. Qed.

Lemma remove_nth_length {A} n (l : list A) : (n < length l)%nat ->
  length (remove_nth n l) = pred (length l).
Proof.
  revert n; induction l as [|y r IH]; intros [|n] H; cbn in *; try lia.
  rewrite IH by lia. lia.
Qed.

Lemma remove_nth_split {A} n (l : list A) x : nth_error l n = Some x ->
  exists a b, l = a ++ x :: b /\ length a = n /\ remove_nth n l = a ++ b.
Proof.
  revert n; induction l as [|y r IH]; intros [|n] H; cbn in *; try discriminate.
  - injection H as ->. exists [], r. auto.
  - destruct (IH _ H) as (a & b & -> & Hl & Hr). exists (y :: a), b. cbn. rewrite Hr. auto.
Qed.

(* the in-place deletion on (backing array, len) shows the same elements as the
   list-level deletion used by the model, and the array keeps its length *)
Lemma sl_delete_view {A} (arr : list A) len i : 0 <= i < len -> len <= zlen arr ->
  sl_view (sl_delete (arr, len) i) =
    zfirstn i (sl_view (arr, len)) ++ zfirstn (len - (i + 1)) (zskipn (i + 1) (sl_view (arr, len))) /\
  zlen (fst (sl_delete (arr, len) i)) = zlen arr.
Proof.
  intros Hi Hl. unfold sl_view, sl_delete, zfirstn, zskipn, zlen in *. cbn [fst snd].
  assert (Hn : (Z.to_nat len <= length arr)%nat) by lia.
  split.
  - rewrite app_assoc. rewrite firstn_app.
    assert (L1 : length (firstn (Z.to_nat i) arr ++
                 firstn (Z.to_nat (len - i - 1)) (skipn (Z.to_nat (i + 1)) arr)) = Z.to_nat (len - 1)).
    { rewrite app_length, !firstn_length, skipn_length. lia. }
    rewrite L1, Nat.sub_diag. cbn [firstn]. rewrite app_nil_r.
    rewrite firstn_all2 by lia.
    rewrite firstn_firstn. replace (Nat.min (Z.to_nat i) (Z.to_nat len)) with (Z.to_nat i) by lia.
    f_equal. rewrite firstn_skipn_comm. rewrite firstn_skipn_comm. rewrite firstn_firstn.
    f_equal. f_equal; lia.
  - rewrite !app_length, !firstn_length, !skipn_length. lia.
Qed.

Lemma memz_true x l : memz x l = true <-> In x l.
Proof.
  unfold memz. rewrite existsb_exists. split.
  - intros (y & Hy & E). apply Z.eqb_eq in E. subst. exact Hy.
  - intro H. exists x. split; [exact H|apply Z.eqb_refl].
Qed.

Lemma memz_false x l : memz x l = false <-> ~ In x l.
Proof. rewrite <- memz_true. destruct (memz x l); split; congruence. Qed.

Lemma memz_app x a b : memz x (a ++ b) = memz x a || memz x b.
Proof. unfold memz. apply existsb_app. Qed.

Lemma nodupz_NoDup l : nodupz l = true <-> NoDup l.
Proof.
  induction l as [|x r IH]; cbn.
  - split; [constructor|reflexivity].
  - rewrite andb_true_iff, negb_true_iff, memz_false, IH. split.
    + intros [H1 H2]. constructor; assumption.
    + intro H. inversion H. auto.
Qed.

Lemma filter_filter {A} (p q : A -> bool) l :
  filter p (filter q l) = filter (fun x => q x && p x) l.
Proof.
  induction l as [|x r IH]; cbn; [reflexivity|].
  destruct (q x); cbn; [destruct (p x)|]; rewrite IH; reflexivity.
Qed.

Lemma filter_ext_in' {A} (p q : A -> bool) l :
  (forall x, In x l -> p x = q x) -> filter p l = filter q l.
Proof.
  induction l as [|x r IH]; cbn; intro H; [reflexivity|].
  rewrite (H x) by auto. rewrite IH by auto. reflexivity.
Qed.

Lemma filter_all {A} (p : A -> bool) l : (forall x, In x l -> p x = true) -> filter p l = l.
Proof.
  induction l as [|x r IH]; cbn; intro H; [reflexivity|].
  rewrite (H x) by auto. rewrite IH by auto. reflexivity.
Qed.

Lemma concat_map_filter_in {A} (p : A -> bool) (ll : list (list A)) x :
  In x (concat (map (filter p) ll)) <-> In x (concat ll) /\ p x = true.
Proof.
  induction ll as [|l r IH]; cbn; [tauto|].
  rewrite !in_app_iff, IH, filter_In. tauto.
Qed.

(* ================= Part 2: Remove ================= *)

Lemma unwind_app img a b : unwind img (a ++ b) = unwind (unwind img a) b.
Proof. revert img; induction a as [|[vi o] r IH]; intro img; cbn; auto. Qed.

(* [new] (closures pushed while volume vi went from fs to fs') puts fs back *)
Definition undoes (vi : nat) (new : undo) (fs fs' : list file) : Prop :=
  forall img, nth_error img vi = Some fs' -> unwind img new = set_nth vi fs img.

Lemma undoes_refl vi fs : undoes vi [] fs fs.
Proof. intros img H. cbn. symmetry. apply set_nth_same. exact H. Qed.

Lemma undoes_push vi new fs fs' fs'' :
  undoes vi new fs fs' -> undoes vi ((vi, fs') :: new) fs fs''.
Proof.
  intros H img Hn. cbn.
  assert (Hl : (vi < length img)%nat) by (apply nth_error_Some; congruence).
  rewrite H by (apply nth_error_set_nth; exact Hl).
  apply set_nth_twice.
Qed.

(* [inner], any variant: what it pushes restores the list it started from, and
   it does not let (length - index) grow *)
Lemma inner_inv var pol pad vi ms : forall i fs u nx i' fs' u' nx' new0 fs0,
  inner var pol pad vi ms i fs u nx = Ok (i', fs', u', nx') ->
  undoes vi new0 fs0 fs ->
  exists new, u' = new ++ u /\ undoes vi (new ++ new0) fs0 fs' /\
              zlen fs' - i' <= zlen fs - i.
Proof.
  induction ms as [|m ms IH]; intros i fs u nx i' fs' u' nx' new0 fs0 H U; cbn [inner] in H.
  - injection H as <- <- <- <-. exists []. cbn. split; [reflexivity|]. split; [exact U|lia].
  - destruct (idx i fs) as [x|] eqn:Ex; cbn in H; [|discriminate].
    destruct (f_id x =? m) eqn:Em.
    + (* match *)
      destruct (pad || (f_type x =? fv_filetype_peim)) eqn:Ep.
      * destruct (create_pad pol (f_size x) nx) as [pf| | |] eqn:Ec; cbn in H; try discriminate.
        assert (Hlen : zlen (set_nth (Z.to_nat i) pf fs) = zlen fs)
          by (unfold zlen; rewrite set_nth_length; reflexivity).
        destruct (v_index var).
        -- injection H as <- <- <- <-. exists [(vi, fs)]. cbn. split; [reflexivity|].
           split; [apply undoes_push; exact U|lia].
        -- eapply IH with (new0 := (vi, fs) :: new0) (fs0 := fs0) in H;
             [|apply undoes_push; exact U].
           destruct H as (new & -> & U' & Hm). exists (new ++ [(vi, fs)]).
           rewrite <- !app_assoc. cbn. split; [reflexivity|]. split; [exact U'|lia].
      * destruct (slc 0 i fs) as [a|] eqn:Ea; cbn in H; [|discriminate].
        destruct (slc (i + 1) (zlen fs) fs) as [b|] eqn:Eb; cbn in H; [|discriminate].
        apply idx_some_split in Ex. destruct Ex as (a0 & b0 & -> & Hi).
        rewrite (slc_prefix a0 (x :: b0) i Hi) in Ea. injection Ea as <-.
        rewrite (slc_suffix a0 x b0 i Hi) in Eb. injection Eb as <-.
        assert (Hlen : zlen (a0 ++ b0) = zlen (a0 ++ x :: b0) - 1)
          by (rewrite !zlen_app, zlen_cons; lia).
        destruct (v_index var).
        -- injection H as <- <- <- <-. exists [(vi, a0 ++ x :: b0)]. cbn. split; [reflexivity|].
           split; [apply undoes_push; exact U|lia].
        -- eapply IH with (new0 := (vi, a0 ++ x :: b0) :: new0) (fs0 := fs0) in H;
             [|apply undoes_push; exact U].
           destruct H as (new & -> & U' & Hm). exists (new ++ [(vi, a0 ++ x :: b0)]).
           rewrite <- !app_assoc. cbn. split; [reflexivity|]. split; [exact U'|lia].
    + eapply IH in H; [|exact U]. exact H.
Qed.

Lemma inner_no_fuel var pol pad vi ms : forall i fs u nx,
  inner var pol pad vi ms i fs u nx <> Fuel.
Proof.
  induction ms as [|m ms IH]; intros i fs u nx; cbn [inner]; [discriminate|].
  destruct (idx i fs) as [x|]; cbn; [|discriminate].
  destruct (f_id x =? m); [|apply IH].
  destruct (pad || (f_type x =? fv_filetype_peim)).
  - unfold create_pad. destruct (f_size x <? file_header_min_length); cbn; [discriminate|].
    destruct (pol =? 255); cbn; [destruct (v_index var); [discriminate|apply IH]|].
    destruct (pol =? 0); cbn; [destruct (v_index var); [discriminate|apply IH]|discriminate].
  - destruct (slc 0 i fs); cbn; [|discriminate].
    destruct (slc (i + 1) (zlen fs) fs); cbn; [|discriminate].
    destruct (v_index var); [discriminate|apply IH].
Qed.

Lemma outer_inv var pol pad vi ms : forall fuel i fs u nx fs' u' nx' new0 fs0,
  outer fuel var pol pad vi ms i fs u nx = Ok (fs', u', nx') ->
  undoes vi new0 fs0 fs ->
  exists new, u' = new ++ u /\ undoes vi (new ++ new0) fs0 fs'.
Proof.
  induction fuel as [|k IH]; intros i fs u nx fs' u' nx' new0 fs0 H U; cbn [outer] in H; [discriminate|].
  destruct (i <? zlen fs).
  - destruct (inner var pol pad vi ms i fs u nx) as [[[[i1 fs1] u1] nx1]| | |] eqn:Ei; cbn in H; try discriminate.
    destruct (inner_inv _ _ _ _ _ _ _ _ _ _ _ _ _ _ _ Ei U) as (new1 & -> & U1 & _).
    destruct (IH _ _ _ _ _ _ _ _ _ H U1) as (new2 & -> & U2).
    exists (new2 ++ new1). rewrite <- !app_assoc. split; [reflexivity|exact U2].
  - injection H as <- <- <-. exists []. cbn. split; [reflexivity|exact U].
Qed.

Lemma outer_no_fuel var pol pad vi ms : forall fuel i fs u nx,
  (Z.to_nat (zlen fs - i) < fuel)%nat -> outer fuel var pol pad vi ms i fs u nx <> Fuel.
Proof.
  induction fuel as [|k IH]; intros i fs u nx Hf; [lia|]. cbn [outer].
  destruct (i <? zlen fs) eqn:El; [|discriminate].
  destruct (inner var pol pad vi ms i fs u nx) as [[[[i1 fs1] u1] nx1]| | |] eqn:Ei; cbn; try discriminate.
  - destruct (inner_inv _ _ _ _ _ _ _ _ _ _ _ _ _ [] fs Ei (undoes_refl vi fs)) as (_ & _ & _ & Hm).
    apply IH. lia.
  - exfalso. exact (inner_no_fuel _ _ _ _ _ _ _ _ _ Ei).
Qed.

Lemma visit_vol_no_fuel var pol pad vi ms fs u nx : visit_vol var pol pad vi ms fs u nx <> Fuel.
Proof. unfold visit_vol. apply outer_no_fuel. unfold zlen. lia. Qed.

Lemma visit_vols_no_fuel var pol pad ms : forall vs vi u nx,
  visit_vols var pol pad ms vi vs u nx <> Fuel.
Proof.
  induction vs as [|fs r IH]; intros vi u nx; cbn [visit_vols]; [discriminate|].
  destruct (visit_vol var pol pad vi ms fs u nx) as [[[fs1 u1] nx1]| | |] eqn:E; cbn; try discriminate.
  - destruct (visit_vols var pol pad ms (S vi) r u1 nx1) eqn:E2; cbn; try discriminate.
    exfalso. exact (IH _ _ _ E2).
  - exfalso. exact (visit_vol_no_fuel _ _ _ _ _ _ _ _ E).
Qed.

(* Remove.Run, any variant: unwinding everything it pushed gives the tree back *)
Lemma visit_vols_undo var pol pad ms : forall vs vi u nx vs' u' nx',
  visit_vols var pol pad ms vi vs u nx = Ok (vs', u', nx') ->
  exists new, u' = new ++ u /\ length vs' = length vs /\
    forall pre, length pre = vi -> unwind (pre ++ vs') new = pre ++ vs.
Proof.
  induction vs as [|fs r IH]; intros vi u nx vs' u' nx' H; cbn [visit_vols] in H.
  - injection H as <- <- <-. exists []. cbn. auto.
  - destruct (visit_vol var pol pad vi ms fs u nx) as [[[fs1 u1] nx1]| | |] eqn:E; cbn in H; try discriminate.
    destruct (visit_vols var pol pad ms (S vi) r u1 nx1) as [[[r1 u2] nx2]| | |] eqn:E2; cbn in H; try discriminate.
    injection H as <- <- <-.
    unfold visit_vol in E.
    destruct (outer_inv _ _ _ _ _ _ _ _ _ _ _ _ _ [] fs E (undoes_refl vi fs)) as (new1 & -> & U1).
    rewrite app_nil_r in U1.
    destruct (IH _ _ _ _ _ _ E2) as (new2 & -> & Hl & U2).
    exists (new2 ++ new1). rewrite <- app_assoc. split; [reflexivity|]. split; [cbn; lia|].
    intros pre Hp. rewrite unwind_app.
    replace (pre ++ fs1 :: r1) with ((pre ++ [fs1]) ++ r1) by (rewrite <- app_assoc; reflexivity).
    rewrite U2 by (rewrite app_length; cbn; lia).
    rewrite <- app_assoc. cbn [app].
    rewrite U1 by (subst vi; apply nth_error_mid).
    subst vi. apply set_nth_app.
Qed.

Lemma remove_unwind var pol pad p img nx img' u nx' :
  remove_run var pol pad p img nx = Ok (img', u, nx') -> unwind img' u = img.
Proof.
  unfold remove_run. intro H. apply visit_vols_undo in H.
  destruct H as (new & -> & _ & U). rewrite app_nil_r. exact (U [] eq_refl).
Qed.

Lemma remove_no_fuel var pol pad p img nx : remove_run var pol pad p img nx <> Fuel.
Proof. unfold remove_run. apply visit_vols_no_fuel. Qed.

(* ---- the repaired loop deletes exactly the matched files ---- *)

Definition keep (ms : list Z) (f : file) : bool := negb (memz (f_id f) ms).

Lemma inner_fixed_nomatch pol pad vi ms : forall i fs u nx x,
  idx i fs = Some x -> memz (f_id x) ms = false ->
  inner fixed pol pad vi ms i fs u nx = Ok (i, fs, u, nx).
Proof.
  induction ms as [|m ms IH]; intros i fs u nx x Hx Hm; cbn [inner]; [reflexivity|].
  rewrite Hx. cbn. cbn in Hm. apply orb_false_iff in Hm. destruct Hm as [Hm1 Hm2].
  rewrite Hm1. eapply IH; eauto.
Qed.

Lemma inner_fixed_match pol vi ms : forall i a x b u nx,
  zlen a = i -> memz (f_id x) ms = true -> f_type x <> fv_filetype_peim ->
  inner fixed pol false vi ms i (a ++ x :: b) u nx =
    Ok (i - 1, a ++ b, (vi, a ++ x :: b) :: u, nx).
Proof.
  induction ms as [|m ms IH]; intros i a x b u nx Hi Hm Ht; cbn [inner]; [discriminate|].
  rewrite (idx_mid a x b i Hi). cbn [of_opt bind].
  destruct (f_id x =? m) eqn:Em.
  - replace (false || (f_type x =? fv_filetype_peim)) with false by lia.
    rewrite (slc_prefix a (x :: b) i Hi), (slc_suffix a x b i Hi). cbn. reflexivity.
  - apply IH; auto. cbn in Hm. rewrite Em in Hm. exact Hm.
Qed.

Lemma outer_fixed_spec pol vi ms : forall todo fuel done u nx,
  (length todo < fuel)%nat ->
  (forall x, In x todo -> memz (f_id x) ms = true -> f_type x <> fv_filetype_peim) ->
  exists u', outer fuel fixed pol false vi ms (zlen done) (done ++ todo) u nx =
             Ok (done ++ filter (keep ms) todo, u', nx).
Proof.
  induction todo as [|x todo IH]; intros fuel done u nx Hf Hp.
  - destruct fuel as [|k]; [cbn in Hf; lia|]. cbn [outer]. rewrite app_nil_r.
    rewrite Z.ltb_irrefl. exists u. cbn [filter]. rewrite app_nil_r. reflexivity.
  - destruct fuel as [|k]; [cbn in Hf; lia|]. cbn [outer].
    pose proof (zlen_nonneg todo).
    replace (zlen done <? zlen (done ++ x :: todo)) with true
      by (rewrite zlen_app, zlen_cons; lia).
    cbn [filter]. unfold keep at 1.
    destruct (memz (f_id x) ms) eqn:Em; cbn [negb].
    + rewrite inner_fixed_match;
        [|reflexivity|exact Em|apply Hp; [left; reflexivity|exact Em]].
      cbn [bind fst snd]. replace (zlen done - 1 + 1) with (zlen done) by lia.
      apply IH; [cbn in Hf; lia|]. intros y Hy. apply Hp. right. exact Hy.
    + rewrite (inner_fixed_nomatch pol false vi ms (zlen done) (done ++ x :: todo) u nx x)
        by (first [exact Em|apply idx_mid; reflexivity]).
      cbn [bind fst snd].
      replace (done ++ x :: todo) with ((done ++ [x]) ++ todo) by (rewrite <- app_assoc; reflexivity).
      replace (zlen done + 1) with (zlen (done ++ [x])) by (rewrite zlen_app, zlen_cons, zlen_nil; lia).
      destruct (IH k (done ++ [x]) u nx) as (u' & E); [cbn in Hf; lia| |].
      { intros y Hy. apply Hp. right. exact Hy. }
      exists u'. rewrite E. rewrite <- app_assoc. reflexivity.
Qed.

Lemma visit_vols_fixed_spec pol ms : forall vs vi u nx,
  (forall x, In x (concat vs) -> memz (f_id x) ms = true -> f_type x <> fv_filetype_peim) ->
  exists u', visit_vols fixed pol false ms vi vs u nx = Ok (map (filter (keep ms)) vs, u', nx).
Proof.
  induction vs as [|fs r IH]; intros vi u nx Hp; cbn [visit_vols map].
  - exists u. reflexivity.
  - unfold visit_vol.
    destruct (outer_fixed_spec pol vi ms fs (S (length fs)) [] u nx) as (u1 & E1); [lia| |].
    { intros x Hx. apply Hp. cbn. apply in_or_app. left. exact Hx. }
    cbn [app] in E1. change (zlen (@nil file)) with 0 in E1. rewrite E1. cbn [bind fst snd].
    destruct (IH (S vi) u1 nx) as (u2 & E2).
    { intros x Hx. apply Hp. cbn. apply in_or_app. right. exact Hx. }
    rewrite E2. cbn. exists u2. reflexivity.
Qed.

(* with distinct file objects, "is one of the objects found by GUID g" is
   "has GUID g" *)
Lemma id_in_found g img f : NoDup (map f_id (concat img)) -> In f (concat img) ->
  memz (f_id f) (map f_id (find (guid_pred g) img)) = (f_guid f =? g).
Proof.
  intros Hn Hf. unfold find. destruct (f_guid f =? g) eqn:Eg.
  - apply memz_true. apply in_map. apply filter_In. split; [exact Hf|exact Eg].
  - apply memz_false. intro H. apply in_map_iff in H. destruct H as (f' & Hid & Hf').
    apply filter_In in Hf'. destruct Hf' as [Hin Hg]. unfold guid_pred in Hg.
    assert (f' = f).
    { clear - Hn Hf Hin Hid. induction (concat img) as [|y l IH]; [destruct Hf|].
      cbn in Hn. inversion Hn as [|? ? Hny Hnl]; subst.
      destruct Hf as [->|Hf], Hin as [->|Hin]; auto.
      - exfalso. apply Hny. rewrite <- Hid. apply in_map. exact Hin.
      - exfalso. apply Hny. rewrite Hid. apply in_map. exact Hf. }
    subst f'. congruence.
Qed.

Lemma remove_fixed_spec pol g img nx :
  NoDup (map f_id (concat img)) ->
  (forall f, In f (concat img) -> f_guid f = g -> f_type f <> fv_filetype_peim) ->
  exists u, remove_run fixed pol false (guid_pred g) img nx = Ok (remove_guid g img, u, nx).
Proof.
  intros Hn Hp. unfold remove_run.
  destruct (visit_vols_fixed_spec pol (map f_id (find (guid_pred g) img)) img 0 [] nx) as (u & E).
  { intros x Hx Hm. rewrite id_in_found in Hm by assumption. apply Hp; [exact Hx|lia]. }
  exists u. rewrite E. f_equal. f_equal. f_equal. unfold remove_guid.
  assert (G : forall vs, (forall f, In f (concat vs) -> In f (concat img)) ->
            map (filter (keep (map f_id (find (guid_pred g) img)))) vs =
            map (filter (fun f => negb (f_guid f =? g))) vs).
  { induction vs as [|v r IH]; intro Hs; cbn; [reflexivity|]. f_equal.
    - apply filter_ext_in'. intros f Hf. unfold keep. rewrite id_in_found; auto.
      apply Hs. cbn. apply in_or_app. left. exact Hf.
    - apply IH. intros f Hf. apply Hs. cbn. apply in_or_app. right. exact Hf. }
  apply G. auto.
Qed.

(* ================= Part 3: the cleaner ================= *)

Lemma concat_map_filter {A} (p : A -> bool) ll : concat (map (filter p) ll) = filter p (concat ll).
Proof. induction ll as [|l r IH]; cbn; [reflexivity|]. rewrite filter_app, IH. reflexivity. Qed.

Lemma NoDup_map_filter {A B} (f : A -> B) p l : NoDup (map f l) -> NoDup (map f (filter p l)).
Proof.
  induction l as [|a l IH]; cbn; intro H; [constructor|].
  inversion H as [|? ? Hn Hl]; subst. destruct (p a); cbn; auto.
  constructor; auto. intro Hin. apply Hn. apply in_map_iff in Hin.
  destruct Hin as (y & Hy & Hin). apply filter_In in Hin. rewrite <- Hy. apply in_map. tauto.
Qed.

Lemma minus_guids_snoc rs g img : remove_guid g (minus_guids rs img) = minus_guids (rs ++ [g]) img.
Proof.
  unfold remove_guid, minus_guids. rewrite map_map. apply map_ext. intro v.
  rewrite filter_filter. apply filter_ext. intro f. rewrite memz_app. cbn.
  rewrite orb_false_r, negb_orb. reflexivity.
Qed.

Lemma minus_guids_nil img : minus_guids [] img = img.
Proof.
  unfold minus_guids. cbn. induction img as [|v r IH]; cbn; [reflexivity|].
  rewrite IH. f_equal. apply filter_all. auto.
Qed.

Lemma minus_guids_in rs img f : In f (concat (minus_guids rs img)) -> In f (concat img).
Proof. unfold minus_guids. rewrite concat_map_filter_in. tauto. Qed.

Lemma minus_guids_nodup rs img : NoDup (map f_id (concat img)) ->
  NoDup (map f_id (concat (minus_guids rs img))).
Proof. intro H. unfold minus_guids. rewrite concat_map_filter. apply NoDup_map_filter. exact H. Qed.

Lemma accepted_guids_snoc l e :
  accepted_guids (l ++ [e]) = accepted_guids l ++ (if accepted (answer_of e) then [guid_of e] else []).
Proof.
  unfold accepted_guids. rewrite filter_app, map_app. cbn.
  destruct (accepted (answer_of e)); reflexivity.
Qed.

Lemma firstn_snoc_le {A} k (l : list A) e : (k <= length l)%nat -> firstn k (l ++ [e]) = firstn k l.
Proof.
  intro H. rewrite firstn_app. replace (k - length l)%nat with O by lia. cbn. apply app_nil_r.
Qed.

Lemma firstn_succ_nth {A} (l : list A) i x : nth_error l i = Some x -> firstn (S i) l = firstn i l ++ [x].
Proof.
  revert i; induction l as [|y r IH]; intros [|i] H; cbn in *; try discriminate.
  - congruence.
  - f_equal. auto.
Qed.

(* ---- termination: every variant, every oracle ---- *)

Definition phi (c : cstate) : nat :=
  ((length (c_dxes c) - c_i c) + 1 +
   (if c_more c then S (length (c_dxes c)) * S (length (c_dxes c))
    else length (c_dxes c) * length (c_dxes c)))%nat.

Lemma step_no_fuel var orc pol c : step var orc pol c <> Fuel.
Proof.
  unfold step. destruct (c_i c <? length (c_dxes c))%nat.
  - destruct (nth_error (c_dxes c) (c_i c)) as [g|]; cbn; [|discriminate].
    destruct (remove_run var pol false (guid_pred g) (c_img c) (c_nx c)) as [r| | |] eqn:E; cbn; try discriminate.
    + destruct (snd (orc (length (c_log c)) (fst (fst r))) =? 1); [discriminate|].
      destruct (fst (orc (length (c_log c)) (fst (fst r))) && _); [discriminate|].
      destruct (fst (orc (length (c_log c)) (fst (fst r)))); [discriminate|].
      destruct (v_unwind var); [discriminate|].
      unfold call_undo. destruct (snd (fst r)) as [|[vi o] prev]; cbn; discriminate.
    + exfalso. exact (remove_no_fuel _ _ _ _ _ _ E).
  - destruct (c_more c); discriminate.
Qed.

Lemma step_phi var orc pol c c' : step var orc pol c = Ok (false, c') -> (phi c' < phi c)%nat.
Proof.
  unfold step. destruct (c_i c <? length (c_dxes c))%nat eqn:Ei.
  - apply Nat.ltb_lt in Ei.
    destruct (nth_error (c_dxes c) (c_i c)) as [g|]; cbn; [|discriminate].
    destruct (remove_run var pol false (guid_pred g) (c_img c) (c_nx c)) as [r| | |]; cbn; try discriminate.
    destruct (snd (orc (length (c_log c)) (fst (fst r))) =? 1); [discriminate|].
    destruct (fst (orc (length (c_log c)) (fst (fst r))) && _); [discriminate|].
    destruct (fst (orc (length (c_log c)) (fst (fst r)))).
    + intro H. injection H as <-. unfold phi. cbn.
      pose proof (remove_nth_length (c_i c) (c_dxes c) Ei) as Hl. rewrite Hl.
      replace (S (Nat.pred (length (c_dxes c)))) with (length (c_dxes c)) by lia.
      destruct (c_more c); nia.
    + assert (G : forall img1, Ok (false, mkC img1 (snd r) (c_dxes c) (c_rem c) (S (c_i c)) (c_more c)
                  (c_log c ++ [(g, fst (fst r), orc (length (c_log c)) (fst (fst r)))])) = Ok (false, c') ->
                  (phi c' < phi c)%nat).
      { intros img1 H. injection H as <-. unfold phi. cbn. destruct (c_more c); lia. }
      destruct (v_unwind var); [apply G|].
      destruct (call_undo (fst (fst r)) (snd (fst r))) as [w| | |]; cbn; try discriminate. apply G.
  - apply Nat.ltb_ge in Ei. destruct (c_more c) eqn:Em; [|discriminate].
    intro H. injection H as <-. unfold phi. cbn. rewrite Em. nia.
Qed.

Lemma run_no_fuel var orc pol : forall fuel c, (phi c <= fuel)%nat -> run fuel var orc pol c <> Fuel.
Proof.
  induction fuel as [|k IH]; intros c Hf.
  - unfold phi in Hf. lia.
  - cbn [run]. destruct (step var orc pol c) as [[fin c']| | |] eqn:E; cbn; try discriminate.
    + destruct fin; cbn; [discriminate|]. apply IH. apply step_phi in E. lia.
    + exfalso. exact (step_no_fuel _ _ _ _ E).
Qed.

Lemma clean_no_fuel var orc pol pred img nx : dxe_clean var orc pol pred img nx <> Fuel.
Proof.
  unfold dxe_clean, init. destruct (cand_guids pred img) as [|g l] eqn:E; cbn [bind]; [discriminate|].
  apply run_no_fuel. unfold phi, clean_fuel. cbn [c_dxes c_i c_more]. lia.
Qed.

(* ---- a step that reports nothing leaves every volume as it was ---- *)

Lemma step_fixed_unreported orc pol c fin c' :
  step fixed orc pol c = Ok (fin, c') -> c_rem c' = c_rem c -> c_img c' = c_img c.
Proof.
  unfold step. destruct (c_i c <? length (c_dxes c))%nat.
  - destruct (nth_error (c_dxes c) (c_i c)) as [g|]; cbn; [|discriminate].
    destruct (remove_run fixed pol false (guid_pred g) (c_img c) (c_nx c)) as [[[img' u] nx']| | |] eqn:E;
      cbn; try discriminate.
    apply remove_unwind in E.
    destruct (snd (orc (length (c_log c)) img') =? 1).
    { intros H _. injection H as <- <-. cbn. exact E. }
    destruct (fst (orc (length (c_log c)) img') && _); [discriminate|].
    destruct (fst (orc (length (c_log c)) img')).
    + intros H Hr. injection H as <- <-. cbn in Hr. exfalso.
      apply (f_equal (@length Z)) in Hr. rewrite app_length in Hr. cbn in Hr. lia.
    + intros H _. injection H as <- <-. cbn. exact E.
  - destruct (c_more c); intros H _; injection H as <- <-; reflexivity.
Qed.

(* ---- the invariant of the repaired cleaner ---- *)

Section Cleaner.
Variable orc : oracle.
Variable pol : Z.
Variable pred : file -> bool.
Variable img0 : image.
Hypothesis WF : wf_image pred img0 = true.

Lemma wf_nodup : NoDup (map f_id (concat img0)).
Proof. unfold wf_image in WF. apply andb_true_iff in WF. apply nodupz_NoDup. tauto. Qed.

Lemma wf_peim f : In f (concat img0) -> In (f_guid f) (cand_guids pred img0) ->
  f_type f <> fv_filetype_peim.
Proof.
  intros Hf Hg Ht. unfold wf_image in WF. apply andb_true_iff in WF. destruct WF as [_ W].
  rewrite forallb_forall in W. specialize (W f Hf). apply memz_true in Hg. rewrite Hg in W.
  apply Z.eqb_eq in Ht. rewrite Ht in W. discriminate.
Qed.

Record Inv (c : cstate) : Prop := mkInv {
  inv_img : c_img c = minus_guids (c_rem c) img0;
  inv_rem : c_rem c = accepted_guids (c_log c);
  inv_log : forall k e, nth_error (c_log c) k = Some e ->
      answer_of e = orc k (shown_of e) /\
      shown_of e = remove_guid (guid_of e)
                     (minus_guids (accepted_guids (firstn k (c_log c))) img0);
  inv_dxes : incl (c_dxes c) (cand_guids pred img0)
}.

Lemma init_inv nx c0 : init pred img0 nx = Ok c0 -> Inv c0.
Proof.
  unfold init. destruct (cand_guids pred img0) as [|g l] eqn:E; [discriminate|].
  intro H. injection H as <-. constructor; cbn.
  - symmetry. apply minus_guids_nil.
  - reflexivity.
  - intros [|k] e; discriminate.
  - rewrite E. apply incl_refl.
Qed.

(* the shape of one iteration of the repaired loop *)
Lemma step_fixed_iter c g : Inv c -> nth_error (c_dxes c) (c_i c) = Some g ->
  let img' := remove_guid g (c_img c) in
  let t := orc (length (c_log c)) img' in
  let log' := c_log c ++ [(g, img', t)] in
  step fixed orc pol c =
    if snd t =? 1 then
      Ok (true, mkC (c_img c) (c_nx c) (c_dxes c) (c_rem c) (c_i c) (c_more c) log')
    else if fst t && negb (snd t =? 0) then Err E_TEST
    else if fst t then
      Ok (false, mkC img' (c_nx c) (remove_nth (c_i c) (c_dxes c)) (c_rem c ++ [g]) (c_i c) true log')
    else Ok (false, mkC (c_img c) (c_nx c) (c_dxes c) (c_rem c) (S (c_i c)) (c_more c) log').
Proof.
  intros I Hg. cbn zeta. unfold step.
  assert (Hi : (c_i c < length (c_dxes c))%nat) by (apply nth_error_Some; congruence).
  apply Nat.ltb_lt in Hi. rewrite Hi, Hg. cbn [of_opt bind].
  destruct (remove_fixed_spec pol g (c_img c) (c_nx c)) as (u & E).
  - rewrite (inv_img c I). apply minus_guids_nodup. exact wf_nodup.
  - intros f Hf Hfg. rewrite (inv_img c I) in Hf. apply minus_guids_in in Hf.
    apply wf_peim; [exact Hf|]. rewrite Hfg. apply (inv_dxes c I). eapply nth_error_In. exact Hg.
  - rewrite E. cbn [bind fst snd fixed v_cancel v_unwind].
    rewrite (remove_unwind _ _ _ _ _ _ _ _ _ E). reflexivity.
Qed.

Lemma log_extend c g t :
  Inv c ->
  forall k e, nth_error (c_log c ++ [(g, remove_guid g (c_img c), t)]) k = Some e ->
    t = orc (length (c_log c)) (remove_guid g (c_img c)) ->
    answer_of e = orc k (shown_of e) /\
    shown_of e = remove_guid (guid_of e)
      (minus_guids (accepted_guids (firstn k (c_log c ++ [(g, remove_guid g (c_img c), t)]))) img0).
Proof.
  intros I k e Hn Ht.
  destruct (Nat.lt_ge_cases k (length (c_log c))) as [Hk|Hk].
  - rewrite nth_error_app1 in Hn by exact Hk.
    rewrite firstn_snoc_le by lia. apply (inv_log c I). exact Hn.
  - rewrite nth_error_app2 in Hn by exact Hk.
    destruct (k - length (c_log c))%nat as [|j] eqn:Ej; [|destruct j; discriminate].
    cbn in Hn. injection Hn as <-.
    assert (k = length (c_log c)) by lia. subst k.
    unfold answer_of, shown_of, guid_of. cbn [fst snd]. split; [exact Ht|].
    rewrite firstn_app, Nat.sub_diag, firstn_all. cbn [firstn]. rewrite app_nil_r.
    rewrite <- (inv_rem c I), <- (inv_img c I). reflexivity.
Qed.

Lemma incl_remove_nth {A} n (l : list A) : incl (remove_nth n l) l.
Proof.
  revert n; induction l as [|y r IH]; intros [|n]; cbn; try apply incl_refl.
  - apply incl_tl, incl_refl.
  - intros x [->|H]; [left; reflexivity|right; apply (IH n); exact H].
Qed.

Lemma step_inv c fin c' : Inv c -> step fixed orc pol c = Ok (fin, c') -> Inv c'.
Proof.
  intros I H.
  destruct (c_i c <? length (c_dxes c))%nat eqn:Ei.
  - apply Nat.ltb_lt in Ei.
    destruct (nth_error (c_dxes c) (c_i c)) as [g|] eqn:Eg; [|apply nth_error_None in Eg; lia].
    rewrite (step_fixed_iter c g I Eg) in H. cbn zeta in H.
    set (img' := remove_guid g (c_img c)) in *.
    set (t := orc (length (c_log c)) img') in *.
    pose proof (log_extend c g t I) as HL. fold img' in HL.
    destruct (snd t =? 1) eqn:Ec.
    { injection H as <- <-. constructor; cbn [c_img c_rem c_log c_dxes].
      - exact (inv_img c I).
      - rewrite accepted_guids_snoc. unfold answer_of, accepted. cbn [snd].
        replace (snd t =? 0) with false by lia. rewrite andb_false_r, app_nil_r. exact (inv_rem c I).
      - intros k e Hn. apply HL; [exact Hn|reflexivity].
      - exact (inv_dxes c I). }
    destruct (fst t && negb (snd t =? 0)) eqn:Ee; [discriminate|].
    destruct (fst t) eqn:Ea.
    + injection H as <- <-. constructor; cbn [c_img c_rem c_log c_dxes].
      * unfold img'. rewrite (inv_img c I). apply minus_guids_snoc.
      * rewrite accepted_guids_snoc. unfold answer_of, accepted, guid_of. cbn [fst snd].
        rewrite Ea. replace (snd t =? 0) with true by lia. cbn. rewrite <- (inv_rem c I). reflexivity.
      * intros k e Hn. apply HL; [exact Hn|reflexivity].
      * eapply incl_tran; [apply incl_remove_nth|exact (inv_dxes c I)].
    + injection H as <- <-. constructor; cbn [c_img c_rem c_log c_dxes].
      * exact (inv_img c I).
      * rewrite accepted_guids_snoc. unfold answer_of, accepted. cbn [fst snd].
        rewrite Ea. cbn. rewrite app_nil_r. exact (inv_rem c I).
      * intros k e Hn. apply HL; [exact Hn|reflexivity].
      * exact (inv_dxes c I).
  - unfold step in H. rewrite Ei in H. destruct (c_more c).
    + injection H as <- <-. constructor; cbn [c_img c_rem c_log c_dxes]; apply I.
    + injection H as <- <-. exact I.
Qed.

(* the repaired step never panics *)
Lemma step_fixed_total c : Inv c ->
  (exists fin c', step fixed orc pol c = Ok (fin, c')) \/ step fixed orc pol c = Err E_TEST.
Proof.
  intro I. destruct (c_i c <? length (c_dxes c))%nat eqn:Ei.
  - apply Nat.ltb_lt in Ei.
    destruct (nth_error (c_dxes c) (c_i c)) as [g|] eqn:Eg; [|apply nth_error_None in Eg; lia].
    rewrite (step_fixed_iter c g I Eg). cbn zeta.
    destruct (snd _ =? 1); [left; eauto|].
    destruct (fst _ && negb _); [right; reflexivity|].
    destruct (fst _); left; eauto.
  - unfold step. rewrite Ei. destruct (c_more c); left; eauto.
Qed.

Lemma run_inv : forall fuel c cf, Inv c -> run fuel fixed orc pol c = Ok cf -> Inv cf.
Proof.
  induction fuel as [|k IH]; intros c cf I H; cbn [run] in H; [discriminate|].
  destruct (step fixed orc pol c) as [[fin c']| | |] eqn:E; cbn in H; try discriminate.
  pose proof (step_inv c fin c' I E) as I'.
  destruct fin; cbn in H; [injection H as <-; exact I'|]. eapply IH; eauto.
Qed.

Lemma run_fixed_total : forall fuel c, Inv c ->
  (exists cf, run fuel fixed orc pol c = Ok cf) \/ run fuel fixed orc pol c = Err E_TEST \/
  run fuel fixed orc pol c = Fuel.
Proof.
  induction fuel as [|k IH]; intros c I; cbn [run]; [right; right; reflexivity|].
  destruct (step_fixed_total c I) as [(fin & c' & E)|E]; rewrite E; cbn.
  - destruct fin; cbn; [left; eauto|]. apply IH. eapply step_inv; eauto.
  - right; left; reflexivity.
Qed.

End Cleaner.

Lemma clean_final_matches orc pol pred img nx c :
  wf_image pred img = true -> dxe_clean fixed orc pol pred img nx = Ok c ->
  c_img c = minus_guids (c_rem c) img.
Proof.
  intros WF H. unfold dxe_clean in H.
  destruct (init pred img nx) as [c0| | |] eqn:E0; cbn [bind] in H; try discriminate.
  apply (inv_img orc pred img c).
  apply (run_inv orc pol pred img WF (clean_fuel (length (c_dxes c0))) c0 c); [eapply init_inv; eauto|exact H].
Qed.

Lemma clean_reported_accepted orc pol pred img nx c :
  wf_image pred img = true -> dxe_clean fixed orc pol pred img nx = Ok c ->
  c_rem c = accepted_guids (c_log c) /\
  forall k e, nth_error (c_log c) k = Some e ->
    answer_of e = orc k (shown_of e) /\
    shown_of e = remove_guid (guid_of e)
                   (minus_guids (accepted_guids (firstn k (c_log c))) img).
Proof.
  intros WF H. unfold dxe_clean in H.
  destruct (init pred img nx) as [c0| | |] eqn:E0; cbn [bind] in H; try discriminate.
  assert (I : Inv orc pred img c)
    by (apply (run_inv orc pol pred img WF (clean_fuel (length (c_dxes c0))) c0 c); [eapply init_inv; eauto|exact H]).
  split; [apply (inv_rem _ _ _ _ I)|apply (inv_log _ _ _ _ I)].
Qed.

Lemma clean_fixed_total orc pol pred img nx :
  wf_image pred img = true ->
  (exists c, dxe_clean fixed orc pol pred img nx = Ok c) \/
  dxe_clean fixed orc pol pred img nx = Err E_NODXES \/
  dxe_clean fixed orc pol pred img nx = Err E_TEST.
Proof.
  intro WF. pose proof (clean_no_fuel fixed orc pol pred img nx) as NF.
  unfold dxe_clean in *. unfold init in *.
  destruct (cand_guids pred img) as [|g l] eqn:E; cbn [bind] in *; [right; left; reflexivity|].
  set (c0 := mkC img nx (g :: l) [] (length (g :: l)) true []) in *.
  assert (I : Inv orc pred img c0).
  { apply (init_inv orc pred img nx). unfold init. rewrite E. reflexivity. }
  destruct (run_fixed_total orc pol pred img WF (clean_fuel (length (c_dxes c0))) c0 I) as [H|[H|H]]; [left; exact H|right; right; exact H|].
  exfalso. exact (NF H).
Qed.

(* ---- a tester that boots iff a required set of GUIDs is present ---- *)

Lemma present_true g img : present g img = true <-> exists f, In f (concat img) /\ f_guid f = g.
Proof.
  unfold present. rewrite existsb_exists. split; intros (f & Hf & E); exists f; (split; [exact Hf|lia]).
Qed.

Lemma present_remove_same g img : present g (remove_guid g img) = false.
Proof.
  destruct (present g (remove_guid g img)) eqn:E; [|reflexivity].
  apply present_true in E. destruct E as (f & Hf & Hg). unfold remove_guid in Hf.
  apply concat_map_filter_in in Hf. lia.
Qed.

Lemma present_remove_other g g' img : g <> g' -> present g (remove_guid g' img) = present g img.
Proof.
  intro Hne. destruct (present g img) eqn:E.
  - apply present_true in E. destruct E as (f & Hf & Hg). apply present_true. exists f.
    split; [|exact Hg]. unfold remove_guid. apply concat_map_filter_in. split; [exact Hf|lia].
  - destruct (present g (remove_guid g' img)) eqn:E2; [|reflexivity].
    apply present_true in E2. destruct E2 as (f & Hf & Hg). unfold remove_guid in Hf.
    apply concat_map_filter_in in Hf. destruct Hf as [Hf _].
    assert (present g img = true) by (apply present_true; eauto). congruence.
Qed.

Section Monotone.
Variable req : list Z.
Variable pol : Z.
Variable pred : file -> bool.
Variable img0 : image.
Hypothesis WF : wf_image pred img0 = true.

Notation orc := (boots_iff req).
Definition boots (img : image) : bool := forallb (fun g => present g img) req.

Lemma orc_eq k img : orc k img = (boots img, 0).
Proof. reflexivity. Qed.

Record MInv (c : cstate) : Prop := mkMInv {
  m_cover : forall g, In g (cand_guids pred img0) -> In g (c_rem c) \/ In g (c_dxes c);
  m_prefix : c_more c = false -> forall g, In g (firstn (c_i c) (c_dxes c)) -> In g req;
  m_boots : boots (c_img c) = true;
  m_rem : forall g, In g (c_rem c) -> ~ In g req
}.

(* removing g from a booting image: it still boots iff g is not required *)
Lemma boots_remove g img : boots img = true -> boots (remove_guid g img) = negb (memz g req).
Proof.
  intro Hb. unfold boots in *. rewrite forallb_forall in Hb.
  destruct (memz g req) eqn:Em; cbn [negb].
  - apply memz_true in Em. destruct (forallb _ req) eqn:E; [|reflexivity].
    rewrite forallb_forall in E. specialize (E g Em). rewrite present_remove_same in E. discriminate.
  - apply memz_false in Em. apply forallb_forall. intros r Hr.
    rewrite present_remove_other; [apply Hb; exact Hr|]. intro; subst; auto.
Qed.

Lemma mono_step c fin c' : Inv orc pred img0 c -> MInv c ->
  step fixed orc pol c = Ok (fin, c') ->
  MInv c' /\ (fin = true -> c_more c' = false /\ (length (c_dxes c') <= c_i c')%nat).
Proof.
  intros I M H.
  destruct (c_i c <? length (c_dxes c))%nat eqn:Ei.
  - apply Nat.ltb_lt in Ei.
    destruct (nth_error (c_dxes c) (c_i c)) as [g|] eqn:Eg; [|apply nth_error_None in Eg; lia].
    rewrite (step_fixed_iter orc pol pred img0 WF c g I Eg) in H. cbn zeta in H.
    rewrite !orc_eq in H. cbn [fst snd] in H.
    change (0 =? 1) with false in H. change (0 =? 0) with true in H. cbn [negb] in H.
    rewrite andb_false_r in H.
    rewrite (boots_remove g (c_img c) (m_boots c M)) in H.
    destruct (memz g req) eqn:Em; cbn [negb] in H.
    + (* rejected: g is required *)
      injection H as <- <-. split; [|discriminate]. apply memz_true in Em.
      constructor; cbn [c_img c_rem c_dxes c_i c_more].
      * exact (m_cover c M).
      * intros Hm x Hx. rewrite (firstn_succ_nth _ _ _ Eg) in Hx. apply in_app_or in Hx.
        destruct Hx as [Hx|[<-|[]]]; [exact (m_prefix c M Hm x Hx)|exact Em].
      * exact (m_boots c M).
      * exact (m_rem c M).
    + (* accepted *)
      injection H as <- <-. split; [|discriminate]. apply memz_false in Em.
      constructor; cbn [c_img c_rem c_dxes c_i c_more].
      * intros x Hx. destruct (m_cover c M x Hx) as [Hr|Hd].
        -- left. apply in_or_app. left. exact Hr.
        -- destruct (remove_nth_split _ _ _ Eg) as (a & b & Hab & _ & Hr). rewrite Hr.
           rewrite Hab in Hd. apply in_app_or in Hd. destruct Hd as [Hd|[<-|Hd]].
           ++ right. apply in_or_app. left. exact Hd.
           ++ left. apply in_or_app. right. left. reflexivity.
           ++ right. apply in_or_app. right. exact Hd.
      * discriminate.
      * rewrite (boots_remove g (c_img c) (m_boots c M)). apply negb_true_iff. apply memz_false. exact Em.
      * intros x Hx. apply in_app_or in Hx. destruct Hx as [Hx|[<-|[]]]; [exact (m_rem c M x Hx)|exact Em].
  - unfold step in H. rewrite Ei in H. apply Nat.ltb_ge in Ei. destruct (c_more c) eqn:Emore.
    + injection H as <- <-. split; [|discriminate]. constructor; cbn [c_img c_rem c_dxes c_i c_more].
      * exact (m_cover c M).
      * intros _ x [].
      * exact (m_boots c M).
      * exact (m_rem c M).
    + injection H as <- <-. split; [exact M|]. intros _. split; [exact Emore|exact Ei].
Qed.

Lemma mono_step_ok c : Inv orc pred img0 c -> MInv c -> exists fin c', step fixed orc pol c = Ok (fin, c').
Proof.
  intros I M. destruct (step_fixed_total orc pol pred img0 WF c I) as [H|H]; [exact H|].
  exfalso. destruct (c_i c <? length (c_dxes c))%nat eqn:Ei.
  - apply Nat.ltb_lt in Ei.
    destruct (nth_error (c_dxes c) (c_i c)) as [g|] eqn:Eg; [|apply nth_error_None in Eg; lia].
    rewrite (step_fixed_iter orc pol pred img0 WF c g I Eg) in H. cbn zeta in H.
    rewrite !orc_eq in H. cbn [fst snd] in H.
    change (0 =? 1) with false in H. change (0 =? 0) with true in H. cbn [negb] in H.
    rewrite andb_false_r in H. destruct (boots _) in H; discriminate.
  - unfold step in H. rewrite Ei in H. destruct (c_more c); discriminate.
Qed.

Lemma mono_run : forall fuel c, Inv orc pred img0 c -> MInv c ->
  run fuel fixed orc pol c = Fuel \/
  exists cf, run fuel fixed orc pol c = Ok cf /\ MInv cf /\ c_more cf = false /\
             (length (c_dxes cf) <= c_i cf)%nat.
Proof.
  induction fuel as [|k IH]; intros c I M; cbn [run]; [left; reflexivity|].
  destruct (mono_step_ok c I M) as (fin & c' & E). rewrite E. cbn [bind fst snd].
  destruct (mono_step c fin c' I M E) as [M' Hf].
  destruct fin.
  - right. exists c'. destruct (Hf eq_refl). auto.
  - apply IH; [eapply step_inv; eauto|exact M'].
Qed.

Lemma mono_complete nx : boots img0 = true -> cand_guids pred img0 <> [] ->
  exists c, dxe_clean fixed orc pol pred img0 nx = Ok c /\
    (forall g, In g (cand_guids pred img0) -> ~ In g req -> In g (c_rem c)) /\
    (forall g, In g (c_rem c) -> ~ In g req) /\
    boots (c_img c) = true.
Proof.
  intros Hb Hne. pose proof (clean_no_fuel fixed orc pol pred img0 nx) as NF.
  unfold dxe_clean in *. unfold init in *.
  destruct (cand_guids pred img0) as [|g l] eqn:E; [congruence|]. cbn [bind] in *.
  set (c0 := mkC img0 nx (g :: l) [] (length (g :: l)) true []) in *.
  assert (I : Inv orc pred img0 c0).
  { apply (init_inv orc pred img0 nx). unfold init. rewrite E. reflexivity. }
  assert (M : MInv c0).
  { constructor; cbn [c_img c_rem c_dxes c_i c_more c0].
    - intros x Hx. right. rewrite <- E. exact Hx.
    - discriminate.
    - exact Hb.
    - intros x []. }
  destruct (mono_run (clean_fuel (length (c_dxes c0))) c0 I M) as [H|(cf & H & Mf & Hm & Hi)];
    [exfalso; exact (NF H)|].
  exists cf. split; [exact H|]. split; [|split; [exact (m_rem cf Mf)|exact (m_boots cf Mf)]].
  intros x Hx Hnr. rewrite <- E in Hx. destruct (m_cover cf Mf x Hx) as [Hr|Hd]; [exact Hr|].
  exfalso. apply Hnr. apply (m_prefix cf Mf Hm). rewrite firstn_all2 by exact Hi. exact Hd.
Qed.

End Monotone.

(* ================= Part 4: the unrepaired code ================= *)

Definition wF (id g : Z) : file := mkFile id g fv_filetype_driver 32 None.
Definition is_driver : file -> bool := type_pred fv_filetype_driver.
Definition t_accept : testres := (true, 0).
Definition t_reject : testres := (false, 0).
Definition t_cancel : testres := (false, 1).

(* the same GUID in two volumes, every test fails: only the last volume is restored *)
Definition w_dup : image := [[wF 0 1; wF 1 2]; [wF 2 1; wF 3 3]].
(* the same GUID is the last file of two volumes *)
Definition w_last : image := [[wF 0 1]; [wF 1 1]].

Lemma asis_reject_not_undone :
  wf_image is_driver w_dup = true /\
  exists c, dxe_clean asis (script_oracle []) 255 is_driver w_dup 4 = Ok c /\
            c_rem c = [] /\ c_img c = [[wF 1 2]; [wF 2 1; wF 3 3]].
Proof. split; [vm_compute; reflexivity|]. eexists. split; [vm_compute; reflexivity|]. split; reflexivity. Qed.

Lemma asis_index_panic :
  wf_image is_driver w_last = true /\
  dxe_clean asis (script_oracle []) 255 is_driver w_last 2 = Panic P_INDEX.
Proof. split; vm_compute; reflexivity. Qed.

Lemma asis_nil_undo_panic :
  dxe_clean asis (script_oracle [t_accept]) 255 is_driver w_dup 4 = Panic P_NILUNDO.
Proof. vm_compute. reflexivity. Qed.

Lemma asis_cancel_unreported :
  exists c, dxe_clean asis (script_oracle [t_cancel]) 255 is_driver [[wF 0 1; wF 1 2]] 2 = Ok c /\
            c_rem c = [] /\ c_img c = [[wF 1 2]].
Proof. eexists. split; [vm_compute; reflexivity|]. split; reflexivity. Qed.

Lemma asis_monotone_panic :
  boots [2] [[wF 0 1]; [wF 1 1; wF 2 2]] = true /\
  dxe_clean asis (boots_iff [2]) 255 is_driver [[wF 0 1]; [wF 1 1; wF 2 2]] 3 = Panic P_INDEX.
Proof. split; vm_compute; reflexivity. Qed.

(* each repair is needed on its own *)
Lemma only_index_missing :
  dxe_clean (mkVar false true true) (script_oracle []) 255 is_driver w_last 2 = Panic P_INDEX.
Proof. vm_compute. reflexivity. Qed.

Lemma only_unwind_missing :
  exists c, dxe_clean (mkVar true false true) (script_oracle []) 255 is_driver w_dup 4 = Ok c /\
            c_rem c = [] /\ c_img c <> w_dup.
Proof. eexists. split; [vm_compute; reflexivity|]. split; [reflexivity|discriminate]. Qed.

Lemma only_cancel_missing :
  exists c, dxe_clean (mkVar true true false) (script_oracle [t_cancel]) 255 is_driver w_dup 4 = Ok c /\
            c_rem c = [] /\ c_img c <> w_dup.
Proof. eexists. split; [vm_compute; reflexivity|]. split; [reflexivity|discriminate]. Qed.
