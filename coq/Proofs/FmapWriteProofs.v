(* Proofs/FmapWriteProofs.v — Write is confined: fmap.Write at an offset where the map fits changes
   exactly the bytes [start, start + len(encoding)) and sets them to the little-endian layout
   enc_fmap; the image length does not change.  (Write past the end extends the file: see write_at.) *)
From Fiano Require Import Base.Bytes Base.BytesLemmas Gen.Consts Model.Fmap Proofs.FmapProofs.
From Coq Require Import ZArith List Lia.
Import ListNotations.
Open Scope Z_scope.

Theorem write_confined img m start :
  0 <= start -> start + zlen (enc_fmap m) <= zlen img ->
  zlen (write img m start) = zlen img /\
  sub start (zlen (enc_fmap m)) (write img m start) = enc_fmap m /\
  forall k, (Z.of_nat k < start \/ start + zlen (enc_fmap m) <= Z.of_nat k) ->
            nth_error (write img m start) k = nth_error img k.
Proof.
  intros Hs Hfit. unfold write, write_at.
  replace (start + zlen (enc_fmap m) <=? zlen img) with true by lia.
  split; [apply zlen_splice; lia|]. split; [apply sub_splice; lia|].
  intros k [Hk|Hk]; [apply nth_error_splice_lo|apply nth_error_splice_hi]; lia.
Qed.

(* the length of the encoding: the header and one fixed-size entry per area, for every well-formed map *)
Lemma zlen_enc_areas l : forallb wf_area l = true -> zlen (enc_areas l) = area_len * zlen l.
Proof.
  induction l as [|a l IH]; intros H; [reflexivity|].
  cbn [forallb] in H. apply andb_true_iff in H as [Ha Hl].
  unfold enc_areas in *. cbn [map concat]. rewrite zlen_app, zlen_cons, (zlen_enc_area a Ha), (IH Hl). lia.
Qed.

Theorem enc_fmap_length m : wf_map m = true ->
  zlen (enc_fmap m) = hdr_len + area_len * h_nareas (f_hdr m).
Proof.
  intros H. apply wf_map_spec in H as (Hh & _ & Ha & Hn).
  unfold enc_fmap. rewrite zlen_app, (zlen_enc_header _ Hh), (zlen_enc_areas _ Ha), Hn. reflexivity.
Qed.
