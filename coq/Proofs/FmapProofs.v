(* Proofs/FmapProofs.v — lemmas about Model/Fmap.v (property C13). *)
From Fiano Require Import Base.Bytes Base.BytesLemmas Gen.Consts Model.Fmap.
From Coq Require Import ZifyBool ZifyNat.
Open Scope Z_scope.

(* ---- well-formedness unpacked ---- *)

Lemma wf_header_spec h : wf_header h = true ->
  h_sig h = fmap_signature /\ 0 <= h_vmaj h < 256 /\ 0 <= h_vmin h < 256 /\
  0 <= h_base h < 2 ^ 64 /\ 0 <= h_size h < 2 ^ 32 /\
  bytes_ok (h_name h) = true /\ zlen (h_name h) = 32 /\ 0 <= h_nareas h < 2 ^ 16.
Proof.
  unfold wf_header. intros H.
  repeat (apply andb_true_iff in H as [H ?]).
  apply bytes_eqb_eq in H. repeat split; try lia; auto.
Qed.

Lemma wf_area_spec a : wf_area a = true ->
  0 <= a_off a < 2 ^ 32 /\ 0 <= a_size a < 2 ^ 32 /\
  bytes_ok (a_name a) = true /\ zlen (a_name a) = 32 /\ 0 <= a_flags a < 2 ^ 16.
Proof.
  unfold wf_area. intros H.
  repeat (apply andb_true_iff in H as [H ?]). repeat split; try lia; auto.
Qed.

Lemma wf_map_spec m : wf_map m = true ->
  wf_header (f_hdr m) = true /\ header_valid (f_hdr m) = true /\
  forallb wf_area (f_areas m) = true /\ h_nareas (f_hdr m) = zlen (f_areas m).
Proof.
  unfold wf_map. intros H.
  apply andb_true_iff in H as [H H4]. apply andb_true_iff in H as [H H3].
  apply andb_true_iff in H as [H1 H2]. repeat split; auto. lia.
Qed.

Lemma zlen_enc_header h : wf_header h = true -> zlen (enc_header h) = hdr_len.
Proof.
  intros H. apply wf_header_spec in H as (S & _ & _ & _ & _ & _ & N & _).
  unfold enc_header. rewrite !zlen_app, le1, le2, le4, le8, N, S. reflexivity.
Qed.

Lemma zlen_enc_area a : wf_area a = true -> zlen (enc_area a) = area_len.
Proof.
  intros H. apply wf_area_spec in H as (_ & _ & _ & N & _).
  unfold enc_area. rewrite !zlen_app, le2, !le4, N. reflexivity.
Qed.

(* ---- header and area codecs ---- *)

Lemma dec_enc_header h r : wf_header h = true ->
  dec_header (enc_header h ++ r) = Some h.
Proof.
  intros W. pose proof (zlen_enc_header h W) as L.
  apply wf_header_spec in W as (S & V1 & V2 & B & Sz & NO & N & NA).
  unfold dec_header. rewrite zlen_app, L.
  pose proof (zlen_nonneg r).
  replace (hdr_len + zlen r <? hdr_len) with false by lia.
  assert (S8 : zlen (h_sig h) = 8) by (rewrite S; reflexivity).
  destruct h as [sg vmaj vmin base size name nareas]; cbn [h_sig h_vmaj h_vmin h_base h_size h_name h_nareas] in *.
  unfold enc_header; cbn [h_sig h_vmaj h_vmin h_base h_size h_name h_nareas].
  rewrite <- !app_assoc.
  f_equal. f_equal.
  - apply sub_app_here; auto.
  - rewrite (rd_app_skip _ _ 8 1 8) by (auto; lia). simpl Z.sub.
    rewrite rd_app_here by apply le1. apply le_dec_enc. simpl; lia.
  - rewrite (rd_app_skip _ _ 9 1 8) by (auto; lia). simpl Z.sub.
    rewrite (rd_app_skip _ _ 1 1 1) by (try apply le1; lia). simpl Z.sub.
    rewrite rd_app_here by apply le1. apply le_dec_enc. simpl; lia.
  - rewrite (rd_app_skip _ _ 10 8 8) by (auto; lia). simpl Z.sub.
    rewrite (rd_app_skip _ _ 2 8 1) by (try apply le1; lia). simpl Z.sub.
    rewrite (rd_app_skip _ _ 1 8 1) by (try apply le1; lia). simpl Z.sub.
    rewrite rd_app_here by apply le8. apply le_dec_enc. simpl; lia.
  - rewrite (rd_app_skip _ _ 18 4 8) by (auto; lia). simpl Z.sub.
    rewrite (rd_app_skip _ _ 10 4 1) by (try apply le1; lia). simpl Z.sub.
    rewrite (rd_app_skip _ _ 9 4 1) by (try apply le1; lia). simpl Z.sub.
    rewrite (rd_app_skip _ _ 8 4 8) by (try apply le8; lia). simpl Z.sub.
    rewrite rd_app_here by apply le4. apply le_dec_enc. simpl; lia.
  - rewrite (sub_app_skip _ _ 22 32 8) by (auto; lia). simpl Z.sub.
    rewrite (sub_app_skip _ _ 14 32 1) by (try apply le1; lia). simpl Z.sub.
    rewrite (sub_app_skip _ _ 13 32 1) by (try apply le1; lia). simpl Z.sub.
    rewrite (sub_app_skip _ _ 12 32 8) by (try apply le8; lia). simpl Z.sub.
    rewrite (sub_app_skip _ _ 4 32 4) by (try apply le4; lia). simpl Z.sub.
    apply sub_app_here; auto.
  - rewrite (rd_app_skip _ _ 54 2 8) by (auto; lia). simpl Z.sub.
    rewrite (rd_app_skip _ _ 46 2 1) by (try apply le1; lia). simpl Z.sub.
    rewrite (rd_app_skip _ _ 45 2 1) by (try apply le1; lia). simpl Z.sub.
    rewrite (rd_app_skip _ _ 44 2 8) by (try apply le8; lia). simpl Z.sub.
    rewrite (rd_app_skip _ _ 36 2 4) by (try apply le4; lia). simpl Z.sub.
    rewrite (rd_app_skip _ _ 32 2 32) by (auto; lia). simpl Z.sub.
    rewrite rd_app_here by apply le2. apply le_dec_enc. simpl; lia.
Qed.

Lemma dec_enc_area a : wf_area a = true -> dec_area (enc_area a) = a.
Proof.
  intros W. apply wf_area_spec in W as (O & Sz & NO & N & F).
  destruct a as [off size name flags]; cbn [a_off a_size a_name a_flags] in *.
  unfold dec_area, enc_area; cbn [a_off a_size a_name a_flags].
  f_equal.
  - rewrite rd_app_here by apply le4. apply le_dec_enc; simpl; lia.
  - rewrite (rd_app_skip _ _ 4 4 4) by (try apply le4; lia). simpl Z.sub.
    rewrite rd_app_here by apply le4. apply le_dec_enc; simpl; lia.
  - rewrite (sub_app_skip _ _ 8 32 4) by (try apply le4; lia). simpl Z.sub.
    rewrite (sub_app_skip _ _ 4 32 4) by (try apply le4; lia). simpl Z.sub.
    apply sub_app_here; auto.
  - rewrite (rd_app_skip _ _ 40 2 4) by (try apply le4; lia). simpl Z.sub.
    rewrite (rd_app_skip _ _ 36 2 4) by (try apply le4; lia). simpl Z.sub.
    rewrite (rd_app_skip _ _ 32 2 32) by (auto; lia). simpl Z.sub.
    rewrite rd_here_exact by apply le2. apply le_dec_enc; simpl; lia.
Qed.

Lemma dec_enc_areas l r : forallb wf_area l = true ->
  dec_areas (length l) (enc_areas l ++ r) = Some l.
Proof.
  induction l as [|a l IH]; intros W; [reflexivity|].
  cbn [forallb] in W. apply andb_true_iff in W as [Wa Wl].
  cbn [length dec_areas]. unfold enc_areas in *; cbn [map concat].
  pose proof (zlen_enc_area a Wa) as L.
  rewrite <- app_assoc, zlen_app, L.
  pose proof (zlen_nonneg (concat (map enc_area l) ++ r)).
  replace (area_len + zlen (concat (map enc_area l) ++ r) <? area_len) with false by lia.
  rewrite <- L at 1. rewrite zskipn_app_exact. rewrite IH by auto.
  rewrite <- L. rewrite zfirstn_app_exact. rewrite dec_enc_area by auto. reflexivity.
Qed.

(* ---- the scan ---- *)

(* what [scan] returns, stated against [valid_here] at each offset *)
Lemma scan_none_valid b pos :
  (forall j, 0 <= j -> valid_here (zskipn j b) = None) -> scan b pos = Some [].
Proof.
  revert pos; induction b as [|x b IH]; intros pos H; [reflexivity|].
  cbn [scan]. pose proof (H 0 ltac:(lia)) as H0. change (zskipn 0 (x :: b)) with (x :: b) in H0.
  rewrite H0. apply IH. intros j Hj. specialize (H (j + 1) ltac:(lia)).
  unfold zskipn in *. replace (Z.to_nat (j + 1)) with (S (Z.to_nat j)) in H by lia. exact H.
Qed.


(* exactly one valid offset k, with a complete area table *)
Lemma scan_unique b pos k h ars :
  0 <= k ->
  valid_here (zskipn k b) = Some h ->
  dec_areas (Z.to_nat (h_nareas h)) (zskipn hdr_len (zskipn k b)) = Some ars ->
  (forall j, 0 <= j -> j <> k -> valid_here (zskipn j b) = None) ->
  scan b pos = Some [(mkFmap h ars, pos + k)].
Proof.
  revert pos k; induction b as [|x b IH]; intros pos k Hk V D U.
  - unfold zskipn in V. rewrite skipn_nil in V. discriminate.
  - cbn [scan]. destruct (Z.eq_dec k 0) as [->|Hn].
    + change (zskipn 0 (x :: b)) with (x :: b) in V, D. rewrite V, D.
      rewrite scan_none_valid.
      * rewrite Z.add_0_r. reflexivity.
      * intros j Hj. specialize (U (j + 1) ltac:(lia) ltac:(lia)).
        rewrite zskipn_cons_succ in U by lia. exact U.
    + pose proof (U 0 ltac:(lia) ltac:(lia)) as U0. change (zskipn 0 (x :: b)) with (x :: b) in U0.
      rewrite U0.
      replace k with ((k - 1) + 1) in V, D by lia. rewrite zskipn_cons_succ in V, D by lia.
      rewrite (IH (pos + 1) (k - 1) ltac:(lia) V D).
      * do 3 f_equal. lia.
      * intros j Hj Hne. specialize (U (j + 1) ltac:(lia) ltac:(lia)).
        rewrite zskipn_cons_succ in U by lia. exact U.
Qed.

(* soundness of every element reported by scan *)
Lemma scan_sound b pos l : scan b pos = Some l ->
  forall m p, In (m, p) l ->
    pos <= p /\ valid_here (zskipn (p - pos) b) = Some (f_hdr m) /\
    dec_areas (Z.to_nat (h_nareas (f_hdr m))) (zskipn hdr_len (zskipn (p - pos) b)) = Some (f_areas m).
Proof.
  revert pos l; induction b as [|x b IH]; intros pos l H m p I.
  - cbn in H. injection H as <-. destruct I.
  - cbn [scan] in H. destruct (valid_here (x :: b)) as [h|] eqn:V.
    + destruct (dec_areas _ _) as [ars|] eqn:D; [|discriminate].
      destruct (scan b (pos + 1)) as [l'|] eqn:S; [|discriminate].
      injection H as <-. destruct I as [I|I].
      * injection I as <- <-. rewrite Z.sub_diag. cbn [f_hdr f_areas].
        change (zskipn 0 (x :: b)) with (x :: b). repeat split; auto; lia.
      * destruct (IH _ _ S _ _ I) as (P & V' & D').
        replace (p - pos) with ((p - (pos + 1)) + 1) by lia.
        rewrite zskipn_cons_succ by lia. repeat split; auto; lia.
    + destruct (IH _ _ H _ _ I) as (P & V' & D').
      replace (p - pos) with ((p - (pos + 1)) + 1) by lia.
      rewrite zskipn_cons_succ by lia. repeat split; auto; lia.
Qed.

(* completeness: every valid offset is reported (when no table is truncated) *)
Lemma scan_complete b pos l : scan b pos = Some l ->
  forall j h, 0 <= j -> valid_here (zskipn j b) = Some h ->
    exists m, In (m, pos + j) l /\ f_hdr m = h.
Proof.
  revert pos l; induction b as [|x b IH]; intros pos l H j h Hj V.
  - unfold zskipn in V; rewrite skipn_nil in V; discriminate.
  - cbn [scan] in H. destruct (Z.eq_dec j 0) as [->|Hn].
    + change (zskipn 0 (x :: b)) with (x :: b) in V. rewrite V in H.
      destruct (dec_areas _ _) as [ars|]; [|discriminate].
      destruct (scan b (pos + 1)) as [l'|]; [|discriminate].
      injection H as <-. exists (mkFmap h ars). rewrite Z.add_0_r. split; [left|]; reflexivity.
    + replace j with ((j - 1) + 1) in V by lia. rewrite zskipn_cons_succ in V by lia.
      destruct (valid_here (x :: b)) as [h0|].
      * destruct (dec_areas _ _) as [ars|]; [|discriminate].
        destruct (scan b (pos + 1)) as [l'|] eqn:S; [|discriminate].
        injection H as <-. destruct (IH _ _ S (j - 1) h ltac:(lia) V) as (m & I & E).
        exists m. split; auto. right. replace (pos + j) with (pos + 1 + (j - 1)) by lia. exact I.
      * destruct (IH _ _ H (j - 1) h ltac:(lia) V) as (m & I & E).
        exists m. split; auto. replace (pos + j) with (pos + 1 + (j - 1)) by lia. exact I.
Qed.

(* a truncated table at any valid offset makes the scan fail *)
Lemma scan_truncated b pos k h :
  0 <= k -> valid_here (zskipn k b) = Some h ->
  dec_areas (Z.to_nat (h_nareas h)) (zskipn hdr_len (zskipn k b)) = None ->
  scan b pos = None.
Proof.
  revert pos k; induction b as [|x b IH]; intros pos k Hk V D.
  - unfold zskipn in V; rewrite skipn_nil in V; discriminate.
  - cbn [scan]. destruct (Z.eq_dec k 0) as [->|Hn].
    + change (zskipn 0 (x :: b)) with (x :: b) in V, D. rewrite V, D. reflexivity.
    + replace k with ((k - 1) + 1) in V, D by lia. rewrite zskipn_cons_succ in V, D by lia.
      rewrite (IH (pos + 1) (k - 1) ltac:(lia) V D).
      destruct (valid_here (x :: b)) as [h0|];
        [destruct (dec_areas (Z.to_nat (h_nareas h0)) (zskipn hdr_len (x :: b)))|]; reflexivity.
Qed.

(* scan positions are strictly increasing, hence distinct *)
Lemma scan_positions_increasing b pos l : scan b pos = Some l ->
  forall i j m1 p1 m2 p2, (i < j)%nat -> nth_error l i = Some (m1, p1) ->
    nth_error l j = Some (m2, p2) -> p1 < p2.
Proof.
  revert pos l; induction b as [|x b IH]; intros pos l H i j m1 p1 m2 p2 Hij N1 N2.
  - cbn in H. injection H as <-. destruct i; discriminate.
  - cbn [scan] in H. destruct (valid_here (x :: b)) as [h|].
    + destruct (dec_areas _ _) as [ars|]; [|discriminate].
      destruct (scan b (pos + 1)) as [l'|] eqn:S; [|discriminate].
      injection H as <-. destruct j as [|j]; [lia|]. cbn in N2.
      destruct i as [|i].
      * cbn in N1. injection N1 as <- <-.
        apply nth_error_In in N2. destruct (scan_sound _ _ _ S _ _ N2) as (P & _). lia.
      * cbn in N1. apply (IH _ _ S i j m1 p1 m2 p2); auto. lia.
    + apply (IH _ _ H i j m1 p1 m2 p2); auto.
Qed.

(* ---- Read ---- *)

Lemma read_ok_inv data m p : read data = Ok (m, p) ->
  0 <= p /\ valid_here (zskipn p data) = Some (f_hdr m) /\
  dec_areas (Z.to_nat (h_nareas (f_hdr m))) (zskipn hdr_len (zskipn p data)) = Some (f_areas m) /\
  (forall j, 0 <= j -> j <> p -> valid_here (zskipn j data) = None).
Proof.
  unfold read. destruct (scan data 0) as [l|] eqn:S; [|discriminate].
  destruct l as [|[m0 p0] [|]]; try discriminate. intros [= -> ->].
  destruct (scan_sound _ _ _ S m p (or_introl eq_refl)) as (P & V & D).
  rewrite Z.sub_0_r in V, D. repeat split; auto.
  intros j Hj Hne. destruct (valid_here (zskipn j data)) as [h|] eqn:Vj; auto.
  destruct (scan_complete _ _ _ S j h Hj Vj) as (m' & [I|[]] & _).
  injection I as _ E. lia.
Qed.

Lemma read_unique data k h ars :
  0 <= k ->
  valid_here (zskipn k data) = Some h ->
  dec_areas (Z.to_nat (h_nareas h)) (zskipn hdr_len (zskipn k data)) = Some ars ->
  (forall j, 0 <= j -> j <> k -> valid_here (zskipn j data) = None) ->
  read data = Ok (mkFmap h ars, k).
Proof.
  intros. unfold read. rewrite (scan_unique data 0 k h ars) by auto. reflexivity.
Qed.

Lemma read_absent data :
  (forall j, 0 <= j -> valid_here (zskipn j data) = None) -> read data = Err E_NOTFOUND.
Proof. intros H. unfold read. rewrite scan_none_valid by auto. reflexivity. Qed.

Lemma read_truncated data k h :
  0 <= k -> valid_here (zskipn k data) = Some h ->
  dec_areas (Z.to_nat (h_nareas h)) (zskipn hdr_len (zskipn k data)) = None ->
  read data = Err E_EOF.
Proof. intros. unfold read. rewrite (scan_truncated data 0 k h) by auto. reflexivity. Qed.

Lemma read_duplicated data j k hj hk :
  0 <= j -> 0 <= k -> j <> k ->
  valid_here (zskipn j data) = Some hj -> valid_here (zskipn k data) = Some hk ->
  exists e, read data = Err e.
Proof.
  intros Hj Hk Hne Vj Vk. unfold read.
  destruct (scan data 0) as [l|] eqn:S; [|eauto].
  destruct (scan_complete _ _ _ S j hj Hj Vj) as (mj & Ij & _).
  destruct (scan_complete _ _ _ S k hk Hk Vk) as (mk & Ik & _).
  destruct l as [|a [|b l]].
  - destruct Ij.
  - destruct Ij as [Ej|[]]. destruct Ik as [Ek|[]]. rewrite Ej in Ek. injection Ek as _ E. lia.
  - destruct a. eauto.
Qed.

(* a complete map never comes back with the wrong number of areas *)
Lemma dec_areas_length n b l : dec_areas n b = Some l -> length l = n.
Proof.
  revert b l; induction n as [|n IH]; intros b l; cbn [dec_areas].
  - intros [= <-]; reflexivity.
  - destruct (zlen b <? area_len); [discriminate|].
    destruct (dec_areas n _) as [r|] eqn:D; [|discriminate].
    intros [= <-]. cbn [length]. f_equal. eapply IH; eauto.
Qed.

(* ---- Write then Read ---- *)

Lemma valid_here_enc m r : wf_map m = true ->
  valid_here (enc_fmap m ++ r) = Some (f_hdr m).
Proof.
  intros W. apply wf_map_spec in W as (W & H1 & H0 & H).
  pose proof (wf_header_spec _ W) as (S & _).
  unfold valid_here, enc_fmap. rewrite <- app_assoc.
  replace (prefixb fmap_signature (enc_header (f_hdr m) ++ enc_areas (f_areas m) ++ r)) with true.
  - rewrite dec_enc_header by auto. rewrite H1. reflexivity.
  - unfold enc_header. rewrite S, <- !app_assoc. symmetry. apply prefixb_app.
Qed.

Lemma areas_after_enc m r : wf_map m = true ->
  dec_areas (Z.to_nat (h_nareas (f_hdr m))) (zskipn hdr_len (enc_fmap m ++ r)) = Some (f_areas m).
Proof.
  intros W. apply wf_map_spec in W as (W & H1 & H0 & H).
  unfold enc_fmap. rewrite <- app_assoc.
  rewrite <- (zlen_enc_header _ W). rewrite zskipn_app_exact.
  replace (Z.to_nat (h_nareas (f_hdr m))) with (length (f_areas m)) by (unfold zlen in *; lia).
  apply dec_enc_areas; auto.
Qed.

Lemma zskipn_write_at off d img : 0 <= off ->
  exists r, zskipn off (write_at off d img) = d ++ r.
Proof.
  intros Hoff. unfold write_at. pose proof (zlen_nonneg d). pose proof (zlen_nonneg img).
  destruct (off + zlen d <=? zlen img) eqn:E1.
  - unfold splice. exists (zskipn (off + zlen d) img).
    assert (L : zlen (zfirstn off img) = off) by (apply zlen_zfirstn; lia).
    rewrite <- L at 1. apply zskipn_app_exact.
  - destruct (off <=? zlen img) eqn:E2.
    + exists []. rewrite app_nil_r.
      assert (L : zlen (zfirstn off img) = off) by (apply zlen_zfirstn; lia).
      rewrite <- L at 1. apply zskipn_app_exact.
    + exists []. rewrite app_nil_r. rewrite app_assoc.
      assert (L : zlen (img ++ zrepeat 0 (off - zlen img)) = off).
      { rewrite zlen_app. unfold zrepeat, zlen.
        assert (Hr : forall x n, length (repeatz x n) = n) by (intros x n; induction n; simpl; auto).
        rewrite Hr. unfold zlen in *. lia. }
      rewrite <- L at 1. apply zskipn_app_exact.
Qed.

Theorem write_read img m start :
  wf_map m = true -> 0 <= start ->
  (forall j, 0 <= j -> j <> start -> valid_at (write img m start) j = false) ->
  read (write img m start) = Ok (m, start).
Proof.
  intros W Hs U.
  destruct (zskipn_write_at start (enc_fmap m) img Hs) as [r Hr]. fold (write img m start) in Hr.
  assert (Em : m = mkFmap (f_hdr m) (f_areas m)) by (destruct m; reflexivity).
  rewrite Em at 2.
  apply read_unique; auto.
  - rewrite Hr. apply valid_here_enc; auto.
  - rewrite Hr. apply areas_after_enc; auto.
  - intros j Hj Hne. specialize (U j Hj Hne). unfold valid_at in U.
    destruct (valid_here _); [discriminate|reflexivity].
Qed.

(* ---- Read then Write is the identity on the image ---- *)


Lemma enc_dec_header b h : bytes_ok b = true -> dec_header b = Some h ->
  enc_header h = zfirstn hdr_len b /\ zlen b >= hdr_len.
Proof.
  intros OK D. unfold dec_header in D. destruct (zlen b <? hdr_len) eqn:E; [discriminate|].
  injection D as <-. split; [|lia]. unfold enc_header; cbn [h_sig h_vmaj h_vmin h_base h_size h_name h_nareas].
  unfold rd. unfold hdr_len, fmap_header_size in *.
  assert (EE : forall off w, le_enc w (le_dec (sub off (Z.of_nat w) b)) = sub off (Z.of_nat w) b
                 \/ ~ (0 <= off /\ off + Z.of_nat w <= zlen b)).
  { intros off w. destruct (Z_le_dec 0 off); [|right; lia].
    destruct (Z_le_dec (off + Z.of_nat w) (zlen b)); [|right; lia]. left.
    assert (L : length (sub off (Z.of_nat w) b) = w).
    { pose proof (zlen_sub off (Z.of_nat w) b ltac:(lia) ltac:(lia) ltac:(lia)) as Hl.
      unfold zlen in Hl. lia. }
    rewrite <- L at 1. apply le_enc_dec. apply bytes_ok_sub; auto. }
  destruct (EE 8 1%nat) as [->|]; [|simpl in *; lia].
  destruct (EE 9 1%nat) as [->|]; [|simpl in *; lia].
  destruct (EE 10 8%nat) as [->|]; [|simpl in *; lia].
  destruct (EE 18 4%nat) as [->|]; [|simpl in *; lia].
  destruct (EE 54 2%nat) as [->|]; [|simpl in *; lia].
  clear EE. unfold sub.
  (* glue consecutive windows back together *)
  change (Z.of_nat 1) with 1. change (Z.of_nat 2) with 2. change (Z.of_nat 4) with 4. change (Z.of_nat 8) with 8.
  glue b 22 32 2. glue b 18 4 34. glue b 10 8 38. glue b 9 1 46. glue b 8 1 47. glue b 0 8 48.
  reflexivity.
Qed.

Lemma enc_dec_area b : bytes_ok b = true -> zlen b = area_len -> enc_area (dec_area b) = b.
Proof.
  intros OK L. unfold enc_area, dec_area; cbn [a_off a_size a_name a_flags].
  unfold rd. unfold area_len, fmap_area_size in *.
  assert (EE : forall off w, 0 <= off -> off + Z.of_nat w <= zlen b ->
            le_enc w (le_dec (sub off (Z.of_nat w) b)) = sub off (Z.of_nat w) b).
  { intros off w H1 H2.
    assert (Hl : length (sub off (Z.of_nat w) b) = w).
    { pose proof (zlen_sub off (Z.of_nat w) b ltac:(lia) ltac:(lia) ltac:(lia)) as Hl.
      unfold zlen in Hl. lia. }
    rewrite <- Hl at 1. apply le_enc_dec. apply bytes_ok_sub; auto. }
  rewrite (EE 0 4%nat), (EE 4 4%nat), (EE 40 2%nat) by (simpl; lia). clear EE.
  unfold sub.
  change (Z.of_nat 2) with 2. change (Z.of_nat 4) with 4.
  glue b 8 32 2. glue b 4 4 34. glue b 0 4 38.
  change (zskipn 0 b) with b. simpl Z.add. rewrite <- L. unfold zfirstn, zlen. rewrite Nat2Z.id. apply firstn_all.
Qed.

Lemma enc_dec_areas n b l : bytes_ok b = true -> dec_areas n b = Some l ->
  enc_areas l = zfirstn (Z.of_nat n * area_len) b.
Proof.
  revert b l; induction n as [|n IH]; intros b l OK D.
  - cbn in D. injection D as <-. reflexivity.
  - cbn [dec_areas] in D. destruct (zlen b <? area_len) eqn:E; [discriminate|].
    destruct (dec_areas n (zskipn area_len b)) as [r|] eqn:D'; [|discriminate].
    injection D as <-. unfold enc_areas; cbn [map concat]. fold (enc_areas r).
    rewrite (IH _ _ (bytes_ok_skipn _ _ OK) D').
    rewrite enc_dec_area.
    + unfold zfirstn, zskipn. unfold area_len, fmap_area_size in *.
      replace (Z.to_nat (Z.of_nat (S n) * 42)) with (Z.to_nat 42 + Z.to_nat (Z.of_nat n * 42))%nat by lia.
      apply firstn_add_split.
    + apply bytes_ok_firstn; auto.
    + apply zlen_zfirstn. unfold area_len, fmap_area_size in *. lia.
Qed.

Lemma dec_areas_enough n b l : dec_areas n b = Some l -> Z.of_nat n * area_len <= zlen b.
Proof.
  revert b l; induction n as [|n IH]; intros b l D.
  - pose proof (zlen_nonneg b). lia.
  - cbn [dec_areas] in D. destruct (zlen b <? area_len) eqn:E; [discriminate|].
    destruct (dec_areas n (zskipn area_len b)) as [r|] eqn:D'; [|discriminate].
    specialize (IH _ _ D'). unfold area_len, fmap_area_size in *.
    rewrite zlen_zskipn in IH by lia. lia.
Qed.

Theorem read_write_id img m start :
  bytes_ok img = true -> read img = Ok (m, start) -> write img m start = img.
Proof.
  intros OK R. apply read_ok_inv in R as (Hs & V & D & _).
  unfold valid_here in V. destruct (prefixb _ _); [|discriminate].
  destruct (dec_header (zskipn start img)) as [h|] eqn:DH; [|discriminate].
  destruct (header_valid h); [|discriminate]. injection V as ->.
  set (s := zskipn start img) in *.
  assert (OKs : bytes_ok s = true) by (apply bytes_ok_skipn; auto).
  destruct (enc_dec_header _ _ OKs DH) as (EH & LH).
  pose proof (enc_dec_areas _ _ _ (bytes_ok_skipn _ _ OKs) D) as EA.
  pose proof (dec_areas_enough _ _ _ D) as LA.
  set (n := Z.to_nat (h_nareas (f_hdr m))) in *.
  unfold hdr_len, fmap_header_size, area_len, fmap_area_size in *.
  assert (Ls : zlen s <= zlen img) by (unfold s, zlen, zskipn; rewrite skipn_length; lia).
  assert (Hstart : start <= zlen img).
  { destruct (Z_le_dec start (zlen img)); auto. exfalso.
    assert (zlen s = 0) by (unfold s, zlen, zskipn in *; rewrite skipn_length; lia). lia. }
  assert (Ls' : zlen s = zlen img - start) by (unfold s; apply zlen_zskipn; lia).
  rewrite zlen_zskipn in LA by lia.
  assert (EN : enc_fmap m = zfirstn (56 + Z.of_nat n * 42) s).
  { unfold enc_fmap. rewrite EH, EA.
    unfold zfirstn, zskipn.
    replace (Z.to_nat (56 + Z.of_nat n * 42)) with (Z.to_nat 56 + Z.to_nat (Z.of_nat n * 42))%nat by lia.
    apply firstn_add_split. }
  unfold write, write_at. rewrite EN.
  assert (LZ : zlen (zfirstn (56 + Z.of_nat n * 42) s) = 56 + Z.of_nat n * 42)
    by (apply zlen_zfirstn; lia).
  rewrite LZ.
  replace (start + (56 + Z.of_nat n * 42) <=? zlen img) with true by lia.
  change (zfirstn (56 + Z.of_nat n * 42) s) with (sub start (56 + Z.of_nat n * 42) img).
  apply splice_same; lia.
Qed.

(* ---- areas ---- *)

Theorem read_area_exact m img i bs : read_area m img i = Ok bs ->
  exists a, nth_area m i = Some a /\ 0 <= i < h_nareas (f_hdr m) /\
            a_off a + a_size a <= zlen img /\ bs = sub (a_off a) (a_size a) img.
Proof.
  unfold read_area. destruct ((i <? 0) || (h_nareas (f_hdr m) <=? i)) eqn:E; [discriminate|].
  destruct (nth_area m i) as [a|]; [|discriminate].
  unfold read_at. destruct ((a_off a <? zlen img) && (a_off a + a_size a <=? zlen img)) eqn:E2; [|discriminate].
  intros [= <-]. exists a. repeat split; auto; lia.
Qed.

Theorem read_area_total m img i a : wf_map m = true ->
  nth_area m i = Some a -> a_off a < zlen img -> a_off a + a_size a <= zlen img ->
  read_area m img i = Ok (sub (a_off a) (a_size a) img).
Proof.
  intros W N L0 L. apply wf_map_spec in W as (W & H1 & H0 & H).
  unfold read_area. unfold nth_area in *.
  destruct (0 <=? i) eqn:Ei; [|discriminate].
  assert (Hi : (Z.to_nat i < length (f_areas m))%nat) by (apply nth_error_Some; congruence).
  replace ((i <? 0) || (h_nareas (f_hdr m) <=? i)) with false by (unfold zlen in *; lia).
  rewrite N. unfold read_at.
  replace ((a_off a <? zlen img) && (a_off a + a_size a <=? zlen img)) with true by lia. reflexivity.
Qed.

Theorem write_area_refuses_large m img i d a :
  nth_area m i = Some a -> 0 <= i < h_nareas (f_hdr m) -> zlen d < 2 ^ 32 ->
  a_size a < zlen d -> write_area m img i d = Err E_TOOLARGE.
Proof.
  intros N Hi Hd L. unfold write_area.
  replace ((i <? 0) || (h_nareas (f_hdr m) <=? i)) with false by lia. rewrite N.
  pose proof (zlen_nonneg d). rewrite Z.mod_small by lia.
  replace (a_size a <? zlen d) with true by lia. reflexivity.
Qed.

Theorem write_area_confined m img i d img' : write_area m img i d = Ok img' ->
  zlen d < 2 ^ 32 ->
  exists a, nth_area m i = Some a /\ zlen d <= a_size a /\
    (0 <= a_off a -> a_off a + zlen d <= zlen img ->
       zlen img' = zlen img /\ sub (a_off a) (zlen d) img' = d /\
       forall k, (Z.of_nat k < a_off a \/ a_off a + zlen d <= Z.of_nat k) ->
                 nth_error img' k = nth_error img k).
Proof.
  unfold write_area. destruct ((i <? 0) || (h_nareas (f_hdr m) <=? i)); [discriminate|].
  destruct (nth_area m i) as [a|]; [|discriminate].
  intros H Hd. pose proof (zlen_nonneg d). rewrite Z.mod_small in H by lia.
  destruct (a_size a <? zlen d) eqn:E; [discriminate|]. injection H as <-.
  exists a. split; auto. split; [lia|]. intros Ho Hfit. unfold write_at.
  replace (a_off a + zlen d <=? zlen img) with true by lia.
  split; [apply zlen_splice; lia|]. split; [apply sub_splice; lia|].
  intros k [Hk|Hk]; [apply nth_error_splice_lo|apply nth_error_splice_hi]; lia.
Qed.

(* ---- checksum ---- *)

Definition static (a : area) : bool := negb (Z.land (a_flags a) fmap_area_static =? 0).

Lemma checksum_stream_spec m img l i :
  (forall k a, nth_error l k = Some a -> static a = true ->
     read_area m img (i + Z.of_nat k) = Ok (sub (a_off a) (a_size a) img)) ->
  checksum_stream m img l i =
    Ok (concat (map (fun a => sub (a_off a) (a_size a) img) (filter static l))).
Proof.
  revert i; induction l as [|a l IH]; intros i H; [reflexivity|].
  cbn [checksum_stream filter]. unfold static at 1.
  destruct (Z.land (a_flags a) fmap_area_static =? 0) eqn:E; cbn [negb].
  - apply IH. intros k a' N St. specialize (H (Datatypes.S k) a' N St).
    replace (i + 1 + Z.of_nat k) with (i + Z.of_nat (Datatypes.S k)) by lia. exact H.
  - pose proof (H O a eq_refl) as H0. unfold static in H0. rewrite E in H0.
    rewrite Z.add_0_r in H0. rewrite (H0 eq_refl). cbn [bind].
    rewrite IH.
    + reflexivity.
    + intros k a' N St. specialize (H (Datatypes.S k) a' N St).
      replace (i + 1 + Z.of_nat k) with (i + Z.of_nat (Datatypes.S k)) by lia. exact H.
Qed.

Theorem checksum_covers_static_in_order m img : wf_map m = true ->
  (forall a, In a (f_areas m) -> static a = true ->
     a_off a < zlen img /\ a_off a + a_size a <= zlen img) ->
  checksum_input m img =
    Ok (concat (map (fun a => sub (a_off a) (a_size a) img) (filter static (f_areas m)))).
Proof.
  intros W H. unfold checksum_input. apply checksum_stream_spec.
  intros k a N S. rewrite Z.add_0_l. apply read_area_total; auto.
  - unfold nth_area. replace (0 <=? Z.of_nat k) with true by lia. rewrite Nat2Z.id. exact N.
  - apply H; auto. eapply nth_error_In; eauto.
  - apply H; auto. eapply nth_error_In; eauto.
Qed.

(* ---------- the JSON form (jget / jput) ---------- *)

Lemma zrepeat_S x n : 0 <= n -> zrepeat x (1 + n) = x :: zrepeat x n.
Proof.
  intros H. unfold zrepeat. replace (Z.to_nat (1 + n)) with (S (Z.to_nat n)) by lia. reflexivity.
Qed.

Lemma zlen_trim0_le v : zlen (trim0 v) <= zlen v.
Proof.
  induction v as [|x r IH]; [cbn; lia|].
  cbn [trim0]. destruct (trim0 r) as [|y t] eqn:E.
  - destruct (x =? 0); rewrite ?zlen_cons, ?zlen_nil; pose proof (zlen_nonneg r); lia.
  - rewrite !zlen_cons in *. lia.
Qed.

Lemma trim0_pad v : trim0 v ++ zrepeat 0 (zlen v - zlen (trim0 v)) = v.
Proof.
  induction v as [|x r IH]; [reflexivity|].
  pose proof (zlen_trim0_le r) as Hle. pose proof (zlen_nonneg r) as Hr.
  cbn [trim0]. destruct (trim0 r) as [|y t] eqn:E.
  - change (zlen (@nil Z)) with 0 in *. replace (zlen r - 0) with (zlen r) in IH by lia. cbn [app] in IH.
    destruct (x =? 0) eqn:X.
    + apply Z.eqb_eq in X. subst x. rewrite zlen_cons. change (zlen (@nil Z)) with 0.
      replace (1 + zlen r - 0) with (1 + zlen r) by lia. cbn [app].
      rewrite zrepeat_S by lia. rewrite IH. reflexivity.
    + rewrite !zlen_cons. change (zlen (@nil Z)) with 0. replace (1 + zlen r - (1 + 0)) with (zlen r) by lia.
      cbn [app]. rewrite IH. reflexivity.
  - rewrite !zlen_cons in *. replace (1 + zlen r - (1 + (1 + zlen t))) with (zlen r - (1 + zlen t)) by lia.
    cbn [app] in *. rewrite IH. reflexivity.
Qed.

Lemma ascii_trim0 v : ascii v = true -> ascii (trim0 v) = true.
Proof.
  unfold ascii. induction v as [|x r IH]; [reflexivity|].
  cbn [forallb trim0]. intros H. apply andb_true_iff in H as [Hx Hr]. specialize (IH Hr).
  destruct (trim0 r) as [|y t].
  - destruct (x =? 0); [reflexivity|]. cbn [forallb]. rewrite Hx. reflexivity.
  - cbn [forallb] in *. rewrite Hx. exact IH.
Qed.

Lemma json_name_id v : zlen v = 32 -> ascii v = true -> json_name v = Some (Ok v).
Proof.
  intros L A. unfold json_name. rewrite (ascii_trim0 v A). cbn [negb].
  pose proof (zlen_trim0_le v) as Hle.
  replace (32 <? zlen (trim0 v)) with false by lia.
  rewrite <- L at 1. rewrite trim0_pad. reflexivity.
Qed.

Lemma json_areas_id l :
  forallb (fun a => zlen (a_name a) =? 32) l = true -> forallb (fun a => ascii (a_name a)) l = true ->
  json_areas l = Some (Ok l).
Proof.
  induction l as [|a r IH]; [reflexivity|].
  cbn [forallb json_areas]. intros H1 H2.
  apply andb_true_iff in H1 as [L Lr]. apply andb_true_iff in H2 as [A Ar].
  rewrite json_name_id by (auto; lia). rewrite IH by auto. destruct a; reflexivity.
Qed.

(* jget followed by json.Unmarshal gives back the same map when the names are 7-bit *)
Theorem json_map_id m : names32 m = true -> names_ascii m = true -> json_map m = Some (Ok m).
Proof.
  unfold names32, names_ascii, json_map. intros H1 H2.
  apply andb_true_iff in H1 as [L Lr]. apply andb_true_iff in H2 as [A Ar].
  rewrite json_name_id by (auto; lia). rewrite json_areas_id by auto.
  destruct m as [[] ?]; reflexivity.
Qed.

(* a map that was read from an image has 32-byte names *)
Lemma dec_areas_names32 n b l : dec_areas n b = Some l ->
  forallb (fun a => zlen (a_name a) =? 32) l = true.
Proof.
  revert b l. induction n as [|k IH]; intros b l H; cbn [dec_areas] in H.
  - injection H as <-. reflexivity.
  - destruct (zlen b <? area_len) eqn:E; [discriminate|].
    destruct (dec_areas k (zskipn area_len b)) as [r|] eqn:D; [|discriminate].
    injection H as <-. cbn [forallb]. rewrite (IH _ _ D), andb_true_r.
    unfold dec_area. cbn [a_name]. unfold area_len in *.
    assert (Lf : zlen (zfirstn fmap_area_size b) = fmap_area_size).
    { apply zlen_zfirstn. unfold fmap_area_size in *. lia. }
    rewrite zlen_sub; unfold fmap_area_size in *; lia.
Qed.

Lemma read_names32 img m start : read img = Ok (m, start) -> names32 m = true.
Proof.
  intros R. destruct (read_ok_inv _ _ _ R) as (P & V & D & _).
  unfold names32. rewrite (dec_areas_names32 _ _ _ D), andb_true_r.
  unfold valid_here in V.
  destruct (prefixb fmap_signature (zskipn start img)); [|discriminate].
  destruct (dec_header (zskipn start img)) as [h|] eqn:H; [|discriminate].
  destruct (header_valid h); [|discriminate]. injection V as <-.
  unfold dec_header in H. destruct (zlen (zskipn start img) <? hdr_len) eqn:E; [discriminate|].
  injection H as <-. cbn [h_name].
  rewrite zlen_sub; unfold hdr_len, fmap_header_size in *; lia.
Qed.

(* THE statement for the JSON path: jget then jput leaves the image unchanged *)
Theorem json_roundtrip_id img m start :
  bytes_ok img = true -> read img = Ok (m, start) -> names_ascii m = true ->
  json_roundtrip img = Some (Ok img).
Proof.
  intros Ob R A. unfold json_roundtrip. rewrite R.
  rewrite (json_map_id m (read_names32 _ _ _ R) A).
  rewrite (read_write_id img m start Ob R). reflexivity.
Qed.
