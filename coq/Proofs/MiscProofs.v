(* Proofs/MiscProofs.v — totality and allocation bounds of the small parsers of Model/Misc.v. *)
From Fiano Require Import Base.Bytes Base.BytesLemmas Gen.Consts Model.Misc Proofs.TotalBase.
From Coq Require Import ZifyBool ZifyNat.
Open Scope Z_scope.

(* ---- readers ---- *)

Lemma rd_n_total n r : total (rd_n n r).
Proof.
  unfold rd_n. destruct (zlen r =? 0); [apply total_err|].
  destruct (zlen r <? n); [apply total_err|apply total_ok].
Qed.

Lemma rd_n_inv n r h t : rd_n n r = Ok (h, t) ->
  n <= zlen r /\ 0 < zlen r /\ h = zfirstn n r /\ t = zskipn n r.
Proof.
  unfold rd_n. destruct (zlen r =? 0) eqn:E0; [discriminate|].
  destruct (zlen r <? n) eqn:E1; [discriminate|]. intros [= <- <-].
  pose proof (zlen_nonneg r). repeat split; lia.
Qed.

Lemma rd_n_never_panic n r w : rd_n n r <> Panic w.
Proof.
  unfold rd_n. destruct (zlen r =? 0); [discriminate|]. destruct (zlen r <? n); discriminate.
Qed.

Lemma rd_n_never_fuel n r : rd_n n r <> Fuel.
Proof.
  unfold rd_n. destruct (zlen r =? 0); [discriminate|]. destruct (zlen r <? n); discriminate.
Qed.

Lemma rd_u_total n r : total (rd_u n r).
Proof. unfold rd_u. apply total_bind; [apply rd_n_total|]. intros; apply total_ok. Qed.

Lemma rd_u_inv n r v t : rd_u n r = Ok (v, t) -> n <= zlen r /\ 0 < zlen r /\ t = zskipn n r.
Proof.
  unfold rd_u. intros H. apply bind_ok in H as ([h t'] & R & H). injection H as <- <-.
  apply rd_n_inv in R as (A & B & _ & C). auto.
Qed.

Lemma zlen_zskipn_le {A} n (l : list A) : zlen (zskipn n l) <= zlen l.
Proof.
  unfold zlen, zskipn. rewrite skipn_length. lia.
Qed.

Lemma zlen_zskipn_lt {A} n (l : list A) : 0 < n <= zlen l -> zlen (zskipn n l) < zlen l.
Proof. intros H. rewrite zlen_zskipn by lia. lia. Qed.

(* ---- microcode ---- *)

Lemma mc_sigs_loop_total : forall fuel i count r, zlen r < Z.of_nat fuel ->
  total (mc_sigs_loop fuel i count r).
Proof.
  induction fuel as [|f IH]; intros i count r Hf.
  - pose proof (zlen_nonneg r). lia.
  - cbn [mc_sigs_loop]. destruct (count <=? i); [apply total_ok|].
    destruct (rd_n mc_ext_sig_size r) as [[s r1]|e|w|] eqn:R.
    + apply rd_n_inv in R as (A & B & _ & ->). unfold mc_ext_sig_size in *.
      apply total_bind; [|intros; apply total_ok].
      apply IH. pose proof (zlen_zskipn_lt 12 r ltac:(lia)). lia.
    + apply total_err.
    + exfalso. eapply rd_n_never_panic; eauto.
    + exfalso. eapply rd_n_never_fuel; eauto.
Qed.

Lemma mc_checks_total wrap h : total (mc_checks wrap h).
Proof.
  unfold mc_checks. cbv zeta.
  repeat (match goal with |- total (if ?c then _ else _) => destruct c end; try apply total_err).
  apply total_ok.
Qed.

Theorem mc_parse_total b : total (mc_parse b).
Proof.
  unfold mc_parse.
  destruct (rd_n mc_header_size b) as [[h r0]|e|w|] eqn:R.
  - apply total_bind; [apply mc_checks_total|]. intros _ _.
    destruct (zlen r0 <? mc_data_size h); [apply total_err|].
    destruct (negb (sum32 _ =? 0)); [apply total_err|].
    destruct (mc_total_size h <=? _); [apply total_ok|].
    destruct (rd_n mc_ext_table_size _) as [[t r2]|e|w|] eqn:R2.
    + apply total_bind.
      * apply mc_sigs_loop_total. unfold zlen. lia.
      * intros x _. destruct (negb (sum32 _ =? 0)); [apply total_err|apply total_ok].
    + apply total_err.
    + exfalso. eapply rd_n_never_panic; eauto.
    + exfalso. eapply rd_n_never_fuel; eauto.
  - apply total_err.
  - exfalso. eapply rd_n_never_panic; eauto.
  - exfalso. eapply rd_n_never_fuel; eauto.
Qed.

(* the repaired code asks for no more bytes than the input holds ... *)
Theorem mc_alloc_bounded b : mc_alloc b <= zlen b.
Proof.
  unfold mc_alloc. pose proof (zlen_nonneg b).
  destruct (rd_n mc_header_size b) as [[h r0]|e|w|] eqn:R; try lia.
  apply rd_n_inv in R as (A & B & _ & ->).
  destruct (mc_checks false h); try lia.
  pose proof (zlen_zskipn_le mc_header_size b). lia.
Qed.

(* ... the unrepaired code asks for 4 GiB - 16 on a 48-byte input: DataSize + 48 wraps to 32,
   so TotalSize = 32 passes the size check *)
Definition mc_bomb : bytes :=
  [1;0;0;0] ++ zrepeat 0 16 ++ [1;0;0;0] ++ zrepeat 0 4 ++ [240;255;255;255] ++ [32;0;0;0] ++ zrepeat 0 12.

Theorem mc_alloc_orig_refuted :
  exists b, bytes_ok b = true /\ zlen b = 48 /\ mc_alloc_orig b = 2 ^ 32 - 16.
Proof. exists mc_bomb. vm_compute. repeat split; reflexivity. Qed.

(* the same input is refused by the repaired size check *)
Lemma mc_bomb_refused : mc_parse mc_bomb = Err MC_SIZE /\ mc_alloc mc_bomb = 0.
Proof. vm_compute. split; reflexivity. Qed.

(* a successful parse read every byte it reports from the input *)
Theorem mc_parse_ok_bounded b m : mc_parse b = Ok m ->
  zlen (mc_hdr m) + zlen (mc_data m) <= zlen b.
Proof.
  unfold mc_parse.
  destruct (rd_n mc_header_size b) as [[h r0]|e|w|] eqn:R; try discriminate.
  apply rd_n_inv in R as (A & B & -> & ->). unfold mc_header_size in *.
  destruct (mc_checks false _) as [u| | |] eqn:C; cbn [bind]; try discriminate.
  set (h := zfirstn 48 b) in *. set (r0 := zskipn 48 b) in *.
  destruct (zlen r0 <? mc_data_size h) eqn:L; [discriminate|].
  assert (D0 : 0 <= mc_data_size h).
  { unfold mc_checks in C. cbv zeta in C.
    unfold mc_data_size in *. destruct (0 <? mc_datasize_f h) eqn:P; [lia|]. unfold mc_default_datasize. lia. }
  assert (Hh : zlen h = 48) by (unfold h; apply zlen_zfirstn; lia).
  assert (Hr : zlen r0 = zlen b - 48) by (unfold r0; apply zlen_zskipn; lia).
  assert (Hd : zlen (zfirstn (mc_data_size h) r0) = mc_data_size h) by (apply zlen_zfirstn; lia).
  destruct (negb (sum32 _ =? 0)); [discriminate|].
  destruct (mc_total_size h <=? _).
  - intros [= <-]. cbn [mc_hdr mc_data]. lia.
  - destruct (rd_n mc_ext_table_size _) as [[t r2]|e|w|]; try discriminate.
    destruct (mc_sigs_loop _ _ _ _) as [x| | |]; cbn [bind]; try discriminate.
    destruct (negb (sum32 _ =? 0)); [discriminate|].
    intros [= <-]. cbn [mc_hdr mc_data]. lia.
Qed.

(* ---- ME partition table ---- *)

Lemma me_entries_total : forall fuel i count r, zlen r < Z.of_nat fuel ->
  total (me_entries fuel i count r).
Proof.
  induction fuel as [|f IH]; intros i count r Hf.
  - pose proof (zlen_nonneg r). lia.
  - cbn [me_entries]. destruct (count <=? i); [apply total_ok|].
    apply total_bind; [apply rd_n_total|]. intros [e r1] R. cbn [fst snd].
    apply rd_n_inv in R as (A & B & _ & ->). unfold me_entry_size in *.
    apply total_bind; [|intros; apply total_ok].
    apply IH. pose proof (zlen_zskipn_lt 32 r ltac:(lia)). lia.
Qed.

Lemma me_common_total r : total (me_common r).
Proof.
  unfold me_common.
  repeat (apply total_bind; [apply rd_u_total|intros ? _]). apply total_ok.
Qed.

Lemma me_new_header_total r : total (me_new_header r).
Proof.
  unfold me_new_header. apply total_bind; [apply me_common_total|].
  intros [[[[[[[[[n a] b0] c] d] ti] to] u] f] r1] _.
  repeat (apply total_bind; [apply rd_u_total|intros ? _]). apply total_ok.
Qed.

Lemma me_legacy_header_total r : total (me_legacy_header r).
Proof.
  unfold me_legacy_header.
  apply total_bind; [apply rd_n_total|intros ? _].
  apply total_bind; [apply rd_n_total|intros ? _].
  apply total_bind; [apply me_common_total|].
  intros [[[[[[[[[n1 a1] b1] c1] d1] ti1] to1] u1] f1] r1] _. apply total_ok.
Qed.

Theorem me_parse_total b : total (me_parse b).
Proof.
  unfold me_parse. apply total_bind; [apply rd_n_total|]. intros mk _.
  apply total_bind.
  { destruct (bytes_eqb _ _); [apply me_new_header_total|apply me_legacy_header_total]. }
  intros h _. apply total_bind; [|intros; apply total_ok].
  apply me_entries_total. unfold zlen. lia.
Qed.

(* the partition list is paid for by input bytes: 32 per entry (work and memory bounded) *)
Lemma me_entries_len : forall fuel i count r es, me_entries fuel i count r = Ok es ->
  me_entry_size * zlen es <= zlen r.
Proof.
  induction fuel as [|f IH]; intros i count r es; cbn [me_entries].
  - destruct (count <=? i); [|discriminate]. intros [= <-]. pose proof (zlen_nonneg r).
    change (zlen (@nil bytes)) with 0. lia.
  - destruct (count <=? i).
    + intros [= <-]. pose proof (zlen_nonneg r). change (zlen (@nil bytes)) with 0. lia.
    + intros H. apply bind_ok in H as ([e r1] & R & H). cbn [fst snd] in H.
      apply bind_ok in H as (rest & Rec & H). injection H as <-.
      apply rd_n_inv in R as (A & B & _ & ->). apply IH in Rec.
      unfold me_entry_size in *. rewrite zlen_cons.
      rewrite zlen_zskipn in Rec by lia. lia.
Qed.


(* every reader returns a suffix: lengths only shrink *)
Lemma rd_u_len n r v t : rd_u n r = Ok (v, t) -> zlen t <= zlen r.
Proof. intros H. apply rd_u_inv in H as (_ & _ & ->). apply zlen_zskipn_le. Qed.

Lemma rd_n_len n r h t : rd_n n r = Ok (h, t) -> zlen t <= zlen r.
Proof. intros H. apply rd_n_inv in H as (_ & _ & _ & ->). apply zlen_zskipn_le. Qed.

Lemma me_common_len r x : me_common r = Ok x -> zlen (snd x) <= zlen r.
Proof.
  unfold me_common. intros H.
  repeat (apply bind_ok in H as ([? ?] & ?R & H); cbn [fst snd] in H).
  injection H as <-. cbn [snd].
  repeat match goal with R : rd_u _ _ = Ok _ |- _ => apply rd_u_len in R end. lia.
Qed.

Lemma me_new_header_len r h t : me_new_header r = Ok (h, t) -> zlen t <= zlen r.
Proof.
  unfold me_new_header. intros H. apply bind_ok in H as (x & C & H).
  apply me_common_len in C.
  destruct x as [[[[[[[[[n a] b0] c] d] ti] to] u] f] r1]. cbn [snd] in C.
  repeat (apply bind_ok in H as ([? ?] & ?R & H); cbn [fst snd] in H).
  injection H as _ <-.
  repeat match goal with R : rd_u _ _ = Ok _ |- _ => apply rd_u_len in R end. lia.
Qed.

Lemma me_legacy_header_len r h t : me_legacy_header r = Ok (h, t) -> zlen t <= zlen r.
Proof.
  unfold me_legacy_header. intros H.
  apply bind_ok in H as ([s0 r0] & R0 & H). cbn [fst snd] in H.
  apply bind_ok in H as ([s1 r1] & R1 & H). cbn [fst snd] in H.
  apply bind_ok in H as (x & C & H). apply me_common_len in C.
  destruct x as [[[[[[[[[n a] b0] c] d] ti] to] u] f] r2]. cbn [snd] in C.
  injection H as _ <-. apply rd_n_len in R0. apply rd_n_len in R1. lia.
Qed.

Theorem me_parse_bounded b h es : me_parse b = Ok (h, es) -> me_entry_size * zlen es <= zlen b.
Proof.
  unfold me_parse. intros H.
  apply bind_ok in H as ([mk r0] & R0 & H). cbn [fst snd] in H.
  apply bind_ok in H as ([h' r1] & Hh & H). cbn [fst snd] in H.
  apply bind_ok in H as (es' & E & H). injection H as <- <-.
  apply me_entries_len in E. apply rd_n_len in R0.
  assert (zlen r1 <= zlen r0).
  { destruct (bytes_eqb mk me_signature);
      [eapply me_new_header_len|eapply me_legacy_header_len]; eauto. }
  lia.
Qed.

(* ---- FSP info header ---- *)

Theorem fsp_parse_total b : total (fsp_parse b).
Proof.
  unfold fsp_parse. cbv zeta.
  repeat (match goal with |- total (if ?c then _ else _) => destruct c end; try apply total_err);
    apply total_ok.
Qed.

(* no slice of the header reaches beyond the input: a success needs the whole wire size *)
Theorem fsp_parse_ok_len b h : fsp_parse b = Ok h -> fsp_rev3_wire <= zlen b.
Proof.
  unfold fsp_parse. cbv zeta.
  destruct (zlen b <? fsp_fixed_len); [discriminate|].
  destruct (negb _); [discriminate|]. destruct (_ || _); [discriminate|].
  destruct (rd 11 1 b <? fsp_min_rev); [discriminate|].
  destruct (rd 4 4 b <? _); [discriminate|].
  destruct (zlen b <? _) eqn:L; [discriminate|]. intros _.
  unfold fsp_rev6_wire, fsp_rev5_wire, fsp_rev3_wire in *.
  destruct (6 <=? rd 11 1 b); [lia|]. destruct (5 <=? rd 11 1 b); lia.
Qed.

(* ---- allocation ledgers ---- *)

Lemma rd_nonneg' off w b : bytes_ok b = true -> 0 <= rd off w b.
Proof.
  intros OK. unfold rd. apply le_dec_bound. apply bytes_ok_sub. exact OK.
Qed.

Theorem key_alloc_bounded blob : bytes_ok blob = true -> key_alloc blob <= zlen blob.
Proof.
  intros OK. unfold key_alloc, key_alloc_gen. cbv zeta. pose proof (zlen_nonneg blob).
  destruct (zlen blob <? 64) eqn:L; [lia|].
  pose proof (rd_nonneg' 56 4 blob OK) as E. pose proof (rd_nonneg' 60 4 blob OK) as M.
  set (es := rd 56 4 blob) in *. set (ms := rd 60 4 blob) in *.
  assert (0 <= es / 8) by (apply Z.div_pos; lia).
  assert (0 <= ms / 8) by (apply Z.div_pos; lia).
  destruct (negb (es mod 8 =? 0)); [lia|]. cbn [andb].
  destruct (zlen blob - 64 <? es / 8) eqn:A; [lia|].
  destruct (negb (ms mod 8 =? 0)); [lia|].
  destruct (zlen blob - 64 - es / 8 <? ms / 8) eqn:B; lia.
Qed.

(* the unrepaired code: a 68-byte blob announcing a 2^32-8 bit modulus makes it request 512 MiB *)
Definition key_bomb : bytes :=
  zrepeat 0 56 ++ [0;0;0;0] ++ [248;255;255;255] ++ zrepeat 0 4.

Theorem key_alloc_orig_refuted :
  exists blob, bytes_ok blob = true /\ zlen blob = 68 /\ key_alloc_orig blob = 2 ^ 29 - 1.
Proof. exists key_bomb. vm_compute. repeat split; reflexivity. Qed.

Lemma key_bomb_fixed : key_alloc key_bomb = 0.
Proof. vm_compute. reflexivity. Qed.

Theorem read_area_alloc_bounded imglen off size : 0 <= imglen -> 0 <= off ->
  read_area_alloc imglen off size <= 2 * imglen + 4096.
Proof. intros. unfold read_area_alloc. cbv zeta. lia. Qed.

Theorem read_area_alloc_orig_refuted :
  exists imglen off size, imglen = 100 /\ read_area_alloc_orig imglen off size = 2 ^ 32 - 1.
Proof. exists 100, 0, (2 ^ 32 - 1). split; reflexivity. Qed.

(* ---- FIT startup ACM data ---- *)

Theorem sacm_parse_size_total b : total (sacm_parse_size b).
Proof.
  unfold sacm_parse_size, fit_sacm_size_offset.
  destruct (24 >=? zlen b - 4) eqn:G; [apply total_err|].
  destruct (zlen b <? 24) eqn:A; [exfalso; lia|].
  destruct (zlen b - 24 <? 4) eqn:B; [exfalso; lia|].
  apply total_ok.
Qed.

Theorem sacm_parse_total b : total (sacm_parse b).
Proof.
  unfold sacm_parse. cbv zeta.
  destruct (zlen b <? sacm_common_size); [apply total_err|].
  destruct (sacm_version _) as [[rest key]|]; [|apply total_err].
  repeat (match goal with |- total (if ?c then _ else _) => destruct c end; try apply total_err);
    apply total_ok.
Qed.

(* the user area handed back is a piece of the input: no more bytes than the input holds *)
Theorem sacm_parse_user_bounded b s : sacm_parse b = Ok s -> zlen (sacm_user s) <= zlen b.
Proof.
  unfold sacm_parse. cbv zeta.
  destruct (zlen b <? sacm_common_size) eqn:L; [discriminate|].
  destruct (sacm_version _) as [[rest key]|]; [|discriminate].
  destruct (negb _); [discriminate|].
  destruct (zlen (zskipn sacm_common_size b) <? rest); [discriminate|].
  destruct (sacm_common_size + rest <? _) eqn:S.
  - destruct (zlen (zskipn rest (zskipn sacm_common_size b)) <? _) eqn:U; [discriminate|].
    intros E. injection E as <-. cbn [sacm_user].
    unfold zfirstn, zlen. rewrite firstn_length.
    unfold zskipn. rewrite !skipn_length. lia.
  - intros E. injection E as <-. cbn [sacm_user]. unfold zlen. cbn. lia.
Qed.
