(* Proofs/EditProofs.v — lemmas about Model/Edit.v (property C03, and the edit half of C02). *)
From Fiano Require Import Base.Bytes Base.BytesLemmas Gen.Consts Model.Ffs Model.Edit.
From Coq Require Import ZifyBool ZifyNat.
Open Scope Z_scope.

(* ---------- induction over the tree ---------- *)

Section NodeInd.
Variable P : node -> Prop.
Hypothesis Hsec : forall h buf kids, Forall P kids -> P (NSec h buf kids).
Hypothesis Hfile : forall h buf kids, Forall P kids -> P (NFile h buf kids).
Hypothesis Hvol : forall h buf kids, Forall P kids -> P (NVol h buf kids).
Hypothesis Hpad : forall off buf, P (NPad off buf).

Fixpoint node_ind' (n : node) : P n :=
  let all := fix all (l : list node) : Forall P l :=
    match l with
    | [] => Forall_nil P
    | x :: r => Forall_cons x (node_ind' x) (all r)
    end in
  match n with
  | NSec h buf kids => Hsec h buf kids (all kids)
  | NFile h buf kids => Hfile h buf kids (all kids)
  | NVol h buf kids => Hvol h buf kids (all kids)
  | NPad off buf => Hpad off buf
  end.
End NodeInd.

(* ---------- pkg/guid: the text form parses back ---------- *)

Lemma hexdigit_facts : forall v, 0 <= v < 16 ->
  hexval (hexdigit v) = Some v /\ (hexdigit v =? 45) = false.
Proof.
  intros v Hv.
  assert (H : forallb (fun v => match hexval (hexdigit v) with Some w => w =? v | None => false end
                               && negb (hexdigit v =? 45))
                      (map Z.of_nat (seq 0 16)) = true) by (vm_compute; reflexivity).
  rewrite forallb_forall in H.
  specialize (H v). assert (Hin : In v (map Z.of_nat (seq 0 16))).
  { apply in_map_iff. exists (Z.to_nat v). split; [lia|]. apply in_seq. lia. }
  specialize (H Hin). apply andb_true_iff in H as [H1 H2].
  destruct (hexval (hexdigit v)) as [w|]; [|discriminate].
  split; [f_equal; lia | destruct (hexdigit v =? 45); [discriminate | reflexivity]].
Qed.

Lemma hex_decode_hex2 b r : 0 <= b < 256 ->
  hex_decode (hex2 b ++ r) = match hex_decode r with Some t => Some (b :: t) | None => None end.
Proof.
  intros Hb. unfold hex2. cbn [app hex_decode].
  assert (H1 : 0 <= b / 16 < 16) by (split; [apply Z.div_pos; lia | apply Z.div_lt_upper_bound; lia]).
  assert (H2 : 0 <= b mod 16 < 16) by (apply Z.mod_pos_bound; lia).
  destruct (hexdigit_facts _ H1) as [E1 _]. destruct (hexdigit_facts _ H2) as [E2 _].
  rewrite E1, E2. destruct (hex_decode r); auto.
  f_equal. f_equal. pose proof (Z.div_mod b 16). lia.
Qed.

Lemma hex_decode_hexs l : bytes_ok l = true -> hex_decode (hexs l) = Some l.
Proof.
  induction l as [|b r IH]; intros H; [reflexivity|].
  rewrite bytes_ok_cons in H. apply andb_true_iff in H as [Hb Hr]. apply byte_ok_iff in Hb.
  unfold hexs. cbn [flat_map]. rewrite hex_decode_hex2 by lia.
  fold (hexs r). rewrite (IH Hr). reflexivity.
Qed.

Definition nothyphen (c : Z) : bool := negb (c =? 45).

Lemma filter_hexs l : bytes_ok l = true -> filter nothyphen (hexs l) = hexs l.
Proof.
  induction l as [|b r IH]; intros H; [reflexivity|].
  rewrite bytes_ok_cons in H. apply andb_true_iff in H as [Hb Hr]. apply byte_ok_iff in Hb.
  unfold hexs. cbn [flat_map]. unfold hex2 at 1. cbn [app filter].
  assert (H1 : 0 <= b / 16 < 16) by (split; [apply Z.div_pos; lia | apply Z.div_lt_upper_bound; lia]).
  assert (H2 : 0 <= b mod 16 < 16) by (apply Z.mod_pos_bound; lia).
  destruct (hexdigit_facts _ H1) as [_ E1]. destruct (hexdigit_facts _ H2) as [_ E2].
  unfold nothyphen at 1 2. rewrite E1, E2. cbn [negb].
  fold (hexs r). rewrite (IH Hr). reflexivity.
Qed.

Lemma hexs_app a b : hexs (a ++ b) = hexs a ++ hexs b.
Proof. unfold hexs. apply flat_map_app. Qed.

Lemma guid_swap_explicit a0 a1 a2 a3 b0 b1 c0 c1 d0 d1 d2 d3 d4 d5 d6 d7 :
  guid_swap [a0; a1; a2; a3; b0; b1; c0; c1; d0; d1; d2; d3; d4; d5; d6; d7]
  = [a3; a2; a1; a0; b1; b0; c1; c0; d0; d1; d2; d3; d4; d5; d6; d7].
Proof. reflexivity. Qed.

Lemma guid_text_roundtrip_lemma : forall g,
  length g = 16%nat -> bytes_ok g = true -> guid_parse (guid_string g) = Some g.
Proof.
  intros g Hl Hok.
  do 16 (destruct g as [|? g]; [discriminate Hl|]). destruct g; [|discriminate Hl]. clear Hl.
  unfold guid_parse, guid_string. rewrite guid_swap_explicit.
  unfold bytes_ok in Hok. cbn [forallb] in Hok.
  repeat (apply andb_true_iff in Hok; destruct Hok as [? Hok]). clear Hok.
  Ltac ok_list := unfold bytes_ok; cbn [forallb]; repeat (apply andb_true_iff; split; [assumption|]); reflexivity.
  set (u := [z2; z1; z0; z; z4; z3; z6; z5; z7; z8; z9; z10; z11; z12; z13; z14]).
  assert (Hu : bytes_ok u = true) by (unfold u; ok_list).
  change (sub 0 4 u) with [z2; z1; z0; z].
  change (sub 4 2 u) with [z4; z3].
  change (sub 6 2 u) with [z6; z5].
  change (sub 8 2 u) with [z7; z8].
  change (sub 10 6 u) with [z9; z10; z11; z12; z13; z14].
  change (fun c : Z => negb (c =? 45)) with nothyphen.
  assert (Hs : forall l, bytes_ok l = true -> forall r, filter nothyphen (hexs l ++ 45 :: r) = hexs l ++ filter nothyphen r).
  { intros l Hl r. rewrite filter_app, filter_hexs; auto. }
  change ([45] ++ ?r) with (45 :: r).
  rewrite (Hs [z2; z1; z0; z]) by ok_list.
  change ([45] ++ ?r) with (45 :: r).
  rewrite (Hs [z4; z3]) by ok_list.
  change ([45] ++ ?r) with (45 :: r).
  rewrite (Hs [z6; z5]) by ok_list.
  change ([45] ++ ?r) with (45 :: r).
  rewrite (Hs [z7; z8]) by ok_list.
  rewrite filter_hexs by ok_list.
  rewrite <- !hexs_app.
  change ([z2; z1; z0; z] ++ [z4; z3] ++ [z6; z5] ++ [z7; z8] ++ [z9; z10; z11; z12; z13; z14]) with u.
  rewrite hex_decode_hexs by exact Hu.
  change (zlen u =? 16) with true. cbv iota. unfold u. rewrite guid_swap_explicit. reflexivity.
Qed.

Lemma guid_string_inj_lemma : forall g g',
  length g = 16%nat -> bytes_ok g = true -> length g' = 16%nat -> bytes_ok g' = true ->
  guid_string g = guid_string g' -> g = g'.
Proof.
  intros g g' H1 H2 H3 H4 E.
  pose proof (guid_text_roundtrip_lemma g H1 H2) as A.
  pose proof (guid_text_roundtrip_lemma g' H3 H4) as B.
  rewrite E in A. rewrite A in B. congruence.
Qed.

(* ---------- Find: what Matches holds ---------- *)

Definition is_filen (n : node) : bool := match n with NFile _ _ _ => true | _ => false end.
Definition is_voln (n : node) : bool := match n with NVol _ _ _ => true | _ => false end.
Definition nfiles (l : list node) : nat := length (filter is_filen l).
Definition nvols (l : list node) : nat := length (filter is_voln l).

(* number of files (anywhere in the tree) that Find puts into Matches / of matching volumes *)
Fixpoint cf (s : sel) (n : node) {struct n} : nat :=
  match n with
  | NFile h b kids => (if fmatch s n then 1 else 0) + list_sum (map (cf s) kids)
  | NSec _ _ kids => list_sum (map (cf s) kids)
  | NVol _ _ kids => list_sum (map (cf s) kids)
  | NPad _ _ => 0
  end.
Fixpoint cv (s : sel) (n : node) {struct n} : nat :=
  match n with
  | NVol h _ kids => (if pred_fv s h then 1 else 0) + list_sum (map (cv s) kids)
  | NFile _ _ kids => list_sum (map (cv s) kids)
  | NSec _ _ kids => list_sum (map (cv s) kids)
  | NPad _ _ => 0
  end.
Definition cfl s (l : list node) : nat := list_sum (map (cf s) l).
Definition cvl s (l : list node) : nat := list_sum (map (cv s) l).

Definition cur_ok (cur : option node) : Prop :=
  match cur with Some f => is_filen f = true | None => True end.
Definition is_some {A} (o : option A) : bool := match o with Some _ => true | None => false end.
Definition b2n (b : bool) : nat := if b then 1%nat else 0%nat.

Lemma nfiles_app a b : nfiles (a ++ b) = (nfiles a + nfiles b)%nat.
Proof. unfold nfiles. rewrite filter_app, app_length. reflexivity. Qed.
Lemma nvols_app a b : nvols (a ++ b) = (nvols a + nvols b)%nat.
Proof. unfold nvols. rewrite filter_app, app_length. reflexivity. Qed.

Definition find_post (s : sel) (hits : bool) (nf nv : nat) (cur : option node)
  (r : list node * option node) : Prop :=
  nfiles (fst r) = (nf + b2n (is_some cur && hits))%nat /\
  nvols (fst r) = nv /\
  snd r = (if hits then None else cur) /\
  Forall (fun m => is_filen m || is_voln m = true) (fst r).

Lemma find_list_post s l :
  Forall (fun n => forall cur, cur_ok cur ->
            find_post s (sec_hits s n) (cf s n) (cv s n) cur (find_node s n cur)) l ->
  forall cur, cur_ok cur ->
    find_post s (existsb (sec_hits s) l) (cfl s l) (cvl s l) cur (find_list s l cur).
Proof.
  induction 1 as [|x r Hx Hr IH]; intros cur Hc.
  - cbn. unfold find_post. cbn. rewrite andb_false_r. repeat split; auto.
  - cbn [find_list existsb]. specialize (Hx cur Hc).
    destruct (find_node s x cur) as [m1 c1] eqn:E1.
    destruct Hx as (A1 & A2 & A3 & A4). cbn [fst snd] in *.
    assert (Hc1 : cur_ok c1) by (subst c1; destruct (sec_hits s x); [exact I | exact Hc]).
    specialize (IH c1 Hc1). destruct (find_list s r c1) as [m2 c2] eqn:E2.
    destruct IH as (B1 & B2 & B3 & B4). cbn [fst snd] in *.
    unfold find_post. cbn [fst snd]. unfold cfl, cvl in *. cbn [map list_sum].
    rewrite nfiles_app, nvols_app, A1, A2, B1, B2.
    repeat split.
    + subst c1. unfold list_sum. destruct (sec_hits s x), (existsb (sec_hits s) r), cur; cbn; lia.
    + subst c2 c1. destruct (sec_hits s x), (existsb (sec_hits s) r); reflexivity.
    + apply Forall_app; auto.
Qed.

Lemma nfiles_one f : is_filen f = true -> nfiles [f] = 1%nat.
Proof. intros H. unfold nfiles. cbn [filter]. rewrite H. reflexivity. Qed.
Lemma nvols_file f : is_filen f = true -> nvols [f] = 0%nat.
Proof. destruct f; try discriminate. reflexivity. Qed.

Lemma find_node_post s : forall n cur, cur_ok cur ->
  find_post s (sec_hits s n) (cf s n) (cv s n) cur (find_node s n cur).
Proof.
  induction n as [h buf kids IH | h buf kids IH | h buf kids IH | off buf] using node_ind'; intros cur Hc.
  - (* section *)
    change (find_node s (NSec h buf kids) cur) with
      (let hit := match cur with Some _ => pred_sec s h | None => false end in
       let m := if hit then match cur with Some f => [f] | None => [] end else [] in
       let '(m2, c2) := find_list s kids (if hit then None else cur) in (m ++ m2, c2)).
    cbv zeta.
    set (hit := match cur with Some _ => pred_sec s h | None => false end).
    assert (Hc' : cur_ok (if hit then None else cur)) by (destruct hit; [exact I | exact Hc]).
    pose proof (find_list_post s kids IH _ Hc') as Hl.
    destruct (find_list s kids (if hit then None else cur)) as [m2 c2].
    destruct Hl as (B1 & B2 & B3 & B4). cbn [fst snd] in *.
    unfold find_post. cbn [fst snd sec_hits cf cv]. fold (cfl s kids) (cvl s kids).
    rewrite nfiles_app, nvols_app, B1, B2. subst c2.
    destruct cur as [f|]; cbn in Hc; subst hit.
    + destruct (pred_sec s h); cbn [orb is_some andb b2n].
      * rewrite (nfiles_one f Hc), (nvols_file f Hc).
        repeat split; auto; try lia.
        -- destruct (existsb (sec_hits s) kids); reflexivity.
        -- constructor; auto. rewrite Hc. reflexivity.
      * repeat split; auto.
    + cbn [is_some andb b2n]. repeat split; auto.
      destruct (pred_sec s h || existsb (sec_hits s) kids), (existsb (sec_hits s) kids); reflexivity.
  - (* file *)
    change (find_node s (NFile h buf kids) cur) with
      (let hit := pred_file s h in
       let '(m2, _) := find_list s kids (if hit then None else Some (NFile h buf kids)) in
       ((if hit then [NFile h buf kids] else []) ++ m2, cur)).
    cbv zeta.
    assert (Hc' : cur_ok (if pred_file s h then None else Some (NFile h buf kids)))
      by (destruct (pred_file s h); [exact I | reflexivity]).
    pose proof (find_list_post s kids IH _ Hc') as Hl.
    destruct (find_list s kids (if pred_file s h then None else Some (NFile h buf kids))) as [m2 c2].
    destruct Hl as (B1 & B2 & B3 & B4). cbn [fst snd] in *.
    unfold find_post. cbn [fst snd sec_hits cf cv fmatch]. fold (cfl s kids) (cvl s kids).
    rewrite nfiles_app, nvols_app, B1, B2. rewrite andb_false_r.
    destruct (pred_file s h); cbn [orb is_some andb b2n].
    + rewrite nfiles_one, nvols_file by reflexivity.
      repeat split; auto; try lia. constructor; auto.
    + repeat split; auto.
      unfold nfiles at 1. cbn [filter length]. destruct (existsb (sec_hits s) kids); cbn; lia.
  - (* volume *)
    change (find_node s (NVol h buf kids) cur) with
      (let '(m2, c2) := find_list s kids cur in
       ((if pred_fv s h then [NVol h buf kids] else []) ++ m2, c2)).
    pose proof (find_list_post s kids IH _ Hc) as Hl.
    destruct (find_list s kids cur) as [m2 c2].
    destruct Hl as (B1 & B2 & B3 & B4). cbn [fst snd] in *.
    unfold find_post. cbn [fst snd sec_hits cf cv]. fold (cfl s kids) (cvl s kids).
    rewrite nfiles_app, nvols_app, B1, B2.
    destruct (pred_fv s h); repeat split; auto; try (cbn; lia).
    constructor; auto.
  - cbn. unfold find_post. cbn. rewrite andb_false_r. repeat split; auto.
Qed.

(* Matches of Find.Run: as many files as [cf] counts, as many volumes as [cv] counts, nothing else *)
Lemma find_elems_counts s elems :
  nfiles (find_elems s elems) = cfl s elems /\ nvols (find_elems s elems) = cvl s elems /\
  Forall (fun m => is_filen m || is_voln m = true) (find_elems s elems).
Proof.
  unfold find_elems.
  assert (H : Forall (fun n => forall cur, cur_ok cur ->
             find_post s (sec_hits s n) (cf s n) (cv s n) cur (find_node s n cur)) elems).
  { apply Forall_forall. intros n _. apply find_node_post. }
  pose proof (find_list_post s elems H None I) as (A & B & _ & D).
  cbn [is_some andb b2n] in A. rewrite Nat.add_0_r in A. auto.
Qed.

Lemma len_files_vols l : Forall (fun m => is_filen m || is_voln m = true) l ->
  length l = (nfiles l + nvols l)%nat.
Proof.
  induction 1 as [|m r Hm Hr IH]; [reflexivity|].
  unfold nfiles, nvols in *. cbn [filter length].
  destruct m; cbn in Hm |- *; try discriminate; lia.
Qed.

Lemma find_count_lemma s elems :
  length (find_elems s elems) = (cfl s elems + cvl s elems)%nat.
Proof.
  destruct (find_elems_counts s elems) as (A & B & C).
  rewrite (len_files_vols _ C), A, B. reflexivity.
Qed.

(* ---------- generic list facts ---------- *)

Lemma list_sum_cons a l : list_sum (a :: l) = (a + list_sum l)%nat.
Proof. reflexivity. Qed.

Lemma list_sum_map_zero {A} (g : A -> nat) l :
  list_sum (map g l) = 0%nat -> Forall (fun x => g x = 0%nat) l.
Proof.
  induction l as [|x r IH]; intros H; [constructor|]. cbn [map] in H. rewrite list_sum_cons in H.
  constructor; [lia | apply IH; lia].
Qed.

Lemma list_sum_map_one {A} (g : A -> nat) l :
  list_sum (map g l) = 1%nat ->
  exists l1 x l2, l = l1 ++ x :: l2 /\ g x = 1%nat /\
                  Forall (fun y => g y = 0%nat) l1 /\ Forall (fun y => g y = 0%nat) l2.
Proof.
  induction l as [|x r IH]; intros H; [discriminate|]. cbn [map] in H. rewrite list_sum_cons in H.
  destruct (g x) as [|[|k]] eqn:E.
  - destruct (IH H) as (l1 & y & l2 & -> & Hy & H1 & H2).
    exists (x :: l1), y, l2. repeat split; auto.
  - exists [], x, r. repeat split; auto. apply list_sum_map_zero. lia.
  - lia.
Qed.

Lemma map_out_id {A} (f : A -> outcome A) l :
  Forall (fun x => f x = Ok x) l -> map_out f l = Ok l.
Proof.
  induction 1 as [|x r Hx Hr IH]; [reflexivity|]. cbn [map_out]. rewrite Hx. cbn [bind].
  rewrite IH. reflexivity.
Qed.

Lemma map_out_app {A B} (f : A -> outcome B) l1 l2 :
  map_out f (l1 ++ l2) = (do a <- map_out f l1; do b <- map_out f l2; Ok (a ++ b)).
Proof.
  induction l1 as [|x r IH]; cbn [app map_out bind].
  - destruct (map_out f l2); reflexivity.
  - destruct (f x); cbn [bind]; auto. rewrite IH.
    destruct (map_out f r); cbn [bind]; auto. destruct (map_out f l2); reflexivity.
Qed.

Lemma map_out_one {A} (f : A -> outcome A) l1 x x' l2 :
  Forall (fun y => f y = Ok y) l1 -> Forall (fun y => f y = Ok y) l2 -> f x = Ok x' ->
  map_out f (l1 ++ x :: l2) = Ok (l1 ++ x' :: l2).
Proof.
  intros H1 H2 Hx. rewrite map_out_app, (map_out_id f l1 H1). cbn [bind map_out].
  rewrite Hx. cbn [bind]. rewrite (map_out_id f l2 H2). reflexivity.
Qed.

Lemma map_one {A} (f : A -> A) l1 x l2 :
  Forall (fun y => f y = y) l1 -> Forall (fun y => f y = y) l2 ->
  map f (l1 ++ x :: l2) = l1 ++ f x :: l2.
Proof.
  intros H1 H2. rewrite map_app. cbn [map]. f_equal; [|f_equal].
  - induction H1; cbn; congruence.
  - induction H2; cbn; congruence.
Qed.

Lemma zlen_snoc {A} (l : list A) x : zlen (l ++ [x]) = zlen l + 1.
Proof. rewrite zlen_app. reflexivity. Qed.

Lemma slc_prefix {A} (l1 l2 : list A) : slc 0 (zlen l1) (l1 ++ l2) = Some l1.
Proof.
  unfold slc. pose proof (zlen_nonneg l1). pose proof (zlen_nonneg l2). rewrite zlen_app.
  replace ((0 <=? 0) && (0 <=? zlen l1) && (zlen l1 <=? zlen l1 + zlen l2)) with true by lia.
  rewrite Z.sub_0_r. change (zskipn 0 (l1 ++ l2)) with (l1 ++ l2). rewrite zfirstn_app_exact. reflexivity.
Qed.

Lemma slc_suffix {A} (l1 l2 : list A) : slc (zlen l1) (zlen (l1 ++ l2)) (l1 ++ l2) = Some l2.
Proof.
  unfold slc. pose proof (zlen_nonneg l1). pose proof (zlen_nonneg l2). rewrite zlen_app.
  replace ((0 <=? zlen l1) && (zlen l1 <=? zlen l1 + zlen l2) && (zlen l1 + zlen l2 <=? zlen l1 + zlen l2))
    with true by lia.
  rewrite zskipn_app_exact. replace (zlen l1 + zlen l2 - zlen l1) with (zlen l2) by lia.
  rewrite <- (app_nil_r l2) at 2. rewrite zfirstn_app_exact. reflexivity.
Qed.

(* ---------- the shape of parsed trees ---------- *)

(* class 0: element of the BIOS region; 1: file of a volume; 2: section of a file, or what a
   section encapsulates (sections, a volume) *)
Fixpoint shp (c : nat) (n : node) {struct n} : bool :=
  match c, n with
  | O, NVol _ _ kids => forallb (shp 1) kids
  | O, NPad _ _ => true
  | S O, NFile _ _ kids => forallb (shp 2) kids
  | S (S O), NSec _ _ kids => forallb (shp 2) kids
  | S (S O), NVol _ _ kids => forallb (shp 1) kids
  | _, _ => false
  end.

(* ---------- Insert ---------- *)

(* "exactly one volume's file list changed, as R says; every other node is the same value" *)
Inductive vol_edit (R : volhdr -> list node -> list node -> Prop) : node -> node -> Prop :=
| ve_here h buf fs fs' : R h fs fs' -> vol_edit R (NVol h buf fs) (NVol h buf fs')
| ve_vol h buf l1 x x' l2 : vol_edit R x x' ->
    vol_edit R (NVol h buf (l1 ++ x :: l2)) (NVol h buf (l1 ++ x' :: l2))
| ve_file h buf l1 x x' l2 : vol_edit R x x' ->
    vol_edit R (NFile h buf (l1 ++ x :: l2)) (NFile h buf (l1 ++ x' :: l2))
| ve_sec h buf l1 x x' l2 : vol_edit R x x' ->
    vol_edit R (NSec h buf (l1 ++ x :: l2)) (NSec h buf (l1 ++ x' :: l2)).

Definition elems_edit R (l l' : list node) : Prop :=
  exists l1 x x' l2, l = l1 ++ x :: l2 /\ l' = l1 ++ x' :: l2 /\ vol_edit R x x'.

(* the list-level meaning of the five insert types at the volume that lists the matched file *)
Definition ins_list (it : itype) (nf : node) (l1 : list node) (f : node) (l2 : list node) : list node :=
  match it with
  | IFront => nf :: l1 ++ f :: l2
  | IEnd | IDxe => (l1 ++ f :: l2) ++ [nf]
  | IAfter => l1 ++ f :: nf :: l2
  | IBefore => l1 ++ nf :: f :: l2
  | IReplace => l1 ++ nf :: l2
  end.

Definition Rins (it : itype) (s : sel) (nf : node) (_ : volhdr) (fs fs' : list node) : Prop :=
  exists l1 f l2, fs = l1 ++ f :: l2 /\ fmatch s f = true /\
                  Forall (fun x => fmatch s x = false) l1 /\ fs' = ins_list it nf l1 f l2.

Lemma cf_zero_nomatch s x : cf s x = 0%nat -> fmatch s x = false.
Proof.
  destruct x; try reflexivity. cbn [cf]. destruct (fmatch s (NFile h buf kids)); [lia | reflexivity].
Qed.

Lemma first_match_none s files i :
  Forall (fun x => fmatch s x = false) files -> first_match s files i = None.
Proof.
  intros H. revert i. induction H as [|x r Hx Hr IH]; intros i; [reflexivity|].
  cbn [first_match]. rewrite Hx. apply IH.
Qed.

Lemma first_match_some s l1 f l2 i :
  Forall (fun x => fmatch s x = false) l1 -> fmatch s f = true ->
  first_match s (l1 ++ f :: l2) i = Some (i + zlen l1).
Proof.
  intros H Hf. revert i. induction H as [|x r Hx Hr IH]; intros i.
  - cbn [app first_match]. rewrite Hf. f_equal. rewrite zlen_nil. lia.
  - cbn [app first_match]. rewrite Hx, IH. f_equal. rewrite zlen_cons. lia.
Qed.

Lemma first_match_split s files :
  (Forall (fun x => fmatch s x = false) files) \/
  (exists l1 f l2, files = l1 ++ f :: l2 /\ fmatch s f = true /\ Forall (fun x => fmatch s x = false) l1).
Proof.
  induction files as [|x r IH]; [left; constructor|].
  destruct (fmatch s x) eqn:E.
  - right. exists [], x, r. repeat split; auto.
  - destruct IH as [IH | (l1 & f & l2 & -> & Hf & H1)].
    + left. constructor; auto.
    + right. exists (x :: l1), f, l2. repeat split; auto.
Qed.

Lemma ins_at_ok it nf l1 f l2 :
  ins_at it nf (l1 ++ f :: l2) (0 + zlen l1) = Ok (ins_list it nf l1 f l2).
Proof.
  rewrite Z.add_0_l.
  assert (E1 : slc 0 (zlen l1 + 1) (l1 ++ f :: l2) = Some (l1 ++ [f])).
  { rewrite <- zlen_snoc with (x := f).
    replace (l1 ++ f :: l2) with ((l1 ++ [f]) ++ l2) by (rewrite <- app_assoc; reflexivity).
    apply slc_prefix. }
  assert (E2 : slc (zlen l1 + 1) (zlen (l1 ++ f :: l2)) (l1 ++ f :: l2) = Some l2).
  { rewrite <- zlen_snoc with (x := f).
    replace (l1 ++ f :: l2) with ((l1 ++ [f]) ++ l2) by (rewrite <- app_assoc; reflexivity).
    apply slc_suffix. }
  pose proof (slc_prefix l1 (f :: l2)) as E3.
  pose proof (slc_suffix l1 (f :: l2)) as E4.
  destruct it; cbn [ins_at ins_list]; rewrite ?E1, ?E2, ?E3, ?E4; cbn [of_opt bind]; try reflexivity.
  rewrite <- app_assoc. reflexivity.
Qed.

Lemma ins_visit_id it s nf : forall n, cf s n = 0%nat -> ins_visit it s nf n = Ok n.
Proof.
  induction n as [h buf kids IH | h buf kids IH | h buf kids IH | off buf] using node_ind'; intros Hc;
    cbn [cf] in Hc.
  - cbn [ins_visit]. rewrite map_out_id; [reflexivity|].
    pose proof (list_sum_map_zero _ _ Hc) as Hz.
    rewrite Forall_forall in *. intros x Hx. apply IH; auto.
  - cbn [ins_visit]. rewrite map_out_id; [reflexivity|].
    assert (Hk : list_sum (map (cf s) kids) = 0%nat) by lia.
    pose proof (list_sum_map_zero _ _ Hk) as Hz.
    rewrite Forall_forall in *. intros x Hx. apply IH; auto.
  - cbn [ins_visit].
    pose proof (list_sum_map_zero _ _ Hc) as Hz.
    rewrite first_match_none.
    + rewrite map_out_id; [reflexivity|].
      rewrite Forall_forall in *. intros x Hx. apply IH; auto.
    + rewrite Forall_forall in *. intros x Hx. apply cf_zero_nomatch; auto.
  - reflexivity.
Qed.

Lemma ins_visit_one it s nf : forall n c, shp c n = true -> cf s n = 1%nat ->
  (c = 1%nat -> fmatch s n = false) ->
  exists n', ins_visit it s nf n = Ok n' /\ vol_edit (Rins it s nf) n n'.
Proof.
  induction n as [h buf kids IH | h buf kids IH | h buf kids IH | off buf] using node_ind';
    intros c Hs Hc Hm; cbn [cf] in Hc.
  - (* section: class 2 *)
    destruct c as [|[|[|c]]]; try discriminate Hs. cbn [shp] in Hs.
    destruct (list_sum_map_one _ _ Hc) as (l1 & x & l2 & -> & Hx & H1 & H2).
    rewrite Forall_forall in IH. rewrite forallb_forall in Hs.
    destruct (IH x ltac:(apply in_or_app; right; left; reflexivity) 2%nat
                ltac:(apply Hs, in_or_app; right; left; reflexivity) Hx ltac:(discriminate))
      as (x' & Ex & Vx).
    exists (NSec h buf (l1 ++ x' :: l2)). split; [|constructor; exact Vx].
    cbn [ins_visit]. rewrite (map_out_one _ l1 x x' l2); [reflexivity | | | exact Ex].
    + eapply Forall_impl; [|exact H1]. intros; apply ins_visit_id; auto.
    + eapply Forall_impl; [|exact H2]. intros; apply ins_visit_id; auto.
  - (* file: class 1, itself not matched *)
    destruct c as [|[|[|c]]]; try discriminate Hs. cbn [shp] in Hs.
    rewrite (Hm eq_refl) in Hc. cbn [Nat.add] in Hc.
    destruct (list_sum_map_one _ _ Hc) as (l1 & x & l2 & -> & Hx & H1 & H2).
    rewrite Forall_forall in IH. rewrite forallb_forall in Hs.
    destruct (IH x ltac:(apply in_or_app; right; left; reflexivity) 2%nat
                ltac:(apply Hs, in_or_app; right; left; reflexivity) Hx ltac:(discriminate))
      as (x' & Ex & Vx).
    exists (NFile h buf (l1 ++ x' :: l2)). split; [|constructor; exact Vx].
    cbn [ins_visit]. rewrite (map_out_one _ l1 x x' l2); [reflexivity | | | exact Ex].
    + eapply Forall_impl; [|exact H1]. intros; apply ins_visit_id; auto.
    + eapply Forall_impl; [|exact H2]. intros; apply ins_visit_id; auto.
  - (* volume: class 0 or 2; its children are files *)
    assert (Hk : forallb (shp 1) kids = true)
      by (destruct c as [|[|[|c]]]; try discriminate Hs; exact Hs).
    cbn [ins_visit].
    destruct (first_match_split s kids) as [Hnone | (l1 & f & l2 & -> & Hf & Hl1)].
    + rewrite (first_match_none _ _ _ Hnone).
      destruct (list_sum_map_one _ _ Hc) as (l1 & x & l2 & -> & Hx & H1 & H2).
      rewrite Forall_forall in IH. rewrite forallb_forall in Hk.
      assert (Hxin : In x (l1 ++ x :: l2)) by (apply in_or_app; right; left; reflexivity).
      destruct (IH x Hxin 1%nat (Hk x Hxin) Hx) as (x' & Ex & Vx).
      { intros _. rewrite Forall_forall in Hnone. apply Hnone, Hxin. }
      exists (NVol h buf (l1 ++ x' :: l2)). split; [|apply ve_vol; exact Vx].
      rewrite (map_out_one _ l1 x x' l2); [reflexivity | | | exact Ex].
      * eapply Forall_impl; [|exact H1]. intros; apply ins_visit_id; auto.
      * eapply Forall_impl; [|exact H2]. intros; apply ins_visit_id; auto.
    + rewrite (first_match_some s l1 f l2 0 Hl1 Hf), ins_at_ok. cbn [bind].
      exists (NVol h buf (ins_list it nf l1 f l2)). split; [reflexivity|].
      apply ve_here. exists l1, f, l2. auto.
  - discriminate Hc.
Qed.

Lemma find_single_file s elems m :
  find_elems s elems = [m] -> is_filen m = true -> cfl s elems = 1%nat /\ cvl s elems = 0%nat.
Proof.
  intros E Hm. destruct (find_elems_counts s elems) as (A & B & _). rewrite E in A, B.
  rewrite (nfiles_one m Hm) in A. rewrite (nvols_file m Hm) in B. auto.
Qed.

Lemma find_single_vol s elems m :
  find_elems s elems = [m] -> is_voln m = true -> cfl s elems = 0%nat /\ cvl s elems = 1%nat.
Proof.
  intros E Hm. destruct (find_elems_counts s elems) as (A & B & _). rewrite E in A, B.
  destruct m; try discriminate Hm. cbn in A, B. auto.
Qed.

(* Insert.Run, the match is a file *)
Lemma insert_file_spec it s nf elems m :
  forallb (shp 0) elems = true -> find_elems s elems = [m] -> is_filen m = true ->
  exists elems', insert_run it s nf elems = Ok elems' /\ elems_edit (Rins it s nf) elems elems'.
Proof.
  intros Hs E Hm. destruct (find_single_file s elems m E Hm) as [Hc _].
  unfold cfl in Hc. destruct (list_sum_map_one _ _ Hc) as (l1 & x & l2 & -> & Hx & H1 & H2).
  rewrite forallb_forall in Hs.
  destruct (ins_visit_one it s nf x 0%nat) as (x' & Ex & Vx); auto.
  { apply Hs, in_or_app; right; left; reflexivity. }
  { discriminate. }
  exists (l1 ++ x' :: l2). split.
  - unfold insert_run. rewrite E. destruct m; try discriminate Hm.
    apply map_out_one; auto.
    + eapply Forall_impl; [|exact H1]. intros; apply ins_visit_id; auto.
    + eapply Forall_impl; [|exact H2]. intros; apply ins_visit_id; auto.
  - exists l1, x, x', l2. auto.
Qed.

(* Insert.Run, the match is a volume: front and end only *)
Definition Rfv (front : bool) (s : sel) (nf : node) (h : volhdr) (fs fs' : list node) : Prop :=
  pred_fv s h = true /\ fs' = (if front then nf :: fs else fs ++ [nf]).

Lemma ins_fv_id front s nf : forall n, cv s n = 0%nat -> ins_fv front s nf n = n.
Proof.
  induction n as [h buf kids IH | h buf kids IH | h buf kids IH | off buf] using node_ind'; intros Hc;
    cbn [cv] in Hc; cbn [ins_fv].
  - f_equal. pose proof (list_sum_map_zero _ _ Hc) as Hz. rewrite Forall_forall in *.
    rewrite <- (map_id kids) at 2. apply map_ext_in. intros x Hx. apply IH; auto.
  - f_equal. pose proof (list_sum_map_zero _ _ Hc) as Hz. rewrite Forall_forall in *.
    rewrite <- (map_id kids) at 2. apply map_ext_in. intros x Hx. apply IH; auto.
  - destruct (pred_fv s h); [lia|]. f_equal. cbn [Nat.add] in Hc.
    pose proof (list_sum_map_zero _ _ Hc) as Hz. rewrite Forall_forall in *.
    rewrite <- (map_id kids) at 2. apply map_ext_in. intros x Hx. apply IH; auto.
  - reflexivity.
Qed.

Lemma ins_fv_one front s nf : forall n, cv s n = 1%nat ->
  vol_edit (Rfv front s nf) n (ins_fv front s nf n).
Proof.
  induction n as [h buf kids IH | h buf kids IH | h buf kids IH | off buf] using node_ind'; intros Hc;
    cbn [cv] in Hc; cbn [ins_fv].
  - destruct (list_sum_map_one _ _ Hc) as (l1 & x & l2 & -> & Hx & H1 & H2).
    rewrite Forall_forall in IH.
    rewrite map_one.
    + constructor. apply IH; auto. apply in_or_app; right; left; reflexivity.
    + eapply Forall_impl; [|exact H1]. intros; apply ins_fv_id; auto.
    + eapply Forall_impl; [|exact H2]. intros; apply ins_fv_id; auto.
  - destruct (list_sum_map_one _ _ Hc) as (l1 & x & l2 & -> & Hx & H1 & H2).
    rewrite Forall_forall in IH.
    rewrite map_one.
    + constructor. apply IH; auto. apply in_or_app; right; left; reflexivity.
    + eapply Forall_impl; [|exact H1]. intros; apply ins_fv_id; auto.
    + eapply Forall_impl; [|exact H2]. intros; apply ins_fv_id; auto.
  - destruct (pred_fv s h) eqn:Ep.
    + apply ve_here. split; auto.
    + cbn [Nat.add] in Hc.
      destruct (list_sum_map_one _ _ Hc) as (l1 & x & l2 & -> & Hx & H1 & H2).
      rewrite Forall_forall in IH.
      rewrite map_one.
      * apply ve_vol. apply IH; auto. apply in_or_app; right; left; reflexivity.
      * eapply Forall_impl; [|exact H1]. intros; apply ins_fv_id; auto.
      * eapply Forall_impl; [|exact H2]. intros; apply ins_fv_id; auto.
  - discriminate Hc.
Qed.

Lemma insert_vol_spec it s nf elems m :
  find_elems s elems = [m] -> is_voln m = true ->
  match it with
  | IFront => exists elems', insert_run it s nf elems = Ok elems' /\ elems_edit (Rfv true s nf) elems elems'
  | IEnd => exists elems', insert_run it s nf elems = Ok elems' /\ elems_edit (Rfv false s nf) elems elems'
  | _ => insert_run it s nf elems = Err E_INSKIND
  end.
Proof.
  intros E Hm. destruct (find_single_vol s elems m E Hm) as [_ Hc].
  unfold cvl in Hc. destruct (list_sum_map_one _ _ Hc) as (l1 & x & l2 & -> & Hx & H1 & H2).
  unfold insert_run. rewrite E. destruct m; try discriminate Hm.
  assert (G : forall front, elems_edit (Rfv front s nf) (l1 ++ x :: l2)
                              (map (ins_fv front s nf) (l1 ++ x :: l2))).
  { intros front. rewrite map_one.
    - exists l1, x, (ins_fv front s nf x), l2. repeat split; auto. apply ins_fv_one; auto.
    - eapply Forall_impl; [|exact H1]. intros; apply ins_fv_id; auto.
    - eapply Forall_impl; [|exact H2]. intros; apply ins_fv_id; auto. }
  destruct it; try reflexivity; eexists; split; try reflexivity; apply G.
Qed.

Lemma insert_errors it s nf elems :
  (find_elems s elems = [] -> insert_run it s nf elems = Err E_NOMATCH) /\
  ((2 <= length (find_elems s elems))%nat -> insert_run it s nf elems = Err E_MULTI).
Proof.
  unfold insert_run. split; intros H.
  - rewrite H. reflexivity.
  - destruct (find_elems s elems) as [|a [|b r]]; cbn in H; try lia. reflexivity.
Qed.

(* the abstract list of the edited volume *)
Lemma abs_files_app a b : abs_files (a ++ b) = abs_files a ++ abs_files b.
Proof. unfold abs_files. rewrite filter_app, map_app. reflexivity. Qed.

Lemma ins_list_abs it nf l1 f l2 :
  abs_files (ins_list it nf l1 f l2) =
  match it with
  | IFront => abs_files [nf] ++ abs_files l1 ++ abs_files [f] ++ abs_files l2
  | IEnd | IDxe => abs_files l1 ++ abs_files [f] ++ abs_files l2 ++ abs_files [nf]
  | IAfter => abs_files l1 ++ abs_files [f] ++ abs_files [nf] ++ abs_files l2
  | IBefore => abs_files l1 ++ abs_files [nf] ++ abs_files [f] ++ abs_files l2
  | IReplace => abs_files l1 ++ abs_files [nf] ++ abs_files l2
  end.
Proof.
  destruct it; cbn [ins_list];
    repeat (rewrite ?abs_files_app;
            match goal with
            | |- context [abs_files (?x :: ?l)] =>
              lazymatch l with [] => fail | _ => change (x :: l) with ([x] ++ l) end
            end);
    rewrite ?abs_files_app, <- ?app_assoc; reflexivity.
Qed.

(* ---------- Remove ---------- *)

(* what the two loops of Remove.Visit compute on one volume's list *)
Fixpoint rm_list (s : sel) (pol : Z) (pad : bool) (files : list node) : outcome (list node) :=
  match files with
  | [] => Ok []
  | f :: r =>
    if fmatch s f then
      if pad || (file_type f =? fv_filetype_peim) then
        do pf <- pad_node pol (file_ext f); do r' <- rm_list s pol pad r; Ok (pf :: r')
      else rm_list s pol pad r
    else do r' <- rm_list s pol pad r; Ok (f :: r')
  end.

Lemma idx_app_here {A} (l1 : list A) x l2 : idx (zlen l1) (l1 ++ x :: l2) = Some x.
Proof.
  unfold idx. pose proof (zlen_nonneg l1). pose proof (zlen_nonneg l2).
  rewrite zlen_app, zlen_cons.
  replace ((0 <=? zlen l1) && (zlen l1 <? zlen l1 + (1 + zlen l2))) with true by lia.
  unfold zlen. rewrite Nat2Z.id. rewrite nth_error_app2 by lia. rewrite Nat.sub_diag. reflexivity.
Qed.

Lemma set_nth_app_here {A} (l1 : list A) x y l2 :
  set_nth (length l1) y (l1 ++ x :: l2) = l1 ++ y :: l2.
Proof. induction l1 as [|a r IH]; cbn; [reflexivity | rewrite IH; reflexivity]. Qed.

Lemma rm_loop_spec s pol pad : forall rest done fuel, (length rest < fuel)%nat ->
  rm_loop s pol pad fuel (done ++ rest) (zlen done) =
  (do r' <- rm_list s pol pad rest; Ok (done ++ r')).
Proof.
  induction rest as [|f r IH]; intros done fuel Hf; (destruct fuel as [|k]; [inversion Hf|]).
  - cbn [rm_loop rm_list bind]. rewrite app_nil_r. rewrite Z.ltb_irrefl. reflexivity.
  - cbn [rm_loop rm_list]. pose proof (zlen_nonneg done). pose proof (zlen_nonneg r).
    replace (zlen done <? zlen (done ++ f :: r)) with true
      by (rewrite zlen_app, zlen_cons; lia).
    rewrite idx_app_here.
    destruct (fmatch s f) eqn:Em.
    + destruct (pad || (file_type f =? fv_filetype_peim)) eqn:Ep.
      * destruct (pad_node pol (file_ext f)) as [pf| | |]; cbn [bind]; try reflexivity.
        unfold zlen at 1. rewrite Nat2Z.id. rewrite set_nth_app_here.
        replace (done ++ pf :: r) with ((done ++ [pf]) ++ r) by (rewrite <- app_assoc; reflexivity).
        rewrite <- zlen_snoc with (x := pf). rewrite IH by (cbn in Hf; lia).
        destruct (rm_list s pol pad r); cbn [bind]; try reflexivity.
        rewrite <- app_assoc. reflexivity.
      * pose proof (slc_prefix done (f :: r)) as E3. rewrite E3. cbn [of_opt bind].
        assert (E2 : slc (zlen done + 1) (zlen (done ++ f :: r)) (done ++ f :: r) = Some r).
        { rewrite <- zlen_snoc with (x := f).
          replace (done ++ f :: r) with ((done ++ [f]) ++ r) by (rewrite <- app_assoc; reflexivity).
          apply slc_suffix. }
        rewrite E2. cbn [of_opt bind].
        replace (zlen done - 1 + 1) with (zlen done) by lia.
        apply IH. cbn in Hf. lia.
    + replace (done ++ f :: r) with ((done ++ [f]) ++ r) by (rewrite <- app_assoc; reflexivity).
      rewrite <- zlen_snoc with (x := f). rewrite IH by (cbn in Hf; lia).
      destruct (rm_list s pol pad r); cbn [bind]; try reflexivity.
      rewrite <- app_assoc. reflexivity.
Qed.

Lemma rm_loop_is_rm_list s pol pad files :
  rm_loop s pol pad (S (length files)) files 0 = rm_list s pol pad files.
Proof.
  pose proof (rm_loop_spec s pol pad files [] (S (length files)) ltac:(lia)) as H.
  cbn [app] in H. change (zlen (@nil node)) with 0 in H. rewrite H.
  destruct (rm_list s pol pad files); reflexivity.
Qed.

(* the tree after Remove: in every volume the matched files are dropped or replaced by a pad
   file, the others are kept in order and treated the same way inside *)
Inductive removed (s : sel) (pol : Z) (pad : bool) : node -> node -> Prop :=
| rmv_vol h buf fs fs1 fs2 : rm_list s pol pad fs = Ok fs1 -> Forall2 (removed s pol pad) fs1 fs2 ->
    removed s pol pad (NVol h buf fs) (NVol h buf fs2)
| rmv_file h buf ks ks' : Forall2 (removed s pol pad) ks ks' ->
    removed s pol pad (NFile h buf ks) (NFile h buf ks')
| rmv_sec h buf ks ks' : Forall2 (removed s pol pad) ks ks' ->
    removed s pol pad (NSec h buf ks) (NSec h buf ks')
| rmv_pad off b : removed s pol pad (NPad off b) (NPad off b).

Lemma map_out_forall2 {A B} (f : A -> outcome B) (R : A -> B -> Prop) :
  (forall x y, f x = Ok y -> R x y) -> forall l l', map_out f l = Ok l' -> Forall2 R l l'.
Proof.
  intros Hf. induction l as [|x r IH]; intros l' H; cbn [map_out] in H.
  - inversion H. constructor.
  - apply bind_ok in H as (y & Hy & H). apply bind_ok in H as (ys & Hys & H). inversion H; subst.
    constructor; auto.
Qed.

Lemma rm_visit_spec s pol pad : forall d n n',
  rm_visit d s pol pad n = Ok n' -> removed s pol pad n n'.
Proof.
  induction d as [|d IH]; intros n n' H; [discriminate|].
  destruct n as [h buf kids | h buf kids | h buf kids | off b]; cbn [rm_visit] in H.
  - apply bind_ok in H as (ks & Hk & H). inversion H; subst. constructor.
    eapply map_out_forall2; [|exact Hk]. exact IH.
  - apply bind_ok in H as (ks & Hk & H). inversion H; subst. constructor.
    eapply map_out_forall2; [|exact Hk]. exact IH.
  - apply bind_ok in H as (fs & Hf & H). apply bind_ok in H as (fs' & Hk & H). inversion H; subst.
    rewrite rm_loop_is_rm_list in Hf. econstructor; [exact Hf|].
    eapply map_out_forall2; [|exact Hk]. exact IH.
  - inversion H; subst. constructor.
Qed.

Lemma remove_run_spec d s pol pad elems elems' :
  remove_run d s pol pad elems = Ok elems' -> Forall2 (removed s pol pad) elems elems'.
Proof. unfold remove_run. apply map_out_forall2. apply rm_visit_spec. Qed.

(* pad files are invisible in the abstraction: the abstract list loses exactly the matched files *)
Lemma pad_node_is_pad pol size n : pad_node pol size = Ok n -> is_pad n = true.
Proof.
  unfold pad_node. destruct (size <? file_header_min_length); [discriminate|].
  destruct (negb ((pol =? 255) || (pol =? 0))); [discriminate|].
  destruct (set_size 0 size false) as [ext attr].
  unfold checksum_and_assemble. intros H. inversion H; subst. reflexivity.
Qed.

Lemma rm_list_abs s pol pad : forall fs fs1, rm_list s pol pad fs = Ok fs1 ->
  abs_files fs1 = abs_files (filter (fun f => negb (fmatch s f)) fs).
Proof.
  induction fs as [|f r IH]; intros fs1 H; cbn [rm_list] in H.
  - inversion H. reflexivity.
  - cbn [filter]. destruct (fmatch s f) eqn:Em; cbn [negb].
    + destruct (pad || (file_type f =? fv_filetype_peim)).
      * apply bind_ok in H as (pf & Hp & H). apply bind_ok in H as (r' & Hr & H). inversion H; subst.
        change (pf :: r') with ([pf] ++ r'). rewrite abs_files_app, (IH _ Hr).
        unfold abs_files at 1. cbn [filter]. rewrite (pad_node_is_pad _ _ _ Hp). reflexivity.
      * apply IH; auto.
    + apply bind_ok in H as (r' & Hr & H). inversion H; subst.
      change (f :: r') with ([f] ++ r').
      change (f :: filter (fun f0 => negb (fmatch s f0)) r) with ([f] ++ filter (fun f0 => negb (fmatch s f0)) r).
      rewrite !abs_files_app, (IH _ Hr). reflexivity.
Qed.

(* remove_pad: the pad file has the size asked for *)
Lemma zlen_zrepeat x n : 0 <= n -> zlen (zrepeat x n) = n.
Proof.
  intros H. unfold zrepeat, zlen.
  assert (Hr : forall k, length (repeatz x k) = k) by (induction k; cbn; auto).
  rewrite Hr. lia.
Qed.

Lemma caa_buf_len h ext attr data : zlen (f_guid h) = 16 ->
  zlen (snd (checksum_and_assemble h ext attr data)) = file_hlen attr + zlen data.
Proof.
  intros Hg. unfold checksum_and_assemble. cbn [snd]. unfold file_header_bytes, file_hlen.
  rewrite !zlen_app, Hg, zlen_le_enc.
  destruct (attr_large attr); rewrite ?zlen_le_enc;
    repeat match goal with |- context [zlen (?a :: ?l)] => rewrite (zlen_cons a l) end;
    rewrite ?zlen_nil; lia.
Qed.

Lemma pad_node_size pol size n : pad_node pol size = Ok n -> zlen (node_buf n) = size.
Proof.
  unfold pad_node. destruct (size <? file_header_min_length) eqn:E1; [discriminate|].
  destruct (negb ((pol =? 255) || (pol =? 0))); [discriminate|].
  unfold file_header_min_length, file_header_ext_min_length in *.
  destruct (set_size 0 size false) as [ext attr] eqn:Es.
  match goal with |- context [checksum_and_assemble ?h ?e ?a ?d] =>
    pose proof (caa_buf_len h e a d) as L; destruct (checksum_and_assemble h e a d) as [h' b] end.
  intros H. inversion H; subst. cbn [node_buf snd] in *.
  rewrite L by (cbn [f_guid]; apply zlen_zrepeat; lia).
  unfold set_size in Es. unfold file_hlen.
  destruct (16777215 <=? size) eqn:E2; inversion Es; subst.
  - change (attr_large 1) with true. cbv iota. rewrite zlen_zrepeat by lia. lia.
  - change (attr_large 0) with false. cbv iota. rewrite zlen_zrepeat by lia. lia.
Qed.

(* the depth fuel of rm_visit suffices: the height of the tree *)
Fixpoint height (n : node) {struct n} : nat :=
  match n with
  | NSec _ _ k => S (fold_right Nat.max 0%nat (map height k))
  | NFile _ _ k => S (fold_right Nat.max 0%nat (map height k))
  | NVol _ _ k => S (fold_right Nat.max 0%nat (map height k))
  | NPad _ _ => 1%nat
  end.

Lemma height_pos n : (1 <= height n)%nat.
Proof. destruct n; cbn [height]; lia. Qed.

Lemma height_in x l : In x l -> (height x <= fold_right Nat.max 0%nat (map height l))%nat.
Proof.
  induction l as [|y r IH]; intros H; [destruct H|]. cbn [map fold_right].
  destruct H as [-> | H]; [lia | specialize (IH H); lia].
Qed.

Lemma map_out_fuel {A B} (f : A -> outcome B) l :
  map_out f l = Fuel -> exists x, In x l /\ f x = Fuel.
Proof.
  induction l as [|x r IH]; cbn [map_out]; [discriminate|].
  destruct (f x) eqn:E; cbn [bind]; try discriminate.
  - destruct (map_out f r) eqn:E2; cbn [bind]; try discriminate.
    intros _. destruct (IH eq_refl) as (y & Hy & Fy). exists y. split; [right; exact Hy | exact Fy].
  - intros _. exists x. split; [left; reflexivity | exact E].
Qed.

Lemma pad_node_not_fuel pol size : pad_node pol size <> Fuel.
Proof.
  unfold pad_node. destruct (size <? file_header_min_length); [discriminate|].
  destruct (negb ((pol =? 255) || (pol =? 0))); [discriminate|].
  destruct (set_size 0 size false). destruct (checksum_and_assemble _ _ _ _). discriminate.
Qed.

Lemma pad_node_height pol size n : pad_node pol size = Ok n -> height n = 1%nat.
Proof.
  unfold pad_node. destruct (size <? file_header_min_length); [discriminate|].
  destruct (negb ((pol =? 255) || (pol =? 0))); [discriminate|].
  destruct (set_size 0 size false). destruct (checksum_and_assemble _ _ _ _).
  intros H. inversion H. reflexivity.
Qed.

Lemma rm_list_not_fuel s pol pad fs : rm_list s pol pad fs <> Fuel.
Proof.
  induction fs as [|f r IH]; cbn [rm_list]; [discriminate|].
  destruct (fmatch s f).
  - destruct (pad || (file_type f =? fv_filetype_peim)); auto.
    pose proof (pad_node_not_fuel pol (file_ext f)).
    destruct (pad_node pol (file_ext f)); cbn [bind]; try discriminate; try congruence.
    destruct (rm_list s pol pad r); cbn [bind]; try discriminate; congruence.
  - destruct (rm_list s pol pad r); cbn [bind]; try discriminate; congruence.
Qed.

Lemma rm_list_members s pol pad : forall fs fs1, rm_list s pol pad fs = Ok fs1 ->
  forall x, In x fs1 -> In x fs \/ height x = 1%nat.
Proof.
  induction fs as [|f r IH]; intros fs1 H x Hx; cbn [rm_list] in H.
  - inversion H; subst. destruct Hx.
  - destruct (fmatch s f).
    + destruct (pad || (file_type f =? fv_filetype_peim)).
      * apply bind_ok in H as (pf & Hp & H). apply bind_ok in H as (r' & Hr & H). inversion H; subst.
        destruct Hx as [<- | Hx]; [right; eapply pad_node_height; eauto|].
        destruct (IH _ Hr x Hx); [left; right; auto | right; auto].
      * destruct (IH _ H x Hx); [left; right; auto | right; auto].
    + apply bind_ok in H as (r' & Hr & H). inversion H; subst.
      destruct Hx as [<- | Hx]; [left; left; reflexivity|].
      destruct (IH _ Hr x Hx); [left; right; auto | right; auto].
Qed.

Lemma rm_visit_no_fuel s pol pad : forall d n, (height n <= d)%nat ->
  rm_visit d s pol pad n <> Fuel.
Proof.
  induction d as [|d IH]; intros n Hh.
  - destruct n; cbn in Hh; lia.
  - destruct n as [h buf kids | h buf kids | h buf kids | off b]; cbn [rm_visit]; cbn [height] in Hh.
    + intros H. destruct (map_out (rm_visit d s pol pad) kids) eqn:E; cbn [bind] in H; try discriminate.
      apply map_out_fuel in E as (x & Hx & Fx). apply (IH x); auto.
      pose proof (height_in x kids Hx). lia.
    + intros H. destruct (map_out (rm_visit d s pol pad) kids) eqn:E; cbn [bind] in H; try discriminate.
      apply map_out_fuel in E as (x & Hx & Fx). apply (IH x); auto.
      pose proof (height_in x kids Hx). lia.
    + intros H. rewrite rm_loop_is_rm_list in H.
      pose proof (rm_list_not_fuel s pol pad kids).
      destruct (rm_list s pol pad kids) as [fs| | |] eqn:El; cbn [bind] in H; try discriminate; try congruence.
      destruct (map_out (rm_visit d s pol pad) fs) eqn:E; cbn [bind] in H; try discriminate.
      apply map_out_fuel in E as (x & Hx & Fx). apply (IH x); auto.
      destruct (rm_list_members s pol pad kids fs El x Hx) as [Hin | H1].
      * pose proof (height_in x kids Hin). lia.
      * rewrite H1. destruct d; [|lia].
        (* d = 0: then the volume has height 1, no children *)
        destruct kids; [cbn in El; inversion El; subst; destruct Hx|].
        cbn [map fold_right] in Hh. pose proof (height_pos n). lia.
    + discriminate.
Qed.

(* ---------- ReplacePE32 ---------- *)

Definition pe_file (pe : bytes) (n : node) : node :=
  match n with NFile h buf kids => NFile h buf (map (pe_sec pe) kids) | _ => n end.

(* "exactly one file node, one that P selects, is replaced by F of it; every other node is the same" *)
Inductive file_edit (F : node -> node) (P : node -> bool) : node -> node -> Prop :=
| fe_here h buf ks : P (NFile h buf ks) = true -> file_edit F P (NFile h buf ks) (F (NFile h buf ks))
| fe_vol h buf l1 x x' l2 : file_edit F P x x' ->
    file_edit F P (NVol h buf (l1 ++ x :: l2)) (NVol h buf (l1 ++ x' :: l2))
| fe_file h buf l1 x x' l2 : file_edit F P x x' ->
    file_edit F P (NFile h buf (l1 ++ x :: l2)) (NFile h buf (l1 ++ x' :: l2))
| fe_sec h buf l1 x x' l2 : file_edit F P x x' ->
    file_edit F P (NSec h buf (l1 ++ x :: l2)) (NSec h buf (l1 ++ x' :: l2)).

Lemma map_id_in {A} (f : A -> A) l : (forall x, In x l -> f x = x) -> map f l = l.
Proof. intros H. rewrite <- (map_id l) at 2. apply map_ext_in. exact H. Qed.

Lemma pe_visit_id s pe : forall n, cf s n = 0%nat -> pe_visit s pe n = n.
Proof.
  induction n as [h buf kids IH | h buf kids IH | h buf kids IH | off buf] using node_ind'; intros Hc;
    cbn [cf] in Hc; cbn [pe_visit].
  - f_equal. pose proof (list_sum_map_zero _ _ Hc) as Hz. rewrite Forall_forall in *.
    apply map_id_in. intros x Hx. apply IH; auto.
  - destruct (fmatch s (NFile h buf kids)); [lia|]. cbn [Nat.add] in Hc. f_equal.
    pose proof (list_sum_map_zero _ _ Hc) as Hz. rewrite Forall_forall in *.
    apply map_id_in. intros x Hx. apply IH; auto.
  - f_equal. pose proof (list_sum_map_zero _ _ Hc) as Hz. rewrite Forall_forall in *.
    apply map_id_in. intros x Hx. apply IH; auto.
  - reflexivity.
Qed.

Lemma pe_visit_one s pe : forall n, cf s n = 1%nat ->
  file_edit (pe_file pe) (fmatch s) n (pe_visit s pe n).
Proof.
  induction n as [h buf kids IH | h buf kids IH | h buf kids IH | off buf] using node_ind'; intros Hc;
    cbn [cf] in Hc; cbn [pe_visit].
  - destruct (list_sum_map_one _ _ Hc) as (l1 & x & l2 & -> & Hx & H1 & H2).
    rewrite Forall_forall in IH. rewrite map_one.
    + constructor. apply IH; auto. apply in_or_app; right; left; reflexivity.
    + eapply Forall_impl; [|exact H1]. intros; apply pe_visit_id; auto.
    + eapply Forall_impl; [|exact H2]. intros; apply pe_visit_id; auto.
  - destruct (fmatch s (NFile h buf kids)) eqn:Em.
    + change (NFile h buf (map (pe_sec pe) kids)) with (pe_file pe (NFile h buf kids)).
      apply fe_here. exact Em.
    + cbn [Nat.add] in Hc.
      destruct (list_sum_map_one _ _ Hc) as (l1 & x & l2 & -> & Hx & H1 & H2).
      rewrite Forall_forall in IH. rewrite map_one.
      * apply fe_file. apply IH; auto. apply in_or_app; right; left; reflexivity.
      * eapply Forall_impl; [|exact H1]. intros; apply pe_visit_id; auto.
      * eapply Forall_impl; [|exact H2]. intros; apply pe_visit_id; auto.
  - destruct (list_sum_map_one _ _ Hc) as (l1 & x & l2 & -> & Hx & H1 & H2).
    rewrite Forall_forall in IH. rewrite map_one.
    + apply fe_vol. apply IH; auto. apply in_or_app; right; left; reflexivity.
    + eapply Forall_impl; [|exact H1]. intros; apply pe_visit_id; auto.
    + eapply Forall_impl; [|exact H2]. intros; apply pe_visit_id; auto.
  - discriminate Hc.
Qed.

Lemma replace_pe32_spec_lemma s pe elems m :
  prefixb [77; 90] pe = true -> find_elems s elems = [m] -> is_filen m = true ->
  exists l1 x l2, elems = l1 ++ x :: l2 /\
    replace_pe32_run s pe elems = Ok (l1 ++ pe_visit s pe x :: l2) /\
    file_edit (pe_file pe) (fmatch s) x (pe_visit s pe x).
Proof.
  intros Hp E Hm. destruct (find_single_file s elems m E Hm) as [Hc _].
  unfold cfl in Hc. destruct (list_sum_map_one _ _ Hc) as (l1 & x & l2 & -> & Hx & H1 & H2).
  exists l1, x, l2. split; [reflexivity|]. split; [|apply pe_visit_one; auto].
  unfold replace_pe32_run. rewrite Hp, E. cbn [negb]. rewrite map_one; auto.
  - eapply Forall_impl; [|exact H1]. intros; apply pe_visit_id; auto.
  - eapply Forall_impl; [|exact H2]. intros; apply pe_visit_id; auto.
Qed.

Lemma replace_pe32_errors s pe elems :
  (prefixb [77; 90] pe = false -> replace_pe32_run s pe elems = Err E_NOTPE) /\
  (prefixb [77; 90] pe = true -> find_elems s elems = [] -> replace_pe32_run s pe elems = Err E_NOMATCH) /\
  (prefixb [77; 90] pe = true -> (2 <= length (find_elems s elems))%nat ->
     replace_pe32_run s pe elems = Err E_MULTI).
Proof.
  unfold replace_pe32_run. repeat split; intros H; try rewrite H; try reflexivity.
  - intros H2. rewrite H2. reflexivity.
  - intros H2. cbn [negb]. destruct (find_elems s elems) as [|a [|b r]]; cbn in H2; try lia. reflexivity.
Qed.

(* what happens to the sections of the selected file *)
Lemma pe_sec_pe32 pe h buf kids : s_type h = section_type_pe32 -> s_gd h = None ->
  exists h' hdr, pe_sec pe (NSec h buf kids) = NSec h' (hdr ++ pe) [] /\
                 (zlen hdr = 4 \/ zlen hdr = 8) /\ s_type h' = s_type h.
Proof.
  intros Ht Hg. cbn [pe_sec]. rewrite Ht, Z.eqb_refl. unfold gen_sec_header. rewrite Hg.
  eexists. eexists. split; [cbn [app]; reflexivity|]. split; [|cbn [s_type]; auto].
  rewrite zlen_app, zlen_le_enc, zlen_cons.
  match goal with |- context [if ?b then le_enc 4 _ else []] => destruct b end;
    rewrite ?zlen_le_enc, ?zlen_nil; lia.
Qed.

Lemma pe_sec_other pe h buf kids : (s_type h =? section_type_pe32) = false ->
  pe_sec pe (NSec h buf kids) = NSec h buf (map (pe_sec pe) kids).
Proof. intros Ht. cbn [pe_sec]. rewrite Ht. reflexivity. Qed.

(* ---------- read-only operations, ExecuteCLI ---------- *)

Lemma run_op_read d pol elems : run_op d pol CRead elems = Ok elems.
Proof. reflexivity. Qed.

Lemma run_ops_app d pol a b elems :
  run_ops d pol (a ++ b) elems = (do e <- run_ops d pol a elems; run_ops d pol b e).
Proof.
  revert elems. induction a as [|c r IH]; intros elems; cbn [app run_ops bind]; [reflexivity|].
  destruct (run_op d pol c elems); cbn [bind]; auto.
Qed.

(* dropping the read-only operations from a sequence does not change the tree that is saved *)
Definition is_read (c : cop) : bool := match c with CRead => true | _ => false end.
Lemma run_ops_drop_reads d pol cs elems :
  run_ops d pol cs elems = run_ops d pol (filter (fun c => negb (is_read c)) cs) elems.
Proof.
  revert elems. induction cs as [|c r IH]; intros elems; [reflexivity|].
  cbn [filter]. destruct c; cbn [is_read negb run_ops];
    try (match goal with |- context [run_op ?a ?b ?c ?e] => destruct (run_op a b c e) end; cbn [bind]; auto; fail).
  cbn [run_op bind]. apply IH.
Qed.

(* ---------- unfolding equations of the shared assembler ---------- *)

Section AsmTie.
Variable enc : Z -> bytes -> option bytes.
Variable s2u : bytes -> bytes.

Lemma asm_sec h buf kids st :
  asm enc s2u (NSec h buf kids) st =
  (do ks <- asm_elems enc s2u kids st; let '(kids', st1) := ks in sec_asm enc s2u h buf kids' st1).
Proof. reflexivity. Qed.
Lemma asm_file h buf kids st :
  asm enc s2u (NFile h buf kids) st =
  (do ks <- asm_elems enc s2u kids st; let '(kids', st1) := ks in file_asm h buf kids' st1).
Proof. reflexivity. Qed.
Lemma asm_vol_eq h buf kids st :
  asm enc s2u (NVol h buf kids) st =
  match set_polarity (fst st) (fv_polarity (v_attrs h)) with
  | None => Err E_POLARITY
  | Some pol0 =>
    do ks <- asm_elems enc s2u kids (pol0, false); let '(kids', st1) := ks in
    do r <- vol_asm h buf kids' st1; let '(n', st2) := r in Ok (n', (fst st2, snd st))
  end.
Proof. reflexivity. Qed.

End AsmTie.

(* DESIGN section 6 #20.  The code before the repair handed back the old buffer of a volume whose
   file list had become empty; the repaired one (Ffs.asm_vol) rebuilds it, see AsmProofs. *)
Lemma asm_vol_empty_asis pol ffs3 h buf : asm_vol_pinned pol ffs3 h buf [] = Ok (h, buf).
Proof. reflexivity. Qed.

(* on every non-empty file list the two agree *)
Lemma asm_vol_pinned_nonempty pol ffs3 h buf f r :
  asm_vol_pinned pol ffs3 h buf (f :: r) = asm_vol pol ffs3 h buf (f :: r).
Proof. reflexivity. Qed.

(* ---------- the shape of parsed trees, and its preservation by the operations ---------- *)

Ltac inv_ok H :=
  repeat match type of H with
         | bind _ _ = Ok _ =>
           let x := fresh "x" in let Hx := fresh "Hx" in apply bind_ok in H as (x & Hx & H)
         | (let '(_, _) := ?p in _) = Ok _ => destruct p
         | (if ?c then _ else _) = Ok _ => destruct c eqn:?
         | match ?x with _ => _ end = Ok _ => destruct x eqn:?
         | Err _ = Ok _ => discriminate H
         | Panic _ = Ok _ => discriminate H
         | Fuel = Ok _ => discriminate H
         end.

Section ParseShape.
Variable dec : Z -> bytes -> option bytes.
Variable u2s : bytes -> bytes.
Variable nvar : bytes -> option bytes.

Lemma sections_loop_shape (rs : Z -> bytes -> Z -> outcome (node * Z)) :
  (forall pol b i n p, rs pol b i = Ok (n, p) -> shp 2 n = true) ->
  forall k b pol off i l p, sections_loop rs k b pol off i = Ok (l, p) -> forallb (shp 2) l = true.
Proof.
  intros Hrs. induction k as [|k IH]; intros b pol off i l p H; [discriminate|].
  cbn [sections_loop] in H. destruct (off <? zlen b); [|inversion H; reflexivity].
  apply bind_ok in H as ([s pol'] & Hs & H).
  destruct (sec_ext s =? 0); [discriminate|].
  apply bind_ok in H as ([r pol''] & Hr & H). inversion H; subst.
  cbn [forallb]. rewrite (Hrs _ _ _ _ _ Hs), (IH _ _ _ _ _ _ Hr). reflexivity.
Qed.

Lemma files_loop_shape (rf : Z -> bytes -> outcome (option node * Z)) :
  (forall pol b f p, rf pol b = Ok (Some f, p) -> shp 1 f = true) ->
  forall k data len pol off l p fs, files_loop rf k data len pol off = Ok (l, p, fs) ->
    forallb (shp 1) l = true.
Proof.
  intros Hrf. induction k as [|k IH]; intros data len pol off l p fs H; [discriminate|].
  cbn [files_loop] in H. destruct (off + 24 <=? len); [|inversion H; reflexivity].
  destruct (len <? align8 off + 24); [inversion H; reflexivity|].
  apply bind_ok in H as ([fo pol'] & Hf & H). destruct fo as [f|]; [|inversion H; reflexivity].
  destruct (file_ext f =? 0); [discriminate|].
  apply bind_ok in H as ([[r pol''] fs'] & Hr & H). inversion H; subst.
  cbn [forallb]. rewrite (Hrf _ _ _ _ Hf), (IH _ _ _ _ _ _ _ Hr). reflexivity.
Qed.

Lemma section_body_shape rs rv :
  (forall pol b i n p, rs pol b i = Ok (n, p) -> shp 2 n = true) ->
  (forall pol d o r n p, rv pol d o r = Ok (n, p) -> shp 2 n = true) ->
  forall pol buf o n p, section_body dec u2s rs rv pol buf o = Ok (n, p) -> shp 2 n = true.
Proof.
  intros Hrs Hrv pol buf o n p H. unfold section_body in H. cbv zeta in H.
  inv_ok H; inversion H; subst; cbn [shp forallb]; try reflexivity;
    try (match goal with Hk : sections_loop _ _ _ _ _ _ = Ok _ |- _ =>
           eapply sections_loop_shape in Hk; eauto end);
    try (match goal with Hv : rv _ _ _ _ = Ok _ |- _ => rewrite (Hrv _ _ _ _ _ _ Hv); reflexivity end).
Qed.

Lemma file_body_shape rs :
  (forall pol b i n p, rs pol b i = Ok (n, p) -> shp 2 n = true) ->
  forall pol buf f p, file_body nvar rs pol buf = Ok (Some f, p) -> shp 1 f = true.
Proof.
  intros Hrs pol buf f p H. unfold file_body in H. cbv zeta in H.
  inv_ok H; inversion H; subst; cbn [shp forallb]; try reflexivity;
    try (match goal with Hk : sections_loop _ _ _ _ _ _ = Ok _ |- _ =>
           eapply sections_loop_shape in Hk; eauto end).
Qed.

Lemma fv_body_shape rf :
  (forall pol b f p, rf pol b = Ok (Some f, p) -> shp 1 f = true) ->
  forall pol data off r n p, fv_body rf pol data off r = Ok (n, p) ->
    shp 0 n = true /\ shp 2 n = true /\ is_voln n = true.
Proof.
  intros Hrf pol data off r n p H. unfold fv_body in H. cbv zeta in H.
  inv_ok H; inversion H; subst; cbn [shp is_voln forallb]; try (repeat split; reflexivity);
    try (match goal with Hk : files_loop _ _ _ _ _ _ = Ok _ |- _ =>
           rewrite (files_loop_shape rf Hrf _ _ _ _ _ _ _ _ Hk); repeat split; reflexivity end).
Qed.

Lemma parse_shape : forall d,
  (forall pol b i n p, parse_section dec u2s nvar d pol b i = Ok (n, p) -> shp 2 n = true) /\
  (forall pol b f p, parse_file dec u2s nvar d pol b = Ok (Some f, p) -> shp 1 f = true) /\
  (forall pol data off r n p, parse_fv dec u2s nvar d pol data off r = Ok (n, p) ->
     shp 0 n = true /\ shp 2 n = true /\ is_voln n = true).
Proof.
  induction d as [|d (IHs & IHf & IHv)].
  - repeat split; intros; discriminate.
  - split; [|split].
    + intros pol b i n p H. cbn [parse_section] in H.
      eapply section_body_shape; [exact IHs | | exact H].
      intros. eapply IHv; eauto.
    + intros pol b f p H. cbn [parse_file] in H. eapply file_body_shape; [exact IHs | exact H].
    + intros pol data off r n p H. cbn [parse_fv] in H. eapply fv_body_shape; [exact IHf | exact H].
Qed.

(* NewBIOSRegion: the elements are paddings and volumes of the parsed shape *)
Lemma parse_bios_shape d : forall k pol buf abs elems p,
  parse_bios dec u2s nvar d k pol buf abs = Ok (elems, p) -> forallb (shp 0) elems = true.
Proof.
  induction k as [|k IH]; intros pol buf abs elems p H; [discriminate|].
  cbn [parse_bios] in H.
  destruct (find_fv_offset buf <? 0).
  - inversion H; subst. destruct (zlen buf =? 0); reflexivity.
  - apply bind_ok in H as ([v pol'] & Hv & H).
    destruct (match v with NVol h _ _ => v_length h | _ => 0 end =? 0); [discriminate|].
    apply bind_ok in H as ([r pol''] & Hr & H). inversion H; subst.
    destruct (parse_shape d) as (_ & _ & Pv). destruct (Pv _ _ _ _ _ _ Hv) as (S0 & _ & _).
    rewrite forallb_app. cbn [forallb]. rewrite S0, (IH _ _ _ _ _ Hr).
    destruct (0 <? find_fv_offset buf); reflexivity.
Qed.

End ParseShape.

(* the operations keep the shape *)
Lemma map_out_forallb {A} (f : A -> outcome A) (P : A -> bool) l l' :
  (forall x y, In x l -> f x = Ok y -> P x = true -> P y = true) ->
  map_out f l = Ok l' -> forallb P l = true -> forallb P l' = true.
Proof.
  revert l'. induction l as [|x r IH]; intros l' Hf H Hp; cbn [map_out] in H.
  - inversion H; reflexivity.
  - apply bind_ok in H as (y & Hy & H). apply bind_ok in H as (ys & Hys & H). inversion H; subst.
    cbn [forallb] in *. apply andb_true_iff in Hp as [Hx Hr].
    rewrite (Hf x y (or_introl eq_refl) Hy Hx). cbn [andb].
    apply IH; auto. intros; eapply Hf; eauto. right; auto.
Qed.

Lemma forallb_map_in {A} (f : A -> A) (P : A -> bool) l :
  (forall x, In x l -> P x = true -> P (f x) = true) -> forallb P l = true -> forallb P (map f l) = true.
Proof.
  induction l as [|x r IH]; intros Hf Hp; [reflexivity|]. cbn [map forallb] in *.
  apply andb_true_iff in Hp as [Hx Hr]. rewrite (Hf x (or_introl eq_refl) Hx). cbn [andb].
  apply IH; auto. intros; apply Hf; auto. right; auto.
Qed.

Lemma ins_list_forallb (P : node -> bool) it nf l1 f l2 :
  P nf = true -> forallb P (l1 ++ f :: l2) = true -> forallb P (ins_list it nf l1 f l2) = true.
Proof.
  intros Hn H. rewrite forallb_app in H. cbn [forallb] in H.
  apply andb_true_iff in H as [H1 H]. apply andb_true_iff in H as [Hf H2].
  destruct it; cbn [ins_list forallb]; rewrite ?forallb_app; cbn [forallb];
    rewrite ?H1, ?H2, ?Hf, ?Hn; reflexivity.
Qed.

Lemma ins_visit_shape it s nf : shp 1 nf = true ->
  forall n c n', ins_visit it s nf n = Ok n' -> shp c n = true -> shp c n' = true.
Proof.
  intros Hnf.
  induction n as [h buf kids IH | h buf kids IH | h buf kids IH | off buf] using node_ind';
    intros c n' H Hs; cbn [ins_visit] in H.
  - apply bind_ok in H as (ks & Hk & H). inversion H; subst.
    destruct c as [|[|[|c]]]; try discriminate Hs. cbn [shp] in *.
    eapply map_out_forallb; [|exact Hk|exact Hs].
    rewrite Forall_forall in IH. intros x y Hx Hy Px. eapply IH; eauto.
  - apply bind_ok in H as (ks & Hk & H). inversion H; subst.
    destruct c as [|[|[|c]]]; try discriminate Hs. cbn [shp] in *.
    eapply map_out_forallb; [|exact Hk|exact Hs].
    rewrite Forall_forall in IH. intros x y Hx Hy Px. eapply IH; eauto.
  - assert (Hk : forallb (shp 1) kids = true) by (destruct c as [|[|[|c]]]; try discriminate Hs; exact Hs).
    assert (G : forall fs, forallb (shp 1) fs = true -> shp c (NVol h buf fs) = true)
      by (intros fs Hfs; destruct c as [|[|[|c]]]; try discriminate Hs; exact Hfs).
    destruct (first_match_split s kids) as [Hnone | (l1 & f & l2 & -> & Hf & Hl1)].
    + rewrite (first_match_none _ _ _ Hnone) in H.
      apply bind_ok in H as (ks & Hks & H). inversion H; subst. apply G.
      eapply map_out_forallb; [|exact Hks|exact Hk].
      rewrite Forall_forall in IH. intros x y Hx Hy Px. eapply IH; eauto.
    + rewrite (first_match_some s l1 f l2 0 Hl1 Hf), ins_at_ok in H. cbn [bind] in H.
      inversion H; subst. apply G. apply ins_list_forallb; auto.
  - inversion H; subst. exact Hs.
Qed.

Lemma ins_fv_shape front s nf : shp 1 nf = true ->
  forall n c, shp c n = true -> shp c (ins_fv front s nf n) = true.
Proof.
  intros Hnf.
  induction n as [h buf kids IH | h buf kids IH | h buf kids IH | off buf] using node_ind';
    intros c Hs; cbn [ins_fv].
  - destruct c as [|[|[|c]]]; try discriminate Hs. cbn [shp] in *.
    apply forallb_map_in; auto. rewrite Forall_forall in IH. intros; apply IH; auto.
  - destruct c as [|[|[|c]]]; try discriminate Hs. cbn [shp] in *.
    apply forallb_map_in; auto. rewrite Forall_forall in IH. intros; apply IH; auto.
  - assert (Hk : forallb (shp 1) kids = true) by (destruct c as [|[|[|c]]]; try discriminate Hs; exact Hs).
    assert (G : forall fs, forallb (shp 1) fs = true -> shp c (NVol h buf fs) = true)
      by (intros fs Hfs; destruct c as [|[|[|c]]]; try discriminate Hs; exact Hfs).
    destruct (pred_fv s h); apply G.
    + destruct front; [cbn [forallb]; rewrite Hnf, Hk; reflexivity|].
      rewrite forallb_app. cbn [forallb]. rewrite Hnf, Hk. reflexivity.
    + apply forallb_map_in; auto. rewrite Forall_forall in IH. intros; apply IH; auto.
  - exact Hs.
Qed.

Lemma pad_node_shape pol size n : pad_node pol size = Ok n -> shp 1 n = true.
Proof.
  unfold pad_node. destruct (size <? file_header_min_length); [discriminate|].
  destruct (negb ((pol =? 255) || (pol =? 0))); [discriminate|].
  destruct (set_size 0 size false). destruct (checksum_and_assemble _ _ _ _).
  intros H. inversion H. reflexivity.
Qed.

Lemma rm_list_forallb s pol pad : forall fs fs1, rm_list s pol pad fs = Ok fs1 ->
  forallb (shp 1) fs = true -> forallb (shp 1) fs1 = true.
Proof.
  induction fs as [|f r IH]; intros fs1 H Hs; cbn [rm_list] in H.
  - inversion H; reflexivity.
  - cbn [forallb] in Hs. apply andb_true_iff in Hs as [Hf Hr].
    destruct (fmatch s f).
    + destruct (pad || (file_type f =? fv_filetype_peim)).
      * apply bind_ok in H as (pf & Hp & H). apply bind_ok in H as (r' & Hr' & H). inversion H; subst.
        cbn [forallb]. rewrite (pad_node_shape _ _ _ Hp), (IH _ Hr' Hr). reflexivity.
      * apply IH; auto.
    + apply bind_ok in H as (r' & Hr' & H). inversion H; subst.
      cbn [forallb]. rewrite Hf, (IH _ Hr' Hr). reflexivity.
Qed.

Lemma rm_visit_shape s pol pad : forall d n c n',
  rm_visit d s pol pad n = Ok n' -> shp c n = true -> shp c n' = true.
Proof.
  induction d as [|d IH]; intros n c n' H Hs; [discriminate|].
  destruct n as [h buf kids | h buf kids | h buf kids | off b]; cbn [rm_visit] in H.
  - apply bind_ok in H as (ks & Hk & H). inversion H; subst.
    destruct c as [|[|[|c]]]; try discriminate Hs. cbn [shp] in *.
    eapply map_out_forallb; [|exact Hk|exact Hs]. intros x y _ Hy Px. eapply IH; eauto.
  - apply bind_ok in H as (ks & Hk & H). inversion H; subst.
    destruct c as [|[|[|c]]]; try discriminate Hs. cbn [shp] in *.
    eapply map_out_forallb; [|exact Hk|exact Hs]. intros x y _ Hy Px. eapply IH; eauto.
  - apply bind_ok in H as (fs & Hf & H). apply bind_ok in H as (fs' & Hk & H). inversion H; subst.
    rewrite rm_loop_is_rm_list in Hf.
    assert (Hkids : forallb (shp 1) kids = true) by (destruct c as [|[|[|c]]]; try discriminate Hs; exact Hs).
    assert (G : forall l, forallb (shp 1) l = true -> shp c (NVol h buf l) = true)
      by (intros l Hl; destruct c as [|[|[|c]]]; try discriminate Hs; exact Hl).
    apply G. eapply map_out_forallb; [|exact Hk|eapply rm_list_forallb; eauto].
    intros x y _ Hy Px. eapply IH; eauto.
  - inversion H; subst. exact Hs.
Qed.

Lemma pe_sec_shape pe : forall n, shp 2 n = true -> shp 2 (pe_sec pe n) = true.
Proof.
  induction n as [h buf kids IH | h buf kids IH | h buf kids IH | off buf] using node_ind';
    intros Hs; cbn [pe_sec]; auto.
  destruct (s_type h =? section_type_pe32).
  - destruct (gen_sec_header h pe). reflexivity.
  - cbn [shp] in *. apply forallb_map_in; auto. rewrite Forall_forall in IH. intros; apply IH; auto.
Qed.

Lemma pe_visit_shape s pe : forall n c, shp c n = true -> shp c (pe_visit s pe n) = true.
Proof.
  induction n as [h buf kids IH | h buf kids IH | h buf kids IH | off buf] using node_ind';
    intros c Hs; cbn [pe_visit].
  - destruct c as [|[|[|c]]]; try discriminate Hs. cbn [shp] in *.
    apply forallb_map_in; auto. rewrite Forall_forall in IH. intros; apply IH; auto.
  - destruct c as [|[|[|c]]]; try discriminate Hs. cbn [shp] in Hs.
    destruct (fmatch s (NFile h buf kids)); cbn [shp].
    + apply forallb_map_in; auto. intros; apply pe_sec_shape; auto.
    + apply forallb_map_in; auto. rewrite Forall_forall in IH. intros; apply IH; auto.
  - assert (Hk : forallb (shp 1) kids = true) by (destruct c as [|[|[|c]]]; try discriminate Hs; exact Hs).
    assert (G : forall fs, forallb (shp 1) fs = true -> shp c (NVol h buf fs) = true)
      by (intros fs Hfs; destruct c as [|[|[|c]]]; try discriminate Hs; exact Hfs).
    apply G. apply forallb_map_in; auto. rewrite Forall_forall in IH. intros; apply IH; auto.
  - exact Hs.
Qed.

Definition cop_ok (c : cop) : Prop :=
  match c with CInsert _ _ nf => shp 1 nf = true | _ => True end.

Lemma run_op_shape d pol c elems elems' : cop_ok c ->
  run_op d pol c elems = Ok elems' -> forallb (shp 0) elems = true -> forallb (shp 0) elems' = true.
Proof.
  intros Hc H Hs. destruct c as [it s nf | pad s | s pe |]; cbn [run_op cop_ok] in *.
  - unfold insert_run in H. destruct (find_elems s elems) as [|m [|m2 r]]; try discriminate.
    destruct m; try discriminate.
    + eapply map_out_forallb; [|exact H|exact Hs]. intros x y _ Hy Px. eapply ins_visit_shape; eauto.
    + destruct it; try discriminate; inversion H; subst;
        (apply forallb_map_in; auto; intros; apply ins_fv_shape; auto).
  - unfold remove_run in H. eapply map_out_forallb; [|exact H|exact Hs].
    intros x y _ Hy Px. eapply rm_visit_shape; eauto.
  - unfold replace_pe32_run in H. destruct (negb (prefixb [77; 90] pe)); [discriminate|].
    destruct (find_elems s elems) as [|m [|m2 r]]; try discriminate. inversion H; subst.
    apply forallb_map_in; auto. intros; apply pe_visit_shape; auto.
  - inversion H; subst. exact Hs.
Qed.

Lemma run_ops_shape d pol : forall cs elems elems', Forall cop_ok cs ->
  run_ops d pol cs elems = Ok elems' -> forallb (shp 0) elems = true -> forallb (shp 0) elems' = true.
Proof.
  induction cs as [|c r IH]; intros elems elems' Hc H Hs; cbn [run_ops] in H.
  - inversion H; subst. exact Hs.
  - inversion Hc; subst. apply bind_ok in H as (e1 & He & H).
    eapply IH; eauto. eapply run_op_shape; eauto.
Qed.

Section CliShape.
Variable dec : Z -> bytes -> option bytes.
Variable u2s : bytes -> bytes.
Variable nvar : bytes -> option bytes.

Lemma parse_cli_ok d : forall ops pol cops pol', parse_cli dec u2s nvar d pol ops = Ok (cops, pol') ->
  Forall cop_ok cops.
Proof.
  induction ops as [|o r IH]; intros pol cops pol' H; cbn [parse_cli] in H.
  - inversion H; constructor.
  - apply bind_ok in H as ([c pol1] & Hc & H). apply bind_ok in H as ([cs pol2] & Hr & H).
    inversion H; subst. constructor; [|eapply IH; eauto].
    destruct o as [it a fb | pad a | a pe |]; cbn [parse_op] in Hc.
    + apply bind_ok in Hc as ([fo p1] & Hf & Hc). destruct fo as [nf|]; [|discriminate].
      inversion Hc; subst. cbn [cop_ok].
      destruct (parse_shape dec u2s nvar d) as (_ & Pf & _). eapply Pf; eauto.
    + inversion Hc; exact I.
    + inversion Hc; exact I.
    + inversion Hc; exact I.
Qed.

(* every tree the command line can reach has the parsed shape *)
Lemma edit_tree_shape d ops img cops pol0 elems pol elems' :
  parse_cli dec u2s nvar d 240 ops = Ok (cops, pol0) ->
  parse_bios dec u2s nvar d (Z.to_nat (zlen img) + 1) pol0 img 0 = Ok (elems, pol) ->
  run_ops d pol cops elems = Ok elems' -> forallb (shp 0) elems' = true.
Proof.
  intros H1 H2 H3. eapply run_ops_shape; [eapply parse_cli_ok; eauto | exact H3 |].
  eapply parse_bios_shape; eauto.
Qed.

End CliShape.
