(* Proofs/EditProofs.v — lemmas about Model/Edit.v (property C03, and the edit half of C02). *)
From Fiano Require Import Base.Bytes Base.BytesLemmas Gen.Consts Model.Ffs Model.Edit.
From Coq Require Import ZifyBool ZifyNat.
Open Scope Z_scope.

(* ---------- induction over the tree ---------- *)

Section NodeInd.
Variable P : node -> Prop.
Hypothesis Hsec : forall h buf kids, Forall P kids -> P (NSec h buf kids).
Hypothesis Hfile : forall h buf kids, Forall P kids -> P (NFile h buf kids).
Hypothesis Hvol : forall h buf kids, Forall P kids -> P (NVol h buf kids).
Hypothesis Hpad : forall off buf, P (NPad off buf).

Fixpoint node_ind' (n : node) : P n :=
  let all := fix all (l : list node) : Forall P l :=
    match l with
    | [] => Forall_nil P
    | x :: r => Forall_cons x (node_ind' x) (all r)
    end in
  match n with
  | NSec h buf kids => Hsec h buf kids (all kids)
  | NFile h buf kids => Hfile h buf kids (all kids)
  | NVol h buf kids => Hvol h buf kids (all kids)
  | NPad off buf => Hpad off buf
  end.
End NodeInd.

(* ---------- pkg/guid: the text form parses back ---------- *)

Lemma hexdigit_facts : forall v, 0 <= v < 16 ->
  hexval (hexdigit v) = Some v /\ (hexdigit v =? 45) = false.
Proof.
  intros v Hv.
  assert (H : forallb (fun v => match hexval (hexdigit v) with Some w => w =? v | None => false end
                               && negb (hexdigit v =? 45))
                      (map Z.of_nat (seq 0 16)) = true) by (vm_compute; reflexivity).
  rewrite forallb_forall in H.
  specialize (H v). assert (Hin : In v (map Z.of_nat (seq 0 16))).
  { apply in_map_iff. exists (Z.to_nat v). split; [lia|]. apply in_seq. lia. }
  specialize (H Hin). apply andb_true_iff in H as [H1 H2].
  destruct (hexval (hexdigit v)) as [w|]; [|discriminate].
  split; [f_equal; lia | destruct (hexdigit v =? 45); [discriminate | reflexivity]].
Qed.

Lemma hex_decode_hex2 b r : 0 <= b < 256 ->
  hex_decode (hex2 b ++ r) = match hex_decode r with Some t => Some (b :: t) | None => None end.
Proof.
  intros Hb. unfold hex2. cbn [app hex_decode].
  assert (H1 : 0 <= b / 16 < 16) by (split; [apply Z.div_pos; lia | apply Z.div_lt_upper_bound; lia]).
  assert (H2 : 0 <= b mod 16 < 16) by (apply Z.mod_pos_bound; lia).
  destruct (hexdigit_facts _ H1) as [E1 _]. destruct (hexdigit_facts _ H2) as [E2 _].
  rewrite E1, E2. destruct (hex_decode r); auto.
  f_equal. f_equal. pose proof (Z.div_mod b 16). lia.
Qed.

Lemma hex_decode_hexs l : bytes_ok l = true -> hex_decode (hexs l) = Some l.
Proof.
  induction l as [|b r IH]; intros H; [reflexivity|].
  rewrite bytes_ok_cons in H. apply andb_true_iff in H as [Hb Hr]. apply byte_ok_iff in Hb.
  unfold hexs. cbn [flat_map]. rewrite hex_decode_hex2 by lia.
  fold (hexs r). rewrite (IH Hr). reflexivity.
Qed.

Definition nothyphen (c : Z) : bool := negb (c =? 45).

Lemma filter_hexs l : bytes_ok l = true -> filter nothyphen (hexs l) = hexs l.
Proof.
  induction l as [|b r IH]; intros H; [reflexivity|].
  rewrite bytes_ok_cons in H. apply andb_true_iff in H as [Hb Hr]. apply byte_ok_iff in Hb.
  unfold hexs. cbn [flat_map]. unfold hex2 at 1. cbn [app filter].
  assert (H1 : 0 <= b / 16 < 16) by (split; [apply Z.div_pos; lia | apply Z.div_lt_upper_bound; lia]).
  assert (H2 : 0 <= b mod 16 < 16) by (apply Z.mod_pos_bound; lia).
  destruct (hexdigit_facts _ H1) as [_ E1]. destruct (hexdigit_facts _ H2) as [_ E2].
  unfold nothyphen at 1 2. rewrite E1, E2. cbn [negb].
  fold (hexs r). rewrite (IH Hr). reflexivity.
Qed.

Lemma hexs_app a b : hexs (a ++ b) = hexs a ++ hexs b.
Proof. unfold hexs. apply flat_map_app. Qed.

Lemma guid_swap_explicit a0 a1 a2 a3 b0 b1 c0 c1 d0 d1 d2 d3 d4 d5 d6 d7 :
  guid_swap [a0; a1; a2; a3; b0; b1; c0; c1; d0; d1; d2; d3; d4; d5; d6; d7]
  = [a3; a2; a1; a0; b1; b0; c1; c0; d0; d1; d2; d3; d4; d5; d6; d7].
Proof. reflexivity. Qed.

Lemma guid_text_roundtrip_lemma : forall g,
  length g = 16%nat -> bytes_ok g = true -> guid_parse (guid_string g) = Some g.
Proof.
  intros g Hl Hok.
  do 16 (destruct g as [|? g]; [discriminate Hl|]). destruct g; [|discriminate Hl]. clear Hl.
  unfold guid_parse, guid_string. rewrite guid_swap_explicit.
  set (u := [z2; z1; z0; z; z4; z3; z6; z5; z7; z8; z9; z10; z11; z12; z13; z14]).
  assert (Hu : bytes_ok u = true).
  { unfold bytes_ok in *. rewrite forallb_forall in *. intros x Hx. apply Hok.
    unfold u in Hx. cbn [In] in *. intuition. }
  change (sub 0 4 u) with [z2; z1; z0; z].
  change (sub 4 2 u) with [z4; z3].
  change (sub 6 2 u) with [z6; z5].
  change (sub 8 2 u) with [z7; z8].
  change (sub 10 6 u) with [z9; z10; z11; z12; z13; z14].
  change (fun c : Z => negb (c =? 45)) with nothyphen.
  assert (Hs : forall l, bytes_ok l = true -> forall r, filter nothyphen (hexs l ++ r) = hexs l ++ filter nothyphen r).
  { intros l Hl r. rewrite filter_app, filter_hexs; auto. }
  assert (Hsub : forall l, (forall x, In x l -> In x u) -> bytes_ok l = true).
  { intros l Hin. unfold bytes_ok. apply forallb_forall. intros x Hx.
    unfold bytes_ok in Hu. rewrite forallb_forall in Hu. apply Hu, Hin, Hx. }
  rewrite Hs by (apply Hsub; unfold u; cbn [In]; intuition).
  change ([45] ++ ?r) with (45 :: r). cbn [app filter]. change (nothyphen 45) with false. cbv iota.
  rewrite Hs by (apply Hsub; unfold u; cbn [In]; intuition).
  cbn [app filter]. change (nothyphen 45) with false. cbv iota.
  rewrite Hs by (apply Hsub; unfold u; cbn [In]; intuition).
  cbn [app filter]. change (nothyphen 45) with false. cbv iota.
  rewrite Hs by (apply Hsub; unfold u; cbn [In]; intuition).
  cbn [app filter]. change (nothyphen 45) with false. cbv iota.
  rewrite filter_hexs by (apply Hsub; unfold u; cbn [In]; intuition).
  rewrite <- !hexs_app. cbn [app]. fold u.
  rewrite hex_decode_hexs by exact Hu.
  change (zlen u) with 16. cbn [Z.eqb Pos.eqb]. unfold u. rewrite guid_swap_explicit. reflexivity.
Qed.

Lemma guid_string_inj_lemma : forall g g',
  length g = 16%nat -> bytes_ok g = true -> length g' = 16%nat -> bytes_ok g' = true ->
  guid_string g = guid_string g' -> g = g'.
Proof.
  intros g g' H1 H2 H3 H4 E.
  pose proof (guid_text_roundtrip_lemma g H1 H2) as A.
  pose proof (guid_text_roundtrip_lemma g' H3 H4) as B.
  rewrite E in A. rewrite A in B. congruence.
Qed.
