(* Proofs/ExtractNvarProofs.v — property C07 for NVAR stores: the files Extract writes for the entries
   of a store are exactly [nv_all_paths]; ParseDir of them gives a store that agrees with the original
   on everything the assembler reads ([vrel]/[srel]: the header fields, the content of valid entries,
   the whole buffer of the others, recursively through nested stores; NVarHeader.Next, tagged json:"-",
   is recomputed); hence the Assemble pass after the directory round trip produces the bytes of the
   direct Assemble pass. *)
From Coq Require Import ZifyBool ZifyNat.
From Fiano Require Import Base.Bytes Base.BytesLemmas Gen.Consts Model.Nvar Model.Extract Model.ExtractNvar
  Proofs.ExtractProofs.
Open Scope Z_scope.


(* ---------- paths ---------- *)
Lemma nvdir_eqb_eq a b : nvdir_eqb a b = true <-> a = b.
Proof.
  destruct a, b; cbn; split; intros H; try discriminate.
  - apply bytes_eqb_eq in H. subst. reflexivity.
  - inversion H; subst. apply bytes_eqb_eq. reflexivity.
  - apply Z.eqb_eq in H. subst. reflexivity.
  - inversion H; subst. apply Z.eqb_refl.
Qed.

Lemma dirs_eqb_eq a : forall b, dirs_eqb a b = true <-> a = b.
Proof.
  induction a as [|x a IH]; destruct b as [|y b]; cbn; split; intros H; try discriminate; try reflexivity.
  - apply andb_true_iff in H. destruct H as [H1 H2]. apply nvdir_eqb_eq in H1. apply IH in H2. subst. reflexivity.
  - inversion H; subst. apply andb_true_iff. split; [apply nvdir_eqb_eq|apply IH]; reflexivity.
Qed.

Lemma nvname_eqb_eq a b : nvname_eqb a b = true <-> a = b.
Proof.
  destruct a, b; cbn; split; intros H; try discriminate.
  - apply bytes_eqb_eq in H. subst. reflexivity.
  - inversion H; subst. apply bytes_eqb_eq. reflexivity.
  - apply andb_true_iff in H. destruct H as [H1 H2]. apply bytes_eqb_eq in H1. apply Z.eqb_eq in H2. subst. reflexivity.
  - inversion H; subst. apply andb_true_iff. split; [apply bytes_eqb_eq; reflexivity|apply Z.eqb_refl].
  - apply Z.eqb_eq in H. subst. reflexivity.
  - inversion H; subst. apply Z.eqb_refl.
Qed.

Lemma nvpath_eqb_eq a b : nvpath_eqb a b = true <-> a = b.
Proof.
  destruct a as [d n], b as [d' n']. unfold nvpath_eqb. cbn [fst snd]. split; intros H.
  - apply andb_true_iff in H. destruct H as [H1 H2]. apply dirs_eqb_eq in H1. apply nvname_eqb_eq in H2. subst. reflexivity.
  - inversion H; subst. apply andb_true_iff. split; [apply dirs_eqb_eq|apply nvname_eqb_eq]; reflexivity.
Qed.

Lemma nvnodupb_NoDup l : nvnodupb l = true -> NoDup l.
Proof.
  induction l as [|x l IH]; cbn; intros H; constructor; apply andb_true_iff in H; destruct H as [H1 H2]; auto.
  intros Hin. apply negb_true_iff in H1.
  assert (existsb (nvpath_eqb x) l = true); [|congruence].
  apply existsb_exists. exists x. split; [assumption|apply nvpath_eqb_eq; reflexivity].
Qed.

Lemma nvfs_read_notin F p : ~ In p (map fst F) -> nvfs_read F p = None.
Proof.
  induction F as [|[q b] F IH]; cbn; intros H; [reflexivity|].
  rewrite IH by tauto. destruct (nvpath_eqb q p) eqn:E; [|reflexivity].
  apply nvpath_eqb_eq in E. subst. tauto.
Qed.

Lemma nvfs_read_in F : NoDup (map fst F) -> forall p b, In (p, b) F -> nvfs_read F p = Some b.
Proof.
  induction F as [|[q c] F IH]; cbn; intros ND p b H; [contradiction|].
  inversion ND as [|? ? Hq ND']; subst. destruct H as [H|H].
  - inversion H; subst. rewrite nvfs_read_notin by assumption.
    replace (nvpath_eqb p p) with true; [reflexivity|]. symmetry. apply nvpath_eqb_eq. reflexivity.
  - rewrite (IH ND' p b H). reflexivity.
Qed.

(* ---------- unfolding ---------- *)
Definition ext_one (rec : list nvdir -> nstore -> outcome nvfs) (dirs : list nvdir) (v : nvar) : outcome nvfs :=
  let dv := dirs ++ [ND_guid (v_guid v)] in
  let dk := dv ++ [ND_off (v_off v)] in
  if is_valid v then
    match v_sub v with
    | None =>
      do c <- of_opt 601 (slice (v_dataoff v) (zlen (v_buf v)) (v_buf v));
      Ok [((dv, nv_own_name v), c)]
    | Some ns => rec dk ns
    end
  else
    do kids <- (match v_sub v with None => Ok [] | Some ns => rec dk ns end);
    Ok (((dv, nv_own_name v), v_buf v) :: kids).

Lemma nv_extract_S d dirs s : nv_extract (S d) dirs s =
  do fs <- map_out (ext_one (nv_extract d) dirs) (s_entries s); Ok (concat fs).
Proof. reflexivity. Qed.

Definition paths_one (rec : list nvdir -> nstore -> list nvpath) (dirs : list nvdir) (v : nvar) : list nvpath :=
  let dv := dirs ++ [ND_guid (v_guid v)] in
  let dk := dv ++ [ND_off (v_off v)] in
  if is_valid v then
    match v_sub v with
    | None => [(dv, nv_own_name v)]
    | Some ns => rec dk ns
    end
  else (dv, nv_own_name v) :: (match v_sub v with None => [] | Some ns => rec dk ns end).

Lemma nv_all_paths_S d dirs s : nv_all_paths (S d) dirs s =
  concat (map (paths_one (nv_all_paths d) dirs) (s_entries s)).
Proof. reflexivity. Qed.

Lemma map_out_ok {A B} (f : A -> outcome B) l r : map_out f l = Ok r ->
  Forall2 (fun a b => f a = Ok b) l r.
Proof.
  revert r. induction l as [|a l IH]; cbn; intros r H.
  - inversion H. constructor.
  - destruct (f a) eqn:E; cbn [bind] in H; try discriminate.
    destruct (map_out f l) eqn:E2; cbn [bind] in H; try discriminate.
    inversion H; subst. constructor; auto.
Qed.

(* the files written are exactly the paths [nv_all_paths] lists *)
Lemma nv_extract_paths_eq : forall d dirs s f, nv_extract d dirs s = Ok f -> map fst f = nv_all_paths d dirs s.
Proof.
  induction d as [|d IH]; intros dirs s f H; [discriminate|].
  rewrite nv_extract_S in H. rewrite nv_all_paths_S.
  destruct (map_out (ext_one (nv_extract d) dirs) (s_entries s)) as [fs| | |] eqn:E; cbn [bind] in H; try discriminate.
  inversion H; subst. apply map_out_ok in E. clear H.
  rewrite concat_map. f_equal.
  induction E as [|v x l r Hv Hl IHl]; [reflexivity|]. cbn [map]. f_equal; [|exact IHl].
  unfold ext_one in Hv. unfold paths_one.
  destruct (is_valid v).
  - destruct (v_sub v) as [ns|].
    + apply IH. exact Hv.
    + destruct (slice _ _ _); cbn in Hv; inversion Hv. reflexivity.
  - destruct (v_sub v) as [ns|]; cbn [bind] in Hv.
    + destruct (nv_extract d _ ns) as [k| | |] eqn:Ek; cbn [bind] in Hv; inversion Hv; subst.
      cbn. f_equal. apply IH. exact Ek.
    + inversion Hv. reflexivity.
Qed.


(* ---------- what the assembler reads of a store ---------- *)
Definition fields_eq (a b : nvar) : Prop :=
  v_size a = v_size b /\ v_attrs a = v_attrs b /\ v_guid a = v_guid b /\ v_gidx a = v_gidx b /\
  v_name a = v_name b /\ v_type a = v_type b /\ v_off a = v_off b /\ v_nextoff a = v_nextoff b /\
  v_dataoff a = v_dataoff b.

Inductive vrel : nvar -> nvar -> Prop :=
| VR : forall a b, fields_eq a b ->
    subrel (v_sub a) (v_sub b) ->
    (is_valid b = false -> v_buf a = v_buf b) ->
    (is_valid b = true -> v_sub b = None ->
       slice (v_dataoff b) (zlen (v_buf a)) (v_buf a) = slice (v_dataoff b) (zlen (v_buf b)) (v_buf b)) ->
    vrel a b
with subrel : option nstore -> option nstore -> Prop :=
| SubN : subrel None None
| SubS : forall x y, srel x y -> subrel (Some x) (Some y)
with srel : nstore -> nstore -> Prop :=
| SR : forall a b, s_guids a = s_guids b -> s_len a = s_len b -> Forall2 vrel (s_entries a) (s_entries b) ->
    srel a b.

(* ---------- ParseDir of what Extract wrote is related to the store ---------- *)
Definition nvholds (F f : nvfs) : Prop := forall p b, In (p, b) f -> nvfs_read F p = Some b.

Definition rel_one (rec : list nvdir -> nstore -> outcome nstore) (F : nvfs) (dirs : list nvdir) (v : nvar)
  : outcome nvar :=
  let dv := dirs ++ [ND_guid (v_guid v)] in
  let dk := dv ++ [ND_off (v_off v)] in
  let has_file := negb (is_valid v) || (match v_sub v with None => true | Some _ => false end) in
  do file <- (if has_file && sv_nv_path then
                match nvfs_read F (dv, nv_own_name v) with
                | Some b => Ok b
                | None => Err E_NVNOFILE
                end
              else Ok []);
  do sub' <- (match v_sub v with
              | None => Ok None
              | Some ns => do ns' <- rec dk ns; Ok (Some ns')
              end);
  let valid' := is_valid_type (if sv_nv_type then v_type v else 0) in
  let buf := if valid' then zrepeat 0 (if sv_nv_dataoff then v_dataoff v else 0) ++ file else file in
  Ok (proj_nvar v buf sub').

Lemma nv_reload_S d F dirs s : nv_reload (S d) F dirs s =
  do es <- map_out (rel_one (nv_reload d F) F dirs) (if sv_st_entries then s_entries s else []);
  Ok (mkStore es (if sv_st_guids then s_guids s else []) []
              (if sv_st_free then s_free s else 0)
              (if sv_st_goff then s_goff s else 0)
              (if sv_st_len then s_len s else 0)).
Proof. reflexivity. Qed.

Lemma nvholds_app F a b : nvholds F (a ++ b) -> nvholds F a /\ nvholds F b.
Proof. unfold nvholds. intros H. split; intros p x Hin; apply H; apply in_or_app; auto. Qed.

Lemma zlen_zrepeat' x n : 0 <= n -> zlen (zrepeat x n) = n.
Proof.
  intros H. unfold zlen, zrepeat. assert (L : forall k, length (repeatz x k) = k) by (induction k; cbn; auto).
  rewrite L. lia.
Qed.

Lemma slice_zeros_app n c : 0 <= n -> slice n (zlen (zrepeat 0 n ++ c)) (zrepeat 0 n ++ c) = Some c.
Proof.
  intros H. pose proof (zlen_zrepeat' 0 n H) as L. pose proof (zlen_nonneg c).
  unfold slice. rewrite zlen_app, L.
  replace ((0 <=? n) && (n <=? n + zlen c) && (n + zlen c <=? n + zlen c)) with true by lia.
  f_equal. replace (zskipn n (zrepeat 0 n ++ c)) with c.
  - replace (n + zlen c - n) with (zlen c) by lia. unfold zfirstn, zlen. rewrite Nat2Z.id. apply firstn_all.
  - rewrite <- L at 1. symmetry. apply zskipn_app_exact.
Qed.

Lemma reload_rel : forall d dirs s f F, nv_extract d dirs s = Ok f -> nvholds F f ->
  exists s', nv_reload d F dirs s = Ok s' /\ srel s' s.
Proof.
  induction d as [|d IH]; intros dirs s f F H HF; [discriminate|].
  rewrite nv_extract_S in H. rewrite nv_reload_S.
  destruct (map_out (ext_one (nv_extract d) dirs) (s_entries s)) as [fs| | |] eqn:E; cbn [bind] in H; try discriminate.
  inversion H; subst. clear H. apply map_out_ok in E.
  change (if sv_st_entries then s_entries s else []) with (s_entries s).
  assert (K : exists es, map_out (rel_one (nv_reload d F) F dirs) (s_entries s) = Ok es /\ Forall2 vrel es (s_entries s)).
  { induction E as [|v x l r Hv Hl IHl]; [exists []; split; [reflexivity|constructor]|].
    cbn [concat] in HF. apply nvholds_app in HF. destruct HF as [HF1 HF2].
    destruct (IHl HF2) as (es & Ees & Res).
    assert (V : exists v', rel_one (nv_reload d F) F dirs v = Ok v' /\ vrel v' v).
    { unfold ext_one in Hv. unfold rel_one.
      destruct (is_valid v) eqn:IV.
      - destruct (v_sub v) as [ns|] eqn:SUB.
        + (* valid, nested store: no file of its own *)
          cbn [negb orb andb bind].
          destruct (IH _ _ _ F Hv HF1) as (ns' & Rns & Sns). rewrite Rns. cbn [bind].
          eexists. split; [reflexivity|].
          constructor; cbn.
          * unfold fields_eq. destruct v; cbn. repeat split; reflexivity.
          * destruct v; cbn in *. rewrite SUB. constructor. exact Sns.
          * intros C. destruct v; cbn in *. congruence.
          * intros _ C. destruct v; cbn in *. congruence.
        + (* valid leaf: the content *)
          destruct (slice (v_dataoff v) (zlen (v_buf v)) (v_buf v)) as [c|] eqn:SL; cbn in Hv; inversion Hv; subst.
          cbn [negb orb andb]. change (true && sv_nv_path) with true. cbv iota.
          rewrite (HF1 _ c) by (left; reflexivity). cbn [bind].
          change (if sv_nv_type then v_type v else 0) with (v_type v).
          change (if sv_nv_dataoff then v_dataoff v else 0) with (v_dataoff v).
          unfold is_valid in IV. rewrite IV.
          eexists. split; [reflexivity|].
          assert (D0 : 0 <= v_dataoff v).
          { unfold slice in SL. destruct ((0 <=? v_dataoff v) && (v_dataoff v <=? zlen (v_buf v)) && (zlen (v_buf v) <=? zlen (v_buf v))) eqn:C; [lia|discriminate]. }
          constructor; cbn.
          * unfold fields_eq. destruct v; cbn. repeat split; reflexivity.
          * destruct v; cbn in *. rewrite SUB. constructor.
          * intros C. unfold is_valid in C. destruct v; cbn in *. congruence.
          * intros _ _. destruct v; cbn in *. rewrite SL. apply slice_zeros_app. exact D0.
      - (* not valid: the whole entry *)
        cbn [negb orb andb]. change (true && sv_nv_path) with true. cbv iota.
        change (if sv_nv_type then v_type v else 0) with (v_type v).
        unfold is_valid in IV. rewrite IV.
        destruct (v_sub v) as [ns|] eqn:SUB; cbn [bind] in Hv.
        + destruct (nv_extract d ((dirs ++ [ND_guid (v_guid v)]) ++ [ND_off (v_off v)]) ns) as [k| | |] eqn:Ek; cbn [bind] in Hv; inversion Hv; subst.
          rewrite (HF1 _ (v_buf v)) by (left; reflexivity). cbn [bind].
          assert (HFk : nvholds F k) by (intros p b Hin; apply HF1; right; exact Hin).
          destruct (IH _ _ _ F Ek HFk) as (ns' & Rns & Sns). rewrite Rns. cbn [bind].
          eexists. split; [reflexivity|].
          constructor; cbn.
          * unfold fields_eq. destruct v; cbn. repeat split; reflexivity.
          * destruct v; cbn in *. rewrite SUB. constructor. exact Sns.
          * intros _. destruct v; reflexivity.
          * intros C. unfold is_valid in C. destruct v; cbn in *. congruence.
        + inversion Hv; subst.
          rewrite (HF1 _ (v_buf v)) by (left; reflexivity). cbn [bind].
          eexists. split; [reflexivity|].
          constructor; cbn.
          * unfold fields_eq. destruct v; cbn. repeat split; reflexivity.
          * destruct v; cbn in *. rewrite SUB. constructor.
          * intros _. destruct v; reflexivity.
          * intros C. unfold is_valid in C. destruct v; cbn in *. congruence. }
    destruct V as (v' & Rv & Vv).
    exists (v' :: es). split; [cbn [map_out]; rewrite Rv; cbn [bind]; rewrite Ees; reflexivity|constructor; assumption]. }
  destruct K as (es & Ees & Res). rewrite Ees. cbn [bind].
  eexists. split; [reflexivity|]. constructor; cbn; auto.
Qed.


Section NvAsm.
Variable dec16 : bytes -> bytes.
Variable enc16 : bytes -> bytes.
Variable pol : Z.

Definition asm_one (rec : nstore -> outcome nstore) (v : nvar) : outcome nvar :=
  do sub' <- (match v_sub v with
              | None => Ok None
              | Some ns => do ns' <- rec ns; Ok (Some ns')
              end);
  let v := set_sub sub' v in
  if is_valid v then
    do content <- (match sub' with
                   | None => of_opt 11 (slice (v_dataoff v) (zlen (v_buf v)) (v_buf v))
                   | Some ns => Ok (s_buf ns)
                   end);
    nvar_assemble enc16 pol v content true
  else Ok v.

Lemma asm_store_S d s : asm_store enc16 pol (S d) s =
  do es <- map_out (asm_one (asm_store enc16 pol d)) (s_entries s);
  let nvdata := concat (map v_buf es) in
  let free := zlen nvdata in
  let gsl := nvar_guid_size * zlen (s_guids s) in
  if (s_len s <? gsl) || (s_len s - gsl <? free) then Err E_FIT else
  let goff := s_len s - gsl in
  let gap := goff - free in
  Ok (mkStore es (s_guids s) (nvdata ++ zrepeat pol gap ++ concat (rev (s_guids s))) free goff (s_len s)).
Proof. reflexivity. Qed.

Lemma set_sub_fields o v : fields_eq (set_sub o v) v /\ v_buf (set_sub o v) = v_buf v /\ v_sub (set_sub o v) = o.
Proof. destruct v; cbn. unfold fields_eq; cbn. repeat split; reflexivity. Qed.

Lemma fields_eq_trans a b c : fields_eq a b -> fields_eq b c -> fields_eq a c.
Proof. unfold fields_eq. intuition congruence. Qed.
Lemma fields_eq_sym a b : fields_eq a b -> fields_eq b a.
Proof. unfold fields_eq. intuition congruence. Qed.

Lemma nvar_assemble_congr a b content : fields_eq a b ->
  out_rel (fun x y => v_buf x = v_buf y) (nvar_assemble enc16 pol a content true) (nvar_assemble enc16 pol b content true).
Proof.
  intros (H1 & H2 & H3 & H4 & H5 & H6 & H7 & H8 & H9).
  unfold nvar_assemble, is_valid. rewrite H1, H2, H3, H4, H5, H6, H7, H8, H9.
  destruct (negb (is_valid_type (v_type b))); [cbn; reflexivity|].
  destruct (negb (v_nextoff b =? 0) && negb true); [cbn; reflexivity|].
  match goal with |- out_rel _ (bind ?x _) _ => destruct x as [g| | |]; cbn [bind]; try (cbn; reflexivity) end.
  match goal with |- out_rel _ (if ?c then _ else _) _ => destruct c; [cbn; reflexivity|] end.
  match goal with |- out_rel _ (if ?c then _ else _) _ => destruct c; [cbn; reflexivity|] end.
  cbn. reflexivity.
Qed.

Lemma asm_rel : forall d a b, srel a b ->
  out_rel (fun x y => s_buf x = s_buf y) (asm_store enc16 pol d a) (asm_store enc16 pol d b).
Proof.
  induction d as [|d IH]; intros a b R; [cbn; exact I|].
  inversion R as [? ? Hg Hl He]; subst. rewrite !asm_store_S. rewrite Hg, Hl.
  eapply out_rel_bind with (R := fun x y => map v_buf x = map v_buf y).
  - induction He as [|va vb la lb Hv Hrest IHl]; [cbn; reflexivity|].
    cbn [map_out].
    eapply out_rel_bind with (R := fun x y => v_buf x = v_buf y).
    + (* one entry *)
      inversion Hv as [? ? HF HS HI HV]; subst. unfold asm_one.
      assert (TAIL : forall oa ob, match oa, ob with
                                   | None, None => v_sub vb = None
                                   | Some p, Some q => s_buf p = s_buf q
                                   | _, _ => False end ->
        out_rel (fun x y => v_buf x = v_buf y)
          (let v := set_sub oa va in
           if is_valid v then
             do content <- (match oa with
                            | None => of_opt 11 (slice (v_dataoff v) (zlen (v_buf v)) (v_buf v))
                            | Some ns => Ok (s_buf ns) end);
             nvar_assemble enc16 pol v content true
           else Ok v)
          (let v := set_sub ob vb in
           if is_valid v then
             do content <- (match ob with
                            | None => of_opt 11 (slice (v_dataoff v) (zlen (v_buf v)) (v_buf v))
                            | Some ns => Ok (s_buf ns) end);
             nvar_assemble enc16 pol v content true
           else Ok v)).
      { intros oa ob Hoo. cbv zeta.
        destruct (set_sub_fields oa va) as (Fa & Ba & Sa). destruct (set_sub_fields ob vb) as (Fb & Bb & Sb).
        assert (FE : fields_eq (set_sub oa va) (set_sub ob vb)).
        { eapply fields_eq_trans; [exact Fa|]. eapply fields_eq_trans; [exact HF|]. apply fields_eq_sym. exact Fb. }
        assert (IVb : is_valid (set_sub ob vb) = is_valid vb).
        { unfold is_valid. destruct Fb as (_&_&_&_&_&T'&_). rewrite T'. reflexivity. }
        assert (IVa : is_valid (set_sub oa va) = is_valid vb).
        { rewrite <- IVb. unfold is_valid. destruct FE as (_&_&_&_&_&T&_). rewrite T. reflexivity. }
        rewrite IVa, IVb. destruct (is_valid vb) eqn:IV.
        - assert (DO : v_dataoff (set_sub oa va) = v_dataoff vb /\ v_dataoff (set_sub ob vb) = v_dataoff vb).
          { destruct FE as (_&_&_&_&_&_&_&_&D). destruct Fb as (_&_&_&_&_&_&_&_&D'). split; congruence. }
          destruct DO as [DOa DOb].
          destruct oa as [pa|], ob as [pb|]; try contradiction.
          + cbn [bind]. rewrite Hoo. apply nvar_assemble_congr. exact FE.
          + rewrite DOa, DOb, Ba, Bb. rewrite (HV eq_refl Hoo).
            destruct (slice (v_dataoff vb) (zlen (v_buf vb)) (v_buf vb)); cbn [of_opt bind]; [|cbn; reflexivity].
            apply nvar_assemble_congr. exact FE.
        - cbn. rewrite Ba, Bb. apply HI. reflexivity. }
      inversion HS as [E1 E2|x y Sxy E1 E2].
      * cbn [bind]. apply TAIL. symmetry. exact E2.
      * eapply out_rel_bind with (R := fun oa ob => match oa, ob with
                                                    | Some p, Some q => s_buf p = s_buf q
                                                    | _, _ => False end).
        -- eapply out_rel_bind; [apply IH; exact Sxy|]. intros p q Hpq. cbn. exact Hpq.
        -- intros oa ob Hoo. destruct oa, ob; try contradiction. apply TAIL. exact Hoo.
    + intros x y Hxy.
      eapply out_rel_bind; [exact IHl|]. intros p q Hpq. cbn. rewrite Hxy, Hpq. reflexivity.
  - intros ea eb Hm. cbv zeta. rewrite Hm.
    match goal with |- out_rel _ (if ?c then _ else _) _ => destruct c; cbn; reflexivity end.
Qed.
End NvAsm.


Section NvFinal.
Variable dec16 : bytes -> bytes.
Variable enc16 : bytes -> bytes.

Theorem nv_extract_nodup d s f : nv_paths_ok d s -> nv_extract d [] s = Ok f -> NoDup (map fst f).
Proof. intros P H. rewrite (nv_extract_paths_eq _ _ _ _ H). apply nvnodupb_NoDup. exact P. Qed.

Theorem nv_dir_roundtrip pol d s f : nv_paths_ok d s -> nv_extract d [] s = Ok f ->
  exists s', nv_reload d f [] s = Ok s' /\
    out_rel (fun x y => s_buf x = s_buf y) (asm_store enc16 pol d s') (asm_store enc16 pol d s).
Proof.
  intros P H. pose proof (nv_extract_nodup d s f P H) as ND.
  destruct (reload_rel d [] s f f H) as (s' & R & S).
  { intros p b Hin. apply nvfs_read_in; assumption. }
  exists s'. split; [exact R|]. apply asm_rel. exact S.
Qed.

Theorem nv_dir_save_eq pol d b s f : parse_store dec16 pol b = Ok s -> nv_paths_ok d s ->
  nv_extract d [] s = Ok f ->
  nv_dir_save dec16 enc16 pol d b = nv_direct_save dec16 enc16 pol d b.
Proof.
  intros PS P H. unfold nv_dir_save, nv_direct_save. rewrite PS. cbn [bind]. rewrite H. cbn [bind].
  destruct (nv_dir_roundtrip pol d s f P H) as (s' & R & O). rewrite R. cbn [bind].
  destruct (asm_store enc16 pol d s'), (asm_store enc16 pol d s); cbn in O; try contradiction; cbn [bind]; congruence.
Qed.

End NvFinal.
