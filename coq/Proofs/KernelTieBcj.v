(* Proofs/KernelTieBcj.v — x86Convert and test86MSByte of pkg/compression/x86.go as TRANSCRIBED
   FROM THE GO SOURCE (Gen/GoKernels.v, regenerated on every run of bin/check) equal the functions
   of the hand-written model Model/Bcj.v.  See Proofs/KernelTie.v.

   x86Convert writes through [data] and [*state]; the transcription returns (returned position,
   final data, final *state).  It runs both Go loops on [fuel].  The tie is proved for byte lists
   ([bytes_ok]) shorter than 2^62 (where the uint positions do not wrap), [size = len(data)] as both
   callers pass it, and [ip], [*state] in uint32 range: whenever the model returns a result, the
   transcription returns the same one with the same fuel the model uses; the model is total
   (Proofs/BcjProofs.v), so this is every input.
   The loop bodies of the generated definition are named here ([x86_scan], [x86_tail], [x86_body]);
   [go_x86Convert_shape] checks by conversion that the generated definition is exactly that loop
   nest, so ANY change of the Go function breaks it. *)
From Fiano Require Import Base.Bytes Base.BytesLemmas Base.GoInt Gen.GoKernels Model.Bcj Proofs.BcjProofs.
From Coq Require Import ZifyBool ZifyNat.
Open Scope Z_scope.

(* Fail fast.  On the unchanged Go source every command of this file takes well under two seconds
   (the whole file: 3.5 s).  On a CHANGED x86Convert the conversion check [go_x86Convert_shape]
   does not fail, it runs (measured: more than 12 minutes, until the driver's 50-minute limit on
   make).  A per-command limit turns "the Go function changed" into an error after two minutes,
   naming the lemma; the setting ends with this file. *)
Set Default Timeout 120.

Lemma go_test86MSByte_tie b : go_test86MSByte b = Bcj.test86 b.
Proof. reflexivity. Qed.

(* for ; p < size; p++ { if data[p]&0xFE == 0xE8 { break } } *)
Definition x86_scan (data : list Z) (size : Z) : Z -> outcome (ctl Z Empty_set) :=
  fun p =>
    if p <? size then
      do b <- go_index 1 data p;
      if Z.land b 254 =? 232 then Ok (Break p)
      else let p := wrap 64 (p + 1) in Ok (Next p)
    else Ok (Break p).

Notation x86_state := (list Z * Z * Z * Z)%type (only parsing).   (* data, *state, pos, mask *)
Notation x86_ret := (Z * list Z * Z)%type (only parsing).          (* returned pos, data, *state *)

(* from [if test86MSByte(data[p+4])] to the end of the loop body *)
Definition x86_tail (encoding : bool) (ip : Z) (data : list Z) (state p pos mask : Z)
  : outcome (ctl x86_state x86_ret) :=
  do t <- go_index 2 data (wrap 64 (p + 4));
  do r <- (
    if go_test86MSByte t then
      do b4 <- go_index 3 data (wrap 64 (p + 4));
      do b3 <- go_index 4 data (wrap 64 (p + 3));
      do b2 <- go_index 5 data (wrap 64 (p + 2));
      do b1 <- go_index 6 data (wrap 64 (p + 1));
      let v := wrap 32 (wrap 32 (wrap 32 (go_shl 32 (wrap 32 b4) 24 + go_shl 32 (wrap 32 b3) 16) + go_shl 32 (wrap 32 b2) 8) + wrap 32 b1) in
      let cur := wrap 32 (ip + wrap 32 pos) in
      let pos := wrap 64 (pos + 5) in
      do v1 <- (if encoding then let v := wrap 32 (v + cur) in Ok v else let v := wrap 32 (v - cur) in Ok v);
      let v := v1 in
      do mv <- (
        if negb (mask =? 0) then
          let sh := wrap 64 (go_shl 32 (Z.land mask 6) 2) in
          do v2 <- (
            if go_test86MSByte (wrap 8 (Z.shiftr v sh)) then
              let v := Z.lxor v (wrap 32 (go_shl 32 256 sh - 1)) in
              do v3 <- (if encoding then let v := wrap 32 (v + cur) in Ok v else let v := wrap 32 (v - cur) in Ok v);
              let v := v3 in
              Ok v
            else Ok v);
          let v := v2 in
          let mask := 0 in
          Ok (mask, v)
        else Ok (mask, v));
      let '(mask, v) := mv in
      do d1 <- go_update 7 data (wrap 64 (p + 1)) (wrap 8 v);
      let data := d1 in
      do d2 <- go_update 8 data (wrap 64 (p + 2)) (wrap 8 (Z.shiftr v 8));
      let data := d2 in
      do d3 <- go_update 9 data (wrap 64 (p + 3)) (wrap 8 (Z.shiftr v 16));
      let data := d3 in
      do d4 <- go_update 10 data (wrap 64 (p + 4)) (wrap 8 (wrap 32 (0 - Z.land (Z.shiftr v 24) 1)));
      let data := d4 in
      Ok (data, pos, mask)
    else
      let mask := Z.lor (Z.shiftr mask 1) 4 in
      let pos := wrap 64 (pos + 1) in
      Ok (data, pos, mask));
  let '(data, pos, mask) := r in
  Ok (Next (data, state, pos, mask)).

(* the body of the outer for { } *)
Definition x86_body (sfuel : nat) (encoding : bool) (ip size : Z) : x86_state -> outcome (ctl x86_state x86_ret) :=
  fun '(data, state, pos, mask) =>
    if true then
      let p := pos in
      do sc <- go_loop sfuel (x86_scan data size) p;
      match sc with
      | inl p =>
        let d := wrap 64 (p - pos) in
        let pos := p in
        if size <=? p then
          do st <- (if 2 <? d then let state := 0 in Ok state else let state := Z.shiftr mask d in Ok state);
          let state := st in
          Ok (Ret (pos, data, state))
        else
          if 2 <? d then
            let mask := 0 in
            x86_tail encoding ip data state p pos mask
          else
            let mask := Z.shiftr mask d in
            do skip <- (if negb (mask =? 0) then (
              do t <- (if (4 <? mask) || (mask =? 3) then Ok true else (
                do b <- go_index 11 data (wrap 64 (wrap 64 (p + wrap 64 (Z.shiftr mask 1)) + 1));
                Ok (go_test86MSByte b)));
              Ok t) else Ok false);
            if skip then
              let mask := Z.lor (Z.shiftr mask 1) 4 in
              let pos := wrap 64 (pos + 1) in
              Ok (Next (data, state, pos, mask))
            else x86_tail encoding ip data state p pos mask
      | inr e => match e : Empty_set with end
      end
    else Ok (Break (data, state, pos, mask)).

Lemma go_x86Convert_shape fuel data size ip state encoding :
  go_x86Convert fuel data size ip state encoding =
  let pos := 0 in
  let mask := Z.land state 7 in
  if size <? 5 then Ok (0, data, state)
  else
    let size := wrap 64 (size - 4) in
    let ip := wrap 32 (ip + 5) in
    do r <- go_loop fuel (x86_body fuel encoding ip size) (data, state, pos, mask);
    match r with
    | inl (data, state, pos, mask) => Fuel
    | inr v => Ok v
    end.
Proof. reflexivity. Qed.

(* ---------------------------------------------------------------- *)
(* small bridges                                                      *)
(* ---------------------------------------------------------------- *)

Lemma go_index_index site (l : list Z) i :
  go_index site l i = match index i l with Some v => Ok v | None => Panic site end.
Proof.
  unfold go_index, index. destruct ((0 <=? i) && (i <? zlen l)); [|reflexivity].
  destruct (nth_error l (Z.to_nat i)); reflexivity.
Qed.

Lemma index_range (l : list Z) i v : index i l = Some v -> 0 <= i < zlen l.
Proof. unfold index. destruct ((0 <=? i) && (i <? zlen l)) eqn:E; [lia|discriminate]. Qed.

Lemma index_byte (l : list Z) i v : bytes_ok l = true -> index i l = Some v -> 0 <= v < 256.
Proof.
  intros Hok H. unfold index in H. destruct ((0 <=? i) && (i <? zlen l)); [|discriminate].
  apply nth_error_In in H. unfold bytes_ok in Hok. rewrite forallb_forall in Hok.
  apply byte_ok_iff, Hok, H.
Qed.

Lemma ok_inj {A} (a b : A) : Ok a = Ok b -> a = b.
Proof. intros H. injection H as H. exact H. Qed.

Lemma ok_inj3 {A B C} (a a' : A) (b b' : B) (c c' : C) :
  Ok (a, b, c) = Ok (a', b', c') -> a = a' /\ b = b' /\ c = c'.
Proof. intros H. injection H as H1 H2 H3. auto. Qed.

Lemma bind_if {A B} (c : bool) (a b : A) (k : A -> outcome B) :
  (do x <- (if c then Ok a else Ok b); k x) = k (if c then a else b).
Proof. destruct c; reflexivity. Qed.

(* ---------------------------------------------------------------- *)
(* the scan loop                                                      *)
(* ---------------------------------------------------------------- *)

Lemma scan_sim data size : size < 2 ^ 63 ->
  forall sf p q, 0 <= p -> scan sf data p size = Ok q ->
  go_loop sf (x86_scan data size) p = Ok (inl q) /\ p <= q /\ q <= Z.max p size.
Proof.
  intros Hs. induction sf as [|sf IH]; intros p q Hp H; [discriminate|].
  cbn [scan] in H. cbn [go_loop]. unfold x86_scan at 1.
  destruct (p <? size) eqn:E.
  - rewrite go_index_index. destruct (index p data) as [b|]; [|discriminate].
    cbn [of_opt bind] in *. unfold is_branch in H.
    destruct (Z.land b 254 =? 232).
    + injection H as <-. split; [reflexivity|lia].
    + cbv zeta. rewrite (wrap_small 64 (p + 1)) by lia.
      destruct (IH (p + 1) q ltac:(lia) H) as (E1 & E2 & E3). split; [exact E1|lia].
  - injection H as <-. split; [reflexivity|lia].
Qed.

(* ---------------------------------------------------------------- *)
(* the four stores                                                    *)
(* ---------------------------------------------------------------- *)

Lemma go_update_app site (pre : list Z) x post v :
  go_update site (pre ++ x :: post) (zlen pre) v = Ok (pre ++ v :: post).
Proof.
  unfold go_update. rewrite zlen_app, zlen_cons.
  pose proof (zlen_nonneg pre). pose proof (zlen_nonneg post).
  replace ((0 <=? zlen pre) && (zlen pre <? zlen pre + (1 + zlen post))) with true by lia.
  unfold zlen. rewrite Nat2Z.id.
  rewrite firstn_app, Nat.sub_diag, firstn_all. cbn [firstn]. rewrite app_nil_r.
  replace (S (length pre)) with (length pre + 1)%nat by lia.
  rewrite skipn_app, skipn_all2 by lia.
  replace (length pre + 1 - length pre)%nat with 1%nat by lia. reflexivity.
Qed.

Lemma decomp4 (data : list Z) i : 0 <= i -> i + 4 <= zlen data ->
  exists pre x1 x2 x3 x4 post, data = pre ++ x1 :: x2 :: x3 :: x4 :: post /\ zlen pre = i.
Proof.
  intros Hi Hl. exists (zfirstn i data).
  assert (Hs : 4 <= zlen (zskipn i data)).
  { unfold zskipn, zlen in *. rewrite skipn_length. lia. }
  destruct (zskipn i data) as [|x1 [|x2 [|x3 [|x4 post]]]] eqn:E;
    try (unfold zlen in Hs; cbn [length] in Hs; lia).
  exists x1, x2, x3, x4, post. split.
  - rewrite <- E. unfold zfirstn, zskipn. symmetry. apply firstn_skipn.
  - unfold zfirstn, zlen in *. rewrite firstn_length. lia.
Qed.

Lemma updates4 s1 s2 s3 s4 (data : list Z) i a b c d : 0 <= i -> i + 4 <= zlen data ->
  (do d1 <- go_update s1 data i a;
   do d2 <- go_update s2 d1 (i + 1) b;
   do d3 <- go_update s3 d2 (i + 2) c;
   go_update s4 d3 (i + 3) d) = Ok (splice i [a; b; c; d] data).
Proof.
  intros Hi Hl. destruct (decomp4 data i Hi Hl) as (pre & x1 & x2 & x3 & x4 & post & -> & <-).
  rewrite go_update_app. cbn [bind].
  replace (pre ++ a :: x2 :: x3 :: x4 :: post) with ((pre ++ [a]) ++ x2 :: x3 :: x4 :: post)
    by (rewrite <- app_assoc; reflexivity).
  replace (zlen pre + 1) with (zlen (pre ++ [a])) by (rewrite zlen_app; reflexivity).
  rewrite go_update_app. cbn [bind].
  replace ((pre ++ [a]) ++ b :: x3 :: x4 :: post) with ((pre ++ [a; b]) ++ x3 :: x4 :: post)
    by (rewrite <- !app_assoc; reflexivity).
  replace (zlen pre + 2) with (zlen (pre ++ [a; b])) by (rewrite zlen_app; reflexivity).
  rewrite go_update_app. cbn [bind].
  replace ((pre ++ [a; b]) ++ c :: x4 :: post) with ((pre ++ [a; b; c]) ++ x4 :: post)
    by (rewrite <- !app_assoc; reflexivity).
  replace (zlen pre + 3) with (zlen (pre ++ [a; b; c])) by (rewrite zlen_app; reflexivity).
  rewrite go_update_app. f_equal.
  unfold splice, zfirstn, zskipn, zlen. rewrite Nat2Z.id.
  rewrite firstn_app, Nat.sub_diag, firstn_all. cbn [firstn]. rewrite app_nil_r.
  replace (Z.to_nat (Z.of_nat (length pre) + Z.of_nat (length [a; b; c; d]))) with (length pre + 4)%nat
    by (cbn [length]; lia).
  rewrite skipn_app, skipn_all2 by lia.
  replace (length pre + 4 - length pre)%nat with 4%nat by lia.
  cbn [skipn app]. rewrite <- !app_assoc. reflexivity.
Qed.

Lemma bytes_ok_splice4 (data : list Z) i a b c d : bytes_ok data = true -> 0 <= i -> i + 4 <= zlen data ->
  0 <= a < 256 -> 0 <= b < 256 -> 0 <= c < 256 -> 0 <= d < 256 ->
  bytes_ok (splice i [a; b; c; d] data) = true.
Proof.
  intros Hok Hi Hl Ha Hb Hc Hd. unfold splice.
  rewrite !bytes_ok_app. unfold zfirstn, zskipn.
  rewrite bytes_ok_firstn, bytes_ok_skipn by exact Hok.
  cbn [bytes_ok forallb]. apply byte_ok_iff in Ha, Hb, Hc, Hd. rewrite Ha, Hb, Hc, Hd. reflexivity.
Qed.

(* ---------------------------------------------------------------- *)
(* one iteration of the model's outer loop, in the shape of the Go body *)
(* ---------------------------------------------------------------- *)

(* from [if test86MSByte(data[p+4])] on: new data, new pos, new mask *)
Definition mtail (enc : bool) (ip : Z) (data : bytes) (p mask : Z) : outcome (bytes * Z * Z) :=
  do t4 <- of_opt 3 (index (p + 4) data);
  if test86 t4 then
    do b4 <- of_opt 4 (index (p + 4) data);
    do b3 <- of_opt 5 (index (p + 3) data);
    do b2 <- of_opt 6 (index (p + 2) data);
    do b1 <- of_opt 7 (index (p + 1) data);
    let cur := u32 (ip + u32 p) in
    let '(c1, c2, c3, c4) := conv enc cur mask b1 b2 b3 b4 in
    Ok (splice (p + 1) [c1; c2; c3; c4] data, p + 5, 0)
  else Ok (data, p + 1, Z.lor (Z.shiftr mask 1) 4).

Lemma loop_unfold f sf enc ip data size pos mask :
  loop (S f) sf enc ip data size pos mask =
  do p <- scan sf data pos size;
  let d := p - pos in
  if size <=? p then Ok (data, (if 2 <? d then 0 else Z.shiftr mask d), p)
  else
    let mask := if 2 <? d then 0 else Z.shiftr mask d in
    do skip <- (if 2 <? d then Ok false else prev_test data p mask);
    if skip then loop f sf enc ip data size (p + 1) (Z.lor (Z.shiftr mask 1) 4)
    else
      do r <- mtail enc ip data p mask;
      loop f sf enc ip (fst (fst r)) size (snd (fst r)) (snd r).
Proof.
  cbn [loop]. destruct (scan sf data pos size) as [p| | |]; try reflexivity.
  cbn [bind]. cbv zeta. destruct (size <=? p); [reflexivity|].
  destruct (if 2 <? p - pos then Ok false else prev_test data p (if 2 <? p - pos then 0 else Z.shiftr mask (p - pos)))
    as [skip| | |]; try reflexivity.
  cbn [bind]. destruct skip; [reflexivity|].
  unfold mtail.
  destruct (index (p + 4) data) as [t4|]; [|reflexivity]. cbn [of_opt bind].
  destruct (test86 t4); [|reflexivity].
  destruct (index (p + 3) data) as [b3|]; [|reflexivity]. cbn [of_opt bind].
  destruct (index (p + 2) data) as [b2|]; [|reflexivity]. cbn [of_opt bind].
  destruct (index (p + 1) data) as [b1|]; [|reflexivity]. cbn [of_opt bind].
  cbv zeta. destruct (conv enc _ _ b1 b2 b3 t4) as [[[c1 c2] c3] c4]. reflexivity.
Qed.

(* the word the model rewrites, as a function of the word read *)
Definition vfinal (enc : bool) (cur mask v0 : Z) : Z :=
  let step := fun w : Z => if enc then u32 (w + cur) else u32 (w - cur) in
  let v := step v0 in
  if mask =? 0 then v
  else
    let sh := Z.shiftl (Z.land mask 6) 2 in
    if test86 (u8 (Z.shiftr v sh))
    then step (Z.lxor v (u32 (u32 (Z.shiftl 256 sh) - 1)))
    else v.

Lemma conv_vfinal enc cur mask b1 b2 b3 b4 :
  conv enc cur mask b1 b2 b3 b4 =
  let v := vfinal enc cur mask
             (u32 (u32 (u32 (u32 (Z.shiftl b4 24) + u32 (Z.shiftl b3 16)) + u32 (Z.shiftl b2 8)) + b1)) in
  (u8 v, u8 (Z.shiftr v 8), u8 (Z.shiftr v 16), u8 (0 - Z.land (Z.shiftr v 24) 1)).
Proof. reflexivity. Qed.

Lemma wrap32_u32 x : wrap 32 x = u32 x.
Proof. reflexivity. Qed.
Lemma wrap8_u8 x : wrap 8 x = u8 x.
Proof. reflexivity. Qed.

Lemma sh_small mask : 0 <= mask < 8 ->
  wrap 64 (u32 (Z.shiftl (Z.land mask 6) 2)) = Z.shiftl (Z.land mask 6) 2.
Proof.
  intros H. assert (C : mask = 0 \/ mask = 1 \/ mask = 2 \/ mask = 3 \/ mask = 4 \/ mask = 5 \/ mask = 6 \/ mask = 7) by lia.
  destruct C as [->|[->|[->|[->|[->|[->|[->| ->]]]]]]]; reflexivity.
Qed.

Lemma u8_of_u32_bit x : u8 (u32 (0 - Z.land x 1)) = u8 (0 - Z.land x 1).
Proof.
  change 1 with (Z.ones 1) at 1 2. rewrite Z.land_ones by lia.
  assert (H : 0 <= x mod 2 ^ 1 < 2) by (apply Z.mod_pos_bound; lia).
  assert (C : x mod 2 ^ 1 = 0 \/ x mod 2 ^ 1 = 1) by lia.
  destruct C as [-> | ->]; reflexivity.
Qed.

Lemma u8_range x : 0 <= u8 x < 256.
Proof. unfold u8. apply Z.mod_pos_bound. lia. Qed.

Lemma tail_sim enc ip data st p mask d' pos' m' :
  bytes_ok data = true -> 0 <= p -> p + 5 < 2 ^ 62 -> 0 <= mask < 8 ->
  mtail enc ip data p mask = Ok (d', pos', m') ->
  x86_tail enc ip data st p p mask = Ok (Next (d', st, pos', m')) /\
  bytes_ok d' = true /\ zlen d' = zlen data /\ 0 <= m' < 8 /\ p < pos' <= p + 5.
Proof.
  intros Hok Hp Hp5 Hm H. unfold mtail in H. unfold x86_tail.
  rewrite !go_index_index.
  rewrite !(wrap_small 64) by lia.
  destruct (index (p + 4) data) as [t4|] eqn:E4; [|discriminate]. cbn [of_opt bind] in *.
  change (go_test86MSByte t4) with (test86 t4).
  destruct (test86 t4).
  - destruct (index (p + 3) data) as [b3|] eqn:E3; [|discriminate]. cbn [of_opt bind] in *.
    destruct (index (p + 2) data) as [b2|] eqn:E2; [|discriminate]. cbn [of_opt bind] in *.
    destruct (index (p + 1) data) as [b1|] eqn:E1; [|discriminate]. cbn [of_opt bind] in *.
    pose proof (index_byte _ _ _ Hok E4) as R4. pose proof (index_byte _ _ _ Hok E3) as R3.
    pose proof (index_byte _ _ _ Hok E2) as R2. pose proof (index_byte _ _ _ Hok E1) as R1.
    pose proof (index_range _ _ _ E4) as L4.
    rewrite conv_vfinal in H. cbv zeta in H.
    apply ok_inj3 in H as (<- & <- & <-).
    cbv zeta.
    rewrite (wrap_small 32 t4), (wrap_small 32 b3), (wrap_small 32 b2), (wrap_small 32 b1) by lia.
    rewrite !bind_if.
    unfold go_shl. rewrite !wrap32_u32, !wrap8_u8. change go_test86MSByte with test86.
    rewrite sh_small by lia.
    set (v0 := u32 (u32 (u32 (u32 (Z.shiftl t4 24) + u32 (Z.shiftl b3 16)) + u32 (Z.shiftl b2 8)) + b1)).
    set (cur := u32 (ip + u32 p)).
    set (vF := vfinal enc cur mask v0).
    match goal with |- context [if negb (mask =? 0) then ?A else ?B] =>
      assert (Hmv : (if negb (mask =? 0) then A else B) = (0, vF))
    end.
    { subst vF v0 cur. unfold vfinal. cbv beta zeta. unfold u32, u8, wrap. change (2 ^ 8) with 256.
      destruct (mask =? 0) eqn:Em; cbn [negb].
      - replace mask with 0 by lia. destruct enc; reflexivity.
      - destruct enc; reflexivity. }
    rewrite Hmv. cbn [bind]. cbv zeta.
    replace (p + 2) with (p + 1 + 1) by lia. replace (p + 3) with (p + 1 + 2) by lia. replace (p + 4) with (p + 1 + 3) by lia.
    rewrite u8_of_u32_bit.
    match goal with |- context [do d1 <- go_update 7 data (p + 1) ?a; _] =>
      match goal with |- context [go_update 8 _ _ ?b] =>
      match goal with |- context [go_update 9 _ _ ?c] =>
      match goal with |- context [go_update 10 _ _ ?d] =>
        pose proof (updates4 7 8 9 10 data (p + 1) a b c d ltac:(lia) ltac:(lia)) as HU
      end end end end.
    cbv zeta in HU.
    destruct (go_update 7 data (p + 1) _) as [d1| | |]; try discriminate. cbn [bind] in *.
    destruct (go_update 8 d1 (p + 1 + 1) _) as [d2| | |]; try discriminate. cbn [bind] in *.
    destruct (go_update 9 d2 (p + 1 + 2) _) as [d3| | |]; try discriminate. cbn [bind] in *.
    rewrite HU. cbn [bind].
    rewrite (wrap_small 64 (p + 5)) by lia.
    split; [reflexivity|]. split.
    + apply bytes_ok_splice4; try exact Hok; try lia; apply u8_range.
    + split; [apply zlen_splice; [lia|]; change (zlen [_; _; _; _]) with 4; lia|]. lia.
  - apply ok_inj3 in H as (<- & <- & <-). cbn [bind]. cbv zeta.
    split; [reflexivity|]. split; [exact Hok|]. split; [reflexivity|]. split; [|lia].
    assert (C : mask = 0 \/ mask = 1 \/ mask = 2 \/ mask = 3 \/ mask = 4 \/ mask = 5 \/ mask = 6 \/ mask = 7) by lia.
    destruct C as [->|[->|[->|[->|[->|[->|[->| ->]]]]]]]; cbn; lia.
Qed.

(* ---------------------------------------------------------------- *)
(* the outer loop and the function                                    *)
(* ---------------------------------------------------------------- *)

Lemma mask_cases m : 0 <= m < 8 ->
  m = 0 \/ m = 1 \/ m = 2 \/ m = 3 \/ m = 4 \/ m = 5 \/ m = 6 \/ m = 7.
Proof. lia. Qed.

Lemma shiftr_mask_range m d : 0 <= m < 8 -> 0 <= d <= 2 -> 0 <= Z.shiftr m d < 8.
Proof.
  intros Hm Hd. assert (C : d = 0 \/ d = 1 \/ d = 2) by lia.
  destruct (mask_cases m Hm) as [->|[->|[->|[->|[->|[->|[->| ->]]]]]]];
    destruct C as [->|[->| ->]]; cbn; lia.
Qed.

Lemma next_mask_range m : 0 <= m < 8 -> 0 <= Z.lor (Z.shiftr m 1) 4 < 8.
Proof. intros Hm. destruct (mask_cases m Hm) as [->|[->|[->|[->|[->|[->|[->| ->]]]]]]]; cbn; lia. Qed.

Lemma half_mask_range m : 0 <= m < 8 -> 0 <= Z.shiftr m 1 < 4.
Proof. intros Hm. destruct (mask_cases m Hm) as [->|[->|[->|[->|[->|[->|[->| ->]]]]]]]; cbn; lia. Qed.

Lemma loop_sim sf enc ip size : size + 10 < 2 ^ 62 ->
  forall f (data : list Z) st pos mask (d : list Z) s p,
  bytes_ok data = true -> zlen data = size + 4 -> 0 <= pos <= size + 5 -> 0 <= mask < 8 ->
  loop f sf enc ip data size pos mask = Ok (d, s, p) ->
  go_loop f (x86_body sf enc ip size) (data, st, pos, mask) = Ok (inr (p, d, s)).
Proof.
  intros Hsz. induction f as [|f IH]; intros data st pos mask d s p Hok Hlen Hpos Hmask H; [discriminate|].
  rewrite loop_unfold in H. cbn [go_loop]. unfold x86_body at 1. cbv iota. cbv zeta.
  destruct (scan sf data pos size) as [q| | |] eqn:Es; try discriminate. cbn [bind] in H. cbv zeta in H.
  destruct (scan_sim data size ltac:(lia) sf pos q ltac:(lia) Es) as (E1 & E2 & E3).
  rewrite E1. cbn [bind]. rewrite (wrap_small 64 (q - pos)) by lia.
  destruct (size <=? q) eqn:Eq.
  - injection H as <- <- <-. rewrite bind_if. reflexivity.
  - destruct (2 <? q - pos) eqn:Ed.
    + cbn [bind] in H.
      destruct (mtail enc ip data q 0) as [[[d1 pos1] m1]| | |] eqn:Et; try discriminate. cbn [bind fst snd] in H.
      destruct (tail_sim enc ip data st q 0 d1 pos1 m1 Hok ltac:(lia) ltac:(lia) ltac:(lia) Et) as (T1 & T2 & T3 & T4 & T5).
      rewrite T1. apply IH; try assumption; lia.
    + pose proof (shiftr_mask_range mask (q - pos) Hmask ltac:(lia)) as Hm'.
      set (mask' := Z.shiftr mask (q - pos)) in *.
      pose proof (half_mask_range mask' Hm') as Hh.
      unfold prev_test in H.
      destruct (mask' =? 0) eqn:Em0; cbn [negb].
      * cbn [bind] in *.
        destruct (mtail enc ip data q mask') as [[[d1 pos1] m1]| | |] eqn:Et; try discriminate. cbn [bind fst snd] in H.
        destruct (tail_sim enc ip data st q mask' d1 pos1 m1 Hok ltac:(lia) ltac:(lia) ltac:(lia) Et) as (T1 & T2 & T3 & T4 & T5).
        rewrite T1. apply IH; try assumption; lia.
      * destruct ((4 <? mask') || (mask' =? 3)) eqn:Ec.
        -- cbn [bind] in *. cbv zeta. rewrite (wrap_small 64 (q + 1)) by lia.
           apply IH; try assumption; [lia|apply next_mask_range; lia].
        -- rewrite go_index_index.
           rewrite (wrap_small 64 (Z.shiftr mask' 1)) by lia.
           rewrite (wrap_small 64 (q + Z.shiftr mask' 1)) by lia.
           rewrite (wrap_small 64 (q + Z.shiftr mask' 1 + 1)) by lia.
           destruct (index (q + Z.shiftr mask' 1 + 1) data) as [b|]; [|discriminate].
           cbn [of_opt bind] in *. change (go_test86MSByte b) with (test86 b).
           destruct (test86 b).
           ++ cbv zeta. rewrite (wrap_small 64 (q + 1)) by lia.
              apply IH; try assumption; [lia|apply next_mask_range; lia].
           ++ destruct (mtail enc ip data q mask') as [[[d1 pos1] m1]| | |] eqn:Et; try discriminate. cbn [bind fst snd] in H.
              destruct (tail_sim enc ip data st q mask' d1 pos1 m1 Hok ltac:(lia) ltac:(lia) ltac:(lia) Et) as (T1 & T2 & T3 & T4 & T5).
              rewrite T1. apply IH; try assumption; lia.
Qed.

(* x86Convert(data, uint(len(data)), ip, &state, encoding): whatever the model computes *)
Theorem go_x86Convert_tie enc ip st data :
  bytes_ok data = true -> zlen data < 2 ^ 61 ->
  go_x86Convert (S (length data)) data (zlen data) ip st enc =
  (do r <- Bcj.x86_convert enc ip st data; Ok (snd r, fst (fst r), snd (fst r))).
Proof.
  intros Hok Hlen. rewrite go_x86Convert_shape. cbv zeta.
  destruct (BcjProofs.x86_convert_total enc ip st data) as (d & s & p & E & _).
  rewrite E. cbn [bind fst snd].
  unfold Bcj.x86_convert in E. cbv zeta in E.
  destruct (zlen data <? 5) eqn:E5.
  - injection E as <- <- <-. reflexivity.
  - rewrite (wrap_small 64 (zlen data - 4)) by lia.
    change (wrap 32 (ip + 5)) with (u32 (ip + 5)).
    assert (Hm : 0 <= Z.land st 7 < 8).
    { change 7 with (Z.ones 3). rewrite Z.land_ones by lia. apply Z.mod_pos_bound. lia. }
    rewrite (loop_sim (S (length data)) enc (u32 (ip + 5)) (zlen data - 4) ltac:(lia)
               (S (length data)) data st 0 (Z.land st 7) d s p Hok ltac:(lia) ltac:(lia) Hm E).
    reflexivity.
Qed.
