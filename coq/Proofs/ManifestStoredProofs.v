(* Proofs/ManifestStoredProofs.v — what WriteTo leaves in the fields whose tags prescribe
   their written value (var0 / var1 on the StructInfo, rehashValue): a size field holds the
   length of the bytes written, a constant its constant, each truncated to the width of the
   field (the conversion in the tag).  Companion of [stored_offset_points_at_field]. *)
From Coq Require Import List ZArith Lia.
From Fiano Require Import Base.Bytes Base.BytesLemmas Model.Manifest Proofs.ManifestProofs
  Proofs.ManifestRehashProofs.
Import ListNotations.
Open Scope Z_scope.

(* a field that Rehash sets to TotalSize() holds, in the value WriteTo leaves behind, the
   number of bytes WriteTo produced (mod 256^width) *)
Theorem stored_size_is_written_length d v a : sdesc_ok d = true -> wf d v = true ->
  In a (sd_rh d) -> rh_expr a = XTotalSize ->
  forall v1 b1, write d v = (v1, b1) ->
  get_path v1 (rh_path a) = Some (VInt (zlen b1 mod wmax (rh_width a))).
Proof.
  intros OK W I E v1 b1 Wr. unfold write in Wr. inversion Wr; subst v1 b1; clear Wr.
  rewrite (rehash_stored d v a OK W I). rewrite E. cbn [reval].
  rewrite (codec_size d _ (rehash_wf d v OK W)). reflexivity.
Qed.

(* a field that Rehash sets to a constant holds that constant *)
Theorem stored_const_is_written d v a z : sdesc_ok d = true -> wf d v = true ->
  In a (sd_rh d) -> rh_expr a = XConst z ->
  forall v1 b1, write d v = (v1, b1) ->
  get_path v1 (rh_path a) = Some (VInt (z mod wmax (rh_width a))).
Proof.
  intros OK W I E v1 b1 Wr. unfold write in Wr. inversion Wr; subst v1 b1; clear Wr.
  rewrite (rehash_stored d v a OK W I). rewrite E. reflexivity.
Qed.

(* ... for every structure of a list of (name, description, IR) triples that passed the
   decidable check [sdesc_ok] (instantiated in Properties/C15.v with the structures the
   translator found in the source) *)
Theorem stored_sizes_all {N I : Type} (l : list (N * sdesc * I)) :
  forallb (fun x => sdesc_ok (snd (fst x))) l = true ->
  forall x a v v1 b1, In x l -> In a (sd_rh (snd (fst x))) -> wf (snd (fst x)) v = true ->
  write (snd (fst x)) v = (v1, b1) ->
  (rh_expr a = XTotalSize ->
     get_path v1 (rh_path a) = Some (VInt (zlen b1 mod wmax (rh_width a)))) /\
  (forall z, rh_expr a = XConst z ->
     get_path v1 (rh_path a) = Some (VInt (z mod wmax (rh_width a)))).
Proof.
  intros F x a v v1 b1 Ix Ia W Wr. rewrite forallb_forall in F. specialize (F x Ix).
  split.
  - intros E. exact (stored_size_is_written_length _ v a F W Ia E v1 b1 Wr).
  - intros z E. exact (stored_const_is_written _ v a z F W Ia E v1 b1 Wr).
Qed.

(* [stored_offset_points_at_field] asks for total_size < 256^width; what is needed is only that
   the OFFSET fits the field: a manifest longer than 64 KiB whose key-and-signature structure
   still starts below 64 KiB has a truthful stored offset *)
Theorem stored_offset_points_at_field_fits d v a k t : sdesc_ok d = true -> wf d v = true ->
  In a (sd_rh d) -> rh_expr a = XOffsetOf k -> field_s (sd_schema d) k = Some t ->
  offset_of d v k < wmax (rh_width a) ->
  forall v1 b1, write d v = (v1, b1) ->
  exists o x, get_path v1 (rh_path a) = Some (VInt o) /\ vnth v1 k = Some x /\
              o = offset_of d v1 k /\ sub o (size_f t x) b1 = enc_f t x.
Proof.
  intros OK W I E F L v1 b1 Wr. unfold write in Wr. inversion Wr; subst v1 b1. clear Wr.
  pose proof (rehash_wf d v OK W) as W1.
  pose proof (rehash_stored d v a OK W I) as S. rewrite E in S. cbn [reval] in S.
  destruct (wf_vnth _ _ _ _ _ W1 F) as (x & en' & X & _).
  assert (Ob : 0 <= offset_s (sd_schema d) (rehash d v) k < wmax (rh_width a)).
  { change (offset_s (sd_schema d) (rehash d v) k) with (offset_of d (rehash d v) k).
    split.
    - rewrite (codec_offsets d _ k W1). apply zlen_nonneg.
    - rewrite (rehash_offsets d v k OK). exact L. }
  exists (offset_s (sd_schema d) (rehash d v) k), x. repeat split; auto.
  - rewrite S. f_equal. f_equal. apply Z.mod_small. lia.
  - now apply (codec_field_position d _ k t x W1 F X).
Qed.
