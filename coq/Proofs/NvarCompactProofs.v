(* Proofs/NvarCompactProofs.v — nvram-compact and invalidate_nvar (property C10). *)
From Fiano Require Import Base.Bytes Base.BytesLemmas Gen.Consts Model.Nvar Proofs.NvarProofs.
From Coq Require Import ZifyBool ZifyNat Sorting.Sorted.
Open Scope Z_scope.

(* ---------- the first loop: which entries are kept, and their heads ---------- *)

Definition head_like (h v : nvar) : Prop :=
  v_guid h = v_guid v /\ v_name h = v_name v /\
  ATTR (v_attrs h) nvar_attr_dataonly = false /\ is_valid h = true.

Definition ltoff (a b : nvar) : Prop := v_off a < v_off b.

Lemma pass1_keep es m : snd (pass1 es m) = tails es.
Proof.
  revert m; induction es as [|v r IH]; intros m; [reflexivity|].
  cbn [pass1 tails filter]. unfold is_tail at 1.
  destruct (is_valid v) eqn:V; cbn [negb andb].
  - destruct (v_nextoff v =? 0) eqn:N; cbn [negb].
    + specialize (IH ((v_off v, match lookup (v_off v) m with Some h => h | None => v end) :: m)).
      destruct (pass1 r _) as [m' keep]. cbn [snd] in *. rewrite IH. reflexivity.
    + apply IH.
  - apply IH.
Qed.

Lemma sorted_app_inv (P R : list nvar) : StronglySorted ltoff (P ++ R) ->
  forall a b, In a P -> In b R -> v_off a < v_off b.
Proof.
  induction P as [|x P IH]; intros S a b Ha Hb; [destruct Ha|].
  cbn [app] in S. apply StronglySorted_inv in S as [S F].
  destruct Ha as [<-|Ha].
  - rewrite Forall_forall in F. apply F. apply in_or_app. right. exact Hb.
  - apply IH; auto.
Qed.

Lemma sorted_tail_gt (v : nvar) R : StronglySorted ltoff (v :: R) -> forall b, In b R -> v_off v < v_off b.
Proof. intros S b Hb. apply StronglySorted_inv in S as [_ F]. rewrite Forall_forall in F. apply F; auto. Qed.

Lemma sorted_app_r (P R : list nvar) : StronglySorted ltoff (P ++ R) -> StronglySorted ltoff R.
Proof.
  induction P as [|x P IH]; intros S; [exact S|]. apply IH. cbn [app] in S.
  apply StronglySorted_inv in S as [S _]. exact S.
Qed.

Section Pass1.
Variable es : list nvar.
Hypothesis CO : chains_ok es.

(* the map after the prefix P has been processed *)
Definition map_inv (P : list nvar) (m : list (Z * nvar)) : Prop :=
  (forall X h, lookup X m = Some h ->
     exists l, In l P /\ is_valid l = true /\
               (if v_nextoff l =? 0 then X = v_off l else X = v_nextoff l) /\ head_like h l /\ In h es) /\
  (forall l, In l P -> is_valid l = true -> v_nextoff l <> 0 -> lookup (v_nextoff l) m <> None).

Lemma pass1_spec R : forall P m, es = P ++ R -> map_inv P m ->
  let '(mf, keep) := pass1 R m in
  (forall X, (forall v, In v R -> X < v_off v) -> lookup X mf = lookup X m) /\
  (forall k, In k keep -> exists h, lookup (v_off k) mf = Some h /\ head_like h k /\ In h es).
Proof.
  destruct CO as [Hsorted Hfwd Hlink Hheads Hplain].
  induction R as [|v R' IH]; intros P m E Inv.
  - cbn [pass1]. split; [reflexivity|]. intros k [].
  - assert (E' : es = (P ++ [v]) ++ R') by (rewrite <- app_assoc; exact E).
    assert (Hv : In v es) by (rewrite E; apply in_or_app; right; left; reflexivity).
    assert (Sr : StronglySorted ltoff (v :: R')) by (apply (sorted_app_r P); rewrite <- E; exact Hsorted).
    assert (Sp : forall l, In l P -> v_off l < v_off v).
    { intros l Hl. apply (sorted_app_inv P (v :: R')); [rewrite <- E; exact Hsorted|exact Hl|left; reflexivity]. }
    destruct Inv as [I1 I2].
    cbn [pass1]. destruct (is_valid v) eqn:V; cbn [negb].
    2:{ (* not valid: skipped *)
      specialize (IH (P ++ [v]) m E').
      assert (Inv' : map_inv (P ++ [v]) m).
      { split.
        - intros X h L. destruct (I1 X h L) as (l & Hl & R1). exists l. split; [apply in_or_app; left; exact Hl|exact R1].
        - intros l Hl Vl Nl. apply in_app_or in Hl as [Hl|[<-|[]]]; [apply I2; auto|congruence]. }
      specialize (IH Inv'). destruct (pass1 R' m) as [mf keep]. destruct IH as [St Kp].
      split; [|exact Kp]. intros X HX. apply St. intros w Hw. apply HX. right. exact Hw. }
    (* valid *)
    set (h := match lookup (v_off v) m with Some h => h | None => v end).
    assert (HL : head_like h v /\ In h es).
    { unfold h. destruct (lookup (v_off v) m) as [h0|] eqn:L.
      - destruct (I1 _ _ L) as (l & Hl & Vl & Key & HLl & Hin). split; [|exact Hin].
        assert (Hle : In l es) by (rewrite E; apply in_or_app; left; exact Hl).
        destruct (v_nextoff l =? 0) eqn:Nl.
        + specialize (Sp l Hl). lia.
        + destruct (Hlink l v Hle Hv Vl V ltac:(lia) ltac:(lia)) as [G N].
          destruct HLl as (G0 & N0 & D0 & V0). repeat split; congruence.
      - assert (ND : ATTR (v_attrs v) nvar_attr_dataonly = false).
        { apply Hheads; auto. intros l Hl Vl Nl Eq.
          rewrite E in Hl. apply in_app_or in Hl as [Hl|[<-|Hl]].
          - apply (I2 l Hl Vl Nl). rewrite Eq. exact L.
          - specialize (Hfwd v Hv V Nl). lia.
          - assert (Hle : In l es) by (rewrite E; apply in_or_app; right; right; exact Hl).
            specialize (Hfwd l Hle Vl Nl). pose proof (sorted_tail_gt v R' Sr l Hl). lia. }
        repeat split; auto. }
    destruct HL as [HL HinH].
    assert (Inv' : forall key, (if v_nextoff v =? 0 then key = v_off v else key = v_nextoff v) ->
                    map_inv (P ++ [v]) ((key, h) :: m)).
    { intros key Hkey. split.
      - intros X h1 L. cbn [lookup] in L. destruct (X =? key) eqn:EX.
        + injection L as <-. exists v. split; [apply in_or_app; right; left; reflexivity|].
          split; [exact V|]. split; [|split; [exact HL|exact HinH]].
          destruct (v_nextoff v =? 0); lia.
        + destruct (I1 X h1 L) as (l & Hl & R1). exists l. split; [apply in_or_app; left; exact Hl|exact R1].
      - intros l Hl Vl Nl. cbn [lookup]. destruct (v_nextoff l =? key) eqn:EX; [discriminate|].
        apply in_app_or in Hl as [Hl|[<-|[]]]; [apply I2; auto|].
        replace (v_nextoff v =? 0) with false in Hkey by lia. lia. }
    destruct (v_nextoff v =? 0) eqn:N; cbn [negb].
    + (* end of a chain: kept *)
      specialize (IH (P ++ [v]) ((v_off v, h) :: m) E' (Inv' _ eq_refl)).
      fold h. destruct (pass1 R' ((v_off v, h) :: m)) as [mf keep]. destruct IH as [St Kp].
      split.
      * intros X HX. rewrite St by (intros w Hw; apply HX; right; exact Hw).
        cbn [lookup]. specialize (HX v (or_introl eq_refl)). replace (X =? v_off v) with false by lia. reflexivity.
      * intros k [<-|Hk]; [|apply Kp; exact Hk].
        exists h. split; [|split; [exact HL|exact HinH]].
        rewrite St by (intros w Hw; apply (sorted_tail_gt v R' Sr w Hw)).
        cbn [lookup]. rewrite Z.eqb_refl. reflexivity.
    + (* a link: its head moves on to the target *)
      specialize (IH (P ++ [v]) ((v_nextoff v, h) :: m) E' (Inv' _ eq_refl)).
      fold h. destruct (pass1 R' ((v_nextoff v, h) :: m)) as [mf keep]. destruct IH as [St Kp].
      split; [|exact Kp].
      intros X HX. rewrite St by (intros w Hw; apply HX; right; exact Hw).
      cbn [lookup]. specialize (HX v (or_introl eq_refl)).
      specialize (Hfwd v Hv V ltac:(lia)). replace (X =? v_nextoff v) with false by lia. reflexivity.
Qed.

(* every kept entry comes with a head that carries the same GUID and name *)
Lemma heads_tails_spec :
  map snd (heads_tails es) = tails es /\
  Forall (fun ht => head_like (fst ht) (snd ht)) (heads_tails es) /\
  Forall (fun ht => In (fst ht) es /\ In (snd ht) es) (heads_tails es).
Proof.
  unfold heads_tails.
  pose proof (pass1_keep es []) as K.
  pose proof (pass1_spec es [] [] eq_refl) as S.
  assert (I0 : map_inv [] []) by (split; [intros X h L; discriminate|intros l []]).
  specialize (S I0). destruct (pass1 es []) as [m keep]. cbn [snd] in K. subst keep.
  destruct S as [_ Kp]. split; [|split].
  - rewrite map_map. cbn [snd]. apply map_id.
  - apply Forall_forall. intros ht Hht. apply in_map_iff in Hht as (k & <- & Hk).
    cbn [fst snd]. destruct (Kp k Hk) as (h & -> & HL & _). exact HL.
  - apply Forall_forall. intros ht Hht. apply in_map_iff in Hht as (k & <- & Hk).
    cbn [fst snd]. destruct (Kp k Hk) as (h & -> & _ & Hin). split; [exact Hin|].
    unfold tails in Hk. apply filter_In in Hk as [Hk _]. exact Hk.
Qed.

End Pass1.

(* ---------- the second loop ---------- *)

Lemma gpos_snoc g g' store :
  gpos g (store ++ [g']) =
  match gpos g store with
  | Some i => Some i
  | None => if bytes_eqb g g' then Some (zlen store) else None
  end.
Proof.
  induction store as [|x r IH]; cbn [app gpos].
  - destruct (bytes_eqb g g'); reflexivity.
  - destruct (bytes_eqb g x); [reflexivity|]. rewrite IH.
    destruct (gpos g r); [reflexivity|]. destruct (bytes_eqb g g'); [|reflexivity].
    rewrite zlen_cons. f_equal. lia.
Qed.

Lemma bytes_eqb_refl a : bytes_eqb a a = true.
Proof. apply bytes_eqb_eq. reflexivity. Qed.

Lemma assign_gidx_grows hts : forall gstore, zlen gstore <= zlen (snd (assign_gidx hts gstore)).
Proof.
  induction hts as [|[h k] r IH]; intros gstore; [cbn; lia|].
  cbn [assign_gidx]. destruct (ATTR (v_attrs h) nvar_attr_guid).
  - specialize (IH gstore). destruct (assign_gidx r gstore). exact IH.
  - destruct (gpos (v_guid h) gstore).
    + specialize (IH gstore). destruct (assign_gidx r gstore). exact IH.
    + specialize (IH (gstore ++ [v_guid h])). destruct (assign_gidx r (gstore ++ [v_guid h])).
      cbn [snd] in *. rewrite zlen_app in IH. change (zlen [v_guid h]) with 1 in IH. lia.
Qed.

Section Rebuild.
Variable enc16 : bytes -> bytes.

(* an entry after the first (non-checking) Assemble: the header still holds the head's old size *)
Definition first_entry (pol : Z) (h k : nvar) (gi : option Z) (offset : Z) : nvar :=
  let gp := gpart_bytes enc16 h gi in
  let all := (nvar_signature ++ le_enc 2 (v_size h) ++ [pol; pol; pol] ++ [v_attrs h]) ++ gp ++ content k in
  mkNVar (zlen all mod 2 ^ 16) (erased_next pol) (v_attrs h) (v_guid h) gi (v_name h)
         nvar_type_full offset 0 all (zlen ((nvar_signature ++ le_enc 2 (v_size h) ++ [pol; pol; pol] ++ [v_attrs h]) ++ gp))
         no_ext (v_sub k).

Fixpoint first_entries (pol : Z) (hts : list (nvar * nvar)) (gis : list (option Z)) (offset : Z) : list nvar :=
  match hts, gis with
  | (h, k) :: r, gi :: gr =>
    first_entry pol h k gi offset :: first_entries pol r gr (offset + zlen (v_buf (first_entry pol h k gi offset)))
  | _, _ => []
  end.

Definition gmap_inv (gstore : list bytes) (gmap : list (bytes * Z)) : Prop :=
  forall g, glookup g gmap = gpos g gstore.

Lemma rebuild_spec pol m : forall hts offset gstore gmap,
  Forall (fun ht => lookup (v_off (snd ht)) m = Some (fst ht) /\
                    ATTR (v_attrs (fst ht)) nvar_attr_dataonly = false /\
                    0 <= v_dataoff (snd ht) <= zlen (v_buf (snd ht))) hts ->
  gmap_inv gstore gmap ->
  zlen (snd (assign_gidx hts gstore)) <= 255 ->
  rebuild enc16 pol (map snd hts) m offset gstore gmap =
  Ok (let '(gis, table) := assign_gidx hts gstore in (first_entries pol hts gis offset, table)).
Proof.
  induction hts as [|[h k] r IH]; intros offset gstore gmap F G T; [reflexivity|].
  apply Forall_cons_iff in F as [(L & ND & Hd) Fr]. cbn [fst snd] in *.
  cbn [map snd rebuild]. rewrite L. cbn [of_opt bind].
  assert (Sl : slice (v_dataoff k) (zlen (v_buf k)) (v_buf k) = Some (content k)).
  { rewrite slice_ok by lia. unfold content, sub. rewrite zfirstn_all; [reflexivity|].
    rewrite zlen_zskipn by lia. lia. }
  assert (ASM : forall gi, (ATTR (v_attrs h) nvar_attr_guid = false -> gi <> None) ->
    nvar_assemble enc16 pol
      (mkNVar (v_size h) (v_next h) (v_attrs h) (v_guid h) gi (v_name h) nvar_type_full offset 0 [] 0 no_ext (v_sub k))
      (content k) false = Ok (first_entry pol h k gi offset)).
  { intros gi Hgi. rewrite nvar_assemble_unfold. unfold is_valid.
    cbn [v_type v_nextoff v_off v_size v_attrs v_guid v_gidx v_name v_dataoff v_ext v_sub].
    replace (is_valid_type nvar_type_full) with true by reflexivity. cbn [negb Z.eqb andb].
    assert (GP : gpart_of enc16 (mkNVar (v_size h) (v_next h) (v_attrs h) (v_guid h) gi (v_name h)
                                  nvar_type_full offset 0 [] 0 no_ext (v_sub k)) = Ok (gpart_bytes enc16 h gi)).
    { unfold gpart_of, gpart_bytes. cbn [v_attrs v_guid v_gidx v_name]. rewrite ND.
      destruct (ATTR (v_attrs h) nvar_attr_guid) eqn:AG; [reflexivity|].
      destruct gi as [i|]; [reflexivity|]. exfalso. apply (Hgi eq_refl eq_refl). }
    rewrite GP. cbn [bind]. unfold write3. cbn [Z.eqb]. unfold first_entry, erased_next.
    rewrite <- !app_assoc. reflexivity. }
  cbn [assign_gidx]. destruct (ATTR (v_attrs h) nvar_attr_guid) eqn:AG.
  - rewrite Sl. cbn [of_opt bind]. rewrite ASM by (intros X; congruence). cbn [bind].
    cbn [assign_gidx] in T. rewrite AG in T.
    specialize (IH (offset + zlen (v_buf (first_entry pol h k None offset))) gstore gmap Fr G).
    destruct (assign_gidx r gstore) as [gis table] eqn:AS. cbn [snd] in T. rewrite (IH T). cbn [bind fst snd first_entries].
    reflexivity.
  - cbn [assign_gidx] in T. rewrite AG in T. rewrite (G (v_guid h)).
    destruct (gpos (v_guid h) gstore) as [i|] eqn:GPOS.
    + rewrite Sl. cbn [of_opt bind]. rewrite ASM by (intros _; discriminate). cbn [bind].
      specialize (IH (offset + zlen (v_buf (first_entry pol h k (Some i) offset))) gstore gmap Fr G).
      destruct (assign_gidx r gstore) as [gis table] eqn:AS. cbn [snd] in T. rewrite (IH T). cbn [bind fst snd first_entries].
      reflexivity.
    + pose proof (assign_gidx_grows r (gstore ++ [v_guid h])) as GR.
      rewrite zlen_app in GR. change (zlen [v_guid h]) with 1 in GR.
      pose proof (zlen_nonneg gstore) as G0.
      assert (G' : gmap_inv (gstore ++ [v_guid h]) ((v_guid h, zlen gstore) :: gmap)).
      { intros g. cbn [glookup]. rewrite gpos_snoc. rewrite (G g).
        destruct (bytes_eqb g (v_guid h)) eqn:EB.
        - apply bytes_eqb_eq in EB. subst g. rewrite GPOS. reflexivity.
        - destruct (gpos g gstore); reflexivity. }
      destruct (assign_gidx r (gstore ++ [v_guid h])) as [gis table] eqn:AS. cbn [snd] in *.
      rewrite Z.mod_small by lia.
      rewrite Sl. cbn [of_opt bind]. rewrite ASM by (intros _; discriminate). cbn [bind].
      specialize (IH (offset + zlen (v_buf (first_entry pol h k (Some (zlen gstore)) offset)))
                     (gstore ++ [v_guid h]) ((v_guid h, zlen gstore) :: gmap) Fr G').
      rewrite AS in IH. cbn [snd] in IH. rewrite (IH T). cbn [bind fst snd first_entries]. reflexivity.
Qed.

End Rebuild.

Section Compact.
Variable enc16 : bytes -> bytes.

Lemma le_enc3_erased pol : pol = 0 \/ pol = 255 -> le_enc 3 (erased_next pol) = [pol; pol; pol].
Proof. intros [-> | ->]; reflexivity. Qed.

Lemma zlen_first_buf pol h k gi offset :
  zlen (v_buf (first_entry enc16 pol h k gi offset)) = rebuilt_size enc16 h k gi.
Proof.
  unfold first_entry, rebuilt_size, nvar_header_size. cbn [v_buf].
  rewrite !zlen_app, le2. change (zlen nvar_signature) with 4.
  change (zlen [pol; pol; pol]) with 3. change (zlen [v_attrs h]) with 1. lia.
Qed.

Lemma second_pass pol d' h k gi offset :
  pol = 0 \/ pol = 255 ->
  ATTR (v_attrs h) nvar_attr_dataonly = false ->
  (ATTR (v_attrs h) nvar_attr_guid = false -> gi <> None) ->
  v_sub k = None -> rebuilt_size enc16 h k gi < 2 ^ 16 ->
  asm_nvar enc16 pol d' (first_entry enc16 pol h k gi offset) = Ok (final_entry enc16 pol h k gi offset).
Proof.
  intros Hpol ND Hgi Hsub Hsz.
  pose proof (zlen_first_buf pol h k gi offset) as Lb.
  unfold first_entry in *. cbn [v_buf] in Lb.
  set (gp := gpart_bytes enc16 h gi) in *.
  set (hdr := nvar_signature ++ le_enc 2 (v_size h) ++ [pol; pol; pol] ++ [v_attrs h]) in *.
  assert (Lh : zlen hdr = 10) by (unfold hdr; rewrite !zlen_app, le2; reflexivity).
  pose proof (zlen_nonneg gp) as Hgp. pose proof (zlen_nonneg (content k)) as Hc.
  assert (Rs : rebuilt_size enc16 h k gi = 10 + zlen gp + zlen (content k)) by reflexivity.
  unfold asm_nvar. cbn [v_sub]. rewrite Hsub. cbn [bind set_sub is_valid v_type].
  replace (is_valid_type nvar_type_full) with true by reflexivity.
  cbn [v_dataoff v_buf].
  replace (slice (zlen (hdr ++ gp)) (zlen (hdr ++ gp ++ content k)) (hdr ++ gp ++ content k))
    with (Some (content k)).
  2:{ rewrite app_assoc. rewrite (zlen_app (hdr ++ gp)). symmetry. apply slice_suffix. }
  cbn [of_opt bind]. rewrite nvar_assemble_unfold. unfold is_valid.
  cbn [v_type v_nextoff v_off v_size v_attrs v_guid v_gidx v_name v_dataoff v_ext v_sub].
  replace (is_valid_type nvar_type_full) with true by reflexivity. cbn [negb Z.eqb andb].
  assert (GP : forall sz nx b dof, gpart_of enc16 (mkNVar sz nx (v_attrs h) (v_guid h) gi (v_name h)
                                  nvar_type_full offset 0 b dof no_ext None) = Ok gp).
  { intros. unfold gpart_of, gp, gpart_bytes. cbn [v_attrs v_guid v_gidx v_name]. rewrite ND.
    destruct (ATTR (v_attrs h) nvar_attr_guid) eqn:AG; [reflexivity|].
    destruct gi as [i|]; [reflexivity|]. exfalso. apply (Hgi eq_refl eq_refl). }
  rewrite GP. cbn [bind]. unfold write3. cbn [Z.eqb].
  rewrite Lb, Rs. rewrite (Z.mod_small (10 + zlen gp + zlen (content k))) by lia.
  set (size := 10 + zlen gp + zlen (content k)).
  assert (Eh : nvar_signature ++ le_enc 2 size ++ [pol; pol; pol] ++ [v_attrs h] =
               emit_header size (erased_next pol) (v_attrs h)).
  { unfold emit_header. rewrite le_enc3_erased by auto. reflexivity. }
  rewrite Eh.
  rewrite !(zlen_app _ gp), zlen_emit_header, Lh, Z.eqb_refl. cbn [negb andb].
  rewrite <- app_assoc.
  rewrite !zlen_app, zlen_emit_header.
  replace ((10 + (zlen gp + zlen (content k))) mod 2 ^ 16) with size
    by (unfold size; rewrite Z.mod_small by lia; lia).
  rewrite Z.eqb_refl. cbn [negb andb].
  unfold final_entry, rebuilt_size, nvar_header_size. fold gp. fold size.
  replace (10 + zlen gp + zlen (content k)) with size by reflexivity.
  reflexivity.
Qed.

Lemma assign_gidx_some hts : forall gstore,
  Forall2 (fun (ht : nvar * nvar) gi => ATTR (v_attrs (fst ht)) nvar_attr_guid = false -> gi <> None)
          hts (fst (assign_gidx hts gstore)).
Proof.
  induction hts as [|[h k] r IH]; intros gstore; [constructor|].
  cbn [assign_gidx]. destruct (ATTR (v_attrs h) nvar_attr_guid) eqn:AG.
  - specialize (IH gstore). destruct (assign_gidx r gstore). cbn [fst] in *.
    constructor; [cbn [fst]; congruence|exact IH].
  - destruct (gpos (v_guid h) gstore).
    + specialize (IH gstore). destruct (assign_gidx r gstore). cbn [fst] in *.
      constructor; [intros _; discriminate|exact IH].
    + specialize (IH (gstore ++ [v_guid h])). destruct (assign_gidx r (gstore ++ [v_guid h])). cbn [fst] in *.
      constructor; [intros _; discriminate|exact IH].
Qed.

Lemma second_pass_all pol d' : pol = 0 \/ pol = 255 -> forall hts gis offset,
  Forall (fun ht => ATTR (v_attrs (fst ht)) nvar_attr_dataonly = false /\ v_sub (snd ht) = None) hts ->
  Forall2 (fun (ht : nvar * nvar) gi => ATTR (v_attrs (fst ht)) nvar_attr_guid = false -> gi <> None) hts gis ->
  Forall2 (fun ht gi => rebuilt_size enc16 (fst ht) (snd ht) gi < 2 ^ 16) hts gis ->
  map_out (asm_nvar enc16 pol d') (first_entries enc16 pol hts gis offset) =
  Ok (final_entries enc16 pol hts gis offset).
Proof.
  intros Hpol. induction hts as [|[h k] r IH]; intros gis offset F G Sz.
  - inversion G; subst. reflexivity.
  - inversion G as [|? gi ? gr G1 Gr]; subst. inversion Sz as [|? ? ? ? S1 Sr]; subst.
    apply Forall_cons_iff in F as [[ND Hs] Fr]. cbn [fst snd] in *.
    cbn [first_entries final_entries map_out].
    rewrite second_pass by auto. cbn [bind].
    rewrite zlen_first_buf. rewrite IH by auto. reflexivity.
Qed.

Lemma final_entries_bufs pol hts : forall gis offset,
  zlen (concat (map v_buf (final_entries enc16 pol hts gis offset))) =
  sum_list (map v_size (final_entries enc16 pol hts gis offset)).
Proof.
  induction hts as [|[h k] r IH]; intros gis offset; [reflexivity|].
  destruct gis as [|gi gr]; [reflexivity|].
  cbn [final_entries map concat sum_list fold_right]. rewrite zlen_app, IH.
  f_equal. unfold final_entry. cbn [v_buf v_size].
  rewrite !zlen_app, zlen_emit_header. unfold rebuilt_size, nvar_header_size. lia.
Qed.

Lemma sum_sizes_nonneg pol hts : forall gis offset,
  0 <= sum_list (map v_size (final_entries enc16 pol hts gis offset)).
Proof.
  intros. rewrite <- final_entries_bufs. apply zlen_nonneg.
Qed.

(* nvram-compact computes [compacted] *)
Theorem compact_correct pol d' s :
  chains_ok (s_entries s) -> compact_fits enc16 pol s ->
  compact_store enc16 pol (S d') s = Ok (compacted enc16 pol s).
Proof.
  intros CO FIT. pose proof CO as [_ _ _ _ Hplain].
  cbn [compact_store].
  assert (M0 : map_out (fun v => match v_sub v with
                                | None => Ok v
                                | Some ns => do ns' <- compact_store enc16 pol d' ns; Ok (set_sub (Some ns') v)
                                end) (s_entries s) = Ok (s_entries s)).
  { apply map_out_id. apply Forall_forall. intros v Hv. destruct (Hplain v Hv) as [-> _]. reflexivity. }
  rewrite M0. cbn [bind]. clear M0.
  unfold compact_fits in FIT. unfold compacted.
  pose proof (heads_tails_spec (s_entries s) CO) as (Ksnd & Khl & _).
  pose proof (pass1_keep (s_entries s) []) as K.
  pose proof (pass1_spec (s_entries s) CO (s_entries s) [] [] eq_refl) as PS.
  assert (I0 : map_inv (s_entries s) [] []) by (split; [intros X h L; discriminate|intros l []]).
  specialize (PS I0).
  unfold heads_tails in *.
  destruct (pass1 (s_entries s) []) as [m keep] eqn:P1. cbn [snd] in K. destruct PS as [_ Kp].
  set (hts := map (fun k => (match lookup (v_off k) m with Some h => h | None => k end, k)) keep) in *.
  assert (Hsnd : map snd hts = keep) by (unfold hts; rewrite map_map; cbn [snd]; apply map_id).
  assert (Fh : Forall (fun ht => lookup (v_off (snd ht)) m = Some (fst ht) /\
                                 ATTR (v_attrs (fst ht)) nvar_attr_dataonly = false /\
                                 0 <= v_dataoff (snd ht) <= zlen (v_buf (snd ht))) hts).
  { apply Forall_forall. intros ht Hht. unfold hts in Hht. apply in_map_iff in Hht as (k & <- & Hk).
    cbn [fst snd]. destruct (Kp k Hk) as (h & L & (_ & _ & ND & _) & _). rewrite L.
    repeat split; auto.
    - apply Hplain. rewrite K in Hk. unfold tails in Hk. apply filter_In in Hk as [Hk _]. exact Hk.
    - apply Hplain. rewrite K in Hk. unfold tails in Hk. apply filter_In in Hk as [Hk _]. exact Hk. }
  pose proof (assign_gidx_some hts []) as Gs.
  destruct (assign_gidx hts []) as [gis table] eqn:AS. cbn [fst] in Gs.
  destruct FIT as (Hpol & Sz & Tl & Fit & Len).
  rewrite <- Hsnd.
  rewrite (rebuild_spec enc16 pol m hts 0 [] []); auto.
  2:{ intros g. reflexivity. }
  2:{ rewrite AS. exact Tl. }
  rewrite AS. cbn [bind fst snd].
  rewrite asm_store_unfold. cbn [s_entries s_guids s_len s_buf].
  rewrite (second_pass_all pol d' Hpol hts gis 0); auto.
  2:{ apply Forall_forall. intros ht Hht. rewrite Forall_forall in Fh. destruct (Fh ht Hht) as (_ & ND & _).
      split; [exact ND|]. apply Hplain.
      assert (Hk : In (snd ht) keep) by (rewrite <- Hsnd; apply in_map; exact Hht).
      rewrite K in Hk. unfold tails in Hk. apply filter_In in Hk as [Hk _]. exact Hk. }
  cbn [bind].
  pose proof (final_entries_bufs pol hts gis 0) as Lb.
  pose proof (sum_sizes_nonneg pol hts gis 0) as Ls.
  pose proof (zlen_nonneg table) as Ht0. unfold nvar_guid_size in *.
  rewrite Lb. cbv zeta.
  replace ((s_len s <? 16 * zlen table) ||
           (s_len s - 16 * zlen table <? sum_list (map v_size (final_entries enc16 pol hts gis 0))))
    with false by lia.
  reflexivity.
Qed.


(* ---- what [compacted] looks like ---- *)

Definition triple (v : nvar) : bytes * bytes * bytes := (v_guid v, v_name v, content v).

Lemma content_final pol h k gi offset : content (final_entry enc16 pol h k gi offset) = content k.
Proof.
  unfold content at 1. unfold final_entry. cbn [v_dataoff v_buf].
  rewrite app_assoc.
  replace (nvar_header_size + zlen (gpart_bytes enc16 h gi))
    with (zlen (emit_header (rebuilt_size enc16 h k gi) (erased_next pol) (v_attrs h) ++ gpart_bytes enc16 h gi))
    by (rewrite zlen_app, zlen_emit_header; reflexivity).
  apply zskipn_app_exact.
Qed.

Definition full_tail (v : nvar) : Prop :=
  v_type v = nvar_type_full /\ v_nextoff v = 0 /\ ATTR (v_attrs v) nvar_attr_dataonly = false /\ v_sub v = None.

Lemma final_entries_props pol hts : forall gis offset,
  Forall (fun ht => head_like (fst ht) (snd ht)) hts -> length gis = length hts ->
  map triple (final_entries enc16 pol hts gis offset) = map (fun ht => triple (snd ht)) hts /\
  Forall full_tail (final_entries enc16 pol hts gis offset).
Proof.
  induction hts as [|[h k] r IH]; intros gis offset F L.
  - destruct gis; [|discriminate]. split; [reflexivity|constructor].
  - destruct gis as [|gi gr]; [discriminate|].
    apply Forall_cons_iff in F as [(G & N & ND & V) Fr]. cbn [fst snd] in *.
    cbn [final_entries map]. destruct (IH gr (offset + rebuilt_size enc16 h k gi) Fr ltac:(simpl in L; lia)) as [I1 I2].
    split.
    + rewrite I1. f_equal. unfold triple. rewrite content_final.
      unfold final_entry. cbn [v_guid v_name]. rewrite G, N. reflexivity.
    + constructor; [|exact I2]. unfold full_tail, final_entry. cbn [v_type v_nextoff v_attrs v_sub]. auto.
Qed.

Lemma assign_gidx_length hts : forall gstore, length (fst (assign_gidx hts gstore)) = length hts.
Proof.
  induction hts as [|[h k] r IH]; intros gstore; [reflexivity|].
  cbn [assign_gidx]. destruct (ATTR (v_attrs h) nvar_attr_guid).
  - specialize (IH gstore). destruct (assign_gidx r gstore). cbn [fst length] in *. lia.
  - destruct (gpos (v_guid h) gstore).
    + specialize (IH gstore). destruct (assign_gidx r gstore). cbn [fst length] in *. lia.
    + specialize (IH (gstore ++ [v_guid h])). destruct (assign_gidx r (gstore ++ [v_guid h])). cbn [fst length] in *. lia.
Qed.

Lemma tails_full es : Forall full_tail es -> tails es = es.
Proof.
  induction 1 as [|v r (T & N & _) _ IH]; [reflexivity|].
  unfold tails in *. cbn [filter].
  replace (is_tail v) with true by (unfold is_tail, is_valid; rewrite T, N; reflexivity).
  rewrite IH. reflexivity.
Qed.

Lemma assign_gidx_table hts : forall gstore,
  table_ok gstore -> Forall (fun ht : nvar * nvar => zlen (v_guid (fst ht)) = 16) hts ->
  table_ok (snd (assign_gidx hts gstore)).
Proof.
  induction hts as [|[h k] r IH]; intros gstore T F; [exact T|].
  apply Forall_cons_iff in F as [Fh Fr]. cbn [fst] in Fh.
  cbn [assign_gidx]. destruct (ATTR (v_attrs h) nvar_attr_guid).
  - specialize (IH gstore T Fr). destruct (assign_gidx r gstore). exact IH.
  - destruct (gpos (v_guid h) gstore).
    + specialize (IH gstore T Fr). destruct (assign_gidx r gstore). exact IH.
    + assert (T' : table_ok (gstore ++ [v_guid h])).
      { intros g Hg. apply in_app_or in Hg as [Hg|[<-|[]]]; auto. }
      specialize (IH _ T' Fr). destruct (assign_gidx r (gstore ++ [v_guid h])). exact IH.
Qed.

(* the clauses of the compaction statement *)
Theorem compact_spec pol d' s :
  chains_ok (s_entries s) -> compact_fits enc16 pol s ->
  exists st', compact_store enc16 pol (S d') s = Ok st' /\
    s_len st' = s_len s /\ zlen (s_buf st') = s_len s /\
    live st' = live s /\
    map triple (s_entries st') = live s /\
    Forall full_tail (s_entries st') /\
    s_buf st' = concat (map v_buf (s_entries st')) ++
                zrepeat pol (s_goff st' - s_free st') ++ concat (rev (s_guids st')).
Proof.
  intros CO FIT. exists (compacted enc16 pol s). split; [apply compact_correct; auto|].
  pose proof (heads_tails_spec (s_entries s) CO) as (Ksnd & Khl & Kin).
  unfold compact_fits in FIT. unfold compacted.
  pose proof (assign_gidx_length (heads_tails (s_entries s)) []) as GL.
  assert (TO : table_ok (snd (assign_gidx (heads_tails (s_entries s)) []))).
  { apply assign_gidx_table; [intros g []|].
    apply Forall_forall. intros ht Hht. rewrite Forall_forall in Kin. destruct (Kin ht Hht) as [Hh _].
    destruct CO as [_ _ _ _ Hplain]. apply (Hplain _ Hh). }
  destruct (assign_gidx (heads_tails (s_entries s)) []) as [gis table]. cbn [fst snd] in GL, TO.
  destruct FIT as (Hpol & Sz & Tl & Fit & Len).
  destruct (final_entries_props pol (heads_tails (s_entries s)) gis 0 Khl GL) as [Tr Ft].
  pose proof (final_entries_bufs pol (heads_tails (s_entries s)) gis 0) as Lb.
  pose proof (sum_sizes_nonneg pol (heads_tails (s_entries s)) gis 0) as Ls.
  pose proof (zlen_nonneg table). unfold nvar_guid_size in *.
  assert (LV : map (fun ht : nvar * nvar => triple (snd ht)) (heads_tails (s_entries s)) = live s).
  { unfold live. rewrite <- Ksnd. rewrite map_map. reflexivity. }
  cbn [s_len s_buf s_entries s_goff s_free s_guids].
  repeat split; auto.
  - rewrite !zlen_app, (zlen_concat_table (rev table)), zlen_rev by (apply table_ok_rev; exact TO).
    rewrite zlen_zrepeat by lia. lia.
  - unfold live at 1. cbn [s_entries]. rewrite tails_full by exact Ft.
    fold triple. rewrite Tr. exact LV.
  - rewrite Tr. exact LV.
Qed.

End Compact.

(* ---------- invalidate_nvar, then compact ---------- *)

Definition inv_entry (n : bytes) (v : nvar) : nvar :=
  if bytes_eqb (v_name v) n then set_type nvar_type_invalid v else v.

Lemma invalidate_entries n s : s_entries (invalidate n s) = map (inv_entry n) (s_entries s).
Proof. reflexivity. Qed.

Lemma set_type_fields t v :
  v_off (set_type t v) = v_off v /\ v_nextoff (set_type t v) = v_nextoff v /\
  v_guid (set_type t v) = v_guid v /\ v_name (set_type t v) = v_name v /\
  v_attrs (set_type t v) = v_attrs v /\ v_sub (set_type t v) = v_sub v /\
  v_dataoff (set_type t v) = v_dataoff v /\ v_buf (set_type t v) = v_buf v /\
  v_type (set_type t v) = t.
Proof. destruct v. cbn. repeat split. Qed.

Lemma inv_entry_off n v : v_off (inv_entry n v) = v_off v.
Proof. unfold inv_entry. destruct (bytes_eqb _ _); [apply set_type_fields|reflexivity]. Qed.

Lemma inv_entry_valid n v : is_valid (inv_entry n v) = true ->
  inv_entry n v = v /\ is_valid v = true /\ bytes_eqb (v_name v) n = false.
Proof.
  unfold inv_entry. destruct (bytes_eqb (v_name v) n) eqn:E.
  - unfold is_valid. destruct (set_type_fields nvar_type_invalid v) as (_ & _ & _ & _ & _ & _ & _ & _ & ->).
    discriminate.
  - auto.
Qed.

Lemma sorted_map_inv n es : StronglySorted ltoff es -> StronglySorted ltoff (map (inv_entry n) es).
Proof.
  induction 1 as [|v r S IH F]; [constructor|].
  cbn [map]. constructor; [exact IH|].
  apply Forall_forall. intros w Hw. apply in_map_iff in Hw as (w0 & <- & Hw0).
  rewrite Forall_forall in F. specialize (F w0 Hw0). unfold ltoff in *. rewrite !inv_entry_off. exact F.
Qed.

Lemma chains_ok_invalidate n es : chains_ok es -> chains_ok (map (inv_entry n) es).
Proof.
  intros [Hs Hf Hl Hh Hp].
  assert (IN : forall v', In v' (map (inv_entry n) es) -> is_valid v' = true ->
                 In v' es /\ is_valid v' = true /\ bytes_eqb (v_name v') n = false).
  { intros v' Hv V. apply in_map_iff in Hv as (v & <- & Hv).
    destruct (inv_entry_valid n v V) as (E & V0 & Nn). rewrite E. auto. }
  constructor.
  - apply sorted_map_inv. exact Hs.
  - intros l Hl' Vl Nl. destruct (IN l Hl' Vl) as (Hin & _). apply Hf; auto.
  - intros l v Hl' Hv' Vl Vv Nl Eq. destruct (IN l Hl' Vl) as (Hin1 & _). destruct (IN v Hv' Vv) as (Hin2 & _).
    apply Hl; auto.
  - intros v Hv' Vv Hno. destruct (IN v Hv' Vv) as (Hin & _ & Nn).
    apply Hh; auto. intros l Hlin Vl Nl Eq.
    destruct (Hl l v Hlin Hin Vl Vv Nl Eq) as [_ En].
    assert (El : inv_entry n l = l) by (unfold inv_entry; rewrite En, Nn; reflexivity).
    apply (Hno l); auto.
    rewrite <- El. apply in_map. exact Hlin.
  - intros v' Hv'. apply in_map_iff in Hv' as (v & <- & Hv).
    specialize (Hp v Hv). unfold inv_entry. destruct (bytes_eqb (v_name v) n); [|exact Hp].
    destruct (set_type_fields nvar_type_invalid v) as (_ & _ & -> & _ & _ & -> & -> & -> & _). exact Hp.
Qed.

Lemma tails_invalidate n es :
  tails (map (inv_entry n) es) = filter (fun v => negb (bytes_eqb (v_name v) n)) (tails es).
Proof.
  induction es as [|v r IH]; [reflexivity|].
  unfold tails in *. cbn [map filter].
  destruct (bytes_eqb (v_name v) n) eqn:E.
  - assert (I : inv_entry n v = set_type nvar_type_invalid v) by (unfold inv_entry; rewrite E; reflexivity).
    rewrite I.
    assert (T : is_tail (set_type nvar_type_invalid v) = false).
    { unfold is_tail, is_valid. destruct (set_type_fields nvar_type_invalid v) as (_ & _ & _ & _ & _ & _ & _ & _ & ->).
      reflexivity. }
    rewrite T. rewrite IH. destruct (is_tail v); [|reflexivity].
    cbn [filter]. rewrite E. reflexivity.
  - assert (I : inv_entry n v = v) by (unfold inv_entry; rewrite E; reflexivity).
    rewrite I. destruct (is_tail v); [|exact IH]. cbn [filter]. rewrite E. cbn [negb]. rewrite IH. reflexivity.
Qed.

Lemma live_invalidate n s :
  live (invalidate n s) = filter (fun t => negb (bytes_eqb (snd (fst t)) n)) (live s).
Proof.
  unfold live. rewrite invalidate_entries, tails_invalidate.
  induction (tails (s_entries s)) as [|v r IH]; [reflexivity|].
  cbn [filter map fst snd]. destruct (bytes_eqb (v_name v) n); cbn [negb map]; rewrite IH; reflexivity.
Qed.

Section InvCompact.
Variable enc16 : bytes -> bytes.

(* invalidating a name and compacting leaves exactly the other live variables *)
Theorem invalidate_then_compact pol d' n s :
  chains_ok (s_entries s) -> compact_fits enc16 pol (invalidate n s) ->
  exists st', compact_store enc16 pol (S d') (invalidate n s) = Ok st' /\
    s_len st' = s_len s /\
    live st' = filter (fun t => negb (bytes_eqb (snd (fst t)) n)) (live s) /\
    Forall full_tail (s_entries st').
Proof.
  intros CO FIT.
  assert (CO' : chains_ok (s_entries (invalidate n s)))
    by (rewrite invalidate_entries; apply chains_ok_invalidate; exact CO).
  destruct (compact_spec enc16 pol d' (invalidate n s) CO' FIT) as (st' & C & L & _ & LV & _ & FT & _).
  exists st'. repeat split; auto. rewrite LV. apply live_invalidate.
Qed.

End InvCompact.
