(* Proofs/ExtractProofs.v — lemmas for property C07 (extract to a directory and reassemble).

   Plan: (1) [asm_congr]: the assembler of Ffs.v reads only part of a tree (relation [rel]: the header
   fields it uses, the buffers of leaves, the header bytes of volumes); trees related by [rel] assemble
   to the same bytes, in particular file checksums and all size fields are recomputed and never read.
   (2) [json_project_rel]: for trees as the parser returns them ([wf_tree]) the JSON projection of a
   tree is [rel]-related to the tree.  (3) [extract_shape]: the paths written by Extract are distinct
   under [paths_ok]; hence (4) [reload_extract]: ParseDir of the extracted directory is the projection.
   (5) the field-edit lemmas on [gen_sec_header] / [checksum_and_assemble].
   (6) the parser establishes [wf_tree] and [paths_ok]. *)
From Coq Require Import ZifyBool ZifyNat.
From Fiano Require Import Base.Bytes Base.BytesLemmas Model.Ffs Model.Extract.
Open Scope Z_scope.


(* ---------- induction on trees ---------- *)
Section NodeInd.
Variable P : node -> Prop.
Hypothesis Hpad : forall o b, P (NPad o b).
Hypothesis Hsec : forall h b k, Forall P k -> P (NSec h b k).
Hypothesis Hfile : forall h b k, Forall P k -> P (NFile h b k).
Hypothesis Hvol : forall h b k, Forall P k -> P (NVol h b k).
Fixpoint node_ind2 (n : node) : P n :=
  let go := fix go (l : list node) : Forall P l :=
    match l with [] => Forall_nil P | x :: r => Forall_cons x (node_ind2 x) (go r) end in
  match n with
  | NPad o b => Hpad o b
  | NSec h b k => Hsec h b k (go k)
  | NFile h b k => Hfile h b k (go k)
  | NVol h b k => Hvol h b k (go k)
  end.
End NodeInd.

(* ---------- what the assembler reads of a tree ---------- *)

Definition gd_rel (a b : option gdhdr) : Prop :=
  match a, b with
  | None, None => True
  | Some x, Some y => gd_guid x = gd_guid y /\ gd_attrs x = gd_attrs y
  | _, _ => False
  end.
Definition sec_rel (a b : sechdr) : Prop :=
  s_type a = s_type b /\ gd_rel (s_gd a) (s_gd b) /\ s_name a = s_name b /\ s_build a = s_build b /\
  s_version a = s_version b /\ s_depex a = s_depex b.
Definition file_rel (a b : filehdr) : Prop :=
  f_guid a = f_guid b /\ zlen (f_guid a) = 16 /\ f_type a = f_type b /\ f_attr a = f_attr b /\
  f_state a = f_state b /\ f_nvar a = f_nvar b.
Definition vol_rel (a b : volhdr) : Prop :=
  v_guid a = v_guid b /\ v_length a = v_length b /\ v_attrs a = v_attrs b /\ v_hdrlen a = v_hdrlen b /\
  v_blocks a = v_blocks b /\ v_dataoff a = v_dataoff b /\ v_resizable a = v_resizable b.

(* an encapsulating section is taken from its old buffer only when it is GUID-defined without the
   processing-required attribute *)
Definition sec_reads_buf (h : sechdr) (kids : list node) : Prop :=
  kids = [] \/ (s_type h = 2 /\ exists g, s_gd h = Some g /\ Z.land (gd_attrs g) 1 = 0).

(* what a rebuilt volume reads of its old buffer: the two length guards and the header bytes *)
Definition vol_buf_rel (h : volhdr) (b1 b2 : bytes) : Prop :=
  (v_length h <? zlen b1) = (v_length h <? zlen b2) /\
  (zlen b1 <? v_dataoff h) = (zlen b2 <? v_dataoff h) /\
  slice 0 (v_dataoff h) b1 = slice 0 (v_dataoff h) b2.

Lemma vol_buf_rel_refl h b : vol_buf_rel h b b.
Proof. repeat split. Qed.

Inductive rel : node -> node -> Prop :=
| R_pad : forall o1 o2 b, rel (NPad o1 b) (NPad o2 b)
| R_sec : forall h1 h2 b1 b2 k1 k2, sec_rel h1 h2 -> Forall2 rel k1 k2 ->
    (sec_reads_buf h1 k1 -> b1 = b2) -> rel (NSec h1 b1 k1) (NSec h2 b2 k2)
| R_file : forall h1 h2 b1 b2 k1 k2, file_rel h1 h2 -> Forall2 rel k1 k2 ->
    (k1 = [] -> f_nvar h1 = None -> b1 = b2) -> rel (NFile h1 b1 k1) (NFile h2 b2 k2)
| R_vol : forall h1 h2 b1 b2 k1 k2, vol_rel h1 h2 -> Forall2 rel k1 k2 ->
    (k1 = [] -> b1 = b2) ->
    (k1 <> [] -> vol_buf_rel h1 b1 b2) ->
    rel (NVol h1 b1 k1) (NVol h2 b2 k2).

Definition orel (a b : node) : Prop := rel a b /\ node_buf a = node_buf b.

Definition out_rel {A} (R : A -> A -> Prop) (x y : outcome A) : Prop :=
  match x, y with
  | Ok a, Ok b => R a b
  | Err e, Err e' => e = e'
  | Panic s, Panic s' => s = s'
  | Fuel, Fuel => True
  | _, _ => False
  end.

Lemma out_rel_refl {A} (R : A -> A -> Prop) x : (forall a, R a a) -> out_rel R x x.
Proof. destruct x; cbn; auto. Qed.

Lemma out_rel_eq {A} (x y : outcome A) : out_rel eq x y -> x = y.
Proof. destruct x, y; cbn; intros; try contradiction; congruence. Qed.

Lemma out_rel_bind {A B} (R : A -> A -> Prop) (S : B -> B -> Prop) x y f g :
  out_rel R x y -> (forall a b, R a b -> out_rel S (f a) (g b)) ->
  out_rel S (bind x f) (bind y g).
Proof. destruct x, y; cbn; intros; try contradiction; auto. Qed.

Section Asm.
Variable enc : Z -> bytes -> option bytes.
Variable s2u : bytes -> bytes.
Notation asm := (asm enc s2u).
Notation asm_elems := (asm_elems enc s2u).
Notation asm_bios := (asm_bios enc s2u).

(* unfolding *)
Lemma asm_pad off b st : asm (NPad off b) st = Ok (NPad off b, st).
Proof. reflexivity. Qed.

Definition sec_leaf_body (h : sechdr) : outcome (option bytes) :=
  let t := s_type h in
  if t =? 21 then Ok (Some (s2u (s_name h)))
  else if t =? 20 then Ok (Some (le_enc 2 (s_build h) ++ s2u (s_version h)))
  else if (t =? 19) || (t =? 27) || (t =? 28) then
    do b <- emit_depex (match s_depex h with Some l => l | None => [] end); Ok (Some b)
  else Ok None.

Definition sec_encap_body (h : sechdr) (buf data : bytes) : outcome bytes :=
  if s_type h =? 2 then
    match s_gd h with
    | None => Panic 301
    | Some g =>
      if negb (Z.land (gd_attrs g) 1 =? 0) then
        if codec_kind (gd_guid g) =? 0 then Err E_CODEC else
        match enc (codec_kind (gd_guid g)) data with
        | Some c => Ok c
        | None => Err E_CODEC
        end
      else Ok buf
    end
  else Ok data.

Lemma asm_sec h buf kids st : asm (NSec h buf kids) st =
    do ks <- asm_elems kids st; let '(kids', st1) := ks in
    let '(pol, ffs3) := st1 in
    match kids' with
    | [] =>
      do body <- sec_leaf_body h;
      match body with
      | None => Ok (NSec h buf [], st1)
      | Some b =>
        let '(h', nb) := gen_sec_header h b in
        Ok (NSec h' nb [], (pol, ffs3 || (16777215 <? s_ext h')))
      end
    | _ =>
      do body <- sec_encap_body h buf (join4 [] (map node_buf kids'));
      let '(h', nb) := gen_sec_header h body in
      Ok (NSec h' nb kids', (pol, ffs3 || (16777215 <? s_ext h')))
    end.
Proof. reflexivity. Qed.

Lemma asm_file h buf kids st : asm (NFile h buf kids) st =
    do ks <- asm_elems kids st; let '(kids', st1) := ks in
    let '(pol, ffs3) := st1 in
    match kids', f_nvar h with
    | [], None => Ok (NFile h buf [], st1)
    | _, _ =>
      let data := match f_nvar h with
                  | Some nb => nb
                  | None => join4 [] (map node_buf kids') end in
      let '(ext, attr) := set_size (f_attr h) (24 + zlen data) true in
      let '(h', nb) := checksum_and_assemble h ext attr data in
      Ok (NFile h' nb kids', (pol, ffs3 || (16777215 <? ext)))
    end.
Proof. reflexivity. Qed.

Lemma asm_volume h buf kids st : asm (NVol h buf kids) st =
    match set_polarity (fst st) (fv_polarity (v_attrs h)) with
    | None => Err E_POLARITY
    | Some pol0 =>
      do ks <- asm_elems kids (pol0, false); let '(kids', st1) := ks in
      let '(pol, ffs3) := st1 in
      do hb <- asm_vol pol ffs3 h buf kids';
      let '(h', nb) := hb in
      Ok (NVol h' nb kids', (pol, snd st))
    end.
Proof.
  change (asm (NVol h buf kids) st) with
    (match set_polarity (fst st) (fv_polarity (v_attrs h)) with
     | None => Err E_POLARITY
     | Some pol0 =>
       do ks <- asm_elems kids (pol0, false); let '(kids', st1) := ks in
       do r <- vol_asm h buf kids' st1; let '(n', st2) := r in Ok (n', (fst st2, snd st))
     end).
  destruct (set_polarity (fst st) (fv_polarity (v_attrs h))) as [pol0|]; [|reflexivity].
  destruct (asm_elems kids (pol0, false)) as [[kids' [pol ffs3]]| | |]; cbn [bind]; try reflexivity.
  unfold vol_asm. destruct (asm_vol pol ffs3 h buf kids') as [[h' nb]| | |]; reflexivity.
Qed.

Lemma asm_elems_cons x r st : asm_elems (x :: r) st =
  do xs <- asm x st; let '(x', st1) := xs in
  do rs <- asm_elems r st1; let '(r', st2) := rs in
  Ok (x' :: r', st2).
Proof. reflexivity. Qed.

End Asm.


Lemma sum_list_app a b : sum_list (a ++ b) = sum_list a + sum_list b.
Proof. unfold sum_list. induction a as [|x a IH]; cbn [app fold_right]; [reflexivity|]. rewrite IH. ring. Qed.

Lemma ck_indep A ckh ckf state :
  (ckh - ((A + ckh + ckf) mod 256 - ckf - state) mod 256) mod 256 = (state - A) mod 256.
Proof.
  rewrite Zminus_mod_idemp_r.
  replace (ckh - ((A + ckh + ckf) mod 256 - ckf - state)) with ((ckh + ckf + state) - (A + ckh + ckf) mod 256) by ring.
  rewrite Zminus_mod_idemp_r. f_equal. ring.
Qed.

Lemma gen_sec_header_congr h1 h2 body : sec_rel h1 h2 ->
  snd (gen_sec_header h1 body) = snd (gen_sec_header h2 body) /\
  sec_rel (fst (gen_sec_header h1 body)) (fst (gen_sec_header h2 body)) /\
  s_ext (fst (gen_sec_header h1 body)) = s_ext (fst (gen_sec_header h2 body)).
Proof.
  intros (Ht & Hg & Hn & Hb & Hv & Hd).
  unfold gen_sec_header. rewrite <- Ht, <- Hn, <- Hb, <- Hv, <- Hd.
  destruct (s_gd h1) as [g1|], (s_gd h2) as [g2|]; cbn in Hg; try contradiction.
  - destruct Hg as [Hgg Hga]. cbn [fst snd gd_guid gd_dataoff gd_attrs]. rewrite <- Hgg, <- Hga.
    repeat split; cbn; auto.
  - repeat split; cbn; auto.
Qed.

Lemma firstn_app_ge {A} (a b : list A) n : (length a <= n)%nat ->
  firstn n (a ++ b) = a ++ firstn (n - length a) b.
Proof. intros. rewrite firstn_app. rewrite firstn_all2 by lia. reflexivity. Qed.

Lemma checksum_and_assemble_congr h1 h2 ext attr data : file_rel h1 h2 ->
  snd (checksum_and_assemble h1 ext attr data) = snd (checksum_and_assemble h2 ext attr data) /\
  file_rel (fst (checksum_and_assemble h1 ext attr data)) (fst (checksum_and_assemble h2 ext attr data)).
Proof.
  intros (Hg & Hl & Ht & Ha & Hs & Hn).
  unfold checksum_and_assemble. cbn [fst snd].
  rewrite <- Hg, <- Ht, <- Hs, <- Hn.
  set (hs := if attr_large attr then 32 else 24).
  assert (Hsum : forall ckh ckf,
    (ckh - (sum8 (zfirstn hs (file_header_bytes (f_guid h1) ckh ckf (f_type h1) attr (write3 ext) (f_state h1) ext true))
            - ckf - f_state h1) mod 256) mod 256 =
    (f_state h1 - (sum_list (f_guid h1) + sum_list (zfirstn (hs - 18)
        ([f_type h1; attr] ++ le_enc 3 (write3 ext) ++ [f_state h1] ++ le_enc 8 ext)))) mod 256).
  { intros ckh ckf. unfold file_header_bytes, sum8, zfirstn.
    change (f_guid h1 ++ [ckh; ckf; f_type h1; attr] ++ le_enc 3 (write3 ext) ++ [f_state h1] ++ le_enc 8 ext)
      with (f_guid h1 ++ [ckh; ckf] ++ ([f_type h1; attr] ++ le_enc 3 (write3 ext) ++ [f_state h1] ++ le_enc 8 ext)).
    rewrite app_assoc.
    assert (Hlen : length (f_guid h1 ++ [ckh; ckf]) = 18%nat).
    { rewrite app_length. unfold zlen in Hl. cbn [length]. lia. }
    rewrite firstn_app_ge by (rewrite Hlen; subst hs; destruct (attr_large attr); lia).
    rewrite Hlen. replace (Z.to_nat hs - 18)%nat with (Z.to_nat (hs - 18)) by lia.
    rewrite !sum_list_app. change (sum_list [ckh; ckf]) with (ckh + (ckf + 0)).
    match goal with |- context [sum_list (firstn ?n ?l)] => set (R := sum_list (firstn n l)) end.
    replace (sum_list (f_guid h1) + (ckh + (ckf + 0)) + R) with ((sum_list (f_guid h1) + R) + ckh + ckf) by ring.
    apply ck_indep. }
  rewrite (Hsum (f_ckh h1) (f_ckf h1)), (Hsum (f_ckh h2) (f_ckf h2)).
  split; [reflexivity|].
  repeat split; cbn; auto.
Qed.

Definition file_attr (f : node) : Z := match f with NFile h _ _ => f_attr h | _ => 0 end.

Lemma orel_file_attr a b : orel a b -> file_attr a = file_attr b.
Proof. intros [H _]. inversion H; subst; cbn; auto. match goal with H : file_rel _ _ |- _ => apply H end. Qed.

Lemma place_files_congr pol lim : forall k1 k2, Forall2 orel k1 k2 -> forall fvbuf off,
  place_files pol lim fvbuf off k1 = place_files pol lim fvbuf off k2.
Proof.
  induction 1 as [|a b k1 k2 Hab Hk IH]; intros fvbuf off; [reflexivity|].
  cbn [place_files].
  change (match a with NFile h _ _ => f_attr h | _ => 0 end) with (file_attr a).
  change (match b with NFile h _ _ => f_attr h | _ => 0 end) with (file_attr b).
  rewrite <- (orel_file_attr _ _ Hab). destruct Hab as [_ Hbuf]. rewrite <- Hbuf.
  destruct (zlen (node_buf a) =? 0); [reflexivity|].
  match goal with |- (if ?c then _ else _) = _ => destruct c; [reflexivity|] end.
  match goal with |- bind ?x _ = _ => destruct x as [[fb1 a1]| | |]; cbn [bind]; try reflexivity end.
  match goal with |- bind ?x _ = _ => destruct x as [b2| | |]; cbn [bind]; try reflexivity end.
  apply IH.
Qed.


Lemma Forall2_orel_bufs k1 k2 : Forall2 orel k1 k2 -> map node_buf k1 = map node_buf k2.
Proof. induction 1 as [|a b ? ? [_ H] _ IH]; cbn; [reflexivity|]. rewrite H, IH. reflexivity. Qed.

Lemma Forall2_orel_rel k1 k2 : Forall2 orel k1 k2 -> Forall2 rel k1 k2.
Proof. induction 1 as [|a b ? ? [H _] _ IH]; constructor; auto. Qed.

Lemma asm_vol_congr pol ffs3 h1 h2 b1 b2 k1 k2 :
  vol_rel h1 h2 -> Forall2 orel k1 k2 -> (k1 = [] -> b1 = b2) ->
  (k1 <> [] -> vol_buf_rel h1 b1 b2) ->
  out_rel (fun a b => vol_rel (fst a) (fst b) /\ snd a = snd b)
          (asm_vol pol ffs3 h1 b1 k1) (asm_vol pol ffs3 h2 b2 k2).
Proof.
  intros Hv Hk He Hn. pose proof Hv as (Hg & Hl & Ha & Hh & Hb & Hd & Hr).
  unfold asm_vol. rewrite <- Hg.
  assert (Hm : match k1 with [] => true | _ => false end = match k2 with [] => true | _ => false end)
    by (destruct Hk; reflexivity).
  rewrite <- Hm.
  destruct ((match k1 with [] => true | _ => false end) && negb (supported_fv (v_guid h1))) eqn:C.
  - cbn. split; [assumption|]. apply He. destruct k1; [reflexivity|discriminate C].
  - assert (Hbuf : vol_buf_rel h1 b1 b2).
    { destruct k1 as [|x k1]; [rewrite (He eq_refl); apply vol_buf_rel_refl|apply Hn; discriminate]. }
    destruct Hbuf as (Hlen & Hgd & Hsl).
    assert (Hpf : forall fb off lim, place_files pol lim fb off k1 = place_files pol lim fb off k2).
    { intros. apply place_files_congr. assumption. }
    rewrite <- Hl, <- Hb, <- Hd, <- Hh, <- Hr, <- Hlen, <- Hgd, <- Hsl.
    destruct (v_length h1 <? zlen b1); [cbn; reflexivity|].
    destruct (v_blocks h1) as [|[c s] rest] eqn:Hbl; [cbn; reflexivity|].
    destruct (v_dataoff h1 <? v_hdrlen h1); [cbn; reflexivity|].
    destruct (zlen b1 <? v_dataoff h1); [cbn; reflexivity|].
    destruct (slice 0 (v_dataoff h1) b1) as [hdr|]; cbn [of_opt bind]; [|reflexivity].
    rewrite <- Hpf.
    destruct (place_files pol _ hdr (v_dataoff h1) k1) as [pb| | |]; cbn [bind]; try reflexivity.
    destruct ((v_length h1 <? zlen pb) && negb (v_resizable h1)); [cbn; reflexivity|].
    match goal with |- out_rel _ (bind ?x _) _ => destruct x as [[len blocks]| | |]; cbn [bind]; try reflexivity end.
    match goal with |- out_rel _ (if ?c then _ else _) _ => destruct c; [cbn; reflexivity|] end.
    destruct blocks as [|[c' s'] bl']; [cbn; reflexivity|].
    match goal with |- out_rel _ (if ?c then _ else _) _ => destruct c; [cbn; reflexivity|] end.
    match goal with |- out_rel _ (match ?x with Some _ => _ | None => _ end) _ => destruct x; [|cbn; reflexivity] end.
    match goal with |- out_rel _ (if ?c then _ else _) _ => destruct c; [cbn; reflexivity|] end.
    cbn. split; [|reflexivity]. unfold vol_rel; cbn. rewrite Ha, Hh, Hd, Hr. repeat split; auto.
Qed.

Section Asm.
Variable enc : Z -> bytes -> option bytes.
Variable s2u : bytes -> bytes.
Notation asm := (asm enc s2u).
Notation asm_elems := (asm_elems enc s2u).
Notation asm_bios := (asm_bios enc s2u).

Definition res_rel (a b : node * ast) : Prop := orel (fst a) (fst b) /\ snd a = snd b.
Definition lres_rel (a b : list node * ast) : Prop := Forall2 orel (fst a) (fst b) /\ snd a = snd b.

Definition congr_at (t1 : node) : Prop :=
  forall t2 st, rel t1 t2 -> out_rel res_rel (asm t1 st) (asm t2 st).

Lemma asm_elems_congr k1 : Forall congr_at k1 -> forall k2, Forall2 rel k1 k2 -> forall st,
  out_rel lres_rel (asm_elems k1 st) (asm_elems k2 st).
Proof.
  induction 1 as [|x k1 Hx Hk IH]; intros k2 H2 st; inversion H2 as [|? y ? k2' Hxy Hk2]; subst.
  - cbn. split; [constructor|reflexivity].
  - rewrite !asm_elems_cons.
    eapply out_rel_bind; [apply (Hx y st Hxy)|].
    intros [x' s1] [y' s2] [Hxy' Hs]; cbn [fst snd] in *; subst s2.
    eapply out_rel_bind; [apply (IH k2' Hk2 s1)|].
    intros [r1 s3] [r2 s4] [Hr Hs]; cbn [fst snd] in *; subst s4.
    cbn. split; [constructor; auto|reflexivity].
Qed.

Lemma asm_elems_length : forall k st k' st', asm_elems k st = Ok (k', st') -> length k' = length k.
Proof.
  induction k as [|x k IH]; intros st k' st' H.
  - cbn in H. inversion H; reflexivity.
  - rewrite asm_elems_cons in H.
    destruct (asm x st) as [[x' s1]| | |]; cbn [bind] in H; try discriminate.
    destruct (asm_elems k s1) as [[r s2]| | |] eqn:Hr; cbn [bind] in H; try discriminate.
    inversion H; subst. cbn. f_equal. eapply IH; eauto.
Qed.

Lemma length_nil_iff {A B} (a : list A) (b : list B) : length a = length b -> (a = [] <-> b = []).
Proof. destruct a, b; cbn; intros; split; intros; try discriminate; auto. Qed.

Lemma sec_leaf_body_congr h1 h2 : sec_rel h1 h2 -> sec_leaf_body s2u h1 = sec_leaf_body s2u h2.
Proof. intros (Ht & Hg & Hn & Hb & Hv & Hd). unfold sec_leaf_body. rewrite Ht, Hn, Hb, Hv, Hd. reflexivity. Qed.

Theorem asm_congr : forall t1, congr_at t1.
Proof.
  induction t1 as [o b|h1 b1 k1 IH|h1 b1 k1 IH|h1 b1 k1 IH] using node_ind2; intros t2 st Hrel.
  - (* pad *) inversion Hrel; subst. cbn. split; [split; [constructor|reflexivity]|reflexivity].
  - (* section *)
    inversion Hrel as [|? h2 ? b2 ? k2 Hh Hk Hbuf| |]; subst.
    rewrite !asm_sec.
    pose proof (asm_elems_congr k1 IH k2 Hk st) as HK.
    destruct (asm_elems k1 st) as [[k1' s1]| | |] eqn:E1, (asm_elems k2 st) as [[k2' s2]| | |] eqn:E2;
      cbn in HK; try contradiction; try (cbn; auto; fail).
    destruct HK as [HK Hs]; cbn [fst snd] in *; subst s2. cbn [bind].
    destruct s1 as [pol ffs3].
    pose proof (asm_elems_length _ _ _ _ E1) as L1.
    inversion HK as [|x y r1 r2 Hxy Hr]; subst.
    + (* leaf *)
      assert (k1 = []) by (destruct k1; [reflexivity|discriminate]). subst k1.
      rewrite (sec_leaf_body_congr h1 h2 Hh).
      destruct (sec_leaf_body s2u h2) as [[body|]| | |]; cbn [bind]; try (cbn; auto; fail).
      * destruct (gen_sec_header_congr h1 h2 body Hh) as (Hb' & Hr' & He').
        destruct (gen_sec_header h1 body) as [h1' nb1], (gen_sec_header h2 body) as [h2' nb2]; cbn [fst snd] in *.
        subst nb2. rewrite He'. cbn. split; [|reflexivity]. split; [|reflexivity].
        constructor; auto.
      * cbn. assert (b1 = b2) by (apply Hbuf; left; reflexivity). subst b2.
        split; [|reflexivity]. split; [|reflexivity]. constructor; auto.
    + (* encapsulating *)
      assert (Hk1 : k1 <> []) by (intro; subst k1; discriminate).
      rewrite (Forall2_orel_bufs _ _ HK).
      set (data := join4 [] (map node_buf (y :: r2))).
      assert (Hbody : sec_encap_body enc h1 b1 data = sec_encap_body enc h2 b2 data).
      { destruct Hh as (Ht & Hg & _). unfold sec_encap_body. rewrite <- Ht.
        destruct (s_type h1 =? 2) eqn:T; [|reflexivity].
        destruct (s_gd h1) as [g1|] eqn:G1, (s_gd h2) as [g2|]; cbn in Hg; try contradiction; [|reflexivity].
        destruct Hg as [Hgg Hga]. rewrite <- Hgg, <- Hga.
        destruct (Z.land (gd_attrs g1) 1 =? 0) eqn:A; cbn [negb]; [|reflexivity].
        f_equal. apply Hbuf. right. split; [lia|]. exists g1. split; [assumption|lia]. }
      rewrite Hbody.
      destruct (sec_encap_body enc h2 b2 data) as [body| | |]; cbn [bind]; try (cbn; auto; fail).
      destruct (gen_sec_header_congr h1 h2 body Hh) as (Hb' & Hr' & He').
      destruct (gen_sec_header h1 body) as [h1' nb1], (gen_sec_header h2 body) as [h2' nb2]; cbn [fst snd] in *.
      subst nb2. rewrite He'. cbn. split; [|reflexivity]. split; [|reflexivity].
      constructor; auto. apply Forall2_orel_rel; auto.
  - (* file *)
    inversion Hrel as [| |? h2 ? b2 ? k2 Hh Hk Hbuf|]; subst.
    rewrite !asm_file.
    pose proof (asm_elems_congr k1 IH k2 Hk st) as HK.
    destruct (asm_elems k1 st) as [[k1' s1]| | |] eqn:E1, (asm_elems k2 st) as [[k2' s2]| | |] eqn:E2;
      cbn in HK; try contradiction; try (cbn; auto; fail).
    destruct HK as [HK Hs]; cbn [fst snd] in *; subst s2. cbn [bind].
    destruct s1 as [pol ffs3].
    pose proof (asm_elems_length _ _ _ _ E1) as L1.
    pose proof Hh as (Hg & Hl & Ht & Ha & Hs & Hn).
    rewrite <- Hn, <- Ha.
    assert (Hreb : forall data,
      out_rel res_rel
        (let '(ext, attr) := set_size (f_attr h1) (24 + zlen data) true in
         let '(h', nb) := checksum_and_assemble h1 ext attr data in
         Ok (NFile h' nb k1', (pol, ffs3 || (16777215 <? ext))))
        (let '(ext, attr) := set_size (f_attr h1) (24 + zlen data) true in
         let '(h', nb) := checksum_and_assemble h2 ext attr data in
         Ok (NFile h' nb k2', (pol, ffs3 || (16777215 <? ext))))).
    { intros data. destruct (set_size (f_attr h1) (24 + zlen data) true) as [ext attr].
      destruct (checksum_and_assemble_congr h1 h2 ext attr data Hh) as [Hb' Hr'].
      destruct (checksum_and_assemble h1 ext attr data) as [h1' nb1], (checksum_and_assemble h2 ext attr data) as [h2' nb2];
        cbn [fst snd] in *. subst nb2. cbn. split; [|reflexivity]. split; [|reflexivity].
      constructor; auto. apply Forall2_orel_rel; auto. }
    rewrite <- (Forall2_orel_bufs _ _ HK).
    inversion HK as [|x y r1 r2 Hxy Hr]; subst.
    + assert (k1 = []) by (destruct k1; [reflexivity|discriminate]). subst k1.
      destruct (f_nvar h1) as [nb|] eqn:N.
      * apply Hreb.
      * cbn. assert (b1 = b2) by (apply Hbuf; auto). subst b2.
        split; [|reflexivity]. split; [|reflexivity]. constructor; auto.
    + destruct (f_nvar h1); apply Hreb.
  - (* volume *)
    inversion Hrel as [| | |? h2 ? b2 ? k2 Hh Hk Hbuf Hne]; subst.
    rewrite !asm_volume.
    pose proof Hh as (Hg & Hl & Ha & Hhl & Hb & Hd & Hr). rewrite <- Ha.
    destruct (set_polarity (fst st) (fv_polarity (v_attrs h1))) as [pol0|]; [|cbn; reflexivity].
    pose proof (asm_elems_congr k1 IH k2 Hk (pol0, false)) as HK.
    destruct (asm_elems k1 (pol0, false)) as [[k1' s1]| | |] eqn:E1, (asm_elems k2 (pol0, false)) as [[k2' s2]| | |] eqn:E2;
      cbn in HK; try contradiction; try (cbn; auto; fail).
    destruct HK as [HK Hs]; cbn [fst snd] in *; subst s2. cbn [bind].
    destruct s1 as [pol ffs3].
    pose proof (asm_elems_length _ _ _ _ E1) as L1.
    assert (Hnil : k1' = [] <-> k1 = []) by (apply length_nil_iff; auto).
    pose proof (asm_vol_congr pol ffs3 h1 h2 b1 b2 k1' k2' Hh HK) as HV.
    eapply out_rel_bind.
    + apply HV.
      * intros E. apply Hbuf. apply Hnil; auto.
      * intros E. apply Hne. intro E'. apply E. apply Hnil; auto.
    + intros [h1' nb1] [h2' nb2] [Hv' Hnb]; cbn [fst snd] in *; subst nb2.
      cbn. split; [|reflexivity]. split; [|reflexivity].
      constructor; auto; try (intros; apply vol_buf_rel_refl). apply Forall2_orel_rel; auto.
Qed.

End Asm.


Lemma copy_elems_congr : forall k1 k2, Forall2 orel k1 k2 -> forall fbuf off,
  copy_elems fbuf off k1 = copy_elems fbuf off k2.
Proof.
  induction 1 as [|a b k1 k2 [_ Hab] Hk IH]; intros fbuf off; [reflexivity|].
  cbn [copy_elems]. rewrite <- Hab. destruct (zlen fbuf <? off + zlen (node_buf a)); [reflexivity|]. apply IH.
Qed.

Lemma first_fv_congr : forall k1 k2, Forall2 orel k1 k2 ->
  match first_fv k1, first_fv k2 with
  | None, None => True
  | Some a, Some b => v_attrs a = v_attrs b
  | _, _ => False
  end.
Proof.
  induction 1 as [|a b k1 k2 [Hab _] Hk IH]; cbn; [exact I|].
  inversion Hab; subst; cbn; auto.
  match goal with H : vol_rel _ _ |- _ => apply H end.
Qed.

Section Asm.
Variable enc : Z -> bytes -> option bytes.
Variable s2u : bytes -> bytes.
Notation asm := (asm enc s2u).
Notation asm_elems := (asm_elems enc s2u).
Notation asm_bios := (asm_bios enc s2u).

Lemma asm_elems_congr' k1 k2 st : Forall2 rel k1 k2 ->
  out_rel (lres_rel) (asm_elems k1 st) (asm_elems k2 st).
Proof.
  intros H. apply asm_elems_congr; auto. apply Forall_forall. intros x _. apply asm_congr.
Qed.

Definition bres_rel (a b : list node * bytes * ast) : Prop :=
  Forall2 orel (fst (fst a)) (fst (fst b)) /\ snd (fst a) = snd (fst b) /\ snd a = snd b.

Lemma asm_bios_congr k1 k2 len st : Forall2 rel k1 k2 ->
  out_rel bres_rel (asm_bios k1 len st) (asm_bios k2 len st).
Proof.
  intros H. unfold Ffs.asm_bios.
  eapply out_rel_bind; [apply (asm_elems_congr' k1 k2 st H)|].
  intros [e1 s1] [e2 s2] [He Hs]; cbn [fst snd] in *; subst s2.
  pose proof (first_fv_congr _ _ He) as HF.
  destruct (first_fv e1) as [v1|], (first_fv e2) as [v2|]; try contradiction; [|cbn; reflexivity].
  rewrite <- HF.
  destruct (set_polarity (fst s1) (fv_polarity (v_attrs v1))) as [pol|]; [|cbn; reflexivity].
  rewrite (copy_elems_congr _ _ He).
  destruct (copy_elems (zrepeat pol len) 0 e2); cbn; auto.
  repeat split; auto.
Qed.

End Asm.

(* ---------- the projection is invisible to the assembler ---------- *)

Section Proj.
Variable mangle3 : Z -> Z.
Notation json_project := (json_project mangle3).

Lemma wf_sec h b k : wf_treeb (NSec h b k) =
  (match k with
   | [] => true
   | _ => if s_type h =? 2 then
            match s_gd h with Some g => negb (Z.land (gd_attrs g) 1 =? 0) | None => true end
          else true
   end) && wf_treeb_list k.
Proof. reflexivity. Qed.
Lemma wf_file h b k : wf_treeb (NFile h b k) = (zlen (f_guid h) =? 16) && bytes_ok (f_guid h) && wf_treeb_list k.
Proof. reflexivity. Qed.
Lemma wf_vol h b k : wf_treeb (NVol h b k) =
  (match k with
   | [] => true
   | _ => (0 <=? v_dataoff h) && (v_dataoff h <=? zlen b) && (zlen b <=? v_length h)
   end) && wf_treeb_list k.
Proof. reflexivity. Qed.

Lemma wf_list_Forall k : wf_treeb_list k = true -> Forall (fun x => wf_treeb x = true) k.
Proof. induction k as [|x k IH]; cbn; intros H; constructor; apply andb_true_iff in H; tauto. Qed.

Lemma project_kids k :
  Forall (fun n => wf_treeb n = true -> rel (json_project n) n) k -> wf_treeb_list k = true ->
  Forall2 rel (map json_project k) k.
Proof.
  induction 1 as [|x k Hx Hk IH]; cbn; intros W; constructor; apply andb_true_iff in W; destruct W; auto.
Qed.

Lemma zfirstn_zfirstn {A} n (l : list A) : zfirstn n (zfirstn n l) = zfirstn n l.
Proof. unfold zfirstn. rewrite firstn_firstn. f_equal. lia. Qed.

Theorem json_project_rel : forall n, wf_treeb n = true -> rel (json_project n) n.
Proof.
  induction n as [o b|h b k IH|h b k IH|h b k IH] using node_ind2; intros W.
  - cbn. constructor.
  - rewrite wf_sec in W. apply andb_true_iff in W. destruct W as [W1 W2].
    cbn [Extract.json_project]. change (if sv_sec_kids then map json_project k else []) with (map json_project k).
    constructor.
    + unfold sec_rel. cbn. repeat split; auto. destruct (s_gd h); cbn; auto.
    + apply project_kids; auto.
    + intros [E|(T & g & G & A)].
      * destruct k; [reflexivity|discriminate].
      * destruct k as [|x k]; [reflexivity|]. exfalso.
        cbn in T, G. rewrite T in W1. cbn in W1.
        destruct (s_gd h) as [g0|]; cbn in G; [|discriminate]. inversion G; subst g. cbn in A.
        rewrite A in W1. discriminate.
  - rewrite wf_file in W. apply andb_true_iff in W. destruct W as [W1 W2].
    apply andb_true_iff in W1. destruct W1 as [W1 _].
    cbn [Extract.json_project]. change (if sv_file_kids then map json_project k else []) with (map json_project k).
    constructor.
    + unfold file_rel. cbn. repeat split; auto. lia.
    + apply project_kids; auto.
    + intros E N. destruct k; [|discriminate]. cbn in N. rewrite N. reflexivity.
  - rewrite wf_vol in W. apply andb_true_iff in W. destruct W as [W1 W2].
    cbn [Extract.json_project]. change (if sv_vol_kids then map json_project k else []) with (map json_project k).
    constructor.
    + unfold vol_rel. cbn. repeat split; auto.
    + apply project_kids; auto.
    + intros E. destruct k; [reflexivity|discriminate].
    + intros E. destruct k as [|x k]; [contradiction E; reflexivity|].
      unfold vol_buf_rel. cbn [proj_vol v_length v_dataoff].
      cbv beta iota delta [sv_vol_length sv_vol_dataoff sv_vol_path].
      assert (Hd : 0 <= v_dataoff h <= zlen b /\ zlen b <= v_length h) by lia.
      rewrite zlen_zfirstn by lia.
      split; [lia|]. split; [lia|].
      unfold slice. rewrite zlen_zfirstn by lia.
      replace ((0 <=? 0) && (0 <=? v_dataoff h) && (v_dataoff h <=? v_dataoff h)) with true by lia.
      replace ((0 <=? 0) && (0 <=? v_dataoff h) && (v_dataoff h <=? zlen b)) with true by lia.
      f_equal. change (zskipn 0 ?x) with x. rewrite Z.sub_0_r. apply zfirstn_zfirstn.
Qed.

End Proj.


(* ---------- decidable equality of path components ---------- *)
Lemma pc_eqb_eq a b : pc_eqb a b = true <-> a = b.
Proof.
  destruct a, b; cbn; split; intros H; try discriminate; try reflexivity;
    try (apply Z.eqb_eq in H; subst; reflexivity);
    try (apply bytes_eqb_eq in H; subst; reflexivity);
    try (inversion H; subst; apply Z.eqb_refl);
    try (inversion H; subst; apply bytes_eqb_eq; reflexivity).
Qed.

Lemma path_eqb_eq a : forall b, path_eqb a b = true <-> a = b.
Proof.
  induction a as [|x a IH]; destruct b as [|y b]; cbn; split; intros H; try discriminate; try reflexivity.
  - apply andb_true_iff in H. destruct H as [H1 H2]. apply pc_eqb_eq in H1. apply IH in H2. subst. reflexivity.
  - inversion H; subst. apply andb_true_iff. split; [apply pc_eqb_eq|apply IH]; reflexivity.
Qed.

Lemma nodupb_NoDup l : nodupb l = true -> NoDup l.
Proof.
  induction l as [|x l IH]; cbn; intros H; constructor; apply andb_true_iff in H; destruct H as [H1 H2]; auto.
  intros Hin. apply negb_true_iff in H1.
  assert (existsb (pc_eqb x) l = true); [|congruence].
  apply existsb_exists. exists x. split; [assumption|apply pc_eqb_eq; reflexivity].
Qed.

(* ---------- the file system ---------- *)
Lemma fs_read_notin F p : ~ In p (map fst F) -> fs_read F p = None.
Proof.
  induction F as [|[q b] F IH]; cbn; intros H; [reflexivity|].
  rewrite IH by tauto. destruct (path_eqb q p) eqn:E; [|reflexivity].
  apply path_eqb_eq in E. subst. tauto.
Qed.

Lemma fs_read_in F : NoDup (map fst F) -> forall p b, In (p, b) F -> fs_read F p = Some b.
Proof.
  induction F as [|[q c] F IH]; cbn; intros ND p b H; [contradiction|].
  inversion ND as [|? ? Hq ND']; subst. destruct H as [H|H].
  - inversion H; subst. rewrite fs_read_notin by assumption.
    replace (path_eqb p p) with true; [reflexivity|]. symmetry. apply path_eqb_eq. reflexivity.
  - rewrite (IH ND' p b H). reflexivity.
Qed.

(* ---------- unfolding of extract ---------- *)
Lemma extract_list_cons dir idx x r : extract_list dir idx (x :: r) =
  do a <- extract dir idx x; let '(j, f1, i1) := a in
  do b <- extract_list dir i1 r; let '(js, f2, i2) := b in
  Ok (j :: js, f1 ++ f2, i2).
Proof. reflexivity. Qed.

Definition vol_own (d : path) (h : volhdr) (buf : bytes) (kids : list node) : outcome (path * bytes) :=
  match kids with
  | [] => Ok (d ++ [N_fv], buf)
  | _ => do b <- of_opt 501 (slice 0 (v_dataoff h) buf); Ok (d ++ [N_fvh], b)
  end.

Lemma extract_vol dir idx h buf kids : extract dir idx (NVol h buf kids) =
  let d := dir ++ [C_hex (v_fvoffset h)] in
  do own <- vol_own d h buf kids;
  do ks <- extract_list d idx kids; let '(js, f, i') := ks in
  Ok (JVol h (Some (fst own)) js, own :: f, i').
Proof. reflexivity. Qed.

Definition file_own (d : path) (h : filehdr) (buf : bytes) (kids : list node) : option (path * bytes) :=
  match kids, f_nvar h with
  | [], None => Some (d ++ [N_ffs (f_guid h)], buf)
  | _, _ => None
  end.
Definition olist {A} (o : option A) : list A := match o with Some x => [x] | None => [] end.

Lemma extract_file dir idx h buf kids : extract dir idx (NFile h buf kids) =
  let d := dir ++ [C_guid (f_guid h); C_dec idx] in
  do ks <- extract_list d (idx + 1) kids; let '(js, f, i') := ks in
  Ok (JFile h (option_map fst (file_own d h buf kids)) js, olist (file_own d h buf kids) ++ f, i').
Proof. reflexivity. Qed.

Definition sec_own (d : path) (h : sechdr) (buf : bytes) (kids : list node) : option (path * bytes) :=
  match kids with
  | [] => Some (d ++ [N_sec (s_order h)], buf)
  | _ => None
  end.

Lemma extract_sec dir idx h buf kids : extract dir idx (NSec h buf kids) =
  let d := dir ++ [C_dec (s_order h)] in
  do ks <- extract_list d idx kids; let '(js, f, i') := ks in
  Ok (JSec h (option_map fst (sec_own d h buf kids)) js, olist (sec_own d h buf kids) ++ f, i').
Proof. reflexivity. Qed.

Lemma extract_pad dir idx off buf : extract dir idx (NPad off buf) =
  Ok (JPad off (Some (dir ++ [C_padhex off; N_pad])), [(dir ++ [C_padhex off; N_pad], buf)], idx).
Proof. reflexivity. Qed.

(* ---------- shape of the paths ---------- *)
Definition is_key (c : pc) : Prop :=
  match c with C_hex _ | C_dec _ | C_padhex _ => True | _ => False end.

(* a path written below [dir] starts either with a file directory "GUID/index" whose index lies in
   [lo, hi), or with one of the key components [ks] *)
Definition tagged (dir : path) (lo hi : Z) (ks : list pc) (p : path) : Prop :=
  (exists g i r, lo <= i < hi /\ p = dir ++ C_guid g :: C_dec i :: r) \/
  (exists k r, In k ks /\ is_key k /\ p = dir ++ k :: r).

Lemma tagged_weaken dir lo hi ks lo' hi' ks' p :
  tagged dir lo hi ks p -> lo' <= lo -> hi <= hi' -> incl ks ks' -> tagged dir lo' hi' ks' p.
Proof.
  intros [(g & i & r & Hi & E)|(k & r & Hk & K & E)] H1 H2 H3.
  - left. exists g, i, r. split; [lia|assumption].
  - right. exists k, r. auto.
Qed.

Lemma tagged_deeper dir c lo hi ks p : is_key c -> tagged (dir ++ [c]) lo hi ks p ->
  forall lo' hi', tagged dir lo' hi' [c] p.
Proof.
  intros K [(g & i & r & Hi & E)|(k & r & Hk & K' & E)] lo' hi'; right; exists c.
  - exists (C_guid g :: C_dec i :: r). rewrite E, <- app_assoc. cbn. auto.
  - exists (k :: r). rewrite E, <- app_assoc. cbn. auto.
Qed.

Lemma tagged_disjoint dir lo mid hi ks1 ks2 p :
  tagged dir lo mid ks1 p -> tagged dir mid hi ks2 p -> exists k, In k ks1 /\ In k ks2.
Proof.
  intros [(g & i & r & Hi & E)|(k & r & Hk & K & E)] [(g' & i' & r' & Hi' & E')|(k' & r' & Hk' & K' & E')];
    rewrite E in E'; apply app_inv_head in E'; inversion E'; subst.
  - lia.
  - cbn in K'. contradiction.
  - cbn in K. contradiction.
  - exists k'. auto.
Qed.

Lemma keys_cons x l : keys (x :: l) = key x ++ keys l.
Proof. reflexivity. Qed.

Lemma key_is_key n k : In k (key n) -> is_key k.
Proof. destruct n; cbn; intros H; try contradiction; destruct H as [H|H]; try contradiction; subst; exact I. Qed.

Lemma paths_ok_sec h b k : paths_okb (NSec h b k) = nodupb (keys k) && paths_okb_list k.
Proof. reflexivity. Qed.
Lemma paths_ok_file h b k : paths_okb (NFile h b k) = nodupb (keys k) && paths_okb_list k.
Proof. reflexivity. Qed.
Lemma paths_ok_vol h b k : paths_okb (NVol h b k) = nodupb (keys k) && paths_okb_list k.
Proof. reflexivity. Qed.

Definition is_file (n : node) : Prop := match n with NFile _ _ _ => True | _ => False end.

Definition shape_at (n : node) : Prop :=
  forall dir idx j f i', extract dir idx n = Ok (j, f, i') ->
    idx <= i' /\ (is_file n -> idx < i') /\
    Forall (tagged dir idx i' (key n)) (map fst f) /\
    (paths_okb n = true -> NoDup (map fst f)).

Definition lshape_at (l : list node) : Prop :=
  forall dir idx js f i', extract_list dir idx l = Ok (js, f, i') ->
    idx <= i' /\
    Forall (tagged dir idx i' (keys l)) (map fst f) /\
    (nodupb (keys l) = true -> paths_okb_list l = true -> NoDup (map fst f)).

Lemma NoDup_app_disjoint {A} (a b : list A) :
  NoDup a -> NoDup b -> (forall x, In x a -> In x b -> False) -> NoDup (a ++ b).
Proof.
  induction a as [|x a IH]; cbn; intros Ha Hb D; [assumption|].
  inversion Ha; subst. constructor.
  - intros H. apply in_app_or in H. destruct H; [contradiction|]. eapply D; eauto.
  - apply IH; auto. intros y Hy. apply D. auto.
Qed.

Lemma nodupb_app_disjoint a b : nodupb (a ++ b) = true ->
  nodupb b = true /\ forall k, In k a -> In k b -> False.
Proof.
  intros H. apply nodupb_NoDup in H.
  induction a as [|x a IH]; cbn in *.
  - split; [|contradiction]. clear -H. induction b as [|y b IH]; [reflexivity|].
    inversion H; subst. cbn. apply andb_true_iff. split; [|auto].
    apply negb_true_iff. destruct (existsb (pc_eqb y) b) eqn:E; [|reflexivity].
    apply existsb_exists in E. destruct E as (z & Hz & E). apply pc_eqb_eq in E. subst. contradiction.
  - inversion H; subst. destruct (IH H3) as [Hb D]. split; [assumption|].
    intros k [E|Hk] Hkb.
    + subst. apply H2. apply in_or_app. auto.
    + eapply D; eauto.
Qed.

Lemma lshape_of_Forall l : Forall shape_at l -> lshape_at l.
Proof.
  induction 1 as [|x l Hx Hl IH]; intros dir idx js f i' H.
  - cbn in H. inversion H; subst. cbn. repeat split; [lia|constructor|intros; constructor].
  - rewrite extract_list_cons in H.
    destruct (extract dir idx x) as [[[j f1] i1]| | |] eqn:E1; cbn [bind] in H; try discriminate.
    destruct (extract_list dir i1 l) as [[[js' f2] i2]| | |] eqn:E2; cbn [bind] in H; try discriminate.
    inversion H; subst.
    destruct (Hx _ _ _ _ _ E1) as (L1 & F1 & T1 & N1).
    destruct (IH _ _ _ _ _ E2) as (L2 & T2 & N2).
    rewrite keys_cons, map_app.
    split; [lia|]. split.
    + apply Forall_app. split.
      * eapply Forall_impl; [|exact T1]. intros p Hp. eapply tagged_weaken; eauto; try lia. apply incl_appl, incl_refl.
      * eapply Forall_impl; [|exact T2]. intros p Hp. eapply tagged_weaken; eauto; try lia. apply incl_appr, incl_refl.
    + intros ND PO. cbn in PO. apply andb_true_iff in PO. destruct PO as [PO1 PO2].
      destruct (nodupb_app_disjoint _ _ ND) as [NDl D].
      apply NoDup_app_disjoint; auto.
      intros p Hp1 Hp2.
      rewrite Forall_forall in T1, T2.
      destruct (tagged_disjoint _ _ _ _ _ _ _ (T1 p Hp1) (T2 p Hp2)) as (k & K1 & K2).
      eapply D; eauto.
Qed.

Lemma tagged_under_file dir g idx lo hi ks p : tagged (dir ++ [C_guid g; C_dec idx]) lo hi ks p ->
  forall hi', idx < hi' -> tagged dir idx hi' [] p.
Proof.
  intros [(g' & i & r & Hi & E)|(k & r & Hk & K' & E)] hi' H; left; exists g, idx.
  - exists (C_guid g' :: C_dec i :: r). split; [lia|]. rewrite E, <- app_assoc. reflexivity.
  - exists (k :: r). split; [lia|]. rewrite E, <- app_assoc. reflexivity.
Qed.

Lemma own_not_tagged d lo hi ks c : ~ is_key c -> (forall g, c <> C_guid g) -> ~ tagged d lo hi ks (d ++ [c]).
Proof.
  intros K G [(g & i & r & Hi & E)|(k & r & Hk & K' & E)]; apply app_inv_head in E; inversion E; subst.
  contradiction.
Qed.

Theorem extract_shape : forall n, shape_at n.
Proof.
  induction n as [o b|h b k IH|h b k IH|h b k IH] using node_ind2; intros dir idx j f i' H.
  - (* pad *)
    rewrite extract_pad in H. inversion H; subst. cbn [map fst key].
    split; [lia|]. split; [intros []|]. split.
    + constructor; [|constructor]. right. exists (C_padhex o), [N_pad]. cbn. auto.
    + intros _. constructor; [intros []|constructor].
  - (* section *)
    rewrite extract_sec in H. cbv zeta in H.
    set (d := dir ++ [C_dec (s_order h)]) in *.
    destruct (extract_list d idx k) as [[[js f2] i2]| | |] eqn:E; cbn [bind] in H; try discriminate.
    inversion H; subst. clear H.
    destruct (lshape_of_Forall k IH _ _ _ _ _ E) as (L & T & N).
    split; [assumption|]. split; [intros []|].
    assert (Town : Forall (tagged dir idx i' (key (NSec h b k))) (map fst (olist (sec_own d h b k)))).
    { unfold sec_own. destruct k; cbn; try apply Forall_nil.
      apply Forall_cons; [|apply Forall_nil].
      right. exists (C_dec (s_order h)), [N_sec (s_order h)]. unfold d. rewrite <- app_assoc. cbn. auto. }
    assert (Tk : Forall (tagged dir idx i' (key (NSec h b k))) (map fst f2)).
    { eapply Forall_impl; [|exact T]. intros p Hp. eapply (tagged_deeper dir (C_dec (s_order h))); eauto. exact I. }
    rewrite map_app. split; [apply Forall_app; split; assumption|].
    intros PO. rewrite paths_ok_sec in PO. apply andb_true_iff in PO. destruct PO as [PO1 PO2].
    unfold sec_own. destruct k as [|x k].
    + cbn in E. inversion E; subst. cbn. constructor; [intros []|constructor].
    + cbn [olist map app]. apply N; assumption.
  - (* file *)
    rewrite extract_file in H. cbv zeta in H.
    set (d := dir ++ [C_guid (f_guid h); C_dec idx]) in *.
    destruct (extract_list d (idx + 1) k) as [[[js f2] i2]| | |] eqn:E; cbn [bind] in H; try discriminate.
    inversion H; subst. clear H.
    destruct (lshape_of_Forall k IH _ _ _ _ _ E) as (L & T & N).
    split; [lia|]. split; [intros _; lia|].
    assert (Town : Forall (tagged dir idx i' (key (NFile h b k))) (map fst (olist (file_own d h b k)))).
    { unfold file_own. destruct k, (f_nvar h); cbn; try apply Forall_nil.
      apply Forall_cons; [|apply Forall_nil].
      left. exists (f_guid h), idx, [N_ffs (f_guid h)]. split; [lia|]. unfold d. rewrite <- app_assoc. reflexivity. }
    assert (Tk : Forall (tagged dir idx i' (key (NFile h b k))) (map fst f2)).
    { eapply Forall_impl; [|exact T]. intros p Hp. eapply tagged_under_file; eauto. lia. }
    rewrite map_app. split; [apply Forall_app; split; assumption|].
    intros PO. rewrite paths_ok_file in PO. apply andb_true_iff in PO. destruct PO as [PO1 PO2].
    unfold file_own. destruct k as [|x k].
    + cbn in E. inversion E; subst. destruct (f_nvar h); cbn; constructor; try (intros []); constructor.
    + destruct (f_nvar h); cbn [olist map app]; apply N; assumption.
  - (* volume *)
    rewrite extract_vol in H. cbv zeta in H.
    set (d := dir ++ [C_hex (v_fvoffset h)]) in *.
    destruct (vol_own d h b k) as [own| | |] eqn:O; cbn [bind] in H; try discriminate.
    destruct (extract_list d idx k) as [[[js f2] i2]| | |] eqn:E; cbn [bind] in H; try discriminate.
    inversion H; subst. clear H.
    destruct (lshape_of_Forall k IH _ _ _ _ _ E) as (L & T & N).
    split; [assumption|]. split; [intros []|].
    assert (Hown : fst own = d ++ [N_fv] \/ fst own = d ++ [N_fvh]).
    { unfold vol_own in O. destruct k.
      - inversion O; subst. auto.
      - destruct (slice 0 (v_dataoff h) b); cbn in O; inversion O; subst. auto. }
    assert (Tk : Forall (tagged dir idx i' (key (NVol h b k))) (map fst f2)).
    { eapply Forall_impl; [|exact T]. intros p Hp. eapply (tagged_deeper dir (C_hex (v_fvoffset h))); eauto. exact I. }
    cbn [map]. split.
    + constructor; [|assumption]. right. exists (C_hex (v_fvoffset h)).
      destruct Hown as [-> | ->]; [exists [N_fv]|exists [N_fvh]]; unfold d; rewrite <- app_assoc; cbn; auto.
    + intros PO. rewrite paths_ok_vol in PO. apply andb_true_iff in PO. destruct PO as [PO1 PO2].
      constructor; [|apply N; assumption].
      intros Hin. rewrite Forall_forall in T. apply T in Hin.
      destruct Hown as [E' | E']; rewrite E' in Hin; revert Hin; apply own_not_tagged; cbn; auto; discriminate.
Qed.

Theorem extract_list_shape : forall l, lshape_at l.
Proof. intros l. apply lshape_of_Forall. apply Forall_forall. intros x _. apply extract_shape. Qed.


Section Reload.
Variable mangle3 : Z -> Z.
Notation reload := (reload mangle3).
Notation reload_list := (reload_list mangle3).
Notation json_project := (json_project mangle3).

Lemma reload_sec F h p kids : reload F (JSec h p kids) =
  do b <- read_buf F sv_sec_path p;
  do ks <- reload_list F (if sv_sec_kids then kids else []);
  Ok (NSec (proj_sec h) b ks).
Proof. reflexivity. Qed.
Lemma reload_file F h p kids : reload F (JFile h p kids) =
  do b <- read_buf F sv_file_path p;
  do ks <- reload_list F (if sv_file_kids then kids else []);
  Ok (NFile (proj_file mangle3 h) b ks).
Proof. reflexivity. Qed.
Lemma reload_vol F h p kids : reload F (JVol h p kids) =
  do b <- read_buf F sv_vol_path p;
  do ks <- reload_list F (if sv_vol_kids then kids else []);
  Ok (NVol (proj_vol h) b ks).
Proof. reflexivity. Qed.
Lemma reload_pad F off p : reload F (JPad off p) =
  do b <- read_buf F sv_pad_path p; Ok (NPad (if sv_pad_off then off else 0) b).
Proof. reflexivity. Qed.
Lemma reload_list_cons F x r : reload_list F (x :: r) =
  do a <- reload F x; do b <- reload_list F r; Ok (a :: b).
Proof. reflexivity. Qed.

Definition holds (F : fs) (f : fs) : Prop := forall p b, In (p, b) f -> fs_read F p = Some b.

Lemma holds_app F f1 f2 : holds F (f1 ++ f2) -> holds F f1 /\ holds F f2.
Proof. unfold holds. intros H. split; intros p b Hin; apply H; apply in_or_app; auto. Qed.

Definition reload_at (n : node) : Prop :=
  forall dir idx j f i' F, extract dir idx n = Ok (j, f, i') -> holds F f ->
    reload F j = Ok (json_project n).
Definition lreload_at (l : list node) : Prop :=
  forall dir idx js f i' F, extract_list dir idx l = Ok (js, f, i') -> holds F f ->
    reload_list F js = Ok (map json_project l).

Lemma lreload_of_Forall l : Forall reload_at l -> lreload_at l.
Proof.
  induction 1 as [|x l Hx Hl IH]; intros dir idx js f i' F H HF.
  - cbn in H. inversion H; subst. reflexivity.
  - rewrite extract_list_cons in H.
    destruct (extract dir idx x) as [[[j f1] i1]| | |] eqn:E1; cbn [bind] in H; try discriminate.
    destruct (extract_list dir i1 l) as [[[js' f2] i2]| | |] eqn:E2; cbn [bind] in H; try discriminate.
    inversion H; subst. apply holds_app in HF. destruct HF as [H1 H2].
    rewrite reload_list_cons, (Hx _ _ _ _ _ _ E1 H1). cbn [bind].
    rewrite (IH _ _ _ _ _ _ E2 H2). reflexivity.
Qed.

Lemma read_own F (sv : bool) (own : option (path * bytes)) f :
  holds F (olist own ++ f) ->
  read_buf F sv (option_map fst own) =
  Ok (match own with Some o => if sv then snd o else [] | None => [] end).
Proof.
  intros H. unfold read_buf. destruct own as [[p b]|]; cbn; [|destruct sv; reflexivity].
  destruct sv; [|reflexivity]. rewrite (H p b); [reflexivity|]. cbn. auto.
Qed.

Theorem reload_extract : forall n, reload_at n.
Proof.
  induction n as [o b|h b k IH|h b k IH|h b k IH] using node_ind2; intros dir idx j f i' F H HF.
  - rewrite extract_pad in H. inversion H; subst.
    rewrite reload_pad. unfold read_buf. cbn [Extract.json_project].
    destruct sv_pad_path; cbn; [|reflexivity].
    rewrite (HF _ b); [reflexivity|]. cbn. auto.
  - rewrite extract_sec in H. cbv zeta in H.
    set (d := dir ++ [C_dec (s_order h)]) in *.
    destruct (extract_list d idx k) as [[[js f2] i2]| | |] eqn:E; cbn [bind] in H; try discriminate.
    inversion H; subst. clear H.
    rewrite reload_sec, (read_own F sv_sec_path _ _ HF). cbn [bind].
    apply holds_app in HF. destruct HF as [_ H2].
    pose proof (lreload_of_Forall k IH _ _ _ _ _ _ E H2) as HK.
    cbn [Extract.json_project].
    destruct sv_sec_kids.
    + rewrite HK. cbn [bind]. f_equal. f_equal. unfold sec_own. destruct k; reflexivity.
    + cbn. f_equal. f_equal. unfold sec_own. destruct k; reflexivity.
  - rewrite extract_file in H. cbv zeta in H.
    set (d := dir ++ [C_guid (f_guid h); C_dec idx]) in *.
    destruct (extract_list d (idx + 1) k) as [[[js f2] i2]| | |] eqn:E; cbn [bind] in H; try discriminate.
    inversion H; subst. clear H.
    rewrite reload_file, (read_own F sv_file_path _ _ HF). cbn [bind].
    apply holds_app in HF. destruct HF as [_ H2].
    pose proof (lreload_of_Forall k IH _ _ _ _ _ _ E H2) as HK.
    cbn [Extract.json_project].
    destruct sv_file_kids.
    + rewrite HK. cbn [bind]. f_equal. f_equal. unfold file_own. destruct k, (f_nvar h); reflexivity.
    + cbn. f_equal. f_equal. unfold file_own. destruct k, (f_nvar h); reflexivity.
  - rewrite extract_vol in H. cbv zeta in H.
    set (d := dir ++ [C_hex (v_fvoffset h)]) in *.
    destruct (vol_own d h b k) as [own| | |] eqn:O; cbn [bind] in H; try discriminate.
    destruct (extract_list d idx k) as [[[js f2] i2]| | |] eqn:E; cbn [bind] in H; try discriminate.
    inversion H; subst. clear H.
    rewrite reload_vol.
    change (own :: f2) with (olist (Some own) ++ f2) in HF.
    change (Some (fst own)) with (option_map fst (Some own)).
    rewrite (read_own F sv_vol_path _ _ HF). cbn [bind].
    apply holds_app in HF. destruct HF as [_ H2].
    pose proof (lreload_of_Forall k IH _ _ _ _ _ _ E H2) as HK.
    cbn [Extract.json_project].
    assert (Hown : snd own = match k with [] => b | _ => zfirstn (v_dataoff h) b end).
    { unfold vol_own in O. destruct k.
      - inversion O; reflexivity.
      - unfold slice in O. destruct ((0 <=? 0) && (0 <=? v_dataoff h) && (v_dataoff h <=? zlen b)); cbn in O; [|discriminate].
        inversion O; subst. cbn. rewrite Z.sub_0_r. reflexivity. }
    rewrite Hown.
    destruct sv_vol_kids.
    + rewrite HK. reflexivity.
    + reflexivity.
Qed.

Theorem reload_extract_list : forall l, lreload_at l.
Proof. intros l. apply lreload_of_Forall. apply Forall_forall. intros x _. apply reload_extract. Qed.

End Reload.

(* extraction of a well-formed tree cannot fail *)
Lemma extract_ok : forall n, wf_treeb n = true -> forall dir idx, exists r, extract dir idx n = Ok r.
Proof.
  assert (HL : forall l, Forall (fun n => wf_treeb n = true -> forall dir idx, exists r, extract dir idx n = Ok r) l ->
                         wf_treeb_list l = true -> forall dir idx, exists r, extract_list dir idx l = Ok r).
  { induction 1 as [|x l Hx Hl IH]; intros W dir idx; [eexists; reflexivity|].
    cbn in W. apply andb_true_iff in W. destruct W as [W1 W2].
    rewrite extract_list_cons. destruct (Hx W1 dir idx) as [[[j f1] i1] E1]. rewrite E1. cbn [bind].
    destruct (IH W2 dir i1) as [[[js f2] i2] E2]. rewrite E2. cbn [bind]. eexists; reflexivity. }
  induction n as [o b|h b k IH|h b k IH|h b k IH] using node_ind2; intros W dir idx.
  - eexists; reflexivity.
  - rewrite extract_sec. cbv zeta.
    change (wf_treeb (NSec h b k)) with ((match k with [] => true | _ => if s_type h =? 2 then
            match s_gd h with Some g => negb (Z.land (gd_attrs g) 1 =? 0) | None => true end else true end) && wf_treeb_list k) in W.
    apply andb_true_iff in W. destruct W as [_ W2].
    destruct (HL k IH W2 (dir ++ [C_dec (s_order h)]) idx) as [[[js f2] i2] E]. rewrite E. eexists; reflexivity.
  - rewrite extract_file. cbv zeta.
    change (wf_treeb (NFile h b k)) with ((zlen (f_guid h) =? 16) && bytes_ok (f_guid h) && wf_treeb_list k) in W.
    apply andb_true_iff in W. destruct W as [_ W2].
    destruct (HL k IH W2 (dir ++ [C_guid (f_guid h); C_dec idx]) (idx + 1)) as [[[js f2] i2] E]. rewrite E. eexists; reflexivity.
  - rewrite extract_vol. cbv zeta.
    change (wf_treeb (NVol h b k)) with ((match k with [] => true | _ =>
      (0 <=? v_dataoff h) && (v_dataoff h <=? zlen b) && (zlen b <=? v_length h) end) && wf_treeb_list k) in W.
    apply andb_true_iff in W. destruct W as [W1 W2].
    assert (exists own, vol_own (dir ++ [C_hex (v_fvoffset h)]) h b k = Ok own) as [own O].
    { unfold vol_own. destruct k; [eexists; reflexivity|].
      unfold slice. replace ((0 <=? 0) && (0 <=? v_dataoff h) && (v_dataoff h <=? zlen b)) with true by lia.
      eexists; reflexivity. }
    rewrite O. cbn [bind].
    destruct (HL k IH W2 (dir ++ [C_hex (v_fvoffset h)]) idx) as [[[js f2] i2] E]. rewrite E. eexists; reflexivity.
Qed.

Lemma extract_list_ok l : wf_treeb_list l = true -> forall dir idx, exists r, extract_list dir idx l = Ok r.
Proof.
  induction l as [|x l IH]; intros W dir idx; [eexists; reflexivity|].
  cbn in W. apply andb_true_iff in W. destruct W as [W1 W2].
  rewrite extract_list_cons. destruct (extract_ok x W1 dir idx) as [[[j f1] i1] E1]. rewrite E1. cbn [bind].
  destruct (IH W2 dir i1) as [[[js f2] i2] E2]. rewrite E2. eexists; reflexivity.
Qed.


(* same outcome class and, on success, same assembled buffer and same visitor state *)
Definition same_result (x y : outcome (node * ast)) : Prop :=
  match x, y with
  | Ok (a, s), Ok (b, s') => node_buf a = node_buf b /\ s = s'
  | Err e, Err e' => e = e'
  | Panic s, Panic s' => s = s'
  | Fuel, Fuel => True
  | _, _ => False
  end.

Lemma res_rel_same x y : out_rel res_rel x y -> same_result x y.
Proof.
  destruct x as [[a s]| | |], y as [[b s']| | |]; cbn; auto.
  intros [[_ H] H']. auto.
Qed.

Section Final.
Variable enc : Z -> bytes -> option bytes.
Variable s2u : bytes -> bytes.
Variable mangle3 : Z -> Z.
Notation asm := (asm enc s2u).
Notation asm_bios := (asm_bios enc s2u).

(* 1. the paths are distinct *)
Theorem extract_paths_nodup_node n dir idx j f i' :
  paths_ok n -> extract dir idx n = Ok (j, f, i') -> NoDup (map fst f).
Proof. intros P H. destruct (extract_shape n dir idx j f i' H) as (_ & _ & _ & N). apply N. exact P. Qed.

Theorem extract_paths_nodup rbuf elems js p f :
  region_paths_ok elems -> extract_region rbuf elems = Ok (js, p, f) -> NoDup (map fst f).
Proof.
  intros [K P] H. unfold extract_region in H. destruct elems as [|x l].
  - inversion H; subst. cbn. constructor; [intros []|constructor].
  - destruct (extract_list [C_bios] 0 (x :: l)) as [[[js' f'] i']| | |] eqn:E; cbn [bind] in H; try discriminate.
    inversion H; subst. destruct (extract_list_shape (x :: l) _ _ _ _ _ E) as (_ & _ & N). apply N; assumption.
Qed.

(* 2. ParseDir of an extracted tree is the JSON projection of the tree *)
Theorem reload_extract_project n dir idx j f i' :
  paths_ok n -> extract dir idx n = Ok (j, f, i') -> reload mangle3 f j = Ok (json_project mangle3 n).
Proof.
  intros P H. eapply reload_extract; eauto.
  intros p b Hin. apply fs_read_in; auto. eapply extract_paths_nodup_node; eauto.
Qed.

(* 3. one Assemble pass over the reloaded tree gives the bytes of one pass over the original *)
Theorem dir_roundtrip_node n dir idx st :
  paths_ok n -> wf_tree n ->
  exists j f i' n', extract dir idx n = Ok (j, f, i') /\ NoDup (map fst f) /\
    reload mangle3 f j = Ok n' /\ same_result (asm n' st) (asm n st).
Proof.
  intros P W. destruct (extract_ok n W dir idx) as [[[j f] i'] E].
  exists j, f, i', (json_project mangle3 n).
  split; [assumption|]. split; [eapply extract_paths_nodup_node; eauto|].
  split; [eapply reload_extract_project; eauto|].
  apply res_rel_same. apply asm_congr. apply json_project_rel. exact W.
Qed.

Lemma project_list_rel l : wf_treeb_list l = true -> Forall2 rel (map (json_project mangle3) l) l.
Proof.
  induction l as [|x l IH]; cbn; intros W; constructor; apply andb_true_iff in W; destruct W.
  - apply json_project_rel; assumption.
  - auto.
Qed.

Lemma orel_rel_list k1 k2 : Forall2 orel k1 k2 -> Forall2 rel k1 k2.
Proof. apply Forall2_orel_rel. Qed.

Lemma save_twice_congr k1 k2 len st : Forall2 rel k1 k2 ->
  save_twice enc s2u k1 len st = save_twice enc s2u k2 len st.
Proof.
  intros H. unfold save_twice. apply out_rel_eq.
  eapply out_rel_bind; [apply (asm_bios_congr enc s2u k1 k2 len st H)|].
  intros [[e1 b1] s1] [[e2 b2] s2] (He & Hb & Hs); cbn [fst snd] in *; subst.
  eapply out_rel_bind; [apply (asm_bios_congr enc s2u e1 e2 len (fst s2, false)); apply Forall2_orel_rel; assumption|].
  intros [[e1' b1'] s1'] [[e2' b2'] s2'] (He' & Hb' & Hs'); cbn [fst snd] in *; subst. reflexivity.
Qed.

(* 4. the whole directory route on a region: extract, load, two passes = two passes on the tree *)
Theorem dir_save_tree_eq rbuf elems len :
  region_paths_ok elems -> wf_treeb_list elems = true ->
  dir_save_tree enc s2u mangle3 rbuf elems len = save_twice enc s2u elems len (240, false).
Proof.
  intros P W. unfold dir_save_tree, load_and_save.
  destruct elems as [|x l].
  - cbn. reflexivity.
  - unfold extract_region.
    destruct (extract_list_ok (x :: l) W [C_bios] 0) as [[[js f] i'] E]. rewrite E. cbn [bind].
    assert (ND : NoDup (map fst f)).
    { destruct P as [K P]. destruct (extract_list_shape (x :: l) _ _ _ _ _ E) as (_ & _ & N). apply N; assumption. }
    change (if sv_reg_elems then js else []) with js.
    change (if sv_reg_length then len else 0) with len.
    rewrite (reload_extract_list mangle3 (x :: l) _ _ _ _ _ f E) by (intros p b Hin; apply fs_read_in; auto).
    cbn [bind]. apply save_twice_congr. apply project_list_rel. exact W.
Qed.

(* one pass over the projected region *)
Theorem asm_bios_project elems len st : wf_treeb_list elems = true ->
  out_rel bres_rel (asm_bios (map (json_project mangle3) elems) len st) (asm_bios elems len st).
Proof. intros W. apply asm_bios_congr. apply project_list_rel. exact W. Qed.

End Final.


(* ---------- field edits ---------- *)

Lemma zskipn_app_cons {A} (a : list A) x r n : zlen a = n -> zskipn (n + 1) (a ++ x :: r) = r.
Proof.
  intros H. unfold zskipn, zlen in *. replace (Z.to_nat (n + 1)) with (length (a ++ [x])).
  - replace (a ++ x :: r) with ((a ++ [x]) ++ r) by (rewrite <- app_assoc; reflexivity).
    apply skipn_all_app || (rewrite skipn_app, skipn_all, Nat.sub_diag; reflexivity).
  - rewrite app_length. cbn. lia.
Qed.

(* the file GUID: exactly the 16 GUID bytes and the header checksum byte change *)
Theorem edit_guid_bytes h g' ext attr data :
  zlen (f_guid h) = 16 -> zlen g' = 16 ->
  let r1 := checksum_and_assemble h ext attr data in
  let r2 := checksum_and_assemble (with_guid h g') ext attr data in
  snd r2 = g' ++ f_ckh (fst r2) :: zskipn 17 (snd r1) /\
  snd r1 = f_guid h ++ f_ckh (fst r1) :: zskipn 17 (snd r1) /\
  fst r2 = with_guid (mkFile (f_guid h) (f_ckh (fst r2)) (f_ckf (fst r1)) (f_type (fst r1)) (f_attr (fst r1))
                             (f_size3 (fst r1)) (f_state (fst r1)) (f_ext (fst r1)) (f_dataoff (fst r1))
                             (f_nvar (fst r1))) g'.
Proof.
  intros Hg Hg'. unfold checksum_and_assemble, with_guid. cbn [fst snd f_guid f_ckh f_ckf f_type f_attr f_size3 f_state f_ext f_dataoff f_nvar].
  unfold file_header_bytes.
  repeat split.
  - rewrite <- !app_assoc. cbn [app]. f_equal. f_equal. symmetry. change 17 with (16 + 1). apply (zskipn_app_cons (f_guid h)). assumption.
  - rewrite <- !app_assoc. cbn [app]. f_equal. f_equal. symmetry. change 17 with (16 + 1). apply (zskipn_app_cons (f_guid h)). assumption.
Qed.

Lemma ck_valid A s ckf : (((s - A) mod 256 + (A + ckf)) mod 256 - ckf - s) mod 256 = 0.
Proof.
  replace (((s - A) mod 256 + (A + ckf)) mod 256 - ckf - s)
    with (((s - A) mod 256 + (A + ckf)) mod 256 - (ckf + s)) by ring.
  rewrite Zminus_mod_idemp_l.
  replace ((s - A) mod 256 + (A + ckf) - (ckf + s)) with ((s - A) mod 256 - (s - A)) by ring.
  rewrite Zminus_mod_idemp_l, Z.sub_diag. reflexivity.
Qed.

(* the recomputed header checksum makes the header sum (without the file checksum and the state byte) zero *)
Theorem header_checksum_valid h ext attr data :
  zlen (f_guid h) = 16 ->
  let r := checksum_and_assemble h ext attr data in
  (sum8 (zfirstn (file_hlen attr) (snd r)) - f_ckf (fst r) - f_state (fst r)) mod 256 = 0.
Proof.
  intros Hl. unfold checksum_and_assemble. cbn [fst snd f_ckf f_state].
  set (ckf' := if attr_checksum attr then (0 - sum8 data) mod 256 else 170).
  set (hs := if attr_large attr then 32 else 24).
  unfold file_hlen. fold hs.
  set (rest := [f_type h; attr] ++ le_enc 3 (write3 ext) ++ [f_state h] ++ le_enc 8 ext).
  (* the sum that defined the new header checksum *)
  assert (Hsum : forall ckh ckf large,
    sum_list (zfirstn hs (file_header_bytes (f_guid h) ckh ckf (f_type h) attr (write3 ext) (f_state h) ext large
                           ++ (if large then [] else le_enc 8 ext) ++ data)) =
    sum_list (f_guid h) + ckh + ckf + sum_list (zfirstn (hs - 18) (rest ++ data))).
  { intros ckh ckf large. unfold file_header_bytes, zfirstn.
    replace ((f_guid h ++ [ckh; ckf; f_type h; attr] ++ le_enc 3 (write3 ext) ++ [f_state h] ++
              (if large then le_enc 8 ext else [])) ++ (if large then [] else le_enc 8 ext) ++ data)
      with ((f_guid h ++ [ckh; ckf]) ++ (rest ++ data)).
    2:{ unfold rest. destruct large; rewrite <- !app_assoc; cbn [app]; rewrite ?app_nil_r; reflexivity. }
    assert (Hlen : length (f_guid h ++ [ckh; ckf]) = 18%nat).
    { rewrite app_length. unfold zlen in Hl. cbn [length]. lia. }
    rewrite firstn_app_ge by (rewrite Hlen; subst hs; destruct (attr_large attr); lia).
    rewrite Hlen. replace (Z.to_nat hs - 18)%nat with (Z.to_nat (hs - 18)) by lia.
    rewrite !sum_list_app. change (sum_list [ckh; ckf]) with (ckh + (ckf + 0)). ring. }
  (* zfirstn hs of the 32-byte header = zfirstn hs of header ++ anything *)
  assert (Hpre : forall ckh ckf X,
    zfirstn hs (file_header_bytes (f_guid h) ckh ckf (f_type h) attr (write3 ext) (f_state h) ext true) =
    zfirstn hs (file_header_bytes (f_guid h) ckh ckf (f_type h) attr (write3 ext) (f_state h) ext true ++ X)).
  { intros. unfold zfirstn. rewrite firstn_app.
    assert (L : length (file_header_bytes (f_guid h) ckh ckf (f_type h) attr (write3 ext) (f_state h) ext true) = 32%nat).
    { unfold file_header_bytes. rewrite !app_length, !le_enc_length. unfold zlen in Hl. cbn [length]. lia. }
    rewrite L. replace (Z.to_nat hs - 32)%nat with 0%nat by (subst hs; destruct (attr_large attr); lia).
    cbn [firstn]. rewrite app_nil_r. reflexivity. }
  set (ckh' := (f_ckh h - (sum8 (zfirstn hs (file_header_bytes (f_guid h) (f_ckh h) (f_ckf h) (f_type h) attr
                  (write3 ext) (f_state h) ext true)) - f_ckf h - f_state h) mod 256) mod 256).
  assert (Hck : ckh' = (f_state h - (sum_list (f_guid h) + sum_list (zfirstn (hs - 18) (rest ++ data)))) mod 256).
  { unfold ckh', sum8. rewrite (Hpre _ _ data).
    pose proof (Hsum (f_ckh h) (f_ckf h) true) as E. cbn [app] in E. rewrite E.
    set (A := sum_list (f_guid h) + sum_list (zfirstn (hs - 18) (rest ++ data))).
    replace (sum_list (f_guid h) + f_ckh h + f_ckf h + sum_list (zfirstn (hs - 18) (rest ++ data)))
      with (A + f_ckh h + f_ckf h) by (unfold A; ring).
    apply ck_indep. }
  unfold sum8.
  (* small files: the 8 bytes after the 24-byte header are not part of the first 24 *)
  destruct (attr_large attr) eqn:LG.
  - pose proof (Hsum ckh' ckf' true) as E. cbn [app] in E. rewrite E, Hck. subst hs.
    set (A := sum_list (f_guid h) + sum_list (zfirstn (32 - 18) (rest ++ data))).
    replace (sum_list (f_guid h) + (f_state h - A) mod 256 + ckf' + sum_list (zfirstn (32 - 18) (rest ++ data)))
      with ((f_state h - A) mod 256 + (A + ckf')) by (unfold A; ring).
    apply ck_valid.
  - (* 24-byte header followed by data: the first 24 bytes are the header *)
    assert (H24 : forall X Y, zfirstn hs (file_header_bytes (f_guid h) ckh' ckf' (f_type h) attr (write3 ext) (f_state h) ext false ++ X)
                       = zfirstn hs (file_header_bytes (f_guid h) ckh' ckf' (f_type h) attr (write3 ext) (f_state h) ext false ++ Y)).
    { intros. unfold zfirstn. rewrite !firstn_app.
      assert (L : length (file_header_bytes (f_guid h) ckh' ckf' (f_type h) attr (write3 ext) (f_state h) ext false) = 24%nat).
      { unfold file_header_bytes. rewrite !app_length, !le_enc_length. unfold zlen in Hl. cbn [length]. lia. }
      rewrite L. subst hs. replace (Z.to_nat 24 - 24)%nat with 0%nat by lia. reflexivity. }
    rewrite (H24 data (le_enc 8 ext ++ data)).
    pose proof (Hsum ckh' ckf' false) as E. cbn iota in E. rewrite E, Hck.
    set (A := sum_list (f_guid h) + sum_list (zfirstn (hs - 18) (rest ++ data))).
    replace (sum_list (f_guid h) + (f_state h - A) mod 256 + ckf' + sum_list (zfirstn (hs - 18) (rest ++ data)))
      with ((f_state h - A) mod 256 + (A + ckf')) by (unfold A; ring).
    apply ck_valid.
Qed.


Lemma gen_small h body : s_gd h = None -> zlen body + 4 < 16777215 ->
  gen_sec_header h body =
  (mkSec (4 + zlen body) (s_type h) (4 + zlen body) 4 None (s_name h) (s_build h) (s_version h)
         (s_depex h) (s_order h),
   small_section (s_type h) body).
Proof.
  intros G L. unfold gen_sec_header, small_section. rewrite G.
  pose proof (zlen_nonneg body) as Hn.
  replace ((zlen body + (4 + 0)) mod U32) with (4 + zlen body).
  2:{ rewrite Z.mod_small; [ring|]. change U32 with 4294967296. lia. }
  replace (16777215 <=? 4 + zlen body) with false by lia.
  cbn [gd_guid]. replace (16777215 <=? 4 + zlen body) with false by lia.
  unfold write3. replace (16777215 <=? 4 + zlen body) with false by lia.
  f_equal; try (rewrite <- !app_assoc; cbn [app]; reflexivity).
Qed.

Section Edits.
Variable enc : Z -> bytes -> option bytes.
Variable s2u : bytes -> bytes.
Notation asm := (asm enc s2u).
Notation asm_elems := (asm_elems enc s2u).

Definition small_hdr (h : sechdr) (body : bytes) : sechdr :=
  mkSec (4 + zlen body) (s_type h) (4 + zlen body) 4 None (s_name h) (s_build h) (s_version h)
        (s_depex h) (s_order h).

Lemma asm_small_leaf h buf st body : s_gd h = None -> zlen body + 4 < 16777215 ->
  sec_leaf_body s2u h = Ok (Some body) ->
  asm (NSec h buf []) st = Ok (NSec (small_hdr h body) (small_section (s_type h) body) [], st).
Proof.
  intros G L B. rewrite asm_sec. cbn [Ffs.asm_elems bind]. destruct st as [pol ffs3].
  rewrite B. cbn [bind]. rewrite (gen_small h body G L). cbn [s_ext].
  replace (16777215 <? 4 + zlen body) with false by lia. rewrite orb_false_r. reflexivity.
Qed.

(* UI name: the reassembled section is header + UCS-2 of the new name, whatever the old buffer was *)
Theorem edit_ui h buf st nm : s_type h = 21 -> s_gd h = None -> zlen (s2u nm) + 4 < 16777215 ->
  asm (NSec (with_name h nm) buf []) st =
  Ok (NSec (small_hdr (with_name h nm) (s2u nm)) (small_section 21 (s2u nm)) [], st).
Proof.
  intros T G L. rewrite <- T.
  change (s_type h) with (s_type (with_name h nm)).
  apply asm_small_leaf; auto.
  unfold sec_leaf_body. cbn [with_name s_type s_name]. rewrite T. reflexivity.
Qed.

Theorem edit_version h buf st v : s_type h = 20 -> s_gd h = None ->
  zlen (le_enc 2 (s_build h) ++ s2u v) + 4 < 16777215 ->
  asm (NSec (with_version h v) buf []) st =
  Ok (NSec (small_hdr (with_version h v) (le_enc 2 (s_build h) ++ s2u v))
           (small_section 20 (le_enc 2 (s_build h) ++ s2u v)) [], st).
Proof.
  intros T G L. rewrite <- T.
  change (s_type h) with (s_type (with_version h v)).
  apply asm_small_leaf; auto.
  unfold sec_leaf_body. cbn [with_version s_type s_version s_build]. rewrite T. reflexivity.
Qed.

Theorem edit_depex h buf st d : (s_type h = 19 \/ s_type h = 27 \/ s_type h = 28) -> s_gd h = None ->
  match emit_depex d with
  | Ok body => zlen body + 4 < 16777215 ->
      asm (NSec (with_depex h d) buf []) st =
      Ok (NSec (small_hdr (with_depex h d) body) (small_section (s_type h) body) [], st)
  | _ => asm (NSec (with_depex h d) buf []) st = Err E_DEPEX
  end.
Proof.
  intros T G.
  assert (B : sec_leaf_body s2u (with_depex h d) = do b <- emit_depex d; Ok (Some b)).
  { unfold sec_leaf_body. cbn [with_depex s_type s_depex].
    destruct T as [T|[T|T]]; rewrite T; reflexivity. }
  destruct (emit_depex d) as [body|e| |] eqn:E.
  - intros L. change (s_type h) with (s_type (with_depex h d)). apply asm_small_leaf; auto.
  - rewrite asm_sec. cbn [Ffs.asm_elems bind]. destruct st. rewrite B. cbn [bind].
    (* emit_depex only fails with E_DEPEX *)
    assert (e = E_DEPEX); [|subst; reflexivity].
    clear -E. revert e E. induction d as [|[op g] r IH]; intros e E; cbn in E; [discriminate|].
    destruct (emit_depex r) as [rest|e'| |]; cbn [bind] in E.
    + destruct (op <=? 2), g; inversion E; reflexivity.
    + inversion E; subst. apply IH; reflexivity.
    + discriminate.
    + discriminate.
  - exfalso. clear -E. induction d as [|[op g] r IH]; cbn in E; [discriminate|].
    destruct (emit_depex r); cbn [bind] in E; try discriminate; auto.
    destruct (op <=? 2), g; discriminate.
  - exfalso. clear -E. induction d as [|[op g] r IH]; cbn in E; [discriminate|].
    destruct (emit_depex r); cbn [bind] in E; try discriminate; auto.
    destruct (op <=? 2), g; discriminate.
Qed.

(* the assembler goes through a child list from left to right *)
Lemma asm_elems_app a : forall b st, asm_elems (a ++ b) st =
  do ra <- asm_elems a st; let '(a', s1) := ra in
  do rb <- asm_elems b s1; let '(b', s2) := rb in Ok (a' ++ b', s2).
Proof.
  induction a as [|x a IH]; intros b st.
  - cbn [app Ffs.asm_elems bind]. destruct (asm_elems b st) as [[b' s2]| | |]; reflexivity.
  - cbn [app]. rewrite !asm_elems_cons.
    destruct (asm x st) as [[x' s1]| | |]; cbn [bind]; try reflexivity.
    rewrite IH. destruct (asm_elems a s1) as [[a' s2]| | |]; cbn [bind]; try reflexivity.
    destruct (asm_elems b s2) as [[b' s3]| | |]; cbn [bind]; reflexivity.
Qed.

Lemma asm_file_rebuilt h buf kids st kids' st' : f_nvar h = None -> kids <> [] ->
  asm_elems kids st = Ok (kids', st') -> asm (NFile h buf kids) st = Ok (rebuilt_file h kids' st').
Proof.
  intros N K E. rewrite asm_file, E. cbn [bind]. destruct st' as [pol ffs3]. rewrite N.
  pose proof (asm_elems_length enc s2u _ _ _ _ E) as L.
  destruct kids' as [|x r]; [destruct kids; [contradiction K; reflexivity|discriminate]|].
  unfold rebuilt_file. cbn [fst snd].
  destruct (set_size (f_attr h) (24 + zlen (join4 [] (map node_buf (x :: r)))) true) as [ext attr].
  destruct (checksum_and_assemble h ext attr (join4 [] (map node_buf (x :: r)))) as [h' nb]. reflexivity.
Qed.

(* editing one section of a file: the siblings are assembled to the same bytes, the file is rebuilt
   around the new section bytes with size and checksums recomputed *)
Theorem edit_section_in_file h buf pre sec sec' post st pre' s1 x y s2 post' s3 :
  f_nvar h = None ->
  asm_elems pre st = Ok (pre', s1) -> asm sec s1 = Ok (x, s2) -> asm sec' s1 = Ok (y, s2) ->
  asm_elems post s2 = Ok (post', s3) ->
  asm (NFile h buf (pre ++ sec :: post)) st = Ok (rebuilt_file h (pre' ++ x :: post') s3) /\
  asm (NFile h buf (pre ++ sec' :: post)) st = Ok (rebuilt_file h (pre' ++ y :: post') s3).
Proof.
  intros N Epre Ex Ey Epost.
  split; apply asm_file_rebuilt; auto; try (destruct pre; discriminate);
    rewrite asm_elems_app, Epre; cbn [bind]; rewrite asm_elems_cons.
  - rewrite Ex. cbn [bind]. rewrite Epost. reflexivity.
  - rewrite Ey. cbn [bind]. rewrite Epost. reflexivity.
Qed.

(* the GUID of a file that is rebuilt from its sections *)
Theorem edit_guid_in_file h buf kids st g' kids' st' : f_nvar h = None -> kids <> [] ->
  asm_elems kids st = Ok (kids', st') ->
  asm (NFile h buf kids) st = Ok (rebuilt_file h kids' st') /\
  asm (NFile (with_guid h g') buf kids) st = Ok (rebuilt_file (with_guid h g') kids' st').
Proof. intros N K E. split; apply asm_file_rebuilt; auto. Qed.

End Edits.


(* ---------- the parser establishes the hypotheses ---------- *)

Definition good (n : node) : Prop := wf_treeb n = true /\ paths_okb n = true.

Lemma NoDup_nodupb l : NoDup l -> nodupb l = true.
Proof.
  induction 1 as [|x l Hx Hl IH]; cbn; [reflexivity|]. rewrite IH, andb_true_r.
  apply negb_true_iff. destruct (existsb (pc_eqb x) l) eqn:E; [|reflexivity].
  apply existsb_exists in E. destruct E as (y & Hy & E). apply pc_eqb_eq in E. subst. contradiction.
Qed.

Lemma good_list_wf l : Forall good l -> wf_treeb_list l = true.
Proof. induction 1 as [|x l [H _] _ IH]; cbn; [reflexivity|]. rewrite H, IH. reflexivity. Qed.
Lemma good_list_paths l : Forall good l -> paths_okb_list l = true.
Proof. induction 1 as [|x l [_ H] _ IH]; cbn; [reflexivity|]. rewrite H, IH. reflexivity. Qed.

(* sections numbered i, i+1, ... *)
Fixpoint ordered_from (i : Z) (l : list node) : Prop :=
  match l with
  | [] => True
  | x :: r => key x = [C_dec i] /\ ordered_from (i + 1) r
  end.

Lemma ordered_keys_ge : forall l i k, ordered_from i l -> In k (keys l) -> exists j, k = C_dec j /\ i <= j.
Proof.
  induction l as [|x l IH]; intros i k H Hin; [contradiction|].
  destruct H as [Hx Hr]. rewrite keys_cons, Hx in Hin. cbn in Hin. destruct Hin as [E|Hin].
  - exists i. split; [auto|lia].
  - destruct (IH (i + 1) k Hr Hin) as (j & E & L). exists j. split; [assumption|lia].
Qed.

Lemma ordered_nodup : forall l i, ordered_from i l -> NoDup (keys l).
Proof.
  induction l as [|x l IH]; intros i H; [constructor|].
  destruct H as [Hx Hr]. rewrite keys_cons, Hx. cbn. constructor; [|eapply IH; eauto].
  intros Hin. destruct (ordered_keys_ge l (i + 1) _ Hr Hin) as (j & E & L). inversion E. lia.
Qed.

Ltac brk H :=
  match type of H with
  | (if ?c then _ else _) = Ok _ => destruct c eqn:?; try discriminate H
  | bind ?x _ = Ok _ => destruct x as [?| | |] eqn:?; cbn [bind] in H; try discriminate H
  | (let '(a, b) := ?x in _) = Ok _ => destruct x as [? ?] eqn:?
  | match ?x with _ => _ end = Ok _ => destruct x eqn:?; try discriminate H
  end.

Section Parse.
Variable dec : Z -> bytes -> option bytes.
Variable u2s : bytes -> bytes.
Variable nvar : bytes -> option bytes.
Hypothesis dec_ok : forall k p e, dec k p = Some e -> bytes_ok e = true.

Definition Psec (f : Z -> bytes -> Z -> outcome (node * Z)) : Prop :=
  forall pol buf order n pol', bytes_ok buf = true -> f pol buf order = Ok (n, pol') ->
    good n /\ key n = [C_dec order].
Definition Pfile (f : Z -> bytes -> outcome (option node * Z)) : Prop :=
  forall pol buf n pol', bytes_ok buf = true -> f pol buf = Ok (Some n, pol') -> good n /\ key n = [].
Definition Pfv (f : Z -> bytes -> Z -> bool -> outcome (node * Z)) : Prop :=
  forall pol data fvoff rs n pol', bytes_ok data = true -> f pol data fvoff rs = Ok (n, pol') ->
    good n /\ exists h b k, n = NVol h b k /\ v_fvoffset h = fvoff /\ 64 <= v_length h.

Lemma bytes_ok_zskipn n l : bytes_ok l = true -> bytes_ok (zskipn n l) = true.
Proof. apply bytes_ok_skipn. Qed.

Lemma sections_loop_inv rec_section : Psec rec_section -> forall n b pol off i l pol',
  bytes_ok b = true -> sections_loop rec_section n b pol off i = Ok (l, pol') ->
  Forall good l /\ ordered_from i l.
Proof.
  intros HP. induction n as [|n IH]; intros b pol off i l pol' Hb H; [discriminate|].
  cbn [sections_loop] in H. repeat brk H.
  - inversion H; subst.
    match goal with E : rec_section _ _ _ = Ok _ |- _ => destruct (HP _ _ _ _ _ (bytes_ok_zskipn _ _ Hb) E) as [G K] end.
    match goal with E : sections_loop _ _ _ _ _ _ = Ok _ |- _ => destruct (IH _ _ _ _ _ _ Hb E) as [G' O'] end.
    split; [constructor; assumption|]. cbn. auto.
  - inversion H; subst. split; [constructor|exact I].
Qed.

Lemma good_sec_leaf h b : good (NSec h b []).
Proof. split; reflexivity. Qed.

Lemma sections_loop_nil rec_section n pol i : forall l pol',
  sections_loop rec_section n [] pol 0 i = Ok (l, pol') -> l = [].
Proof. destruct n; cbn; intros l pol' H; [discriminate|]. inversion H; reflexivity. Qed.

Lemma good_sec_kids h b l : Forall good l -> ordered_from 0 l ->
  (l <> [] -> s_type h = 2 -> exists g, s_gd h = Some g /\ Z.land (gd_attrs g) 1 <> 0) ->
  good (NSec h b l).
Proof.
  intros G O A. split.
  - rewrite wf_sec, (good_list_wf l G), andb_true_r. destruct l as [|x r]; [reflexivity|].
    destruct (s_type h =? 2) eqn:T; [|reflexivity].
    destruct (A ltac:(discriminate) ltac:(lia)) as (g & -> & Hg). lia.
  - rewrite paths_ok_sec, (good_list_paths l G), andb_true_r. apply NoDup_nodupb. eapply ordered_nodup; eauto.
Qed.

Lemma section_body_inv rec_section rec_fv : Psec rec_section -> Pfv rec_fv ->
  Psec (section_body dec u2s rec_section rec_fv).
Proof.
  intros HS HV pol buf order n pol' Hb H. unfold section_body in H.
  assert (Hsub : forall e, bytes_ok (sub 0 e buf) = true) by (intros; apply bytes_ok_sub; assumption).
  repeat brk H; inversion H; subst; clear H;
    try (split; [apply good_sec_leaf|reflexivity]).
  (* what is left: GUID-defined sections (children from the decoded payload) and volume images *)
  - split; [|reflexivity].
    match goal with E : sections_loop _ _ ?enc _ _ _ = Ok (?l, _) |- _ =>
      assert (Henc : bytes_ok enc = true \/ enc = []); [|rename E into EL] end.
    { match goal with E : _ = Ok (l, z1) |- _ => rename E into EK end.
      destruct (_ =? 0) in EK; [inversion EK; auto|].
      destruct (slice _ _ _) in EK; [|discriminate].
      destruct (dec _ _) eqn:D in EK; inversion EK; subst; [left; eapply dec_ok; eauto|auto]. }
    destruct Henc as [Henc|Henc].
    + destruct (sections_loop_inv _ HS _ _ _ _ _ _ _ Henc EL) as [G O].
      apply good_sec_kids; auto.
      intros Hne _. cbn [s_gd gd_attrs]. eexists. split; [reflexivity|].
      (* children exist, so the payload was decoded, so the attribute is set *)
      match goal with E : _ = Ok (l, z1) |- _ => rename E into EK end.
      destruct (negb (Z.land (rd (z + 18) 2 (sub 0 z0 buf)) 1 =? 0)) eqn:A;
        [apply negb_true_iff in A; apply Z.eqb_neq in A; exact A|].
      exfalso. cbn in EK. inversion EK; subst. apply Hne.
      eapply sections_loop_nil; eauto.
    + subst. apply sections_loop_nil in EL. subst. apply good_sec_leaf.
  - split; [|reflexivity].
    match goal with E : rec_fv _ _ _ _ = Ok _ |- _ =>
      destruct (HV _ _ _ _ _ _ (bytes_ok_zskipn _ _ (Hsub _)) E) as [[Gw Gp] (hh & bb & kk & -> & Ho & Hl)] end.
    split.
    + rewrite wf_sec. cbn [wf_treeb_list]. rewrite Gw. cbn [s_type sec_default].
      match goal with Ht : (_ =? 2) = false |- _ => rewrite Ht end. reflexivity.
    + rewrite paths_ok_sec. cbn [paths_okb_list]. rewrite Gp. reflexivity.
Qed.

Lemma file_body_inv rec_section : Psec rec_section -> Pfile (file_body nvar rec_section).
Proof.
  intros HS pol buf n pol' Hb H. unfold file_body in H.
  assert (Hsub : forall e, bytes_ok (sub 0 e buf) = true) by (intros; apply bytes_ok_sub; assumption).
  repeat brk H; inversion H; subst; clear H; (split; [|reflexivity]).
  all: assert (Hg : zlen (sub 0 16 buf) = 16) by (apply zlen_sub; lia).
  all: try (split; [rewrite wf_file; cbn [f_guid wf_treeb_list]; rewrite Hg, (Hsub 16); reflexivity|reflexivity]).
  all: match goal with E : sections_loop _ _ _ _ _ _ = Ok (?l, _) |- _ =>
         destruct (sections_loop_inv _ HS _ _ _ _ _ _ _ (Hsub _) E) as [G O] end.
  all: split; [rewrite wf_file; cbn [f_guid]; rewrite Hg, (Hsub 16); rewrite (good_list_wf _ G); reflexivity
              |rewrite paths_ok_file, (good_list_paths _ G), andb_true_r; apply NoDup_nodupb; eapply ordered_nodup; eauto].
Qed.

Lemma files_loop_inv rec_file : Pfile rec_file -> forall n data length pol off l pol' fs,
  bytes_ok data = true -> files_loop rec_file n data length pol off = Ok (l, pol', fs) ->
  Forall good l /\ keys l = [] /\ (l <> [] -> off + 24 <= length).
Proof.
  intros HP. induction n as [|n IH]; intros data length pol off l pol' fs Hb H; [discriminate|].
  cbn [files_loop] in H. repeat brk H; inversion H; subst; clear H.
  all: try (split; [constructor|split; [reflexivity|intros C; contradiction C; reflexivity]]).
  match goal with E : rec_file _ _ = Ok (Some ?f, _) |- _ =>
    destruct (HP _ _ _ _ (bytes_ok_sub _ _ _ Hb) E) as [G K] end.
  match goal with E : files_loop _ _ _ _ _ _ = Ok _ |- _ => destruct (IH _ _ _ _ _ _ _ Hb E) as (G' & K' & _) end.
  split; [constructor; assumption|]. split; [rewrite keys_cons, K, K'; reflexivity|]. intros _. lia.
Qed.

Lemma rd_nonneg off w b : bytes_ok b = true -> 0 <= rd off w b.
Proof. intros H. unfold rd. apply le_dec_bound. apply bytes_ok_sub. assumption. Qed.

Lemma align8_nonneg x : 0 <= x -> 0 <= align8 x.
Proof. intros H. unfold align8, align. apply Z.mul_nonneg_nonneg; [|lia]. apply Z.div_pos; lia. Qed.

Lemma fv_body_inv rec_file : Pfile rec_file -> Pfv (fv_body rec_file).
Proof.
  intros HF pol data fvoff rs n pol' Hb H. unfold fv_body in H.
  repeat brk H; inversion H; subst; clear H.
  - (* not an FFS volume *)
    split; [split; reflexivity|]. do 3 eexists. split; [reflexivity|]. cbn [v_fvoffset v_length]. split; [reflexivity|lia].
  - match goal with E : files_loop _ _ _ _ _ _ = Ok _ |- _ =>
      destruct (files_loop_inv _ HF _ _ _ _ _ _ _ _ Hb E) as (G & K & L) end.
    split; [|do 3 eexists; split; [reflexivity|]; cbn [v_fvoffset v_length]; split; [reflexivity|lia]].
    split.
    + rewrite wf_vol, (good_list_wf _ G), andb_true_r. cbn [v_dataoff v_length].
      match goal with |- match ?l with [] => true | _ => _ end = true => destruct l as [|x r] eqn:El; [reflexivity|] end.
      specialize (L ltac:(discriminate)).
      set (length := rd 32 8 data) in *.
      assert (Hlen : zlen (sub 0 length data) = length) by (apply zlen_sub; lia).
      rewrite Hlen.
      match type of L with ?d + 24 <= _ => assert (0 <= d) end.
      { apply align8_nonneg. pose proof (rd_nonneg 52 2 data Hb). pose proof (rd_nonneg 48 2 data Hb).
        pose proof (rd_nonneg (rd 52 2 data + 16) 4 data Hb).
        match goal with |- 0 <= (if ?c then _ else _) => destruct c end; lia. }
      lia.
    + rewrite paths_ok_vol, K, (good_list_paths _ G). reflexivity.
Qed.

Theorem parse_inv : forall d,
  Psec (parse_section dec u2s nvar d) /\ Pfile (parse_file dec u2s nvar d) /\ Pfv (parse_fv dec u2s nvar d).
Proof.
  induction d as [|d (IS & IF & IV)].
  - repeat split; intros; discriminate.
  - split; [|split].
    + change (parse_section dec u2s nvar (S d)) with
        (section_body dec u2s (parse_section dec u2s nvar d) (parse_fv dec u2s nvar d)).
      apply section_body_inv; assumption.
    + change (parse_file dec u2s nvar (S d)) with (file_body nvar (parse_section dec u2s nvar d)).
      apply file_body_inv; assumption.
    + change (parse_fv dec u2s nvar (S d)) with (fv_body (parse_file dec u2s nvar d)).
      apply fv_body_inv; assumption.
Qed.

Definition key_off_ge (abs : Z) (k : pc) : Prop :=
  match k with C_padhex o | C_hex o => abs <= o | _ => False end.

Lemma parse_bios_inv d : forall n pol buf abs l pol',
  bytes_ok buf = true -> parse_bios dec u2s nvar d n pol buf abs = Ok (l, pol') ->
  Forall good l /\ Forall (key_off_ge abs) (keys l) /\ NoDup (keys l).
Proof.
  destruct (parse_inv d) as (_ & _ & HV).
  induction n as [|n IH]; intros pol buf abs l pol' Hb H; [discriminate|].
  cbn [parse_bios] in H. cbv zeta in H. repeat brk H; inversion H; subst; clear H.
  - destruct (zlen buf =? 0).
    + split; [constructor|]. split; constructor.
    + split; [repeat constructor|]. cbn. split; [constructor; [cbn; lia|constructor]|constructor; [intros []|constructor]].
  - match goal with E : parse_fv _ _ _ _ _ _ _ _ = Ok _ |- _ =>
      destruct (HV _ _ _ _ _ _ (bytes_ok_zskipn _ _ Hb) E) as [Gv (hh & bb & kk & -> & Ho & Hl)] end.
    match goal with E : parse_bios _ _ _ _ _ _ _ _ = Ok _ |- _ =>
      destruct (IH _ _ _ _ _ (bytes_ok_zskipn _ _ Hb) E) as (G & K & N) end.
    set (offset := find_fv_offset buf) in *.
    assert (Hoff : 0 <= offset) by lia.
    assert (Hrest : forall k, In k (keys l0) -> key_off_ge (abs + offset + v_length hh) k).
    { rewrite Forall_forall in K. exact K. }
    assert (Hv : ~ In (C_hex (abs + offset)) (keys l0)).
    { intros Hin. apply Hrest in Hin. cbn in Hin. lia. }
    destruct (0 <? offset) eqn:Hpos; cbn [app].
    + split; [constructor; [split; reflexivity|constructor; assumption]|].
      rewrite !keys_cons. cbn [key app]. rewrite Ho.
      split.
      * constructor; [cbn; lia|]. constructor; [cbn; lia|].
        eapply Forall_impl; [|exact K]. intros k Hk. destruct k; cbn in *; try contradiction; lia.
      * constructor.
        -- intros [E|Hin]; [discriminate|]. apply Hrest in Hin. cbn in Hin. lia.
        -- constructor; assumption.
    + split; [constructor; assumption|].
      rewrite keys_cons. cbn [key app]. rewrite Ho.
      split.
      * constructor; [cbn; lia|].
        eapply Forall_impl; [|exact K]. intros k Hk. destruct k; cbn in *; try contradiction; lia.
      * constructor; assumption.
Qed.

Theorem parse_region_inv d buf elems pol : bytes_ok buf = true ->
  parse_region dec u2s nvar d buf = Ok (elems, pol) ->
  wf_treeb_list elems = true /\ region_paths_ok elems.
Proof.
  intros Hb H. unfold parse_region in H.
  destruct (parse_bios_inv d _ _ _ _ _ _ Hb H) as (G & _ & N).
  split; [apply good_list_wf; assumption|].
  split; [apply NoDup_nodupb; assumption|apply good_list_paths; assumption].
Qed.

End Parse.


Section Image.
Variable dec : Z -> bytes -> option bytes.
Variable enc : Z -> bytes -> option bytes.
Variable u2s : bytes -> bytes.
Variable s2u : bytes -> bytes.
Variable nvar : bytes -> option bytes.
Variable mangle3 : Z -> Z.
Hypothesis dec_ok : forall k p e, dec k p = Some e -> bytes_ok e = true.

Theorem image_paths_nodup d img ps : bytes_ok img = true ->
  extract_paths dec u2s nvar d img = Ok ps -> NoDup ps.
Proof.
  intros Hb H. unfold extract_paths in H.
  destruct (parse_region dec u2s nvar d img) as [[elems pol]| | |] eqn:P; cbn [bind] in H; try discriminate.
  destruct (parse_region_inv dec u2s nvar dec_ok d img elems pol Hb P) as [W PO].
  destruct (extract_region img elems) as [[[js p] f]| | |] eqn:E; cbn [bind] in H; try discriminate.
  inversion H; subst. eapply extract_paths_nodup; eauto.
Qed.

Theorem image_dir_save d img : bytes_ok img = true ->
  dir_save dec enc u2s s2u nvar mangle3 d img = save_twice_image dec enc u2s s2u nvar d img.
Proof.
  intros Hb. unfold dir_save, save_twice_image.
  destruct (parse_region dec u2s nvar d img) as [[elems pol]| | |] eqn:P; cbn [bind]; try reflexivity.
  destruct (parse_region_inv dec u2s nvar dec_ok d img elems pol Hb P) as [W PO].
  apply dir_save_tree_eq; assumption.
Qed.

Theorem image_save_projected d img : bytes_ok img = true ->
  save_projected dec enc u2s s2u nvar mangle3 d img = save_region dec enc u2s s2u nvar d img.
Proof.
  intros Hb. unfold save_projected, save_region.
  destruct (parse_region dec u2s nvar d img) as [[elems pol]| | |] eqn:P; cbn [bind]; try reflexivity.
  destruct (parse_region_inv dec u2s nvar dec_ok d img elems pol Hb P) as [W PO].
  apply out_rel_eq. eapply out_rel_bind; [apply (asm_bios_project enc s2u mangle3 elems (zlen img) (pol, false) W)|].
  intros [[e1 b1] s1] [[e2 b2] s2] (He & Hbb & Hs); cbn [fst snd] in *; subst. reflexivity.
Qed.

End Image.

(* ---------- the text form of GUIDs ---------- *)

Lemma unhex1_digit d : 0 <= d < 16 -> unhex1 (digit_uc d) = Some d.
Proof.
  intros H. unfold digit_uc, unhex1.
  destruct (d <? 10) eqn:E.
  - replace ((48 <=? 48 + d) && (48 + d <=? 57)) with true by lia. f_equal. lia.
  - replace ((48 <=? 55 + d) && (55 + d <=? 57)) with false by lia.
    replace ((65 <=? 55 + d) && (55 + d <=? 70)) with true by lia. f_equal. lia.
Qed.

Lemma digit_not_dash d : 0 <= d < 16 -> negb (digit_uc d =? 45) = true.
Proof. intros H. unfold digit_uc. destruct (d <? 10); lia. Qed.

Lemma unhex_hex2 b r : 0 <= b < 256 ->
  unhex (hex2_uc b ++ r) = match unhex r with Some l => Some (b :: l) | None => None end.
Proof.
  intros H. unfold hex2_uc. cbn [app unhex].
  assert (0 <= b / 16 < 16) by (split; [apply Z.div_pos; lia|apply Z.div_lt_upper_bound; lia]).
  assert (0 <= b mod 16 < 16) by (apply Z.mod_pos_bound; lia).
  rewrite !unhex1_digit by assumption.
  destruct (unhex r); [|reflexivity]. f_equal. f_equal.
  rewrite (Z.div_mod b 16) at 3 by lia. reflexivity.
Qed.

Lemma filter_hex2 b r : 0 <= b < 256 ->
  filter (fun c => negb (c =? 45)) (hex2_uc b ++ r) = hex2_uc b ++ filter (fun c => negb (c =? 45)) r.
Proof.
  intros H. unfold hex2_uc. cbn [app filter].
  assert (0 <= b / 16 < 16) by (split; [apply Z.div_pos; lia|apply Z.div_lt_upper_bound; lia]).
  assert (0 <= b mod 16 < 16) by (apply Z.mod_pos_bound; lia).
  rewrite !digit_not_dash by assumption. reflexivity.
Qed.

Lemma filter_dash r :
  filter (fun c => negb (c =? 45)) (45 :: r) = filter (fun c => negb (c =? 45)) r.
Proof. reflexivity. Qed.

Theorem guid_text_roundtrip g : zlen g = 16 -> bytes_ok g = true -> guid_parse (guid_string g) = Some g.
Proof.
  intros L B.
  unfold zlen in L.
  do 16 (destruct g as [|? g]; [cbn [length] in L; lia|]).
  destruct g; [|cbn [length] in L; lia]. clear L.
  repeat (rewrite bytes_ok_cons in B; apply andb_true_iff in B; destruct B as [? B]).
  repeat match goal with H : byte_ok _ = true |- _ => apply byte_ok_iff in H end.
  unfold guid_parse. rewrite <- (app_nil_r (guid_string _)). unfold guid_string. cbn [nth].
  rewrite <- !app_assoc.
  cbn [app].
  repeat (first [rewrite filter_hex2 by assumption | rewrite filter_dash]).
  cbn [filter].
  repeat rewrite unhex_hex2 by assumption.
  cbn [unhex]. reflexivity.
Qed.
