(* Proofs/ApcbProofs.v — lemmas about Model/Apcb.v (property C18). *)
From Fiano Require Import Base.Bytes Base.BytesLemmas Gen.Consts Model.Apcb.
From Coq Require Import ZifyBool ZifyNat.
Open Scope Z_scope.

(* the layout constants, as numbers *)
Ltac cs := unfold HS, GS, TS, PS, hdr_sizeof_apcb, grp_id, grp_hsize, grp_sizeof, typ_tid, typ_sizeof,
  typ_prio, typ_board, new_type_size, new_group_size,
  apcb_hdr_size, apcb_grp_size, apcb_typ_size, apcb_pair_size,
  apcb_hdr_off_sig, apcb_hdr_off_size, apcb_hdr_off_sig2, apcb_hdr_off_sigend,
  apcb_grp_off_sig, apcb_grp_off_id, apcb_grp_off_hsize, apcb_grp_off_version, apcb_grp_off_size,
  apcb_typ_off_gid, apcb_typ_off_tid, apcb_typ_off_size, apcb_typ_off_inst, apcb_typ_off_ctx,
  apcb_typ_off_fmt, apcb_typ_off_unit, apcb_typ_off_prio, apcb_typ_off_keysize, apcb_typ_off_keypos,
  apcb_typ_off_board, apcb_pair_off_id, apcb_pair_off_value, apcb_tokens_group_id in *.

Ltac pw := change (256 ^ Z.of_nat 4) with 4294967296 in *; change (256 ^ Z.of_nat 2) with 65536 in *;
  change (256 ^ Z.of_nat 1) with 256 in *; change (2 ^ 32) with 4294967296 in *;
  change (2 ^ 16) with 65536 in *.

(* ---- more list/bytes facts ---- *)

Lemma sub_app_l (a b : bytes) off len : 0 <= off -> 0 <= len -> off + len <= zlen a ->
  sub off len (a ++ b) = sub off len a.
Proof.
  intros H0 H1 H2. unfold sub, zfirstn, zskipn, zlen in *.
  rewrite skipn_app. rewrite firstn_app.
  replace (Z.to_nat len - length (skipn (Z.to_nat off) a))%nat with O by (rewrite skipn_length; lia).
  rewrite firstn_O, app_nil_r. reflexivity.
Qed.

Lemma rd_app_l (a b : bytes) off w : 0 <= off -> off + Z.of_nat w <= zlen a ->
  rd off w (a ++ b) = rd off w a.
Proof. intros. unfold rd. f_equal. apply sub_app_l; lia. Qed.

(* a window inside the middle part of a three-part buffer *)
Lemma sub_in (a d c : bytes) off o len : zlen a = off -> 0 <= o -> 0 <= len -> o + len <= zlen d ->
  sub (off + o) len (a ++ d ++ c) = sub o len d.
Proof.
  intros Ha Ho Hl Hb. rewrite (sub_app_skip a (d ++ c) (off + o) len off) by lia.
  replace (off + o - off) with o by lia. apply sub_app_l; lia.
Qed.

Lemma sub_at (a d c : bytes) off len : zlen a = off -> zlen d = len ->
  sub off len (a ++ d ++ c) = d.
Proof. intros <- <-. apply sub_app_mid. Qed.

Lemma rd_in (a d c : bytes) off o w : zlen a = off -> 0 <= o -> o + Z.of_nat w <= zlen d ->
  rd (off + o) w (a ++ d ++ c) = rd o w d.
Proof. intros. unfold rd. f_equal. apply sub_in; lia. Qed.

Lemma splice_at (a d c d' : bytes) off : zlen a = off -> zlen d' = zlen d ->
  splice off d' (a ++ d ++ c) = a ++ d' ++ c.
Proof.
  intros Ha Hd. unfold splice. subst off.
  rewrite zfirstn_app_exact. f_equal. f_equal.
  rewrite Hd. rewrite <- zlen_app. rewrite app_assoc. apply zskipn_app_exact.
Qed.

Lemma zskipn_app_at {A} (a b : list A) n : zlen a = n -> zskipn n (a ++ b) = b.
Proof. intros <-. apply zskipn_app_exact. Qed.

Lemma zfirstn_app_at {A} (a b : list A) n : zlen a = n -> zfirstn n (a ++ b) = a.
Proof. intros <-. apply zfirstn_app_exact. Qed.

Lemma zfirstn_all {A} (a : list A) n : zlen a <= n -> zfirstn n a = a.
Proof. intros. unfold zfirstn, zlen in *. apply firstn_all2. lia. Qed.

Lemma zskipn_0 {A} (a : list A) : zskipn 0 a = a.
Proof. reflexivity. Qed.

Lemma zlen_zskipn_le {A} n (l : list A) : 0 <= n -> zlen (zskipn n l) = Z.max 0 (zlen l - n).
Proof. intros. unfold zlen, zskipn. rewrite skipn_length. lia. Qed.

Lemma sum_list_app a b : sum_list (a ++ b) = sum_list a + sum_list b.
Proof.
  induction a as [|x a IH]; [reflexivity|].
  change (sum_list ((x :: a) ++ b)) with (x + sum_list (a ++ b)).
  change (sum_list (x :: a)) with (x + sum_list a). lia.
Qed.

Lemma concat_map_app {A} (f : A -> bytes) l1 l2 :
  concat (map f (l1 ++ l2)) = concat (map f l1) ++ concat (map f l2).
Proof. rewrite map_app, concat_app. reflexivity. Qed.

Lemma le_enc_rd (b : bytes) off (w : nat) : bytes_ok b = true -> 0 <= off -> off + Z.of_nat w <= zlen b ->
  le_enc w (rd off w b) = sub off (Z.of_nat w) b.
Proof.
  intros OK H0 H1. unfold rd.
  assert (L : length (sub off (Z.of_nat w) b) = w).
  { pose proof (zlen_sub off (Z.of_nat w) b ltac:(lia) ltac:(lia) ltac:(lia)) as Hl. unfold zlen in Hl. lia. }
  rewrite <- L at 1. apply le_enc_dec. apply bytes_ok_sub; auto.
Qed.

Lemma rd_bound (b : bytes) off (w : nat) : bytes_ok b = true -> 0 <= off -> off + Z.of_nat w <= zlen b ->
  0 <= rd off w b < 256 ^ Z.of_nat w.
Proof.
  intros OK H0 H1. unfold rd.
  pose proof (le_dec_bound (sub off (Z.of_nat w) b) (bytes_ok_sub _ _ _ OK)) as B.
  rewrite zlen_sub in B by lia. exact B.
Qed.

Lemma rd_le_enc (w : nat) v : 0 <= v < 256 ^ Z.of_nat w -> rd 0 w (le_enc w v) = v.
Proof. intros. rewrite rd_here_exact by apply zlen_le_enc. apply le_dec_enc; auto. Qed.

Lemma rd_le_enc_app (w : nat) v r : 0 <= v < 256 ^ Z.of_nat w -> rd 0 w (le_enc w v ++ r) = v.
Proof. intros. rewrite rd_app_here by apply zlen_le_enc. apply le_dec_enc; auto. Qed.

(* ---- sizes of the encodings ---- *)

Lemma zlen_enc_pair p : zlen (enc_pair p) = 8.
Proof. unfold enc_pair. rewrite zlen_app, !le4. reflexivity. Qed.

Lemma zlen_enc_toks l : zlen (enc_toks l) = 8 * zlen l.
Proof.
  induction l as [|p l IH]; [reflexivity|].
  unfold enc_toks in *. cbn [map concat]. rewrite zlen_app, zlen_enc_pair, IH, zlen_cons. lia.
Qed.

Lemma enc_toks_app a b : enc_toks (a ++ b) = enc_toks a ++ enc_toks b.
Proof. apply concat_map_app. Qed.

Lemma enc_toks_cons p l : enc_toks (p :: l) = enc_pair p ++ enc_toks l.
Proof. reflexivity. Qed.

Lemma enc_types_app a b : enc_types (a ++ b) = enc_types a ++ enc_types b.
Proof. apply concat_map_app. Qed.

Lemma enc_types_cons t l : enc_types (t :: l) = enc_type t ++ enc_types l.
Proof. reflexivity. Qed.

Lemma enc_groups_app a b : enc_groups (a ++ b) = enc_groups a ++ enc_groups b.
Proof. apply concat_map_app. Qed.

Lemma enc_groups_cons g l : enc_groups (g :: l) = enc_group g ++ enc_groups l.
Proof. reflexivity. Qed.

Lemma types_size_app a b : types_size (a ++ b) = types_size a + types_size b.
Proof. unfold types_size. rewrite map_app. apply sum_list_app. Qed.

Lemma types_size_cons t l : types_size (t :: l) = ty_size t + types_size l.
Proof. reflexivity. Qed.

Lemma groups_size_app a b : groups_size (a ++ b) = groups_size a + groups_size b.
Proof. unfold groups_size. rewrite map_app. apply sum_list_app. Qed.

Lemma groups_size_cons g l : groups_size (g :: l) = group_size g + groups_size l.
Proof. reflexivity. Qed.

Lemma ty_size_ge t : 16 <= ty_size t.
Proof. unfold ty_size. pose proof (zlen_nonneg (ty_toks t)). lia. Qed.

Lemma types_size_nonneg l : 0 <= types_size l.
Proof.
  induction l as [|t l IH]; [cbn; lia|]. rewrite types_size_cons. pose proof (ty_size_ge t). lia.
Qed.

Lemma group_size_ge g : 16 <= group_size g.
Proof.
  destruct g as [sg vr ex tys|pre body]; cbn [group_size].
  - pose proof (zlen_nonneg ex). pose proof (types_size_nonneg tys). lia.
  - pose proof (zlen_nonneg body). lia.
Qed.

Lemma groups_size_nonneg l : 0 <= groups_size l.
Proof.
  induction l as [|t l IH]; [cbn; lia|]. rewrite groups_size_cons. pose proof (group_size_ge t). lia.
Qed.

(* ---- well-formedness unpacked ---- *)

Lemma wf_pair_spec p : wf_pair p = true -> 0 <= fst p < 2 ^ 32 /\ 0 <= snd p < 2 ^ 32.
Proof. unfold wf_pair. lia. Qed.

Lemma wf_type_spec t : wf_type t = true ->
  zlen (ty_h1 t) = 4 /\ zlen (ty_h2 t) = 10 /\ bytes_ok (ty_h1 t) = true /\ bytes_ok (ty_h2 t) = true /\
  forallb wf_pair (ty_toks t) = true /\ ty_size t < 2 ^ 16.
Proof.
  unfold wf_type. intros H. repeat (apply andb_true_iff in H as [H ?]). repeat split; auto; lia.
Qed.

Lemma wf_tokgroup_spec sg vr ex tys : wf_group (TokGroup sg vr ex tys) = true ->
  zlen sg = 4 /\ zlen vr = 4 /\ bytes_ok sg = true /\ bytes_ok vr = true /\ bytes_ok ex = true /\
  16 + zlen ex < 2 ^ 16 /\ forallb wf_type tys = true /\ group_size (TokGroup sg vr ex tys) < 2 ^ 32.
Proof.
  cbn [wf_group]. intros H. repeat (apply andb_true_iff in H as [H ?]). repeat split; auto; lia.
Qed.

Lemma wf_foreign_spec pre body : wf_group (Foreign pre body) = true ->
  zlen pre = 12 /\ bytes_ok pre = true /\ bytes_ok body = true /\ rd 4 2 pre <> 12288 /\
  group_size (Foreign pre body) < 2 ^ 32.
Proof.
  cbn [wf_group]. intros H. repeat (apply andb_true_iff in H as [H ?]). repeat split; auto; lia.
Qed.

Lemma wf_blob_spec s : wf_blob s = true ->
  zlen (bl_h1 s) = 8 /\ zlen (bl_h2 s) = 116 /\ bytes_ok (bl_h1 s) = true /\ bytes_ok (bl_h2 s) = true /\
  rd 0 4 (bl_h1 s) = apcb_sig_v2 /\ rd 20 4 (bl_h2 s) = apcb_sig_v3 /\ rd 112 4 (bl_h2 s) = apcb_sig_end /\
  forallb wf_group (bl_groups s) = true /\ bytes_ok (bl_slack s) = true /\ zlen (enc_blob s) < 2 ^ 32.
Proof.
  unfold wf_blob. intros H. repeat (apply andb_true_iff in H as [H ?]). repeat split; auto; lia.
Qed.

Lemma zlen_enc_type t : wf_type t = true -> zlen (enc_type t) = ty_size t.
Proof.
  intros W. apply wf_type_spec in W as (L1 & L2 & _).
  unfold enc_type. rewrite !zlen_app, le2, zlen_enc_toks, L1, L2. unfold ty_size. lia.
Qed.

Lemma zlen_enc_types l : forallb wf_type l = true -> zlen (enc_types l) = types_size l.
Proof.
  induction l as [|t l IH]; intros W; [reflexivity|].
  cbn [forallb] in W. apply andb_true_iff in W as [W1 W2].
  rewrite enc_types_cons, zlen_app, zlen_enc_type, IH, types_size_cons by auto. reflexivity.
Qed.

Lemma zlen_enc_group g : wf_group g = true -> zlen (enc_group g) = group_size g.
Proof.
  destruct g as [sg vr ex tys|pre body]; intros W.
  - apply wf_tokgroup_spec in W as (L1 & L2 & _ & _ & _ & _ & WT & _).
    cbn [enc_group]. rewrite !zlen_app, !le2, le4, zlen_enc_types, L1, L2 by auto. cbn [group_size]. lia.
  - apply wf_foreign_spec in W as (L1 & _).
    cbn [enc_group]. rewrite !zlen_app, le4, L1. cbn [group_size]. lia.
Qed.

Lemma zlen_enc_groups l : forallb wf_group l = true -> zlen (enc_groups l) = groups_size l.
Proof.
  induction l as [|t l IH]; intros W; [reflexivity|].
  cbn [forallb] in W. apply andb_true_iff in W as [W1 W2].
  rewrite enc_groups_cons, zlen_app, zlen_enc_group, IH, groups_size_cons by auto. reflexivity.
Qed.

Lemma zlen_enc_blob s : wf_blob s = true ->
  zlen (enc_blob s) = blob_size s + zlen (bl_slack s).
Proof.
  intros W. apply wf_blob_spec in W as (L1 & L2 & _ & _ & _ & _ & _ & WG & _).
  unfold enc_blob. rewrite !zlen_app, le4, zlen_enc_groups, L1, L2 by auto. unfold blob_size. lia.
Qed.

Lemma forallb_app' {A} (f : A -> bool) a b : forallb f (a ++ b) = true <-> forallb f a = true /\ forallb f b = true.
Proof. rewrite forallb_app. apply andb_true_iff. Qed.

(* ---- header views ---- *)

Definition thdr (t : ttype) : bytes := ty_h1 t ++ le_enc 2 (ty_size t) ++ ty_h2 t.

Lemma enc_type_thdr t : enc_type t = thdr t ++ enc_toks (ty_toks t).
Proof. unfold enc_type, thdr. rewrite <- !app_assoc. reflexivity. Qed.

Lemma zlen_thdr t : wf_type t = true -> zlen (thdr t) = 16.
Proof.
  intros W. apply wf_type_spec in W as (L1 & L2 & _). unfold thdr. rewrite !zlen_app, le2, L1, L2. reflexivity.
Qed.

Lemma thdr_fields t : wf_type t = true ->
  typ_tid (thdr t) = ty_kind t /\ typ_sizeof (thdr t) = ty_size t /\
  typ_prio (thdr t) = ty_prio t /\ typ_board (thdr t) = ty_board t.
Proof.
  intros W. apply wf_type_spec in W as (L1 & L2 & _ & _ & _ & SZ). pose proof (ty_size_ge t).
  unfold thdr, ty_kind, ty_prio, ty_board. cs. repeat split.
  - apply rd_app_l; pw; lia.
  - rewrite (rd_app_skip _ _ 4 2 4) by (auto; lia). simpl Z.sub.
    apply rd_le_enc_app. pw; lia.
  - rewrite (rd_app_skip _ _ 11 1 4) by (auto; lia). simpl Z.sub.
    rewrite (rd_app_skip _ _ 7 1 2) by (try apply le2; lia). reflexivity.
  - rewrite (rd_app_skip _ _ 14 2 4) by (auto; lia). simpl Z.sub.
    rewrite (rd_app_skip _ _ 10 2 2) by (try apply le2; lia). reflexivity.
Qed.

Lemma type_matches_thdr kind pm bm t : wf_type t = true ->
  type_matches kind pm bm (thdr t) = ty_matches kind pm bm t.
Proof.
  intros W. destruct (thdr_fields t W) as (E1 & _ & E3 & E4).
  unfold type_matches, ty_matches. rewrite E1, E3, E4.
  destruct (kind =? ty_kind t) eqn:K.
  - replace (ty_kind t =? kind) with true by lia.
    destruct (Z.land (ty_board t) bm =? 0); destruct (Z.land (ty_prio t) pm =? 0); reflexivity.
  - replace (ty_kind t =? kind) with false by lia. reflexivity.
Qed.

Definition ghdr (g : group) : bytes :=
  match g with
  | TokGroup sg vr ex tys => sg ++ le_enc 2 12288 ++ le_enc 2 (16 + zlen ex) ++ vr ++ le_enc 4 (group_size g)
  | Foreign pre body => pre ++ le_enc 4 (group_size g)
  end.

Definition gtail (g : group) : bytes :=
  match g with
  | TokGroup sg vr ex tys => ex ++ enc_types tys
  | Foreign pre body => body
  end.

Lemma enc_group_ghdr g : enc_group g = ghdr g ++ gtail g.
Proof. destruct g; cbn [enc_group ghdr gtail]; rewrite <- ?app_assoc; reflexivity. Qed.

Lemma zlen_ghdr g : wf_group g = true -> zlen (ghdr g) = 16.
Proof.
  destruct g as [sg vr ex tys|pre body]; intros W.
  - apply wf_tokgroup_spec in W as (L1 & L2 & _). cbn [ghdr]. rewrite !zlen_app, !le2, le4, L1, L2. reflexivity.
  - apply wf_foreign_spec in W as (L1 & _). cbn [ghdr]. rewrite !zlen_app, le4, L1. reflexivity.
Qed.

Lemma ghdr_sizeof g : wf_group g = true -> grp_sizeof (ghdr g) = group_size g.
Proof.
  pose proof (group_size_ge g) as G16.
  destruct g as [sg vr ex tys|pre body]; intros W.
  - apply wf_tokgroup_spec in W as (L1 & L2 & _ & _ & _ & _ & _ & SZ). cbn [ghdr]. cs.
    rewrite (rd_app_skip _ _ 12 4 4) by (auto; lia). simpl Z.sub.
    rewrite (rd_app_skip _ _ 8 4 2) by (try apply le2; lia). simpl Z.sub.
    rewrite (rd_app_skip _ _ 6 4 2) by (try apply le2; lia). simpl Z.sub.
    rewrite (rd_app_skip _ _ 4 4 4) by (auto; lia). simpl Z.sub.
    apply rd_le_enc. pw; lia.
  - apply wf_foreign_spec in W as (L1 & _ & _ & _ & SZ). cbn [ghdr]. cs.
    rewrite (rd_app_skip _ _ 12 4 12) by (auto; lia). simpl Z.sub.
    apply rd_le_enc. pw; lia.
Qed.

Lemma ghdr_tok_fields sg vr ex tys : wf_group (TokGroup sg vr ex tys) = true ->
  grp_id (ghdr (TokGroup sg vr ex tys)) = 12288 /\ grp_hsize (ghdr (TokGroup sg vr ex tys)) = 16 + zlen ex.
Proof.
  intros W. apply wf_tokgroup_spec in W as (L1 & L2 & _ & _ & _ & SH & _). pose proof (zlen_nonneg ex).
  cbn [ghdr]. cs. split.
  - rewrite (rd_app_skip _ _ 4 2 4) by (auto; lia). simpl Z.sub. apply rd_le_enc_app. pw; lia.
  - rewrite (rd_app_skip _ _ 6 2 4) by (auto; lia). simpl Z.sub.
    rewrite (rd_app_skip _ _ 2 2 2) by (try apply le2; lia). simpl Z.sub. apply rd_le_enc_app. pw; lia.
Qed.

Lemma ghdr_foreign_id pre body : wf_group (Foreign pre body) = true ->
  grp_id (ghdr (Foreign pre body)) <> 12288.
Proof.
  intros W. apply wf_foreign_spec in W as (L1 & _ & _ & NE & _). cbn [ghdr]. cs.
  rewrite rd_app_l by (simpl; lia). exact NE.
Qed.

(* lia with ZifyBool slows down badly when many opaque boolean facts are around *)
Ltac clear_bools := repeat match goal with
  | H : wf_blob _ = _ |- _ => clear H | H : wf_group _ = _ |- _ => clear H | H : wf_type _ = _ |- _ => clear H
  | H : forallb _ _ = _ |- _ => clear H | H : existsb _ _ = _ |- _ => clear H | H : kind_ok _ = _ |- _ => clear H
  | H : any_changes _ _ _ _ _ = _ |- _ => clear H | H : ty_matches _ _ _ _ = _ |- _ => clear H
  | H : bytes_ok _ = _ |- _ => clear H end.
Ltac blia := clear_bools; lia.

Ltac if_false := match goal with |- context [if ?c then _ else _] => replace c with false by lia end.
Ltac if_true := match goal with |- context [if ?c then _ else _] => replace c with true by lia end.
Tactic Notation "if_false_by" tactic(t) :=
  match goal with |- context [if ?c then _ else _] => replace c with false by t end.
Tactic Notation "if_true_by" tactic(t) :=
  match goal with |- context [if ?c then _ else _] => replace c with true by t end.

(* ---- parseAPCBHeader on an encoded blob ---- *)

Definition bhdr (s : blob) : bytes := bl_h1 s ++ le_enc 4 (blob_size s) ++ bl_h2 s.

Lemma enc_blob_bhdr s : enc_blob s = bhdr s ++ enc_groups (bl_groups s) ++ bl_slack s.
Proof. unfold enc_blob, bhdr. rewrite <- !app_assoc. reflexivity. Qed.

Lemma zlen_bhdr s : wf_blob s = true -> zlen (bhdr s) = 128.
Proof.
  intros W. apply wf_blob_spec in W as (L1 & L2 & _). unfold bhdr. rewrite !zlen_app, le4, L1, L2. reflexivity.
Qed.

Lemma blob_size_bounds s : wf_blob s = true ->
  128 <= blob_size s /\ blob_size s + zlen (bl_slack s) < 2 ^ 32 /\ 0 <= zlen (bl_slack s).
Proof.
  intros W. pose proof (zlen_enc_blob s W) as L. apply wf_blob_spec in W as (_ & _ & _ & _ & _ & _ & _ & _ & _ & B).
  pose proof (groups_size_nonneg (bl_groups s)). pose proof (zlen_nonneg (bl_slack s)).
  unfold blob_size in *. lia.
Qed.

Lemma bhdr_size s : wf_blob s = true -> hdr_sizeof_apcb (bhdr s) = blob_size s.
Proof.
  intros W. destruct (blob_size_bounds s W) as (B1 & B2 & B3).
  apply wf_blob_spec in W as (L1 & L2 & _). unfold bhdr. cs.
  rewrite (rd_app_skip _ _ 8 4 8) by (auto; lia). simpl Z.sub. apply rd_le_enc_app. pw; lia.
Qed.

Lemma parse_header_enc s : wf_blob s = true -> parse_header (enc_blob s) = Ok (blob_size s).
Proof.
  intros W. pose proof (zlen_enc_blob s W) as L. pose proof (zlen_bhdr s W) as LH.
  destruct (blob_size_bounds s W) as (B1 & B2 & B3). pose proof (bhdr_size s W) as SZ.
  pose proof W as W'. apply wf_blob_spec in W' as (L1 & L2 & _ & _ & S1 & S2 & S3 & _).
  unfold parse_header.
  assert (E0 : hdr_sizeof_apcb (enc_blob s) = blob_size s).
  { rewrite <- SZ. rewrite enc_blob_bhdr. unfold hdr_sizeof_apcb. apply rd_app_l; cs; simpl; lia. }
  assert (E1 : rd apcb_hdr_off_sig 4 (enc_blob s) = apcb_sig_v2).
  { rewrite <- S1. unfold enc_blob. cs. apply rd_app_l; simpl; lia. }
  assert (E2 : rd apcb_hdr_off_sig2 4 (enc_blob s) = apcb_sig_v3).
  { rewrite <- S2. unfold enc_blob. cs.
    rewrite (rd_app_skip _ _ 32 4 8) by (auto; lia). simpl Z.sub.
    rewrite (rd_app_skip _ _ 24 4 4) by (try apply le4; lia). simpl Z.sub.
    apply rd_app_l; simpl; lia. }
  assert (E3 : rd apcb_hdr_off_sigend 4 (enc_blob s) = apcb_sig_end).
  { rewrite <- S3. unfold enc_blob. cs.
    rewrite (rd_app_skip _ _ 124 4 8) by (auto; lia). simpl Z.sub.
    rewrite (rd_app_skip _ _ 116 4 4) by (try apply le4; lia). simpl Z.sub.
    apply rd_app_l; simpl; lia. }
  rewrite E0, E1, E2, E3, !Z.eqb_refl. cbn [negb].
  unfold u32. rewrite Z.mod_small by lia. cs.
  if_false. if_false. if_false.
  rewrite slice_ok by lia. reflexivity.
Qed.

Lemma body_enc s : wf_blob s = true ->
  sub 128 (blob_size s - 128) (enc_blob s) = enc_groups (bl_groups s).
Proof.
  intros W. rewrite enc_blob_bhdr. apply sub_at; [apply zlen_bhdr; auto|].
  apply wf_blob_spec in W as (_ & _ & _ & _ & _ & _ & _ & WG & _).
  rewrite zlen_enc_groups by auto. unfold blob_size. lia.
Qed.

(* ---- the listing ---- *)

Lemma show_all_app a b :
  show_all (a ++ b) = (do x <- show_all a; do y <- show_all b; Ok (x ++ y)).
Proof.
  induction a as [|t a IH]; cbn [show_all app bind].
  - destruct (show_all b); reflexivity.
  - destruct (shown t); [|reflexivity]. rewrite IH.
    destruct (show_all a); cbn [bind]; try reflexivity.
    destruct (show_all b); reflexivity.
Qed.

Lemma list_pairs_enc th toks r : forallb wf_pair toks = true ->
  list_pairs (length toks) (enc_toks toks ++ r) th =
  show_all (map (fun p => mkToken (fst p) (typ_prio th) (typ_board th) (typ_tid th) (snd p)) toks).
Proof.
  induction toks as [|p l IH]; intros W; [reflexivity|].
  cbn [forallb] in W. apply andb_true_iff in W as [Wp Wl]. apply wf_pair_spec in Wp as [P1 P2].
  cbn [length list_pairs map show_all]. rewrite enc_toks_cons. unfold enc_pair. rewrite <- !app_assoc.
  cs. rewrite rd_le_enc_app by (pw; lia).
  rewrite (rd_app_skip _ _ 4 4 4) by (try apply le4; lia). simpl Z.sub. rewrite rd_le_enc_app by (pw; lia).
  unfold shown; cbn [tk_kind tk_val tk_id tk_prio tk_board].
  destruct (process_value (rd 2 2 th) (snd p)) as [pv|]; [|reflexivity].
  replace (zskipn 8 (le_enc 4 (fst p) ++ le_enc 4 (snd p) ++ enc_toks l ++ r)) with (enc_toks l ++ r).
  - rewrite (IH Wl). reflexivity.
  - rewrite !app_assoc. rewrite <- app_assoc. symmetry. apply zskipn_app_at. rewrite zlen_app, !le4. reflexivity.
Qed.

Lemma list_type_tokens_enc t : wf_type t = true ->
  list_type_tokens (enc_toks (ty_toks t)) (thdr t) = show_all (type_tokens t).
Proof.
  intros W. destruct (thdr_fields t W) as (E1 & _ & E3 & E4).
  apply wf_type_spec in W as (_ & _ & _ & _ & WP & _).
  unfold list_type_tokens. rewrite zlen_enc_toks. cs.
  rewrite Z.mul_comm, Z.mod_mul, Z.div_mul by lia. cbn [Z.eqb negb].
  unfold zlen. rewrite Nat2Z.id.
  rewrite <- (app_nil_r (enc_toks (ty_toks t))). rewrite list_pairs_enc by auto.
  cs. rewrite E1, E3, E4. reflexivity.
Qed.

Lemma length_le_types_size l : Z.of_nat (length l) <= types_size l.
Proof.
  induction l as [|t l IH]; [cbn; lia|]. rewrite types_size_cons. pose proof (ty_size_ge t).
  cbn [length]. lia.
Qed.

Lemma length_le_groups_size l : Z.of_nat (length l) <= groups_size l.
Proof.
  induction l as [|t l IH]; [cbn; lia|]. rewrite groups_size_cons. pose proof (group_size_ge t).
  cbn [length]. lia.
Qed.

Lemma list_types_enc fuel A tys : forallb wf_type tys = true -> (length tys < fuel)%nat ->
  list_types fuel (A ++ enc_types tys) (zlen A) = show_all (concat (map type_tokens tys)).
Proof.
  revert A tys; induction fuel as [|f IH]; intros A tys W F; [lia|].
  pose proof (zlen_nonneg A) as HA.
  cbn [list_types]. rewrite zskipn_app_exact.
  destruct tys as [|t r].
  - cbn [enc_types map concat]. reflexivity.
  - cbn [forallb] in W. apply andb_true_iff in W as [Wt Wr].
    pose proof (zlen_enc_type t Wt) as Lt. pose proof (zlen_thdr t Wt) as Lh. pose proof (ty_size_ge t) as G16.
    pose proof (zlen_enc_types r Wr) as Lr. pose proof (types_size_nonneg r) as Gr.
    destruct (thdr_fields t Wt) as (_ & SZ & _).
    rewrite enc_types_cons. rewrite zlen_app, Lt, Lr. cs.
    if_false. if_false.
    assert (Eh : zfirstn 16 (enc_type t ++ enc_types r) = thdr t).
    { rewrite enc_type_thdr, <- app_assoc. apply zfirstn_app_at; auto. }
    rewrite Eh. cs. rewrite SZ. if_false. if_false.
    rewrite slice_ok by (rewrite ?zlen_app, ?Lt, ?Lr; lia).
    replace (sub (zlen A + 16) (zlen A + ty_size t - (zlen A + 16)) (A ++ enc_type t ++ enc_types r))
      with (enc_toks (ty_toks t)).
    2:{ rewrite enc_type_thdr, <- app_assoc. rewrite (app_assoc A). symmetry. apply sub_at.
        - rewrite zlen_app; lia.
        - rewrite zlen_enc_toks. unfold ty_size. lia. }
    cbn [of_opt bind]. rewrite list_type_tokens_enc by auto.
    cbn [map concat]. rewrite show_all_app.
    destruct (show_all (type_tokens t)) as [l| | |]; cbn [bind]; try reflexivity.
    rewrite slice_ok by (rewrite ?zlen_app; lia). cbn [of_opt bind].
    rewrite (app_assoc A). replace (zlen A + ty_size t) with (zlen (A ++ enc_type t)) by (rewrite zlen_app; lia).
    rewrite IH by (auto; cbn [length] in F; lia). reflexivity.
Qed.

Lemma list_groups_enc fuel tf A G : forallb wf_group G = true -> (length G < fuel)%nat ->
  (forall sg vr ex tys, In (TokGroup sg vr ex tys) G -> (length tys < tf)%nat) ->
  zlen A + groups_size G < 2 ^ 32 ->
  list_groups fuel tf (A ++ enc_groups G) (zlen A) = show_all (all_tokens G).
Proof.
  revert A G; induction fuel as [|f IH]; intros A G W F TF B; [lia|].
  pose proof (zlen_nonneg A) as HA.
  cbn [list_groups]. rewrite zskipn_app_exact.
  destruct G as [|g r].
  - reflexivity.
  - cbn [forallb] in W. apply andb_true_iff in W as [Wg Wr].
    pose proof (zlen_enc_group g Wg) as Lg. pose proof (zlen_ghdr g Wg) as Lh. pose proof (group_size_ge g) as G16.
    pose proof (zlen_enc_groups r Wr) as Lr. pose proof (groups_size_nonneg r) as Gr.
    pose proof (ghdr_sizeof g Wg) as SZ. rewrite groups_size_cons in B.
    rewrite enc_groups_cons. rewrite zlen_app, Lg, Lr. cs.
    if_false. if_false.
    assert (Eh : zfirstn 16 (enc_group g ++ enc_groups r) = ghdr g).
    { rewrite enc_group_ghdr, <- app_assoc. apply zfirstn_app_at; auto. }
    rewrite Eh. cs. rewrite SZ. if_false. if_false.
    unfold all_tokens. cbn [map concat]. fold (all_tokens r). rewrite show_all_app.
    assert (Enext : list_groups f tf (A ++ enc_group g ++ enc_groups r) (zlen A + group_size g) = show_all (all_tokens r)).
    { rewrite (app_assoc A). replace (zlen A + group_size g) with (zlen (A ++ enc_group g)) by (rewrite zlen_app; lia).
      apply IH; auto.
      - cbn [length] in F; lia.
      - intros. eapply TF. right. eauto.
      - rewrite zlen_app. lia. }
    destruct g as [sg vr ex tys|pre body].
    + destruct (ghdr_tok_fields sg vr ex tys Wg) as (ID & HSZ). cs. rewrite ID, HSZ. cbn [Z.eqb Pos.eqb].
      pose proof Wg as Wg'. apply wf_tokgroup_spec in Wg' as (L1 & L2 & _ & _ & _ & SH & WT & _).
      pose proof (zlen_nonneg ex) as Hex. pose proof (types_size_nonneg tys) as Hty.
      pose proof (zlen_enc_types tys WT) as Lty.
      cbn [group_size] in *.
      replace ((16 + zlen ex <? 16) || (16 + zlen ex >? 16 + zlen ex + types_size tys)) with false by lia.
      unfold u32. rewrite !Z.mod_small by (pw; lia).
      rewrite slice_ok by (rewrite ?zlen_app, ?Lg, ?Lr; cbn [group_size]; lia).
      replace (sub (zlen A + (16 + zlen ex)) (zlen A + (16 + zlen ex + types_size tys) - (zlen A + (16 + zlen ex)))
                 (A ++ enc_group (TokGroup sg vr ex tys) ++ enc_groups r)) with (enc_types tys).
      2:{ rewrite enc_group_ghdr. cbn [gtail]. rewrite <- !app_assoc.
          rewrite (app_assoc (ghdr _)). rewrite (app_assoc A). symmetry. apply sub_at.
          - rewrite !zlen_app. lia.
          - lia. }
      cbn [of_opt bind group_tokens].
      pose proof (list_types_enc tf [] tys WT (TF _ _ _ _ (or_introl eq_refl))) as LT.
      cbn [app] in LT. change (zlen (@nil Z)) with 0 in LT. rewrite LT.
      destruct (show_all (concat (map type_tokens tys))) as [l| | |]; cbn [bind]; try reflexivity.
      rewrite slice_ok by (rewrite ?zlen_app; lia). cbn [of_opt bind].
      rewrite Enext. reflexivity.
    + pose proof (ghdr_foreign_id pre body Wg) as ID. cs.
      replace (rd 4 2 (ghdr (Foreign pre body)) =? 12288) with false by lia.
      cbn [bind group_tokens show_all].
      rewrite slice_ok by (rewrite ?zlen_app; lia). cbn [of_opt bind].
      rewrite Enext. destruct (show_all (all_tokens r)); reflexivity.
Qed.

Lemma tok_types_le_length s : wf_blob s = true ->
  forall sg vr ex tys, In (TokGroup sg vr ex tys) (bl_groups s) -> (length tys < S (length (enc_blob s)))%nat.
Proof.
  intros W sg vr ex tys I. pose proof (zlen_enc_blob s W) as L.
  destruct (blob_size_bounds s W) as (B1 & B2 & B3). unfold blob_size in *.
  assert (Z.of_nat (length tys) <= groups_size (bl_groups s)).
  { clear - I. induction (bl_groups s) as [|g r IH]; [destruct I|].
    rewrite groups_size_cons. pose proof (group_size_ge g). pose proof (groups_size_nonneg r).
    destruct I as [->|I].
    - cbn [group_size]. pose proof (length_le_types_size tys). pose proof (zlen_nonneg ex). lia.
    - specialize (IH I). lia. }
  unfold zlen in *. lia.
Qed.

Theorem parse_tokens_enc s : wf_blob s = true ->
  parse_tokens (enc_blob s) = show_all (all_tokens (bl_groups s)).
Proof.
  intros W. unfold parse_tokens. rewrite parse_header_enc by auto. cbn [bind]. cs.
  rewrite body_enc by auto.
  pose proof (zlen_enc_blob s W) as L. destruct (blob_size_bounds s W) as (B1 & B2 & B3).
  pose proof (length_le_groups_size (bl_groups s)) as LG. unfold blob_size in *.
  pose proof W as W'. apply wf_blob_spec in W' as (_ & _ & _ & _ & _ & _ & _ & WG & _).
  pose proof (list_groups_enc (S (length (enc_blob s))) (S (length (enc_blob s))) [] (bl_groups s) WG) as LGe.
  cbn [app] in LGe. change (zlen (@nil Z)) with 0 in LGe. apply LGe.
  - unfold zlen in *. lia.
  - apply tok_types_le_length; auto.
  - lia.
Qed.

(* ---- the scan of UpsertToken on an encoded blob ---- *)

Definition sel3 := (option (bytes * Z) * option (bytes * Z) * Z)%type.

Lemma upd_toks_length k nv l : length (upd_toks k nv l) = length l.
Proof. unfold upd_toks. apply map_length. Qed.

Lemma zlen_upd_toks k nv l : zlen (upd_toks k nv l) = zlen l.
Proof. unfold zlen. rewrite upd_toks_length. reflexivity. Qed.

Lemma scan_pairs_enc k nv tb tl : forall rest n A C buf mg mt tok ch acc,
  buf = A ++ enc_toks rest ++ C ->
  zlen A = tb + 8 * Z.of_nat n -> forallb wf_pair rest = true ->
  tl = 8 * (Z.of_nat n + zlen rest) -> tl < 2 ^ 32 -> 0 <= tb ->
  tok = 8 * Z.of_nat acc ->
  scan_pairs (length rest) (Z.of_nat n) tb tl k nv (mkS buf mg mt tok ch) =
    Ok (mkS (A ++ enc_toks (upd_toks k nv rest) ++ C) mg mt
            (8 * Z.of_nat (ins_pos_from k rest n acc)) (ch || has_tok k rest), 0).
Proof.
  induction rest as [|p r IH]; intros n A C buf mg mt tok ch acc Hb HA W Htl Hlt Htb Htok.
  - cbn [length scan_pairs upd_toks map has_tok existsb ins_pos_from]. rewrite orb_false_r. subst. reflexivity.
  - cbn [forallb] in W. apply andb_true_iff in W as [Wp Wr]. apply wf_pair_spec in Wp as [P1 P2].
    pose proof (zlen_nonneg r) as Hr. rewrite zlen_cons in Htl.
    cbn [length scan_pairs s_buf s_mg s_mt s_tok s_changed]. cs.
    assert (Eid : rd (tb + Z.of_nat n * 8 + 0) 4 buf = fst p).
    { subst buf. rewrite enc_toks_cons, <- app_assoc.
      replace (tb + Z.of_nat n * 8 + 0) with (tb + 8 * Z.of_nat n + 0) by lia.
      rewrite (rd_in A (enc_pair p) _ (tb + 8 * Z.of_nat n) 0 4) by (auto; rewrite ?zlen_enc_pair; simpl; lia).
      unfold enc_pair. apply rd_le_enc_app. pw; lia. }
    rewrite Eid.
    set (p' := if fst p =? k then (fst p, nv) else p).
    set (acc' := if fst p <=? k then S n else acc).
    assert (Estep : forall ch', 
      scan_pairs (length r) (Z.of_nat n + 1) tb tl k nv
        (mkS (A ++ enc_pair p' ++ enc_toks r ++ C) mg mt
             (if fst p <=? k then u32 (Z.of_nat n * 8 + 8) else tok) ch') =
      Ok (mkS (A ++ enc_toks (upd_toks k nv (p :: r)) ++ C) mg mt
              (8 * Z.of_nat (ins_pos_from k (p :: r) n acc)) (ch' || has_tok k r), 0)).
    { intros ch'. replace (Z.of_nat n + 1) with (Z.of_nat (S n)) by lia.
      rewrite (IH (S n) (A ++ enc_pair p') C _ mg mt _ ch' acc'); auto.
      - cbn [upd_toks map ins_pos_from]. fold (upd_toks k nv r). fold p'. fold acc'.
        rewrite enc_toks_cons. rewrite <- !app_assoc. reflexivity.
      - rewrite <- app_assoc. reflexivity.
      - rewrite zlen_app, zlen_enc_pair. lia.
      - lia.
      - unfold acc'. destruct (fst p <=? k); [|auto]. unfold u32. rewrite Z.mod_small by (pw; lia). lia. }
    destruct (fst p =? k) eqn:Ek; cbn [negb].
    + (* the token is there: write the new value *)
      replace (fst p <=? k) with true in * by lia.
      if_false.
      unfold write_fixed. rewrite zlen_app, !le4.
      replace (4 + 4 <=? tl - Z.of_nat n * 8) with true by lia.
      cbn [Z.eqb negb s_buf s_mg s_mt s_tok s_changed].
      replace (splice (tb + Z.of_nat n * 8) (le_enc 4 (fst p) ++ le_enc 4 nv) buf)
        with (A ++ enc_pair p' ++ enc_toks r ++ C).
      2:{ subst buf. rewrite enc_toks_cons, <- app_assoc. symmetry.
          unfold p'. fold (enc_pair (fst p, nv)). apply splice_at; [lia|]. rewrite !zlen_enc_pair. reflexivity. }
      rewrite Estep. cbn [has_tok existsb]. rewrite Ek. cbn [orb]. rewrite orb_true_r. reflexivity.
    + replace (mkS buf mg mt (u32 (Z.of_nat n * 8 + 8)) ch) with
        (mkS (A ++ enc_pair p' ++ enc_toks r ++ C) mg mt (u32 (Z.of_nat n * 8 + 8)) ch)
        by (subst buf; unfold p'; rewrite enc_toks_cons, <- app_assoc; reflexivity).
      replace (mkS buf mg mt tok ch) with (mkS (A ++ enc_pair p' ++ enc_toks r ++ C) mg mt tok ch)
        by (subst buf; unfold p'; rewrite enc_toks_cons, <- app_assoc; reflexivity).
      pose proof (Estep ch) as Es.
      destruct (fst p <=? k); rewrite Es; cbn [has_tok existsb]; rewrite Ek; reflexivity.
Qed.

Fixpoint sel_types (kind pm bm k : Z) (gh : bytes) (goff : Z) (tys : list ttype) (off : Z) (cur : sel3) : sel3 :=
  match tys with
  | [] => cur
  | t :: r =>
    sel_types kind pm bm k gh goff r (off + ty_size t)
      (if ty_matches kind pm bm t
       then (Some (gh, goff), Some (thdr t, off), 8 * Z.of_nat (ins_pos k (ty_toks t)))
       else cur)
  end.

Lemma upd_type_size kind pm bm k nv t : ty_size (upd_type kind pm bm k nv t) = ty_size t.
Proof.
  unfold upd_type. destruct (ty_matches kind pm bm t); [|reflexivity].
  unfold ty_size; cbn [ty_toks]. rewrite zlen_upd_toks. reflexivity.
Qed.

Lemma upd_type_thdr kind pm bm k nv t : thdr (upd_type kind pm bm k nv t) = thdr t.
Proof.
  unfold thdr. rewrite upd_type_size. unfold upd_type. destruct (ty_matches kind pm bm t); reflexivity.
Qed.

Lemma types_size_upd kind pm bm k nv l : types_size (map (upd_type kind pm bm k nv) l) = types_size l.
Proof.
  induction l as [|t l IH]; [reflexivity|]. cbn [map]. rewrite !types_size_cons, upd_type_size, IH. reflexivity.
Qed.

Lemma scan_types_enc kind pm bm k nv gh goff gb gl fuel : forall rest off A C buf mg mt tok ch,
  buf = A ++ enc_types rest ++ C ->
  zlen A = gb + off -> forallb wf_type rest = true -> gl - off = types_size rest ->
  0 <= off -> 0 <= gb -> (length rest < fuel)%nat ->
  scan_types fuel gb gl off kind pm bm k nv gh goff (mkS buf mg mt tok ch) =
    let '(mg', mt', tok') := sel_types kind pm bm k gh goff rest off (mg, mt, tok) in
    Ok (mkS (A ++ enc_types (map (upd_type kind pm bm k nv) rest) ++ C) mg' mt' tok'
            (ch || existsb (type_changes kind pm bm k) rest), 0).
Proof.
  induction fuel as [|f IH]; intros rest off A C buf mg mt tok ch Hb HA W Hgl Hoff Hgb F; [lia|].
  cbn [scan_types s_buf]. destruct rest as [|t r].
  - cbn [types_size map sum_list fold_right] in Hgl. if_true.
    cbn [sel_types map enc_types existsb]. rewrite orb_false_r. subst buf. reflexivity.
  - cbn [forallb] in W. apply andb_true_iff in W as [Wt Wr].
    pose proof (zlen_enc_type t Wt) as Lt. pose proof (zlen_thdr t Wt) as Lh. pose proof (ty_size_ge t) as G16.
    pose proof (types_size_nonneg r) as Gr. rewrite types_size_cons in Hgl.
    destruct (thdr_fields t Wt) as (_ & SZ & _).
    pose proof Wt as Wt'. apply wf_type_spec in Wt' as (_ & _ & _ & _ & WP & SZ16).
    cs. if_false. if_false.
    assert (Eh : sub (gb + off) 16 buf = thdr t).
    { subst buf. rewrite enc_types_cons, enc_type_thdr, <- !app_assoc. apply sub_at; auto. }
    rewrite Eh. cs. rewrite SZ. if_false. if_false.
    rewrite type_matches_thdr by auto.
    cbn [sel_types map existsb]. unfold type_changes at 1.
    assert (Enext : forall buf1 mg1 mt1 tok1 ch1,
      buf1 = A ++ enc_type (upd_type kind pm bm k nv t) ++ enc_types r ++ C ->
      scan_types f gb gl (off + ty_size t) kind pm bm k nv gh goff (mkS buf1 mg1 mt1 tok1 ch1) =
      let '(mg', mt', tok') := sel_types kind pm bm k gh goff r (off + ty_size t) (mg1, mt1, tok1) in
      Ok (mkS (A ++ enc_types (upd_type kind pm bm k nv t :: map (upd_type kind pm bm k nv) r) ++ C) mg' mt' tok'
              (ch1 || existsb (type_changes kind pm bm k) r), 0)).
    { intros buf1 mg1 mt1 tok1 ch1 ->.
      rewrite (IH r (off + ty_size t) (A ++ enc_type (upd_type kind pm bm k nv t)) C); auto.
      - destruct (sel_types kind pm bm k gh goff r (off + ty_size t) (mg1, mt1, tok1)) as [[a b] c].
        rewrite enc_types_cons, <- !app_assoc. reflexivity.
      - rewrite <- !app_assoc. reflexivity.
      - rewrite zlen_app. rewrite enc_type_thdr, zlen_app, upd_type_thdr, Lh, zlen_enc_toks.
        unfold upd_type. destruct (ty_matches kind pm bm t); cbn [ty_toks]; rewrite ?zlen_upd_toks; unfold ty_size; lia.
      - lia.
      - lia.
      - cbn [length] in F. lia. }
    destruct (ty_matches kind pm bm t) eqn:M; cbn [negb andb].
    + if_false.
      replace ((ty_size t - 16) mod 8 =? 0) with true
        by (unfold ty_size; replace (16 + 8 * zlen (ty_toks t) - 16) with (zlen (ty_toks t) * 8) by lia;
            rewrite Z.mod_mul by lia; reflexivity).
      cbn [negb].
      replace (Z.to_nat ((ty_size t - 16) / 8)) with (length (ty_toks t))
        by (unfold ty_size; replace (16 + 8 * zlen (ty_toks t) - 16) with (zlen (ty_toks t) * 8) by lia;
            rewrite Z.div_mul by lia; unfold zlen; lia).
      change 0 with (Z.of_nat 0) at 1.
      rewrite (scan_pairs_enc k nv (gb + off + 16) (ty_size t - 16) (ty_toks t) 0
                 (A ++ thdr t) (enc_types r ++ C) buf _ _ 0 ch 0); auto.
      * cbn [Z.eqb negb].
        rewrite Enext.
        -- fold (ins_pos k (ty_toks t)).
           destruct (sel_types kind pm bm k gh goff r (off + ty_size t)
                       (Some (gh, goff), Some (thdr t, off), 8 * Z.of_nat (ins_pos k (ty_toks t)))) as [[a b] c].
           rewrite orb_assoc. reflexivity.
        -- rewrite enc_type_thdr, upd_type_thdr. unfold upd_type. rewrite M. cbn [ty_toks].
           rewrite <- !app_assoc. reflexivity.
      * subst buf. rewrite enc_types_cons, enc_type_thdr, <- !app_assoc. reflexivity.
      * rewrite zlen_app. lia.
      * unfold ty_size. change (Z.of_nat 0) with 0. lia.
      * pw. lia.
      * lia.
    + cbn [Z.eqb negb]. rewrite Enext.
      * destruct (sel_types kind pm bm k gh goff r (off + ty_size t) (mg, mt, tok)) as [[a b] c]. reflexivity.
      * subst buf. unfold upd_type. rewrite M. rewrite enc_types_cons, <- !app_assoc. reflexivity.
Qed.

Definition sel_mt (c : sel3) : option (bytes * Z) := snd (fst c).

Fixpoint sel_groups (kind pm bm k : Z) (G : list group) (off : Z) (cur : sel3) : sel3 :=
  match G with
  | [] => cur
  | g :: r =>
    sel_groups kind pm bm k r (off + group_size g)
      (match g with
       | TokGroup sg vr ex tys =>
         sel_types kind pm bm k (ghdr g) off tys 0
           (match sel_mt cur with None => (Some (ghdr g, off), sel_mt cur, snd cur) | Some _ => cur end)
       | Foreign _ _ => cur
       end)
  end.

Lemma upd_group_size kind pm bm k nv g : group_size (upd_group kind pm bm k nv g) = group_size g.
Proof. destruct g; cbn [upd_group group_size]; rewrite ?types_size_upd; reflexivity. Qed.

Lemma upd_group_ghdr kind pm bm k nv g : ghdr (upd_group kind pm bm k nv g) = ghdr g.
Proof.
  destruct g as [sg vr ex tys|]; [|reflexivity].
  cbn [upd_group ghdr group_size]. rewrite types_size_upd. reflexivity.
Qed.

Lemma scan_groups_enc kind pm bm k nv size tf fuel : forall rest off A C buf mg mt tok ch,
  buf = A ++ enc_groups rest ++ C ->
  zlen A = 128 + off -> forallb wf_group rest = true -> size - 128 - off = groups_size rest ->
  0 <= off -> size < 2 ^ 32 -> (length rest < fuel)%nat ->
  (forall sg vr ex tys, In (TokGroup sg vr ex tys) rest -> (length tys < tf)%nat) ->
  scan_groups fuel tf size off kind pm bm k nv (mkS buf mg mt tok ch) =
    let '(mg', mt', tok') := sel_groups kind pm bm k rest off (mg, mt, tok) in
    Ok (mkS (A ++ enc_groups (map (upd_group kind pm bm k nv) rest) ++ C) mg' mt' tok'
            (ch || any_changes kind pm bm k rest), 0).
Proof.
  induction fuel as [|f IH]; intros rest off A C buf mg mt tok ch Hb HA W Hsz Hoff Hlt F TF; [lia|].
  cbn [scan_groups s_buf s_mt s_mg s_tok s_changed]. destruct rest as [|g r].
  - cbn [groups_size map sum_list fold_right] in Hsz. cs. if_true.
    cbn [sel_groups map enc_groups any_changes existsb]. rewrite orb_false_r. subst buf. reflexivity.
  - cbn [forallb] in W. apply andb_true_iff in W as [Wg Wr].
    pose proof (zlen_enc_group g Wg) as Lg. pose proof (zlen_ghdr g Wg) as Lh. pose proof (group_size_ge g) as G16.
    pose proof (groups_size_nonneg r) as Gr. rewrite groups_size_cons in Hsz.
    pose proof (ghdr_sizeof g Wg) as SZ.
    cs. if_false. if_false.
    assert (Eh : sub (128 + off) 16 buf = ghdr g).
    { subst buf. rewrite enc_groups_cons, enc_group_ghdr, <- !app_assoc. apply sub_at; auto. }
    rewrite Eh. cs. rewrite SZ. if_false. if_false.
    cbn [sel_groups map any_changes existsb].
    assert (Enext : forall buf1 mg1 mt1 tok1 ch1,
      buf1 = A ++ enc_group (upd_group kind pm bm k nv g) ++ enc_groups r ++ C ->
      scan_groups f tf size (off + group_size g) kind pm bm k nv (mkS buf1 mg1 mt1 tok1 ch1) =
      let '(mg', mt', tok') := sel_groups kind pm bm k r (off + group_size g) (mg1, mt1, tok1) in
      Ok (mkS (A ++ enc_groups (upd_group kind pm bm k nv g :: map (upd_group kind pm bm k nv) r) ++ C) mg' mt' tok'
              (ch1 || any_changes kind pm bm k r), 0)).
    { intros buf1 mg1 mt1 tok1 ch1 ->.
      rewrite (IH r (off + group_size g) (A ++ enc_group (upd_group kind pm bm k nv g)) C); auto.
      - destruct (sel_groups kind pm bm k r (off + group_size g) (mg1, mt1, tok1)) as [[a b] c].
        rewrite enc_groups_cons, <- !app_assoc. reflexivity.
      - rewrite <- !app_assoc. reflexivity.
      - rewrite zlen_app. rewrite enc_group_ghdr, zlen_app, upd_group_ghdr, Lh.
        rewrite enc_group_ghdr, zlen_app, Lh in Lg.
        destruct g as [sg vr ex tys|pre body]; cbn [upd_group gtail] in *; [|lia].
        rewrite !zlen_app in *.
        apply wf_tokgroup_spec in Wg as (_ & _ & _ & _ & _ & _ & WT & _).
        rewrite zlen_enc_types in Lg by auto.
        assert (WT' : forallb wf_type (map (upd_type kind pm bm k nv) tys) = true -> 
                      zlen (enc_types (map (upd_type kind pm bm k nv) tys)) = types_size tys).
        { intros X. rewrite zlen_enc_types by auto. apply types_size_upd. }
        (* sizes only: no need for full wf of the updated types *)
        assert (ZL : zlen (enc_types (map (upd_type kind pm bm k nv) tys)) = types_size tys).
        { clear - WT. induction tys as [|t l IHl]; [reflexivity|].
          cbn [forallb] in WT. apply andb_true_iff in WT as [Wt Wl].
          cbn [map]. rewrite enc_types_cons, zlen_app, types_size_cons, IHl by auto.
          rewrite enc_type_thdr, zlen_app, upd_type_thdr, zlen_thdr, zlen_enc_toks by auto.
          unfold upd_type. destruct (ty_matches kind pm bm t); cbn [ty_toks]; rewrite ?zlen_upd_toks; unfold ty_size; lia. }
        lia.
      - lia.
      - lia.
      - cbn [length] in F. lia.
      - intros. eapply TF. right. eauto. }
    destruct g as [sg vr ex tys|pre body].
    + destruct (ghdr_tok_fields sg vr ex tys Wg) as (ID & HSZ). cs. rewrite ID, HSZ. cbn [Z.eqb Pos.eqb].
      pose proof Wg as Wg'. apply wf_tokgroup_spec in Wg' as (L1 & L2 & _ & _ & _ & SH & WT & _).
      pose proof (zlen_nonneg ex) as Hex. pose proof (types_size_nonneg tys) as Hty.
      cbn [group_size] in *.
      replace ((16 + zlen ex <? 16) || (16 + zlen ex >? 16 + zlen ex + types_size tys)) with false by lia.
      unfold u32. rewrite !Z.mod_small by (pw; lia).
      if_false.
      set (st0 := match mt with
                  | Some _ => mkS buf mg mt tok ch
                  | None => mkS buf (Some (ghdr (TokGroup sg vr ex tys), off)) mt tok ch
                  end).
      unfold sel_mt. cbn [fst snd].
      match goal with |- context [sel_types _ _ _ _ _ _ _ 0 ?X] => remember X as cur0 eqn:Ecur0 end.
      assert (Est : st0 = mkS buf (fst (fst cur0)) (snd (fst cur0)) (snd cur0) ch).
      { subst cur0. unfold st0. destruct mt; reflexivity. }
      clear Ecur0.
      rewrite Est.
      rewrite (scan_types_enc kind pm bm k nv (ghdr (TokGroup sg vr ex tys)) off
                 (128 + (off + (16 + zlen ex))) (off + (16 + zlen ex + types_size tys) - (off + (16 + zlen ex)))
                 tf tys 0 (A ++ ghdr (TokGroup sg vr ex tys) ++ ex) (enc_groups r ++ C)); auto.
      * destruct cur0 as [[c1 c2] c3]. cbn [fst snd].
        destruct (sel_types kind pm bm k (ghdr (TokGroup sg vr ex tys)) off tys 0 (c1, c2, c3)) as [[a b] c] eqn:ES.
        cbn [Z.eqb negb]. rewrite Enext.
        -- destruct (sel_groups kind pm bm k r (off + (16 + zlen ex + types_size tys)) (a, b, c)) as [[a' b'] c'].
           cbn [group_changes]. rewrite orb_assoc. reflexivity.
        -- rewrite enc_group_ghdr, upd_group_ghdr. cbn [upd_group gtail]. rewrite <- !app_assoc. reflexivity.
      * subst buf. rewrite enc_groups_cons, enc_group_ghdr. cbn [gtail]. rewrite <- !app_assoc. reflexivity.
      * rewrite !zlen_app. lia.
      * lia.
      * lia.
      * lia.
      * eapply TF. left. reflexivity.
    + pose proof (ghdr_foreign_id pre body Wg) as ID. cs.
      replace (rd 4 2 (ghdr (Foreign pre body)) =? 12288) with false by lia.
      cbn [Z.eqb negb group_changes orb]. rewrite Enext.
      * destruct (sel_groups kind pm bm k r (off + group_size (Foreign pre body)) (mg, mt, tok)) as [[a b] c]. reflexivity.
      * subst buf. cbn [upd_group]. rewrite enc_groups_cons, <- !app_assoc. reflexivity.
Qed.

(* ---- where the scan ends up: the last matching type / the last token group ---- *)

Section Selection.
Variables kind pm bm k nv : Z.

Definition has_match (tys : list ttype) : bool := existsb (ty_matches kind pm bm) tys.
Definition gmatch (g : group) : bool :=
  match g with TokGroup _ _ _ tys => has_match tys | Foreign _ _ => false end.
Definition is_tok (g : group) : bool := match g with TokGroup _ _ _ _ => true | Foreign _ _ => false end.

Lemma sel_types_nomatch gh goff tys off cur : has_match tys = false ->
  sel_types kind pm bm k gh goff tys off cur = cur.
Proof.
  revert off cur; induction tys as [|t r IH]; intros off cur H; [reflexivity|].
  cbn [has_match existsb] in H. apply orb_false_iff in H as [H1 H2].
  cbn [sel_types]. rewrite H1. apply IH. exact H2.
Qed.

Lemma sel_types_last gh goff T1 t T2 off cur :
  ty_matches kind pm bm t = true -> has_match T2 = false ->
  sel_types kind pm bm k gh goff (T1 ++ t :: T2) off cur =
    (Some (gh, goff), Some (thdr t, off + types_size T1), 8 * Z.of_nat (ins_pos k (ty_toks t))).
Proof.
  intros M N. revert off cur; induction T1 as [|x T1 IH]; intros off cur.
  - cbn [app sel_types]. rewrite M. rewrite sel_types_nomatch by auto.
    cbn [types_size map sum_list fold_right]. rewrite Z.add_0_r. reflexivity.
  - cbn [app sel_types]. rewrite IH. rewrite types_size_cons.
    replace (off + ty_size x + types_size T1) with (off + (ty_size x + types_size T1)) by lia. reflexivity.
Qed.

Lemma has_match_split tys : has_match tys = true ->
  exists T1 t T2, tys = T1 ++ t :: T2 /\ ty_matches kind pm bm t = true /\ has_match T2 = false.
Proof.
  induction tys as [|x r IH]; intros H; [discriminate|].
  destruct (has_match r) eqn:R.
  - destruct (IH eq_refl) as (T1 & t & T2 & -> & M & N). exists (x :: T1), t, T2. auto.
  - cbn [has_match existsb] in H. unfold has_match in R. rewrite R, orb_false_r in H.
    exists [], x, r. auto.
Qed.

Lemma gmatch_split G : existsb gmatch G = true ->
  exists G1 sg vr ex T1 t T2 G2, G = G1 ++ TokGroup sg vr ex (T1 ++ t :: T2) :: G2 /\
    ty_matches kind pm bm t = true /\ has_match T2 = false /\ existsb gmatch G2 = false.
Proof.
  induction G as [|g r IH]; intros H; [discriminate|].
  destruct (existsb gmatch r) eqn:R.
  - destruct (IH eq_refl) as (G1 & sg & vr & ex & T1 & t & T2 & G2 & -> & M & N & N2).
    exists (g :: G1), sg, vr, ex, T1, t, T2, G2. auto.
  - cbn [existsb] in H. rewrite R, orb_false_r in H.
    destruct g as [sg vr ex tys|]; [|discriminate]. cbn [gmatch] in H.
    destruct (has_match_split tys H) as (T1 & t & T2 & -> & M & N).
    exists [], sg, vr, ex, T1, t, T2, r. auto.
Qed.

Lemma sel_groups_after G off cur : existsb gmatch G = false -> sel_mt cur <> None ->
  sel_groups kind pm bm k G off cur = cur.
Proof.
  revert off cur; induction G as [|g r IH]; intros off cur H Hm; [reflexivity|].
  cbn [existsb] in H. apply orb_false_iff in H as [H1 H2].
  cbn [sel_groups]. destruct g as [sg vr ex tys|].
  - cbn [gmatch] in H1. destruct (sel_mt cur) eqn:E; [|congruence].
    rewrite sel_types_nomatch by auto. apply IH; auto. congruence.
  - apply IH; auto.
Qed.

Lemma sel_groups_last G1 sg vr ex T1 t T2 G2 off cur :
  ty_matches kind pm bm t = true -> has_match T2 = false -> existsb gmatch G2 = false ->
  sel_groups kind pm bm k (G1 ++ TokGroup sg vr ex (T1 ++ t :: T2) :: G2) off cur =
    (Some (ghdr (TokGroup sg vr ex (T1 ++ t :: T2)), off + groups_size G1),
     Some (thdr t, types_size T1), 8 * Z.of_nat (ins_pos k (ty_toks t))).
Proof.
  intros M N N2. revert off cur; induction G1 as [|x G1 IH]; intros off cur.
  - cbn [app sel_groups]. rewrite sel_types_last by auto.
    rewrite sel_groups_after; auto.
    + cbn [groups_size map sum_list fold_right]. rewrite Z.add_0_r, Z.add_0_l. reflexivity.
    + cbn. discriminate.
  - cbn [app sel_groups]. rewrite IH. rewrite groups_size_cons.
    replace (off + group_size x + groups_size G1) with (off + (group_size x + groups_size G1)) by lia. reflexivity.
Qed.

(* no type matches: the last token group, if any *)
Definition last_tok (G : list group) (mg : option (bytes * Z)) (off : Z) : option (bytes * Z) :=
  fst (fold_left (fun (a : option (bytes * Z) * Z) g =>
                  (if is_tok g then Some (ghdr g, snd a) else fst a, snd a + group_size g)) G (mg, off)).

Lemma sel_groups_nomatch G off mg tok : existsb gmatch G = false ->
  sel_groups kind pm bm k G off (mg, None, tok) = (last_tok G mg off, None, tok).
Proof.
  unfold last_tok.
  revert off mg; induction G as [|g r IH]; intros off mg H; [reflexivity|].
  cbn [existsb] in H. apply orb_false_iff in H as [H1 H2].
  cbn [sel_groups fold_left fst snd]. destruct g as [sg vr ex tys|].
  - cbn [gmatch] in H1. cbn [sel_mt fst snd is_tok]. rewrite sel_types_nomatch by auto. apply IH; auto.
  - cbn [is_tok]. apply IH; auto.
Qed.

Lemma last_tok_none G off mg : forallb (fun g => negb (is_tok g)) G = true -> last_tok G mg off = mg.
Proof.
  unfold last_tok.
  revert off mg; induction G as [|g r IH]; intros off mg H; [reflexivity|].
  cbn [forallb] in H. apply andb_true_iff in H as [H1 H2].
  cbn [fold_left fst snd]. destruct (is_tok g); [discriminate|]. apply IH; auto.
Qed.

Lemma last_tok_some G1 g G2 off mg : is_tok g = true -> forallb (fun g => negb (is_tok g)) G2 = true ->
  last_tok (G1 ++ g :: G2) mg off = Some (ghdr g, off + groups_size G1).
Proof.
  intros T F. pose proof last_tok_none as LN. unfold last_tok in *.
  revert off mg; induction G1 as [|x G1 IH]; intros off mg.
  - cbn [app fold_left fst snd]. rewrite T. rewrite LN by auto.
    cbn [groups_size map sum_list fold_right]. rewrite Z.add_0_r. reflexivity.
  - cbn [app fold_left fst snd]. rewrite IH. rewrite groups_size_cons.
    replace (off + group_size x + groups_size G1) with (off + (group_size x + groups_size G1)) by lia. reflexivity.
Qed.

Lemma tok_split G : existsb is_tok G = true ->
  exists G1 g G2, G = G1 ++ g :: G2 /\ is_tok g = true /\ forallb (fun g => negb (is_tok g)) G2 = true.
Proof.
  induction G as [|x r IH]; intros H; [discriminate|].
  destruct (existsb is_tok r) eqn:R.
  - destruct (IH eq_refl) as (G1 & g & G2 & -> & T & F). exists (x :: G1), g, G2. auto.
  - cbn [existsb] in H. rewrite R, orb_false_r in H. exists [], x, r. repeat split; auto.
    clear - R. induction r as [|y r IH]; [reflexivity|]. cbn [existsb] in R.
    apply orb_false_iff in R as [R1 R2]. cbn [forallb]. rewrite R1, IH by auto. reflexivity.
Qed.

Lemma no_tok_forallb G : existsb is_tok G = false -> forallb (fun g => negb (is_tok g)) G = true.
Proof.
  induction G as [|y r IH]; [reflexivity|]. cbn [existsb forallb]. intros R.
  apply orb_false_iff in R as [R1 R2]. rewrite R1, IH by auto. reflexivity.
Qed.

(* ---- the same positions, on the specification ---- *)

Lemma ins_last_type_none tys : has_match tys = false -> ins_last_type kind pm bm k nv tys = None.
Proof.
  induction tys as [|t r IH]; intros H; [reflexivity|].
  cbn [has_match existsb] in H. apply orb_false_iff in H as [H1 H2].
  cbn [ins_last_type]. unfold has_match in IH. rewrite IH, H1 by auto. reflexivity.
Qed.

Lemma ins_last_type_split T1 t T2 : ty_matches kind pm bm t = true -> has_match T2 = false ->
  ins_last_type kind pm bm k nv (T1 ++ t :: T2) = Some (T1 ++ ins_tok k nv t :: T2).
Proof.
  intros M N. induction T1 as [|x T1 IH].
  - cbn [app ins_last_type]. rewrite ins_last_type_none, M by auto. reflexivity.
  - cbn [app ins_last_type]. rewrite IH. reflexivity.
Qed.

Lemma ins_last_group_none G : existsb gmatch G = false -> ins_last_group kind pm bm k nv G = None.
Proof.
  induction G as [|g r IH]; intros H; [reflexivity|].
  cbn [existsb] in H. apply orb_false_iff in H as [H1 H2].
  cbn [ins_last_group]. rewrite IH by auto. destruct g as [sg vr ex tys|]; [|reflexivity].
  cbn [gmatch] in H1. rewrite ins_last_type_none by auto. reflexivity.
Qed.

Lemma ins_last_group_split G1 sg vr ex T1 t T2 G2 :
  ty_matches kind pm bm t = true -> has_match T2 = false -> existsb gmatch G2 = false ->
  ins_last_group kind pm bm k nv (G1 ++ TokGroup sg vr ex (T1 ++ t :: T2) :: G2) =
    Some (G1 ++ TokGroup sg vr ex (T1 ++ ins_tok k nv t :: T2) :: G2).
Proof.
  intros M N N2. induction G1 as [|x G1 IH].
  - cbn [app ins_last_group]. rewrite ins_last_group_none by auto.
    rewrite ins_last_type_split by auto. reflexivity.
  - cbn [app ins_last_group]. rewrite IH. reflexivity.
Qed.

Lemma last_match_full_none tys : has_match tys = false -> last_match_full kind pm bm tys = None.
Proof.
  induction tys as [|t r IH]; intros H; [reflexivity|].
  cbn [has_match existsb] in H. apply orb_false_iff in H as [H1 H2].
  cbn [last_match_full]. unfold has_match in IH. rewrite IH, H1 by auto. reflexivity.
Qed.

Lemma last_match_full_split T1 t T2 : ty_matches kind pm bm t = true -> has_match T2 = false ->
  last_match_full kind pm bm (T1 ++ t :: T2) = Some (ty_size t + 8 >? 65535).
Proof.
  intros M N. induction T1 as [|x T1 IH].
  - cbn [app last_match_full]. rewrite last_match_full_none, M by auto. reflexivity.
  - cbn [app last_match_full]. rewrite IH. reflexivity.
Qed.

Lemma last_group_match_full_none G : existsb gmatch G = false -> last_group_match_full kind pm bm G = None.
Proof.
  induction G as [|g r IH]; intros H; [reflexivity|].
  cbn [existsb] in H. apply orb_false_iff in H as [H1 H2].
  cbn [last_group_match_full]. rewrite IH by auto. destruct g as [sg vr ex tys|]; [|reflexivity].
  cbn [gmatch] in H1. apply last_match_full_none; auto.
Qed.

Lemma last_group_match_full_split G1 sg vr ex T1 t T2 G2 :
  ty_matches kind pm bm t = true -> has_match T2 = false -> existsb gmatch G2 = false ->
  last_group_match_full kind pm bm (G1 ++ TokGroup sg vr ex (T1 ++ t :: T2) :: G2) =
    Some (ty_size t + 8 >? 65535).
Proof.
  intros M N N2. induction G1 as [|x G1 IH].
  - cbn [app last_group_match_full]. rewrite last_group_match_full_none by auto.
    apply last_match_full_split; auto.
  - cbn [app last_group_match_full]. rewrite IH. reflexivity.
Qed.

Lemma add_type_last_none nt G : forallb (fun g => negb (is_tok g)) G = true -> add_type_last nt G = None.
Proof.
  induction G as [|g r IH]; intros H; [reflexivity|].
  cbn [forallb] in H. apply andb_true_iff in H as [H1 H2].
  cbn [add_type_last]. rewrite IH by auto. destruct g; [discriminate|reflexivity].
Qed.

Lemma add_type_last_split nt G1 sg vr ex tys G2 : forallb (fun g => negb (is_tok g)) G2 = true ->
  add_type_last nt (G1 ++ TokGroup sg vr ex tys :: G2) = Some (G1 ++ TokGroup sg vr ex (tys ++ [nt]) :: G2).
Proof.
  intros F. induction G1 as [|x G1 IH].
  - cbn [app add_type_last]. rewrite add_type_last_none by auto. reflexivity.
  - cbn [app add_type_last]. rewrite IH. reflexivity.
Qed.

End Selection.

(* ---- the insertion: shifting the tail and writing the new bytes ---- *)

Lemma zlen_concat_cons (d : bytes) r : zlen (concat (d :: r)) = zlen d + zlen (concat r).
Proof. cbn [concat]. apply zlen_app. Qed.

Lemma write_chunks_at chunks : forall A X R avail,
  zlen X = zlen (concat chunks) -> zlen (concat chunks) <= avail ->
  write_chunks (zlen A) avail chunks (A ++ X ++ R) = (A ++ concat chunks ++ R, 0).
Proof.
  induction chunks as [|d r IH]; intros A X R avail HX Hav.
  - cbn [write_chunks concat app]. change (zlen (concat [])) with 0 in HX.
    assert (X = []) by (destruct X; [reflexivity|rewrite zlen_cons in HX; pose proof (zlen_nonneg X); lia]).
    subst X. reflexivity.
  - rewrite zlen_concat_cons in *. pose proof (zlen_nonneg d). pose proof (zlen_nonneg (concat r)).
    cbn [write_chunks]. unfold write_fixed. if_true.
    rewrite <- (zfirstn_zskipn (zlen d) X). rewrite <- app_assoc.
    rewrite (splice_at A (zfirstn (zlen d) X) _ d (zlen A)) by (auto; rewrite zlen_zfirstn; lia).
    cbn [Z.eqb negb].
    replace (A ++ d ++ zskipn (zlen d) X ++ R) with ((A ++ d) ++ zskipn (zlen d) X ++ R)
      by (rewrite <- app_assoc; reflexivity).
    replace (zlen A + zlen d) with (zlen (A ++ d)) by apply zlen_app.
    rewrite IH.
    + cbn [concat]. rewrite <- !app_assoc. reflexivity.
    + rewrite zlen_zskipn; lia.
    + lia.
Qed.

(* copy(buf[ins+n:], buf[ins:size]) followed by writing n new bytes at ins *)
Lemma shift_tail (A Cc S : bytes) n : 0 <= n <= zlen S ->
  splice (zlen A + n) Cc (A ++ Cc ++ S) = A ++ zfirstn n (Cc ++ S) ++ Cc ++ zskipn n S.
Proof.
  intros Hn. pose proof (zlen_nonneg A). pose proof (zlen_nonneg Cc).
  unfold splice. rewrite (app_assoc A (zfirstn n (Cc ++ S))). f_equal.
  - unfold zfirstn. rewrite Z2Nat.inj_add by lia. rewrite firstn_app.
    replace (Z.to_nat (zlen A) + Z.to_nat n - length A)%nat with (Z.to_nat n) by (unfold zlen; lia).
    rewrite firstn_all2 by (unfold zlen; lia). reflexivity.
  - f_equal. rewrite app_assoc.
    replace (zlen A + n + zlen Cc) with (n + zlen (A ++ Cc)) by (rewrite zlen_app; lia).
    rewrite <- zskipn_zskipn by (try apply zlen_nonneg; lia).
    rewrite zskipn_app_exact. reflexivity.
Qed.

Lemma any_changes_false_id kind pm bm k nv G : any_changes kind pm bm k G = false ->
  map (upd_group kind pm bm k nv) G = G.
Proof.
  induction G as [|g r IH]; intros H; [reflexivity|].
  cbn [any_changes existsb] in H. apply orb_false_iff in H as [H1 H2].
  cbn [map]. rewrite IH by auto. f_equal.
  destruct g as [sg vr ex tys|]; [|reflexivity]. cbn [upd_group group_changes] in *. f_equal.
  induction tys as [|t l IHl]; [reflexivity|].
  cbn [existsb] in H1. apply orb_false_iff in H1 as [Ht Hl].
  cbn [map]. rewrite IHl by auto. f_equal.
  unfold upd_type. unfold type_changes in Ht. destruct (ty_matches kind pm bm t); [|reflexivity].
  cbn [andb] in Ht. destruct t as [h1 h2 toks]. cbn [ty_toks ty_h1 ty_h2] in *. f_equal.
  induction toks as [|p q IHq]; [reflexivity|].
  cbn [has_tok existsb] in Ht. apply orb_false_iff in Ht as [Hp Hq].
  cbn [upd_toks map]. rewrite Hp. f_equal. apply IHq. exact Hq.
Qed.

Lemma ins_pos_from_le k l : forall i acc, (acc <= i)%nat -> (ins_pos_from k l i acc <= i + length l)%nat.
Proof.
  induction l as [|p r IH]; intros i acc H; cbn [ins_pos_from length]; [lia|].
  destruct (fst p <=? k).
  - specialize (IH (S i) (S i) ltac:(lia)). lia.
  - specialize (IH (S i) acc ltac:(lia)). lia.
Qed.

Lemma ins_pos_le k l : (ins_pos k l <= length l)%nat.
Proof. unfold ins_pos. pose proof (ins_pos_from_le k l 0 0 ltac:(lia)). lia. Qed.

Definition args_ok (k pm bm kind nv : Z) : Prop :=
  kind_ok kind = true /\ 0 <= k < 2 ^ 32 /\ 0 <= nv < 2 ^ 32 /\ 0 <= pm < 256 /\ 0 <= bm < 2 ^ 16.

Ltac mod_small := unfold u32, u16;
  repeat match goal with
  | |- context [?x mod 2 ^ 32] => rewrite (Z.mod_small x (2 ^ 32)) by (pw; lia)
  | |- context [?x mod 2 ^ 16] => rewrite (Z.mod_small x (2 ^ 16)) by (pw; lia)
  end.

(* case 1: a matching type exists *)
Lemma insert_case1 k pm bm kind nv size (BH P1 GH P2 TH TA Cc S : bytes) goff toff tok ch :
  zlen BH = 128 -> zlen GH = 16 -> zlen TH = 16 ->
  goff = zlen P1 -> toff + grp_hsize GH = 16 + zlen P2 -> 0 <= toff -> 0 <= grp_hsize GH ->
  tok = zlen TA ->
  size = 128 + zlen P1 + 16 + zlen P2 + 16 + zlen TA + zlen Cc ->
  size + zlen S + 40 < 2 ^ 32 ->
  0 <= typ_sizeof TH < 2 ^ 16 -> 0 <= grp_sizeof GH -> grp_sizeof GH <= size -> 0 <= k < 2 ^ 32 -> 0 <= nv < 2 ^ 32 ->
  let buf := BH ++ P1 ++ GH ++ P2 ++ TH ++ TA ++ Cc ++ S in
  upsert_insert k pm bm kind nv size BH (mkS buf (Some (GH, goff)) (Some (TH, toff)) tok ch) =
    if typ_sizeof TH + 8 >? 65535 then Ok (buf, E_TYPE_FULL)
    else if 8 >? zlen S then Ok (buf, E_NOROOM)
    else Ok (splice 8 (le_enc 4 (size + 8)) BH ++ P1 ++ splice 12 (le_enc 4 (grp_sizeof GH + 8)) GH ++ P2 ++
             splice 4 (le_enc 2 (typ_sizeof TH + 8)) TH ++ TA ++ enc_pair (k, nv) ++ Cc ++ zskipn 8 S, 0).
Proof.
  intros LBH LGH LTH Hgoff Htoff Htoff0 Hhs Htok Hsize Hbig Hts Hgs Hgs2 Hk Hnv buf.
  pose proof (zlen_nonneg P1). pose proof (zlen_nonneg P2). pose proof (zlen_nonneg TA).
  pose proof (zlen_nonneg Cc). pose proof (zlen_nonneg S).
  assert (Lbuf : zlen buf = size + zlen S).
  { unfold buf. rewrite !zlen_app. lia. }
  unfold upsert_insert. cbn [s_buf s_mg s_mt s_tok s_changed]. cs.
  set (tsz := rd 4 2 TH) in *. set (hsz := rd 6 2 GH) in *. set (gsz := rd 12 4 GH) in *.
  mod_small.
  destruct (tsz + 8 >? 65535) eqn:Efull; [reflexivity|].
  fold buf. rewrite Lbuf. mod_small.
  destruct (8 >? zlen S) eqn:Eroom.
  { if_true. reflexivity. }
  if_false.
  set (ins := goff + 128 + (toff + hsz) + 16 + tok).
  assert (Eins : ins = zlen (BH ++ P1 ++ GH ++ P2 ++ TH ++ TA)).
  { unfold ins. rewrite !zlen_app. lia. }
  rewrite !slice_ok by lia.
  set (A := BH ++ P1 ++ GH ++ P2 ++ TH ++ TA) in *.
  assert (Ebuf : buf = A ++ Cc ++ S).
  { unfold buf, A. rewrite <- !app_assoc. reflexivity. }
  assert (Esrc : sub ins (size - ins) buf = Cc).
  { rewrite Ebuf. apply sub_at; lia. }
  rewrite Esrc.
  rewrite zlen_sub by lia.
  replace (Z.min (size + zlen S - (ins + 8)) (zlen Cc)) with (zlen Cc) by lia.
  rewrite zfirstn_all by lia.
  assert (Esp : splice (ins + 8) Cc buf = A ++ zfirstn 8 (Cc ++ S) ++ Cc ++ zskipn 8 S).
  { rewrite Ebuf, Eins. apply shift_tail. lia. }
  rewrite Esp.
  assert (Lx : zlen (zfirstn 8 (Cc ++ S)) = 8) by (apply zlen_zfirstn; rewrite zlen_app; lia).
  assert (Lb1 : zlen (A ++ zfirstn 8 (Cc ++ S) ++ Cc ++ zskipn 8 S) = size + zlen S).
  { rewrite !zlen_app, Lx, zlen_zskipn by lia. lia. }
  rewrite Lb1. if_false.
  rewrite Eins.
  rewrite (write_chunks_at [enc_pair (k, nv)] A (zfirstn 8 (Cc ++ S)) (Cc ++ zskipn 8 S)).
  2:{ cbn [concat]. rewrite app_nil_r, zlen_enc_pair. exact Lx. }
  2:{ cbn [concat]. rewrite app_nil_r, zlen_enc_pair. lia. }
  cbn [Z.eqb negb concat]. rewrite app_nil_r.
  set (R1 := enc_pair (k, nv) ++ Cc ++ zskipn 8 S).
  assert (LR1 : zlen R1 = 8 + zlen Cc + zlen S - 8).
  { unfold R1. rewrite !zlen_app, zlen_enc_pair, zlen_zskipn by lia. lia. }
  (* type header *)
  assert (LA : zlen A = ins) by lia.
  if_false_by (rewrite zlen_app; lia).
  set (TH' := splice 4 (le_enc 2 (tsz + 8)) TH).
  assert (LTH' : zlen TH' = 16) by (unfold TH'; rewrite zlen_splice; rewrite ?le2; lia).
  unfold write_fixed at 1. rewrite LTH'. if_true_by (rewrite zlen_app; lia).
  replace (splice (goff + 128 + (toff + hsz)) TH' (A ++ R1))
    with (BH ++ P1 ++ GH ++ P2 ++ TH' ++ TA ++ R1).
  2:{ unfold A. rewrite <- !app_assoc.
      rewrite !(app_assoc BH), !(app_assoc (BH ++ P1)), !(app_assoc ((BH ++ P1) ++ GH)).
      symmetry. apply splice_at; [rewrite !zlen_app; lia|lia]. }
  cbn [Z.eqb negb].
  (* group header *)
  assert (Lb3 : zlen (BH ++ P1 ++ GH ++ P2 ++ TH' ++ TA ++ R1) = size + zlen S).
  { rewrite !zlen_app. lia. }
  rewrite Lb3. if_false.
  set (GH' := splice 12 (le_enc 4 (gsz + 8)) GH).
  assert (LGH' : zlen GH' = 16) by (unfold GH'; rewrite zlen_splice; rewrite ?le4; lia).
  unfold write_fixed at 1. rewrite LGH'. if_true.
  replace (splice (goff + 128) GH' (BH ++ P1 ++ GH ++ P2 ++ TH' ++ TA ++ R1))
    with (BH ++ P1 ++ GH' ++ P2 ++ TH' ++ TA ++ R1).
  2:{ rewrite !(app_assoc BH). symmetry. apply splice_at; [rewrite !zlen_app; lia|lia]. }
  cbn [Z.eqb negb].
  (* APCB header *)
  set (BH' := splice 8 (le_enc 4 (size + 8)) BH).
  assert (LBH' : zlen BH' = 128) by (unfold BH'; rewrite zlen_splice; rewrite ?le4; lia).
  unfold write_fixed. rewrite LBH'. if_true_by (rewrite !zlen_app; lia).
  f_equal. f_equal.
  change (BH ++ P1 ++ GH' ++ P2 ++ TH' ++ TA ++ R1) with ([] ++ BH ++ (P1 ++ GH' ++ P2 ++ TH' ++ TA ++ R1)).
  rewrite (splice_at [] BH _ BH' 0) by (auto; lia). reflexivity.
Qed.

Lemma zlen_new_type_header kind pm bm : zlen (new_type_header kind pm bm) = 16.
Proof. unfold new_type_header. rewrite !zlen_app, !le1, !le2. reflexivity. Qed.

Lemma zlen_new_group_header : zlen new_group_header = 16.
Proof. unfold new_group_header. rewrite !zlen_app, !le2, !le4. reflexivity. Qed.

Lemma new_type_size_24 : new_type_size = 24. Proof. reflexivity. Qed.
Lemma new_group_size_40 : new_group_size = 40. Proof. reflexivity. Qed.

(* case 2: a token group exists, no matching type: new type at the end of the last token group *)
Lemma insert_case2 k pm bm kind nv size (BH P1 GH P2 Cc S : bytes) goff tok ch :
  zlen BH = 128 -> zlen GH = 16 ->
  goff = zlen P1 -> grp_sizeof GH = 16 + zlen P2 -> 0 <= grp_hsize GH < 2 ^ 16 ->
  size = 128 + zlen P1 + 16 + zlen P2 + zlen Cc ->
  size + zlen S + 40 < 2 ^ 32 ->
  let buf := BH ++ P1 ++ GH ++ P2 ++ Cc ++ S in
  upsert_insert k pm bm kind nv size BH (mkS buf (Some (GH, goff)) None tok ch) =
    if 24 >? zlen S then Ok (buf, E_NOROOM)
    else Ok (splice 8 (le_enc 4 (size + 24)) BH ++ P1 ++ splice 12 (le_enc 4 (grp_sizeof GH + 24)) GH ++ P2 ++
             new_type_header kind pm bm ++ enc_pair (k, nv) ++ Cc ++ zskipn 24 S, 0).
Proof.
  intros LBH LGH Hgoff Hgsz Hhs Hsize Hbig buf.
  pose proof (zlen_nonneg P1). pose proof (zlen_nonneg P2).
  pose proof (zlen_nonneg Cc). pose proof (zlen_nonneg S).
  assert (Lbuf : zlen buf = size + zlen S).
  { unfold buf. rewrite !zlen_app. lia. }
  unfold upsert_insert. cbn [s_buf s_mg s_mt s_tok s_changed]. rewrite new_type_size_24. cs.
  set (hsz := rd 6 2 GH) in *. set (gsz := rd 12 4 GH) in *.
  fold buf. rewrite Lbuf. mod_small.
  destruct (24 >? zlen S) eqn:Eroom.
  { if_true. reflexivity. }
  if_false.
  set (ins := goff + 128 + gsz).
  set (A := BH ++ P1 ++ GH ++ P2).
  assert (Eins : ins = zlen A).
  { unfold ins, A. rewrite !zlen_app. lia. }
  rewrite !slice_ok by lia.
  assert (Ebuf : buf = A ++ Cc ++ S).
  { unfold buf, A. rewrite <- !app_assoc. reflexivity. }
  assert (Esrc : sub ins (size - ins) buf = Cc).
  { rewrite Ebuf. apply sub_at; lia. }
  rewrite Esrc.
  rewrite zlen_sub by lia.
  replace (Z.min (size + zlen S - (ins + 24)) (zlen Cc)) with (zlen Cc) by lia.
  rewrite zfirstn_all by lia.
  assert (Esp : splice (ins + 24) Cc buf = A ++ zfirstn 24 (Cc ++ S) ++ Cc ++ zskipn 24 S).
  { rewrite Ebuf, Eins. apply shift_tail. lia. }
  rewrite Esp.
  assert (Lx : zlen (zfirstn 24 (Cc ++ S)) = 24) by (apply zlen_zfirstn; rewrite zlen_app; lia).
  assert (Lb1 : zlen (A ++ zfirstn 24 (Cc ++ S) ++ Cc ++ zskipn 24 S) = size + zlen S).
  { rewrite !zlen_app, Lx, zlen_zskipn by lia. lia. }
  rewrite Lb1. if_false.
  rewrite Eins.
  rewrite (write_chunks_at [new_type_header kind pm bm; enc_pair (k, nv)] A (zfirstn 24 (Cc ++ S)) (Cc ++ zskipn 24 S)).
  2:{ cbn [concat]. rewrite app_nil_r, zlen_app, zlen_enc_pair, zlen_new_type_header. exact Lx. }
  2:{ cbn [concat]. rewrite app_nil_r, zlen_app, zlen_enc_pair, zlen_new_type_header. lia. }
  cbn [Z.eqb negb concat]. rewrite app_nil_r.
  set (R1 := (new_type_header kind pm bm ++ enc_pair (k, nv)) ++ Cc ++ zskipn 24 S).
  assert (LR1 : zlen R1 = zlen Cc + zlen S).
  { unfold R1. rewrite !zlen_app, zlen_enc_pair, zlen_new_type_header, zlen_zskipn by lia. lia. }
  assert (Lb3 : zlen (A ++ R1) = size + zlen S).
  { rewrite zlen_app. lia. }
  rewrite Lb3. if_false.
  set (GH' := splice 12 (le_enc 4 (gsz + 24)) GH).
  assert (LGH' : zlen GH' = 16) by (unfold GH'; rewrite zlen_splice; rewrite ?le4; lia).
  unfold write_fixed at 1. rewrite LGH'. if_true.
  replace (splice (goff + 128) GH' (A ++ R1)) with (BH ++ P1 ++ GH' ++ P2 ++ R1).
  2:{ unfold A. rewrite <- !app_assoc. rewrite !(app_assoc BH). symmetry.
      apply splice_at; [rewrite !zlen_app; lia|lia]. }
  cbn [Z.eqb negb].
  set (BH' := splice 8 (le_enc 4 (size + 24)) BH).
  assert (LBH' : zlen BH' = 128) by (unfold BH'; rewrite zlen_splice; rewrite ?le4; lia).
  unfold write_fixed. rewrite LBH'. if_true_by (rewrite !zlen_app; lia).
  f_equal. f_equal.
  change (BH ++ P1 ++ GH' ++ P2 ++ R1) with ([] ++ BH ++ (P1 ++ GH' ++ P2 ++ R1)).
  rewrite (splice_at [] BH _ BH' 0) by (auto; lia). unfold R1. rewrite <- !app_assoc. reflexivity.
Qed.

(* case 3: no token group: new group at the end of the blob *)
Lemma insert_case3 k pm bm kind nv size (BH P S : bytes) tok ch :
  zlen BH = 128 -> size = 128 + zlen P -> size + zlen S + 40 < 2 ^ 32 ->
  let buf := BH ++ P ++ S in
  upsert_insert k pm bm kind nv size BH (mkS buf None None tok ch) =
    if 40 >? zlen S then Ok (buf, E_NOROOM)
    else Ok (splice 8 (le_enc 4 (size + 40)) BH ++ P ++ new_group_header ++
             new_type_header kind pm bm ++ enc_pair (k, nv) ++ zskipn 40 S, 0).
Proof.
  intros LBH Hsize Hbig buf.
  pose proof (zlen_nonneg P). pose proof (zlen_nonneg S).
  assert (Lbuf : zlen buf = size + zlen S).
  { unfold buf. rewrite !zlen_app. lia. }
  unfold upsert_insert. cbn [s_buf s_mg s_mt s_tok s_changed]. rewrite new_group_size_40. cs.
  fold buf. rewrite Lbuf. mod_small.
  destruct (40 >? zlen S) eqn:Eroom.
  { if_true. reflexivity. }
  if_false.
  set (A := BH ++ P).
  assert (Eins : size = zlen A).
  { unfold A. rewrite !zlen_app. lia. }
  rewrite !slice_ok by lia.
  assert (Ebuf : buf = A ++ [] ++ S).
  { unfold buf, A. rewrite <- !app_assoc. reflexivity. }
  assert (Esrc : sub size (size - size) buf = []).
  { rewrite Z.sub_diag. unfold sub, zfirstn. reflexivity. }
  rewrite Esrc.
  rewrite zlen_sub by lia. change (zlen (@nil Z)) with 0.
  replace (Z.min (size + zlen S - (size + 40)) 0) with 0 by lia.
  change (zfirstn 0 (@nil Z)) with (@nil Z).
  assert (Esp : splice (size + 40) [] buf = A ++ zfirstn 40 S ++ zskipn 40 S).
  { rewrite Ebuf, Eins. rewrite (shift_tail A [] S 40) by lia. reflexivity. }
  rewrite Esp.
  assert (Lx : zlen (zfirstn 40 S) = 40) by (apply zlen_zfirstn; lia).
  assert (Lb1 : zlen (A ++ zfirstn 40 S ++ zskipn 40 S) = size + zlen S).
  { rewrite !zlen_app, Lx, zlen_zskipn by lia. lia. }
  rewrite Lb1. if_false.
  rewrite Eins.
  rewrite (write_chunks_at [new_group_header; new_type_header kind pm bm; enc_pair (k, nv)] A (zfirstn 40 S) (zskipn 40 S)).
  2:{ cbn [concat]. rewrite app_nil_r, !zlen_app, zlen_enc_pair, zlen_new_type_header, zlen_new_group_header. exact Lx. }
  2:{ cbn [concat]. rewrite app_nil_r, !zlen_app, zlen_enc_pair, zlen_new_type_header, zlen_new_group_header. lia. }
  cbn [Z.eqb negb concat]. rewrite app_nil_r.
  set (BH' := splice 8 (le_enc 4 (zlen A + 40)) BH).
  assert (LBH' : zlen BH' = 128) by (unfold BH'; rewrite zlen_splice; rewrite ?le4; lia).
  assert (Lb3 : zlen (A ++ (new_group_header ++ new_type_header kind pm bm ++ enc_pair (k, nv)) ++ zskipn 40 S)
                = size + zlen S).
  { rewrite !zlen_app, zlen_enc_pair, zlen_new_type_header, zlen_new_group_header, zlen_zskipn by lia. lia. }
  unfold write_fixed. rewrite LBH', Lb3. if_true.
  f_equal. f_equal. unfold A. rewrite <- !app_assoc.
  change (BH ++ P ++ new_group_header ++ new_type_header kind pm bm ++ enc_pair (k, nv) ++ zskipn 40 S)
    with ([] ++ BH ++ (P ++ new_group_header ++ new_type_header kind pm bm ++ enc_pair (k, nv) ++ zskipn 40 S)).
  rewrite (splice_at [] BH _ BH' 0) by (auto; lia). reflexivity.
Qed.

(* ---- putting the call together ---- *)

Lemma groups_size_upd kind pm bm k nv G : groups_size (map (upd_group kind pm bm k nv) G) = groups_size G.
Proof.
  induction G as [|g r IH]; [reflexivity|]. cbn [map]. rewrite !groups_size_cons, upd_group_size, IH. reflexivity.
Qed.

Lemma kind_ok_spec kind : kind_ok kind = true -> kind = 0 \/ kind = 1 \/ kind = 2 \/ kind = 4.
Proof. unfold kind_ok, apcb_type_bool, apcb_type_1byte, apcb_type_2bytes, apcb_type_4bytes. lia. Qed.

Lemma upsert_after_scan k pm bm kind nv s : wf_blob s = true -> kind_ok kind = true ->
  upsert k pm bm kind nv (enc_blob s) =
    if any_changes kind pm bm k (bl_groups s)
    then Ok (enc_blob (mkBlob (bl_h1 s) (bl_h2 s) (map (upd_group kind pm bm k nv) (bl_groups s)) (bl_slack s)), 0)
    else let '(mg, mt, tok) := sel_groups kind pm bm k (bl_groups s) 0 (None, None, 0) in
         upsert_insert k pm bm kind nv (blob_size s) (bhdr s) (mkS (enc_blob s) mg mt tok false).
Proof.
  intros W K. unfold upsert. rewrite K. cbn [negb]. rewrite parse_header_enc by auto.
  pose proof (zlen_enc_blob s W) as L. destruct (blob_size_bounds s W) as (B1 & B2 & B3).
  pose proof (length_le_groups_size (bl_groups s)) as LG.
  pose proof W as W'. apply wf_blob_spec in W' as (_ & _ & _ & _ & _ & _ & _ & WG & _).
  rewrite (scan_groups_enc kind pm bm k nv (blob_size s) (S (length (enc_blob s))) (S (length (enc_blob s)))
             (bl_groups s) 0 (bhdr s) (bl_slack s)).
  - destruct (sel_groups kind pm bm k (bl_groups s) 0 (None, None, 0)) as [[mg mt] tok].
    cbn [Z.eqb negb s_changed s_buf orb].
    destruct (any_changes kind pm bm k (bl_groups s)) eqn:CH.
    + f_equal. f_equal. unfold enc_blob at 1, bhdr. cbn [bl_h1 bl_h2 bl_groups bl_slack].
      unfold blob_size. cbn [bl_groups]. rewrite groups_size_upd. rewrite <- !app_assoc. reflexivity.
    + rewrite any_changes_false_id by auto. rewrite <- enc_blob_bhdr.
      cs. replace (sub 0 128 (enc_blob s)) with (bhdr s); [reflexivity|].
      rewrite enc_blob_bhdr. symmetry. apply sub_app_here. apply zlen_bhdr; auto.
  - apply enc_blob_bhdr.
  - rewrite zlen_bhdr by auto. lia.
  - exact WG.
  - unfold blob_size. lia.
  - lia.
  - pw. lia.
  - unfold zlen, blob_size in *. lia.
  - apply tok_types_le_length; auto.
Qed.

Lemma thdr_set_size t v : wf_type t = true ->
  splice 4 (le_enc 2 v) (thdr t) = ty_h1 t ++ le_enc 2 v ++ ty_h2 t.
Proof.
  intros W. apply wf_type_spec in W as (L1 & _). unfold thdr. apply splice_at; [auto|rewrite !le2; reflexivity].
Qed.

Lemma ghdr_set_size sg vr ex tys v : wf_group (TokGroup sg vr ex tys) = true ->
  splice 12 (le_enc 4 v) (ghdr (TokGroup sg vr ex tys)) =
    sg ++ le_enc 2 12288 ++ le_enc 2 (16 + zlen ex) ++ vr ++ le_enc 4 v.
Proof.
  intros W. apply wf_tokgroup_spec in W as (L1 & L2 & _). cbn [ghdr].
  rewrite <- (app_nil_r (le_enc 4 v)), <- (app_nil_r (le_enc 4 (group_size _))).
  rewrite !(app_assoc sg), !(app_assoc (sg ++ _)), !(app_assoc ((sg ++ _) ++ _)).
  apply splice_at; [rewrite !zlen_app, !le2; lia|rewrite !le4; reflexivity].
Qed.

Lemma bhdr_set_size s v : wf_blob s = true ->
  splice 8 (le_enc 4 v) (bhdr s) = bl_h1 s ++ le_enc 4 v ++ bl_h2 s.
Proof.
  intros W. apply wf_blob_spec in W as (L1 & _). unfold bhdr. apply splice_at; [auto|rewrite !le4; reflexivity].
Qed.

Lemma wf_groups_mid G1 g G2 : forallb wf_group (G1 ++ g :: G2) = true ->
  forallb wf_group G1 = true /\ wf_group g = true /\ forallb wf_group G2 = true.
Proof.
  intros H. apply forallb_app' in H as [H1 H2]. cbn [forallb] in H2. apply andb_true_iff in H2 as [H2 H3]. auto.
Qed.

Lemma wf_types_mid T1 t T2 : forallb wf_type (T1 ++ t :: T2) = true ->
  forallb wf_type T1 = true /\ wf_type t = true /\ forallb wf_type T2 = true.
Proof.
  intros H. apply forallb_app' in H as [H1 H2]. cbn [forallb] in H2. apply andb_true_iff in H2 as [H2 H3]. auto.
Qed.

Lemma ins_tok_size k nv t : ty_size (ins_tok k nv t) = ty_size t + 8.
Proof.
  unfold ins_tok, ty_size. cbn [ty_toks]. pose proof (ins_pos_le k (ty_toks t)).
  rewrite zlen_app, zlen_cons. unfold zlen. rewrite firstn_length, skipn_length. lia.
Qed.

Lemma new_type_enc kind pm bm k nv : 0 <= pm < 256 ->
  enc_type (new_type kind pm bm k nv) = new_type_header kind pm bm ++ enc_pair (k, nv).
Proof.
  intros Hpm. unfold enc_type, new_type, new_type_header. cbn [ty_h1 ty_h2 ty_toks].
  unfold ty_size; cbn [ty_toks]. change (16 + 8 * zlen [(k, nv)]) with 24.
  change (u16 (u16 TS + u16 PS)) with 24.
  unfold enc_toks. cbn [map concat]. rewrite app_nil_r.
  assert (E : le_enc 1 pm = [pm]) by (cbn [le_enc]; rewrite Z.mod_small by lia; reflexivity).
  rewrite E. cs. rewrite <- !app_assoc. reflexivity.
Qed.

Lemma new_type_size_spec kind pm bm k nv : ty_size (new_type kind pm bm k nv) = 24.
Proof. reflexivity. Qed.

Lemma new_group_enc nt : ty_size nt = 24 ->
  enc_group (new_group nt) = new_group_header ++ enc_type nt.
Proof.
  intros H. unfold new_group, new_group_header. cbn [enc_group group_size].
  change (zlen (@nil Z)) with 0. rewrite types_size_cons. change (types_size []) with 0. rewrite H.
  change (u32 (u16 GS + new_type_size)) with 40. change (u16 GS) with 16.
  cbn [enc_types map concat]. cs. rewrite app_nil_r, <- !app_assoc. reflexivity.
Qed.

Lemma enc_toks_split p l : enc_toks l = enc_toks (firstn p l) ++ enc_toks (skipn p l).
Proof. rewrite <- enc_toks_app, firstn_skipn. reflexivity. Qed.

Lemma upsert_enc_case1 k pm bm kind nv h1 h2 G1 sg vr ex T1 t T2 G2 S :
  let G := G1 ++ TokGroup sg vr ex (T1 ++ t :: T2) :: G2 in
  let s := mkBlob h1 h2 G S in
  wf_blob s = true -> args_ok k pm bm kind nv -> zlen (enc_blob s) + 40 < 2 ^ 32 ->
  any_changes kind pm bm k G = false ->
  ty_matches kind pm bm t = true -> has_match kind pm bm T2 = false -> existsb (gmatch kind pm bm) G2 = false ->
  upsert k pm bm kind nv (enc_blob s) =
    Ok (enc_blob (fst (upsert_blob k pm bm kind nv s)), snd (upsert_blob k pm bm kind nv s)).
Proof.
  intros G s W (K & Hk & Hnv & Hpm & Hbm) Hbig CH M N N2.
  rewrite upsert_after_scan by auto. cbn [bl_groups s]. fold G. rewrite CH.
  unfold G at 1. rewrite sel_groups_last by auto.
  pose proof (zlen_enc_blob s W) as L. destruct (blob_size_bounds s W) as (B1 & B2 & B3).
  pose proof W as W'. apply wf_blob_spec in W' as (Lh1 & Lh2 & _ & _ & _ & _ & _ & WG & _).
  cbn [bl_groups bl_h1 bl_h2 bl_slack s] in *.
  destruct (wf_groups_mid _ _ _ WG) as (WG1 & Wg & WG2).
  pose proof Wg as Wg'. apply wf_tokgroup_spec in Wg' as (Lsg & Lvr & _ & _ & _ & SH & WT & GSZ).
  destruct (wf_types_mid _ _ _ WT) as (WT1 & Wt & WT2).
  set (g := TokGroup sg vr ex (T1 ++ t :: T2)) in *.
  set (p := ins_pos k (ty_toks t)).
  pose proof (ins_pos_le k (ty_toks t)) as Hp. fold p in Hp.
  destruct (thdr_fields t Wt) as (_ & TSZ & _).
  destruct (ghdr_tok_fields sg vr ex (T1 ++ t :: T2) Wg) as (_ & HSZ). fold g in HSZ.
  pose proof (ghdr_sizeof g Wg) as GSZe.
  pose proof (zlen_enc_groups G1 WG1) as LG1. pose proof (zlen_enc_groups G2 WG2) as LG2.
  pose proof (zlen_enc_types T1 WT1) as LT1. pose proof (zlen_enc_types T2 WT2) as LT2.
  pose proof (groups_size_nonneg G1). pose proof (groups_size_nonneg G2).
  pose proof (types_size_nonneg T1). pose proof (types_size_nonneg T2).
  pose proof (zlen_nonneg ex). pose proof (ty_size_ge t).
  pose proof Wt as Wt'. apply wf_type_spec in Wt' as (Lt1 & Lt2 & _ & _ & _ & TS16).
  assert (GS : groups_size G = groups_size G1 + group_size g + groups_size G2).
  { unfold G. rewrite groups_size_app, groups_size_cons. blia. }
  assert (gS : group_size g = 16 + zlen ex + types_size T1 + ty_size t + types_size T2).
  { unfold g. cbn [group_size]. rewrite types_size_app, types_size_cons. blia. }
  assert (BS : blob_size s = 128 + groups_size G) by reflexivity.
  set (TA := enc_toks (firstn p (ty_toks t))).
  set (TB := enc_toks (skipn p (ty_toks t))).
  assert (LTA : zlen TA = 8 * Z.of_nat p).
  { unfold TA. rewrite zlen_enc_toks. unfold zlen. rewrite firstn_length. blia. }
  assert (LTB : zlen TB = 8 * (zlen (ty_toks t) - Z.of_nat p)).
  { unfold TB. rewrite zlen_enc_toks. unfold zlen. rewrite skipn_length. blia. }
  assert (Eb : enc_blob s = bhdr s ++ enc_groups G1 ++ ghdr g ++ (ex ++ enc_types T1) ++ thdr t ++ TA ++
                             (TB ++ enc_types T2 ++ enc_groups G2) ++ S).
  { rewrite enc_blob_bhdr. cbn [bl_groups bl_slack s]. unfold G.
    rewrite enc_groups_app, enc_groups_cons, enc_group_ghdr. fold g. unfold g at 2. cbn [gtail].
    rewrite enc_types_app, enc_types_cons, enc_type_thdr.
    rewrite (enc_toks_split p (ty_toks t)). fold TA TB. rewrite <- !app_assoc. reflexivity. }
  rewrite Eb. rewrite Z.add_0_l.
  rewrite (insert_case1 k pm bm kind nv (blob_size s) (bhdr s) (enc_groups G1) (ghdr g) (ex ++ enc_types T1)
             (thdr t) TA (TB ++ enc_types T2 ++ enc_groups G2) S (groups_size G1) (types_size T1)
             (8 * Z.of_nat p) false).
  2:{ apply zlen_bhdr; auto. }
  2:{ apply zlen_ghdr; auto. }
  2:{ apply zlen_thdr; auto. }
  2:{ blia. }
  2:{ rewrite HSZ, zlen_app. blia. }
  2:{ blia. }
  2:{ rewrite HSZ. blia. }
  2:{ blia. }
  2:{ rewrite !zlen_app. unfold ty_size in *. blia. }
  2:{ blia. }
  2:{ rewrite TSZ. pw. blia. }
  2:{ rewrite GSZe. blia. }
  2:{ rewrite GSZe. blia. }
  2:{ exact Hk. }
  2:{ exact Hnv. }
  rewrite TSZ, GSZe.
  (* the specification side *)
  set (g' := TokGroup sg vr ex (T1 ++ ins_tok k nv t :: T2)).
  assert (ELF : last_group_match_full kind pm bm G = Some (ty_size t + 8 >? 65535))
    by (unfold G, g; apply last_group_match_full_split; auto).
  assert (EIL : ins_last_group kind pm bm k nv G = Some (G1 ++ g' :: G2))
    by (unfold G, g, g'; apply ins_last_group_split; auto).
  unfold upsert_blob. cbn [bl_groups bl_h1 bl_h2 bl_slack s]. fold G. rewrite CH, ELF.
  destruct (ty_size t + 8 >? 65535) eqn:Efull.
  { cbn [fst snd]. rewrite Eb. reflexivity. }
  unfold upsert_spec. rewrite CH, EIL.
  assert (gS' : group_size g' = group_size g + 8).
  { unfold g'. cbn [group_size]. rewrite types_size_app, types_size_cons, ins_tok_size. blia. }
  assert (GS' : groups_size (G1 ++ g' :: G2) = groups_size G + 8).
  { rewrite groups_size_app, groups_size_cons. blia. }
  rewrite GS'. replace (groups_size G + 8 - groups_size G) with 8 by blia.
  destruct (8 >? zlen S) eqn:Eroom.
  { cbn [fst snd]. rewrite Eb. reflexivity. }
  cbn [fst snd]. f_equal. f_equal.
  rewrite bhdr_set_size, thdr_set_size by auto.
  pose proof (ghdr_set_size sg vr ex (T1 ++ t :: T2) (group_size g + 8) Wg) as EGS. fold g in EGS. rewrite EGS.
  assert (Eg' : enc_group g' =
    (sg ++ le_enc 2 12288 ++ le_enc 2 (16 + zlen ex) ++ vr ++ le_enc 4 (group_size g + 8)) ++
    (ex ++ enc_types T1) ++ (ty_h1 t ++ le_enc 2 (ty_size t + 8) ++ ty_h2 t) ++ TA ++ enc_pair (k, nv) ++
    TB ++ enc_types T2).
  { rewrite <- gS'. unfold g' at 1. cbn [enc_group]. fold g'.
    rewrite enc_types_app, enc_types_cons. unfold enc_type. rewrite ins_tok_size.
    unfold ins_tok. cbn [ty_h1 ty_h2 ty_toks]. fold p.
    rewrite enc_toks_app, enc_toks_cons. fold TA TB. rewrite <- !app_assoc. reflexivity. }
  unfold enc_blob. cbn [bl_h1 bl_h2 bl_groups bl_slack].
  replace (blob_size (mkBlob h1 h2 (G1 ++ g' :: G2) (zskipn 8 S))) with (blob_size s + 8)
    by (unfold blob_size; cbn [bl_groups s]; rewrite GS'; blia).
  rewrite enc_groups_app, enc_groups_cons, Eg'. rewrite <- !app_assoc. reflexivity.
Qed.

Lemma upsert_enc_case2 k pm bm kind nv h1 h2 G1 sg vr ex tys G2 S :
  let g := TokGroup sg vr ex tys in
  let G := G1 ++ g :: G2 in
  let s := mkBlob h1 h2 G S in
  wf_blob s = true -> args_ok k pm bm kind nv -> zlen (enc_blob s) + 40 < 2 ^ 32 ->
  any_changes kind pm bm k G = false ->
  existsb (gmatch kind pm bm) G = false -> forallb (fun g => negb (is_tok g)) G2 = true ->
  upsert k pm bm kind nv (enc_blob s) =
    Ok (enc_blob (fst (upsert_blob k pm bm kind nv s)), snd (upsert_blob k pm bm kind nv s)).
Proof.
  intros g G s W (K & Hk & Hnv & Hpm & Hbm) Hbig CH NM NT.
  rewrite upsert_after_scan by auto. cbn [bl_groups s]. fold G. rewrite CH.
  rewrite sel_groups_nomatch by auto.
  assert (ELT : last_tok G None 0 = Some (ghdr g, groups_size G1)).
  { unfold G. rewrite last_tok_some by auto. rewrite Z.add_0_l. reflexivity. }
  rewrite ELT.
  pose proof (zlen_enc_blob s W) as L. destruct (blob_size_bounds s W) as (B1 & B2 & B3).
  pose proof W as W'. apply wf_blob_spec in W' as (Lh1 & Lh2 & _ & _ & _ & _ & _ & WG & _).
  cbn [bl_groups bl_h1 bl_h2 bl_slack s] in *.
  destruct (wf_groups_mid _ _ _ WG) as (WG1 & Wg & WG2).
  pose proof Wg as Wg'. apply wf_tokgroup_spec in Wg' as (Lsg & Lvr & _ & _ & _ & SH & WT & GSZ).
  destruct (ghdr_tok_fields sg vr ex tys Wg) as (_ & HSZ). fold g in HSZ.
  pose proof (ghdr_sizeof g Wg) as GSZe.
  pose proof (zlen_enc_groups G1 WG1) as LG1. pose proof (zlen_enc_groups G2 WG2) as LG2.
  pose proof (zlen_enc_types tys WT) as LT.
  pose proof (groups_size_nonneg G1). pose proof (groups_size_nonneg G2).
  pose proof (types_size_nonneg tys). pose proof (zlen_nonneg ex).
  assert (GS : groups_size G = groups_size G1 + group_size g + groups_size G2).
  { unfold G. rewrite groups_size_app, groups_size_cons. blia. }
  assert (gS : group_size g = 16 + zlen ex + types_size tys) by reflexivity.
  assert (BS : blob_size s = 128 + groups_size G) by reflexivity.
  assert (Eb : enc_blob s = bhdr s ++ enc_groups G1 ++ ghdr g ++ (ex ++ enc_types tys) ++ enc_groups G2 ++ S).
  { rewrite enc_blob_bhdr. cbn [bl_groups bl_slack s]. unfold G.
    rewrite enc_groups_app, enc_groups_cons, enc_group_ghdr. unfold g at 2. cbn [gtail].
    rewrite <- !app_assoc. reflexivity. }
  rewrite Eb.
  rewrite (insert_case2 k pm bm kind nv (blob_size s) (bhdr s) (enc_groups G1) (ghdr g) (ex ++ enc_types tys)
             (enc_groups G2) S (groups_size G1) 0 false).
  2:{ apply zlen_bhdr; auto. }
  2:{ apply zlen_ghdr; auto. }
  2:{ blia. }
  2:{ rewrite GSZe, zlen_app. blia. }
  2:{ rewrite HSZ. pw. blia. }
  2:{ rewrite !zlen_app. blia. }
  2:{ blia. }
  rewrite GSZe.
  set (nt := new_type kind pm bm k nv).
  set (g' := TokGroup sg vr ex (tys ++ [nt])).
  assert (ELF : last_group_match_full kind pm bm G = None) by (apply last_group_match_full_none; auto).
  assert (EIL : ins_last_group kind pm bm k nv G = None) by (apply ins_last_group_none; auto).
  assert (EAT : add_type_last nt G = Some (G1 ++ g' :: G2)) by (unfold G, g, g'; apply add_type_last_split; auto).
  unfold upsert_blob. cbn [bl_groups bl_h1 bl_h2 bl_slack s]. fold G. rewrite CH, ELF.
  unfold upsert_spec. rewrite CH, EIL. fold nt. rewrite EAT.
  assert (gS' : group_size g' = group_size g + 24).
  { unfold g'. cbn [group_size]. rewrite types_size_app, types_size_cons. unfold nt. rewrite new_type_size_spec.
    change (types_size []) with 0. blia. }
  assert (GS' : groups_size (G1 ++ g' :: G2) = groups_size G + 24).
  { rewrite groups_size_app, groups_size_cons. blia. }
  rewrite GS'. replace (groups_size G + 24 - groups_size G) with 24 by blia.
  destruct (24 >? zlen S) eqn:Eroom.
  { cbn [fst snd]. rewrite Eb. reflexivity. }
  cbn [fst snd]. f_equal. f_equal.
  rewrite bhdr_set_size by auto.
  pose proof (ghdr_set_size sg vr ex tys (group_size g + 24) Wg) as EGS. fold g in EGS. rewrite EGS.
  assert (Eg' : enc_group g' =
    (sg ++ le_enc 2 12288 ++ le_enc 2 (16 + zlen ex) ++ vr ++ le_enc 4 (group_size g + 24)) ++
    (ex ++ enc_types tys) ++ new_type_header kind pm bm ++ enc_pair (k, nv)).
  { rewrite <- gS'. unfold g' at 1. cbn [enc_group]. fold g'.
    rewrite enc_types_app, enc_types_cons. unfold nt. rewrite new_type_enc by auto.
    cbn [enc_types map concat]. rewrite app_nil_r, <- !app_assoc. reflexivity. }
  unfold enc_blob. cbn [bl_h1 bl_h2 bl_groups bl_slack].
  replace (blob_size (mkBlob h1 h2 (G1 ++ g' :: G2) (zskipn 24 S))) with (blob_size s + 24)
    by (unfold blob_size; cbn [bl_groups s]; rewrite GS'; blia).
  rewrite enc_groups_app, enc_groups_cons, Eg'. rewrite <- !app_assoc. reflexivity.
Qed.

Lemma no_tok_no_match kind pm bm G : existsb is_tok G = false -> existsb (gmatch kind pm bm) G = false.
Proof.
  induction G as [|g r IH]; [reflexivity|]. cbn [existsb]. intros H.
  apply orb_false_iff in H as [H1 H2]. rewrite IH by auto. destruct g; [discriminate|reflexivity].
Qed.

Lemma upsert_enc_case3 k pm bm kind nv h1 h2 G S :
  let s := mkBlob h1 h2 G S in
  wf_blob s = true -> args_ok k pm bm kind nv -> zlen (enc_blob s) + 40 < 2 ^ 32 ->
  any_changes kind pm bm k G = false -> existsb is_tok G = false ->
  upsert k pm bm kind nv (enc_blob s) =
    Ok (enc_blob (fst (upsert_blob k pm bm kind nv s)), snd (upsert_blob k pm bm kind nv s)).
Proof.
  intros s W (K & Hk & Hnv & Hpm & Hbm) Hbig CH NT.
  pose proof (no_tok_no_match kind pm bm G NT) as NM. pose proof (no_tok_forallb G NT) as NF.
  rewrite upsert_after_scan by auto. cbn [bl_groups s]. rewrite CH.
  rewrite sel_groups_nomatch by auto. rewrite last_tok_none by auto.
  pose proof (zlen_enc_blob s W) as L. destruct (blob_size_bounds s W) as (B1 & B2 & B3).
  pose proof W as W'. apply wf_blob_spec in W' as (Lh1 & Lh2 & _ & _ & _ & _ & _ & WG & _).
  cbn [bl_groups bl_h1 bl_h2 bl_slack s] in *.
  pose proof (zlen_enc_groups G WG) as LG. pose proof (groups_size_nonneg G).
  assert (BS : blob_size s = 128 + groups_size G) by reflexivity.
  rewrite enc_blob_bhdr at 1. cbn [bl_groups bl_slack s].
  rewrite (insert_case3 k pm bm kind nv (blob_size s) (bhdr s) (enc_groups G) S 0 false).
  2:{ apply zlen_bhdr; auto. }
  2:{ blia. }
  2:{ blia. }
  set (nt := new_type kind pm bm k nv).
  assert (ELF : last_group_match_full kind pm bm G = None) by (apply last_group_match_full_none; auto).
  assert (EIL : ins_last_group kind pm bm k nv G = None) by (apply ins_last_group_none; auto).
  assert (EAT : add_type_last nt G = None) by (apply add_type_last_none; auto).
  unfold upsert_blob. cbn [bl_groups bl_h1 bl_h2 bl_slack s]. rewrite CH, ELF.
  unfold upsert_spec. rewrite CH, EIL. fold nt. rewrite EAT.
  assert (GS' : groups_size (G ++ [new_group nt]) = groups_size G + 40).
  { rewrite groups_size_app, groups_size_cons. change (groups_size []) with 0. unfold new_group. cbn [group_size].
    rewrite types_size_cons. unfold nt. rewrite new_type_size_spec. change (types_size []) with 0.
    change (zlen (@nil Z)) with 0. blia. }
  rewrite GS'. replace (groups_size G + 40 - groups_size G) with 40 by blia.
  destruct (40 >? zlen S) eqn:Eroom.
  { cbn [fst snd]. rewrite enc_blob_bhdr. reflexivity. }
  cbn [fst snd]. f_equal. f_equal.
  rewrite bhdr_set_size by auto.
  unfold enc_blob. cbn [bl_h1 bl_h2 bl_groups bl_slack].
  replace (blob_size (mkBlob h1 h2 (G ++ [new_group nt]) (zskipn 40 S))) with (blob_size s + 40)
    by (unfold blob_size; cbn [bl_groups s]; rewrite GS'; blia).
  rewrite enc_groups_app, enc_groups_cons. rewrite new_group_enc by reflexivity.
  unfold nt. rewrite new_type_enc by auto. cbn [enc_groups map concat].
  rewrite app_nil_r, <- !app_assoc. reflexivity.
Qed.

(* ---- the call on every well-formed blob ---- *)

Theorem upsert_enc k pm bm kind nv s :
  wf_blob s = true -> args_ok k pm bm kind nv -> zlen (enc_blob s) + 40 < 2 ^ 32 ->
  upsert k pm bm kind nv (enc_blob s) =
    Ok (enc_blob (fst (upsert_blob k pm bm kind nv s)), snd (upsert_blob k pm bm kind nv s)).
Proof.
  intros W A Hbig. destruct s as [h1 h2 G S].
  destruct (any_changes kind pm bm k G) eqn:CH.
  - destruct A as (K & _). rewrite upsert_after_scan by auto. cbn [bl_groups bl_h1 bl_h2 bl_slack]. rewrite CH.
    unfold upsert_blob. cbn [bl_groups bl_h1 bl_h2 bl_slack]. rewrite CH. cbn [fst snd].
    unfold upsert_spec. rewrite CH. reflexivity.
  - destruct (existsb (gmatch kind pm bm) G) eqn:GM.
    + destruct (gmatch_split kind pm bm G GM) as (G1 & sg & vr & ex & T1 & t & T2 & G2 & -> & M & N & N2).
      apply upsert_enc_case1; auto.
    + destruct (existsb is_tok G) eqn:TK.
      * destruct (tok_split G TK) as (G1 & g & G2 & -> & T & F).
        destruct g as [sg vr ex tys|]; [|discriminate].
        apply upsert_enc_case2; auto.
      * apply upsert_enc_case3; auto.
Qed.

(* ---- the result is again a well-formed blob ---- *)

Lemma zlen_enc_blob' s : zlen (bl_h1 s) = 8 -> zlen (bl_h2 s) = 116 -> forallb wf_group (bl_groups s) = true ->
  zlen (enc_blob s) = blob_size s + zlen (bl_slack s).
Proof.
  intros L1 L2 WG. unfold enc_blob. rewrite !zlen_app, le4, zlen_enc_groups, L1, L2 by auto. unfold blob_size. lia.
Qed.

Lemma wf_blob_intro s :
  zlen (bl_h1 s) = 8 -> zlen (bl_h2 s) = 116 -> bytes_ok (bl_h1 s) = true -> bytes_ok (bl_h2 s) = true ->
  rd 0 4 (bl_h1 s) = apcb_sig_v2 -> rd 20 4 (bl_h2 s) = apcb_sig_v3 -> rd 112 4 (bl_h2 s) = apcb_sig_end ->
  forallb wf_group (bl_groups s) = true -> bytes_ok (bl_slack s) = true ->
  blob_size s + zlen (bl_slack s) < 2 ^ 32 -> wf_blob s = true.
Proof.
  intros L1 L2 O1 O2 S1 S2 S3 WG OS B. unfold wf_blob.
  rewrite zlen_enc_blob' by auto. rewrite O1, O2, WG, OS, S1, S2, S3, L1, L2, !Z.eqb_refl. cbn [andb].
  clear_bools. lia.
Qed.

Lemma wf_upd_type kind pm bm k nv t : 0 <= nv < 2 ^ 32 -> wf_type t = true ->
  wf_type (upd_type kind pm bm k nv t) = true.
Proof.
  intros Hnv W. pose proof (upd_type_size kind pm bm k nv t) as SZ.
  unfold upd_type in *. destruct (ty_matches kind pm bm t); [|exact W].
  apply wf_type_spec in W as (L1 & L2 & O1 & O2 & WP & S16).
  unfold wf_type. cbn [ty_h1 ty_h2 ty_toks]. rewrite SZ, L1, L2, O1, O2. cbn [Z.eqb Pos.eqb andb].
  replace (ty_size t <? 2 ^ 16) with true by lia. rewrite andb_true_r.
  clear - WP Hnv. induction (ty_toks t) as [|p l IH]; [reflexivity|].
  cbn [forallb] in WP. apply andb_true_iff in WP as [Wp Wl].
  cbn [upd_toks map forallb]. fold (upd_toks k nv l). rewrite IH by auto. rewrite andb_true_r.
  destruct (fst p =? k); [|exact Wp]. unfold wf_pair in *. cbn [fst snd]. lia.
Qed.

Lemma wf_upd_group kind pm bm k nv g : 0 <= nv < 2 ^ 32 -> wf_group g = true ->
  wf_group (upd_group kind pm bm k nv g) = true.
Proof.
  intros Hnv W. pose proof (upd_group_size kind pm bm k nv g) as SZ.
  destruct g as [sg vr ex tys|]; [|exact W].
  apply wf_tokgroup_spec in W as (L1 & L2 & O1 & O2 & O3 & SH & WT & GS).
  cbn [upd_group] in *. unfold wf_group. rewrite SZ. rewrite L1, L2, O1, O2, O3. cbn [Z.eqb Pos.eqb andb].
  replace (16 + zlen ex <? 2 ^ 16) with true by lia.
  replace (group_size (TokGroup sg vr ex tys) <? 2 ^ 32) with true by lia.
  rewrite andb_true_r. cbn [andb].
  clear - WT Hnv. induction tys as [|t l IH]; [reflexivity|].
  cbn [forallb] in WT. apply andb_true_iff in WT as [Wt Wl].
  cbn [map forallb]. rewrite IH, wf_upd_type by auto. reflexivity.
Qed.

Lemma wf_ins_tok k nv t : 0 <= k < 2 ^ 32 -> 0 <= nv < 2 ^ 32 -> wf_type t = true -> ty_size t + 8 <= 65535 ->
  wf_type (ins_tok k nv t) = true.
Proof.
  intros Hk Hnv W F. pose proof (ins_tok_size k nv t) as SZ.
  apply wf_type_spec in W as (L1 & L2 & O1 & O2 & WP & S16).
  unfold wf_type. rewrite SZ. unfold ins_tok. cbn [ty_h1 ty_h2 ty_toks].
  rewrite L1, L2, O1, O2. cbn [Z.eqb Pos.eqb andb].
  replace (ty_size t + 8 <? 2 ^ 16) with true by (pw; lia). rewrite andb_true_r.
  rewrite forallb_app. cbn [forallb].
  rewrite <- (firstn_skipn (ins_pos k (ty_toks t)) (ty_toks t)) in WP. rewrite forallb_app in WP.
  apply andb_true_iff in WP as [W1 W2]. rewrite W1, W2. unfold wf_pair. cbn [fst snd]. lia.
Qed.

Lemma wf_new_type kind pm bm k nv : args_ok k pm bm kind nv -> wf_type (new_type kind pm bm k nv) = true.
Proof.
  intros (K & Hk & Hnv & Hpm & Hbm). unfold wf_type, new_type. cbn [ty_h1 ty_h2 ty_toks].
  rewrite !zlen_app, !le2. rewrite !bytes_ok_app, !le_enc_ok.
  change (ty_size (mkType _ _ [(k, nv)])) with 24.
  cbn [zlen length Z.of_nat Z.add Pos.add Pos.succ Z.eqb Pos.eqb andb forallb Pos.of_succ_nat].
  unfold wf_pair; cbn [fst snd]. unfold bytes_ok; cbn [forallb]. unfold byte_ok.
  clear K. lia.
Qed.

Lemma wf_new_group nt : wf_type nt = true -> ty_size nt = 24 -> wf_group (new_group nt) = true.
Proof.
  intros W SZ. unfold new_group, wf_group. cbn [group_size]. rewrite types_size_cons, SZ.
  change (types_size []) with 0. change (zlen (@nil Z)) with 0.
  rewrite !zlen_app, !le2, le4. rewrite !bytes_ok_app, !le_enc_ok. cbn [forallb]. rewrite W. reflexivity.
Qed.

Lemma forallb_mid {A} (f : A -> bool) l1 x l2 :
  forallb f l1 = true -> f x = true -> forallb f l2 = true -> forallb f (l1 ++ x :: l2) = true.
Proof. intros H1 H2 H3. rewrite forallb_app. cbn [forallb]. rewrite H1, H2, H3. reflexivity. Qed.

Theorem upsert_blob_wf k pm bm kind nv s :
  wf_blob s = true -> args_ok k pm bm kind nv -> zlen (enc_blob s) + 40 < 2 ^ 32 ->
  wf_blob (fst (upsert_blob k pm bm kind nv s)) = true.
Proof.
  intros W A Hbig. pose proof A as (K & Hk & Hnv & Hpm & Hbm).
  pose proof (zlen_enc_blob s W) as L. destruct (blob_size_bounds s W) as (B1 & B2 & B3).
  pose proof W as W'. apply wf_blob_spec in W' as (Lh1 & Lh2 & O1 & O2 & S1 & S2 & S3 & WG & OS & _).
  destruct s as [h1 h2 G S]. cbn [bl_h1 bl_h2 bl_groups bl_slack] in *.
  unfold upsert_blob. cbn [bl_h1 bl_h2 bl_groups bl_slack].
  assert (OSk : forall n, bytes_ok (zskipn n S) = true) by (intros; apply bytes_ok_skipn; auto).
  unfold blob_size in *. cbn [bl_groups] in *.
  destruct (any_changes kind pm bm k G) eqn:CH; cbn [fst].
  - unfold upsert_spec. rewrite CH. apply wf_blob_intro; cbn [bl_h1 bl_h2 bl_groups bl_slack]; auto.
    + clear - WG Hnv. induction G as [|g r IH]; [reflexivity|].
      cbn [forallb] in WG. apply andb_true_iff in WG as [Wg Wr].
      cbn [map forallb]. rewrite IH, wf_upd_group by auto. reflexivity.
    + unfold blob_size. cbn [bl_groups]. rewrite groups_size_upd. blia.
  - destruct (existsb (gmatch kind pm bm) G) eqn:GM.
    + destruct (gmatch_split kind pm bm G GM) as (G1 & sg & vr & ex & T1 & t & T2 & G2 & -> & M & N & N2).
      rewrite last_group_match_full_split by auto.
      destruct (ty_size t + 8 >? 65535) eqn:Efull; [exact W|].
      unfold upsert_spec. rewrite CH. rewrite ins_last_group_split by auto.
      destruct (wf_groups_mid _ _ _ WG) as (WG1 & Wg & WG2).
      pose proof Wg as Wg'. apply wf_tokgroup_spec in Wg' as (Lsg & Lvr & Osg & Ovr & Oex & SH & WT & GSZ).
      destruct (wf_types_mid _ _ _ WT) as (WT1 & Wt & WT2).
      set (g' := TokGroup sg vr ex (T1 ++ ins_tok k nv t :: T2)).
      set (g := TokGroup sg vr ex (T1 ++ t :: T2)) in *.
      assert (gS' : group_size g' = group_size g + 8).
      { unfold g', g. cbn [group_size]. rewrite !types_size_app, !types_size_cons, ins_tok_size. blia. }
      assert (GS' : groups_size (G1 ++ g' :: G2) = groups_size (G1 ++ g :: G2) + 8).
      { rewrite !groups_size_app, !groups_size_cons. blia. }
      rewrite GS'. replace (groups_size (G1 ++ g :: G2) + 8 - groups_size (G1 ++ g :: G2)) with 8 by blia.
      destruct (8 >? zlen S) eqn:Eroom; [exact W|]. cbn [fst].
      apply wf_blob_intro; cbn [bl_h1 bl_h2 bl_groups bl_slack]; auto.
      * apply forallb_mid; auto. unfold g', wf_group. fold g'. rewrite gS'.
        rewrite Lsg, Lvr, Osg, Ovr, Oex. cbn [Z.eqb Pos.eqb andb].
        replace (16 + zlen ex <? 2 ^ 16) with true by blia. cbn [andb].
        rewrite forallb_mid; auto.
        -- cbn [andb]. pose proof (groups_size_nonneg G1). pose proof (groups_size_nonneg G2).
           rewrite groups_size_app, groups_size_cons in B2. blia.
        -- apply wf_ins_tok; auto. blia.
      * unfold blob_size. cbn [bl_groups]. rewrite GS', zlen_zskipn by blia. blia.
    + rewrite last_group_match_full_none by auto.
      unfold upsert_spec. rewrite CH. rewrite ins_last_group_none by auto.
      set (nt := new_type kind pm bm k nv).
      assert (Wnt : wf_type nt = true) by (apply wf_new_type; auto).
      destruct (existsb is_tok G) eqn:TK.
      * destruct (tok_split G TK) as (G1 & g & G2 & -> & T & F).
        destruct g as [sg vr ex tys|]; [|discriminate].
        rewrite add_type_last_split by auto.
        destruct (wf_groups_mid _ _ _ WG) as (WG1 & Wg & WG2).
        pose proof Wg as Wg'. apply wf_tokgroup_spec in Wg' as (Lsg & Lvr & Osg & Ovr & Oex & SH & WT & GSZ).
        set (g' := TokGroup sg vr ex (tys ++ [nt])).
        set (g := TokGroup sg vr ex tys) in *.
        assert (gS' : group_size g' = group_size g + 24).
        { unfold g', g. cbn [group_size]. rewrite !types_size_app, !types_size_cons.
          change (ty_size nt) with 24. change (types_size []) with 0. blia. }
        assert (GS' : groups_size (G1 ++ g' :: G2) = groups_size (G1 ++ g :: G2) + 24).
        { rewrite !groups_size_app, !groups_size_cons. blia. }
        rewrite GS'. replace (groups_size (G1 ++ g :: G2) + 24 - groups_size (G1 ++ g :: G2)) with 24 by blia.
        destruct (24 >? zlen S) eqn:Eroom; [exact W|]. cbn [fst].
        apply wf_blob_intro; cbn [bl_h1 bl_h2 bl_groups bl_slack]; auto.
        -- apply forallb_mid; auto. unfold g', wf_group. fold g'. rewrite gS'.
           rewrite Lsg, Lvr, Osg, Ovr, Oex. cbn [Z.eqb Pos.eqb andb].
           replace (16 + zlen ex <? 2 ^ 16) with true by blia. cbn [andb].
           rewrite forallb_app. cbn [forallb]. rewrite WT, Wnt. cbn [andb].
           pose proof (groups_size_nonneg G1). pose proof (groups_size_nonneg G2).
           rewrite groups_size_app, groups_size_cons in B2. blia.
        -- unfold blob_size. cbn [bl_groups]. rewrite GS', zlen_zskipn by blia. blia.
      * rewrite add_type_last_none by (apply no_tok_forallb; auto).
        assert (GS' : groups_size (G ++ [new_group nt]) = groups_size G + 40).
        { rewrite groups_size_app, groups_size_cons. change (groups_size []) with 0. unfold new_group. cbn [group_size].
          rewrite types_size_cons. change (ty_size nt) with 24. change (types_size []) with 0.
          change (zlen (@nil Z)) with 0. blia. }
        rewrite GS'. replace (groups_size G + 40 - groups_size G) with 40 by blia.
        destruct (40 >? zlen S) eqn:Eroom; [exact W|]. cbn [fst].
        apply wf_blob_intro; cbn [bl_h1 bl_h2 bl_groups bl_slack]; auto.
        -- rewrite forallb_app. cbn [forallb]. rewrite WG, wf_new_group by auto. reflexivity.
        -- unfold blob_size. cbn [bl_groups]. rewrite GS', zlen_zskipn by blia. blia.
Qed.
