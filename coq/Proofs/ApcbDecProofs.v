(* Proofs/ApcbDecProofs.v — the abstraction [abs]/[dec_blob] of Model/Apcb.v is the inverse of
   the encoder on well-formed blobs (property C18). *)
From Fiano Require Import Base.Bytes Base.BytesLemmas Gen.Consts Model.Apcb Proofs.ApcbProofs.
From Coq Require Import ZifyBool ZifyNat.
Open Scope Z_scope.

(* ---- encodings are byte strings ---- *)

Lemma bytes_ok_enc_toks l : bytes_ok (enc_toks l) = true.
Proof.
  induction l as [|p l IH]; [reflexivity|].
  rewrite enc_toks_cons. unfold enc_pair. rewrite !bytes_ok_app, !le_enc_ok, IH. reflexivity.
Qed.

Lemma bytes_ok_enc_type t : wf_type t = true -> bytes_ok (enc_type t) = true.
Proof.
  intros W. apply wf_type_spec in W as (_ & _ & O1 & O2 & _).
  unfold enc_type. rewrite !bytes_ok_app, le_enc_ok, bytes_ok_enc_toks, O1, O2. reflexivity.
Qed.

Lemma bytes_ok_enc_types l : forallb wf_type l = true -> bytes_ok (enc_types l) = true.
Proof.
  induction l as [|t l IH]; intros W; [reflexivity|].
  cbn [forallb] in W. apply andb_true_iff in W as [W1 W2].
  rewrite enc_types_cons, bytes_ok_app, bytes_ok_enc_type, IH by auto. reflexivity.
Qed.

Lemma bytes_ok_enc_group g : wf_group g = true -> bytes_ok (enc_group g) = true.
Proof.
  destruct g as [sg vr ex tys|pre body]; intros W.
  - apply wf_tokgroup_spec in W as (_ & _ & O1 & O2 & O3 & _ & WT & _).
    cbn [enc_group]. rewrite !bytes_ok_app, !le_enc_ok, bytes_ok_enc_types, O1, O2, O3 by auto. reflexivity.
  - apply wf_foreign_spec in W as (_ & O1 & O2 & _).
    cbn [enc_group]. rewrite !bytes_ok_app, !le_enc_ok, O1, O2. reflexivity.
Qed.

Lemma bytes_ok_enc_groups l : forallb wf_group l = true -> bytes_ok (enc_groups l) = true.
Proof.
  induction l as [|t l IH]; intros W; [reflexivity|].
  cbn [forallb] in W. apply andb_true_iff in W as [W1 W2].
  rewrite enc_groups_cons, bytes_ok_app, bytes_ok_enc_group, IH by auto. reflexivity.
Qed.

Lemma bytes_ok_enc_blob s : wf_blob s = true -> bytes_ok (enc_blob s) = true.
Proof.
  intros W. apply wf_blob_spec in W as (_ & _ & O1 & O2 & _ & _ & _ & WG & OS & _).
  unfold enc_blob. rewrite !bytes_ok_app, le_enc_ok, bytes_ok_enc_groups, O1, O2, OS by auto. reflexivity.
Qed.

(* ---- decoding an encoding ---- *)

Lemma dec_toks_enc l r : forallb wf_pair l = true -> dec_toks (length l) (enc_toks l ++ r) = l.
Proof.
  induction l as [|p l IH]; intros W; [reflexivity|].
  cbn [forallb] in W. apply andb_true_iff in W as [Wp Wl]. apply wf_pair_spec in Wp as [P1 P2].
  cbn [length dec_toks]. rewrite enc_toks_cons. unfold enc_pair. rewrite <- !app_assoc.
  rewrite rd_le_enc_app by (pw; lia).
  rewrite (rd_app_skip _ _ 4 4 4) by (try apply le4; lia). simpl Z.sub. rewrite rd_le_enc_app by (pw; lia).
  replace (zskipn 8 (le_enc 4 (fst p) ++ le_enc 4 (snd p) ++ enc_toks l ++ r)) with (enc_toks l ++ r).
  - rewrite IH by auto. destruct p; reflexivity.
  - rewrite !app_assoc. rewrite <- app_assoc. symmetry. apply zskipn_app_at. rewrite zlen_app, !le4. reflexivity.
Qed.

Lemma nonempty_case {A B} (b : list A) (x y : B) : 0 < zlen b ->
  match b with [] => x | _ :: _ => y end = y.
Proof. destruct b; [cbn; lia|reflexivity]. Qed.

Lemma dec_types_enc fuel tys : forallb wf_type tys = true -> (length tys < fuel)%nat ->
  dec_types fuel (enc_types tys) = Some tys.
Proof.
  revert tys; induction fuel as [|f IH]; intros tys W F; [lia|].
  destruct tys as [|t r]; [reflexivity|].
  cbn [forallb] in W. apply andb_true_iff in W as [Wt Wr].
  pose proof (zlen_enc_type t Wt) as Lt. pose proof (zlen_thdr t Wt) as Lh. pose proof (ty_size_ge t) as G16.
  pose proof (zlen_enc_types r Wr) as Lr. pose proof (types_size_nonneg r) as Gr.
  destruct (thdr_fields t Wt) as (_ & SZ & _). unfold typ_sizeof, apcb_typ_off_size in SZ.
  pose proof Wt as Wt'. apply wf_type_spec in Wt' as (L1 & L2 & _ & _ & WP & S16).
  rewrite enc_types_cons. set (b := enc_type t ++ enc_types r).
  assert (Lb : zlen b = ty_size t + types_size r) by (unfold b; rewrite zlen_app; lia).
  cbn [dec_types]. rewrite nonempty_case by lia.
  assert (Esz : rd 4 2 b = ty_size t).
  { unfold b. rewrite enc_type_thdr, <- app_assoc. rewrite rd_app_l by (simpl; lia). exact SZ. }
  rewrite Esz. if_false.
  replace ((ty_size t <? 16) || (ty_size t >? zlen b) || negb ((ty_size t - 16) mod 8 =? 0)) with false.
  2:{ unfold ty_size. replace (16 + 8 * zlen (ty_toks t) - 16) with (zlen (ty_toks t) * 8) by lia.
      rewrite Z.mod_mul by lia. unfold ty_size in Lb. pose proof (zlen_nonneg (ty_toks t)). lia. }
  replace (zskipn (ty_size t) b) with (enc_types r) by (unfold b; symmetry; apply zskipn_app_at; auto).
  rewrite IH by (auto; cbn [length] in F; lia).
  do 2 f_equal. destruct t as [h1 h2 toks]. cbn [ty_h1 ty_h2 ty_toks] in *. f_equal.
  - unfold b, enc_type. cbn [ty_h1]. rewrite <- !app_assoc. apply sub_app_here. auto.
  - unfold b, enc_type. cbn [ty_h1 ty_h2]. rewrite <- !app_assoc. rewrite (app_assoc h1).
    apply sub_at; [rewrite zlen_app, le2; lia|auto].
  - replace (sub 16 (ty_size (mkType h1 h2 toks) - 16) b) with (enc_toks toks ++ []).
    + replace (Z.to_nat ((ty_size (mkType h1 h2 toks) - 16) / 8)) with (length toks).
      * apply dec_toks_enc. auto.
      * unfold ty_size. cbn [ty_toks]. replace (16 + 8 * zlen toks - 16) with (zlen toks * 8) by lia.
        rewrite Z.div_mul by lia. unfold zlen. lia.
    + rewrite app_nil_r. unfold b. rewrite enc_type_thdr, <- app_assoc. cbn [ty_toks]. symmetry.
      apply sub_at; [exact Lh|rewrite zlen_enc_toks; unfold ty_size; cbn [ty_toks]; lia].
Qed.

Lemma dec_groups_enc fuel G : forallb wf_group G = true -> (length G < fuel)%nat ->
  dec_groups fuel (enc_groups G) = Some G.
Proof.
  revert G; induction fuel as [|f IH]; intros G W F; [lia|].
  destruct G as [|g r]; [reflexivity|].
  cbn [forallb] in W. apply andb_true_iff in W as [Wg Wr].
  pose proof (zlen_enc_group g Wg) as Lg. pose proof (zlen_ghdr g Wg) as Lh. pose proof (group_size_ge g) as G16.
  pose proof (zlen_enc_groups r Wr) as Lr. pose proof (groups_size_nonneg r) as Gr.
  pose proof (ghdr_sizeof g Wg) as SZ. unfold grp_sizeof, apcb_grp_off_size in SZ.
  rewrite enc_groups_cons. set (b := enc_group g ++ enc_groups r).
  assert (Lb : zlen b = group_size g + groups_size r) by (unfold b; rewrite zlen_app; lia).
  cbn [dec_groups]. rewrite nonempty_case by lia.
  assert (Eh : forall off w, 0 <= off -> off + Z.of_nat w <= 16 -> rd off w b = rd off w (ghdr g)).
  { intros off w H0 H1. unfold b. rewrite enc_group_ghdr, <- app_assoc. apply rd_app_l; lia. }
  rewrite (Eh 12 4%nat), SZ by (simpl; lia). if_false.
  replace ((group_size g <? 16) || (group_size g >? zlen b)) with false by lia.
  replace (zskipn (group_size g) b) with (enc_groups r) by (unfold b; symmetry; apply zskipn_app_at; auto).
  rewrite IH by (auto; cbn [length] in F; lia).
  rewrite (Eh 4 2%nat) by (simpl; lia).
  destruct g as [sg vr ex tys|pre body].
  - destruct (ghdr_tok_fields sg vr ex tys Wg) as (ID & HSZ).
    unfold grp_id, grp_hsize, apcb_grp_off_id, apcb_grp_off_hsize in *.
    rewrite ID. cbn [Z.eqb Pos.eqb]. rewrite (Eh 6 2%nat), HSZ by (simpl; lia).
    pose proof Wg as Wg'. apply wf_tokgroup_spec in Wg' as (L1 & L2 & _ & _ & _ & SH & WT & _).
    pose proof (zlen_nonneg ex) as Hex. pose proof (types_size_nonneg tys) as Hty.
    pose proof (zlen_enc_types tys WT) as Lty. cbn [group_size] in *.
    replace ((16 + zlen ex <? 16) || (16 + zlen ex >? 16 + zlen ex + types_size tys)) with false by lia.
    assert (Eb : b = (sg ++ le_enc 2 12288 ++ le_enc 2 (16 + zlen ex) ++ vr ++
                      le_enc 4 (16 + zlen ex + types_size tys)) ++ ex ++ enc_types tys ++ enc_groups r).
    { unfold b. cbn [enc_group group_size]. rewrite <- !app_assoc. reflexivity. }
    replace (sub (16 + zlen ex) (16 + zlen ex + types_size tys - (16 + zlen ex)) b) with (enc_types tys).
    2:{ rewrite Eb. rewrite (app_assoc _ ex). symmetry. apply sub_at; [rewrite zlen_app; cbn [ghdr group_size] in Lh; lia|lia]. }
    rewrite dec_types_enc.
    2:{ auto. }
    2:{ pose proof (length_le_types_size tys). unfold zlen in *. lia. }
    do 3 f_equal.
    + rewrite Eb, <- !app_assoc. apply sub_app_here. auto.
    + rewrite Eb, <- !app_assoc. rewrite !(app_assoc sg), !(app_assoc (sg ++ _)).
      apply sub_at; [rewrite !zlen_app, !le2; lia|auto].
    + rewrite Eb. replace (16 + zlen ex - 16) with (zlen ex) by lia.
      apply sub_at; [cbn [ghdr group_size] in Lh; lia|reflexivity].
  - pose proof (ghdr_foreign_id pre body Wg) as ID. unfold grp_id, apcb_grp_off_id in ID.
    replace (rd 4 2 (ghdr (Foreign pre body)) =? 12288) with false by lia.
    pose proof Wg as Wg'. apply wf_foreign_spec in Wg' as (L1 & _).
    cbn [group_size] in *. do 3 f_equal.
    + unfold b. cbn [enc_group]. rewrite <- !app_assoc. apply sub_app_here. auto.
    + unfold b. cbn [enc_group group_size]. rewrite <- !app_assoc. rewrite (app_assoc pre).
      replace (16 + zlen body - 16) with (zlen body) by lia.
      apply sub_at; [rewrite zlen_app, le4; lia|reflexivity].
Qed.

Lemma parse_header_ok b size : parse_header b = Ok size ->
  rd 0 4 b = apcb_sig_v2 /\ rd 32 4 b = apcb_sig_v3 /\ rd 124 4 b = apcb_sig_end /\
  size = rd 8 4 b /\ 128 <= size /\ size <= zlen b.
Proof.
  unfold parse_header. cs.
  destruct (zlen b <? 128) eqn:E0; [discriminate|].
  destruct (rd 0 4 b =? apcb_sig_v2) eqn:E1; [|discriminate]. cbn [negb].
  destruct (rd 32 4 b =? apcb_sig_v3) eqn:E2; [|discriminate]. cbn [negb].
  destruct (rd 124 4 b =? apcb_sig_end) eqn:E3; [|discriminate]. cbn [negb].
  destruct (rd 8 4 b <? 128) eqn:E4; [discriminate|].
  destruct (rd 8 4 b >? u32 (zlen b)) eqn:E5; [discriminate|].
  destruct (slice 128 (rd 8 4 b) b) eqn:E6; [|discriminate].
  intros [= <-]. apply slice_some in E6. repeat split; lia.
Qed.

Theorem dec_blob_enc s : wf_blob s = true -> dec_blob (enc_blob s) = Some s.
Proof.
  intros W. pose proof (parse_header_enc s W) as PH. apply parse_header_ok in PH as (S1 & S2 & S3 & SZ & B0 & B1').
  pose proof (zlen_enc_blob s W) as L. destruct (blob_size_bounds s W) as (B1 & B2 & B3).
  pose proof (bytes_ok_enc_blob s W) as OK.
  pose proof W as W'. apply wf_blob_spec in W' as (L1 & L2 & _ & _ & _ & _ & _ & WG & _).
  unfold dec_blob. rewrite OK, S1, S2, S3, !Z.eqb_refl, <- SZ. cbn [negb andb orb].
  if_false. if_false.
  rewrite body_enc by auto.
  rewrite dec_groups_enc.
  2:{ auto. }
  2:{ pose proof (length_le_groups_size (bl_groups s)). unfold blob_size, zlen in *. lia. }
  destruct s as [h1 h2 G S]. cbn [bl_h1 bl_h2 bl_groups bl_slack] in *. do 2 f_equal.
  - unfold enc_blob. cbn [bl_h1]. apply sub_app_here. auto.
  - unfold enc_blob. cbn [bl_h1 bl_h2 bl_groups bl_slack]. rewrite (app_assoc h1).
    apply sub_at; [rewrite zlen_app, le4; lia|auto].
  - rewrite enc_blob_bhdr. cbn [bl_groups bl_slack]. rewrite app_assoc. apply zskipn_app_at.
    rewrite zlen_app, zlen_bhdr, zlen_enc_groups by auto. reflexivity.
Qed.

(* ---- encoding a decoding ---- *)

Lemma sub_glue (b : bytes) a l1 c l2 : c = a + l1 -> 0 <= a -> 0 <= l1 -> 0 <= l2 ->
  sub a l1 b ++ sub c l2 b = sub a (l1 + l2) b.
Proof. intros -> H0 H1 H2. unfold sub. apply window_glue; auto. Qed.

Lemma sub_glue_r (b : bytes) a l1 c l2 R : c = a + l1 -> 0 <= a -> 0 <= l1 -> 0 <= l2 ->
  sub a l1 b ++ sub c l2 b ++ R = sub a (l1 + l2) b ++ R.
Proof. intros. rewrite app_assoc. f_equal. apply sub_glue; auto. Qed.

Lemma sub_zskipn (b : bytes) a l c : c = a + l -> 0 <= a -> 0 <= l -> sub a l b ++ zskipn c b = zskipn a b.
Proof.
  intros -> H0 H1. unfold sub. rewrite <- (zfirstn_zskipn l (zskipn a b)) at 2. f_equal.
  rewrite zskipn_zskipn by lia. f_equal. lia.
Qed.

Lemma sub_sub (b : bytes) a l o w : 0 <= a -> 0 <= o -> 0 <= w -> o + w <= l ->
  sub o w (sub a l b) = sub (a + o) w b.
Proof.
  intros Ha Ho Hw Hl. unfold sub. replace (a + o) with (o + a) by lia. rewrite <- (zskipn_zskipn o a) by lia.
  generalize (zskipn a b) as X. intros X. unfold zfirstn, zskipn.
  rewrite skipn_firstn_comm, firstn_firstn. f_equal. lia.
Qed.

Lemma rd_sub (b : bytes) a l o (w : nat) : 0 <= a -> 0 <= o -> o + Z.of_nat w <= l ->
  rd o w (sub a l b) = rd (a + o) w b.
Proof. intros. unfold rd. f_equal. apply sub_sub; lia. Qed.

Lemma enc_toks_dec n : forall x, bytes_ok x = true -> zlen x = 8 * Z.of_nat n ->
  enc_toks (dec_toks n x) = x /\ forallb wf_pair (dec_toks n x) = true /\ length (dec_toks n x) = n.
Proof.
  induction n as [|n IH]; intros x OK L.
  - destruct x; [repeat split|rewrite zlen_cons in L; pose proof (zlen_nonneg x); lia].
  - cbn [dec_toks]. destruct (IH (zskipn 8 x)) as (E & W & Ln).
    + apply bytes_ok_skipn; auto.
    + rewrite zlen_zskipn by lia. lia.
    + rewrite enc_toks_cons, E. unfold enc_pair. cbn [fst snd forallb length]. rewrite W, Ln. repeat split.
      * rewrite !le_enc_rd by (auto; simpl; lia). rewrite <- app_assoc.
        rewrite (sub_glue_r x 0 4 4 4) by lia.
        rewrite (sub_zskipn x 0 (4 + 4) 8) by lia. reflexivity.
      * pose proof (rd_bound x 0 4 OK ltac:(lia) ltac:(simpl; lia)).
        pose proof (rd_bound x 4 4 OK ltac:(lia) ltac:(simpl; lia)).
        unfold wf_pair. cbn [fst snd]. pw. lia.
Qed.

Lemma enc_types_dec fuel : forall b tys, bytes_ok b = true -> dec_types fuel b = Some tys ->
  enc_types tys = b /\ forallb wf_type tys = true.
Proof.
  induction fuel as [|f IH]; intros b tys OK D; [discriminate|].
  cbn [dec_types] in D. destruct b as [|x0 b0] eqn:Eb.
  { injection D as <-. split; reflexivity. }
  rewrite <- Eb in *. clear Eb x0 b0.
  destruct (zlen b <? 16) eqn:E16; [discriminate|].
  set (sz := rd 4 2 b) in *.
  destruct ((sz <? 16) || (sz >? zlen b) || negb ((sz - 16) mod 8 =? 0)) eqn:EC; [discriminate|].
  destruct (dec_types f (zskipn sz b)) as [r|] eqn:DR; [|discriminate].
  injection D as <-.
  destruct (IH _ _ (bytes_ok_skipn _ _ OK) DR) as (Er & Wr).
  pose proof (rd_bound b 4 2 OK ltac:(lia) ltac:(simpl; lia)) as Bsz. fold sz in Bsz.
  pose proof (Z.div_mod (sz - 16) 8 ltac:(lia)) as DM.
  assert (M0 : (sz - 16) mod 8 = 0) by lia.
  set (n := Z.to_nat ((sz - 16) / 8)).
  assert (En : sz - 16 = 8 * Z.of_nat n) by (unfold n; lia).
  set (x := sub 16 (sz - 16) b).
  assert (Lx : zlen x = 8 * Z.of_nat n) by (unfold x; rewrite zlen_sub; lia).
  destruct (enc_toks_dec n x (bytes_ok_sub _ _ _ OK) Lx) as (Ex & Wx & Lnx).
  set (t := mkType (sub 0 4 b) (sub 6 10 b) (dec_toks n x)).
  assert (St : ty_size t = sz).
  { unfold ty_size, t. cbn [ty_toks]. unfold zlen. rewrite Lnx. lia. }
  split.
  - rewrite enc_types_cons, Er. unfold enc_type. rewrite St. unfold t. cbn [ty_h1 ty_h2 ty_toks]. rewrite Ex.
    unfold sz. rewrite le_enc_rd by (auto; simpl; lia). fold sz. unfold x. rewrite <- !app_assoc.
    change (Z.of_nat 2) with 2.
    rewrite (sub_glue_r b 0 4 4 2) by lia.
    rewrite (sub_glue_r b 0 (4 + 2) 6 10) by lia.
    rewrite (sub_glue_r b 0 (4 + 2 + 10) 16 (sz - 16)) by lia.
    change (skipn (Z.to_nat sz) b) with (zskipn sz b).
    rewrite (sub_zskipn b 0 (4 + 2 + 10 + (sz - 16)) sz) by lia. reflexivity.
  - cbn [forallb]. rewrite Wr, andb_true_r. unfold wf_type. rewrite St. unfold t. cbn [ty_h1 ty_h2 ty_toks].
    rewrite !zlen_sub by lia. rewrite !bytes_ok_sub by auto. rewrite Wx. cbn [Z.eqb Pos.eqb andb]. pw. lia.
Qed.

Lemma enc_groups_dec fuel : forall b G, bytes_ok b = true -> dec_groups fuel b = Some G ->
  enc_groups G = b /\ forallb wf_group G = true.
Proof.
  induction fuel as [|f IH]; intros b G OK D; [discriminate|].
  cbn [dec_groups] in D. destruct b as [|x0 b0] eqn:Eb.
  { injection D as <-. split; reflexivity. }
  rewrite <- Eb in *. clear Eb x0 b0.
  destruct (zlen b <? 16) eqn:E16; [discriminate|].
  set (sz := rd 12 4 b) in *.
  destruct ((sz <? 16) || (sz >? zlen b)) eqn:EC; [discriminate|].
  pose proof (rd_bound b 12 4 OK ltac:(lia) ltac:(simpl; lia)) as Bsz. fold sz in Bsz.
  destruct (rd 4 2 b =? 12288) eqn:EID.
  - set (soh := rd 6 2 b) in *.
    destruct ((soh <? 16) || (soh >? sz)) eqn:ES; [discriminate|].
    destruct (dec_types (S (length b)) (sub soh (sz - soh) b)) as [tys|] eqn:DT; [|discriminate].
    destruct (dec_groups f (zskipn sz b)) as [r|] eqn:DR; [|discriminate].
    injection D as <-.
    destruct (IH _ _ (bytes_ok_skipn _ _ OK) DR) as (Er & Wr).
    destruct (enc_types_dec _ _ _ (bytes_ok_sub _ _ _ OK) DT) as (Et & Wt).
    pose proof (rd_bound b 6 2 OK ltac:(lia) ltac:(simpl; lia)) as Bsoh. fold soh in Bsoh.
    assert (Lt : types_size tys = sz - soh).
    { rewrite <- zlen_enc_types by auto. rewrite Et. apply zlen_sub; lia. }
    set (g := TokGroup (sub 0 4 b) (sub 8 4 b) (sub 16 (soh - 16) b) tys).
    assert (Sg : group_size g = sz).
    { unfold g. cbn [group_size]. rewrite zlen_sub by lia. lia. }
    split.
    + rewrite enc_groups_cons, Er. unfold g at 1. cbn [enc_group]. fold g. rewrite Sg.
      rewrite zlen_sub by lia. replace (16 + (soh - 16)) with soh by lia.
      replace 12288 with (rd 4 2 b) by lia. unfold soh at 1, sz at 1.
      rewrite !le_enc_rd by (auto; simpl; lia). rewrite Et. rewrite <- !app_assoc.
      change (Z.of_nat 2) with 2. change (Z.of_nat 4) with 4.
      rewrite (sub_glue_r b 0 4 4 2) by lia.
      rewrite (sub_glue_r b 0 (4 + 2) 6 2) by lia.
      rewrite (sub_glue_r b 0 (4 + 2 + 2) 8 4) by lia.
      rewrite (sub_glue_r b 0 (4 + 2 + 2 + 4) 12 4) by lia.
      rewrite (sub_glue_r b 0 (4 + 2 + 2 + 4 + 4) 16 (soh - 16)) by lia.
      rewrite (sub_glue_r b 0 (4 + 2 + 2 + 4 + 4 + (soh - 16)) soh (sz - soh)) by lia.
      change (skipn (Z.to_nat sz) b) with (zskipn sz b).
      rewrite (sub_zskipn b 0 _ sz) by lia. reflexivity.
    + cbn [forallb]. rewrite Wr, andb_true_r. unfold wf_group. fold g. rewrite Sg. unfold g.
      rewrite !zlen_sub by lia. rewrite !bytes_ok_sub by auto. rewrite Wt. cbn [Z.eqb Pos.eqb andb]. pw. lia.
  - destruct (dec_groups f (zskipn sz b)) as [r|] eqn:DR; [|discriminate].
    injection D as <-.
    destruct (IH _ _ (bytes_ok_skipn _ _ OK) DR) as (Er & Wr).
    set (g := Foreign (sub 0 12 b) (sub 16 (sz - 16) b)).
    assert (Sg : group_size g = sz).
    { unfold g. cbn [group_size]. rewrite zlen_sub by lia. lia. }
    split.
    + rewrite enc_groups_cons, Er. unfold g at 1. cbn [enc_group]. fold g. rewrite Sg.
      unfold sz at 1. rewrite le_enc_rd by (auto; simpl; lia). rewrite <- !app_assoc.
      change (Z.of_nat 4) with 4.
      rewrite (sub_glue_r b 0 12 12 4) by lia.
      rewrite (sub_glue_r b 0 (12 + 4) 16 (sz - 16)) by lia.
      change (skipn (Z.to_nat sz) b) with (zskipn sz b).
      rewrite (sub_zskipn b 0 _ sz) by lia. reflexivity.
    + cbn [forallb]. rewrite Wr, andb_true_r. unfold wf_group. fold g. rewrite Sg. unfold g.
      rewrite !zlen_sub by lia. rewrite !bytes_ok_sub by auto.
      rewrite rd_sub by (simpl; lia). simpl Z.add.
      rewrite EID. cbn [Z.eqb Pos.eqb andb negb]. pw. lia.
Qed.

Theorem enc_blob_dec b s : dec_blob b = Some s -> enc_blob s = b /\ wf_blob s = true.
Proof.
  unfold dec_blob. intros D.
  destruct (bytes_ok b) eqn:OK; [|discriminate]. cbn [negb orb] in D.
  destruct (zlen b <? 128) eqn:E128; [discriminate|]. cbn [orb] in D.
  destruct (zlen b <? 2 ^ 32) eqn:E32; [|discriminate]. cbn [negb] in D.
  destruct (rd 0 4 b =? apcb_sig_v2) eqn:S1; [|discriminate].
  destruct (rd 32 4 b =? apcb_sig_v3) eqn:S2; [|discriminate].
  destruct (rd 124 4 b =? apcb_sig_end) eqn:S3; [|discriminate]. cbn [andb negb] in D.
  set (size := rd 8 4 b) in *.
  destruct ((size <? 128) || (size >? zlen b)) eqn:ES; [discriminate|].
  destruct (dec_groups (S (length b)) (sub 128 (size - 128) b)) as [G|] eqn:DG; [|discriminate].
  injection D as <-.
  destruct (enc_groups_dec _ _ _ (bytes_ok_sub _ _ _ OK) DG) as (EG & WG).
  assert (LG : groups_size G = size - 128).
  { rewrite <- zlen_enc_groups by auto. rewrite EG. apply zlen_sub; lia. }
  set (s := mkBlob (sub 0 8 b) (sub 12 116 b) G (zskipn size b)).
  assert (Ss : blob_size s = size) by (unfold blob_size, s; cbn [bl_groups]; lia).
  assert (E : enc_blob s = b).
  { unfold enc_blob. rewrite Ss. unfold s. cbn [bl_h1 bl_h2 bl_groups bl_slack]. rewrite EG.
    unfold size at 1. rewrite le_enc_rd by (auto; simpl; lia). change (Z.of_nat 4) with 4.
    rewrite (sub_glue_r b 0 8 8 4) by lia.
    rewrite (sub_glue_r b 0 (8 + 4) 12 116) by lia.
    rewrite (sub_glue_r b 0 (8 + 4 + 116) 128 (size - 128)) by lia.
    rewrite (sub_zskipn b 0 _ size) by lia. reflexivity. }
  split; [exact E|].
  unfold wf_blob. rewrite E. unfold s. cbn [bl_h1 bl_h2 bl_groups bl_slack].
  rewrite !zlen_sub by lia. rewrite !bytes_ok_sub by auto.
  replace (bytes_ok (zskipn size b)) with true by (symmetry; apply bytes_ok_skipn; auto). rewrite WG, E32.
  rewrite !rd_sub by (simpl; lia). simpl Z.add.
  rewrite S1, S2, S3. reflexivity.
Qed.
