(* Proofs/TotalProofs.v — the totality results of property C20, collected.

   Every statement has the shape  total (P b)  with
       total o := is_panic o = false /\ is_fuel o = false          (Proofs/TotalBase.v)
   for ALL byte strings b, where P is the executable model of a Go parser and the fuel is the
   one the model itself passes to its loops (always S (length of the bytes the loop walks)).
   The proofs unfold the model and show that every checked slice / index is guarded by the
   comparisons the code makes before it.  They live in four files by model family:

     Proofs/TotalFitProofs.v       flash map (C13 model), FIT (C14), ZLIB frame / x86 filter (C08),
                                   PSB signed blobs, token keys, manifest keys/signatures (C16)
     Proofs/TotalManifestProofs.v  the generic Boot Guard / CBnT manifest decoder over every schema
                                   of Gen/ManifestCodecs.v (C15), AMD firmware / directories /
                                   extraction / patching (C17), CBFS (C19)
     Proofs/TotalApcbProofs.v      APCB token listing and upsert on arbitrary containers (C18 model)
     Proofs/MiscProofs.v           the new models of Model/Misc.v: microcode, ME partition table,
                                   FSP info header, and the allocation ledgers

   Functions whose faithful model has a reachable Panic are stated as ..._refuted witnesses. *)
From Fiano Require Export Proofs.TotalBase Proofs.MiscProofs Proofs.TotalFitProofs
  Proofs.TotalManifestProofs Proofs.TotalApcbProofs.
