(* Proofs/ManifestIRProofs.v — soundness of [ops_realise]: when the decidable
   relation holds between a schema and the IR of the generated code, the IR
   interpreters (what the Go statements do) coincide with the generic codec. *)
From Coq Require Import ZifyBool ZifyNat.
From Fiano Require Import Base.Bytes Base.BytesLemmas Model.Manifest Model.ManifestIR
  Proofs.ManifestProofs.
Open Scope Z_scope.

(* ---------- equality tests ---------- *)
Lemma name_eqb_eq a b : name_eqb a b = true -> a = b.
Proof. apply bytes_eqb_eq. Qed.

Lemma name_eqb_refl a : name_eqb a a = true.
Proof. now apply bytes_eqb_eq. Qed.

Lemma cexpr_eqb_eq : forall a b, cexpr_eqb a b = true -> a = b.
Proof.
  induction a; destruct b; cbn [cexpr_eqb]; intros H; try discriminate.
  - f_equal; lia.
  - f_equal. now apply Nat.eqb_eq.
  - apply andb_prop in H as [H1 H2]. f_equal; auto.
  - apply andb_prop in H as [H1 H2]. f_equal; auto.
  - apply andb_prop in H as [H1 H2]. f_equal; auto; lia.
  - apply andb_prop in H as [H1 H2]. f_equal; auto; lia.
  - apply andb_prop in H as [H H4]. apply andb_prop in H as [H H3]. apply andb_prop in H as [H1 H2].
    f_equal; auto; lia.
Qed.

Lemma natlist_eqb_eq : forall a b, natlist_eqb a b = true -> a = b.
Proof.
  induction a; destruct b; cbn [natlist_eqb]; intros H; try discriminate; auto.
  apply andb_prop in H as [H1 H2]. apply Nat.eqb_eq in H1. f_equal; auto.
Qed.

Lemma rexpr_eqb_eq a b : rexpr_eqb a b = true -> a = b.
Proof.
  destruct a, b; cbn [rexpr_eqb]; intros H; try discriminate; auto.
  - f_equal; lia.
  - f_equal. now apply Nat.eqb_eq.
Qed.

Lemma rhspec_eqb_eq : forall a b, rhspec_eqb a b = true -> a = b.
Proof.
  induction a as [|x a IH]; destruct b as [|y b]; cbn [rhspec_eqb]; intros H; try discriminate; auto.
  apply andb_prop in H as [H1 H2]. f_equal; auto.
  unfold rhassign_eqb in H1. apply andb_prop in H1 as [H1 H3]. apply andb_prop in H1 as [H1 H4].
  destruct x, y; cbn in *. f_equal.
  - now apply natlist_eqb_eq.
  - now apply Nat.eqb_eq.
  - now apply rexpr_eqb_eq.
Qed.

Lemma plain_eqb_eq : forall a b, plain_eqb a b = true -> a = b.
Proof.
  induction a as [|n t a IH]; destruct b as [|n' t' b]; cbn [plain_eqb]; intros H; try discriminate; auto.
  - destruct t; discriminate.
  - destruct t; try discriminate; destruct t'; try discriminate;
      apply andb_prop in H as [H H3]; apply andb_prop in H as [H1 H2];
      apply name_eqb_eq in H1; apply Nat.eqb_eq in H2; subst; f_equal; auto.
Qed.

(* ---------- ReadFrom ---------- *)
Definition tag_size (s : schema) (o : option (value * bytes)) : option (value * Z * bytes) :=
  match o with Some (v, r) => Some (v, size_s s v, r) | None => None end.
Definition tag_size_f (t : fty) (o : option (value * bytes)) : option (value * Z * bytes) :=
  match o with Some (v, r) => Some (v, size_f t v, r) | None => None end.

Definition run_list (p : rprog) : nat -> bytes -> option (value * Z * bytes) :=
  fix go (k : nat) (b : bytes) : option (value * Z * bytes) :=
    match k with
    | O => Some (VNil, 0, b)
    | S k' =>
      match run_r p [] b with
      | Some (x, n1, b1) =>
        match go k' b1 with
        | Some (xs, n2, b2) => Some (VCons x xs, n1 + n2, b2)
        | None => None
        end
      | None => None
      end
    end.

Definition run_ints (w : nat) : nat -> bytes -> option (value * Z * bytes) :=
  fix go (k : nat) (b : bytes) : option (value * Z * bytes) :=
    match k with
    | O => Some (VNil, 0, b)
    | S k' =>
      match take (Z.of_nat w) b with
      | Some (h1, b1) =>
        match go k' b1 with
        | Some (xs, n2, b2) => Some (VCons (VInt (le_dec h1)) xs, Z.of_nat w + n2, b2)
        | None => None
        end
      | None => None
      end
    end.

Lemma run_rstep_list cw f p en b :
  run_rstep (RList cw f p) en b =
  match take (Z.of_nat cw) b with
  | Some (h, r) => addn (Z.of_nat cw) (run_list p (Z.to_nat (le_dec h)) r)
  | None => None
  end.
Proof. reflexivity. Qed.

Lemma run_rstep_ints cw w f en b :
  run_rstep (RListInt cw w f) en b =
  match take (Z.of_nat cw) b with
  | Some (h, r) => addn (Z.of_nat cw) (run_ints w (Z.to_nat (le_dec h)) r)
  | None => None
  end.
Proof. reflexivity. Qed.

Lemma run_list_sound s p
  (IH : forall en b, run_r p en b = tag_size s (dec_s s en b)) :
  forall k b, run_list p k b =
    match dec_list s k b with Some (l, r) => Some (l, size_list s l, r) | None => None end.
Proof.
  induction k as [|k IHk]; intros b; cbn [run_list dec_list]; [reflexivity|].
  fold (run_list p) (dec_list s). rewrite IH.
  destruct (dec_s s [] b) as [[x b1]|]; cbn [tag_size]; [|reflexivity].
  rewrite IHk. destruct (dec_list s k b1) as [[xs b2]|]; reflexivity.
Qed.

Lemma vlen_dec_ints w : forall k b l r, dec_ints w k b = Some (l, r) -> vlen l = Z.of_nat k.
Proof.
  induction k as [|k IHk]; intros b l r D; cbn [dec_ints] in D.
  - inversion D; reflexivity.
  - fold (dec_ints w) in D.
    destruct (take (Z.of_nat w) b) as [[h1 b1]|]; [|discriminate].
    destruct (dec_ints w k b1) as [[xs b2]|] eqn:D2; [|discriminate].
    inversion D; subst. cbn [vlen]. rewrite (IHk _ _ _ D2). lia.
Qed.

Lemma run_ints_sound w : forall k b, run_ints w k b =
    match dec_ints w k b with Some (l, r) => Some (l, Z.of_nat w * vlen l, r) | None => None end.
Proof.
  induction k as [|k IHk]; intros b; cbn [run_ints dec_ints].
  - cbn [vlen]. f_equal. f_equal. f_equal. lia.
  - fold (run_ints w) (dec_ints w).
    destruct (take (Z.of_nat w) b) as [[h1 b1]|]; [|reflexivity].
    rewrite IHk. destruct (dec_ints w k b1) as [[xs b2]|]; [|reflexivity].
    cbn [vlen]. f_equal. f_equal. f_equal. lia.
Qed.

Lemma realise_r_mut :
  (forall s p, realise_r s p = true -> forall en b, run_r p en b = tag_size s (dec_s s en b)) /\
  (forall t nm st, realise_rf nm t st = true ->
     forall en b, run_rstep st en b = tag_size_f t (dec_f t en b)).
Proof.
  apply schema_fty_ind.
  - intros p R en b. destruct p; cbn [realise_r] in R; try discriminate. reflexivity.
  - intros name t IHt rest IHr p R en b.
    destruct p as [|st p']; cbn [realise_r] in R; try discriminate.
    apply andb_prop in R as [R1 R2].
    cbn [run_r dec_s]. rewrite (IHt _ _ R1).
    destruct (dec_f t en b) as [[x b1]|]; cbn [tag_size_f tag_size]; [|reflexivity].
    rewrite (IHr _ R2). destruct (dec_s rest (en ++ [x]) b1) as [[xs b2]|]; reflexivity.
  - (* FInt *) intros w nm st R en b. destruct st; cbn [realise_rf] in R; try discriminate.
    apply andb_prop in R as [R R3]. apply andb_prop in R as [R1 R2]. apply Nat.eqb_eq in R2. subst w0.
    cbn [run_rstep dec_f]. destruct (take (Z.of_nat w) b) as [[h r]|]; cbn [tag_size_f size_f]; [|reflexivity].
    f_equal. f_equal. f_equal. lia.
  - (* FArr *) intros n nm st R en b. destruct st; cbn [realise_rf] in R; try discriminate.
    apply andb_prop in R as [R R3]. apply andb_prop in R as [R1 R2]. apply Nat.eqb_eq in R2. subst len.
    cbn [run_rstep dec_f]. destruct (take (Z.of_nat n) b) as [[h r]|]; cbn [tag_size_f size_f]; [|reflexivity].
    f_equal. f_equal. f_equal. lia.
  - (* FSub *) intros s IH rh nm st R en b. destruct st; cbn [realise_rf] in R; try discriminate.
    + apply andb_prop in R as [R1 R2]. apply plain_eqb_eq in R2. subst layout.
      cbn [run_rstep dec_f]. destruct (dec_s s [] b) as [[x r]|]; reflexivity.
    + apply andb_prop in R as [R1 R2]. cbn [run_rstep dec_f]. rewrite (IH _ R2).
      destruct (dec_s s [] b) as [[x r]|]; reflexivity.
  - (* FList *) intros cw s IH rh nm st R en b. destruct st; cbn [realise_rf] in R; try discriminate.
    apply andb_prop in R as [R R3]. apply andb_prop in R as [R1 R2]. apply Nat.eqb_eq in R2. subst cw0.
    rewrite run_rstep_list, dec_f_list.
    destruct (take (Z.of_nat cw) b) as [[h r]|]; [|reflexivity].
    rewrite (run_list_sound s p (IH _ R3)).
    destruct (dec_list s (Z.to_nat (le_dec h)) r) as [[l r']|]; reflexivity.
  - (* FListInt *) intros cw w nm st R en b. destruct st; cbn [realise_rf] in R; try discriminate.
    apply andb_prop in R as [R R3]. apply andb_prop in R as [R1 R2].
    apply Nat.eqb_eq in R2, R3. subst cw0 w0.
    rewrite run_rstep_ints, dec_f_ints.
    destruct (take (Z.of_nat cw) b) as [[h r]|]; [|reflexivity].
    rewrite run_ints_sound.
    destruct (dec_ints w (Z.to_nat (le_dec h)) r) as [[l r']|]; reflexivity.
  - (* FBytesP *) intros cw nm st R en b. destruct st; cbn [realise_rf] in R; try discriminate.
    apply andb_prop in R as [R1 R2]. apply Nat.eqb_eq in R2. subst cw0.
    cbn [run_rstep dec_f]. destruct (take (Z.of_nat cw) b) as [[h r]|]; [|reflexivity].
    destruct (take (le_dec h) r) as [[d r']|]; reflexivity.
  - (* FBytesC *) intros cw e nm st R en b. destruct st; cbn [realise_rf] in R; try discriminate.
    apply andb_prop in R as [R R3]. apply andb_prop in R as [R1 R2]. apply Nat.eqb_eq in R2.
    apply cexpr_eqb_eq in R3. subst cw0 e0.
    cbn [run_rstep dec_f]. destruct (take (ceval e en mod wmax cw) b) as [[d r']|]; reflexivity.
Qed.

Theorem realise_r_sound : forall s p, realise_r s p = true ->
  forall en b, run_r p en b = tag_size s (dec_s s en b).
Proof. exact (proj1 realise_r_mut). Qed.

(* ---------- WriteTo ---------- *)
Definition run_wlist (p : wprog) : value -> bytes * Z :=
  fix go (l : value) : bytes * Z :=
    match l with
    | VCons x xs =>
      let '(b1, n1) := run_w p x in
      let '(b2, n2) := go xs in (b1 ++ b2, n1 + n2)
    | _ => ([], 0)
    end.

Definition run_wints (w : nat) : value -> bytes * Z :=
  fix go (l : value) : bytes * Z :=
    match l with
    | VCons (VInt z) xs => let '(b2, n2) := go xs in (le_enc w z ++ b2, Z.of_nat w + n2)
    | _ => ([], 0)
    end.

Lemma run_wstep_list cw f p v :
  run_wstep (WList cw f p) v =
  let '(b, n) := run_wlist p v in (le_enc cw (vlen v) ++ b, Z.of_nat cw + n).
Proof. reflexivity. Qed.

Lemma run_wstep_ints cw w f v :
  run_wstep (WListInt cw w f) v =
  let '(b, n) := run_wints w v in (le_enc cw (vlen v) ++ b, Z.of_nat cw + n).
Proof. reflexivity. Qed.

Lemma run_wlist_sound s p
  (IH : forall en v, wf_s s en v = true -> run_w p v = (enc_s s v, size_s s v)) :
  forall l, wf_list s l = true -> run_wlist p l = (enc_list s l, size_list s l).
Proof.
  induction l as [z|b| |x _ xs IHxs]; intros W; cbn [wf_list] in W; try discriminate.
  - reflexivity.
  - apply andb_prop in W as [W1 W2]. cbn [run_wlist enc_list size_list].
    fold (run_wlist p) (enc_list s) (size_list s). rewrite (IH _ _ W1), (IHxs W2). reflexivity.
Qed.

Lemma run_wints_sound w : forall l, wf_ints w l = true ->
  run_wints w l = (enc_ints w l, Z.of_nat w * vlen l).
Proof.
  induction l as [z|b| |x _ xs IHxs]; intros W; cbn [wf_ints] in W; try discriminate.
  - cbn [run_wints enc_ints vlen]. f_equal. lia.
  - destruct x as [z| | |]; try discriminate. apply andb_prop in W as [W1 W2].
    cbn [run_wints enc_ints vlen]. fold (run_wints w) (enc_ints w). rewrite (IHxs W2). f_equal. lia.
Qed.

Lemma realise_w_mut :
  (forall s p, realise_w s p = true ->
     forall en v, wf_s s en v = true -> run_w p v = (enc_s s v, size_s s v)) /\
  (forall t nm st, realise_wf nm t st = true ->
     forall en v, wf_f t en v = true -> run_wstep st v = (enc_f t v, size_f t v)).
Proof.
  apply schema_fty_ind.
  - intros p R en v W. destruct p; cbn [realise_w] in R; try discriminate.
    destruct v; cbn [wf_s] in W; try discriminate. reflexivity.
  - intros name t IHt rest IHr p R en v W.
    destruct p as [|st p']; cbn [realise_w] in R; try discriminate.
    apply andb_prop in R as [R1 R2].
    destruct v as [| | |x xs]; cbn [wf_s] in W; try discriminate.
    apply andb_prop in W as [W1 W2].
    cbn [run_w enc_s size_s]. rewrite (IHt _ _ R1 _ _ W1), (IHr _ R2 _ _ W2). reflexivity.
  - intros w nm st R en v W. destruct st; cbn [realise_wf] in R; try discriminate.
    apply andb_prop in R as [R R3]. apply andb_prop in R as [R1 R2]. apply Nat.eqb_eq in R2. subst w0.
    destruct v as [z| | |]; cbn [wf_f] in W; try discriminate.
    cbn [run_wstep enc_f size_f]. f_equal. lia.
  - intros n nm st R en v W. destruct st; cbn [realise_wf] in R; try discriminate.
    apply andb_prop in R as [R R3]. apply andb_prop in R as [R1 R2]. apply Nat.eqb_eq in R2. subst len.
    destruct v as [|b| |]; cbn [wf_f] in W; try discriminate.
    cbn [run_wstep enc_f size_f]. f_equal. lia.
  - intros s IH rh nm st R en v W. destruct st; cbn [realise_wf] in R; try discriminate.
    apply andb_prop in R as [R1 R2]. cbn [wf_f] in W. cbn [run_wstep enc_f size_f]. now apply (IH _ R2 []).
  - intros cw s IH rh nm st R en v W. destruct st; cbn [realise_wf] in R; try discriminate.
    apply andb_prop in R as [R R3]. apply andb_prop in R as [R1 R2]. apply Nat.eqb_eq in R2. subst cw0.
    rewrite wf_f_list in W. apply andb_prop in W as [W1 W2].
    rewrite run_wstep_list, enc_f_list, size_f_list, (run_wlist_sound s p (IH _ R3) v W2). reflexivity.
  - intros cw w nm st R en v W. destruct st; cbn [realise_wf] in R; try discriminate.
    apply andb_prop in R as [R R3]. apply andb_prop in R as [R1 R2].
    apply Nat.eqb_eq in R2, R3. subst cw0 w0.
    rewrite wf_f_ints in W. apply andb_prop in W as [W1 W2].
    rewrite run_wstep_ints, enc_f_ints, (run_wints_sound w v W2). reflexivity.
  - intros cw nm st R en v W. destruct st; cbn [realise_wf] in R; try discriminate.
    apply andb_prop in R as [R1 R2]. apply Nat.eqb_eq in R2. subst cw0.
    destruct v as [|b| |]; cbn [wf_f] in W; try discriminate. reflexivity.
  - intros cw e nm st R en v W. destruct st; cbn [realise_wf] in R; try discriminate.
    destruct v as [|b| |]; cbn [wf_f] in W; try discriminate. reflexivity.
Qed.

Theorem realise_w_sound : forall s p, realise_w s p = true ->
  forall en v, wf_s s en v = true -> run_w p v = (enc_s s v, size_s s v).
Proof. exact (proj1 realise_w_mut). Qed.

(* ---------- TotalSize ---------- *)
Definition run_zlist (p : zprog) : value -> Z :=
  fix go (l : value) : Z := match l with VCons x xs => run_z p x + go xs | _ => 0 end.

Lemma run_zstep_list cw p v : run_zstep (ZList cw p) v = ocw cw + run_zlist p v.
Proof. reflexivity. Qed.

Lemma run_zlist_sound s p (IH : forall v, run_z p v = size_s s v) :
  forall l, run_zlist p l = size_list s l.
Proof.
  induction l as [z|b| |x _ xs IHxs]; try reflexivity.
  cbn [run_zlist size_list]. fold (run_zlist p) (size_list s). now rewrite IH, IHxs.
Qed.

Lemma ocw_is_eq cw c : ocw_is cw c = true -> ocw cw = Z.of_nat c.
Proof. destruct cw as [c'|]; cbn; intros H; [apply Nat.eqb_eq in H; now subst|discriminate]. Qed.

Lemma realise_z_mut :
  (forall s p, realise_z s p = true -> forall v, run_z p v = size_s s v) /\
  (forall t st, realise_zf t st = true -> forall v, run_zstep st v = size_f t v).
Proof.
  apply schema_fty_ind.
  - intros p R v. destruct p; cbn [realise_z] in R; try discriminate. reflexivity.
  - intros name t IHt rest IHr p R v.
    destruct p as [|f st p']; cbn [realise_z] in R; try discriminate.
    apply andb_prop in R as [R R3]. apply andb_prop in R as [R1 R2].
    destruct v as [| | |x xs]; try reflexivity.
    cbn [run_z size_s]. now rewrite (IHt _ R2), (IHr _ R3).
  - intros w st R v. destruct st; cbn [realise_zf] in R; try discriminate. cbn [run_zstep size_f]. lia.
  - intros n st R v. destruct st; cbn [realise_zf] in R; try discriminate. cbn [run_zstep size_f]. lia.
  - intros s IH rh st R v. destruct st; cbn [realise_zf] in R; try discriminate.
    cbn [run_zstep size_f]. now apply IH.
  - intros cw s IH rh st R v. destruct st; cbn [realise_zf] in R; try discriminate.
    apply andb_prop in R as [R1 R2].
    rewrite run_zstep_list, size_f_list, (ocw_is_eq _ _ R1), (run_zlist_sound s p (IH _ R2)). reflexivity.
  - intros cw w st R v. destruct st; cbn [realise_zf] in R; try discriminate.
    apply andb_prop in R as [R1 R2]. apply Nat.eqb_eq in R2. subst w0.
    cbn [run_zstep size_f]. now rewrite (ocw_is_eq _ _ R1).
  - intros cw st R v. destruct st; cbn [realise_zf] in R; try discriminate.
    cbn [run_zstep size_f]. now rewrite (ocw_is_eq _ _ R).
  - intros cw e st R v. destruct st; cbn [realise_zf] in R; try discriminate.
    destruct cw0; try discriminate. cbn [run_zstep size_f ocw]. lia.
Qed.

Theorem realise_z_sound : forall s p, realise_z s p = true -> forall v, run_z p v = size_s s v.
Proof. exact (proj1 realise_z_mut). Qed.

Lemma realise_zf_sound : forall t st, realise_zf t st = true -> forall v, run_zstep st v = size_f t v.
Proof. exact (proj2 realise_z_mut). Qed.

(* ---------- <F>Offset ---------- *)
Lemma wf_field : forall i s en v n, wf_s s en v = true -> nth_error (names_s s) i = Some n ->
  exists t x, field_s s i = Some t /\ vnth v i = Some x.
Proof.
  induction i as [|i IH]; intros s en v n W N; destruct s as [|nm t rest]; cbn [names_s nth_error] in N;
    try discriminate; destruct v as [| | |x xs]; cbn [wf_s] in W; try discriminate.
  - exists t, x. split; reflexivity.
  - apply andb_prop in W as [W1 W2]. cbn [field_s vnth]. eapply IH; eauto.
Qed.

Lemma offset_s_succ : forall i s en v t x, wf_s s en v = true ->
  field_s s i = Some t -> vnth v i = Some x ->
  offset_s s v (S i) = offset_s s v i + size_f t x.
Proof.
  induction i as [|i IH]; intros s en v t x W F X; destruct s as [|nm t' rest]; cbn [field_s] in F;
    try discriminate; destruct v as [| | |x' xs]; cbn [vnth] in X; try discriminate;
    cbn [wf_s] in W; apply andb_prop in W as [W1 W2].
  - inversion F; inversion X; subst. cbn [offset_s]. destruct rest, xs; cbn [offset_s]; lia.
  - change (offset_s (SCons nm t' rest) (VCons x' xs) (S (S i)))
      with (size_f t' x' + offset_s rest xs (S i)).
    rewrite (IH rest _ xs t x W2 F X). cbn [offset_s]. lia.
Qed.

Lemma existsb_name_false n l : existsb (name_eqb n) l = false -> forall m, In m l -> name_eqb n m = false.
Proof.
  induction l as [|y l IH]; cbn [existsb In]; intros H m I; [contradiction|].
  apply orb_false_elim in H as [H1 H2]. destruct I as [E|I]; [now subst|auto].
Qed.

Lemma lookup_off_nth : forall names prev offs i n,
  offsets_ok prev names offs = true -> nodup_names names = true ->
  nth_error names i = Some n ->
  lookup_off offs n = Some (match i with O => prev | S j => nth_error names j end).
Proof.
  induction names as [|n0 names IH]; intros prev offs i n OK ND N; [destruct i; discriminate|].
  destruct offs as [|[f o] offs]; cbn [offsets_ok] in OK; try discriminate.
  apply andb_prop in OK as [OK OK3]. apply andb_prop in OK as [OK1 OK2].
  apply name_eqb_eq in OK1. subst f.
  cbn [nodup_names] in ND. apply andb_prop in ND as [ND1 ND2]. apply negb_true_iff in ND1.
  destruct i as [|j]; cbn [nth_error] in N.
  - inversion N; subst n. cbn [lookup_off]. rewrite name_eqb_refl. f_equal.
    destruct prev as [g|], o as [g'|]; try discriminate; auto.
    apply name_eqb_eq in OK2. now subst.
  - cbn [lookup_off].
    assert (Hne : name_eqb n0 n = false).
    { apply (existsb_name_false _ _ ND1). eapply nth_error_In; eauto. }
    rewrite Hne. rewrite (IH (Some n0) offs j n OK3 ND2 N).
    destruct j; reflexivity.
Qed.

Lemma zindex_nth : forall s p i n, realise_z s p = true -> nodup_names (names_s s) = true ->
  nth_error (names_s s) i = Some n -> zindex p n = Some i.
Proof.
  induction s as [|nm t rest IH].
  - intros p i n R ND N. destruct i; discriminate.
  - intros p i n R ND N. destruct p as [|f st p']; cbn [realise_z] in R; try discriminate.
    apply andb_prop in R as [R R3]. apply andb_prop in R as [R1 R2]. apply name_eqb_eq in R1. subst f.
    cbn [names_s nodup_names] in ND. apply andb_prop in ND as [ND1 ND2]. apply negb_true_iff in ND1.
    destruct i as [|j]; cbn [names_s nth_error] in N.
    + inversion N; subst. cbn [zindex]. now rewrite name_eqb_refl.
    + cbn [zindex].
      assert (Hne : name_eqb nm n = false).
      { apply (existsb_name_false _ _ ND1). eapply nth_error_In; eauto. }
      rewrite Hne, (IH p' j n R3 ND2 N). reflexivity.
Qed.

Lemma run_zfield_sound : forall i s p v t x, realise_z s p = true ->
  field_s s i = Some t -> vnth v i = Some x -> run_zfield p v i = size_f t x.
Proof.
  induction i as [|i IH]; intros s p v t x R F X; destruct s as [|nm t' rest]; cbn [field_s] in F;
    try discriminate; destruct v as [| | |x' xs]; cbn [vnth] in X; try discriminate;
    destruct p as [|f st p']; cbn [realise_z] in R; try discriminate;
    apply andb_prop in R as [R R3]; apply andb_prop in R as [R1 R2].
  - inversion F; inversion X; subst. cbn [run_zfield]. now apply realise_zf_sound.
  - cbn [run_zfield]. eapply IH; eauto.
Qed.

Theorem offsets_sound : forall d ir, ops_realise d ir = true ->
  forall en v, wf_s (sd_schema d) en v = true ->
  forall i n fuel, nth_error (names_s (sd_schema d)) i = Some n -> (i < fuel)%nat ->
  run_off fuel ir v n = Some (offset_s (sd_schema d) v i).
Proof.
  intros d ir R en v W. unfold ops_realise in R.
  repeat (apply andb_prop in R as [R ?]).
  rename H into Hrh, H0 into Hnd, H1 into Hoff, H2 into Htot, H3 into Hz.
  induction i as [|i IH]; intros n fuel N L; (destruct fuel as [|fuel]; [lia|]); cbn [run_off].
  - rewrite (lookup_off_nth _ _ _ _ _ Hoff Hnd N). destruct (sd_schema d); reflexivity.
  - rewrite (lookup_off_nth _ _ _ _ _ Hoff Hnd N).
    destruct (nth_error (names_s (sd_schema d)) i) as [g|] eqn:G.
    + rewrite (IH g fuel eq_refl) by lia. rewrite (zindex_nth _ _ _ _ Hz Hnd G).
      destruct (wf_field _ _ _ _ _ W G) as (t & x & F & X).
      rewrite (run_zfield_sound _ _ _ _ _ _ Hz F X), (offset_s_succ _ _ _ _ _ _ W F X). reflexivity.
    + exfalso. apply nth_error_None in G. assert (nth_error (names_s (sd_schema d)) (S i) <> None) by congruence.
      apply nth_error_Some in H. lia.
Qed.

(* ---------- everything together ---------- *)
Theorem ops_realise_sound : forall d ir, ops_realise d ir = true ->
  (forall en b, run_r (ir_read ir) en b = tag_size (sd_schema d) (dec_s (sd_schema d) en b)) /\
  (forall en v, wf_s (sd_schema d) en v = true ->
     run_w (ir_write ir) v = (enc_s (sd_schema d) v, size_s (sd_schema d) v)) /\
  (forall v, run_z (ir_sizes ir) v = size_s (sd_schema d) v) /\
  ir_total ir = names_s (sd_schema d) /\
  ir_rehash ir = sd_rh d.
Proof.
  intros d ir R. unfold ops_realise in R. repeat (apply andb_prop in R as [R ?]).
  split; [now apply realise_r_sound|]. split; [now apply realise_w_sound|].
  split; [now apply realise_z_sound|]. split.
  - clear -H2. revert H2. generalize (names_s (sd_schema d)) (ir_total ir).
    intros la. induction la as [|x la IH]; intros lb; destruct lb as [|y lb]; cbn [strlist_eqb];
      intros E; try discriminate; auto.
    apply andb_prop in E as [E1 E2]. apply name_eqb_eq in E1. subst. f_equal. now apply IH.
  - symmetry. now apply rhspec_eqb_eq.
Qed.
