(* Proofs/NvarProofs.v — lemmas about Model/Nvar.v (property C10). *)
From Fiano Require Import Base.Bytes Base.BytesLemmas Gen.Consts Model.Nvar.
From Coq Require Import ZifyBool ZifyNat.
Open Scope Z_scope.

(* ---------- generic list / byte facts ---------- *)

Lemma sub_app_l (a b : bytes) off len :
  0 <= off -> 0 <= len -> off + len <= zlen a -> sub off len (a ++ b) = sub off len a.
Proof.
  intros Ho Hl Hb. unfold sub, zfirstn, zskipn.
  rewrite skipn_app. rewrite firstn_app.
  replace (Z.to_nat len - length (skipn (Z.to_nat off) a))%nat with 0%nat
    by (rewrite skipn_length; unfold zlen in *; lia).
  simpl. apply app_nil_r.
Qed.

Lemma zlen_zrepeat x n : 0 <= n -> zlen (zrepeat x n) = n.
Proof.
  intros. unfold zrepeat, zlen.
  assert (Hr : forall k, length (repeatz x k) = k) by (induction k; simpl; auto).
  rewrite Hr. lia.
Qed.

Lemma zfirstn_app_ge {A} (a b : list A) n : zlen a <= n ->
  zfirstn n (a ++ b) = a ++ zfirstn (n - zlen a) b.
Proof.
  intros H. unfold zfirstn, zlen in *. rewrite firstn_app.
  rewrite firstn_all2 by lia. f_equal. f_equal. lia.
Qed.

Lemma zskipn_app_ge {A} (a b : list A) n : zlen a <= n ->
  zskipn n (a ++ b) = zskipn (n - zlen a) b.
Proof.
  intros H. unfold zskipn, zlen in *. rewrite skipn_app.
  rewrite skipn_all2 by lia. simpl. f_equal. lia.
Qed.

Lemma zskipn_0 {A} (l : list A) : zskipn 0 l = l.
Proof. reflexivity. Qed.

Lemma zfirstn_all {A} (l : list A) n : zlen l <= n -> zfirstn n l = l.
Proof. intros. unfold zfirstn, zlen in *. apply firstn_all2. lia. Qed.

Lemma slice_app_mid (a d c : bytes) :
  slice (zlen a) (zlen a + zlen d) (a ++ d ++ c) = Some d.
Proof.
  pose proof (zlen_nonneg a). pose proof (zlen_nonneg d). pose proof (zlen_nonneg c).
  rewrite slice_ok by (rewrite ?zlen_app; lia).
  replace (zlen a + zlen d - zlen a) with (zlen d) by lia.
  rewrite sub_app_mid. reflexivity.
Qed.

Lemma slice_prefix (d c : bytes) : slice 0 (zlen d) (d ++ c) = Some d.
Proof. apply (slice_app_mid [] d c). Qed.

Lemma slice_suffix (a d : bytes) : slice (zlen a) (zlen a + zlen d) (a ++ d) = Some d.
Proof.
  pose proof (slice_app_mid a d []) as H. rewrite app_nil_r in H. exact H.
Qed.

Lemma list_pair_ind {A} (P : list A -> Prop) :
  P [] -> (forall x, P [x]) -> (forall x y l, P l -> P (x :: y :: l)) -> forall l, P l.
Proof.
  intros H0 H1 H2.
  assert (H : forall l, P l /\ forall x, P (x :: l)).
  { induction l as [|a l [IH1 IH2]]; split; auto. }
  intros l; apply H.
Qed.

(* ---------- the entry header ---------- *)

Lemma zlen_emit_header s n a : zlen (emit_header s n a) = 10.
Proof.
  unfold emit_header. rewrite !zlen_app, le2, (zlen_le_enc 3). reflexivity.
Qed.

Lemma header_sig s n a r : sub 0 4 (emit_header s n a ++ r) = nvar_signature.
Proof.
  unfold emit_header. rewrite <- !app_assoc. apply sub_app_here. reflexivity.
Qed.

Lemma header_size s n a r : 0 <= s < 2 ^ 16 -> rd 4 2 (emit_header s n a ++ r) = s.
Proof.
  intros. unfold emit_header. rewrite <- !app_assoc.
  rewrite (rd_app_skip _ _ 4 2 4) by (auto; reflexivity || lia). simpl Z.sub.
  rewrite rd_app_here by apply le2. apply le_dec_enc. simpl. lia.
Qed.

Lemma header_next s n a r : 0 <= n < 2 ^ 24 -> rd 6 3 (emit_header s n a ++ r) = n.
Proof.
  intros. unfold emit_header. rewrite <- !app_assoc.
  rewrite (rd_app_skip _ _ 6 3 4) by (auto; reflexivity || lia). simpl Z.sub.
  rewrite (rd_app_skip _ _ 2 3 2) by (try apply le2; lia). simpl Z.sub.
  rewrite rd_app_here by apply (zlen_le_enc 3). apply le_dec_enc. simpl. lia.
Qed.

Lemma header_attrs s n a r : 0 <= a < 256 -> rd 9 1 (emit_header s n a ++ r) = a.
Proof.
  intros. unfold emit_header. rewrite <- !app_assoc.
  rewrite (rd_app_skip _ _ 9 1 4) by (auto; reflexivity || lia). simpl Z.sub.
  rewrite (rd_app_skip _ _ 5 1 2) by (try apply le2; lia). simpl Z.sub.
  rewrite (rd_app_skip _ _ 3 1 3) by (try apply (zlen_le_enc 3); lia). simpl Z.sub.
  rewrite (rd_app_here [a]) by reflexivity. simpl. lia.
Qed.

Lemma zlen_emit_entry e : zlen (emit_entry e) = ae_size e.
Proof. unfold emit_entry, ae_size. rewrite zlen_app, zlen_emit_header. reflexivity. Qed.

Lemma ae_size_ge e : 10 <= ae_size e.
Proof. unfold ae_size. pose proof (zlen_nonneg (ae_body e)). unfold nvar_header_size. lia. Qed.

(* ---------- names ---------- *)

Lemma find_nul_name s d : nonzero_bytes s = true -> find_nul (s ++ 0 :: d) = Some (zlen s).
Proof.
  induction s as [|x s IH]; intros H; [reflexivity|].
  cbn [nonzero_bytes forallb] in H. apply andb_true_iff in H as [Hx Hs].
  cbn [app find_nul]. replace (x =? 0) with false by lia.
  fold (nonzero_bytes s) in Hs. rewrite (IH Hs). rewrite zlen_cons. f_equal. lia.
Qed.

Lemma bmp_ok_cons2 lo hi r : bmp_ok (lo :: hi :: r) = true ->
  0 <= lo < 256 /\ 0 <= hi < 256 /\ lo + 256 * hi <> 0 /\ is_surr (lo + 256 * hi) = false /\ bmp_ok r = true.
Proof.
  cbn [bmp_ok]. intros H. repeat (apply andb_true_iff in H as [H ?]).
  unfold byte_ok in *. repeat split; try lia; auto.
  all: try (destruct (is_surr _); [discriminate|reflexivity]).
Qed.

Lemma find_nul16_name u d : bmp_ok u = true -> find_nul16 (u ++ 0 :: 0 :: d) = Some (zlen u).
Proof.
  induction u as [| x | lo hi r IH] using list_pair_ind; intros H.
  - reflexivity.
  - discriminate.
  - apply bmp_ok_cons2 in H as (Hl & Hh & Hn & _ & Hr).
    cbn [app find_nul16]. replace ((lo =? 0) && (hi =? 0)) with false by lia.
    rewrite (IH Hr). rewrite !zlen_cons. f_equal. lia.
Qed.

Lemma bmp_ok_bytes u : bmp_ok u = true -> bytes_ok u = true.
Proof.
  induction u as [| x | lo hi r IH] using list_pair_ind; intros H; auto; try discriminate.
  apply bmp_ok_cons2 in H as (Hl & Hh & _ & _ & Hr).
  rewrite !bytes_ok_cons, (IH Hr). unfold byte_ok. lia.
Qed.

Lemma nonzero_bytes_ok s : nonzero_bytes s = true -> bytes_ok s = true.
Proof.
  induction s as [|x s IH]; intros H; auto.
  cbn [nonzero_bytes forallb] in H. apply andb_true_iff in H as [Hx Hs].
  rewrite bytes_ok_cons. fold (nonzero_bytes s) in Hs. rewrite (IH Hs). unfold byte_ok. lia.
Qed.

(* ---------- the GUID table ---------- *)

Lemma zlen_rev {A} (l : list A) : zlen (rev l) = zlen l.
Proof. unfold zlen. rewrite rev_length. reflexivity. Qed.

Definition table_ok (t : list bytes) : Prop := forall g, In g t -> zlen g = 16.

Lemma zlen_concat_table t : table_ok t -> zlen (concat t) = 16 * zlen t.
Proof.
  induction t as [|g t IH]; intros H; [reflexivity|].
  cbn [concat]. rewrite zlen_app, zlen_cons, IH, (H g) by (try (left; reflexivity); intros x Hx; apply H; right; auto). lia.
Qed.

Lemma table_ok_rev t : table_ok t -> table_ok (rev t).
Proof. intros H g Hg. apply H. apply in_rev. exact Hg. Qed.

Lemma table_guid_at (p : bytes) t j :
  table_ok t -> (j < length t)%nat ->
  sub (zlen (p ++ concat (rev t)) - 16 * (Z.of_nat j + 1)) 16 (p ++ concat (rev t)) = nth j t zero_guid.
Proof.
  revert p j; induction t as [|a t IH]; intros p j Hok Hj; [simpl in Hj; lia|].
  assert (Ha : zlen a = 16) by (apply Hok; left; reflexivity).
  assert (Ht : table_ok t) by (intros x Hx; apply Hok; right; auto).
  cbn [rev]. rewrite concat_app. cbn [concat]. rewrite app_nil_r, app_assoc.
  set (q := p ++ concat (rev t)).
  pose proof (zlen_nonneg q) as Hq.
  rewrite zlen_app, Ha.
  destruct j as [|j].
  - cbn [nth]. replace (zlen q + 16 - 16 * (Z.of_nat 0 + 1)) with (zlen q) by lia.
    rewrite <- Ha. pose proof (sub_app_mid q a []) as E. rewrite app_nil_r in E. exact E.
  - cbn [nth]. cbn [length] in Hj.
    assert (Hlen : 16 * (Z.of_nat j + 1) <= zlen q).
    { unfold q. rewrite zlen_app, zlen_concat_table by (apply table_ok_rev; auto).
      pose proof (zlen_nonneg p). rewrite zlen_rev. unfold zlen in *. lia. }
    replace (zlen q + 16 - 16 * (Z.of_nat (S j) + 1)) with (zlen q - 16 * (Z.of_nat j + 1)) by lia.
    rewrite sub_app_l by lia. unfold q. apply IH; auto. lia.
Qed.

Lemma firstn_snoc_nth {A} (t : list A) d n : (n < length t)%nat ->
  firstn n t ++ [nth n t d] = firstn (S n) t.
Proof.
  revert n; induction t as [|x t IH]; intros n H; [simpl in H; lia|].
  destruct n as [|n]; [reflexivity|].
  cbn [firstn nth app]. f_equal. apply IH. simpl in H. lia.
Qed.

Lemma firstn_nth_seq {A} (t : list A) d n m : (n + m <= length t)%nat ->
  firstn n t ++ map (fun k => nth k t d) (seq n m) = firstn (n + m) t.
Proof.
  revert n; induction m as [|m IH]; intros n H.
  - simpl. rewrite app_nil_r, Nat.add_0_r. reflexivity.
  - cbn [seq map]. replace (n + S m)%nat with (S n + m)%nat by lia.
    rewrite <- (IH (S n)) by lia.
    rewrite <- (firstn_snoc_nth t d n) by lia. rewrite <- app_assoc. reflexivity.
Qed.

Lemma get_guid_table (p : bytes) t k i :
  table_ok t -> 0 <= k <= zlen t -> 0 <= i < zlen t -> zlen t <= 255 ->
  get_guid (p ++ concat (rev t)) (zfirstn k t) i =
    (nth (Z.to_nat i) t zero_guid, zfirstn (Z.max k (i + 1)) t).
Proof.
  intros Hok Hk Hi Ht. unfold get_guid.
  set (sb := p ++ concat (rev t)).
  rewrite Z.mod_small by lia.
  rewrite zlen_zfirstn by lia.
  assert (Hsb : 16 * zlen t <= zlen sb).
  { unfold sb. rewrite zlen_app, zlen_concat_table by (apply table_ok_rev; auto).
    pose proof (zlen_nonneg p). rewrite zlen_rev. lia. }
  unfold nvar_guid_size.
  destruct (k <? i + 1) eqn:Ek.
  - replace (zlen sb - 16 * (i + 1) <? 0) with false by lia.
    replace (Z.max k (i + 1)) with (i + 1) by lia.
    assert (E : zfirstn k t ++ map (fun k0 : nat => sub (zlen sb - 16 * (Z.of_nat k0 + 1)) 16 sb)
                                  (seq (Z.to_nat k) (Z.to_nat (i + 1 - k))) = zfirstn (i + 1) t).
    { unfold zfirstn.
      replace (Z.to_nat (i + 1)) with (Z.to_nat k + Z.to_nat (i + 1 - k))%nat by lia.
      rewrite <- (firstn_nth_seq t zero_guid) by (unfold zlen in *; lia).
      f_equal. apply map_ext_in. intros j Hj. apply in_seq in Hj.
      unfold sb. apply table_guid_at; auto. unfold zlen in *. lia. }
    rewrite E. rewrite zlen_zfirstn by lia.
    replace (i + 1 <=? i) with false by lia. f_equal.
    unfold zfirstn. rewrite <- (firstn_skipn (Z.to_nat (i + 1)) t) at 2.
    rewrite app_nth1; auto. rewrite firstn_length. unfold zlen in *. lia.
  - replace (Z.max k (i + 1)) with k by lia.
    rewrite zlen_zfirstn by lia. replace (k <=? i) with false by lia. f_equal.
    unfold zfirstn. rewrite <- (firstn_skipn (Z.to_nat k) t) at 2.
    rewrite app_nth1; auto. rewrite firstn_length. unfold zlen in *. lia.
Qed.

(* ---------- parsing what [emit] wrote ---------- *)

Lemma wf_entry_common nt e : wf_entry nt e = true ->
  0 <= ae_attrs e < 256 /\ 0 <= ae_next e < 2 ^ 24 /\ ae_size e < 2 ^ 16.
Proof.
  unfold wf_entry. intros H. repeat (apply andb_true_iff in H as [H ?]). lia.
Qed.

Lemma wf_entry_full nt a n g nm d : wf_entry nt (AFull a n g nm d) = true ->
  ATTR a nvar_attr_valid = true /\ ATTR a nvar_attr_dataonly = false /\
  ATTR a nvar_attr_ascii = is_ascii nm /\ ATTR a nvar_attr_guid = is_inline g /\
  (ext_ok (AFull a n g nm d) = true -> wf_gref nt g = true) /\
  wf_name nm = true /\ bytes_ok d = true /\ prefixb nvar_signature d = false /\
  match g with GInline g => bytes_ok g = true /\ zlen g = 16 | GIndex i => 0 <= i < 256 end.
Proof.
  unfold wf_entry. intros H. apply andb_true_iff in H as [_ H].
  repeat (apply andb_true_iff in H as [H ?]).
  apply negb_true_iff in H7. apply eqb_prop in H6. apply eqb_prop in H5.
  unfold no_nested in H1. apply negb_true_iff in H1.
  repeat split; auto.
  - intros X. rewrite X in H4. exact H4.
  - destruct g as [g0|i0].
    + apply andb_true_iff in H0 as [Hb Hl]. split; [exact Hb|]. apply Z.eqb_eq in Hl. exact Hl.
    + unfold byte_ok in H0. apply andb_true_iff in H0 as [Hb Hl].
      apply Z.leb_le in Hb. apply Z.ltb_lt in Hl. split; assumption.
Qed.

Lemma wf_entry_data nt a n d : wf_entry nt (AData a n d) = true ->
  ATTR a nvar_attr_valid = true /\ ATTR a nvar_attr_dataonly = true /\
  bytes_ok d = true /\ prefixb nvar_signature d = false.
Proof.
  unfold wf_entry. intros H. apply andb_true_iff in H as [_ H].
  repeat (apply andb_true_iff in H as [H ?]).
  unfold no_nested in H0. apply negb_true_iff in H0. auto.
Qed.

Lemma wf_entry_dead nt a n b : wf_entry nt (ADead a n b) = true ->
  ATTR a nvar_attr_valid = false /\ bytes_ok b = true.
Proof.
  unfold wf_entry. intros H. apply andb_true_iff in H as [_ H].
  apply andb_true_iff in H as [H ?]. apply negb_true_iff in H. auto.
Qed.

Lemma is_erased_entry pol e rest : pol = 0 \/ pol = 255 -> is_erased pol (emit_entry e ++ rest) = false.
Proof.
  intros Hp. unfold emit_entry, emit_header, nvar_signature. cbn [app is_erased forallb].
  replace (78 =? pol) with false by lia. reflexivity.
Qed.

Lemma parse_next_ok pol off next : pol = 0 \/ pol = 255 ->
  parse_next pol off next = Ok (next_of pol off next).
Proof.
  intros [->| ->]; unfold parse_next, next_of; cbn [Z.eqb]; simpl (_ =? _)%positive.
  - destruct (next =? 0); reflexivity.
  - destruct (next =? 16777215); reflexivity.
Qed.

Lemma full_slices a n g nm d :
  slice 10 (ae_size (AFull a n g nm d)) (emit_entry (AFull a n g nm d)) =
    Some (gref_bytes g ++ name_bytes nm ++ d) /\
  slice (10 + zlen (gref_bytes g)) (ae_size (AFull a n g nm d)) (emit_entry (AFull a n g nm d)) =
    Some (name_bytes nm ++ d) /\
  slice (10 + zlen (gref_bytes g) + zlen (name_bytes nm)) (ae_size (AFull a n g nm d))
        (emit_entry (AFull a n g nm d)) = Some d.
Proof.
  set (e := AFull a n g nm d).
  set (h := emit_header (ae_size e) n a).
  assert (Lh : zlen h = 10) by apply zlen_emit_header.
  assert (Ee : emit_entry e = h ++ gref_bytes g ++ name_bytes nm ++ d) by reflexivity.
  assert (Ls : ae_size e = 10 + (zlen (gref_bytes g) + (zlen (name_bytes nm) + zlen d))).
  { unfold ae_size, nvar_header_size, e. cbn [ae_body]. rewrite !zlen_app. reflexivity. }
  rewrite Ee. repeat split.
  - rewrite <- Lh at 1. replace (ae_size e) with (zlen h + zlen (gref_bytes g ++ name_bytes nm ++ d))
      by (rewrite Ls, Lh, !zlen_app; reflexivity).
    apply slice_suffix.
  - rewrite app_assoc.
    replace (10 + zlen (gref_bytes g)) with (zlen (h ++ gref_bytes g)) by (rewrite zlen_app, Lh; reflexivity).
    replace (ae_size e) with (zlen (h ++ gref_bytes g) + zlen (name_bytes nm ++ d))
      by (rewrite Ls, !zlen_app, Lh; ring).
    apply slice_suffix.
  - rewrite !app_assoc.
    replace (10 + zlen (gref_bytes g) + zlen (name_bytes nm)) with (zlen ((h ++ gref_bytes g) ++ name_bytes nm))
      by (rewrite !zlen_app, Lh; reflexivity).
    replace (ae_size e) with (zlen ((h ++ gref_bytes g) ++ name_bytes nm) + zlen d)
      by (rewrite Ls, !zlen_app, Lh; ring).
    apply slice_suffix.
Qed.

Lemma entry_fields e rest : 0 <= ae_attrs e < 256 -> 0 <= ae_next e < 2 ^ 24 -> ae_size e < 2 ^ 16 ->
  sub 0 4 (emit_entry e ++ rest) = nvar_signature /\ rd 4 2 (emit_entry e ++ rest) = ae_size e /\
  rd 6 3 (emit_entry e ++ rest) = ae_next e /\ rd 9 1 (emit_entry e ++ rest) = ae_attrs e.
Proof.
  intros. pose proof (ae_size_ge e). unfold emit_entry. rewrite <- app_assoc.
  rewrite header_sig, header_size, header_next, header_attrs by lia. auto.
Qed.

(* on a buffer of exactly Size >= 10 bytes the extended header never indexes out of range *)
Lemma parse_ext_total a size buf : zlen buf = size ->
  (exists x, parse_ext a size buf 10 = Ok x) \/ (exists c, parse_ext a size buf 10 = Err c).
Proof.
  intros L. unfold parse_ext.
  destruct (negb (ATTR a nvar_attr_ext)); [left; eauto|].
  destruct (zlen buf <? 2) eqn:E2; [right; eauto|].
  set (xs := rd (zlen buf - 2) 2 buf).
  destruct (size - 10 <? xs) eqn:E3; [right; eauto|].
  destruct (zlen buf <=? size - xs) eqn:E4; [right; eauto|].
  assert (I1 : exists xa, index (size - xs) buf = Some xa).
  { unfold index. replace ((0 <=? size - xs) && (size - xs <? zlen buf)) with true by lia.
    destruct (nth_error buf (Z.to_nat (size - xs))) eqn:N; eauto.
    apply nth_error_None in N. unfold zlen in *. lia. }
  destruct I1 as [xa ->]. cbn [of_opt bind].
  assert (I2 : exists st, index (size - 3) buf = Some st).
  { unfold index. replace ((0 <=? size - 3) && (size - 3 <? zlen buf)) with true by lia.
    destruct (nth_error buf (Z.to_nat (size - 3))) eqn:N; eauto.
    apply nth_error_None in N. unfold zlen in *. lia. }
  destruct I2 as [st ->]. cbn [of_opt bind].
  destruct (ATTR xa nvar_ext_checksum); cbn [bind fst snd];
  (destruct (negb (ATTR a nvar_attr_auth)); [|left; eauto];
   destruct (zlen buf <? size - xs + 9) eqn:E5; [right; eauto|];
   destruct (ATTR a nvar_attr_dataonly); [|left; eauto];
   destruct (size <? size - xs + 9 + 32) eqn:E6; [right; eauto|];
   rewrite slice_ok by lia; cbn [of_opt bind]; left; eauto).
Qed.

Lemma wf_store_spec pol s : wf_store pol s = true ->
  (pol = 0 \/ pol = 255) /\ store_len s < 2 ^ 47 /\
  forallb (wf_entry (zlen (a_table s))) (a_entries s) = true /\
  table_ok (a_table s) /\ zlen (a_table s) <= 255 /\
  discovered 0 (a_entries s) = zlen (a_table s) /\
  first_next_ok pol (a_entries s) = true /\ 0 <= a_free s.
Proof.
  unfold wf_store. intros H. repeat (apply andb_true_iff in H as [H ?]).
  repeat split; auto; try lia.
  intros g Hg. rewrite forallb_forall in H4. specialize (H4 g Hg).
  apply andb_true_iff in H4 as [_ L]. unfold nvar_guid_size in L. lia.
Qed.

Section WithCodec.
Variables dec16 enc16 : bytes -> bytes.
Hypothesis codec_rt : forall u, bmp_ok u = true -> enc16 (dec16 u ++ [0]) = u ++ [0; 0].
Hypothesis codec_nz : forall u, bmp_ok u = true ->
  match last_byte (dec16 u) with Some l => l <> 0 | None => True end.

Lemma ucs2_to_utf8_bmp u : bmp_ok u = true -> ucs2_to_utf8 dec16 true u = Ok (dec16 u).
Proof.
  intros H. unfold ucs2_to_utf8. pose proof (codec_nz u H) as N.
  destruct (last_byte (dec16 u)) as [l|]; [|reflexivity].
  replace (l =? 0) with false by lia. reflexivity.
Qed.

Lemma parse_name_emit a n d : wf_name n = true ->
  Bool.eqb (ATTR a nvar_attr_ascii) (is_ascii n) = true ->
  parse_name dec16 true a (name_bytes n ++ d) = Ok (name_utf8 dec16 n, zlen (name_bytes n)).
Proof.
  intros W E. apply eqb_prop in E. unfold parse_name. rewrite E.
  destruct n as [s|u]; cbn [is_ascii name_bytes name_utf8 wf_name] in *.
  - rewrite <- app_assoc. cbn [app]. rewrite find_nul_name by auto.
    rewrite zfirstn_app_exact. rewrite zlen_app. reflexivity.
  - rewrite <- app_assoc. cbn [app]. rewrite find_nul16_name by auto.
    rewrite zfirstn_app_exact. rewrite ucs2_to_utf8_bmp by auto. cbn [bind fst snd].
    rewrite zlen_app. reflexivity.
Qed.

Lemma new_nvar_emit pol nested table e rest off p prev k :
  pol = 0 \/ pol = 255 -> wf_entry (zlen table) e = true -> table_ok table ->
  0 <= k <= zlen table -> zlen table <= 255 ->
  new_nvar dec16 true pol nested (emit_entry e ++ rest) off (p ++ concat (rev table)) prev (zfirstn k table)
  = Ok (Some (let '(v, k') := interp_entry dec16 pol table e off prev k in (v, zfirstn k' table))).
Proof.
  intros Hpol W Htab Hk Ht.
  pose proof (wf_entry_common _ _ W) as (Ha & Hn & Hs).
  pose proof (ae_size_ge e) as Hs10.
  pose proof (zlen_nonneg rest) as Hr.
  unfold new_nvar.
  rewrite is_erased_entry by auto.
  rewrite zlen_app, zlen_emit_entry. unfold nvar_header_size.
  replace (ae_size e + zlen rest <? 10) with false by lia.
  destruct (entry_fields e rest Ha Hn Hs) as (F1 & F2 & F3 & F4). rewrite F1, F2, F3, F4.
  replace (bytes_eqb nvar_signature nvar_signature) with true by reflexivity. cbn [negb].
  replace (true && (ae_size e <? 10)) with false by lia.
  replace (ae_size e + zlen rest <? ae_size e) with false by lia.
  rewrite <- (zlen_emit_entry e) at 1. rewrite slice_prefix. cbn [of_opt bind].
  destruct e as [a n g nm d | a n d | a n b]; cbn [ae_attrs ae_next] in *.
  - (* full *)
    apply wf_entry_full in W as (Wv & Wdo & Easc & Egd & Wxg & Wnm & Wd & Wnn & Wg).
    rewrite Wv. cbn [negb]. rewrite parse_next_ok by auto.
    unfold interp_entry. cbn [ae_attrs ae_next]. destruct (next_of pol off n) as [t0 nextoff]. cbn [bind].
    unfold nvar_header_size.
    destruct (parse_ext_total a _ _ (zlen_emit_entry (AFull a n g nm d))) as [[ext EX]|[c EX]];
      rewrite EX; [|reflexivity].
    rewrite Wdo.
    rewrite zlen_emit_entry.
    destruct (full_slices a n g nm d) as (S1 & S2 & S3).
    rewrite S1. cbn [of_opt bind].
    assert (XO : ext_ok (AFull a n g nm d) = true).
    { unfold ext_ok. cbn [ae_attrs]. unfold nvar_header_size. rewrite EX. reflexivity. }
    specialize (Wxg XO).
    assert (Easc' : eqb (ATTR a nvar_attr_ascii) (is_ascii nm) = true) by (rewrite Easc; apply eqb_reflx).
    destruct g as [gb|i]; cbn [is_inline gref_bytes wf_gref] in *.
    + rewrite Egd. destruct Wg as [_ Lg]. unfold nvar_guid_size in *.
      rewrite Lg in S2, S3.
      rewrite zlen_app, Lg.
      replace (16 + zlen (name_bytes nm ++ d) <? 16) with false
        by (clear; pose proof (zlen_nonneg (name_bytes nm ++ d)); lia).
      rewrite <- Lg at 1. rewrite zfirstn_app_exact. cbn [bind].
      rewrite S2. cbn [of_opt bind].
      rewrite parse_name_emit by auto. cbn [bind fst snd].
      rewrite S3. cbn [of_opt bind].
      rewrite Wnn. cbn [negb].
      destruct (zlen d <? 4); reflexivity.
    + rewrite Egd. change (zlen [i]) with 1 in S2, S3.
      cbn [app]. rewrite get_guid_table by (auto; clear - Wxg; lia). cbn [bind].
      rewrite S2. cbn [of_opt bind].
      rewrite parse_name_emit by auto. cbn [bind fst snd].
      rewrite S3. cbn [of_opt bind].
      rewrite Wnn. cbn [negb].
      change (zlen [i]) with 1.
      destruct (zlen d <? 4); reflexivity.
  - (* data-only *)
    apply wf_entry_data in W as (Wv & Wdo & Wd & Wnn).
    rewrite Wv. cbn [negb]. rewrite parse_next_ok by auto.
    unfold interp_entry. cbn [ae_attrs ae_next]. destruct (next_of pol off n) as [t0 nextoff]. cbn [bind].
    unfold nvar_header_size.
    destruct (parse_ext_total a _ _ (zlen_emit_entry (AData a n d))) as [[ext EX]|[c EX]];
      rewrite EX; [|reflexivity].
    cbn [ae_attrs ae_next]. rewrite Wdo.
    rewrite zlen_emit_entry.
    assert (S3 : slice 10 (ae_size (AData a n d)) (emit_entry (AData a n d)) = Some d).
    { unfold emit_entry. cbn [ae_body ae_next ae_attrs].
      pose proof (zlen_emit_header (ae_size (AData a n d)) n a) as Lh.
      rewrite <- Lh at 1.
      replace (ae_size (AData a n d)) with (zlen (emit_header (ae_size (AData a n d)) n a) + zlen d) at 2
        by (rewrite Lh; reflexivity).
      apply slice_suffix. }
    destruct (find_link off prev) as [l|]; cbn [bind]; rewrite S3; cbn [of_opt bind];
      rewrite Wnn; cbn [negb]; destruct (zlen d <? 4); reflexivity.
  - (* valid bit clear *)
    apply wf_entry_dead in W as (Wv & _). rewrite Wv. cbn [negb]. reflexivity.
Qed.

Definition disc_step (k : Z) (e : aentry) : Z :=
  match e with
  | AFull _ _ (GIndex i) _ _ => if ext_ok e then Z.max k (i + 1) else k
  | _ => k
  end.

Lemma discovered_cons k e r : discovered k (e :: r) = discovered (disc_step k e) r.
Proof. reflexivity. Qed.

Lemma interp_entry_k pol table e off prev k :
  snd (interp_entry dec16 pol table e off prev k) = disc_step k e.
Proof.
  unfold interp_entry, disc_step, ext_ok.
  destruct e as [a n g nm d | a n d | a n b]; cbn [ae_attrs ae_next]; [| |reflexivity];
    destruct (next_of pol off n) as [t0 nextoff].
  - destruct (parse_ext a _ _ _) as [ext|x|x|]; cbn [is_ok]; destruct g; reflexivity.
  - destruct (parse_ext a _ _ _) as [ext|x|x|]; [destruct (find_link off prev)|..]; reflexivity.
Qed.

Lemma interp_entry_size pol table e off prev k :
  v_size (fst (interp_entry dec16 pol table e off prev k)) = ae_size e /\
  v_buf (fst (interp_entry dec16 pol table e off prev k)) = emit_entry e /\
  v_off (fst (interp_entry dec16 pol table e off prev k)) = off.
Proof.
  unfold interp_entry.
  destruct e as [a n g nm d | a n d | a n b]; cbn [ae_attrs ae_next]; [| |auto];
    destruct (next_of pol off n) as [t0 nextoff].
  - destruct (parse_ext a _ _ _) as [ext|x|x|]; [destruct g|..]; auto.
  - destruct (parse_ext a _ _ _) as [ext|x|x|]; [destruct (find_link off prev)|..]; auto.
Qed.

Lemma disc_step_bound nt k e : wf_entry nt e = true -> 0 <= k <= nt -> 0 <= disc_step k e <= nt.
Proof.
  intros W Hk. unfold disc_step. destruct e as [a n g nm d | |]; auto.
  destruct g as [|i]; auto.
  destruct (ext_ok _) eqn:X; auto.
  apply wf_entry_full in W as (_ & _ & _ & _ & Wg & _). specialize (Wg X).
  cbn [wf_gref] in Wg. lia.
Qed.

Lemma is_erased_zrepeat pol n : is_erased pol (zrepeat pol n) = true.
Proof.
  unfold zrepeat. induction (Z.to_nat n) as [|m IH]; [reflexivity|].
  cbn [repeatz is_erased forallb]. rewrite Z.eqb_refl. exact IH.
Qed.

Lemma zlen_emit_entries_cons e r : zlen (emit_entries (e :: r)) = ae_size e + zlen (emit_entries r).
Proof. unfold emit_entries. cbn [map concat]. rewrite zlen_app, zlen_emit_entry. reflexivity. Qed.

Lemma walk_emit pol table fr :
  pol = 0 \/ pol = 255 -> table_ok table -> zlen table <= 255 -> 0 <= fr ->
  forall rest fuel pre prev k,
    forallb (wf_entry (zlen table)) rest = true -> 0 <= k <= zlen table ->
    discovered k rest = zlen table -> (length rest < fuel)%nat ->
    walk dec16 true pol fuel (pre ++ emit_entries rest ++ zrepeat pol fr ++ concat (rev table))
         (zlen pre) (zlen (pre ++ emit_entries rest ++ zrepeat pol fr ++ concat (rev table)) - 16 * k)
         prev (zfirstn k table) =
    Ok (let '(es, k') := interp_entries dec16 pol table rest (zlen pre) prev k in
        let sbuf := pre ++ emit_entries rest ++ zrepeat pol fr ++ concat (rev table) in
        mkStore es (zfirstn k' table) sbuf (zlen pre + zlen (emit_entries rest))
                (zlen sbuf - 16 * k') (zlen sbuf)).
Proof.
  intros Hpol Htab Ht Hfr rest.
  assert (Lt : zlen (concat (rev table)) = 16 * zlen table)
    by (rewrite zlen_concat_table, zlen_rev by (apply table_ok_rev; auto); reflexivity).
  induction rest as [|e r IH]; intros fuel pre prev k W Hk D Hf.
  - cbn [discovered] in D. subst k.
    destruct fuel as [|f]; [simpl in Hf; lia|]. cbn [walk].
    cbn [interp_entries emit_entries map concat app].
    change (zlen (@nil Z)) with 0. rewrite Z.add_0_r.
    pose proof (zlen_nonneg pre) as Hp.
    rewrite !zlen_app, Lt, zlen_zrepeat by lia.
    replace (zlen pre + (fr + 16 * zlen table) - 16 * zlen table) with (zlen pre + fr) by lia.
    destruct (zlen pre <? zlen pre + fr) eqn:E; [|reflexivity].
    rewrite <- (zlen_zrepeat pol fr) at 1 by lia.
    rewrite slice_app_mid. cbn [of_opt bind].
    unfold new_nvar. rewrite is_erased_zrepeat. cbn [at_off bind].
    reflexivity.
  - cbn [forallb] in W. apply andb_true_iff in W as [We Wr].
    rewrite discovered_cons in D.
    destruct fuel as [|f]; [simpl in Hf; lia|]. cbn [walk].
    pose proof (zlen_nonneg pre) as Hp. pose proof (ae_size_ge e) as Hs10.
    pose proof (zlen_nonneg (emit_entries r)) as Hr.
    set (sbuf := pre ++ emit_entries (e :: r) ++ zrepeat pol fr ++ concat (rev table)).
    assert (Lsb : zlen sbuf = zlen pre + (ae_size e + zlen (emit_entries r)) + fr + 16 * zlen table).
    { unfold sbuf. rewrite !zlen_app, zlen_emit_entries_cons, Lt, zlen_zrepeat by lia. lia. }
    replace (zlen pre <? zlen sbuf - 16 * k) with true by lia.
    rewrite slice_ok by lia.
    set (tail := emit_entries r ++ zrepeat pol fr ++ concat (rev table)).
    assert (Esb : sbuf = pre ++ emit_entry e ++ tail).
    { unfold sbuf, tail, emit_entries. cbn [map concat]. rewrite <- !app_assoc. reflexivity. }
    assert (Esub : sub (zlen pre) (zlen sbuf - 16 * k - zlen pre) sbuf =
                   emit_entry e ++ zfirstn (zlen sbuf - 16 * k - zlen pre - ae_size e) tail).
    { rewrite Esb at 2. unfold sub. rewrite zskipn_app_exact.
      rewrite zfirstn_app_ge by (rewrite zlen_emit_entry; lia). rewrite zlen_emit_entry. reflexivity. }
    rewrite Esub. cbn [of_opt bind].
    assert (Esb2 : sbuf = (pre ++ emit_entries (e :: r) ++ zrepeat pol fr) ++ concat (rev table)).
    { unfold sbuf. rewrite <- !app_assoc. reflexivity. }
    pose proof (new_nvar_emit pol (fun c : bytes => walk dec16 true pol f c 0 (zlen c) [] []) table e
                  (zfirstn (zlen sbuf - 16 * k - zlen pre - ae_size e) tail) (zlen pre)
                  (pre ++ emit_entries (e :: r) ++ zrepeat pol fr) prev k Hpol We Htab Hk Ht) as NV.
    rewrite <- Esb2 in NV. rewrite NV. clear NV.
    cbn [interp_entries].
    pose proof (interp_entry_k pol table e (zlen pre) prev k) as Ek.
    pose proof (interp_entry_size pol table e (zlen pre) prev k) as (Es & _).
    destruct (interp_entry dec16 pol table e (zlen pre) prev k) as [v k'].
    cbn [fst snd] in *. subst k'. cbn [at_off bind]. rewrite Es.
    pose proof (disc_step_bound _ k e We Hk) as Hk'.
    rewrite zlen_zfirstn by lia. unfold nvar_guid_size.
    specialize (IH f (pre ++ emit_entry e) (prev ++ [v]) (disc_step k e) Wr Hk' D ltac:(simpl in Hf; lia)).
    assert (Esb3 : (pre ++ emit_entry e) ++ emit_entries r ++ zrepeat pol fr ++ concat (rev table) = sbuf).
    { rewrite Esb. unfold tail. rewrite <- !app_assoc. reflexivity. }
    rewrite Esb3 in IH. rewrite zlen_app, zlen_emit_entry in IH.
    rewrite IH.
    destruct (interp_entries dec16 pol table r (zlen pre + ae_size e) (prev ++ [v]) (disc_step k e)) as [es k2].
    rewrite zlen_emit_entries_cons. do 2 f_equal. lia.
Qed.

Lemma length_emit_entries l : (length l <= length (emit_entries l))%nat.
Proof.
  induction l as [|e r IH]; [simpl; lia|].
  unfold emit_entries in *. cbn [map concat]. rewrite app_length.
  pose proof (zlen_emit_entry e) as L. pose proof (ae_size_ge e). unfold zlen in L. simpl length. lia.
Qed.

Lemma zlen_emit_entries l : zlen (emit_entries l) = sum_list (map ae_size l).
Proof.
  induction l as [|e r IH]; [reflexivity|].
  rewrite zlen_emit_entries_cons, IH. reflexivity.
Qed.

Lemma zlen_emit pol s : table_ok (a_table s) -> 0 <= a_free s -> zlen (emit pol s) = store_len s.
Proof.
  intros Ht Hf. unfold emit, store_len.
  rewrite !zlen_app, zlen_emit_entries, zlen_zrepeat, zlen_concat_table, zlen_rev
    by (auto; apply table_ok_rev; auto).
  unfold nvar_guid_size. lia.
Qed.

(* NewNVarStore on the serialisation of a well-formed store returns its meaning *)
Theorem parse_emit pol s : wf_store pol s = true ->
  parse_store dec16 pol (emit pol s) = Ok (interp dec16 pol s).
Proof.
  intros W. apply wf_store_spec in W as (Hpol & Hlen & We & Htab & Ht & D & _ & Hfr).
  unfold parse_store, parse_store_gen.
  pose proof (walk_emit pol (a_table s) (a_free s) Hpol Htab Ht Hfr (a_entries s)
                (S (length (emit pol s))) [] [] 0 We ltac:(pose proof (zlen_nonneg (a_table s)); lia) D) as WK.
  cbn [app] in WK. change (zlen (@nil Z)) with 0 in WK.
  rewrite Z.sub_0_r in WK. change (zfirstn 0 (a_table s)) with (@nil bytes) in WK.
  fold (emit pol s) in WK. rewrite WK.
  - unfold interp. destruct (interp_entries dec16 pol (a_table s) (a_entries s) 0 [] 0) as [es k].
    unfold nvar_guid_size. reflexivity.
  - pose proof (length_emit_entries (a_entries s)). unfold emit. rewrite app_length. lia.
Qed.

(* ---------- reassembling the meaning gives the bytes back ---------- *)

Definition asm_nvar (pol : Z) (d' : nat) (v : nvar) : outcome nvar :=
  do sub' <- (match v_sub v with
              | None => Ok None
              | Some ns => do ns' <- asm_store enc16 pol d' ns; Ok (Some ns')
              end);
  let v := set_sub sub' v in
  if is_valid v then
    do content <- (match sub' with
                   | None => of_opt 11 (slice (v_dataoff v) (zlen (v_buf v)) (v_buf v))
                   | Some ns => Ok (s_buf ns)
                   end);
    nvar_assemble enc16 pol v content true
  else Ok v.

Lemma asm_store_unfold pol d' s :
  asm_store enc16 pol (S d') s =
  do es <- map_out (asm_nvar pol d') (s_entries s);
  let nvdata := concat (map v_buf es) in
  let free := zlen nvdata in
  let gsl := nvar_guid_size * zlen (s_guids s) in
  if (s_len s <? gsl) || (s_len s - gsl <? free) then Err E_FIT else
  let goff := s_len s - gsl in
  let gap := goff - free in
  Ok (mkStore es (s_guids s) (nvdata ++ zrepeat pol gap ++ concat (rev (s_guids s))) free goff (s_len s)).
Proof. reflexivity. Qed.

Lemma write3_next pol off next t nextoff :
  pol = 0 \/ pol = 255 -> 0 <= next < 2 ^ 24 -> 0 <= off < 2 ^ 47 ->
  ~ (pol = 255 /\ off = 0 /\ next = 0) ->
  next_of pol off next = (t, nextoff) ->
  write3 pol nextoff off = le_enc 3 next.
Proof.
  intros Hpol Hn Ho Hx. unfold next_of, write3.
  destruct Hpol as [-> | ->]; cbn [Z.eqb]; simpl (_ =? _)%positive.
  - destruct (next =? 0) eqn:E; intros [= <- <-].
    + replace next with 0 by lia. reflexivity.
    + replace (off + next =? 0) with false by lia.
      replace (off + next - off) with next by lia. rewrite Z.mod_small by lia.
      destruct (16777215 <=? next) eqn:E2; [|reflexivity].
      replace next with 16777215 by lia. reflexivity.
  - destruct (next =? 16777215) eqn:E; intros [= <- <-].
    + replace next with 16777215 by lia. reflexivity.
    + replace (off + next =? 0) with false by lia.
      replace (off + next - off) with next by lia. rewrite Z.mod_small by lia.
      replace (16777215 <=? next) with false by lia. reflexivity.
Qed.

Lemma next_of_type pol off next t nextoff : next_of pol off next = (t, nextoff) ->
  t = nvar_type_full \/ t = nvar_type_link.
Proof. unfold next_of. destruct (if pol =? 255 then _ else _); intros [= <- <-]; auto. Qed.

Lemma le_dec_enc3 n : 0 <= n < 2 ^ 24 -> le_dec (le_enc 3 n) = n.
Proof. intros. apply le_dec_enc. simpl. lia. Qed.

Lemma name_part a nm : wf_name nm = true -> ATTR a nvar_attr_ascii = is_ascii nm ->
  (if ATTR a nvar_attr_ascii then name_utf8 dec16 nm ++ [0] else utf8_to_ucs2 enc16 (name_utf8 dec16 nm))
  = name_bytes nm.
Proof.
  intros W E. rewrite E. destruct nm as [s0|u]; cbn [is_ascii name_utf8 name_bytes wf_name] in *; auto.
  unfold utf8_to_ucs2. apply codec_rt. exact W.
Qed.

Definition gpart_of (v : nvar) : outcome bytes :=
  if ATTR (v_attrs v) nvar_attr_dataonly then Ok [] else
  do g <- (if ATTR (v_attrs v) nvar_attr_guid then Ok (v_guid v)
           else match v_gidx v with Some i => Ok [i] | None => Panic 10 end);
  Ok (g ++ (if ATTR (v_attrs v) nvar_attr_ascii then v_name v ++ [0]
            else utf8_to_ucs2 enc16 (v_name v))).

Lemma nvar_assemble_unfold pol v content co :
  nvar_assemble enc16 pol v content co =
  if negb (is_valid v) then Err 8 else
  if negb (v_nextoff v =? 0) && negb co then Err 9 else
  let nx := write3 pol (v_nextoff v) (v_off v) in
  let hdr := nvar_signature ++ le_enc 2 (v_size v) ++ nx ++ [v_attrs v] in
  do gpart <- gpart_of v;
  let pre := hdr ++ gpart in
  if co && negb (v_dataoff v =? zlen pre) then Err E_DATAOFF else
  let all := pre ++ content in
  let sz16 := zlen all mod 2 ^ 16 in
  if co && negb (v_size v =? sz16) then Err E_SIZE else
  Ok (mkNVar sz16 (le_dec nx) (v_attrs v) (v_guid v) (v_gidx v) (v_name v) (v_type v) (v_off v)
             (v_nextoff v) all (zlen pre) (v_ext v) (v_sub v)).
Proof. reflexivity. Qed.

(* a record of the right shape reassembles (check-only mode) to itself *)
Lemma nvar_assemble_id pol size next attrs guid gidx name type off nextoff dataoff ext sub gp content :
  let v := mkNVar size next attrs guid gidx name type off nextoff
                  (emit_header size next attrs ++ gp ++ content) dataoff ext sub in
  is_valid_type type = true ->
  write3 pol nextoff off = le_enc 3 next -> 0 <= next < 2 ^ 24 ->
  gpart_of v = Ok gp ->
  dataoff = 10 + zlen gp ->
  size = 10 + zlen gp + zlen content -> size < 2 ^ 16 ->
  nvar_assemble enc16 pol v content true = Ok v.
Proof.
  clear codec_rt codec_nz.
  intros v Vt W3 Hn G Hd Hsz Hlt. subst v.
  rewrite nvar_assemble_unfold.
  unfold is_valid. cbn [v_type v_nextoff v_off v_size v_attrs v_guid v_gidx v_name v_dataoff v_ext v_sub].
  rewrite Vt. cbn [negb]. rewrite andb_false_r. rewrite G. cbn [bind]. rewrite W3.
  fold (emit_header size next attrs).
  assert (Lp : zlen (emit_header size next attrs ++ gp) = dataoff)
    by (rewrite zlen_app, zlen_emit_header; lia).
  rewrite Lp, Z.eqb_refl. cbn [negb andb].
  assert (La : zlen ((emit_header size next attrs ++ gp) ++ content) = size)
    by (rewrite zlen_app, Lp; lia).
  pose proof (zlen_nonneg gp). pose proof (zlen_nonneg content).
  rewrite La, Z.mod_small, Z.eqb_refl by lia. cbn [negb andb].
  rewrite le_dec_enc3 by lia. rewrite <- app_assoc. reflexivity.
Qed.

Lemma asm_nvar_id pol d' size next attrs guid gidx name type off nextoff dataoff ext gp content :
  let v := mkNVar size next attrs guid gidx name type off nextoff
                  (emit_header size next attrs ++ gp ++ content) dataoff ext None in
  is_valid_type type = true ->
  write3 pol nextoff off = le_enc 3 next -> 0 <= next < 2 ^ 24 ->
  gpart_of v = Ok gp ->
  dataoff = 10 + zlen gp ->
  size = 10 + zlen gp + zlen content -> size < 2 ^ 16 ->
  asm_nvar pol d' v = Ok v.
Proof.
  clear codec_rt codec_nz.
  intros v Vt W3 Hn G Hd Hsz Hlt. subst v.
  unfold asm_nvar. cbn [v_sub bind set_sub].
  unfold is_valid. cbn [v_type]. rewrite Vt.
  match goal with |- context [slice (v_dataoff ?x) _ _] => set (v := x) in * end.
  assert (S3 : slice (v_dataoff v) (zlen (v_buf v)) (v_buf v) = Some content).
  { unfold v. cbn [v_dataoff v_buf]. rewrite app_assoc.
    assert (Lp : zlen (emit_header size next attrs ++ gp) = dataoff)
      by (rewrite zlen_app, zlen_emit_header; lia).
    rewrite <- Lp. rewrite (zlen_app (emit_header size next attrs ++ gp) content). apply slice_suffix. }
  rewrite S3. cbn [of_opt bind]. apply nvar_assemble_id; auto.
Qed.

(* the per-entry statement: reassembling the interpreted entry is the identity *)
Lemma asm_interp_entry pol d' table e off prev k :
  pol = 0 \/ pol = 255 -> wf_entry (zlen table) e = true -> 0 <= off < 2 ^ 47 ->
  (off = 0 -> ATTR (ae_attrs e) nvar_attr_valid = true -> ~ (pol = 255 /\ ae_next e = 0)) ->
  asm_nvar pol d' (fst (interp_entry dec16 pol table e off prev k)) =
  Ok (fst (interp_entry dec16 pol table e off prev k)).
Proof.
  intros Hpol W Ho Hfirst.
  pose proof (wf_entry_common _ _ W) as (Ha & Hn & Hs).
  unfold interp_entry.
  destruct e as [a n g nm d | a n d | a n b]; cbn [ae_attrs ae_next] in *.
  - apply wf_entry_full in W as (Wv & Wdo & Easc & Egd & Wxg & Wnm & Wd & Wnn & Wg).
    destruct (next_of pol off n) as [t0 nextoff] eqn:NO.
    pose proof (write3_next pol off n t0 nextoff Hpol Hn Ho ltac:(intros (? & ? & ?); apply Hfirst; auto) NO) as W3.
    assert (Vt : is_valid_type t0 = true)
      by (destruct (next_of_type _ _ _ _ _ NO) as [-> | ->]; reflexivity).
    destruct (parse_ext a _ _ nvar_header_size) as [ext|x|x|]; [|reflexivity..].
    unfold emit_entry. cbn [ae_body ae_next ae_attrs].
    rewrite (app_assoc (gref_bytes g)).
    assert (Lsz : ae_size (AFull a n g nm d) = 10 + zlen (gref_bytes g ++ name_bytes nm) + zlen d).
    { unfold ae_size, nvar_header_size. cbn [ae_body]. rewrite !zlen_app. ring. }
    assert (Ldo : nvar_header_size + zlen (gref_bytes g) + zlen (name_bytes nm) =
                  10 + zlen (gref_bytes g ++ name_bytes nm)).
    { unfold nvar_header_size. rewrite zlen_app. ring. }
    destruct g as [gb|i]; cbn [fst gref_bytes is_inline] in *;
      (apply asm_nvar_id; auto;
       unfold gpart_of; cbn [v_attrs v_guid v_gidx v_name]; rewrite Wdo, Egd; cbn [bind];
       rewrite name_part by auto; reflexivity).
  - apply wf_entry_data in W as (Wv & Wdo & Wd & Wnn).
    destruct (next_of pol off n) as [t0 nextoff] eqn:NO.
    pose proof (write3_next pol off n t0 nextoff Hpol Hn Ho ltac:(intros (? & ? & ?); apply Hfirst; auto) NO) as W3.
    destruct (parse_ext a _ _ nvar_header_size) as [ext|x|x|]; [|reflexivity..].
    destruct (find_link off prev) as [l|]; [|reflexivity].
    assert (Vt : is_valid_type (if nextoff =? 0 then nvar_type_data else t0) = true).
    { destruct (nextoff =? 0); [reflexivity|]. destruct (next_of_type _ _ _ _ _ NO) as [-> | ->]; reflexivity. }
    unfold emit_entry. cbn [ae_body ae_next ae_attrs fst].
    change (emit_header (ae_size (AData a n d)) n a ++ d) with (emit_header (ae_size (AData a n d)) n a ++ [] ++ d).
    apply asm_nvar_id; auto.
    unfold gpart_of; cbn [v_attrs]. rewrite Wdo. reflexivity.
  - reflexivity.
Qed.

Lemma interp_entries_bufs pol table rest off prev k :
  map v_buf (fst (interp_entries dec16 pol table rest off prev k)) =
  map v_buf prev ++ map emit_entry rest.
Proof.
  revert off prev k; induction rest as [|e r IH]; intros off prev k.
  - cbn. rewrite app_nil_r. reflexivity.
  - cbn [interp_entries].
    pose proof (interp_entry_size pol table e off prev k) as (_ & Eb & _).
    destruct (interp_entry dec16 pol table e off prev k) as [v k']. cbn [fst] in Eb.
    rewrite IH. rewrite map_app. cbn [map]. rewrite Eb, <- app_assoc. reflexivity.
Qed.

Lemma interp_entries_k pol table rest off prev k :
  snd (interp_entries dec16 pol table rest off prev k) = discovered k rest.
Proof.
  revert off prev k; induction rest as [|e r IH]; intros off prev k; [reflexivity|].
  cbn [interp_entries]. pose proof (interp_entry_k pol table e off prev k) as Ek.
  destruct (interp_entry dec16 pol table e off prev k) as [v k']. cbn [snd] in Ek. subst k'.
  rewrite IH. reflexivity.
Qed.

Lemma first_next_ok_spec pol e r : first_next_ok pol (e :: r) = true ->
  ATTR (ae_attrs e) nvar_attr_valid = true -> ~ (pol = 255 /\ ae_next e = 0).
Proof. cbn [first_next_ok]. intros H V. rewrite V in H. cbn [negb orb] in H. lia. Qed.

Lemma interp_entries_asm pol d' table rest off prev k :
  pol = 0 \/ pol = 255 ->
  forallb (wf_entry (zlen table)) rest = true ->
  0 <= off -> off + zlen (emit_entries rest) < 2 ^ 47 ->
  (off = 0 -> first_next_ok pol rest = true) ->
  Forall (fun v => asm_nvar pol d' v = Ok v) prev ->
  Forall (fun v => asm_nvar pol d' v = Ok v) (fst (interp_entries dec16 pol table rest off prev k)).
Proof.
  intros Hpol. revert off prev k; induction rest as [|e r IH]; intros off prev k W Ho Hlen Hf Hp; [exact Hp|].
  cbn [forallb] in W. apply andb_true_iff in W as [We Wr].
  rewrite zlen_emit_entries_cons in Hlen.
  pose proof (ae_size_ge e). pose proof (zlen_nonneg (emit_entries r)).
  cbn [interp_entries].
  pose proof (asm_interp_entry pol d' table e off prev k Hpol We ltac:(lia)
                ltac:(intros E0; apply first_next_ok_spec with (r := r); auto)) as A.
  destruct (interp_entry dec16 pol table e off prev k) as [v k']. cbn [fst] in A.
  apply IH; auto; try lia.
  apply Forall_app. split; auto.
Qed.

Lemma map_out_id {A} (f : A -> outcome A) l : Forall (fun a => f a = Ok a) l -> map_out f l = Ok l.
Proof.
  induction 1 as [|a l Ha Hl IH]; [reflexivity|].
  cbn [map_out]. rewrite Ha. cbn [bind]. rewrite IH. reflexivity.
Qed.

(* Assemble on the meaning of a well-formed store changes nothing and its buffer is [emit] *)
Theorem asm_interp pol d' s : wf_store pol s = true ->
  asm_store enc16 pol (S d') (interp dec16 pol s) = Ok (interp dec16 pol s) /\
  s_buf (interp dec16 pol s) = emit pol s.
Proof.
  intros W. apply wf_store_spec in W as (Hpol & Hlen & We & Htab & Ht & D & Hfn & Hfr).
  pose proof (zlen_emit pol s Htab Hfr) as Le.
  pose proof (zlen_nonneg (a_table s)) as Hnt.
  pose proof (zlen_nonneg (emit_entries (a_entries s))) as Hne.
  assert (Lee : zlen (emit_entries (a_entries s)) + a_free s + 16 * zlen (a_table s) = store_len s).
  { unfold store_len. rewrite zlen_emit_entries. unfold nvar_guid_size. lia. }
  unfold interp.
  pose proof (interp_entries_bufs pol (a_table s) (a_entries s) 0 [] 0) as Eb.
  pose proof (interp_entries_k pol (a_table s) (a_entries s) 0 [] 0) as Ek.
  pose proof (interp_entries_asm pol d' (a_table s) (a_entries s) 0 [] 0 Hpol We ltac:(lia) ltac:(lia)
                ltac:(auto) (Forall_nil _)) as Ea.
  destruct (interp_entries dec16 pol (a_table s) (a_entries s) 0 [] 0) as [es k].
  cbn [fst snd] in *. rewrite D in Ek. subst k.
  split; [|reflexivity].
  rewrite asm_store_unfold. cbn [s_entries s_guids s_len s_buf].
  rewrite map_out_id by exact Ea. cbn [bind].
  cbn [map app] in Eb. rewrite Eb. fold (emit_entries (a_entries s)).
  rewrite zfirstn_all by lia.
  unfold nvar_guid_size. rewrite Le. cbv zeta.
  replace ((store_len s <? 16 * zlen (a_table s)) ||
           (store_len s - 16 * zlen (a_table s) <? zlen (emit_entries (a_entries s)))) with false by lia.
  replace (store_len s - 16 * zlen (a_table s) - zlen (emit_entries (a_entries s))) with (a_free s) by lia.
  reflexivity.
Qed.

(* parse, then reassemble: the same bytes *)
Theorem nvar_roundtrip pol d' s : wf_store pol s = true ->
  exists st, parse_store dec16 pol (emit pol s) = Ok st /\
             asm_store enc16 pol (S d') st = Ok st /\ s_buf st = emit pol s.
Proof.
  intros W. exists (interp dec16 pol s). split; [apply parse_emit; auto|]. apply asm_interp; auto.
Qed.

End WithCodec.
