(* Proofs/CbfsProofs.v — lemmas about Model/Cbfs.v (property C19). *)
From Fiano Require Import Base.Bytes Base.BytesLemmas Gen.Consts Model.Fmap Proofs.FmapProofs Model.Cbfs.
From Coq Require Import ZifyBool ZifyNat.
Open Scope Z_scope.

(* ---- big endian ---- *)

Lemma zlen_rev {A} (l : list A) : zlen (rev l) = zlen l.
Proof. unfold zlen; rewrite rev_length; reflexivity. Qed.

Lemma zlen_be_enc n v : zlen (be_enc n v) = Z.of_nat n.
Proof. unfold be_enc. rewrite zlen_rev. apply zlen_le_enc. Qed.

Lemma be4 v : zlen (be_enc 4 v) = 4.
Proof. exact (zlen_be_enc 4 v). Qed.

Lemma be_dec_enc n v : 0 <= v < 256 ^ Z.of_nat n -> be_dec (be_enc n v) = v.
Proof. intros. unfold be_dec, be_enc. rewrite rev_involutive. apply le_dec_enc; auto. Qed.

Lemma be_dec_enc4 v : 0 <= v < 2 ^ 32 -> be_dec (be_enc 4 v) = v.
Proof. intros. apply be_dec_enc. change (256 ^ Z.of_nat 4) with (2 ^ 32). lia. Qed.

Lemma bytes_ok_rev l : bytes_ok l = true -> bytes_ok (rev l) = true.
Proof.
  induction l as [|x l IH]; intros H; auto.
  rewrite bytes_ok_cons in H. apply andb_true_iff in H as [H1 H2].
  simpl. rewrite bytes_ok_app, IH by auto. simpl. rewrite H1. reflexivity.
Qed.

Lemma be_dec_bound4 bs : bytes_ok bs = true -> zlen bs <= 4 -> 0 <= be_dec bs < 2 ^ 32.
Proof.
  intros OK L. unfold be_dec.
  pose proof (le_dec_bound (rev bs) (bytes_ok_rev _ OK)) as B. rewrite zlen_rev in B.
  pose proof (zlen_nonneg bs).
  assert (256 ^ zlen bs <= 256 ^ 4) by (apply Z.pow_le_mono_r; lia).
  change (256 ^ 4) with (2 ^ 32) in *. lia.
Qed.

Lemma zlen_sub_le off len b : 0 <= len -> zlen (sub off len b) <= len.
Proof. intros. unfold sub, zfirstn, zlen. rewrite firstn_length. lia. Qed.

Lemma be_rd_bound off b : bytes_ok b = true -> 0 <= be_rd off 4 b < 2 ^ 32.
Proof.
  intros OK. unfold be_rd. apply be_dec_bound4.
  - apply bytes_ok_sub; auto.
  - apply zlen_sub_le. simpl; lia.
Qed.

(* ---- reading a piece out of a concatenation ---- *)

Lemma sub_in (a x c : bytes) off len :
  off = zlen a -> len = zlen x -> sub off len (a ++ x ++ c) = x.
Proof. intros -> ->. apply sub_app_mid. Qed.

Lemma be_rd_in (a x c : bytes) off :
  off = zlen a -> zlen x = 4 -> be_rd off 4 (a ++ x ++ c) = be_dec x.
Proof. intros. unfold be_rd. rewrite (sub_in a x c); auto. Qed.

Lemma zlen_zero_nil {A} (l : list A) : zlen l = 0 -> l = [].
Proof. destruct l; auto. rewrite zlen_cons. pose proof (zlen_nonneg l). lia. Qed.

Lemma read_n_in (a x c : bytes) : read_n (a ++ x ++ c) (zlen a) (zlen x) = Some x.
Proof.
  unfold read_n. destruct (zlen x =? 0) eqn:E.
  - f_equal. symmetry. apply zlen_zero_nil. lia.
  - rewrite !zlen_app. pose proof (zlen_nonneg c).
    replace (zlen a + zlen x <=? zlen a + (zlen x + zlen c)) with true by lia.
    f_equal. apply sub_app_mid.
Qed.

Lemma zlen_zrepeat x n : 0 <= n -> zlen (zrepeat x n) = n.
Proof.
  intros. unfold zrepeat, zlen.
  assert (Hr : forall k, length (repeatz x k) = k) by (induction k; simpl; auto).
  rewrite Hr. lia.
Qed.

Lemma until_nul_name (n : bytes) k :
  forallb (fun x => negb (x =? 0)) n = true -> until_nul (n ++ repeatz 0 k) = n.
Proof.
  induction n as [|x n IH]; intros H.
  - destruct k; reflexivity.
  - cbn [forallb] in H. apply andb_true_iff in H as [H1 H2].
    cbn [app until_nul]. destruct (x =? 0); [discriminate|]. rewrite IH; auto.
Qed.

(* ---- arithmetic of the 16-byte grid ---- *)

Lemma align16_ge x : x <= align16 x < x + 16.
Proof. unfold align16. Ltac Zify.zify_post_hook ::= Z.div_mod_to_equations. lia. Qed.

Lemma align16_mod x : (align16 x) mod 16 = 0.
Proof. unfold align16. apply Z_mod_mult. Qed.

Lemma align16_pad x p : 0 <= p < 16 -> (x + p) mod 16 = 0 -> align16 x = x + p.
Proof. unfold align16. intros. Ltac Zify.zify_post_hook ::= Z.div_mod_to_equations. lia. Qed.

Lemma align16_shift k x : k mod 16 = 0 -> align16 (k + x) = k + align16 x.
Proof. unfold align16. intros. Ltac Zify.zify_post_hook ::= Z.div_mod_to_equations. lia. Qed.

Ltac Zify.zify_post_hook ::= idtac.

(* ---- sizes of the serialised pieces ---- *)

Lemma zlen_concat_slots g : forallb slot_ok g = true -> zlen (concat g) = 16 * zlen g.
Proof.
  induction g as [|s g IH]; intros H; [reflexivity|].
  cbn [forallb] in H. apply andb_true_iff in H as [H1 H2].
  unfold slot_ok in H1. cbn [concat]. rewrite zlen_app, zlen_cons, IH by auto. lia.
Qed.

Lemma zlen_magic : zlen cbfs_file_magic = 8.
Proof. reflexivity. Qed.

Lemma zlen_enc_rec r :
  zlen (enc_rec r) = body_len r + zlen (r_pad r).
Proof.
  unfold enc_rec, body_len, rec_so. rewrite !zlen_app, !be4, zlen_magic.
  unfold cbfs_file_header_size. lia.
Qed.

Lemma rec_so_ge r : 0 <= r_npad r -> cbfs_file_header_size <= rec_so r.
Proof.
  intros. unfold rec_so.
  pose proof (zlen_nonneg (name_field r)). pose proof (zlen_nonneg (enc_attrs (r_attrs r))). lia.
Qed.

(* ---- wf unpacked ---- *)

Lemma wf_rec_spec last r : wf_rec last r = true ->
  forallb slot_ok (r_gap r) = true /\
  forallb (fun x => negb (x =? 0)) (r_name r) = true /\ 0 <= r_npad r /\
  0 <= r_type r < 2 ^ 32 /\ forallb attr_ok (r_attrs r) = true /\
  rec_so r < 2 ^ 32 /\ zlen (r_data r) < 2 ^ 32 /\ zlen (r_pad r) < 16 /\
  (if last then body_len r + zlen (r_pad r) <= align16 (body_len r)
   else (body_len r + zlen (r_pad r)) mod 16 = 0) /\
  type_ok r = true.
Proof.
  unfold wf_rec. intros H.
  repeat (apply andb_true_iff in H as [H ?]).
  repeat split; auto; try lia. destruct last; lia.
Qed.

(* ---- NewFile on a serialised record ---- *)

Lemma new_file_rec last r pre post :
  wf_rec last r = true ->
  zlen pre + rec_so r < 2 ^ 32 ->
  new_file (pre ++ enc_rec r ++ post) (zlen pre)
  = NF_ok (file_of (zlen pre) r) (zlen pre + body_len r).
Proof.
  intros W Hlt. apply wf_rec_spec in W as (_ & NN & NP & TY & _ & SO & DS & _ & _ & _).
  pose proof (rec_so_ge r NP) as SOge.
  pose proof (zlen_nonneg pre) as Hpre. pose proof (zlen_nonneg post) as Hpost.
  pose proof (zlen_nonneg (r_data r)) as Hd. pose proof (zlen_nonneg (r_pad r)) as Hp.
  set (sec := pre ++ enc_rec r ++ post).
  assert (Lsec : zlen sec = zlen pre + body_len r + zlen (r_pad r) + zlen post).
  { unfold sec. rewrite !zlen_app, zlen_enc_rec. lia. }
  set (nf := name_field r) in *. set (at_ := enc_attrs (r_attrs r)) in *.
  assert (Lnf : zlen nf = zlen (r_name r) + r_npad r).
  { unfold nf, name_field. rewrite zlen_app, zlen_zrepeat by lia. reflexivity. }
  assert (SOeq : rec_so r = 24 + zlen nf + zlen at_) by reflexivity.
  pose proof (zlen_nonneg nf) as Hnf. pose proof (zlen_nonneg at_) as Hat.
  (* the five header fields *)
  assert (Esec : sec = pre ++ cbfs_file_magic ++ be_enc 4 (zlen (r_data r)) ++ be_enc 4 (r_type r) ++
                       be_enc 4 (rec_ao r) ++ be_enc 4 (rec_so r) ++ nf ++ at_ ++ r_data r ++ r_pad r ++ post).
  { unfold sec, enc_rec. fold nf. fold at_. rewrite <- !app_assoc. reflexivity. }
  assert (AOr : 0 <= rec_ao r < 2 ^ 32).
  { unfold rec_ao. fold nf. destruct (r_attrs r); unfold cbfs_file_header_size; lia. }
  assert (F0 : sub (zlen pre) 8 sec = cbfs_file_magic).
  { rewrite Esec. apply sub_in; auto. }
  assert (F1 : be_rd (zlen pre + 8) 4 sec = zlen (r_data r)).
  { rewrite Esec.
    rewrite app_assoc.
    rewrite be_rd_in; [apply be_dec_enc; simpl; lia| rewrite zlen_app, zlen_magic; lia | apply be4]. }
  assert (F2 : be_rd (zlen pre + 12) 4 sec = r_type r).
  { rewrite Esec.
    do 2 rewrite app_assoc.
    rewrite be_rd_in; [apply be_dec_enc; simpl; lia| rewrite !zlen_app, zlen_magic, be4; lia | apply be4]. }
  assert (F3 : be_rd (zlen pre + 16) 4 sec = rec_ao r).
  { rewrite Esec.
    do 3 rewrite app_assoc.
    rewrite be_rd_in; [apply be_dec_enc; simpl; lia| rewrite !zlen_app, zlen_magic, !be4; lia | apply be4]. }
  assert (F4 : be_rd (zlen pre + 20) 4 sec = rec_so r).
  { rewrite Esec.
    do 4 rewrite app_assoc.
    rewrite be_rd_in; [apply be_dec_enc; simpl; lia| rewrite !zlen_app, zlen_magic, !be4; lia | apply be4]. }
  set (hdr := cbfs_file_magic ++ be_enc 4 (zlen (r_data r)) ++ be_enc 4 (r_type r) ++
              be_enc 4 (rec_ao r) ++ be_enc 4 (rec_so r)).
  assert (Lhdr : zlen hdr = 24) by (unfold hdr; rewrite !zlen_app, zlen_magic, !be4; lia).
  assert (Esec2 : sec = (pre ++ hdr) ++ nf ++ (at_ ++ r_data r ++ r_pad r ++ post)).
  { rewrite Esec. unfold hdr. rewrite <- !app_assoc. reflexivity. }
  assert (Esec3 : sec = (pre ++ hdr ++ nf) ++ at_ ++ (r_data r ++ r_pad r ++ post)).
  { rewrite Esec. unfold hdr. rewrite <- !app_assoc. reflexivity. }
  assert (Esec4 : sec = (pre ++ hdr ++ nf ++ at_) ++ r_data r ++ (r_pad r ++ post)).
  { rewrite Esec. unfold hdr. rewrite <- !app_assoc. reflexivity. }
  (* run NewFile *)
  unfold new_file. fold sec. unfold cbfs_file_header_size in *.
  replace (zlen sec - zlen pre <=? 0) with false by (unfold body_len in *; lia).
  replace (zlen sec - zlen pre <? 24) with false by (unfold body_len in *; lia).
  rewrite F0. replace (bytes_eqb cbfs_file_magic cbfs_file_magic) with true
    by (symmetry; apply bytes_eqb_eq; reflexivity). cbn [negb].
  rewrite F1, F2, F3, F4.
  assert (NSZ : ((if rec_ao r =? 0 then rec_so r else rec_ao r) - 24) mod 2 ^ 32 = zlen nf).
  { unfold rec_ao in *. unfold cbfs_file_header_size in *. fold nf in AOr |- *. destruct (r_attrs r) eqn:EA.
    - cbn [Z.eqb]. rewrite SOeq. unfold at_. cbn [enc_attrs map concat zlen length Z.of_nat].
      rewrite Z.mod_small; lia.
    - replace (24 + zlen nf =? 0) with false by lia. rewrite Z.mod_small; lia. }
  rewrite NSZ.
  assert (RN : read_n sec (zlen pre + 24) (zlen nf) = Some nf).
  { rewrite Esec2. replace (zlen pre + 24) with (zlen (pre ++ hdr)) by (rewrite zlen_app; lia).
    apply read_n_in. }
  rewrite RN.
  assert (RA : (if rec_ao r =? 0 then Some [] else
                  read_n sec (zlen pre + 24 + zlen nf) ((rec_so r - rec_ao r) mod 2 ^ 32)) = Some at_).
  { unfold rec_ao in *. unfold cbfs_file_header_size in *. fold nf in AOr |- *. destruct (r_attrs r) eqn:EA.
    - cbn [Z.eqb]. unfold at_. reflexivity.
    - replace (24 + zlen nf =? 0) with false by lia.
      replace ((rec_so r - (24 + zlen nf)) mod 2 ^ 32) with (zlen at_) by (rewrite Z.mod_small; lia).
      rewrite Esec3. replace (zlen pre + 24 + zlen nf) with (zlen (pre ++ hdr ++ nf)) by (rewrite !zlen_app; lia).
      apply read_n_in. }
  rewrite RA.
  rewrite (Z.mod_small (zlen pre + rec_so r)) by lia.
  assert (RD : read_n sec (zlen pre + rec_so r) (zlen (r_data r)) = Some (r_data r)).
  { rewrite Esec4. replace (zlen pre + rec_so r) with (zlen (pre ++ hdr ++ nf ++ at_)) by (rewrite !zlen_app; lia).
    apply read_n_in. }
  rewrite RD. unfold file_of, body_len.
  f_equal; [|lia]. f_equal.
  unfold nf, name_field, zrepeat. apply until_nul_name; auto.
Qed.

(* ---- the per-type constructors ---- *)

Definition seg_of (o : Z) (r : arec) : seg :=
  match make_seg (file_of o r) with Ok s => s | _ => mkSeg (file_of o r) [] end.

Lemma make_seg_ok o r : type_ok r = true -> make_seg (file_of o r) = Ok (seg_of o r).
Proof.
  intros T. unfold seg_of. unfold make_seg. cbn [file_of fh_type f_data fh_size].
  unfold type_ok in T.
  destruct (is_empty_type (r_type r)); [reflexivity|].
  destruct (r_type r =? cbfs_type_legacy_stage).
  - replace (zlen (r_data r) <? cbfs_stage_header_size) with false by lia. reflexivity.
  - destruct (r_type r =? cbfs_type_self); [|reflexivity].
    destruct (payload_scan (S (length (r_data r))) (r_data r) 0) as [off| | |]; try discriminate.
    cbn [bind]. destruct (0 <? zlen (r_data r) - off); reflexivity.
Qed.

(* make_seg never changes where the record is *)
Lemma make_seg_keeps f s : make_seg f = Ok s ->
  f_start (s_file s) = f_start f /\ fh_suboff (s_file s) = fh_suboff f /\
  fh_size (s_file s) = fh_size f /\ f_name (s_file s) = f_name f /\
  fh_type (s_file s) = (if is_empty_type (fh_type f) then cbfs_type_deleted2 else fh_type f).
Proof.
  unfold make_seg. destruct (is_empty_type (fh_type f)).
  - intros [= <-]. cbn. auto.
  - destruct (fh_type f =? cbfs_type_legacy_stage).
    + destruct (zlen (f_data f) <? cbfs_stage_header_size); [discriminate|]. intros [= <-]. cbn. auto.
    + destruct (fh_type f =? cbfs_type_self).
      * destruct (payload_scan _ _ _) as [off| | |]; try discriminate. cbn [bind].
        destruct (0 <? fh_size f - off); intros [= <-]; cbn; auto.
      * intros [= <-]. cbn. auto.
Qed.

(* ... nor, outside empty space and payloads, what it holds *)
Lemma make_seg_data f s : make_seg f = Ok s ->
  is_empty_type (fh_type f) = false ->
  f_attr (s_file s) = f_attr f /\
  (fh_type f <> cbfs_type_self -> f_data (s_file s) = f_data f /\ s_table s = []) /\
  (fh_type f = cbfs_type_self ->
     exists off, payload_scan (S (length (f_data f))) (f_data f) 0 = Ok off /\
       s_table s = zfirstn off (f_data f) /\
       f_data (s_file s) = (if 0 <? fh_size f - off then zskipn off (f_data f) else f_data f)).
Proof.
  unfold make_seg. intros H E. rewrite E in H.
  destruct (fh_type f =? cbfs_type_legacy_stage) eqn:E1.
  - destruct (zlen (f_data f) <? cbfs_stage_header_size); [discriminate|]. injection H as <-. cbn.
    split; auto. split; auto. unfold cbfs_type_legacy_stage, cbfs_type_self in *. lia.
  - destruct (fh_type f =? cbfs_type_self) eqn:E2.
    + destruct (payload_scan _ _ _) as [off| | |] eqn:PS; try discriminate. cbn [bind] in H.
      split; [|split].
      * destruct (0 <? fh_size f - off); injection H as <-; reflexivity.
      * lia.
      * intros _. exists off. split; auto.
        destruct (0 <? fh_size f - off); injection H as <-; cbn; auto.
    + injection H as <-. cbn. split; auto. split; auto. lia.
Qed.

(* ---- filler slots ---- *)

Lemma prefixb_firstn p b : firstn (length p) b = p -> prefixb p b = true.
Proof.
  intros H. rewrite <- (firstn_skipn (length p) b). rewrite H. apply prefixb_app.
Qed.

Lemma new_file_slot pre s post :
  slot_ok s = true -> 24 <= zlen (s ++ post) ->
  new_file (pre ++ s ++ post) (zlen pre) = NF_nomagic.
Proof.
  intros S L. unfold slot_ok in S.
  apply andb_true_iff in S as [S NM]. apply andb_true_iff in S as [_ S16].
  unfold new_file. rewrite zlen_app. unfold cbfs_file_header_size.
  pose proof (zlen_nonneg pre).
  replace (zlen pre + zlen (s ++ post) - zlen pre <=? 0) with false by lia.
  replace (zlen pre + zlen (s ++ post) - zlen pre <? 24) with false by lia.
  replace (bytes_eqb (sub (zlen pre) 8 (pre ++ s ++ post)) cbfs_file_magic) with false; [reflexivity|].
  symmetry. apply not_true_is_false. intros E. apply bytes_eqb_eq in E.
  assert (P : prefixb cbfs_file_magic s = true).
  { apply prefixb_firstn. change (length cbfs_file_magic) with 8%nat.
    unfold sub in E. rewrite zskipn_app_exact in E. unfold zfirstn in E.
    change (Z.to_nat 8) with 8%nat in E.
    rewrite firstn_app in E.
    assert (Ls : length s = 16%nat) by (unfold zlen in S16; lia).
    rewrite Ls in E. change (8 - 16)%nat with 0%nat in E. change (firstn 0 post) with (@nil Z) in E.
    rewrite app_nil_r in E. exact E. }
  rewrite P in NM. discriminate.
Qed.

Lemma walk_gap g : forall pre post k lim,
  forallb slot_ok g = true -> 24 <= zlen post ->
  lim = zlen (pre ++ concat g ++ post) ->
  walk (length g + k) (pre ++ concat g ++ post) lim (zlen pre)
  = walk k (pre ++ concat g ++ post) lim (zlen pre + zlen (concat g)).
Proof.
  induction g as [|s g IH]; intros pre post k lim G L ->.
  - cbn [concat length Nat.add zlen]. cbn [Z.of_nat]. rewrite Z.add_0_r. reflexivity.
  - cbn [forallb] in G. apply andb_true_iff in G as [Gs Gg].
    pose proof (zlen_concat_slots g Gg) as Lg.
    assert (L16 : zlen s = 16) by (unfold slot_ok in Gs; lia).
    cbn [concat length Nat.add]. rewrite <- !app_assoc.
    pose proof (zlen_nonneg pre). pose proof (zlen_nonneg g).
    cbn [walk].
    replace (zlen (pre ++ s ++ concat g ++ post) <=? zlen pre) with false
      by (rewrite !zlen_app; lia).
    rewrite new_file_slot; auto; [|rewrite !zlen_app; lia].
    specialize (IH (pre ++ s) post k (zlen ((pre ++ s) ++ concat g ++ post)) Gg L eq_refl).
    rewrite <- !app_assoc in IH. rewrite (zlen_app pre s) in IH. rewrite L16 in IH.
    rewrite IH. rewrite (zlen_app s), L16. f_equal. lia.
Qed.

(* ---- the walk over a serialised archive ---- *)

Fixpoint segs_from (off : Z) (a : list arec) : list seg :=
  match a with
  | [] => []
  | r :: t =>
    let o := off + zlen (concat (r_gap r)) in
    seg_of o r :: segs_from (o + zlen (enc_rec r)) t
  end.

Fixpoint steps (a : list arec) : nat :=
  match a with
  | [] => O
  | r :: t => (length (r_gap r) + 1 + steps t)%nat
  end.

Lemma wf_list_cons r t : wf_list (r :: t) = true ->
  wf_rec (match t with [] => true | _ => false end) r = true /\ wf_list t = true.
Proof.
  cbn [wf_list]. destruct t; intros H.
  - split; auto.
  - apply andb_true_iff in H as [H1 H2]. split; auto.
Qed.

Lemma zlen_enc_item r : zlen (enc_item r) = zlen (concat (r_gap r)) + zlen (enc_rec r).
Proof. unfold enc_item. apply zlen_app. Qed.

Lemma walk_embed a : forall pre fuel,
  wf_list a = true -> (zlen pre) mod 16 = 0 ->
  zlen (pre ++ embed a) < 2 ^ 32 -> (steps a <= fuel)%nat ->
  walk fuel (pre ++ embed a) (zlen (pre ++ embed a)) (zlen pre) = Ok (segs_from (zlen pre) a).
Proof.
  induction a as [|r t IH]; intros pre fuel W M LT F.
  - unfold embed. cbn [map concat]. rewrite app_nil_r.
    destruct fuel; cbn [walk segs_from]; rewrite Z.leb_refl; reflexivity.
  - apply wf_list_cons in W as [Wr Wt].
    set (last := match t with [] => true | _ => false end) in *.
    pose proof (wf_rec_spec _ _ Wr) as (G & _ & NP & _ & _ & SO & DS & PD & TILE & TY).
    pose proof (zlen_concat_slots _ G) as LG.
    pose proof (zlen_nonneg pre) as Hpre. pose proof (zlen_nonneg (r_gap r)) as Hg.
    pose proof (zlen_nonneg (r_data r)) as Hd. pose proof (zlen_nonneg (r_pad r)) as Hp.
    pose proof (rec_so_ge r NP) as SOge. unfold cbfs_file_header_size in SOge.
    pose proof (zlen_enc_rec r) as LR.
    assert (E : pre ++ embed (r :: t) = pre ++ concat (r_gap r) ++ (enc_rec r ++ embed t)).
    { unfold embed. cbn [map concat]. unfold enc_item. rewrite <- !app_assoc. reflexivity. }
    pose proof (zlen_nonneg (embed t)) as Ht.
    assert (LS : zlen (pre ++ embed (r :: t)) = zlen pre + zlen (concat (r_gap r)) + zlen (enc_rec r) + zlen (embed t)).
    { rewrite E. rewrite !zlen_app. lia. }
    cbn [steps] in F.
    replace fuel with (length (r_gap r) + S (fuel - length (r_gap r) - 1))%nat by lia.
    rewrite LS in LT. rewrite E.
    rewrite walk_gap; auto; [|rewrite zlen_app; unfold body_len in *; lia].
    set (sec := pre ++ concat (r_gap r) ++ enc_rec r ++ embed t).
    assert (Lsec : zlen sec = zlen pre + zlen (concat (r_gap r)) + zlen (enc_rec r) + zlen (embed t)).
    { unfold sec. rewrite !zlen_app. lia. }
    set (o := zlen pre + zlen (concat (r_gap r))).
    cbn [walk].
    replace (zlen sec <=? o) with false by (unfold o, body_len in *; lia).
    assert (Esec : sec = (pre ++ concat (r_gap r)) ++ enc_rec r ++ embed t).
    { unfold sec. rewrite <- !app_assoc. reflexivity. }
    assert (Lo : zlen (pre ++ concat (r_gap r)) = o) by (unfold o; apply zlen_app).
    rewrite Esec at 1. rewrite <- Lo.
    rewrite (new_file_rec last); auto; [|rewrite Lo; unfold o, body_len in *; lia].
    rewrite Lo. rewrite make_seg_ok by auto. cbn [bind].
    assert (Mo : o mod 16 = 0).
    { unfold o. rewrite LG.
      replace (zlen pre + 16 * zlen (r_gap r)) with (zlen pre + zlen (r_gap r) * 16) by lia.
      rewrite Z_mod_plus_full. exact M. }
    cbn [segs_from]. fold o.
    destruct t as [|r2 t2].
    + (* last record: the walk stops *)
      subst last. cbn iota in TILE.
      unfold embed in *. cbn [map concat] in *. cbn [segs_from].
      assert (Stop : zlen sec <= align16 (o + body_len r)).
      { rewrite align16_shift by auto. rewrite Lsec. change (zlen []) with 0. unfold o in *. lia. }
      destruct (fuel - length (r_gap r) - 1)%nat; cbn [walk];
        replace (zlen sec <=? align16 (o + body_len r)) with true by lia; reflexivity.
    + subst last. cbn iota in TILE.
      assert (AL : align16 (o + body_len r) = o + zlen (enc_rec r)).
      { rewrite align16_shift by auto. rewrite (align16_pad (body_len r) (zlen (r_pad r))); lia. }
      rewrite AL.
      specialize (IH (pre ++ concat (r_gap r) ++ enc_rec r) (fuel - length (r_gap r) - 1)%nat Wt).
      assert (Lp : zlen (pre ++ concat (r_gap r) ++ enc_rec r) = o + zlen (enc_rec r))
        by (rewrite !zlen_app; unfold o; lia).
      rewrite Lp in IH.
      assert (Es : (pre ++ concat (r_gap r) ++ enc_rec r) ++ embed (r2 :: t2) = sec).
      { unfold sec. rewrite <- !app_assoc. reflexivity. }
      rewrite Es in IH. rewrite IH; [reflexivity| | |].
      * rewrite LR. rewrite <- Zplus_mod_idemp_l. rewrite Mo. rewrite Z.add_0_l. exact TILE.
      * rewrite Lsec. lia.
      * lia.
Qed.

(* the fuel NewImage's model uses is enough for a serialised archive *)
Lemma steps_le_len a : wf_list a = true -> (steps a <= length (embed a))%nat.
Proof.
  induction a as [|r t IH]; intros W; [cbn; lia|].
  apply wf_list_cons in W as [Wr Wt]. specialize (IH Wt).
  pose proof (wf_rec_spec _ _ Wr) as (G & _ & NP & _ & _ & _ & _ & _ & _ & _).
  pose proof (zlen_concat_slots _ G) as LG.
  pose proof (rec_so_ge r NP) as SOge. unfold cbfs_file_header_size in SOge.
  pose proof (zlen_enc_rec r) as LR. unfold body_len in LR.
  pose proof (zlen_nonneg (r_data r)). pose proof (zlen_nonneg (r_pad r)).
  unfold embed in *. cbn [map concat steps]. set (rest := concat (map enc_item t)) in *.
  rewrite app_length. unfold enc_item. rewrite app_length.
  unfold zlen in *. lia.
Qed.

(* ---- attributes ---- *)

Lemma zlen_enc_attr a : zlen (enc_attr a) = 8 + zlen (snd a).
Proof. unfold enc_attr. rewrite !zlen_app, !be4. lia. Qed.

Lemma length_enc_attrs l : (length l <= length (enc_attrs l))%nat.
Proof.
  induction l as [|a l IH]; [cbn; lia|].
  unfold enc_attrs in *. cbn [map concat]. rewrite app_length.
  pose proof (zlen_enc_attr a). pose proof (zlen_nonneg (snd a)). unfold zlen in *. cbn [length]. lia.
Qed.

Lemma find_attr_enc tag l : forall pre fuel,
  forallb attr_ok l = true -> (length l < fuel)%nat ->
  find_attr fuel (pre ++ enc_attrs l) (zlen pre) tag =
  match find (fun a => fst a =? tag) l with Some a => Some (enc_attr a) | None => None end.
Proof.
  induction l as [|a l IH]; intros pre fuel OK F.
  - destruct fuel; [cbn in F; lia|]. cbn [enc_attrs map concat find find_attr]. rewrite app_nil_r.
    unfold cbfs_attr_header_size. replace (zlen pre - zlen pre <? 8) with true by lia. reflexivity.
  - cbn [forallb] in OK. apply andb_true_iff in OK as [Oa Ol].
    unfold attr_ok in Oa. unfold cbfs_attr_header_size in *.
    destruct fuel; [cbn in F; lia|]. cbn [length] in F.
    pose proof (zlen_nonneg (snd a)) as Hp. pose proof (zlen_nonneg pre) as Hpre.
    pose proof (zlen_nonneg (enc_attrs l)) as Hl.
    assert (E : pre ++ enc_attrs (a :: l) =
                pre ++ be_enc 4 (fst a) ++ be_enc 4 (8 + zlen (snd a)) ++ snd a ++ enc_attrs l).
    { unfold enc_attrs. cbn [map concat]. unfold enc_attr, cbfs_attr_header_size. rewrite <- !app_assoc. reflexivity. }
    rewrite E. cbn [find_attr find]. unfold cbfs_attr_header_size, cbfs_tag_unused, cbfs_tag_unused2.
    assert (Lw : zlen (pre ++ be_enc 4 (fst a) ++ be_enc 4 (8 + zlen (snd a)) ++ snd a ++ enc_attrs l)
                 = zlen pre + 8 + zlen (snd a) + zlen (enc_attrs l)).
    { rewrite !zlen_app, !be4. lia. }
    rewrite Lw.
    replace (zlen pre + 8 + zlen (snd a) + zlen (enc_attrs l) - zlen pre <? 8) with false by lia.
    rewrite be_rd_in by (auto; apply be4).
    rewrite be_dec_enc4 by lia.
    rewrite (app_assoc pre). rewrite be_rd_in by (try apply be4; rewrite zlen_app, be4; lia).
    rewrite be_dec_enc4 by lia.
    replace ((fst a =? 0) || (fst a =? 4294967295)) with false by lia.
    replace ((8 + zlen (snd a) <? 8) || (8 + zlen (snd a) =? 4294967295)) with false by lia.
    replace (zlen pre + 8 + zlen (snd a) + zlen (enc_attrs l) - (zlen pre + 8) <? 8 + zlen (snd a) - 8)
      with false by lia.
    destruct (fst a =? tag).
    + f_equal. rewrite <- app_assoc.
      replace (be_enc 4 (fst a) ++ be_enc 4 (8 + zlen (snd a)) ++ snd a ++ enc_attrs l)
        with (enc_attr a ++ enc_attrs l ++ [])
        by (unfold enc_attr, cbfs_attr_header_size; rewrite <- !app_assoc, app_nil_r; reflexivity).
      apply sub_in; auto. rewrite zlen_enc_attr. reflexivity.
    + rewrite <- app_assoc.
      replace (pre ++ be_enc 4 (fst a) ++ be_enc 4 (8 + zlen (snd a)) ++ snd a ++ enc_attrs l)
        with ((pre ++ enc_attr a) ++ enc_attrs l)
        by (unfold enc_attr, cbfs_attr_header_size; rewrite <- !app_assoc; reflexivity).
      replace (zlen pre + (8 + zlen (snd a))) with (zlen (pre ++ enc_attr a))
        by (rewrite zlen_app, zlen_enc_attr; lia).
      apply IH; auto. lia.
Qed.

Definition attrs_comp (l : list (Z * bytes)) : Z :=
  match find (fun a => fst a =? cbfs_tag_compressed) l with
  | Some a => if zlen (snd a) <? 8 then cbfs_comp_none else be_dec (zfirstn 4 (snd a))
  | None => cbfs_comp_none
  end.

Lemma compression_enc f l : f_attr f = enc_attrs l -> forallb attr_ok l = true ->
  compression f = attrs_comp l.
Proof.
  intros E OK. unfold compression, attrs_comp. rewrite E.
  pose proof (find_attr_enc cbfs_tag_compressed l [] (S (length (enc_attrs l))) OK) as H.
  cbn [app] in H. change (zlen []) with 0 in H. rewrite H by (pose proof (length_enc_attrs l); lia).
  destruct (find _ l) as [a|]; [|reflexivity].
  rewrite zlen_enc_attr. unfold cbfs_attr_compression_size.
  pose proof (zlen_nonneg (snd a)).
  destruct (zlen (snd a) <? 8) eqn:E8.
  - replace (8 + zlen (snd a) <? 16) with true by lia. reflexivity.
  - replace (8 + zlen (snd a) <? 16) with false by lia.
    unfold be_rd, enc_attr. f_equal.
Qed.

Lemma compression_zero_attr f : f_attr f = zrepeat 0 16 -> compression f = cbfs_comp_none.
Proof. intros E. unfold compression. rewrite E. vm_compute. reflexivity. Qed.

(* ---- what the listing shows for a serialised record ---- *)

Lemma entry_of_seg_of o r last : wf_rec last r = true ->
  entry_of (seg_of o r) =
  mkEntry (r_name r) (listed_type (r_type r)) o (zlen (r_data r)) (spec_comp r).
Proof.
  intros W. pose proof (wf_rec_spec _ _ W) as (_ & _ & _ & _ & AT & _ & _ & _ & _ & TY).
  pose proof (make_seg_ok o r TY) as MS.
  pose proof (make_seg_keeps _ _ MS) as (K1 & K2 & K3 & K4 & K5).
  cbn [file_of f_start fh_suboff fh_size f_name fh_type] in *.
  unfold entry_of. rewrite K1, K3, K4, K5. unfold listed_type, spec_comp.
  destruct (is_empty_type (r_type r)) eqn:Em.
  - f_equal. apply compression_zero_attr.
    unfold make_seg in MS. cbn [file_of fh_type] in MS. rewrite Em in MS.
    injection MS as <-. reflexivity.
  - f_equal. pose proof (make_seg_data _ _ MS Em) as (A & _). cbn [file_of f_attr] in A.
    fold (attrs_comp (r_attrs r)). apply compression_enc; auto.
Qed.

Lemma listing_segs_from a : forall off, wf_list a = true ->
  map entry_of (segs_from off a) = records_from off a.
Proof.
  induction a as [|r t IH]; intros off W; [reflexivity|].
  apply wf_list_cons in W as [Wr Wt].
  cbn [segs_from records_from map]. rewrite (entry_of_seg_of _ _ _ Wr). f_equal. apply IH; auto.
Qed.

(* data of the i-th segment = data of the i-th record *)
Lemma data_segs_from a : forall off i s r, wf_list a = true ->
  nth_error (segs_from off a) i = Some s -> nth_error a i = Some r ->
  is_empty_type (r_type r) = false ->
  f_attr (s_file s) = enc_attrs (r_attrs r) /\
  (r_type r <> cbfs_type_self -> f_data (s_file s) = r_data r /\ s_table s = []) /\
  (r_type r = cbfs_type_self ->
     exists n, payload_scan (S (length (r_data r))) (r_data r) 0 = Ok n /\
       s_table s = zfirstn n (r_data r) /\
       f_data (s_file s) = (if 0 <? zlen (r_data r) - n then zskipn n (r_data r) else r_data r)).
Proof.
  induction a as [|r0 t IH]; intros off i s r W Ns Nr Em; [destruct i; discriminate|].
  apply wf_list_cons in W as [Wr Wt].
  destruct i as [|i].
  - cbn in Ns, Nr. injection Ns as <-. injection Nr as ->.
    pose proof (wf_rec_spec _ _ Wr) as (_ & _ & _ & _ & _ & _ & _ & _ & _ & TY).
    pose proof (make_seg_ok (off + zlen (concat (r_gap r))) r TY) as MS.
    exact (make_seg_data _ _ MS Em).
  - cbn [segs_from nth_error] in Ns, Nr. eapply IH; eauto.
Qed.

(* where the i-th record sits *)
Lemma start_segs_from a : forall off i s, wf_list a = true ->
  nth_error (segs_from off a) i = Some s ->
  exists r e, nth_error a i = Some r /\ nth_error (records_from off a) i = Some e /\
    f_start (s_file s) = e_off e /\ fh_suboff (s_file s) = rec_so r /\ fh_size (s_file s) = zlen (r_data r).
Proof.
  induction a as [|r0 t IH]; intros off i s W Ns; [destruct i; discriminate|].
  apply wf_list_cons in W as [Wr Wt].
  destruct i as [|i].
  - cbn in Ns. injection Ns as <-.
    pose proof (wf_rec_spec _ _ Wr) as (_ & _ & _ & _ & _ & _ & _ & _ & _ & TY).
    pose proof (make_seg_ok (off + zlen (concat (r_gap r0))) r0 TY) as MS.
    pose proof (make_seg_keeps _ _ MS) as (K1 & K2 & K3 & _).
    exists r0. eexists. split; [reflexivity|]. split; [reflexivity|]. cbn. auto.
  - cbn [segs_from nth_error records_from] in *. eapply IH; eauto.
Qed.

(* ================= facts that hold for every image that parses ================= *)

Lemma mod_sub_cases a b : 0 <= a < 2 ^ 32 -> 0 <= b < 2 ^ 32 ->
  (a - b) mod 2 ^ 32 = (if b <=? a then a - b else a - b + 2 ^ 32).
Proof.
  intros Ha Hb. destruct (b <=? a) eqn:E.
  - apply Z.mod_small. lia.
  - rewrite <- (Z.mod_add (a - b) 1 (2 ^ 32)) by lia. apply Z.mod_small. lia.
Qed.

Lemma read_n_some sec p n x : read_n sec p n = Some x ->
  (n = 0 /\ x = []) \/ (n <> 0 /\ p + n <= zlen sec /\ x = sub p n sec).
Proof.
  unfold read_n. destruct (n =? 0) eqn:E0.
  - intros [= <-]. left. split; [lia|reflexivity].
  - destruct (p + n <=? zlen sec) eqn:E1; [|discriminate]. intros [= <-]. right. repeat split; lia.
Qed.

Lemma sub_zero_len off b : sub off 0 b = [].
Proof. reflexivity. Qed.

Lemma new_file_inv sec pos f e :
  bytes_ok sec = true -> zlen sec < 2 ^ 32 -> 0 <= pos ->
  new_file sec pos = NF_ok f e ->
  f_start f = pos /\ 24 <= fh_suboff f /\ 0 <= fh_size f /\
  e = pos + fh_suboff f + fh_size f /\ e <= zlen sec /\
  f_data f = sub (pos + fh_suboff f) (fh_size f) sec.
Proof.
  intros OK LT Hpos. unfold new_file. unfold cbfs_file_header_size.
  destruct (zlen sec - pos <=? 0) eqn:E0; [discriminate|].
  destruct (zlen sec - pos <? 24) eqn:E1; [discriminate|].
  destruct (negb _); [discriminate|].
  pose proof (be_rd_bound (pos + 8) sec OK) as Bsz.
  pose proof (be_rd_bound (pos + 16) sec OK) as Bao.
  pose proof (be_rd_bound (pos + 20) sec OK) as Bso.
  set (size := be_rd (pos + 8) 4 sec) in *. set (typ := be_rd (pos + 12) 4 sec) in *.
  set (ao := be_rd (pos + 16) 4 sec) in *. set (so := be_rd (pos + 20) 4 sec) in *.
  set (P := 2 ^ 32) in *.
  assert (HP : P = 4294967296) by reflexivity.
  destruct (read_n sec (pos + 24) _) as [nb|] eqn:RN; [|discriminate].
  destruct (if ao =? 0 then Some [] else read_n sec _ _) as [ab|] eqn:RA; [|discriminate].
  destruct (read_n sec ((pos + so) mod P) size) as [d|] eqn:RD; [|discriminate].
  intros [= <- <-]. cbn [f_start fh_suboff fh_size f_data].
  (* no wrap: 24 <= so and pos + so <= zlen sec *)
  assert (NW : 24 <= so /\ pos + so <= zlen sec).
  { destruct (ao =? 0) eqn:EA.
    - replace (so - 24) with (so - 24) in RN by lia.
      assert (M := mod_sub_cases so 24 Bso ltac:(fold P; lia)). fold P in M. rewrite M in RN.
      destruct (24 <=? so) eqn:E24.
      + apply read_n_some in RN as [[N0 _]|[_ [N1 _]]]; lia.
      + apply read_n_some in RN as [[N0 _]|[_ [N1 _]]]; lia.
    - assert (M := mod_sub_cases ao 24 Bao ltac:(fold P; lia)). fold P in M. rewrite M in RN.
      assert (M2 := mod_sub_cases so ao Bso Bao). fold P in M2. rewrite M2 in RA.
      destruct (24 <=? ao) eqn:E24.
      + assert (A1 : pos + ao <= zlen sec) by (apply read_n_some in RN as [[N0 _]|[_ [N1 _]]]; lia).
        destruct (ao <=? so) eqn:E2.
        * apply read_n_some in RA as [[N0 _]|[_ [N1 _]]]; lia.
        * apply read_n_some in RA as [[N0 _]|[_ [N1 _]]]; lia.
      + apply read_n_some in RN as [[N0 _]|[_ [N1 _]]]; lia. }
  destruct NW as [NW1 NW2].
  rewrite Z.mod_small in RD by lia. rewrite Z.mod_small by lia.
  apply read_n_some in RD as [[N0 ->]|[N0 [N1 ->]]].
  - rewrite N0. repeat split; try lia. 
  - repeat split; try lia.
Qed.

Definition rec_end (s : seg) : Z :=
  f_start (s_file s) + fh_suboff (s_file s) + fh_size (s_file s).

(* what a segment holds, against the bytes of the area *)
Definition stored_ok (sec : bytes) (s : seg) : Prop :=
  let f := s_file s in
  let d := sub (f_start f + fh_suboff f) (fh_size f) sec in
  fh_type f <> cbfs_type_deleted2 ->
  (fh_type f <> cbfs_type_self -> f_data f = d /\ s_table s = []) /\
  (fh_type f = cbfs_type_self ->
     exists n, s_table s = zfirstn n d /\
               f_data f = (if 0 <? fh_size f - n then zskipn n d else d)).

Fixpoint placed (sec : bytes) (lo : Z) (l : list seg) : Prop :=
  match l with
  | [] => True
  | s :: t =>
    lo <= f_start (s_file s) /\ 24 <= fh_suboff (s_file s) /\ 0 <= fh_size (s_file s) /\
    rec_end s <= zlen sec /\ stored_ok sec s /\ placed sec (rec_end s) t
  end.

Lemma placed_weaken sec lo lo' l : lo' <= lo -> placed sec lo l -> placed sec lo' l.
Proof. destruct l as [|s t]; cbn; auto. intros H (A & B); split; auto. lia. Qed.

Lemma make_seg_stored sec f s e pos :
  bytes_ok sec = true -> zlen sec < 2 ^ 32 -> 0 <= pos ->
  new_file sec pos = NF_ok f e -> make_seg f = Ok s ->
  pos <= f_start (s_file s) /\ 24 <= fh_suboff (s_file s) /\ 0 <= fh_size (s_file s) /\
  rec_end s = e /\ e <= zlen sec /\ stored_ok sec s.
Proof.
  intros OK LT Hpos NF MS.
  pose proof (new_file_inv _ _ _ _ OK LT Hpos NF) as (I1 & I2 & I3 & I4 & I5 & I6).
  pose proof (make_seg_keeps _ _ MS) as (K1 & K2 & K3 & K4 & K5).
  unfold rec_end. rewrite K1, K2, K3.
  split; [lia|]. split; [lia|]. split; [lia|]. split; [lia|]. split; [lia|].
  unfold stored_ok. cbn zeta. rewrite K1, K2, K3. rewrite I1 in *. rewrite <- I6.
  intros Hne. rewrite K5 in Hne |- *.
  destruct (is_empty_type (fh_type f)) eqn:Em; [congruence|].
  pose proof (make_seg_data _ _ MS Em) as (_ & D1 & D2). split; auto.
  intros Ts. destruct (D2 Ts) as (n & _ & T & D). exists n. auto.
Qed.

Lemma walk_placed sec lim : forall fuel off segs,
  bytes_ok sec = true -> zlen sec < 2 ^ 32 -> 0 <= off ->
  walk fuel sec lim off = Ok segs -> placed sec off segs.
Proof.
  induction fuel as [|k IH]; intros off segs OK LT Hoff W.
  - cbn [walk] in W. destruct (lim <=? off); [|discriminate]. injection W as <-. exact I.
  - cbn [walk] in W. destruct (lim <=? off); [injection W as <-; exact I|].
    destruct (new_file sec off) as [f e| | |e] eqn:NF.
    + destruct (make_seg f) as [s| | |] eqn:MS; try discriminate. cbn [bind] in W.
      destruct (walk k sec lim (align16 e)) as [rest| | |] eqn:WR; try discriminate.
      cbn [bind] in W. injection W as <-.
      pose proof (make_seg_stored _ _ _ _ _ OK LT Hoff NF MS) as (P1 & P2 & P3 & P4 & P5 & P6).
      cbn [placed]. split; [lia|]. split; [lia|]. split; [lia|]. split; [lia|]. split; [exact P6|].
      rewrite P4. pose proof (align16_ge e).
      apply (placed_weaken sec (align16 e)); [lia|].
      apply IH; auto. unfold rec_end in *. lia.
    + injection W as <-. exact I.
    + apply (placed_weaken sec (off + 16)); [lia|]. apply IH; auto. lia.
    + discriminate.
Qed.

Lemma placed_in sec lo l s : placed sec lo l -> In s l ->
  lo <= f_start (s_file s) /\ 24 <= fh_suboff (s_file s) /\ 0 <= fh_size (s_file s) /\
  rec_end s <= zlen sec /\ stored_ok sec s.
Proof.
  revert lo; induction l as [|x t IH]; intros lo P I; [destruct I|].
  cbn [placed] in P. destruct P as (A & B & C & D & E & F).
  destruct I as [<-|I]; [split; [|split; [|split; [|split]]]; auto|].
  destruct (IH _ F I) as (A' & R). split; auto. unfold rec_end in *. lia.
Qed.

Lemma placed_order sec : forall l lo i j si sj, placed sec lo l -> (i < j)%nat ->
  nth_error l i = Some si -> nth_error l j = Some sj -> rec_end si <= f_start (s_file sj).
Proof.
  induction l as [|x t IH]; intros lo i j si sj P Hij Ni Nj; [destruct i; discriminate|].
  cbn [placed] in P. destruct P as (A & B & C & D & E & F).
  destruct j as [|j]; [lia|]. cbn in Nj.
  destruct i as [|i].
  - cbn in Ni. injection Ni as <-. apply nth_error_In in Nj.
    destruct (placed_in _ _ _ _ F Nj) as (G & _). exact G.
  - cbn in Ni. apply (IH _ i j si sj F); auto. lia.
Qed.

(* ---- the flash map hands over plausible area bounds ---- *)

Lemma rd4_bound off b : bytes_ok b = true -> 0 <= rd off 4 b < 2 ^ 32.
Proof.
  intros OK. unfold rd.
  pose proof (le_dec_bound (sub off (Z.of_nat 4) b) (bytes_ok_sub _ _ _ OK)) as B.
  pose proof (zlen_sub_le off (Z.of_nat 4) b ltac:(simpl; lia)) as L.
  pose proof (zlen_nonneg (sub off (Z.of_nat 4) b)).
  assert (256 ^ zlen (sub off (Z.of_nat 4) b) <= 256 ^ 4) by (apply Z.pow_le_mono_r; simpl in *; lia).
  change (256 ^ 4) with (2 ^ 32) in *. lia.
Qed.

Definition area_in_range (a : area) : Prop := 0 <= a_off a < 2 ^ 32 /\ 0 <= a_size a < 2 ^ 32.

Lemma dec_areas_range n : forall b l, bytes_ok b = true -> dec_areas n b = Some l ->
  forall a, In a l -> area_in_range a.
Proof.
  induction n as [|n IH]; intros b l OK D a I.
  - cbn in D. injection D as <-. destruct I.
  - cbn [dec_areas] in D. destruct (zlen b <? area_len); [discriminate|].
    destruct (dec_areas n (zskipn area_len b)) as [r|] eqn:D'; [|discriminate].
    injection D as <-. destruct I as [<-|I].
    + unfold area_in_range, dec_area; cbn [a_off a_size].
      split; apply rd4_bound; apply bytes_ok_firstn; auto.
    + apply (IH (zskipn area_len b) r); auto. unfold zskipn. apply bytes_ok_skipn; auto.
Qed.

Lemma read_areas_range img m start : bytes_ok img = true -> read img = Ok (m, start) ->
  forall a, In a (f_areas m) -> area_in_range a.
Proof.
  intros OK R. apply read_ok_inv in R as (_ & _ & D & _).
  eapply dec_areas_range; [|exact D]. unfold zskipn. apply bytes_ok_skipn, bytes_ok_skipn; auto.
Qed.

Lemma find_area_in l a : find_area l = Some a -> In a l.
Proof.
  induction l as [|x l IH]; [discriminate|]. cbn [find_area].
  destruct (bytes_eqb _ _); [intros [= <-]; left; reflexivity|]. intros H; right; auto.
Qed.

Lemma zlen_area_section img a : 0 <= a_size a -> zlen (area_section img a) <= a_size a.
Proof. intros. unfold area_section, zfirstn, zlen. rewrite firstn_length. lia. Qed.

Lemma bytes_ok_area_section img a : bytes_ok img = true -> bytes_ok (area_section img a) = true.
Proof. intros. unfold area_section, zfirstn, zskipn. apply bytes_ok_firstn, bytes_ok_skipn; auto. Qed.

(* a window of the section is the same window of the image *)
Lemma sub_area_section img a p n : 0 <= a_off a -> 0 <= p -> 0 <= n ->
  p + n <= zlen (area_section img a) ->
  sub p n (area_section img a) = sub (a_off a + p) n img.
Proof.
  intros Ho Hp Hn L. unfold area_section in *. unfold sub.
  replace (a_off a + p) with (p + a_off a) by lia.
  rewrite <- (zskipn_zskipn p (a_off a)) by lia.
  set (c := zskipn (a_off a) img) in *.
  unfold zfirstn, zskipn in *. 
  rewrite skipn_firstn_comm. rewrite firstn_firstn.
  f_equal. unfold zlen in L. rewrite firstn_length in L. lia.
Qed.

(* ---- NewImage unpacked ---- *)

Lemma new_image_inv img im : new_image img = Ok im ->
  exists m start ar,
    read img = Ok (m, start) /\ find_area (f_areas m) = Some ar /\
    walk (S (length (area_section img ar))) (area_section img ar) (a_size ar) 0 = Ok (im_segs im) /\
    im_area im = ar /\ im_data im = img /\ im_map im = m /\ im_start im = start.
Proof.
  unfold new_image. destruct (read img) as [[m start]| | |] eqn:R; try discriminate. cbn [bind].
  destruct (find_area (f_areas m)) as [ar|] eqn:FA; [|discriminate].
  destruct (walk _ _ _ 0) as [segs| | |] eqn:W; try discriminate. cbn [bind].
  intros [= <-]. exists m, start, ar. cbn. repeat split; auto.
Qed.

(* ================= the property theorems ================= *)

(* the COREBOOT area of img lies inside the image and holds the serialised archive a *)
Definition holds_archive (img : bytes) (ar : area) (a : list arec) : Prop :=
  0 <= a_off ar /\ 0 <= a_size ar /\ a_off ar + a_size ar <= zlen img /\
  sub (a_off ar) (a_size ar) img = embed a.

Lemma new_image_embed img m start ar a :
  read img = Ok (m, start) -> find_area (f_areas m) = Some ar ->
  holds_archive img ar a -> wf_archive a = true ->
  new_image img = Ok (mkImage (segs_from 0 a) m start ar img).
Proof.
  intros R FA (Ho & Hs & Hin & E) W. unfold wf_archive in W.
  apply andb_true_iff in W as [W LT].
  unfold new_image. rewrite R. cbn [bind]. rewrite FA.
  change (area_section img ar) with (sub (a_off ar) (a_size ar) img). rewrite E.
  assert (Ls : a_size ar = zlen (embed a)) by (rewrite <- E; rewrite zlen_sub; lia).
  rewrite Ls.
  pose proof (walk_embed a [] (S (length (embed a))) W eq_refl) as WE.
  cbn [app] in WE. change (zlen []) with 0 in WE.
  rewrite WE; [reflexivity|lia|]. pose proof (steps_le_len a W). lia.
Qed.

Theorem cbfs_walk_complete img m start ar a :
  read img = Ok (m, start) -> find_area (f_areas m) = Some ar ->
  holds_archive img ar a -> wf_archive a = true ->
  exists im, new_image img = Ok im /\ listing im = records a.
Proof.
  intros R FA H W. eexists. split; [eapply new_image_embed; eauto|].
  unfold listing, records. cbn [im_segs]. apply listing_segs_from.
  unfold wf_archive in W. apply andb_true_iff in W as [W _]. exact W.
Qed.

Theorem records_inside_disjoint img im :
  bytes_ok img = true -> new_image img = Ok im ->
  (forall s, In s (im_segs im) ->
     0 <= f_start (s_file s) /\ cbfs_file_header_size <= fh_suboff (s_file s) /\
     0 <= fh_size (s_file s) /\
     rec_end s <= a_size (im_area im) /\ a_off (im_area im) + rec_end s <= zlen img) /\
  (forall i j si sj, (i < j)%nat ->
     nth_error (im_segs im) i = Some si -> nth_error (im_segs im) j = Some sj ->
     rec_end si <= f_start (s_file sj)).
Proof.
  intros OK NI. apply new_image_inv in NI as (m & start & ar & R & FA & W & -> & _).
  pose proof (read_areas_range _ _ _ OK R ar (find_area_in _ _ FA)) as ((Ao1 & Ao2) & (As1 & As2)).
  pose proof (zlen_area_section img ar As1) as Lsec.
  pose proof (walk_placed _ _ _ _ _ (bytes_ok_area_section img ar OK) ltac:(lia) (Z.le_refl 0) W) as P.
  split.
  - intros s I. destruct (placed_in _ _ _ _ P I) as (A & B & C & D & _).
    unfold cbfs_file_header_size. repeat split; try lia.
    assert (zlen (area_section img ar) <= zlen img - a_off ar \/ zlen (area_section img ar) = 0).
    { unfold area_section, zfirstn, zskipn, zlen. rewrite firstn_length, skipn_length. lia. }
    unfold rec_end in *. lia.
  - intros i j si sj Hij Ni Nj. eapply placed_order; eauto.
Qed.

Theorem data_exact img im s :
  bytes_ok img = true -> new_image img = Ok im -> In s (im_segs im) ->
  let f := s_file s in
  let stored := sub (a_off (im_area im) + (f_start f + fh_suboff f)) (fh_size f) img in
  fh_type f <> cbfs_type_deleted2 ->
  (fh_type f <> cbfs_type_self -> f_data f = stored /\ s_table s = []) /\
  (fh_type f = cbfs_type_self ->
     exists n, s_table s = zfirstn n stored /\
               f_data f = (if 0 <? fh_size f - n then zskipn n stored else stored)).
Proof.
  intros OK NI I. apply new_image_inv in NI as (m & start & ar & R & FA & W & -> & _).
  pose proof (read_areas_range _ _ _ OK R ar (find_area_in _ _ FA)) as ((Ao1 & Ao2) & (As1 & As2)).
  pose proof (zlen_area_section img ar As1) as Lsec.
  pose proof (walk_placed _ _ _ _ _ (bytes_ok_area_section img ar OK) ltac:(lia) (Z.le_refl 0) W) as P.
  destruct (placed_in _ _ _ _ P I) as (A & B & C & D & S).
  cbn zeta. unfold stored_ok in S. cbn zeta in S. unfold rec_end in D.
  rewrite <- sub_area_section by lia. exact S.
Qed.

(* for a serialised archive: the i-th segment holds the i-th record's attributes and data *)
Theorem data_exact_archive img m start ar a im i s r :
  read img = Ok (m, start) -> find_area (f_areas m) = Some ar ->
  holds_archive img ar a -> wf_archive a = true ->
  new_image img = Ok im ->
  nth_error (im_segs im) i = Some s -> nth_error a i = Some r ->
  is_empty_type (r_type r) = false ->
  f_attr (s_file s) = enc_attrs (r_attrs r) /\
  (r_type r <> cbfs_type_self -> f_data (s_file s) = r_data r) /\
  (r_type r = cbfs_type_self ->
     exists n, s_table s = zfirstn n (r_data r) /\
       f_data (s_file s) = (if 0 <? zlen (r_data r) - n then zskipn n (r_data r) else r_data r)).
Proof.
  intros R FA H W NI Ns Nr Em.
  rewrite (new_image_embed _ _ _ _ _ R FA H W) in NI. injection NI as <-. cbn [im_segs] in Ns.
  unfold wf_archive in W. apply andb_true_iff in W as [W _].
  destruct (data_segs_from a 0 i s r W Ns Nr Em) as (A & B & C).
  split; auto. split.
  - intros T. apply B; auto.
  - intros T. destruct (C T) as (n & _ & X & Y). exists n. auto.
Qed.

Section CodecTheorem.
  Variables lzma_enc lz4_enc : bytes -> bytes.
  Variables lzma_dec lz4_dec : bytes -> option bytes.
  Hypothesis lzma_round_trip : forall x, lzma_dec (lzma_enc x) = Some x.
  Hypothesis lz4_round_trip : forall x, lz4_dec (lz4_enc x) = Some x.

  Theorem decompress_original img m start ar a im i s r x :
    read img = Ok (m, start) -> find_area (f_areas m) = Some ar ->
    holds_archive img ar a -> wf_archive a = true ->
    new_image img = Ok im ->
    nth_error (im_segs im) i = Some s -> nth_error a i = Some r ->
    is_empty_type (r_type r) = false -> r_type r <> cbfs_type_self ->
    (spec_comp r = cbfs_comp_none /\ r_data r = x) \/
    (spec_comp r = cbfs_comp_lzma /\ r_data r = lzma_enc x) \/
    (spec_comp r = cbfs_comp_lz4 /\ r_data r = lz4_enc x) ->
    decompress lzma_dec lz4_dec (s_file s) = Ok x.
  Proof.
    intros R FA H W NI Ns Nr Em NS C.
    destruct (data_exact_archive _ _ _ _ _ _ _ _ _ R FA H W NI Ns Nr Em) as (A & D & _).
    specialize (D NS).
    assert (CE : compression (s_file s) = spec_comp r).
    { unfold spec_comp. rewrite Em. fold (attrs_comp (r_attrs r)). apply compression_enc; auto.
      unfold wf_archive in W. apply andb_true_iff in W as [W _].
      clear - W Nr. revert i Nr W. induction a as [|r0 t IH]; intros i Nr W; [destruct i; discriminate|].
      apply wf_list_cons in W as [Wr Wt]. destruct i as [|i].
      - cbn in Nr. injection Nr as ->. apply wf_rec_spec in Wr. tauto.
      - cbn in Nr. eapply IH; eauto. }
    unfold decompress. rewrite CE, D.
    destruct C as [[C ->]|[[C ->]|[C ->]]]; rewrite C.
    - reflexivity.
    - cbn. rewrite lzma_round_trip. reflexivity.
    - cbn. rewrite lz4_round_trip. reflexivity.
  Qed.
End CodecTheorem.

Theorem unmodified_writeback img im old :
  new_image img = Ok im -> write_file old im = img.
Proof.
  intros NI. apply new_image_inv in NI as (m & start & ar & _ & _ & _ & _ & D & _). exact D.
Qed.

(* ---- the fuel of the model is never exhausted, and nothing panics ---- *)

Lemma payload_scan_no_fuel d : forall fuel off,
  0 <= zlen d - off < cbfs_payload_header_size * Z.of_nat fuel ->
  payload_scan fuel d off <> Fuel.
Proof.
  unfold cbfs_payload_header_size.
  induction fuel as [|k IH]; intros off H; [lia|]. cbn [payload_scan]. unfold cbfs_payload_header_size.
  destruct (zlen d - off <? 28) eqn:E; [discriminate|].
  destruct (be_rd off 4 d =? cbfs_seg_entry); [discriminate|]. apply IH. lia.
Qed.

Lemma make_seg_total f : make_seg f <> Fuel /\ forall w, make_seg f <> Panic w.
Proof.
  unfold make_seg. destruct (is_empty_type (fh_type f)); [split; [|intros w]; discriminate|].
  destruct (fh_type f =? cbfs_type_legacy_stage).
  - destruct (zlen (f_data f) <? cbfs_stage_header_size); split; try intros w; discriminate.
  - destruct (fh_type f =? cbfs_type_self); [|split; [|intros w]; discriminate].
    pose proof (payload_scan_no_fuel (f_data f) (S (length (f_data f))) 0) as NF.
    assert (PS : forall fuel off w, payload_scan fuel (f_data f) off <> Panic w).
    { induction fuel as [|k IH]; intros off w; cbn [payload_scan]; [discriminate|].
      destruct (_ <? _); [discriminate|]. destruct (_ =? _); [discriminate|]. apply IH. }
    destruct (payload_scan (S (length (f_data f))) (f_data f) 0) as [off| | |] eqn:E; cbn [bind].
    + destruct (0 <? fh_size f - off); split; try intros w; discriminate.
    + split; [|intros w]; discriminate.
    + exfalso. eapply PS; eauto.
    + exfalso. apply NF; auto. unfold cbfs_payload_header_size, zlen. lia.
Qed.

Lemma walk_total sec lim : bytes_ok sec = true -> zlen sec < 2 ^ 32 ->
  forall fuel off, 0 <= off ->
  -16 < zlen sec - off <= 16 * Z.of_nat fuel - 16 ->
  walk fuel sec lim off <> Fuel /\ forall w, walk fuel sec lim off <> Panic w.
Proof.
  intros OK LT. induction fuel as [|k IH]; intros off Hoff H; [lia|].
  cbn [walk]. destruct (lim <=? off); [split; [|intros w]; discriminate|].
  destruct (new_file sec off) as [f e| | |e] eqn:NF.
  - pose proof (new_file_inv _ _ _ _ OK LT Hoff NF) as (I1 & I2 & I3 & I4 & I5 & _).
    pose proof (make_seg_total f) as (M1 & M2).
    destruct (make_seg f) as [s| |w|]; cbn [bind]; try (split; [|intros w']; congruence).
    pose proof (align16_ge e).
    destruct (IH (align16 e) ltac:(lia) ltac:(lia)) as (W1 & W2).
    destruct (walk k sec lim (align16 e)) as [rest| |w|]; cbn [bind]; split; try intros w'; try discriminate.
    + exfalso. eapply W2; eauto.
    + exfalso. apply W1; auto.
  - split; [|intros w]; discriminate.
  - assert (24 <= zlen sec - off).
    { unfold new_file in NF. unfold cbfs_file_header_size in NF.
      destruct (zlen sec - off <=? 0); [discriminate|].
      destruct (zlen sec - off <? 24) eqn:E; [discriminate|]. lia. }
    apply IH; lia.
  - split; [|intros w]; discriminate.
Qed.

Theorem new_image_total img : bytes_ok img = true ->
  new_image img <> Fuel /\ forall w, new_image img <> Panic w.
Proof.
  intros OK. unfold new_image.
  destruct (read img) as [[m start]| | |] eqn:R; cbn [bind].
  - destruct (find_area (f_areas m)) as [ar|] eqn:FA; [|split; [|intros w]; discriminate].
    pose proof (read_areas_range _ _ _ OK R ar (find_area_in _ _ FA)) as ((Ao1 & Ao2) & (As1 & As2)).
    pose proof (zlen_area_section img ar As1) as Lsec.
    set (sec := area_section img ar) in *.
    pose proof (zlen_nonneg sec).
    destruct (walk_total sec (a_size ar) (bytes_ok_area_section img ar OK) ltac:(lia)
                (S (length sec)) 0 (Z.le_refl 0)) as (W1 & W2).
    { unfold zlen in *. lia. }
    destruct (walk (S (length sec)) sec (a_size ar) 0) as [segs| |w|]; cbn [bind];
      split; try intros w'; try discriminate.
    + exfalso. eapply W2; eauto.
    + exfalso. apply W1; auto.
  - split; [|intros w]; discriminate.
  - unfold read in R. destruct (scan img 0) as [[|? [|? ?]]|]; discriminate.
  - unfold read in R. destruct (scan img 0) as [[|? [|? ?]]|]; discriminate.
Qed.
