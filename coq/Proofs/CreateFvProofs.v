(* Proofs/CreateFvProofs.v — the volume create-fv builds (Model/CreateFv.v) is a volume the
   independent reader accepts, of exactly the requested size, when the size is a positive number of
   whole 4 KiB blocks; the padding it replaces keeps the region's length; the pinned code writes an
   invalid volume for other sizes (witness) and panics below 116 bytes. *)
(* ValidateProofs (sum16_fix) first: Model/Validate.v has its own fv_doff, which must not shadow
   the reader's (Model/ValidInv.v) *)
From Fiano Require Import Proofs.ValidateProofs.
From Fiano Require Import Base.Bytes Base.BytesLemmas Gen.Consts Model.Ffs Model.Edit Model.Valid Model.ValidInv
  Model.CreateFv Proofs.AsmProofs Proofs.ValidProofs Proofs.ValidTreeProofs.
From Coq Require Import ZifyBool ZifyNat.
Open Scope Z_scope.

(* ---------- small helpers ---------- *)

Lemma cf_zlen_zrepeat x n : 0 <= n -> zlen (zrepeat x n) = n.
Proof. intros H. unfold zrepeat, zlen. assert (forall k, length (repeatz x k) = k) as L by (induction k; simpl; congruence). rewrite L. lia. Qed.

Lemma cf_bytes_ok_zrepeat x n : 0 <= x < 256 -> bytes_ok (zrepeat x n) = true.
Proof. intros H. unfold zrepeat. induction (Z.to_nat n) as [|k IH]; simpl; [reflexivity|]. rewrite IH. unfold byte_ok. lia. Qed.

Lemma cf_bytes_ok_le_enc n v : bytes_ok (le_enc n v) = true.
Proof.
  revert v. induction n as [|n IH]; intros v; simpl; [reflexivity|]. rewrite IH.
  pose proof (Z.mod_pos_bound v 256 ltac:(lia)). unfold byte_ok. lia.
Qed.

(* a read that lies inside the first operand of an append *)
Lemma rd_prefix (a b : bytes) off w : 0 <= off -> off + Z.of_nat w <= zlen a -> rd off w (a ++ b) = rd off w a.
Proof.
  intros H0 H1. unfold rd, sub, zfirstn, zskipn. f_equal.
  rewrite skipn_app. rewrite firstn_app.
  assert (length a >= Z.to_nat off)%nat by (unfold zlen in H1; lia).
  replace (Z.to_nat off - length a)%nat with 0%nat by lia. cbn [skipn].
  replace (Z.to_nat (Z.of_nat w) - length (skipn (Z.to_nat off) a))%nat with 0%nat.
  - cbn [firstn]. apply app_nil_r.
  - rewrite skipn_length. unfold zlen in H1. lia.
Qed.

Lemma sub_prefix (a b : bytes) off len : 0 <= off -> 0 <= len -> off + len <= zlen a -> sub off len (a ++ b) = sub off len a.
Proof.
  intros H0 Hl H1. unfold sub, zfirstn, zskipn.
  rewrite skipn_app. rewrite firstn_app.
  assert (length a >= Z.to_nat off)%nat by (unfold zlen in H1; lia).
  replace (Z.to_nat off - length a)%nat with 0%nat by lia. cbn [skipn].
  replace (Z.to_nat len - length (skipn (Z.to_nat off) a))%nat with 0%nat.
  - cbn [firstn]. apply app_nil_r.
  - rewrite skipn_length. unfold zlen in H1. lia.
Qed.

(* ---------- the header ---------- *)

Lemma zlen_cfv_hdr0 size : zlen (cfv_hdr0 size) = 50.
Proof. unfold cfv_hdr0. rewrite !zlen_app, !zlen_le_enc. reflexivity. Qed.

Lemma zlen_cfv_hdr1 size : zlen (cfv_hdr1 size) = 20.
Proof. unfold cfv_hdr1. rewrite !zlen_app, !zlen_le_enc. reflexivity. Qed.

Lemma zlen_cfv_hdr size : zlen (cfv_hdr size) = 72.
Proof. unfold cfv_hdr. rewrite !zlen_app, zlen_cfv_hdr0, zlen_cfv_hdr1, zlen_le_enc. reflexivity. Qed.

Lemma cfv_hdr_sum size : sum16 (cfv_hdr size) = 0.
Proof. unfold cfv_hdr. apply sum16_fix. rewrite zlen_cfv_hdr0. reflexivity. Qed.

Lemma bytes_ok_cfv_hdr size : bytes_ok (cfv_hdr size) = true.
Proof.
  unfold cfv_hdr, cfv_hdr0, cfv_hdr1. rewrite !bytes_ok_app, !cf_bytes_ok_le_enc.
  rewrite cf_bytes_ok_zrepeat by lia. reflexivity.
Qed.

(* reads of the header fields: the header is [cfv_hdr0] (50 bytes), the checksum (2), [cfv_hdr1] (20) *)
Lemma rd_hdr0 size rest off w : 0 <= off -> off + Z.of_nat w <= 50 ->
  rd off w (cfv_hdr size ++ rest) = rd off w (cfv_hdr0 size).
Proof.
  intros H0 H1. unfold cfv_hdr. rewrite <- !app_assoc.
  apply rd_prefix; [lia | rewrite zlen_cfv_hdr0; lia].
Qed.

Lemma rd_hdr1 size rest off w : 52 <= off -> off + Z.of_nat w <= 72 ->
  rd off w (cfv_hdr size ++ rest) = rd (off - 52) w (cfv_hdr1 size).
Proof.
  intros H0 H1. unfold cfv_hdr. rewrite <- !app_assoc.
  rewrite (rd_app_skip (cfv_hdr0 size) _ off w 50) by (try apply zlen_cfv_hdr0; lia).
  rewrite (rd_app_skip (le_enc 2 _) _ (off - 50) w 2) by (try apply zlen_le_enc; lia).
  replace (off - 50 - 2) with (off - 52) by lia.
  apply rd_prefix; [lia | rewrite zlen_cfv_hdr1; lia].
Qed.

Lemma rd32_hdr0 size : 0 <= size < 2 ^ 64 -> rd 32 8 (cfv_hdr0 size) = size.
Proof.
  intros H. unfold cfv_hdr0.
  rewrite (rd_app_skip (zrepeat 0 16) _ 32 8 16) by (reflexivity || lia).
  rewrite (rd_app_skip FFS2 _ (32 - 16) 8 16) by (reflexivity || lia).
  change (32 - 16 - 16) with 0. rewrite rd_app_here by apply zlen_le_enc.
  apply le_dec_enc. change (256 ^ Z.of_nat 8) with (2 ^ 64). lia.
Qed.

Lemma rd40_hdr0 size : rd 40 4 (cfv_hdr0 size) = FVH_SIG.
Proof.
  unfold cfv_hdr0.
  rewrite (rd_app_skip (zrepeat 0 16) _ 40 4 16) by (reflexivity || lia).
  rewrite (rd_app_skip FFS2 _ (40 - 16) 4 16) by (reflexivity || lia).
  rewrite (rd_app_skip (le_enc 8 size) _ (40 - 16 - 16) 4 8) by (try apply zlen_le_enc; lia).
  change (40 - 16 - 16 - 8) with 0. rewrite rd_app_here by apply zlen_le_enc. reflexivity.
Qed.

Lemma rd44_hdr0 size : rd 44 4 (cfv_hdr0 size) = CFV_ATTRS.
Proof.
  unfold cfv_hdr0.
  rewrite (rd_app_skip (zrepeat 0 16) _ 44 4 16) by (reflexivity || lia).
  rewrite (rd_app_skip FFS2 _ (44 - 16) 4 16) by (reflexivity || lia).
  rewrite (rd_app_skip (le_enc 8 size) _ (44 - 16 - 16) 4 8) by (try apply zlen_le_enc; lia).
  rewrite (rd_app_skip (le_enc 4 FVH_SIG) _ (44 - 16 - 16 - 8) 4 4) by (reflexivity || lia).
  change (44 - 16 - 16 - 8 - 4) with 0. rewrite rd_app_here by apply zlen_le_enc. reflexivity.
Qed.

Lemma rd48_hdr0 size : rd 48 2 (cfv_hdr0 size) = 72.
Proof.
  unfold cfv_hdr0.
  rewrite (rd_app_skip (zrepeat 0 16) _ 48 2 16) by (reflexivity || lia).
  rewrite (rd_app_skip FFS2 _ (48 - 16) 2 16) by (reflexivity || lia).
  rewrite (rd_app_skip (le_enc 8 size) _ (48 - 16 - 16) 2 8) by (try apply zlen_le_enc; lia).
  rewrite (rd_app_skip (le_enc 4 FVH_SIG) _ (48 - 16 - 16 - 8) 2 4) by (reflexivity || lia).
  rewrite (rd_app_skip (le_enc 4 CFV_ATTRS) _ (48 - 16 - 16 - 8 - 4) 2 4) by (reflexivity || lia).
  change (48 - 16 - 16 - 8 - 4 - 4) with 0. rewrite rd_here_exact by apply zlen_le_enc. reflexivity.
Qed.

Lemma sub16_hdr0 size : sub 16 16 (cfv_hdr0 size) = FFS2.
Proof.
  unfold cfv_hdr0.
  rewrite (sub_app_skip (zrepeat 0 16) _ 16 16 16) by (reflexivity || lia).
  change (16 - 16) with 0. apply sub_app_here. reflexivity.
Qed.

(* [cfv_hdr1]: ext header offset (2), reserved, revision, count (4), size (4), terminator (8) *)
Lemma rd0_hdr1 size : rd 0 2 (cfv_hdr1 size) = 96.
Proof. unfold cfv_hdr1. rewrite rd_app_here by apply zlen_le_enc. reflexivity. Qed.

Lemma rd4_hdr1 size : rd 4 4 (cfv_hdr1 size) = (size / CFV_BLOCK) mod U32.
Proof.
  unfold cfv_hdr1.
  rewrite (rd_app_skip (le_enc 2 96) _ 4 4 2) by (reflexivity || lia).
  rewrite (rd_app_skip [0; 2] _ (4 - 2) 4 2) by (reflexivity || lia).
  change (4 - 2 - 2) with 0. rewrite rd_app_here by apply zlen_le_enc.
  apply le_dec_enc. change (256 ^ Z.of_nat 4) with U32. apply Z.mod_pos_bound. reflexivity.
Qed.

Lemma rd8_hdr1 size : rd 8 4 (cfv_hdr1 size) = CFV_BLOCK.
Proof.
  unfold cfv_hdr1.
  rewrite (rd_app_skip (le_enc 2 96) _ 8 4 2) by (reflexivity || lia).
  rewrite (rd_app_skip [0; 2] _ (8 - 2) 4 2) by (reflexivity || lia).
  rewrite (rd_app_skip (le_enc 4 _) _ (8 - 2 - 2) 4 4) by (try apply zlen_le_enc; lia).
  change (8 - 2 - 2 - 4) with 0. rewrite rd_app_here by apply zlen_le_enc. reflexivity.
Qed.

Lemma rd12_hdr1 size : rd 12 4 (cfv_hdr1 size) = 0.
Proof.
  unfold cfv_hdr1.
  rewrite (rd_app_skip (le_enc 2 96) _ 12 4 2) by (reflexivity || lia).
  rewrite (rd_app_skip [0; 2] _ (12 - 2) 4 2) by (reflexivity || lia).
  rewrite (rd_app_skip (le_enc 4 _) _ (12 - 2 - 2) 4 4) by (try apply zlen_le_enc; lia).
  rewrite (rd_app_skip (le_enc 4 CFV_BLOCK) _ (12 - 2 - 2 - 4) 4 4) by (reflexivity || lia).
  change (12 - 2 - 2 - 4 - 4) with 0. rewrite rd_app_here by apply zlen_le_enc. reflexivity.
Qed.

Lemma rd16_hdr1 size : rd 16 4 (cfv_hdr1 size) = 0.
Proof.
  unfold cfv_hdr1.
  rewrite (rd_app_skip (le_enc 2 96) _ 16 4 2) by (reflexivity || lia).
  rewrite (rd_app_skip [0; 2] _ (16 - 2) 4 2) by (reflexivity || lia).
  rewrite (rd_app_skip (le_enc 4 _) _ (16 - 2 - 2) 4 4) by (try apply zlen_le_enc; lia).
  rewrite (rd_app_skip (le_enc 4 CFV_BLOCK) _ (16 - 2 - 2 - 4) 4 4) by (reflexivity || lia).
  rewrite (rd_app_skip (le_enc 4 0) _ (16 - 2 - 2 - 4 - 4) 4 4) by (reflexivity || lia).
  change (16 - 2 - 2 - 4 - 4 - 4) with 0. rewrite rd_here_exact by apply zlen_le_enc. reflexivity.
Qed.

(* ---------- the name file ---------- *)

(* the pad file that carries the extended header: 24-byte header, FVName, ExtHeaderSize = 20 *)
Lemma Ok_inj {A} (a b : A) : Ok a = Ok b -> a = b.
Proof. intros H. injection H. auto. Qed.

Lemma caa_attr0 h ext data : exists ckh, 0 <= ckh < 256 /\
  checksum_and_assemble h ext 0 data =
  (mkFile (f_guid h) ckh 170 (f_type h) 0 (write3 ext) (f_state h) ext (f_dataoff h) (f_nvar h),
   f_guid h ++ [ckh; 170; f_type h; 0] ++ le_enc 3 (write3 ext) ++ [f_state h] ++ data).
Proof.
  unfold checksum_and_assemble. change (attr_large 0) with false. change (attr_checksum 0) with false. cbv iota zeta.
  match goal with |- context [(f_ckh h - ?s) mod 256] => set (ck := (f_ckh h - s) mod 256) end.
  exists ck. split; [apply Z.mod_pos_bound; reflexivity|].
  unfold file_header_bytes. rewrite app_nil_r. rewrite <- ?app_assoc. reflexivity.
Qed.

Lemma name_file_shape pol name nf : cfv_name_file pol name = Ok nf -> zlen name = 16 ->
  exists hd, nf = hd ++ name ++ le_enc 4 20 /\ zlen hd = 24 /\ (bytes_ok name = true -> (pol = 255 \/ pol = 0) -> bytes_ok nf = true).
Proof.
  unfold cfv_name_file. destruct (negb ((pol =? 255) || (pol =? 0))) eqn:Ep; [discriminate|].
  cbv beta iota zeta delta [set_size]. change (16777215 <=? 44) with false. cbv iota.
  change (set_large 0 false) with 0.
  match goal with |- context [checksum_and_assemble ?h 44 0 (zrepeat pol 20)] =>
    destruct (caa_attr0 h 44 (zrepeat pol 20)) as (c1 & Hc1 & ->) end.
  match goal with |- context [checksum_and_assemble ?h 44 0 (name ++ le_enc 4 20)] =>
    destruct (caa_attr0 h 44 (name ++ le_enc 4 20)) as (c2 & Hc2 & ->) end.
  cbv beta iota delta [snd f_guid f_type f_state]. intros Hnf Hn. apply Ok_inj in Hnf. subst nf.
  exists (zrepeat pol 16 ++ [c2; 170; 240; 0] ++ le_enc 3 (write3 44) ++ [Z.lxor 7 pol]).
  split; [rewrite <- ?app_assoc; reflexivity|]. split.
  - rewrite !zlen_app, zlen_le_enc. rewrite cf_zlen_zrepeat by lia. reflexivity.
  - intros Hb Hp. rewrite <- ?app_assoc. rewrite !bytes_ok_app, Hb, !cf_bytes_ok_le_enc.
    rewrite cf_bytes_ok_zrepeat by (destruct Hp as [-> | ->]; lia).
    assert (byte_ok (Z.lxor 7 pol) = true) as Hst by (destruct Hp as [-> | ->]; reflexivity).
    assert (byte_ok c2 = true) as Hc by (unfold byte_ok; lia).
    cbn [bytes_ok forallb]. rewrite Hst, Hc. reflexivity.
Qed.

(* ---------- the created volume ---------- *)

Definition whole_blocks (size : Z) : Prop := 0 < size /\ size mod 4096 = 0 /\ size < 2 ^ 44.

Lemma create_fv_agree pol size name fvoff : 0 < size -> size mod 4096 = 0 ->
  create_fv pol size name fvoff = create_fv_pinned pol size name fvoff.
Proof.
  intros H0 Hm. unfold create_fv, CFV_BLOCK. rewrite Hm.
  replace (size =? 0) with false by lia. reflexivity.
Qed.

Lemma v_blocks_sum_two f v c s : rd 56 4 v = c -> rd 60 4 v = s -> s <> 0 ->
  rd 64 4 v = 0 -> rd 68 4 v = 0 -> 72 <= zlen v ->
  v_blocks_sum (S (S f)) v 56 = Some (c * s + 0, 72).
Proof.
  intros Hc Hs Hs0 H64 H68 Hl.
  change (v_blocks_sum (S (S f)) v 56) with
    (if zlen v <? 56 + 8 then None else
     let c := rd 56 4 v in let s := rd (56 + 4) 4 v in
     if (c =? 0) && (s =? 0) then Some (0, 56 + 8)
     else match v_blocks_sum (S f) v (56 + 8) with
          | Some (t, e) => Some (c * s + t, e)
          | None => None
          end).
  replace (zlen v <? 56 + 8) with false by lia. cbv zeta.
  change (56 + 4) with 60. change (56 + 8) with 64. rewrite Hc, Hs.
  replace ((c =? 0) && (s =? 0)) with false by lia.
  change (v_blocks_sum (S f) v 64) with
    (if zlen v <? 64 + 8 then None else
     let c := rd 64 4 v in let s := rd (64 + 4) 4 v in
     if (c =? 0) && (s =? 0) then Some (0, 64 + 8)
     else match v_blocks_sum f v (64 + 8) with
          | Some (t, e) => Some (c * s + t, e)
          | None => None
          end).
  replace (zlen v <? 64 + 8) with false by lia. cbv zeta.
  change (64 + 4) with 68. rewrite H64, H68. reflexivity.
Qed.

Lemma create_fv_vhdr_in size name fvoff h vb :
  whole_blocks size -> zlen name = 16 -> bytes_ok name = true ->
  create_fv_pinned 255 size name fvoff = Ok (h, vb) ->
  vhdr_in h vb /\ vol_verbatim h [] = false /\ v_resizable h = false /\
  255 = fv_polarity (v_attrs h) /\ v_length h = size.
Proof.
  intros (Hpos & Hmod & Hlt) Hn Hbn. unfold create_fv_pinned.
  destruct (cfv_name_file 255 name) as [nf| | |] eqn:En; cbn [bind]; try discriminate.
  assert (Hsz : 4096 <= size).
  { pose proof (Z.div_mod size 4096 ltac:(lia)). assert (0 < size / 4096) by (apply Z.div_str_pos; lia || (destruct (Z.eq_dec (size / 4096) 0); lia)). lia. }
  replace (size <? 116) with false by lia.
  intros Hok. apply Ok_inj in Hok. apply pair_equal_spec in Hok as [<- <-].
  cbv beta iota delta [v_length v_hdrlen v_attrs v_dataoff v_blocks v_resizable v_guid].
  destruct (name_file_shape 255 name nf En Hn) as (hd & -> & Lhd & Hbok).
  set (tail := zrepeat 255 (size - 116)).
  assert (Ltail : zlen tail = size - 116) by (apply cf_zlen_zrepeat; lia).
  set (vb := cfv_hdr size ++ (hd ++ name ++ le_enc 4 20) ++ tail).
  assert (Lvb : zlen vb = size).
  { unfold vb. rewrite !zlen_app, zlen_cfv_hdr, Lhd, Hn, zlen_le_enc, Ltail. lia. }
  (* the reads *)
  assert (R32 : rd 32 8 vb = size) by (unfold vb; rewrite rd_hdr0 by (cbn; lia); apply rd32_hdr0; lia).
  assert (R40 : rd 40 4 vb = FVH_SIG) by (unfold vb; rewrite rd_hdr0 by (cbn; lia); apply rd40_hdr0).
  assert (R44 : rd 44 4 vb = CFV_ATTRS) by (unfold vb; rewrite rd_hdr0 by (cbn; lia); apply rd44_hdr0).
  assert (R48 : rd 48 2 vb = 72) by (unfold vb; rewrite rd_hdr0 by (cbn; lia); apply rd48_hdr0).
  assert (R52 : rd 52 2 vb = 96) by (unfold vb; rewrite rd_hdr1 by (cbn; lia); apply rd0_hdr1).
  assert (R56 : rd 56 4 vb = (size / CFV_BLOCK) mod U32) by (unfold vb; rewrite rd_hdr1 by (cbn; lia); apply rd4_hdr1).
  assert (R60 : rd 60 4 vb = CFV_BLOCK) by (unfold vb; rewrite rd_hdr1 by (cbn; lia); apply rd8_hdr1).
  assert (R64 : rd 64 4 vb = 0) by (unfold vb; rewrite rd_hdr1 by (cbn; lia); apply rd12_hdr1).
  assert (R68 : rd 68 4 vb = 0) by (unfold vb; rewrite rd_hdr1 by (cbn; lia); apply rd16_hdr1).
  assert (R112 : rd 112 4 vb = 20).
  { unfold vb. rewrite (rd_app_skip (cfv_hdr size) _ 112 4 72) by (try apply zlen_cfv_hdr; lia).
    rewrite <- !app_assoc.
    rewrite (rd_app_skip hd _ (112 - 72) 4 24) by (auto; lia).
    rewrite (rd_app_skip name _ (112 - 72 - 24) 4 16) by (auto; lia).
    change (112 - 72 - 24 - 16) with 0. rewrite rd_app_here by apply zlen_le_enc. reflexivity. }
  assert (Hcnt : (size / CFV_BLOCK) mod U32 = size / 4096).
  { unfold CFV_BLOCK, U32. apply Z.mod_small. split; [apply Z.div_pos; lia|].
    apply Z.div_lt_upper_bound; lia. }
  assert (Hcs : size / 4096 * 4096 = size).
  { pose proof (Z.div_mod size 4096 ltac:(lia)). lia. }
  assert (S16 : sub 16 16 vb = FFS2).
  { unfold vb, cfv_hdr. rewrite <- !app_assoc. rewrite sub_prefix by (try rewrite zlen_cfv_hdr0; lia).
    apply sub16_hdr0. }
  assert (Hsum : sum16 (sub 0 72 vb) = 0).
  { unfold vb. rewrite sub_app_here by apply zlen_cfv_hdr. apply cfv_hdr_sum. }
  assert (Hdoff : fv_doff vb = 120).
  { unfold fv_doff. cbv zeta. rewrite R52. change (96 =? 0) with false. cbv iota.
    change (96 + 16) with 112. rewrite R112. reflexivity. }
  split; [|repeat split; try reflexivity].
  unfold vhdr_in. cbv beta iota delta [v_length v_hdrlen v_attrs v_dataoff v_blocks].
  split.
  { unfold vb. rewrite !bytes_ok_app, bytes_ok_cfv_hdr.
    rewrite !bytes_ok_app in Hbok. rewrite (Hbok Hbn ltac:(auto)). unfold tail. rewrite cf_bytes_ok_zrepeat by lia. reflexivity. }
  split; [exact Lvb|]. split.
  { unfold fv_hdr_ok. cbv zeta. rewrite R32, R40, R48, R52, Lvb, Hsum.
    destruct (Z.to_nat size) as [|f] eqn:Ef; [lia|].
    rewrite (v_blocks_sum_two f vb _ _ R56 R60 ltac:(unfold CFV_BLOCK; lia) R64 R68 ltac:(lia)).
    rewrite Hcnt. unfold CFV_BLOCK. rewrite Hcs. unfold FVH_SIG.
    change (Z.even 72) with true. change (96 =? 0) with false. cbv iota.
    rewrite Z.add_0_r, !Z.eqb_refl, !Z.leb_refl. cbn [andb].
    repeat (apply andb_true_iff; split); lia. }
  split; [exact R32|]. split; [exact R48|]. split; [exact R44|]. split; [exact Hdoff|].
  split; [do 3 eexists; split; [reflexivity | exact R56] | intros _; rewrite R52; lia].
Qed.

(* the new volume, once Assemble has rebuilt it (no files: header, name file, erased space), is a
   volume the independent reader accepts and has exactly the requested size *)
Lemma create_fv_valid dec d ffs3 size name fvoff h vb h' b :
  whole_blocks size -> zlen name = 16 -> bytes_ok name = true ->
  create_fv 255 size name fvoff = Ok (h, vb) ->
  asm_vol 255 ffs3 h vb [] = Ok (h', b) ->
  zlen vb = size /\ zlen b = size /\ v_length h' = size /\ valid_fv dec (S d) true b = true.
Proof.
  intros Hw Hn Hb Hc Ha. destruct Hw as (H0 & Hm & Hl).
  rewrite create_fv_agree in Hc by assumption.
  destruct (create_fv_vhdr_in size name fvoff h vb (conj H0 (conj Hm Hl)) Hn Hb Hc) as (Hin & Hv & Hr & Hp & Hlen).
  destruct (asm_vol_v_len _ _ _ _ _ _ _ Ha Hv Hr) as [Lb Lh'].
  assert (Lvb : zlen vb = size) by (destruct Hin as (_ & L & _); lia).
  split; [lia|]. split; [lia|]. split; [lia|].
  eapply (asm_vol_valid_fv dec d 255 ffs3 h vb [] h' b Ha Hv Hr Hin Hp); [lia | constructor].
Qed.

(* ---------- the padding that is split ---------- *)

Fixpoint elems_len (l : list node) : Z :=
  match l with [] => 0 | e :: r => zlen (node_buf e) + elems_len r end.

Lemma elems_len_app a b : elems_len (a ++ b) = elems_len a + elems_len b.
Proof. induction a as [|x a IH]; cbn [app elems_len]; [lia | rewrite IH; lia]. Qed.

Lemma cfv_insert_len mk elems off size elems' : 0 <= size ->
  (forall o h vb, mk o = Ok (h, vb) -> zlen vb = size /\ v_length h = size) ->
  cfv_insert mk elems off size = Ok elems' -> elems_len elems' = elems_len elems.
Proof.
  intros Hs Hmk. revert elems'. induction elems as [|e r IH]; intros elems'; cbn [cfv_insert]; [discriminate|].
  assert (Hrec : forall x, (do r' <- cfv_insert mk r off size; Ok (x :: r')) = Ok elems' ->
                           elems_len elems' = elems_len (x :: r)).
  { intros x. destruct (cfv_insert mk r off size) as [r'| | |] eqn:Er; cbn [bind]; try discriminate.
    intros Hx. apply Ok_inj in Hx. subst elems'. cbn [elems_len]. rewrite (IH r' eq_refl). reflexivity. }
  destruct e as [hs sb sk | hf fb fk | hv vb0 vk | po pb]; try (apply Hrec).
  destruct ((po <=? off) && (off + size <=? po + zlen pb)) eqn:Ein; [|apply Hrec].
  destruct (mk off) as [[h vb]| | |] eqn:Em; cbn [bind]; try discriminate.
  destruct (Hmk off h vb Em) as [Lv Lh]. intros Hx. apply Ok_inj in Hx. subst elems'.
  apply andb_true_iff in Ein as [E1 E2]. apply Z.leb_le in E1, E2.
  rewrite elems_len_app. cbn [elems_len node_buf]. rewrite elems_len_app. rewrite Lh.
  assert (Hhead : elems_len (if po <? off then [NPad po (zfirstn (off - po) pb)] else []) = off - po).
  { destruct (po <? off) eqn:E; cbn [elems_len node_buf].
    - unfold zfirstn, zlen. rewrite firstn_length. unfold zlen in E2. lia.
    - lia. }
  assert (Htail : elems_len (if off - po + size <? zlen pb then [NPad (off + size) (zskipn (off - po + size) pb)] else [])
                  = zlen pb - (off - po + size)).
  { destruct (off - po + size <? zlen pb) eqn:E; cbn [elems_len node_buf].
    - unfold zskipn, zlen. rewrite skipn_length. unfold zlen in E. lia.
    - lia. }
  rewrite Hhead, Htail. lia.
Qed.

(* ---------- the pinned code ---------- *)

Lemma create_fv_pinned_small pol size name fvoff : (pol = 255 \/ pol = 0) -> size < 116 ->
  create_fv_pinned pol size name fvoff = Panic 501.
Proof.
  intros Hp Hs. unfold create_fv_pinned.
  destruct (cfv_name_file pol name) as [nf| | |] eqn:En.
  - cbn [bind]. replace (size <? 116) with true by lia. reflexivity.
  - exfalso. revert En. unfold cfv_name_file.
    replace (negb ((pol =? 255) || (pol =? 0))) with false by (destruct Hp as [-> | ->]; reflexivity).
    cbv beta iota zeta delta [set_size]. change (16777215 <=? 44) with false. cbv iota.
    destruct (checksum_and_assemble _ 44 (set_large 0 false) (zrepeat pol 20)) as [h1 b1]. discriminate.
  - exfalso. revert En. unfold cfv_name_file.
    replace (negb ((pol =? 255) || (pol =? 0))) with false by (destruct Hp as [-> | ->]; reflexivity).
    cbv beta iota zeta delta [set_size]. change (16777215 <=? 44) with false. cbv iota.
    destruct (checksum_and_assemble _ 44 (set_large 0 false) (zrepeat pol 20)) as [h1 b1]. discriminate.
  - exfalso. revert En. unfold cfv_name_file.
    replace (negb ((pol =? 255) || (pol =? 0))) with false by (destruct Hp as [-> | ->]; reflexivity).
    cbv beta iota zeta delta [set_size]. change (16777215 <=? 44) with false. cbv iota.
    destruct (checksum_and_assemble _ 44 (set_large 0 false) (zrepeat pol 20)) as [h1 b1]. discriminate.
Qed.

Definition cfv_witness_name : bytes := [1; 2; 3; 4; 5; 6; 7; 8; 9; 10; 11; 12; 13; 14; 15; 16].

(* 4104 bytes = one block and 8 bytes: the pinned code builds the volume, Assemble rebuilds it, and
   the reader rejects the result (Length 4104, block map 1 x 4096) *)
Definition cfv_refute_check (size : Z) : bool :=
  match create_fv_pinned 255 size cfv_witness_name 0 with
  | Ok (h, vb) =>
    match asm_vol 255 false h vb [] with
    | Ok (h', b) => (zlen b =? size) && negb (valid_fv (fun _ _ => None) 3 true b)
    | _ => false
    end
  | _ => false
  end.

Lemma cfv_refute_check_4104 : cfv_refute_check 4104 = true.
Proof. vm_compute. reflexivity. Qed.

Lemma create_fv_pinned_refuted : exists size h vb h' b,
  size mod 4096 <> 0 /\
  create_fv_pinned 255 size cfv_witness_name 0 = Ok (h, vb) /\
  asm_vol 255 false h vb [] = Ok (h', b) /\ zlen b = size /\
  valid_fv (fun _ _ => None) 3 true b = false.
Proof.
  pose proof cfv_refute_check_4104 as H. unfold cfv_refute_check in H.
  destruct (create_fv_pinned 255 4104 cfv_witness_name 0) as [[h vb]| | |] eqn:E1; try discriminate.
  destruct (asm_vol 255 false h vb []) as [[h' b]| | |] eqn:E2; try discriminate.
  apply andb_true_iff in H as [H1 H2]. apply Z.eqb_eq in H1. apply negb_true_iff in H2.
  exists 4104, h, vb, h', b. split; [vm_compute; discriminate|].
  split; [exact E1|]. split; [exact E2|]. split; [exact H1 | exact H2].
Qed.

(* ---------- the statements as Properties/C02.v gives them ---------- *)

Lemma create_fv_valid_stmt dec d ffs3 size name fvoff h vb h' b :
  0 < size -> size mod 4096 = 0 -> size < 2 ^ 44 -> zlen name = 16 -> bytes_ok name = true ->
  create_fv 255 size name fvoff = Ok (h, vb) ->
  asm_vol 255 ffs3 h vb [] = Ok (h', b) ->
  zlen vb = size /\ zlen b = size /\ v_length h' = size /\ valid_fv dec (S d) true b = true.
Proof. intros H0 Hm Hl. apply create_fv_valid. unfold whole_blocks. auto. Qed.

Lemma create_fv_region_len fixed pol elems length off size name elems' : 0 <= size ->
  create_fv_region fixed pol elems length off size name = Ok elems' ->
  (forall o h vb, (if fixed then create_fv pol size name o else create_fv_pinned pol size name o) = Ok (h, vb) ->
                  zlen vb = size /\ v_length h = size) ->
  elems_len elems' = elems_len elems.
Proof.
  intros Hs. unfold create_fv_region. destruct (length <? off + size); [discriminate|].
  intros H Hmk. exact (cfv_insert_len _ _ _ _ _ Hs (fun o h vb E => Hmk o h vb E) H).
Qed.

(* the buffer create-fv hands to the tree has the requested size (any size from 116 on) *)
Lemma create_fv_pinned_len pol size name fvoff h vb : zlen name = 16 ->
  create_fv_pinned pol size name fvoff = Ok (h, vb) -> zlen vb = size /\ v_length h = size.
Proof.
  intros Hn. unfold create_fv_pinned.
  destruct (cfv_name_file pol name) as [nf| | |] eqn:En; cbn [bind]; try discriminate.
  destruct (size <? 116) eqn:Es; [discriminate|].
  intros Hok. apply Ok_inj in Hok. apply pair_equal_spec in Hok as [<- <-].
  destruct (name_file_shape pol name nf En Hn) as (hd & -> & Lhd & _).
  split; [|reflexivity].
  rewrite !zlen_app, zlen_cfv_hdr, Lhd, Hn, zlen_le_enc. rewrite cf_zlen_zrepeat by lia. lia.
Qed.

Lemma create_fv_len pol size name fvoff h vb : zlen name = 16 ->
  create_fv pol size name fvoff = Ok (h, vb) -> zlen vb = size /\ v_length h = size.
Proof.
  intros Hn. unfold create_fv. destruct ((size =? 0) || negb (size mod CFV_BLOCK =? 0)); [discriminate|].
  apply create_fv_pinned_len; assumption.
Qed.

(* create-fv on the elements of a region: whatever the variant, the elements still add up to the
   same number of bytes (the region keeps its size) *)
Lemma create_fv_region_same_size fixed pol elems length off size name elems' : 0 <= size -> zlen name = 16 ->
  create_fv_region fixed pol elems length off size name = Ok elems' ->
  elems_len elems' = elems_len elems.
Proof.
  intros Hs Hn H. eapply create_fv_region_len; eauto.
  intros o h vb. destruct fixed; [apply create_fv_len | apply create_fv_pinned_len]; assumption.
Qed.

(* the repaired operation refuses what the pinned code mishandles *)
Lemma create_fv_refuses pol size name fvoff : size = 0 \/ size mod 4096 <> 0 ->
  create_fv pol size name fvoff = Err E_CFVSIZE.
Proof.
  intros H. unfold create_fv, CFV_BLOCK.
  replace ((size =? 0) || negb (size mod 4096 =? 0)) with true by lia. reflexivity.
Qed.
