(* Proofs/IntegrityProofs.v — lemmas about Model/Integrity.v (property C16). *)
From Fiano Require Import Base.Bytes Base.BytesLemmas Gen.Consts Model.Integrity.
From Coq Require Import ZifyBool ZifyNat.
Open Scope Z_scope.

(* ------------------------------------------------------------------ *)
(* encodings                                                           *)
(* ------------------------------------------------------------------ *)

Lemma reverse_involutive b : reverse_bytes (reverse_bytes b) = b.
Proof. apply rev_involutive. Qed.

Lemma zlen_rev {A} (l : list A) : zlen (rev l) = zlen l.
Proof. unfold zlen; rewrite rev_length; reflexivity. Qed.

Lemma z_of_be_reverse b : z_of_be (reverse_bytes b) = le_dec b.
Proof. unfold z_of_be, be_dec, reverse_bytes. rewrite rev_involutive. reflexivity. Qed.

Lemma reverse_fill_be w n : reverse_bytes (fill_be w n) = le_enc (Z.to_nat w) n.
Proof. unfold reverse_bytes, fill_be, be_enc. apply rev_involutive. Qed.

Lemma pow256 k : 0 <= k -> 256 ^ k = 2 ^ (8 * k).
Proof. intros. rewrite Z.pow_mul_r by lia. reflexivity. Qed.

Lemma bitlen_le r k : 0 <= r -> 0 <= k -> (bitlen r <=? k) = (r <? 2 ^ k).
Proof.
  intros Hr Hk. unfold bitlen. destruct (r <=? 0) eqn:E.
  - assert (r = 0) by lia. subst. pose proof (Z.pow_pos_nonneg 2 k). lia.
  - assert (Hp : 0 < r) by lia.
    pose proof (Z.log2_lt_pow2 r k Hp) as [A B].
    destruct (r <? 2 ^ k) eqn:F.
    + assert (Z.log2 r < k) by (apply A; lia). lia.
    + destruct (Z.log2 r + 1 <=? k) eqn:G; auto.
      assert (r < 2 ^ k) by (apply B; lia). lia.
Qed.

Lemma bytelen_bound n : 0 <= n -> n < 256 ^ bytelen n.
Proof.
  intros Hn. unfold bytelen. destruct (n <=? 0) eqn:E.
  - assert (n = 0) by lia. subst. simpl. lia.
  - assert (Hp : 0 < n) by lia.
    pose proof (Z.log2_nonneg n) as L0.
    rewrite pow256 by (pose proof (Z.div_pos (Z.log2 n) 8); lia).
    apply Z.log2_lt_pow2; auto.
    pose proof (Z.div_mod (Z.log2 n) 8 ltac:(lia)).
    pose proof (Z.mod_pos_bound (Z.log2 n) 8 ltac:(lia)). lia.
Qed.

Lemma bytelen_nonneg n : 0 <= bytelen n.
Proof.
  unfold bytelen. destruct (n <=? 0); [lia|].
  pose proof (Z.log2_nonneg n). pose proof (Z.div_pos (Z.log2 n) 8 ltac:(lia) ltac:(lia)). lia.
Qed.

(* a number between 256^(L-1) and 256^L needs exactly L bytes *)
Lemma bytelen_exact v L : 1 <= L -> 256 ^ (L - 1) <= v < 256 ^ L -> bytelen v = L.
Proof.
  intros HL [Lo Hi]. unfold bytelen.
  assert (0 < 256 ^ (L - 1)) by (apply Z.pow_pos_nonneg; lia).
  replace (v <=? 0) with false by lia.
  rewrite pow256 in Lo, Hi by lia.
  assert (Hp : 0 < v) by lia.
  assert (A : 8 * (L - 1) <= Z.log2 v) by (apply Z.log2_le_pow2; lia).
  assert (B : Z.log2 v < 8 * L) by (apply Z.log2_lt_pow2; lia).
  assert (Z.log2 v / 8 = L - 1).
  { symmetry. apply (Z.div_unique _ 8 (L - 1) (Z.log2 v - 8 * (L - 1))); lia. }
  lia.
Qed.

Lemma zlen_z_bytes_be n : zlen (z_bytes_be n) = bytelen n.
Proof.
  unfold z_bytes_be, be_enc. rewrite zlen_rev, zlen_le_enc.
  pose proof (bytelen_nonneg n). lia.
Qed.

Lemma le_dec_reverse_z_bytes n : 0 <= n -> le_dec (reverse_bytes (z_bytes_be n)) = n.
Proof.
  intros Hn. unfold reverse_bytes, z_bytes_be, be_enc. rewrite rev_involutive.
  apply le_dec_enc. split; auto.
  pose proof (bytelen_nonneg n). rewrite Z2Nat.id by lia. apply bytelen_bound; auto.
Qed.

(* top (last, little-endian) byte non-zero: the minimal big-endian form is the reversal *)
Lemma le_dec_lower m x : bytes_ok m = true -> 0 < x < 256 ->
  256 ^ zlen m <= le_dec (m ++ [x]) < 256 ^ (zlen m + 1).
Proof.
  induction m as [|b r IH]; intros Hok Hx.
  - simpl. lia.
  - rewrite bytes_ok_cons in Hok. apply andb_true_iff in Hok as [Hb Hr].
    apply byte_ok_iff in Hb. specialize (IH Hr Hx).
    rewrite zlen_cons. cbn [app le_dec].
    pose proof (zlen_nonneg r).
    replace (1 + zlen r + 1) with (Z.succ (zlen r + 1)) by lia.
    replace (1 + zlen r) with (Z.succ (zlen r)) by lia.
    rewrite !Z.pow_succ_r by lia. lia.
Qed.

Lemma z_bytes_be_le_dec m x : bytes_ok m = true -> 0 < x < 256 ->
  z_bytes_be (le_dec (m ++ [x])) = rev (m ++ [x]).
Proof.
  intros Hok Hx. pose proof (le_dec_lower m x Hok Hx) as Hb.
  pose proof (zlen_nonneg m).
  assert (BL : bytelen (le_dec (m ++ [x])) = zlen m + 1).
  { apply bytelen_exact; [lia|]. replace (zlen m + 1 - 1) with (zlen m) by lia. exact Hb. }
  unfold z_bytes_be, be_enc. rewrite BL. f_equal.
  replace (Z.to_nat (zlen m + 1)) with (length (m ++ [x])).
  - apply le_enc_dec. rewrite bytes_ok_app, Hok. simpl. rewrite andb_true_r. apply byte_ok_iff. lia.
  - rewrite app_length. simpl. unfold zlen. lia.
Qed.

Lemma u16_small x : 0 <= x < 2 ^ 16 -> u16 x = x.
Proof. intros. unfold u16. apply Z.mod_small; lia. Qed.

Lemma u32_small x : 0 <= x < 2 ^ 32 -> u32 x = x.
Proof. intros. unfold u32. apply Z.mod_small; lia. Qed.

Lemma of_bytes_bits_small n : 0 <= n < 8192 -> of_bytes_bits n = n * 8 /\ in_bytes (of_bytes_bits n) = n.
Proof.
  intros H. unfold of_bytes_bits, in_bytes.
  rewrite (u16_small n) by lia. rewrite u16_small by lia.
  split; auto. apply Z.div_mul; lia.
Qed.

Lemma slice_from k b : 0 <= k <= zlen b -> slice k (zlen b) b = Some (zskipn k b).
Proof.
  intros H. rewrite slice_ok by lia. f_equal. unfold sub.
  unfold zfirstn. rewrite <- (zlen_zskipn k b) by lia. unfold zlen. rewrite Nat2Z.id. apply firstn_all.
Qed.

Lemma slice_upto k b : 0 <= k <= zlen b -> slice 0 k b = Some (zfirstn k b).
Proof.
  intros H. rewrite slice_ok by lia. f_equal. unfold sub. rewrite Z.sub_0_r. reflexivity.
Qed.

Lemma zskipn_app_len {A} (a b : list A) k : zlen a = k -> zskipn k (a ++ b) = b.
Proof. intros <-. apply zskipn_app_exact. Qed.

Lemma zfirstn_app_len {A} (a b : list A) k : zlen a = k -> zfirstn k (a ++ b) = a.
Proof. intros <-. apply zfirstn_app_exact. Qed.

(* PubKey (SetPubKey k) = k for RSA keys (cbnt and bg share the layout: exponent u32, then the
   modulus little-endian) *)
Lemma rsa_key_roundtrip_gen alg n e : 0 <= n -> bytelen n < 8192 -> 0 <= e < 2 ^ 32 ->
  let k := set_pub_key_rsa alg n e in
  zlen (k_data k) = in_bytes (k_size k) + 4 /\
  slice 4 (zlen (k_data k)) (k_data k) = Some (reverse_bytes (z_bytes_be n)) /\
  rd 0 4 (k_data k) = e.
Proof.
  intros Hn Hl He. cbn zeta. unfold set_pub_key_rsa. cbn [k_data k_size].
  pose proof (bytelen_nonneg n) as B0.
  rewrite zlen_z_bytes_be.
  destruct (of_bytes_bits_small (bytelen n) ltac:(lia)) as [_ IB]. rewrite IB.
  assert (L4 : zlen (le_enc 4 (u32 e)) = 4) by apply le4.
  assert (LR : zlen (reverse_bytes (z_bytes_be n)) = bytelen n).
  { unfold reverse_bytes. rewrite zlen_rev. apply zlen_z_bytes_be. }
  split; [rewrite zlen_app, L4, LR; lia|]. split.
  - rewrite slice_from by (rewrite zlen_app, L4, LR; lia).
    f_equal; try (apply zskipn_app_len; auto).
  - rewrite rd_app_here by exact L4. rewrite u32_small by lia. apply le_dec_enc. simpl; lia.
Qed.

Lemma rsa_key_roundtrip n e : 0 <= n -> bytelen n < 8192 -> 0 <= e < 2 ^ 32 ->
  exists k, set_pub_key (PubRSA n e) = Ok k /\ pub_key k = Ok (PubRSA n e).
Proof.
  intros Hn Hl He. eexists; split; [reflexivity|].
  destruct (rsa_key_roundtrip_gen c16_alg_rsa n e Hn Hl He) as (L & S & R).
  unfold pub_key, key_data_size.
  change (k_alg (set_pub_key_rsa c16_alg_rsa n e)) with c16_alg_rsa.
  rewrite Z.eqb_refl.
  set (k := set_pub_key_rsa c16_alg_rsa n e) in *.
  assert (0 <= in_bytes (k_size k)).
  { unfold in_bytes. apply Z.div_pos; [|lia]. unfold k, set_pub_key_rsa, of_bytes_bits, u16; cbn [k_size].
    apply Z.mod_pos_bound; lia. }
  replace (in_bytes (k_size k) + 4 <? 0) with false by lia.
  rewrite L, Z.eqb_refl. cbn [negb]. rewrite <- L, S. cbn [of_opt bind].
  rewrite z_of_be_reverse, R. f_equal. f_equal.
  rewrite <- z_of_be_reverse. rewrite reverse_involutive.
  unfold z_of_be, z_bytes_be, be_dec, be_enc. rewrite rev_involutive.
  apply le_dec_enc. split; auto. pose proof (bytelen_nonneg n). rewrite Z2Nat.id by lia.
  apply bytelen_bound; auto.
Qed.

Lemma bg_rsa_key_roundtrip n e : 0 <= n -> bytelen n < 8192 -> 0 <= e < 2 ^ 32 ->
  exists k, bg_set_pub_key (PubRSA n e) = Ok k /\ bg_pub_key k = Ok (PubRSA n e).
Proof.
  intros Hn Hl He. eexists; split; [reflexivity|].
  destruct (rsa_key_roundtrip_gen c16_bg_alg_rsa n e Hn Hl He) as (L & S & R).
  unfold bg_pub_key, key_data_size.
  change (k_alg (set_pub_key_rsa c16_bg_alg_rsa n e)) with c16_bg_alg_rsa.
  rewrite Z.eqb_refl.
  set (k := set_pub_key_rsa c16_bg_alg_rsa n e) in *.
  assert (0 <= in_bytes (k_size k)).
  { unfold in_bytes. apply Z.div_pos; [|lia]. unfold k, set_pub_key_rsa, of_bytes_bits, u16; cbn [k_size].
    apply Z.mod_pos_bound; lia. }
  replace (in_bytes (k_size k) + 4 <? 0) with false by lia.
  rewrite L, Z.eqb_refl. cbn [negb]. rewrite <- L, S. cbn [of_opt bind].
  rewrite z_of_be_reverse. f_equal. f_equal; auto.
  apply le_dec_reverse_z_bytes; auto.
Qed.

(* the other direction on bytes: a stored RSA key whose top modulus byte is non-zero is
   reproduced by SetPubKey (PubKey k) *)
Lemma rsa_key_roundtrip_bytes e m x : 0 <= e < 2 ^ 32 -> bytes_ok m = true -> 0 < x < 256 ->
  zlen m + 1 < 8192 ->
  let k := mkKey c16_alg_rsa 16 (8 * (zlen m + 1)) (le_enc 4 e ++ m ++ [x]) in
  pub_key k = Ok (PubRSA (le_dec (m ++ [x])) e) /\
  set_pub_key (PubRSA (le_dec (m ++ [x])) e) = Ok k.
Proof.
  intros He Hok Hx Hl. cbn zeta. pose proof (zlen_nonneg m) as M0.
  assert (L4 : zlen (le_enc 4 e) = 4) by apply le4.
  assert (LM : zlen (m ++ [x]) = zlen m + 1) by (rewrite zlen_app; reflexivity).
  split.
  - unfold pub_key, key_data_size. cbn [k_alg k_size k_data]. rewrite Z.eqb_refl.
    unfold in_bytes. rewrite Z.mul_comm, Z.div_mul by lia.
    replace (zlen m + 1 + 4 <? 0) with false by lia.
    rewrite zlen_app, L4, LM.
    replace (4 + (zlen m + 1) =? zlen m + 1 + 4) with true by lia. cbn [negb].
    replace (4 + (zlen m + 1)) with (zlen (le_enc 4 e ++ m ++ [x])) by (rewrite zlen_app, L4, LM; lia).
    rewrite slice_from by (rewrite zlen_app, L4, LM; lia).
    rewrite (zskipn_app_len (le_enc 4 e) (m ++ [x]) 4 L4). cbn [of_opt bind].
    rewrite z_of_be_reverse. f_equal. f_equal.
    rewrite rd_app_here by exact L4. apply le_dec_enc. simpl; lia.
  - unfold set_pub_key, set_pub_key_rsa. f_equal.
    rewrite z_bytes_be_le_dec by auto. unfold reverse_bytes. rewrite rev_involutive.
    rewrite zlen_rev, LM. rewrite u32_small by lia.
    destruct (of_bytes_bits_small (zlen m + 1) ltac:(lia)) as [OB _]. rewrite OB.
    f_equal. lia.
Qed.

(* ---- fixed-width (r, s) and (x, y) ---- *)

Lemma encode_rs_eq w r s : encode_rs w r s = le_enc (Z.to_nat w) r ++ le_enc (Z.to_nat w) s.
Proof. unfold encode_rs. rewrite !reverse_fill_be. reflexivity. Qed.

Lemma zlen_encode_rs w r s : 0 <= w -> zlen (encode_rs w r s) = 2 * w.
Proof. intros. rewrite encode_rs_eq, zlen_app, !zlen_le_enc. lia. Qed.

Lemma rs_fixed_width w r s : 0 <= w -> 0 <= r < 256 ^ w -> 0 <= s < 256 ^ w ->
  zlen (encode_rs w r s) = 2 * w /\
  le_dec (zfirstn w (encode_rs w r s)) = r /\ le_dec (zskipn w (encode_rs w r s)) = s.
Proof.
  intros Hw Hr Hs. split; [apply zlen_encode_rs; auto|].
  rewrite encode_rs_eq.
  assert (L : zlen (le_enc (Z.to_nat w) r) = w) by (rewrite zlen_le_enc; lia).
  rewrite (zfirstn_app_len _ _ w L), (zskipn_app_len _ _ w L).
  split; apply le_dec_enc; rewrite Z2Nat.id by lia; auto.
Qed.

Lemma decode_encode_rs w r s : (w = 32 \/ w = 48) -> 0 <= r < 256 ^ w -> 0 <= s < 256 ^ w ->
  decode_rs (encode_rs w r s) = Ok (r, s).
Proof.
  intros Hw Hr Hs. assert (W0 : 0 <= w) by lia.
  destruct (rs_fixed_width w r s W0 Hr Hs) as (L & A & B).
  unfold decode_rs. rewrite L.
  replace ((2 * w =? 64) || (2 * w =? 96)) with true by lia. cbn [negb].
  replace (2 * w / 2) with w by (rewrite Z.mul_comm, Z.div_mul; lia).
  rewrite <- L.
  rewrite slice_upto by lia. rewrite slice_from by lia. cbn [of_opt bind].
  rewrite !z_of_be_reverse, A, B. reflexivity.
Qed.

Lemma rs_width_spec r s w : rs_width r s = Some w ->
  (w = 32 \/ w = 48) /\ 0 <= r < 256 ^ w /\ 0 <= s < 256 ^ w.
Proof.
  unfold rs_width. destruct ((r <? 0) || (s <? 0)) eqn:N; [discriminate|].
  assert (0 <= r /\ 0 <= s) as [Hr Hs] by lia.
  rewrite !(bitlen_le r), !(bitlen_le s) by lia.
  destruct ((r <? 2 ^ 256) && (s <? 2 ^ 256)) eqn:A.
  - intros [= <-]. change (256 ^ 32) with (2 ^ 256). lia.
  - destruct ((r <? 2 ^ 384) && (s <? 2 ^ 384)) eqn:B; [|discriminate].
    intros [= <-]. change (256 ^ 48) with (2 ^ 384). lia.
Qed.

Lemma rs_width_total r s : 0 <= r < 2 ^ 384 -> 0 <= s < 2 ^ 384 -> exists w, rs_width r s = Some w.
Proof.
  intros Hr Hs. unfold rs_width. replace ((r <? 0) || (s <? 0)) with false by lia.
  rewrite !(bitlen_le r), !(bitlen_le s) by lia.
  destruct ((r <? 2 ^ 256) && (s <? 2 ^ 256)); [eauto|].
  replace ((r <? 2 ^ 384) && (s <? 2 ^ 384)) with true by lia. eauto.
Qed.

Lemma rs_width_256 r s : 0 <= r < 2 ^ 256 -> 0 <= s < 2 ^ 256 -> rs_width r s = Some 32.
Proof.
  intros Hr Hs. unfold rs_width. replace ((r <? 0) || (s <? 0)) with false by lia.
  rewrite !(bitlen_le r), !(bitlen_le s) by lia.
  replace ((r <? 2 ^ 256) && (s <? 2 ^ 256)) with true by lia. reflexivity.
Qed.

(* what SetSignatureByData stores for an ECDSA / SM2 signature decodes to the same (r, s) *)
Lemma ecdsa_signature_roundtrip m r s ha : 0 <= r < 2 ^ 384 -> 0 <= s < 2 ^ 384 ->
  exists m', set_signature_by_data m (SigECDSA r s) ha = Ok m' /\
             signature_data m' = Ok (SigECDSA r s) /\
             (r < 2 ^ 256 -> s < 2 ^ 256 -> zlen (s_data m') = 64 /\ s_keysize m' = 256).
Proof.
  intros Hr Hs. destruct (rs_width_total r s Hr Hs) as [w Hw].
  destruct (rs_width_spec r s w Hw) as (W & Br & Bs).
  unfold set_signature_by_data, set_signature_data. rewrite Hw. cbn [bind].
  eexists; split; [reflexivity|]. split.
  - unfold signature_data. cbn [s_scheme s_data].
    change (c16_alg_ecdsa =? c16_alg_rsapss) with false.
    change (c16_alg_ecdsa =? c16_alg_rsassa) with false. rewrite Z.eqb_refl.
    rewrite decode_encode_rs by auto. reflexivity.
  - intros R2 S2. rewrite (rs_width_256 r s) in Hw by lia. injection Hw as <-.
    cbn [s_data s_keysize]. rewrite zlen_encode_rs by lia. split; reflexivity.
Qed.

Lemma sm2_signature_roundtrip m r s ha : 0 <= r < 2 ^ 384 -> 0 <= s < 2 ^ 384 ->
  exists m', set_signature_by_data m (SigSM2 r s) ha = Ok m' /\
             signature_data m' = Ok (SigSM2 r s).
Proof.
  intros Hr Hs. destruct (rs_width_total r s Hr Hs) as [w Hw].
  destruct (rs_width_spec r s w Hw) as (W & Br & Bs).
  unfold set_signature_by_data, set_signature_data. rewrite Hw. cbn [bind].
  eexists; split; [reflexivity|].
  unfold signature_data. cbn [s_scheme s_data].
  change (c16_alg_sm2 =? c16_alg_rsapss) with false.
  change (c16_alg_sm2 =? c16_alg_rsassa) with false.
  change (c16_alg_sm2 =? c16_alg_ecdsa) with false. rewrite Z.eqb_refl.
  rewrite decode_encode_rs by auto. reflexivity.
Qed.

Lemma coord_ok_spec x : coord_ok x = true <-> 0 <= x < 2 ^ 256.
Proof.
  unfold coord_ok. destruct (0 <=? x) eqn:E.
  - rewrite bitlen_le by lia. cbn [andb]. lia.
  - cbn [andb]. lia.
Qed.

Lemma ecc_key_roundtrip x y : 0 <= x < 2 ^ 256 -> 0 <= y < 2 ^ 256 ->
  (exists k, set_pub_key (PubECC x y) = Ok k /\ pub_key k = Ok (PubECC x y) /\ zlen (k_data k) = 64) /\
  (exists k, set_pub_key (PubSM2 x y) = Ok k /\ pub_key k = Ok (PubSM2 x y) /\ zlen (k_data k) = 64).
Proof.
  intros Hx Hy.
  assert (Cx : coord_ok x = true) by (apply coord_ok_spec; auto).
  assert (Cy : coord_ok y = true) by (apply coord_ok_spec; auto).
  assert (Hx' : 0 <= x < 256 ^ 32) by (change (256 ^ 32) with (2 ^ 256); auto).
  assert (Hy' : 0 <= y < 256 ^ 32) by (change (256 ^ 32) with (2 ^ 256); auto).
  destruct (rs_fixed_width 32 x y ltac:(lia) Hx' Hy') as (L & A & B).
  unfold encode_rs in L, A, B.
  split; unfold set_pub_key; rewrite Cx, Cy; cbn [andb]; eexists; (split; [reflexivity|]);
    (split; [|exact L]); unfold pub_key, key_data_size; cbn [k_alg k_size k_data].
  - change (c16_alg_ecc =? c16_alg_rsa) with false. rewrite Z.eqb_refl. cbn [andb orb].
    change (in_bytes 256) with 32. change (32 * 2 <? 0) with false. rewrite L. cbn [Z.eqb negb].
    change (2 * 32 =? 32 * 2) with true. cbn [negb].
    rewrite <- L.
    rewrite slice_upto by lia. rewrite slice_from by lia. cbn [of_opt bind].
    rewrite !z_of_be_reverse, A, B. reflexivity.
  - change (c16_alg_sm2 =? c16_alg_rsa) with false. change (c16_alg_sm2 =? c16_alg_ecc) with false.
    rewrite Z.eqb_refl. cbn [andb orb].
    change (in_bytes 256) with 32. change (32 * 2 <? 0) with false. rewrite L.
    change (2 * 32 =? 32 * 2) with true. cbn [negb].
    rewrite <- L.
    rewrite slice_upto by lia. rewrite slice_from by lia. cbn [of_opt bind].
    rewrite !z_of_be_reverse, A, B. reflexivity.
Qed.

(* ------------------------------------------------------------------ *)
(* KeySignature.Verify                                                  *)
(* ------------------------------------------------------------------ *)

Lemma pub_key_inv_rsa k n e : pub_key k = Ok (PubRSA n e) ->
  k_alg k = c16_alg_rsa /\ zlen (k_data k) = in_bytes (k_size k) + 4 /\
  n = le_dec (zskipn 4 (k_data k)) /\ e = rd 0 4 (k_data k).
Proof.
  unfold pub_key.
  destruct (key_data_size c16_alg_rsa true k <? 0) eqn:E1; [discriminate|].
  destruct (zlen (k_data k) =? key_data_size c16_alg_rsa true k) eqn:E2; cbn [negb]; [|discriminate].
  destruct (k_alg k =? c16_alg_rsa) eqn:E3.
  - unfold key_data_size in E1, E2. rewrite E3 in E1, E2.
    destruct (slice 4 (zlen (k_data k)) (k_data k)) as [m|] eqn:S; cbn [of_opt bind]; [|discriminate].
    apply slice_some in S as (S1 & S2 & S3).
    rewrite z_of_be_reverse.
    intros [= <- <-]. repeat split; try lia.
    rewrite S3. f_equal. unfold sub.
    assert (Q : slice 4 (zlen (k_data k)) (k_data k) = Some (zskipn 4 (k_data k))) by (apply slice_from; lia).
    rewrite slice_ok in Q by lia. injection Q as Q. exact Q.
  - destruct (slice 0 (in_bytes (k_size k)) (k_data k)); cbn [of_opt bind]; [|discriminate].
    destruct (slice (in_bytes (k_size k)) (zlen (k_data k)) (k_data k)); cbn [of_opt bind]; [|discriminate].
    destruct (k_alg k =? c16_alg_ecc); discriminate.
Qed.

Lemma bg_pub_key_inv k pk : bg_pub_key k = Ok pk ->
  k_alg k = c16_bg_alg_rsa /\ zlen (k_data k) = in_bytes (k_size k) + 4 /\
  pk = PubRSA (le_dec (zskipn 4 (k_data k))) (rd 0 4 (k_data k)).
Proof.
  unfold bg_pub_key.
  destruct (key_data_size c16_bg_alg_rsa false k <? 0) eqn:E1; [discriminate|].
  destruct (zlen (k_data k) =? key_data_size c16_bg_alg_rsa false k) eqn:E2; cbn [negb]; [|discriminate].
  unfold key_data_size in E1, E2.
  destruct (k_alg k =? c16_bg_alg_rsa) eqn:E3; [|cbn [andb] in E1; lia].
  destruct (slice 4 (zlen (k_data k)) (k_data k)) as [m|] eqn:S; cbn [of_opt bind]; [|discriminate].
  apply slice_some in S as (S1 & S2 & S3).
  rewrite z_of_be_reverse.
  intros [= <-]. repeat split; try lia. f_equal.
  rewrite S3. f_equal. unfold sub.
  assert (Q : slice 4 (zlen (k_data k)) (k_data k) = Some (zskipn 4 (k_data k))) by (apply slice_from; lia).
  rewrite slice_ok in Q by lia. injection Q as Q. exact Q.
Qed.

Lemma signature_data_inv_rsa m sd : signature_data m = Ok sd ->
  match sd with
  | SigPSS b => s_scheme m = c16_alg_rsapss /\ b = s_data m
  | SigSSA b => s_scheme m = c16_alg_rsassa /\ b = s_data m
  | SigECDSA _ _ => s_scheme m = c16_alg_ecdsa
  | SigSM2 _ _ => s_scheme m = c16_alg_sm2
  end.
Proof.
  unfold signature_data.
  destruct (s_scheme m =? c16_alg_rsapss) eqn:E1; [intros [= <-]; split; [lia|reflexivity]|].
  destruct (s_scheme m =? c16_alg_rsassa) eqn:E2; [intros [= <-]; split; [lia|reflexivity]|].
  destruct (s_scheme m =? c16_alg_ecdsa) eqn:E3.
  { destruct (decode_rs (s_data m)); cbn [bind]; try discriminate. intros [= <-]. lia. }
  destruct (s_scheme m =? c16_alg_sm2) eqn:E4; [|discriminate].
  destruct (decode_rs (s_data m)); cbn [bind]; try discriminate. intros [= <-]. lia.
Qed.

Section KeySignature.
Variable verify : pubkey -> Z -> Z -> bytes -> bytes -> bool.

Lemma sig_verify_ok_inv sd pk ha data : sig_verify verify sd pk ha data = Ok tt ->
  exists n e sc b, pk = PubRSA n e /\
    ((sd = SigPSS b /\ sc = c16_alg_rsapss) \/ (sd = SigSSA b /\ sc = c16_alg_rsassa)) /\
    (ha = c16_alg_sha256 \/ ha = c16_alg_sha384) /\ verify pk sc ha data b = true.
Proof.
  unfold sig_verify.
  destruct sd as [b|b|r s|r s]; try discriminate;
    (destruct pk as [n e|x y|x y]; try discriminate;
     destruct (cbnt_hash_size ha); try discriminate;
     destruct ((ha =? c16_alg_sha256) || (ha =? c16_alg_sha384)) eqn:H; try discriminate;
     destruct (verify _ _ _ _ _) eqn:V; try discriminate; intros _;
     exists n, e; eexists; exists b; split; [reflexivity|]; split; [|split; [lia|exact V]]).
  - left; split; reflexivity.
  - right; split; reflexivity.
Qed.

(* the verdict of KeySignature.Verify is a function of these six things only *)
Lemma ks_verify_depends_only_on ks ks' data :
  k_alg (ks_key ks) = k_alg (ks_key ks') ->
  in_bytes (k_size (ks_key ks)) = in_bytes (k_size (ks_key ks')) ->
  k_data (ks_key ks) = k_data (ks_key ks') ->
  s_scheme (ks_sig ks) = s_scheme (ks_sig ks') ->
  s_hashalg (ks_sig ks) = s_hashalg (ks_sig ks') ->
  s_data (ks_sig ks) = s_data (ks_sig ks') ->
  ks_verify verify ks data = ks_verify verify ks' data.
Proof.
  intros A B C D E F. unfold ks_verify.
  assert (S : signature_data (ks_sig ks) = signature_data (ks_sig ks')).
  { unfold signature_data. rewrite D, F. reflexivity. }
  assert (P : pub_key (ks_key ks) = pub_key (ks_key ks')).
  { unfold pub_key, key_data_size. rewrite A, B, C. reflexivity. }
  rewrite S, P, E. reflexivity.
Qed.

Lemma ks_verify_ok_inv ks data : ks_verify verify ks data = Ok tt ->
  exists n e,
    pub_key (ks_key ks) = Ok (PubRSA n e) /\
    k_alg (ks_key ks) = c16_alg_rsa /\
    zlen (k_data (ks_key ks)) = in_bytes (k_size (ks_key ks)) + 4 /\
    n = le_dec (zskipn 4 (k_data (ks_key ks))) /\ e = rd 0 4 (k_data (ks_key ks)) /\
    (s_scheme (ks_sig ks) = c16_alg_rsapss \/ s_scheme (ks_sig ks) = c16_alg_rsassa) /\
    (s_hashalg (ks_sig ks) = c16_alg_sha256 \/ s_hashalg (ks_sig ks) = c16_alg_sha384) /\
    verify (PubRSA n e) (s_scheme (ks_sig ks)) (s_hashalg (ks_sig ks)) data (s_data (ks_sig ks)) = true.
Proof.
  unfold ks_verify.
  destruct (signature_data (ks_sig ks)) as [sd|?|?|] eqn:S; try discriminate.
  destruct (pub_key (ks_key ks)) as [pk|?|?|] eqn:P; try discriminate.
  intros V. apply sig_verify_ok_inv in V as (n & e & sc & b & -> & Hsd & Hh & Hv).
  apply signature_data_inv_rsa in S.
  destruct (pub_key_inv_rsa _ _ _ P) as (K1 & K2 & K3 & K4).
  exists n, e. repeat split; auto.
  - destruct Hsd as [[-> ->]|[-> ->]]; [left|right]; tauto.
  - destruct Hsd as [[-> ->]|[-> ->]]; destruct S as [S1 S2]; rewrite S1, <- S2; exact Hv.
Qed.

(* under the idealisation that a signature value is valid for at most one (key, message) *)
Lemma ks_verify_binding :
  (forall k sc h m k' sc' h' m' s, verify k sc h m s = true -> verify k' sc' h' m' s = true ->
                                   k = k' /\ m = m') ->
  forall ks ks' d d', ks_verify verify ks d = Ok tt -> ks_verify verify ks' d' = Ok tt ->
    s_data (ks_sig ks) = s_data (ks_sig ks') ->
    pub_key (ks_key ks) = pub_key (ks_key ks') /\ d = d'.
Proof.
  intros Hb ks ks' d d' V V' E.
  apply ks_verify_ok_inv in V as (n & e & P & _ & _ & _ & _ & _ & _ & Hv).
  apply ks_verify_ok_inv in V' as (n' & e' & P' & _ & _ & _ & _ & _ & _ & Hv').
  rewrite E in Hv. destruct (Hb _ _ _ _ _ _ _ _ _ Hv Hv') as [K M].
  rewrite P, P', K. auto.
Qed.

Lemma bg_ks_verify_ok_inv ks data : bg_ks_verify verify ks data = Ok tt ->
  k_alg (ks_key ks) = c16_bg_alg_rsa /\
  zlen (k_data (ks_key ks)) = in_bytes (k_size (ks_key ks)) + 4 /\
  s_scheme (ks_sig ks) = c16_bg_alg_rsassa /\
  verify (PubRSA (le_dec (zskipn 4 (k_data (ks_key ks)))) (rd 0 4 (k_data (ks_key ks))))
         c16_bg_alg_rsassa c16_alg_sha256 data (s_data (ks_sig ks)) = true.
Proof.
  unfold bg_ks_verify, bg_signature_data.
  destruct (s_scheme (ks_sig ks) =? c16_bg_alg_rsassa) eqn:S; [|discriminate].
  destruct (bg_pub_key (ks_key ks)) as [pk|?|?|] eqn:P; try discriminate.
  destruct (bg_pub_key_inv _ _ P) as (K1 & K2 & ->).
  destruct (verify _ _ _ _ _) eqn:V; [|discriminate]. intros _. repeat split; auto. lia.
Qed.

Lemma bg_ks_verify_depends_only_on ks ks' data :
  k_alg (ks_key ks) = k_alg (ks_key ks') ->
  in_bytes (k_size (ks_key ks)) = in_bytes (k_size (ks_key ks')) ->
  k_data (ks_key ks) = k_data (ks_key ks') ->
  s_scheme (ks_sig ks) = s_scheme (ks_sig ks') ->
  s_data (ks_sig ks) = s_data (ks_sig ks') ->
  bg_ks_verify verify ks data = bg_ks_verify verify ks' data.
Proof.
  intros A B C D F. unfold bg_ks_verify, bg_signature_data, bg_pub_key, key_data_size.
  rewrite A, B, C, D, F. reflexivity.
Qed.

End KeySignature.

(* ------------------------------------------------------------------ *)
(* signing then verifying                                               *)
(* ------------------------------------------------------------------ *)

Section Signing.
Variable verify : pubkey -> Z -> Z -> bytes -> bytes -> bool.
Variable sign_rsa : privkey -> Z -> Z -> bytes -> bytes.
Variable sign_ec : privkey -> Z -> Z -> bytes -> Z * Z.

(* contract of the RSA signer: what it returns is valid for the public half of the key *)
Definition rsa_signer_correct : Prop :=
  forall n e d sc h m, verify (PubRSA n e) sc h m (sign_rsa (PrivRSA n e d) sc h m) = true.

Lemma sign_then_verify ks sa ha n e d data sc h :
  rsa_signer_correct ->
  0 <= n -> bytelen n < 8192 -> 0 <= e < 2 ^ 32 ->
  sc = detect_scheme sa (PrivRSA n e d) ->
  (sc = c16_alg_rsapss /\ h = default_hash c16_alg_sha384 ha \/
   sc = c16_alg_rsassa /\ h = default_hash c16_alg_sha256 ha) ->
  (h = c16_alg_sha256 \/ h = c16_alg_sha384) ->
  exists ks', ks_set_signature sign_rsa sign_ec ks sa ha (PrivRSA n e d) data = Ok ks' /\
              ks_verify verify ks' data = Ok tt /\
              s_scheme (ks_sig ks') = sc /\ s_hashalg (ks_sig ks') = h.
Proof.
  intros SC Hn Hl He Dsc Hsc Hh.
  destruct (rsa_key_roundtrip n e Hn Hl He) as (k & K1 & K2).
  unfold ks_set_signature, sig_set_signature. cbn [public_of]. rewrite K1. cbn [bind].
  unfold new_signature_data. rewrite <- Dsc.
  assert (RH : rsa_hash_ok h = true) by (unfold rsa_hash_ok; lia).
  destruct Hsc as [[E Eh]|[E Eh]]; rewrite E in *.
  - rewrite Z.eqb_refl. cbn zeta. rewrite <- Eh, RH. cbn [bind].
    pose proof (SC n e d c16_alg_rsapss h data) as V.
    cbn [bind set_signature_by_data set_signature_data].
    eexists; split; [reflexivity|]. cbn [ks_sig ks_key s_scheme s_hashalg].
    split; [|split; auto].
    unfold ks_verify. cbn [ks_sig ks_key].
    unfold signature_data. cbn [s_scheme s_data]. rewrite Z.eqb_refl. rewrite K2.
    unfold sig_verify. cbn [s_hashalg]. rewrite <- Eh.
    destruct Hh as [Hh|Hh]; rewrite Hh in *; cbn; rewrite V; reflexivity.
  - change (c16_alg_rsassa =? c16_alg_rsapss) with false. rewrite Z.eqb_refl. cbn zeta.
    rewrite <- Eh, RH. cbn [bind].
    pose proof (SC n e d c16_alg_rsassa h data) as V.
    cbn [bind set_signature_by_data set_signature_data].
    eexists; split; [reflexivity|]. cbn [ks_sig ks_key s_scheme s_hashalg].
    split; [|split; auto].
    unfold ks_verify. cbn [ks_sig ks_key].
    unfold signature_data. cbn [s_scheme s_data].
    change (c16_alg_rsassa =? c16_alg_rsapss) with false. rewrite Z.eqb_refl. rewrite K2.
    unfold sig_verify. cbn [s_hashalg]. rewrite <- Eh.
    destruct Hh as [Hh|Hh]; rewrite Hh in *; cbn; rewrite V; reflexivity.
Qed.

End Signing.

Section SigningEC.
Variable sign_rsa : privkey -> Z -> Z -> bytes -> bytes.
Variable sign_ec : privkey -> Z -> Z -> bytes -> Z * Z.

(* ECDSA: SetSignature succeeds for every key with coordinates below 2^256 and every (r, s)
   below 2^256 the signer returns, and stores exactly that pair in 64 bytes *)
Lemma ec_set_signature_total ks sa ha x y d data r s :
  0 <= x < 2 ^ 256 -> 0 <= y < 2 ^ 256 ->
  detect_scheme sa (PrivECC x y d) = c16_alg_ecdsa ->
  cbnt_hash_size (default_hash c16_alg_sha512 ha) <> None ->
  sign_ec (PrivECC x y d) c16_alg_ecdsa (default_hash c16_alg_sha512 ha) data = (r, s) ->
  0 <= r < 2 ^ 256 -> 0 <= s < 2 ^ 256 ->
  exists ks', ks_set_signature sign_rsa sign_ec ks sa ha (PrivECC x y d) data = Ok ks' /\
              pub_key (ks_key ks') = Ok (PubECC x y) /\
              signature_data (ks_sig ks') = Ok (SigECDSA r s) /\
              zlen (s_data (ks_sig ks')) = 64 /\ zlen (k_data (ks_key ks')) = 64 /\
              s_hashalg (ks_sig ks') = default_hash c16_alg_sha512 ha.
Proof.
  intros Hx Hy D HS S Hr Hs.
  destruct (ecc_key_roundtrip x y Hx Hy) as [(k & K1 & K2 & K3) _].
  unfold ks_set_signature, sig_set_signature. cbn [public_of]. rewrite K1. cbn [bind].
  unfold new_signature_data. rewrite D.
  change (c16_alg_ecdsa =? c16_alg_rsapss) with false.
  change (c16_alg_ecdsa =? c16_alg_rsassa) with false. rewrite Z.eqb_refl. cbn zeta.
  destruct (cbnt_hash_size (default_hash c16_alg_sha512 ha)); [|congruence].
  rewrite S. cbn [bind fst snd].
  set (m0 := mkSig _ _ _ _ _).
  destruct (ecdsa_signature_roundtrip m0 r s ha ltac:(lia) ltac:(lia)) as (m' & M1 & M2 & M3).
  rewrite M1. cbn [bind]. eexists; split; [reflexivity|]. cbn [ks_key ks_sig].
  destruct (M3 ltac:(lia) ltac:(lia)) as [L _].
  repeat split; auto.
  unfold set_signature_by_data in M1.
  destruct (set_signature_data (SigECDSA r s)); cbn [bind] in M1; try discriminate.
  injection M1 as <-. reflexivity.
Qed.

End SigningEC.

(* ------------------------------------------------------------------ *)
(* BPM key hash against the key manifest                                *)
(* ------------------------------------------------------------------ *)

Lemma slice4 d : slice 4 (zlen d) d = if 4 <=? zlen d then Some (zskipn 4 d) else None.
Proof.
  destruct (4 <=? zlen d) eqn:E.
  - apply slice_from; lia.
  - unfold slice. replace ((0 <=? 4) && (4 <=? zlen d) && (zlen d <=? zlen d)) with false by lia. reflexivity.
Qed.

Section Hashing.
Variable hash : Z -> bytes -> bytes.

Lemma bpm_loop_spec l k c : 0 <= c ->
  validate_bpm_key_loop hash l k c = Ok tt <->
  (c <> 0 \/ exists e, In e l /\ bpm_applies e = true) /\
  (forall e, In e l -> bpm_applies e = true -> bpm_entry_good hash k e).
Proof.
  revert c; induction l as [|e r IH]; intros c Hc; cbn [validate_bpm_key_loop].
  - split.
    + destruct (c =? 0) eqn:E; [discriminate|]. intros _. split; [left; lia|]. intros e [].
    + intros [[H|(e & [] & _)] _]. replace (c =? 0) with false by lia. reflexivity.
  - destruct (Z.land (h_usage e) c16_usage_bpm_signing =? 0) eqn:U.
    + assert (NA : bpm_applies e = false) by (unfold bpm_applies; rewrite U; reflexivity).
      rewrite IH by lia. split.
      * intros [D G]; split.
        -- destruct D as [H|(x & Hx & Ax)]; [left; auto|right; exists x; split; [right|]; auto].
        -- intros y [<-|Hy] Ay; [rewrite NA in Ay; discriminate|auto].
      * intros [D G]; split.
        -- destruct D as [H|(x & [<-|Hx] & Ax)]; [left; auto|rewrite NA in Ax; discriminate|right; exists x; auto].
        -- intros y Hy Ay; apply G; [right|]; auto.
    + assert (Ae : bpm_applies e = true) by (unfold bpm_applies; rewrite U; reflexivity).
      split.
      * destruct (cbnt_hash_size (h_alg e)) as [sz|] eqn:HS; [|discriminate].
        destruct (zlen (h_buf e) =? sz) eqn:L; cbn [negb]; [|discriminate].
        destruct (k_alg k =? c16_alg_rsa) eqn:A; [|discriminate].
        rewrite slice4. destruct (4 <=? zlen (k_data k)) eqn:F; cbn [of_opt bind]; [|discriminate].
        destruct (bytes_eqb (h_buf e) (hash (h_alg e) (zskipn 4 (k_data k)))) eqn:B; [|discriminate].
        rewrite IH by lia. intros [_ G]. split; [right; exists e; split; [left|]; auto|].
        intros y [<-|Hy] Ay; [|auto].
        apply bytes_eqb_eq in B. unfold bpm_entry_good. rewrite HS. repeat split; auto; try lia.
        f_equal; lia.
      * intros [_ G]. destruct (G e (or_introl eq_refl) Ae) as (G1 & G2 & G3 & G4).
        rewrite G1, Z.eqb_refl. cbn [negb]. rewrite G2, Z.eqb_refl.
        rewrite slice4. replace (4 <=? zlen (k_data k)) with true by lia. cbn [of_opt bind].
        rewrite <- G4. replace (bytes_eqb (h_buf e) (h_buf e)) with true
          by (symmetry; apply bytes_eqb_eq; reflexivity).
        apply IH; [lia|]. split; [left; lia|]. intros y Hy Ay. apply G; [right|]; auto.
Qed.

Lemma bpm_key_spec l k :
  validate_bpm_key hash l k = Ok tt <->
  (exists e, In e l /\ bpm_applies e = true) /\
  (forall e, In e l -> bpm_applies e = true -> bpm_entry_good hash k e).
Proof.
  unfold validate_bpm_key. rewrite bpm_loop_spec by lia. split.
  - intros [[H|H] G]; [lia|auto].
  - intros [H G]; auto.
Qed.

Lemma bpm_loop_noninterference l k k' c :
  k_alg k = k_alg k' -> 4 <= zlen (k_data k) -> 4 <= zlen (k_data k') ->
  zskipn 4 (k_data k) = zskipn 4 (k_data k') ->
  validate_bpm_key_loop hash l k c = validate_bpm_key_loop hash l k' c.
Proof.
  intros A L L' S. revert c; induction l as [|e r IH]; intros c; cbn [validate_bpm_key_loop]; auto.
  destruct (Z.land (h_usage e) c16_usage_bpm_signing =? 0); auto.
  destruct (cbnt_hash_size (h_alg e)); auto.
  destruct (negb (zlen (h_buf e) =? z)); auto.
  rewrite A. destruct (k_alg k' =? c16_alg_rsa); auto.
  rewrite !slice4. replace (4 <=? zlen (k_data k)) with true by lia.
  replace (4 <=? zlen (k_data k')) with true by lia. cbn [of_opt bind]. rewrite S.
  destruct (bytes_eqb _ _); auto.
Qed.

Lemma bpm_key_noninterference l k k' :
  k_alg k = k_alg k' -> 4 <= zlen (k_data k) -> 4 <= zlen (k_data k') ->
  zskipn 4 (k_data k) = zskipn 4 (k_data k') ->
  validate_bpm_key hash l k = validate_bpm_key hash l k'.
Proof. intros; apply bpm_loop_noninterference; auto. Qed.

(* Key.Data[4:] is not guarded: a short RSA key makes ValidateBPMKey panic *)
Lemma bpm_key_unchecked_slice :
  exists l k, validate_bpm_key hash l k = Panic 21.
Proof.
  exists [mkKmHash 1 c16_alg_sha256 (zrepeat 0 32)], (mkKey c16_alg_rsa 16 0 [1; 0; 1]).
  reflexivity.
Qed.

Lemma bg_bpm_key_spec alg buf k :
  bg_validate_bpm_key hash alg buf k = Ok tt <->
  bg_hash_size alg = Some (zlen buf) /\ k_alg k = c16_bg_alg_rsa /\ 4 <= zlen (k_data k) /\
  buf = hash alg (zskipn 4 (k_data k)).
Proof.
  unfold bg_validate_bpm_key. split.
  - destruct (bg_hash_size alg) as [sz|] eqn:HS; [|discriminate].
    destruct (zlen buf =? sz) eqn:L; cbn [negb]; [|discriminate].
    destruct (k_alg k =? c16_bg_alg_rsa) eqn:A; [|discriminate].
    rewrite slice4. destruct (4 <=? zlen (k_data k)) eqn:F; cbn [of_opt bind]; [|discriminate].
    destruct (bytes_eqb buf (hash alg (zskipn 4 (k_data k)))) eqn:B; [|discriminate].
    intros _. apply bytes_eqb_eq in B. repeat split; auto; try lia. f_equal; lia.
  - intros (G1 & G2 & G3 & G4). rewrite G1, Z.eqb_refl. cbn [negb]. rewrite G2, Z.eqb_refl.
    rewrite slice4. replace (4 <=? zlen (k_data k)) with true by lia. cbn [of_opt bind].
    rewrite <- G4. replace (bytes_eqb buf buf) with true by (symmetry; apply bytes_eqb_eq; reflexivity).
    reflexivity.
Qed.

End Hashing.

(* ------------------------------------------------------------------ *)
(* IBB digest                                                           *)
(* ------------------------------------------------------------------ *)

Lemma nth_error_firstn_ge {A} (l : list A) n i : (n <= i)%nat -> nth_error (firstn n l) i = None.
Proof. intros H. apply nth_error_None. pose proof (firstn_le_length n l). lia. Qed.

Lemma nth_error_sub (b : bytes) o l i : 0 <= o -> 0 <= l ->
  nth_error (sub o l b) i = if Z.of_nat i <? l then nth_error b (Z.to_nat o + i) else None.
Proof.
  intros Ho Hl. unfold sub, zfirstn, zskipn.
  destruct (Z.of_nat i <? l) eqn:E.
  - rewrite nth_error_firstn_lt' by lia. apply nth_error_skipn'.
  - apply nth_error_firstn_ge. lia.
Qed.

(* equal windows from pointwise agreement *)
Lemma sub_agree (a b : bytes) o l : 0 <= o -> 0 <= l ->
  (forall i, o <= Z.of_nat i < o + l -> nth_error a i = nth_error b i) ->
  sub o l a = sub o l b.
Proof.
  intros Ho Hl H. apply nth_error_ext. intros i. rewrite !nth_error_sub by lia.
  destruct (Z.of_nat i <? l) eqn:E; auto. apply H. lia.
Qed.

Lemma slice_agree (a b : bytes) lo hi : zlen a = zlen b ->
  (forall i, lo <= Z.of_nat i < hi -> nth_error a i = nth_error b i) ->
  slice lo hi a = slice lo hi b.
Proof.
  intros L H. unfold slice. rewrite <- L.
  destruct ((0 <=? lo) && (lo <=? hi) && (hi <=? zlen a)) eqn:E; auto.
  f_equal. apply (sub_agree a b lo (hi - lo)); try lia. intros i Hi. apply H. lia.
Qed.

Lemma ibb_stream_ok rs fw :
  forallb (in_bounds fw) (map (fun r => (fst r, range_end r)) rs) = true ->
  ibb_stream rs fw = Ok (concat (map (fun b => sub (fst b) (snd b - fst b) fw)
                                     (map (fun r => (fst r, range_end r)) rs))).
Proof.
  induction rs as [|r rest IH]; cbn [ibb_stream map forallb concat]; auto.
  intros H. apply andb_true_iff in H as [H1 H2]. unfold in_bounds in H1. cbn [fst snd] in H1.
  rewrite slice_ok by lia. cbn [of_opt bind]. rewrite IH by auto. cbn [bind fst snd]. reflexivity.
Qed.

Lemma ibb_stream_out_of_bounds rs fw :
  forallb (in_bounds fw) (map (fun r => (fst r, range_end r)) rs) = false ->
  ibb_stream rs fw = Panic 11.
Proof.
  induction rs as [|r rest IH]; cbn [ibb_stream map forallb]; [discriminate|].
  intros H. apply andb_false_iff in H.
  destruct (in_bounds fw (fst r, range_end r)) eqn:B.
  - destruct H as [H|H]; [discriminate|]. unfold in_bounds in B. cbn [fst snd] in B.
    rewrite slice_ok by lia. cbn [of_opt bind]. rewrite IH by auto. reflexivity.
  - unfold in_bounds in B. cbn [fst snd] in B. unfold slice. rewrite B. reflexivity.
Qed.

Lemma ibb_stream_agree rs fw fw' :
  agree_on (map (fun r => (fst r, range_end r)) rs) fw fw' ->
  ibb_stream rs fw = ibb_stream rs fw'.
Proof.
  intros [L H]. induction rs as [|r rest IH]; cbn [ibb_stream]; auto.
  rewrite (slice_agree fw fw' (fst r) (range_end r) L).
  - rewrite IH; auto. intros i (b & Hb & Hi). apply H. exists b. split; [right|]; auto.
  - intros i Hi. apply H. exists (fst r, range_end r). split; [left; reflexivity|]. exact Hi.
Qed.

Section HashingIBB.
Variable hash : Z -> bytes -> bytes.

Lemma ibb_digest_covers se0 rest alg buf ds sz fw :
  se_digests se0 = (alg, buf) :: ds -> cbnt_hash_size alg = Some sz ->
  let bs := ibb_bounds (se_segments se0) (zlen fw) in
  validate_ibb hash (se0 :: rest) fw =
    if forallb (in_bounds fw) bs
    then verdict (bytes_eqb (hash alg (concat (map (fun b => sub (fst b) (snd b - fst b) fw) bs))) buf) I_MISMATCH
    else Panic 11.
Proof.
  intros D HS bs. unfold validate_ibb. rewrite D, HS. unfold bs, ibb_bounds.
  destruct (forallb _ _) eqn:F.
  - rewrite ibb_stream_ok by auto. cbn [bind]. unfold verdict. reflexivity.
  - rewrite ibb_stream_out_of_bounds by auto. reflexivity.
Qed.

Lemma ibb_noninterference ses fw fw' :
  match ses with
  | [] => True
  | se0 :: _ => agree_on (ibb_bounds (se_segments se0) (zlen fw)) fw fw'
  end ->
  validate_ibb hash ses fw = validate_ibb hash ses fw'.
Proof.
  destruct ses as [|se0 rest]; auto. intros A. unfold validate_ibb.
  destruct (se_digests se0) as [|[alg buf] ds]; auto.
  destruct (cbnt_hash_size alg); auto.
  pose proof A as [L _]. rewrite <- L.
  rewrite (ibb_stream_agree _ fw fw' A). reflexivity.
Qed.

Lemma bg_ibb_digest_covers alg buf segs rest sz fw :
  bg_hash_size alg = Some sz ->
  let bs := ibb_bounds segs (zlen fw) in
  bg_validate_ibb hash (((alg, buf), segs) :: rest) fw =
    if forallb (in_bounds fw) bs
    then verdict (bytes_eqb (hash alg (concat (map (fun b => sub (fst b) (snd b - fst b) fw) bs))) buf) I_MISMATCH
    else Panic 11.
Proof.
  intros HS bs. unfold bg_validate_ibb. rewrite HS. unfold bs, ibb_bounds.
  destruct (forallb _ _) eqn:F.
  - rewrite ibb_stream_ok by auto. cbn [bind]. unfold verdict. reflexivity.
  - rewrite ibb_stream_out_of_bounds by auto. reflexivity.
Qed.

Lemma bg_ibb_noninterference ses fw fw' :
  match ses with
  | [] => True
  | (_, segs) :: _ => agree_on (ibb_bounds segs (zlen fw)) fw fw'
  end ->
  bg_validate_ibb hash ses fw = bg_validate_ibb hash ses fw'.
Proof.
  destruct ses as [|[[alg buf] segs] rest]; auto. intros A. unfold bg_validate_ibb.
  destruct (bg_hash_size alg); auto.
  pose proof A as [L _]. rewrite <- L.
  rewrite (ibb_stream_agree _ fw fw' A). reflexivity.
Qed.

End HashingIBB.

(* the hashed ranges, spelled out: segments without flag bit 0, at offset base - (4GiB - size) *)
Lemma ibb_bounds_spec segs fwsize b :
  In b (ibb_bounds segs fwsize) <->
  exists g, In g segs /\ Z.land (g_flags g) 1 <> 1 /\
            fst b = offset_of_phys (g_base g) fwsize /\ snd b = u64 (fst b + g_size g).
Proof.
  unfold ibb_bounds. induction segs as [|g r IH]; cbn [ibb_ranges map].
  - split; [intros []|intros (g & [] & _)].
  - destruct (Z.land (g_flags g) 1 =? 1) eqn:F.
    + rewrite IH. split.
      * intros (x & Hx & R). exists x. split; [right|]; auto.
      * intros (x & [<-|Hx] & R); [lia|]. exists x; auto.
    + cbn [map In]. rewrite IH. split.
      * intros [<-|(x & Hx & R)].
        -- exists g. cbn [fst snd]. unfold range_end. cbn [fst snd]. repeat split; auto. lia.
        -- exists x. split; [right|]; auto.
      * intros (x & [<-|Hx] & R1 & R2 & R3).
        -- left. destruct b as [o e]. cbn [fst snd] in *. unfold range_end. cbn [fst snd]. subst. reflexivity.
        -- right. exists x; auto.
Qed.

(* ------------------------------------------------------------------ *)
(* AMD PSB: signed blobs and token keys                                 *)
(* ------------------------------------------------------------------ *)

Lemma get_key_in ks id k : get_key ks id = Some k -> In k ks /\ pk_id k = id.
Proof.
  induction ks as [|x r IH]; cbn [get_key]; [discriminate|].
  destruct (bytes_eqb (pk_id x) id) eqn:E.
  - intros [= <-]. apply bytes_eqb_eq in E. split; [left|]; auto.
  - intros H. destruct (IH H). split; [right|]; auto.
Qed.

Lemma psp_ranges_uncompressed size_signed size_image compressed sig_size :
  psp_ranges size_signed size_image 0 compressed sig_size =
    if size_image <=? sig_size then Err P_IMAGE_LE_SIG
    else Ok (u32 (size_signed + psp_header_size),
             (size_image - sig_size, u32 (size_image - sig_size + sig_size))).
Proof. reflexivity. Qed.

Lemma psp_ranges_compressed size_signed size_image compression compressed sig_size :
  compression <> 0 ->
  let se := u32 (Z.land (u32 (compressed + 15)) (2 ^ 32 - 16) + psp_header_size) in
  psp_ranges size_signed size_image compression compressed sig_size =
    if u32 (se + sig_size) <=? sig_size then Err P_IMAGE_LE_SIG
    else Ok (se, (u32 (se + sig_size) - sig_size, u32 (u32 (se + sig_size) - sig_size + sig_size))).
Proof.
  intros H se. unfold psp_ranges. replace (compression =? 0) with false by lia. reflexivity.
Qed.

Lemma psp_ranges_ok_nonneg a b c d sg se ss sen :
  psp_ranges a b c d sg = Ok (se, (ss, sen)) -> 0 <= ss.
Proof.
  unfold psp_ranges.
  match goal with |- (let '(_, _) := ?e in _) = _ -> _ => destruct e as [x y] end.
  destruct (y <=? sg) eqn:Q; [discriminate|]. intros [= <- <- <-]. lia.
Qed.

Section PSB.
Variable verify : pubkey -> Z -> Z -> bytes -> bytes -> bool.

Lemma new_signed_blob_ok_inv sg signed k : new_signed_blob verify sg signed k = Ok tt ->
  psb_key_valid k = true /\
  exists n e, psb_key_get k = PubRSA n e /\ (bytelen n * 8 = 4096 \/ bytelen n * 8 = 2048) /\
              verify (PubRSA n e) c16_alg_rsapss (psb_hash_of n) signed sg = true.
Proof.
  unfold new_signed_blob. destruct (psb_key_valid k); cbn [negb]; [|discriminate].
  unfold psb_key_get. set (n := z_of_be _). set (e := int64_of _).
  intros H. split; auto. exists n, e. split; auto. unfold psb_hash_of.
  destruct (bytelen n * 8 =? 4096) eqn:A.
  - destruct (verify _ _ _ _ _) eqn:V; [|discriminate]. split; [left; lia|auto].
  - destruct (bytelen n * 8 =? 2048) eqn:B; [|discriminate].
    destruct (verify _ _ _ _ _) eqn:V; [|discriminate]. split; [right; lia|auto].
Qed.

Lemma check_boundaries_spec st en b : check_boundaries st en b = true <-> st <= en <= zlen b.
Proof. unfold check_boundaries. lia. Qed.

Lemma psb_signed_ranges ks raw k : psp_validate verify ks raw = Ok k ->
  c16_psp_hdr_wire <= zlen raw /\
  get_key ks (sub c16_psp_off_SignatureParameters 16 raw) = Some k /\
  pk_modsize k = pk_expsize k /\
  exists se ss sen,
    psp_ranges (rd c16_psp_off_SizeSigned 4 raw) (rd c16_psp_off_SizeImage 4 raw)
               (rd c16_psp_off_CompressionOptions 4 raw) (rd c16_psp_off_CompressedImageSize 4 raw)
               (pk_modsize k / 8) = Ok (se, (ss, sen)) /\
    0 <= ss <= sen /\ sen <= zlen raw /\ psp_header_size < se <= zlen raw /\
    new_signed_blob verify (sub ss (sen - ss) raw) (sub 0 se raw) k = Ok tt.
Proof.
  unfold psp_validate. destruct (zlen raw <? c16_psp_hdr_wire) eqn:H0; [discriminate|].
  unfold get_signed_blob.
  destruct (rd c16_psp_off_SizeSigned 4 raw =? 0); [discriminate|].
  destruct (rd c16_psp_off_SizeImage 4 raw =? 0); [discriminate|].
  destruct (get_key ks _) as [k0|] eqn:GK; [|discriminate].
  destruct (pk_modsize k0 =? pk_expsize k0) eqn:EM; cbn [negb]; [|discriminate].
  destruct ((rd c16_psp_off_CompressionOptions 4 raw =? 0) && _); [discriminate|].
  destruct (psp_ranges _ _ _ _ _) as [[se [ss sen]]|?|?|] eqn:PR; cbn [bind]; try discriminate.
  cbn [fst snd].
  destruct (check_boundaries ss sen raw) eqn:C1; cbn [negb]; [|discriminate].
  destruct (check_boundaries 0 se raw) eqn:C2; cbn [negb]; [|discriminate].
  apply check_boundaries_spec in C1, C2.
  pose proof (psp_ranges_ok_nonneg _ _ _ _ _ _ _ _ PR) as SS.
  rewrite slice_ok by lia. rewrite slice_ok by lia. cbn [of_opt bind].
  rewrite Z.sub_0_r.
  destruct (zlen (sub 0 se raw) <=? psp_header_size) eqn:SM; [discriminate|].
  rewrite zlen_sub in SM by lia.
  destruct (new_signed_blob verify _ _ k0) as [[]|?|?|] eqn:NB; cbn [bind]; try discriminate.
  intros [= <-]. repeat split; try lia; auto.
  exists se, ss, sen. repeat split; auto; lia.
Qed.

Lemma hdr_field_agree raw raw' o l :
  agree_on [(0, c16_psp_hdr_wire)] raw raw' -> 0 <= o -> 0 <= l -> o + l <= c16_psp_hdr_wire ->
  sub o l raw = sub o l raw'.
Proof.
  intros [L H] Ho Hl Hb. apply sub_agree; auto. intros i Hi. apply H.
  exists (0, c16_psp_hdr_wire). split; [left; reflexivity|]. cbn [fst snd]. lia.
Qed.

Lemma agree_on_sub bs bs' a b : (forall x, In x bs' -> In x bs) -> agree_on bs a b -> agree_on bs' a b.
Proof.
  intros S [L H]. split; auto. intros i (x & Hx & Hi). apply H. exists x. split; auto.
Qed.

Lemma psb_noninterference ks raw raw' :
  agree_on (psp_cover ks raw) raw raw' ->
  psp_validate verify ks raw = psp_validate verify ks raw'.
Proof.
  intros A. pose proof A as [L _].
  assert (AH : agree_on [(0, c16_psp_hdr_wire)] raw raw').
  { apply (agree_on_sub (psp_cover ks raw)); auto. intros x [<-|[]]. unfold psp_cover. left; reflexivity. }
  unfold psp_validate. rewrite <- L.
  destruct (zlen raw <? c16_psp_hdr_wire) eqn:H0; auto.
  assert (R : forall o, 0 <= o -> o + 4 <= c16_psp_hdr_wire -> rd o 4 raw' = rd o 4 raw).
  { intros o O1 O2. unfold rd. f_equal. symmetry. apply hdr_field_agree; auto. simpl; lia. }
  unfold get_signed_blob.
  rewrite !R by (vm_compute; congruence).
  rewrite <- (hdr_field_agree raw raw' c16_psp_off_SignatureParameters 16 AH) by (vm_compute; congruence).
  destruct (rd c16_psp_off_SizeSigned 4 raw =? 0); auto.
  destruct (rd c16_psp_off_SizeImage 4 raw =? 0); auto.
  unfold psp_cover in A.
  destruct (get_key ks _) as [k0|] eqn:GK; auto.
  destruct (negb (pk_modsize k0 =? pk_expsize k0)); auto.
  destruct ((rd c16_psp_off_CompressionOptions 4 raw =? 0) && _); auto.
  destruct (psp_ranges _ _ _ _ _) as [[se [ss sen]]|?|?|] eqn:PR; cbn [bind]; auto.
  cbn [fst snd] in *.
  unfold check_boundaries. rewrite <- L.
  destruct (negb (negb (zlen raw <? ss) && negb (zlen raw <? sen) && negb (sen <? ss))); auto.
  destruct (negb (negb (zlen raw <? 0) && negb (zlen raw <? se) && negb (se <? 0))); auto.
  destruct A as [_ H].
  rewrite (slice_agree raw raw' ss sen L).
  2:{ intros i Hi. apply H. exists (ss, sen). split; [right; right; left; reflexivity|exact Hi]. }
  rewrite (slice_agree raw raw' 0 se L).
  2:{ intros i Hi. apply H. exists (0, se). split; [right; left; reflexivity|exact Hi]. }
  reflexivity.
Qed.

Lemma token_key_needs_member ks raw k : token_key verify ks raw = Ok k ->
  exists pos sk,
    parse_token_or_root raw = Ok (k, pos) /\
    get_key ks (pk_certid k) = Some sk /\ In sk ks /\ pk_id sk = pk_certid k /\
    psb_key_valid sk = true /\
    pos + zlen (pk_modulus sk) <= zlen raw /\
    let len_signed := u32 (token_header_len + u32 (2 * pk_modsize k) / 8) in
    len_signed <= zlen raw /\
    new_signed_blob verify (psb_reverse (sub pos (zlen (pk_modulus sk)) raw)) (sub 0 len_signed raw) sk = Ok tt.
Proof.
  unfold token_key.
  destruct (parse_token_or_root raw) as [[k0 pos]|?|?|] eqn:P; cbn [bind]; try discriminate.
  cbn [fst snd].
  destruct (get_key ks (pk_certid k0)) as [sk|] eqn:GK; [|discriminate].
  destruct (psb_key_valid sk) eqn:V; cbn [negb]; [|discriminate].
  destruct (zlen raw <? pos + zlen (pk_modulus sk)) eqn:S1; [discriminate|].
  set (len_signed := u32 (token_header_len + u32 (2 * pk_modsize k0) / 8)).
  destruct (zlen raw <? len_signed) eqn:S2; [discriminate|].
  assert (0 <= len_signed) by (unfold len_signed, u32; apply Z.mod_pos_bound; lia).
  rewrite slice_ok by lia. cbn [of_opt bind]. rewrite Z.sub_0_r.
  destruct (new_signed_blob verify _ _ sk) as [[]|?|?|] eqn:NB; cbn [bind]; try discriminate.
  intros [= <-]. destruct (get_key_in _ _ _ GK) as [I1 I2].
  exists pos, sk. repeat split; auto; lia.
Qed.

End PSB.

(* what parse_token_or_root returns: the 64-byte header, the exponent and the modulus *)
Lemma parse_token_spec raw k pos : parse_token_or_root raw = Ok (k, pos) ->
  pk_expsize k = rd 56 4 raw /\ pk_modsize k = rd 60 4 raw /\
  pk_expsize k mod 8 = 0 /\ pk_modsize k mod 8 = 0 /\
  pos = token_header_len + pk_expsize k / 8 + pk_modsize k / 8 /\ pos <= zlen raw /\
  pk_id k = sub 4 16 raw /\ pk_certid k = sub 20 16 raw /\
  pk_exponent k = sub token_header_len (pk_expsize k / 8) raw /\
  pk_modulus k = sub (token_header_len + pk_expsize k / 8) (pk_modsize k / 8) raw.
Proof.
  unfold parse_token_or_root. remember token_header_len as T eqn:HT.
  destruct (zlen raw <? T); [discriminate|].
  destruct (rd 56 4 raw mod 8 =? 0) eqn:E1; cbn [negb]; [|discriminate].
  destruct (zlen raw <? T + rd 56 4 raw / 8); [discriminate|].
  destruct (rd 60 4 raw mod 8 =? 0) eqn:E2; cbn [negb]; [|discriminate].
  destruct (zlen raw <? T + rd 56 4 raw / 8 + rd 60 4 raw / 8) eqn:E3; [discriminate|].
  intros [= <- <-]. cbn [pk_expsize pk_modsize pk_id pk_certid pk_exponent pk_modulus].
  repeat split; auto; lia.
Qed.

(* ------------------------------------------------------------------ *)
(* CBnT and Boot Guard 1.0 statements side by side                      *)
(* ------------------------------------------------------------------ *)

Lemma rsa_key_roundtrip_both n e : 0 <= n -> bytelen n < 8192 -> 0 <= e < 2 ^ 32 ->
  (exists k, set_pub_key (PubRSA n e) = Ok k /\ pub_key k = Ok (PubRSA n e)) /\
  (exists k, bg_set_pub_key (PubRSA n e) = Ok k /\ bg_pub_key k = Ok (PubRSA n e)).
Proof. intros; split; [apply rsa_key_roundtrip|apply bg_rsa_key_roundtrip]; auto. Qed.

Lemma ec_signature_roundtrip m r s ha : 0 <= r < 2 ^ 384 -> 0 <= s < 2 ^ 384 ->
  (exists m', set_signature_by_data m (SigECDSA r s) ha = Ok m' /\
              signature_data m' = Ok (SigECDSA r s) /\
              (r < 2 ^ 256 -> s < 2 ^ 256 -> zlen (s_data m') = 64 /\ s_keysize m' = 256)) /\
  (exists m', set_signature_by_data m (SigSM2 r s) ha = Ok m' /\ signature_data m' = Ok (SigSM2 r s)).
Proof. intros; split; [apply ecdsa_signature_roundtrip|apply sm2_signature_roundtrip]; auto. Qed.

Lemma ks_verify_depends_only_on_both verify ks ks' data :
  k_alg (ks_key ks) = k_alg (ks_key ks') ->
  in_bytes (k_size (ks_key ks)) = in_bytes (k_size (ks_key ks')) ->
  k_data (ks_key ks) = k_data (ks_key ks') ->
  s_scheme (ks_sig ks) = s_scheme (ks_sig ks') ->
  s_data (ks_sig ks) = s_data (ks_sig ks') ->
  (s_hashalg (ks_sig ks) = s_hashalg (ks_sig ks') -> ks_verify verify ks data = ks_verify verify ks' data) /\
  bg_ks_verify verify ks data = bg_ks_verify verify ks' data.
Proof.
  intros; split; [intros; apply ks_verify_depends_only_on|apply bg_ks_verify_depends_only_on]; auto.
Qed.

Lemma ibb_noninterference_both hash :
  (forall ses fw fw',
     match ses with
     | [] => True
     | se0 :: _ => agree_on (ibb_bounds (se_segments se0) (zlen fw)) fw fw'
     end -> validate_ibb hash ses fw = validate_ibb hash ses fw') /\
  (forall ses fw fw',
     match ses with
     | [] => True
     | (_, segs) :: _ => agree_on (ibb_bounds segs (zlen fw)) fw fw'
     end -> bg_validate_ibb hash ses fw = bg_validate_ibb hash ses fw').
Proof. split; [apply ibb_noninterference|apply bg_ibb_noninterference]. Qed.

Lemma ibb_digest_covers_both hash fw :
  (forall se0 rest alg buf ds sz,
     se_digests se0 = (alg, buf) :: ds -> cbnt_hash_size alg = Some sz ->
     let bs := ibb_bounds (se_segments se0) (zlen fw) in
     validate_ibb hash (se0 :: rest) fw =
       if forallb (in_bounds fw) bs
       then verdict (bytes_eqb (hash alg (concat (map (fun b => sub (fst b) (snd b - fst b) fw) bs))) buf) I_MISMATCH
       else Panic 11) /\
  (forall alg buf segs rest sz,
     bg_hash_size alg = Some sz ->
     let bs := ibb_bounds segs (zlen fw) in
     bg_validate_ibb hash (((alg, buf), segs) :: rest) fw =
       if forallb (in_bounds fw) bs
       then verdict (bytes_eqb (hash alg (concat (map (fun b => sub (fst b) (snd b - fst b) fw) bs))) buf) I_MISMATCH
       else Panic 11).
Proof.
  split; intros.
  - eapply ibb_digest_covers; eauto.
  - eapply bg_ibb_digest_covers; eauto.
Qed.

Lemma bpm_key_spec_both hash k :
  (forall l, validate_bpm_key hash l k = Ok tt <->
     (exists e, In e l /\ bpm_applies e = true) /\
     (forall e, In e l -> bpm_applies e = true -> bpm_entry_good hash k e)) /\
  (forall alg buf, bg_validate_bpm_key hash alg buf k = Ok tt <->
     bg_hash_size alg = Some (zlen buf) /\ k_alg k = c16_bg_alg_rsa /\ 4 <= zlen (k_data k) /\
     buf = hash alg (zskipn 4 (k_data k))).
Proof. split; intros; [apply bpm_key_spec|apply bg_bpm_key_spec]. Qed.

(* ------------------------------------------------------------------ *)
(* token keys: bytes after the signature and the signed prefix do not matter *)
(* ------------------------------------------------------------------ *)

Lemma rd_nonneg o w b : bytes_ok b = true -> 0 <= rd o w b.
Proof. intros H. unfold rd. apply le_dec_bound. apply bytes_ok_sub; auto. Qed.

Lemma agree_all_eq (a b : bytes) : agree_on [(0, zlen a)] a b -> a = b.
Proof.
  intros [L H]. apply nth_error_ext. intros i.
  destruct (Z.of_nat i <? zlen a) eqn:E.
  - apply H. exists (0, zlen a). split; [left; reflexivity|]. cbn [fst snd]. lia.
  - assert (nth_error a i = None) by (apply nth_error_None; unfold zlen in *; lia).
    assert (nth_error b i = None) by (apply nth_error_None; unfold zlen in *; lia). congruence.
Qed.

Lemma parse_token_agree raw raw' k pos : bytes_ok raw = true ->
  parse_token_or_root raw = Ok (k, pos) -> agree_on [(0, pos)] raw raw' ->
  parse_token_or_root raw' = Ok (k, pos).
Proof.
  intros OK P [L H]. pose proof (parse_token_spec _ _ _ P) as (E1 & E2 & M1 & M2 & Pp & Pl & _).
  pose proof (rd_nonneg 56 4 raw OK) as N1. pose proof (rd_nonneg 60 4 raw OK) as N2.
  assert (D1 : 0 <= rd 56 4 raw / 8) by (apply Z.div_pos; lia).
  assert (D2 : 0 <= rd 60 4 raw / 8) by (apply Z.div_pos; lia).
  rewrite E1, E2 in Pp. unfold token_header_len in Pp.
  assert (S : forall o l, 0 <= o -> 0 <= l -> o + l <= pos -> sub o l raw' = sub o l raw).
  { intros o l Ho Hl Hb. symmetry. apply sub_agree; auto. intros i Hi. apply H.
    exists (0, pos). split; [left; reflexivity|]. cbn [fst snd]. lia. }
  assert (R : forall o, 0 <= o -> o + 4 <= pos -> rd o 4 raw' = rd o 4 raw).
  { intros o Ho Hb. unfold rd. f_equal. apply S; simpl; lia. }
  rewrite <- P. unfold parse_token_or_root, token_header_len. rewrite <- L.
  rewrite !R by lia. rewrite !S by lia. reflexivity.
Qed.

Section PSBToken.
Variable verify : pubkey -> Z -> Z -> bytes -> bytes -> bool.

Lemma token_noninterference ks raw raw' : bytes_ok raw = true ->
  agree_on (token_cover ks raw) raw raw' ->
  token_key verify ks raw = token_key verify ks raw'.
Proof.
  intros OK A. unfold token_cover in A.
  destruct (parse_token_or_root raw) as [[k pos]|e|s|] eqn:P;
    try (apply agree_all_eq in A; subst; reflexivity).
  pose proof A as [L H].
  assert (P' : parse_token_or_root raw' = Ok (k, pos)).
  { apply (parse_token_agree raw raw' k pos OK P). eapply agree_on_sub; [|exact A].
    intros x [<-|[]]. left; reflexivity. }
  pose proof (parse_token_spec _ _ _ P) as (E1 & E2 & M1 & M2 & Pp & Pl & _).
  pose proof (rd_nonneg 56 4 raw OK) as N1. pose proof (rd_nonneg 60 4 raw OK) as N2.
  assert (P0 : 0 <= pos).
  { rewrite Pp, E1, E2. unfold token_header_len.
    pose proof (Z.div_pos (rd 56 4 raw) 8 N1 ltac:(lia)). pose proof (Z.div_pos (rd 60 4 raw) 8 N2 ltac:(lia)). lia. }
  unfold token_key. rewrite P, P'. cbn [bind fst snd].
  destruct (get_key ks (pk_certid k)) as [sk|] eqn:GK; auto.
  destruct (negb (psb_key_valid sk)); auto.
  rewrite <- L.
  destruct (zlen raw <? pos + zlen (pk_modulus sk)); auto.
  set (len_signed := u32 (token_header_len + u32 (2 * pk_modsize k) / 8)) in *.
  destruct (zlen raw <? len_signed); auto.
  rewrite (slice_agree raw raw' 0 len_signed L).
  2:{ intros i Hi. apply H. exists (0, len_signed). split; [right; right; left; reflexivity|exact Hi]. }
  rewrite (sub_agree raw raw' pos (zlen (pk_modulus sk))); auto.
  - apply zlen_nonneg.
  - intros i Hi. apply H. exists (0, pos + zlen (pk_modulus sk)).
    split; [right; left; reflexivity|]. cbn [fst snd]. lia.
Qed.

End PSBToken.

(* ---------------- ValidateRTM from the entries on ---------------- *)

Section RTM.
Variable verify : pubkey -> Z -> Z -> bytes -> bytes -> bool.

Lemma validate_rtm_ok_inv level rtm l1 ln sg k : validate_rtm verify level rtm l1 ln sg k = Ok tt ->
  psb_key_valid k = true /\
  exists n e, psb_key_get k = PubRSA n e /\ (bytelen n * 8 = 4096 \/ bytelen n * 8 = 2048) /\
              verify (PubRSA n e) c16_alg_rsapss (psb_hash_of n)
                     (rtm ++ (if level =? 2 then l1 else []) ++ ln) (psb_reverse sg) = true.
Proof. unfold validate_rtm, rtm_signed_data. apply new_signed_blob_ok_inv. Qed.

Lemma validate_rtm_level1 level rtm l1 l1' ln sg k : level <> 2 ->
  validate_rtm verify level rtm l1 ln sg k = validate_rtm verify level rtm l1' ln sg k.
Proof.
  intros H. unfold validate_rtm, rtm_signed_data.
  destruct (level =? 2) eqn:E; [lia|reflexivity].
Qed.

Lemma validate_rtm_binding :
  (forall k sc h m k' sc' h' m' s, verify k sc h m s = true -> verify k' sc' h' m' s = true ->
                                   k = k' /\ m = m') ->
  forall level rtm l1 ln level' rtm' l1' ln' sg k k',
    validate_rtm verify level rtm l1 ln sg k = Ok tt ->
    validate_rtm verify level' rtm' l1' ln' sg k' = Ok tt ->
    psb_key_get k = psb_key_get k' /\
    rtm_signed_data level rtm l1 ln = rtm_signed_data level' rtm' l1' ln'.
Proof.
  intros Hid level rtm l1 ln level' rtm' l1' ln' sg k k' H1 H2.
  apply validate_rtm_ok_inv in H1. apply validate_rtm_ok_inv in H2.
  destruct H1 as (_ & n & e & G1 & _ & V1). destruct H2 as (_ & n' & e' & G2 & _ & V2).
  destruct (Hid _ _ _ _ _ _ _ _ _ V1 V2) as [Hk Hm].
  split; [congruence|]. unfold rtm_signed_data. exact Hm.
Qed.

End RTM.

(* ------------------------------------------------------------------ *)
(* re-signing: SetSignature is a function of its arguments only         *)
(* ------------------------------------------------------------------ *)

Section Resign.
Variable sign_rsa : privkey -> Z -> Z -> bytes -> bytes.
Variable sign_ec : privkey -> Z -> Z -> bytes -> Z * Z.

Lemma set_signature_by_data_old m m' sd ha : s_ver m = s_ver m' ->
  set_signature_by_data m sd ha = set_signature_by_data m' sd ha.
Proof. intros V. unfold set_signature_by_data. rewrite V. reflexivity. Qed.

(* whatever the structure held before (an earlier signature, a parsed manifest), the result is
   the same as on any other structure: nothing of the old scheme, hash, size or data survives *)
Lemma set_signature_independent_of_old sa ha sk data :
  (forall m m', sig_set_signature sign_rsa sign_ec m sa ha sk data =
                sig_set_signature sign_rsa sign_ec m' sa ha sk data) /\
  (forall ks ks', ks_set_signature sign_rsa sign_ec ks sa ha sk data =
                  ks_set_signature sign_rsa sign_ec ks' sa ha sk data) /\
  (forall ks ks', km_set_signature sign_rsa sign_ec ks sa ha sk data =
                  km_set_signature sign_rsa sign_ec ks' sa ha sk data).
Proof.
  assert (A : forall m m', sig_set_signature sign_rsa sign_ec m sa ha sk data =
                           sig_set_signature sign_rsa sign_ec m' sa ha sk data).
  { intros m m'. unfold sig_set_signature.
    destruct (new_signature_data sign_rsa sign_ec sa ha sk data); cbn [bind]; auto. }
  assert (B : forall ks ks', ks_set_signature sign_rsa sign_ec ks sa ha sk data =
                             ks_set_signature sign_rsa sign_ec ks' sa ha sk data).
  { intros ks ks'. unfold ks_set_signature. rewrite (A (ks_sig ks) (ks_sig ks')). reflexivity. }
  split; [exact A|]. split; [exact B|].
  intros ks ks'. unfold km_set_signature. rewrite (B ks ks'). reflexivity.
Qed.

(* the recorded scheme is the one used, the recorded hash is the one the signer was given:
   the requested one, or the default of the scheme used NOW when none was requested *)
Lemma set_signature_records_what_was_used m sa ha sk data m' :
  sig_set_signature sign_rsa sign_ec m sa ha sk data = Ok m' ->
  let sc := detect_scheme sa sk in
  let h := default_hash (scheme_default_hash sc) ha in
  s_scheme m' = sc /\ s_ver m' = 16 /\ s_hashalg m' = h /\
  (sc = c16_alg_rsapss \/ sc = c16_alg_rsassa -> s_data m' = sign_rsa sk sc h data) /\
  (sc = c16_alg_ecdsa \/ sc = c16_alg_sm2 ->
     exists w, rs_width (fst (sign_ec sk sc h data)) (snd (sign_ec sk sc h data)) = Some w /\
               s_data m' = encode_rs w (fst (sign_ec sk sc h data)) (snd (sign_ec sk sc h data))).
Proof.
  unfold sig_set_signature, new_signature_data. cbn zeta.
  set (sc := detect_scheme sa sk). unfold scheme_default_hash.
  destruct (sc =? c16_alg_rsapss) eqn:E1.
  { assert (sc = c16_alg_rsapss) as -> by lia.
    destruct (rsa_hash_ok _); cbn [bind]; [|discriminate].
    cbn [set_signature_by_data set_signature_data bind]. intros [= <-]. cbn [s_scheme s_ver s_hashalg s_data].
    repeat split; auto. intros [H|H]; discriminate H. }
  destruct (sc =? c16_alg_rsassa) eqn:E2.
  { assert (sc = c16_alg_rsassa) as -> by lia.
    destruct (rsa_hash_ok _); cbn [bind]; [|discriminate].
    cbn [set_signature_by_data set_signature_data bind]. intros [= <-]. cbn [s_scheme s_ver s_hashalg s_data].
    repeat split; auto. intros [H|H]; discriminate H. }
  destruct (sc =? c16_alg_ecdsa) eqn:E3.
  { assert (sc = c16_alg_ecdsa) as -> by lia.
    destruct sk; try discriminate.
    destruct (cbnt_hash_size _); [|discriminate]. cbn [bind].
    unfold set_signature_by_data, set_signature_data.
    destruct (rs_width _ _) as [w|] eqn:W; cbn [bind]; [|discriminate].
    intros [= <-]. cbn [s_scheme s_ver s_hashalg s_data].
    repeat split; auto; [intros [H|H]; discriminate H|]. intros _. exists w. split; auto. }
  destruct (sc =? c16_alg_sm2) eqn:E4; [|discriminate].
  assert (sc = c16_alg_sm2) as -> by lia.
  destruct sk; try discriminate. cbn [bind].
  unfold set_signature_by_data, set_signature_data.
  destruct (rs_width _ _) as [w|] eqn:W; cbn [bind]; [|discriminate].
  intros [= <-]. cbn [s_scheme s_ver s_hashalg s_data].
  repeat split; auto; [intros [H|H]; discriminate H|]. intros _. exists w. split; auto.
Qed.

End Resign.
