(* Proofs/TightenMeProofs.v — lemmas about Model/TightenMe.v (property C12). *)
From Fiano Require Import Base.Bytes Base.BytesLemmas Gen.Consts Model.TightenMe.
From Coq Require Import ZifyBool ZifyNat.
Open Scope Z_scope.

Ltac consts :=
  unfold ifd_block, ifd_desc_len, ifd_dmap_size, ifd_region_section_size, ifd_master_size,
    ifd_nslots, ifd_type_bios, ifd_type_me, ifd_rsec_off_erase, ifd_rsec_off_slots,
    ifd_slot_size, ifd_dmap_off_region_base, ifd_dmap_off_nregions, ifd_dmap_off_master_base,
    U16, U64 in *.

(* ------------------------------------------------------------------ *)
(* generic list facts                                                  *)
(* ------------------------------------------------------------------ *)

Lemma nth_app_here {A} (pre : list A) x q d : nth (length pre) (pre ++ x :: q) d = x.
Proof. induction pre; simpl; auto. Qed.

Lemma upd_nth_app_here {A} (pre : list A) x y q :
  upd_nth (length pre) y (pre ++ x :: q) = pre ++ y :: q.
Proof. induction pre; simpl; auto. f_equal; auto. Qed.

Lemma upd_nth_app_next {A} (pre : list A) a x y q :
  upd_nth (S (length pre)) y (pre ++ a :: x :: q) = pre ++ a :: y :: q.
Proof. induction pre; simpl; auto. f_equal; auto. Qed.

Lemma upd_nth_length {A} n (x : A) l : length (upd_nth n x l) = length l.
Proof. revert n; induction l; intros [|n]; simpl; auto. Qed.

Lemma split_two {A} (p1 q1 p2 q2 : list A) x y : x <> y ->
  p1 ++ x :: q1 = p2 ++ y :: q2 ->
  (exists m, p2 = p1 ++ x :: m /\ q1 = m ++ y :: q2) \/
  (exists m, p1 = p2 ++ y :: m /\ q2 = m ++ x :: q1).
Proof.
  intros Hne. revert p2. induction p1 as [|a p1 IH]; intros [|b p2] E; simpl in E.
  - congruence.
  - injection E as -> E. left. exists p2. auto.
  - injection E as <- E. right. exists p1. auto.
  - injection E as -> E. destruct (IH _ E) as [(m & -> & ->)|(m & -> & ->)].
    + left; exists m; auto.
    + right; exists m; auto.
Qed.

(* count *)
Lemma count_app {A} (p : A -> bool) a b : count p (a ++ b) = count p a + count p b.
Proof. unfold count. rewrite filter_app, zlen_app. reflexivity. Qed.

Lemma count_cons {A} (p : A -> bool) x l : count p (x :: l) = (if p x then 1 else 0) + count p l.
Proof. unfold count. cbn [filter]. destruct (p x); rewrite ?zlen_cons; cbv beta iota; lia. Qed.

Lemma count_nil {A} (p : A -> bool) : count p [] = 0.
Proof. reflexivity. Qed.

Lemma count_nonneg {A} (p : A -> bool) l : 0 <= count p l.
Proof. unfold count. apply zlen_nonneg. Qed.

Lemma count_zero {A} (p : A -> bool) l : count p l = 0 -> forallb (fun x => negb (p x)) l = true.
Proof.
  induction l as [|x l IH]; [reflexivity|]. rewrite count_cons. cbn [forallb].
  pose proof (count_nonneg p l). destruct (p x); cbn [negb andb]; intros E; [lia|apply IH; lia].
Qed.

(* ------------------------------------------------------------------ *)
(* insertion sort                                                      *)
(* ------------------------------------------------------------------ *)

(* a reversed prefix: keys decrease (weakly) from the head *)
Fixpoint desc_sorted {A} (key : A -> Z) (l : list A) : Prop :=
  match l with
  | [] => True
  | x :: r => match r with [] => True | y :: _ => key y <= key x end /\ desc_sorted key r
  end.

Fixpoint asc_sorted {A} (key : A -> Z) (l : list A) : Prop :=
  match l with
  | [] => True
  | x :: r => match r with [] => True | y :: _ => key x <= key y end /\ asc_sorted key r
  end.

Lemma ins_top {A} (key : A -> Z) x acc :
  match acc with [] => True | y :: _ => key y <= key x end -> ins key x acc = x :: acc.
Proof. destruct acc as [|y r]; simpl; auto. intros H. replace (key x <? key y) with false by lia. auto. Qed.

(* sorting an already sorted list: every element stays where it is *)
Lemma fold_ins_sorted {A} (key : A -> Z) l acc :
  asc_sorted key l ->
  match l, acc with x :: _, y :: _ => key y <= key x | _, _ => True end ->
  fold_left (fun a x => ins key x a) l acc = rev l ++ acc.
Proof.
  revert acc. induction l as [|x l IH]; intros acc S H; simpl; auto.
  destruct S as [S1 S2].
  rewrite ins_top by (destruct acc; auto).
  rewrite IH; [rewrite <- app_assoc; reflexivity | exact S2 | destruct l; auto].
Qed.

Lemma sort_sorted {A} (key : A -> Z) l : asc_sorted key l -> sort_by key l = l.
Proof.
  intros S. unfold sort_by. rewrite fold_ins_sorted; auto.
  - rewrite app_nil_r. apply rev_involutive.
  - destruct l; auto.
Qed.

Lemma ins_Forall {A} (P : A -> Prop) (key : A -> Z) x acc :
  P x -> Forall P acc -> Forall P (ins key x acc).
Proof.
  intros Px. induction acc as [|y r IH]; intros F; simpl.
  - constructor; auto.
  - inversion F; subst. destruct (key x <? key y); constructor; auto.
Qed.

Lemma fold_ins_Forall {A} (P : A -> Prop) (key : A -> Z) l acc :
  Forall P l -> Forall P acc -> Forall P (fold_left (fun a x => ins key x a) l acc).
Proof.
  revert acc. induction l as [|x l IH]; intros acc Fl Fa; simpl; auto.
  inversion Fl; subst. apply IH; auto. apply ins_Forall; auto.
Qed.

Lemma sort_Forall {A} (P : A -> Prop) (key : A -> Z) l : Forall P l -> Forall P (sort_by key l).
Proof.
  intros F. unfold sort_by. apply Forall_rev. apply fold_ins_Forall; auto.
Qed.

Lemma ins_count {A} (p : A -> bool) (key : A -> Z) x acc :
  count p (ins key x acc) = count p (x :: acc).
Proof.
  induction acc as [|y r IH]; simpl; auto.
  destruct (key x <? key y); auto.
  rewrite count_cons, IH, !count_cons. lia.
Qed.

Lemma fold_ins_count {A} (p : A -> bool) (key : A -> Z) l acc :
  count p (fold_left (fun a x => ins key x a) l acc) = count p l + count p acc.
Proof.
  revert acc. induction l as [|x l IH]; intros acc; cbn [fold_left].
  - rewrite count_nil. lia.
  - rewrite IH, ins_count, !count_cons. lia.
Qed.

Lemma count_rev {A} (p : A -> bool) l : count p (rev l) = count p l.
Proof.
  induction l as [|x l IH]; cbn [rev]; auto. rewrite count_app, IH, !count_cons, count_nil. lia.
Qed.

Lemma sort_count {A} (p : A -> bool) (key : A -> Z) l : count p (sort_by key l) = count p l.
Proof.
  unfold sort_by. rewrite count_rev, fold_ins_count, count_nil. lia.
Qed.

(* ------------------------------------------------------------------ *)
(* outcomes                                                            *)
(* ------------------------------------------------------------------ *)

Definition omap {A B} (f : A -> B) (o : outcome A) : outcome B :=
  match o with Ok a => Ok (f a) | Err e => Err e | Panic s => Panic s | Fuel => Fuel end.

(* ------------------------------------------------------------------ *)
(* flash regions and slots                                             *)
(* ------------------------------------------------------------------ *)

Lemma fr_ok_spec r : fr_ok r = true -> 0 <= fr_base r < 65536 /\ 0 <= fr_limit r < 65536.
Proof. unfold fr_ok. consts. lia. Qed.

Lemma slot_0 a l : slot (a :: l) ifd_type_bios = a.
Proof. reflexivity. Qed.
Lemma slot_1 a b l : slot (a :: b :: l) ifd_type_me = b.
Proof. reflexivity. Qed.
Lemma slot_tail2 a b a' b' l i : 2 <= i -> slot (a :: b :: l) i = slot (a' :: b' :: l) i.
Proof.
  intros H. unfold slot. replace (Z.to_nat i) with (S (S (Z.to_nat (i - 2)))) by lia. reflexivity.
Qed.

Lemma set_limit_me a b l v : set_limit (a :: b :: l) ifd_type_me v = a :: mkFR (fr_base b) v :: l.
Proof. reflexivity. Qed.
Lemma set_base_bios a b l v : set_base (a :: b :: l) ifd_type_bios v = mkFR v (fr_limit a) :: b :: l.
Proof. reflexivity. Qed.

Definition plain (r : region) : bool := negb (is_me r) && negb (is_bios r).

(* regions other than ME and BIOS do not see a change of slots 0 and 1 *)
Lemma region_fr_plain a b a' b' l r : plain r = true ->
  (match r with RRaw i _ => 2 <= i | _ => True end) ->
  region_fr (a :: b :: l) r = region_fr (a' :: b' :: l) r.
Proof.
  destruct r; simpl; try discriminate; auto. intros _ H. apply slot_tail2; auto.
Qed.

Lemma region_ok_spec sl r : region_ok sl r = true ->
  let fr := region_fr sl r in
  fr_ok fr = true /\
  (fr_base fr <= fr_limit fr \/ (is_me r = true /\ fr_base fr = fr_limit fr + 1)) /\
  zlen (region_buf r) = end_off fr - base_off fr /\
  match r with
  | RBios els len => len = zlen (concat (map elem_buf els))
  | RME _ (Some es) fso => fso = fso_of es
  | RME _ None fso => fso = 0
  | RRaw i _ => 2 <= i < ifd_nslots
  | RGap _ _ => True
  end.
Proof.
  unfold region_ok. intros H.
  apply andb_true_iff in H as [H H4]. apply andb_true_iff in H as [H H3].
  apply andb_true_iff in H as [H1 H2].
  repeat split; auto; try lia.
  destruct r as [els len|b [es|] f|i b|fr b]; try lia; auto.
Qed.

Lemma region_ok_le sl r : region_ok sl r = true ->
  base_off (region_fr sl r) <= end_off (region_fr sl r).
Proof.
  intros H. apply region_ok_spec in H as (_ & H & _). unfold base_off, end_off. consts. lia.
Qed.

Lemma region_ok_lt sl r : region_ok sl r = true -> is_me r = false ->
  base_off (region_fr sl r) < end_off (region_fr sl r).
Proof.
  intros H M. apply region_ok_spec in H as (_ & H & _). unfold base_off, end_off. consts.
  destruct H as [H|[H _]]; [lia|congruence].
Qed.

(* ------------------------------------------------------------------ *)
(* chain                                                               *)
(* ------------------------------------------------------------------ *)

Lemma chain_app sl a b off :
  chain sl (a ++ b) off = match chain sl a off with Some m => chain sl b m | None => None end.
Proof.
  revert off. induction a as [|r a IH]; intros off; simpl; auto.
  destruct (base_off (region_fr sl r) =? off); auto.
Qed.

Lemma chain_le sl rs off e : forallb (region_ok sl) rs = true -> chain sl rs off = Some e -> off <= e.
Proof.
  revert off. induction rs as [|r rs IH]; intros off F C; simpl in *.
  - injection C as <-. lia.
  - apply andb_true_iff in F as [F1 F2].
    destruct (base_off (region_fr sl r) =? off) eqn:E; [|discriminate].
    apply IH in C; auto. pose proof (region_ok_le _ _ F1). lia.
Qed.

Lemma chain_lt sl rs off e : forallb (region_ok sl) rs = true ->
  forallb (fun r => negb (is_me r)) rs = true -> rs <> [] -> chain sl rs off = Some e -> off < e.
Proof.
  intros F M N C. destruct rs as [|r rs]; [congruence|]. simpl in *.
  apply andb_true_iff in F as [F1 F2]. apply andb_true_iff in M as [M1 M2].
  destruct (base_off (region_fr sl r) =? off) eqn:E; [|discriminate].
  apply chain_le in C; auto.
  assert (is_me r = false) by (destruct (is_me r); auto; discriminate).
  pose proof (region_ok_lt _ _ F1 H). lia.
Qed.

Definition rkey (sl : list fregion) (r : region) : Z := fr_base (region_fr sl r).

Lemma chain_sorted sl rs off e : forallb (region_ok sl) rs = true -> chain sl rs off = Some e ->
  asc_sorted (rkey sl) rs /\ match rs with r :: _ => base_off (region_fr sl r) = off | [] => True end.
Proof.
  revert off. induction rs as [|r rs IH]; intros off F C; simpl in *; auto.
  apply andb_true_iff in F as [F1 F2].
  destruct (base_off (region_fr sl r) =? off) eqn:E; [|discriminate].
  destruct (IH _ F2 C) as [S H]. split; [|lia]. split; auto.
  destruct rs as [|r2 rs]; auto.
  pose proof (region_ok_le _ _ F1). unfold rkey, base_off in *. consts. lia.
Qed.

Lemma asc_sorted_map {A B} (f : A -> B) (key : B -> Z) l :
  asc_sorted (fun x => key (f x)) l -> asc_sorted key (map f l).
Proof.
  induction l as [|x l IH]; simpl; auto. intros [H S]. split; auto. destruct l; simpl; auto.
Qed.

(* ------------------------------------------------------------------ *)
(* Assemble: BIOS region                                               *)
(* ------------------------------------------------------------------ *)

Lemma splice_app_left (a d b : bytes) off : 0 <= off ->
  splice (zlen a + off) d (a ++ b) = a ++ splice off d b.
Proof.
  intros H. unfold splice. pose proof (zlen_nonneg a). pose proof (zlen_nonneg d).
  assert (F : zfirstn (zlen a + off) (a ++ b) = a ++ zfirstn off b).
  { unfold zfirstn. rewrite Z2Nat.inj_add by lia. unfold zlen at 1. rewrite Nat2Z.id.
    apply firstn_app_2. }
  assert (S : zskipn (zlen a + off + zlen d) (a ++ b) = zskipn (off + zlen d) b).
  { replace (zlen a + off + zlen d) with ((off + zlen d) + zlen a) by lia.
    rewrite <- zskipn_zskipn by lia. rewrite zskipn_app_exact. reflexivity. }
  rewrite F, S, <- app_assoc. reflexivity.
Qed.

Lemma bios_copy_prefix els a off fb : 0 <= off ->
  bios_copy els (zlen a + off) (a ++ fb) = omap (app a) (bios_copy els off fb).
Proof.
  revert off fb. induction els as [|e els IH]; intros off fb H; simpl; auto.
  rewrite zlen_app. pose proof (zlen_nonneg (elem_buf e)).
  destruct (off + zlen (elem_buf e) <=? zlen fb) eqn:E.
  - replace (zlen a + off + zlen (elem_buf e) <=? zlen a + zlen fb) with true by lia.
    rewrite splice_app_left by lia.
    replace (zlen a + off + zlen (elem_buf e)) with (zlen a + (off + zlen (elem_buf e))) by lia.
    apply IH. lia.
  - replace (zlen a + off + zlen (elem_buf e) <=? zlen a + zlen fb) with false by lia. reflexivity.
Qed.

Lemma bios_copy_prefix0 els a fb :
  bios_copy els (zlen a) (a ++ fb) = omap (app a) (bios_copy els 0 fb).
Proof. rewrite <- (bios_copy_prefix els a 0 fb) by lia. rewrite Z.add_0_r. reflexivity. Qed.

Lemma zlen_zrepeat x n : 0 <= n -> zlen (zrepeat x n) = n.
Proof.
  intros H. unfold zrepeat, zlen.
  assert (L : forall k, length (repeatz x k) = k) by (induction k; simpl; auto).
  rewrite L. lia.
Qed.

Lemma zrepeat_add x a b : 0 <= a -> 0 <= b -> zrepeat x (a + b) = zrepeat x a ++ zrepeat x b.
Proof.
  intros Ha Hb. unfold zrepeat. rewrite Z2Nat.inj_add by lia.
  generalize (Z.to_nat a) as n. induction n; simpl; auto. f_equal; auto.
Qed.

(* a buffer exactly as long as the elements: the copy loop fills it completely *)
Lemma bios_copy_full els fb : zlen fb = zlen (concat (map elem_buf els)) ->
  bios_copy els 0 fb = Ok (concat (map elem_buf els)).
Proof.
  revert fb. induction els as [|e els IH]; intros fb L; cbn [map concat bios_copy] in *.
  - destruct fb; auto. rewrite zlen_cons, zlen_nil in L. pose proof (zlen_nonneg fb). lia.
  - rewrite zlen_app in L. pose proof (zlen_nonneg (elem_buf e)).
    pose proof (zlen_nonneg (concat (map elem_buf els))).
    replace (0 + zlen (elem_buf e) <=? zlen fb) with true by lia.
    assert (S : splice 0 (elem_buf e) fb = elem_buf e ++ zskipn (zlen (elem_buf e)) fb).
    { unfold splice. reflexivity. }
    rewrite S, Z.add_0_l.
    rewrite bios_copy_prefix0. rewrite IH; auto.
    rewrite zlen_zskipn by lia. lia.
Qed.

Lemma elem_buf_shift s e : elem_buf (shift_elem s e) = elem_buf e.
Proof. destruct e; reflexivity. Qed.

Lemma map_elem_buf_shift s els : map elem_buf (map (shift_elem s) els) = map elem_buf els.
Proof. rewrite map_map. apply map_ext. apply elem_buf_shift. Qed.

Lemma asm_elems_shift s els pol : asm_elems (map (shift_elem s) els) pol = asm_elems els pol.
Proof.
  revert pol. induction els as [|e els IH]; intros pol; simpl; auto.
  destruct e; simpl; auto. destruct (set_polarity pol pol0); simpl; auto.
Qed.

Lemma first_fv_pol_shift s els : first_fv_pol (map (shift_elem s) els) = first_fv_pol els.
Proof. induction els as [|e els IH]; simpl; auto. destruct e; simpl; auto. Qed.

Lemma bios_copy_shift s els off fb :
  bios_copy (map (shift_elem s) els) off fb = bios_copy els off fb.
Proof.
  revert off fb. induction els as [|e els IH]; intros off fb; simpl; auto.
  rewrite elem_buf_shift. destruct (off + zlen (elem_buf e) <=? zlen fb); auto.
Qed.

Lemma assemble_bios_shift s els len pol :
  assemble_bios (map (shift_elem s) els) len pol = assemble_bios els len pol.
Proof.
  unfold assemble_bios. rewrite asm_elems_shift, first_fv_pol_shift.
  destruct (asm_elems els pol); simpl; auto.
  destruct (first_fv_pol els); auto.
  destruct (set_polarity a z); simpl; auto.
  rewrite bios_copy_shift. reflexivity.
Qed.

(* a leading padding of [zlen tail] more bytes: the assembled region is [tail] ++ the old one *)
Lemma assemble_bios_pad tail o els len pol : 0 <= len ->
  assemble_bios (BPad tail o :: els) (len + zlen tail) pol =
  omap (fun x => (tail ++ fst x, snd x)) (assemble_bios els len pol).
Proof.
  intros Hl. unfold assemble_bios. cbn [asm_elems first_fv_pol].
  destruct (asm_elems els pol) as [pol1| | |]; simpl; auto.
  destruct (first_fv_pol els) as [p|]; auto.
  destruct (set_polarity pol1 p) as [pol2| | |]; simpl; auto.
  pose proof (zlen_nonneg tail).
  rewrite zlen_zrepeat by lia.
  replace (zlen tail <=? len + zlen tail) with true by lia.
  replace (len + zlen tail) with (zlen tail + len) by lia.
  rewrite zrepeat_add by lia.
  assert (S : splice 0 tail (zrepeat pol2 (zlen tail) ++ zrepeat pol2 len) = tail ++ zrepeat pol2 len).
  { unfold splice. cbn [zfirstn Z.to_nat firstn app]. f_equal.
    rewrite Z.add_0_l. rewrite <- (zlen_zrepeat pol2 (zlen tail)) at 1 by lia.
    apply zskipn_app_exact. }
  rewrite S. rewrite bios_copy_prefix0.
  destruct (bios_copy els 0 (zrepeat pol2 len)); reflexivity.
Qed.

Lemma assemble_bios_result els len pol x :
  len = zlen (concat (map elem_buf els)) -> assemble_bios els len pol = Ok x ->
  fst x = concat (map elem_buf els).
Proof.
  intros L. unfold assemble_bios.
  destruct (asm_elems els pol) as [pol1| | |]; simpl; try discriminate.
  destruct (first_fv_pol els) as [p|]; try discriminate.
  destruct (set_polarity pol1 p) as [pol2| | |]; simpl; try discriminate.
  rewrite bios_copy_full.
  - simpl. intros [= <-]. reflexivity.
  - rewrite zlen_zrepeat; auto. subst len. apply zlen_nonneg.
Qed.

(* ------------------------------------------------------------------ *)
(* Assemble: flash image                                               *)
(* ------------------------------------------------------------------ *)

Definition pair_of (r : region) : region * bytes := (r, region_buf r).

Lemma asm_regions_fst rs pol prs pol' : asm_regions rs pol = Ok (prs, pol') -> map fst prs = rs.
Proof.
  revert pol prs pol'. induction rs as [|r rs IH]; intros pol prs pol' H; simpl in H.
  - injection H as <- <-. reflexivity.
  - apply bind_ok in H as (x & Hx & H). apply bind_ok in H as (more & Hm & H).
    injection H as <- <-. destruct more as [m pm]. simpl. f_equal. eapply IH; eauto.
Qed.

Lemma asm_regions_plain rs pol : forallb (fun r => negb (is_bios r)) rs = true ->
  asm_regions rs pol = Ok (map pair_of rs, pol).
Proof.
  induction rs as [|r rs IH]; intros F; simpl in *; auto.
  apply andb_true_iff in F as [F1 F2].
  destruct r; try discriminate; simpl; rewrite IH by auto; reflexivity.
Qed.

Lemma asm_regions_app a b pol :
  asm_regions (a ++ b) pol =
  do x <- asm_regions a pol; do y <- asm_regions b (snd x); Ok (fst x ++ fst y, snd y).
Proof.
  revert pol. induction a as [|r a IH]; intros pol; simpl.
  - destruct (asm_regions b pol) as [[y py]| | |]; reflexivity.
  - destruct (match r with
              | RBios els len => assemble_bios els len pol
              | RME b0 _ _ => Ok (b0, pol)
              | RRaw _ b0 => Ok (b0, pol)
              | RGap _ b0 => Ok (b0, pol)
              end) as [x| | |]; simpl; auto.
    rewrite IH. destruct (asm_regions a (snd x)) as [xa| | |]; simpl; auto.
    destruct (asm_regions b (snd xa)) as [xb| | |]; simpl; auto.
Qed.

Lemma plain_nobios l : forallb plain l = true -> forallb (fun r => negb (is_bios r)) l = true.
Proof.
  induction l as [|r l IH]; simpl; auto. unfold plain at 1. intros H.
  apply andb_true_iff in H as [H1 H2]. apply andb_true_iff in H1 as [_ H1]. rewrite H1, IH; auto.
Qed.

Lemma plain_nome l : forallb plain l = true -> forallb (fun r => negb (is_me r)) l = true.
Proof.
  induction l as [|r l IH]; simpl; auto. unfold plain at 1. intros H.
  apply andb_true_iff in H as [H1 H2]. apply andb_true_iff in H1 as [H1 _]. rewrite H1, IH; auto.
Qed.

Lemma asm_regions_shape pre mb fp fso els bl post pol :
  forallb plain pre = true -> forallb plain post = true ->
  asm_regions (pre ++ RME mb fp fso :: RBios els bl :: post) pol =
  do x <- assemble_bios els bl pol;
  Ok (map pair_of pre ++ (RME mb fp fso, mb) :: (RBios els bl, fst x) :: map pair_of post, snd x).
Proof.
  intros P1 P2. rewrite asm_regions_app, asm_regions_plain by (apply plain_nobios; auto).
  cbn [bind fst snd asm_regions].
  destruct (assemble_bios els bl pol) as [x| | |]; simpl; auto.
  rewrite asm_regions_plain by (apply plain_nobios; auto). reflexivity.
Qed.

Lemma flash_chain_ok sl prs off e : chain sl (map fst prs) off = Some e ->
  flash_chain sl prs off = Ok (concat (map snd prs), e).
Proof.
  revert off. induction prs as [|[r b] prs IH]; intros off C; simpl in *.
  - injection C as <-. reflexivity.
  - destruct (base_off (region_fr sl r) =? off) eqn:E; [|discriminate].
    replace (base_off (region_fr sl r) <? off) with false by lia.
    replace (off <? base_off (region_fr sl r)) with false by lia.
    rewrite IH by auto. reflexivity.
Qed.

Lemma asc_sorted_map_inv {A B} (f : A -> B) (key : B -> Z) l :
  asc_sorted key (map f l) -> asc_sorted (fun x => key (f x)) l.
Proof.
  induction l as [|x l IH]; simpl; auto. intros [H S]. split; auto. destruct l; simpl in *; auto.
Qed.

Lemma save_general pol t prs pol' :
  asm_regions (t_regions t) pol = Ok (prs, pol') ->
  forallb (region_ok (t_slots t)) (t_regions t) = true ->
  chain (t_slots t) (t_regions t) ifd_desc_len = Some (t_size t) ->
  save pol t = if negb (fr_valid (slot (t_slots t) ifd_type_bios)) then Err E_NOBIOS
               else Ok (assemble_ifd t ++ concat (map snd prs)).
Proof.
  intros A F C. unfold save. rewrite A. cbn [bind fst snd].
  destruct (negb (fr_valid (slot (t_slots t) ifd_type_bios))); auto.
  pose proof (asm_regions_fst _ _ _ _ A) as M.
  rewrite sort_sorted.
  - rewrite (flash_chain_ok _ _ _ (t_size t)) by (rewrite M; auto).
    cbn [bind fst snd]. rewrite Z.eqb_refl. reflexivity.
  - apply (asc_sorted_map_inv fst (rkey (t_slots t))). rewrite M.
    eapply chain_sorted; eauto.
Qed.

Lemma concat_map_pair l : concat (map snd (map pair_of l)) = concat (map region_buf l).
Proof. rewrite map_map. reflexivity. Qed.

Lemma save_shape pol t pre mb fp fso els bl post :
  t_regions t = pre ++ RME mb fp fso :: RBios els bl :: post ->
  forallb plain pre = true -> forallb plain post = true ->
  forallb (region_ok (t_slots t)) (t_regions t) = true ->
  chain (t_slots t) (t_regions t) ifd_desc_len = Some (t_size t) ->
  save pol t =
  do x <- assemble_bios els bl pol;
  if negb (fr_valid (slot (t_slots t) ifd_type_bios)) then Err E_NOBIOS else
  Ok (assemble_ifd t ++ concat (map region_buf pre) ++ mb ++ fst x ++ concat (map region_buf post)).
Proof.
  intros R P1 P2 F C.
  pose proof (asm_regions_shape pre mb fp fso els bl post pol P1 P2) as A. rewrite <- R in A.
  destruct (assemble_bios els bl pol) as [x| | |] eqn:B; cbn [bind] in *.
  - rewrite (save_general _ _ _ _ A F C).
    destruct (negb (fr_valid (slot (t_slots t) ifd_type_bios))); auto.
    rewrite map_app, concat_app. cbn [map snd concat]. rewrite !concat_map_pair. reflexivity.
  - unfold save. rewrite A. reflexivity.
  - unfold save. rewrite A. reflexivity.
  - unfold save. rewrite A. reflexivity.
Qed.

(* ------------------------------------------------------------------ *)
(* finding the ME and BIOS regions                                     *)
(* ------------------------------------------------------------------ *)

Definition nome (l : list region) : bool := forallb (fun r => negb (is_me r)) l.
Definition nobios (l : list region) : bool := forallb (fun r => negb (is_bios r)) l.

Lemma last_me_spec rs i acc k b f : last_me rs i acc = Some (k, b, f) ->
  (acc = Some (k, b, f) /\ nome rs = true) \/
  (exists pre fp post, rs = pre ++ RME b fp f :: post /\ k = (i + length pre)%nat /\ nome post = true).
Proof.
  revert i acc. induction rs as [|r rs IH]; intros i acc H; simpl in H.
  - left. auto.
  - destruct r as [e l|b0 fp0 f0|j b0|fr b0].
    + destruct (IH _ _ H) as [[-> N]|(pre & fp & post & -> & -> & N)]; [left; auto|].
      right. exists (RBios e l :: pre), fp, post. simpl. repeat split; auto; try lia.
    + destruct (IH _ _ H) as [[E N]|(pre & fp & post & -> & -> & N)].
      * injection E as <- <- <-. right. exists [], fp0, rs. simpl. repeat split; auto; try lia.
      * right. exists (RME b0 fp0 f0 :: pre), fp, post. simpl. repeat split; auto; try lia.
    + destruct (IH _ _ H) as [[-> N]|(pre & fp & post & -> & -> & N)]; [left; auto|].
      right. exists (RRaw j b0 :: pre), fp, post. simpl. repeat split; auto; try lia.
    + destruct (IH _ _ H) as [[-> N]|(pre & fp & post & -> & -> & N)]; [left; auto|].
      right. exists (RGap fr b0 :: pre), fp, post. simpl. repeat split; auto; try lia.
Qed.

Lemma last_bios_spec rs i acc k e l : last_bios rs i acc = Some (k, e, l) ->
  (acc = Some (k, e, l) /\ nobios rs = true) \/
  (exists pre post, rs = pre ++ RBios e l :: post /\ k = (i + length pre)%nat /\ nobios post = true).
Proof.
  revert i acc. induction rs as [|r rs IH]; intros i acc H; simpl in H.
  - left. auto.
  - destruct r as [e0 l0|b0 fp0 f0|j b0|fr b0].
    + destruct (IH _ _ H) as [[E N]|(pre & post & -> & -> & N)].
      * injection E as <- <- <-. right. exists [], rs. simpl. repeat split; auto; try lia.
      * right. exists (RBios e0 l0 :: pre), post. simpl. repeat split; auto; try lia.
    + destruct (IH _ _ H) as [[-> N]|(pre & post & -> & -> & N)]; [left; auto|].
      right. exists (RME b0 fp0 f0 :: pre), post. simpl. repeat split; auto; try lia.
    + destruct (IH _ _ H) as [[-> N]|(pre & post & -> & -> & N)]; [left; auto|].
      right. exists (RRaw j b0 :: pre), post. simpl. repeat split; auto; try lia.
    + destruct (IH _ _ H) as [[-> N]|(pre & post & -> & -> & N)]; [left; auto|].
      right. exists (RGap fr b0 :: pre), post. simpl. repeat split; auto; try lia.
Qed.

Lemma last_me_some rs j x : last_me rs j (Some x) <> None.
Proof.
  revert j x. induction rs as [|r rs IH]; intros j x; simpl; [discriminate|]. destruct r; auto.
Qed.

Lemma last_bios_some rs j x : last_bios rs j (Some x) <> None.
Proof.
  revert j x. induction rs as [|r rs IH]; intros j x; simpl; [discriminate|]. destruct r; auto.
Qed.

Lemma last_me_none rs i acc : last_me rs i acc = None -> nome rs = true.
Proof.
  revert i acc. induction rs as [|r rs IH]; intros i acc H; simpl in *; auto.
  destruct r; simpl; eauto. exfalso. eapply last_me_some; eauto.
Qed.

Lemma last_bios_none rs i acc : last_bios rs i acc = None -> nobios rs = true.
Proof.
  revert i acc. induction rs as [|r rs IH]; intros i acc H; simpl in *; auto.
  destruct r; simpl; eauto. exfalso. eapply last_bios_some; eauto.
Qed.

Lemma count_me_zero l : count is_me l = 0 -> nome l = true.
Proof. apply count_zero. Qed.
Lemma count_bios_zero l : count is_bios l = 0 -> nobios l = true.
Proof. apply count_zero. Qed.

Lemma find_me rs k b f : last_me rs O None = Some (k, b, f) -> count is_me rs <= 1 ->
  exists pre fp post, rs = pre ++ RME b fp f :: post /\ k = length pre /\
                      nome pre = true /\ nome post = true.
Proof.
  intros H C. destruct (last_me_spec _ _ _ _ _ _ H) as [[E _]|(pre & fp & post & -> & -> & N)];
    [discriminate|].
  exists pre, fp, post. repeat split; auto.
  rewrite count_app, count_cons in C. cbn [is_me] in C.
  pose proof (count_nonneg is_me pre). pose proof (count_nonneg is_me post).
  apply count_me_zero. lia.
Qed.

Lemma find_bios rs k e l : last_bios rs O None = Some (k, e, l) -> count is_bios rs <= 1 ->
  exists pre post, rs = pre ++ RBios e l :: post /\ k = length pre /\
                   nobios pre = true /\ nobios post = true.
Proof.
  intros H C. destruct (last_bios_spec _ _ _ _ _ _ H) as [[E _]|(pre & post & -> & -> & N)];
    [discriminate|].
  exists pre, post. repeat split; auto.
  rewrite count_app, count_cons in C. cbn [is_bios] in C.
  pose proof (count_nonneg is_bios pre). pose proof (count_nonneg is_bios post).
  apply count_bios_zero. lia.
Qed.

Lemma forallb_app' {A} (p : A -> bool) a b : forallb p (a ++ b) = true ->
  forallb p a = true /\ forallb p b = true.
Proof. rewrite forallb_app. intros H. apply andb_true_iff in H. auto. Qed.

Lemma plain_of l : nome l = true -> nobios l = true -> forallb plain l = true.
Proof.
  unfold nome, nobios, plain. induction l as [|r l IH]; simpl; auto. intros H1 H2.
  apply andb_true_iff in H1 as [A1 A2]. apply andb_true_iff in H2 as [B1 B2].
  rewrite A1, B1, IH; auto.
Qed.

Lemma chain_mid sl p x q off e : chain sl (p ++ x :: q) off = Some e ->
  exists a, chain sl p off = Some a /\ base_off (region_fr sl x) = a /\
            chain sl q (end_off (region_fr sl x)) = Some e.
Proof.
  rewrite chain_app. destruct (chain sl p off) as [a|]; [|discriminate]. simpl.
  destruct (base_off (region_fr sl x) =? a) eqn:E; [|discriminate]. intros H.
  exists a. repeat split; auto. lia.
Qed.

(* in a well-formed tree with adjacent ME and BIOS regions, BIOS directly follows ME *)
Lemma shape sl rs size k b f k2 e l :
  forallb (region_ok sl) rs = true -> chain sl rs ifd_desc_len = Some size ->
  count is_me rs <= 1 -> count is_bios rs <= 1 ->
  last_me rs O None = Some (k, b, f) -> last_bios rs O None = Some (k2, e, l) ->
  end_off (slot sl ifd_type_me) = base_off (slot sl ifd_type_bios) ->
  exists pre fp post, rs = pre ++ RME b fp f :: RBios e l :: post /\
    k = length pre /\ k2 = S (length pre) /\
    forallb plain pre = true /\ forallb plain post = true.
Proof.
  intros F C C1 C2 HM HB ADJ.
  destruct (find_me _ _ _ _ HM C1) as (p1 & fp & q1 & R1 & K1 & N1 & N1').
  destruct (find_bios _ _ _ _ HB C2) as (p2 & q2 & R2 & K2 & N2 & N2').
  assert (NE : RME b fp f <> RBios e l) by discriminate.
  rewrite R1 in R2. destruct (split_two _ _ _ _ _ _ NE R2) as [(m & -> & ->)|(m & -> & ->)].
  - (* ME ... BIOS *)
    assert (m = []) as ->.
    { destruct m as [|r m]; auto. exfalso.
      rewrite R1 in C, F.
      apply chain_mid in C as (a & _ & _ & C).
      change (r :: m ++ RBios e l :: q2) with ((r :: m) ++ RBios e l :: q2) in C.
      apply chain_mid in C as (c & C & BB & _).
      apply forallb_app' in F as [_ F]. cbn [forallb] in F. apply andb_true_iff in F as [_ F].
      change (r :: m ++ RBios e l :: q2) with ((r :: m) ++ RBios e l :: q2) in F.
      apply forallb_app' in F as [F _].
      unfold nome in N1'. change (r :: m ++ RBios e l :: q2) with ((r :: m) ++ RBios e l :: q2) in N1'.
      apply forallb_app' in N1' as [N1' _].
      pose proof (chain_lt _ _ _ _ F N1' ltac:(discriminate) C). simpl in BB, H. lia. }
    cbn [app] in *. exists p1, fp, q2.
    split; [exact R1|]. split; [exact K1|].
    split; [rewrite K2, app_length; simpl; lia|]. split.
    + apply plain_of; [exact N1|]. unfold nobios in N2. apply forallb_app' in N2 as [N2 _]. exact N2.
    + apply plain_of; [|exact N2']. unfold nome in N1'. cbn [forallb] in N1'.
      apply andb_true_iff in N1' as [_ N1']. exact N1'.
  - (* BIOS ... ME: impossible *)
    exfalso. rewrite R1 in C, F. rewrite <- app_assoc in C, F. cbn [app] in C, F.
    apply chain_mid in C as (a & _ & BB & C).
    apply chain_mid in C as (c & C & BM & _).
    apply forallb_app' in F as [_ F]. cbn [forallb] in F. apply andb_true_iff in F as [FB F].
    apply forallb_app' in F as [Fm F]. cbn [forallb] in F. apply andb_true_iff in F as [FM _].
    pose proof (chain_le _ _ _ _ Fm C).
    pose proof (region_ok_lt _ _ FB eq_refl).
    pose proof (region_ok_le _ _ FM). simpl in *. lia.
Qed.

(* ------------------------------------------------------------------ *)
(* what tighten_me does to a well-formed tree                          *)
(* ------------------------------------------------------------------ *)

Lemma U16_eq : U16 = 65536. Proof. reflexivity. Qed.
Lemma U64_eq : U64 = 18446744073709551616. Proof. reflexivity. Qed.

Lemma zfirstn_all {A} (l : list A) : zfirstn (zlen l) l = l.
Proof. unfold zfirstn, zlen. rewrite Nat2Z.id. apply firstn_all. Qed.

Lemma slice_tail bo (mb tail : bytes) : slice bo (zlen mb) mb = Some tail ->
  0 <= bo <= zlen mb /\ tail = zskipn bo mb.
Proof.
  intros H. apply slice_some in H as (H1 & H2 & ->). split; [lia|].
  unfold sub. rewrite <- (zlen_zskipn bo mb) by lia. apply zfirstn_all.
Qed.

Lemma slice_tail_ok bo (mb : bytes) : 0 <= bo <= zlen mb -> slice bo (zlen mb) mb = Some (zskipn bo mb).
Proof.
  intros H. rewrite slice_ok by lia. f_equal.
  unfold sub. rewrite <- (zlen_zskipn bo mb) by lia. apply zfirstn_all.
Qed.

Lemma wf_slots t : wf_tree t -> exists f0 f1 rest, t_slots t = f0 :: f1 :: rest.
Proof.
  intros (_ & L & _). destruct (t_slots t) as [|f0 [|f1 rest]]; simpl in L; try (vm_compute in L; lia).
  eauto.
Qed.

(* the tree after a successful tighten_me, in closed form *)
Definition tightened (t : tree) f0 f1 rest pre mb fp fso els bl post : tree :=
  let ub := tm_update_base f1 fso in
  let bo := tm_buf_offset f1 fso in
  mkTree (t_ifd t) (t_dms t) (t_rs t) (t_ms t) (t_dmap t) (t_erase t)
    (mkFR ub (fr_limit f0) :: mkFR (fr_base f1) (ub - 1) :: rest) (t_master t)
    (pre ++ RME (zfirstn bo mb) fp fso ::
            RBios (BPad (zskipn bo mb) 0 :: map (shift_elem (zlen mb - bo)) els) (bl + (zlen mb - bo)) :: post)
    (t_size t).

Record tm_facts (pol : Z) (t : tree) f0 f1 rest pre mb fp fso els bl post : Prop := {
  tf_slots : t_slots t = f0 :: f1 :: rest;
  tf_regions : t_regions t = pre ++ RME mb fp fso :: RBios els bl :: post;
  tf_pre : forallb plain pre = true;
  tf_post : forallb plain post = true;
  tf_adj : end_off f1 = base_off f0;
  tf_ub : fr_base f1 <= tm_update_base f1 fso <= fr_limit f1 + 1;
  tf_base : 1 <= fr_base f1;
  tf_bo : 0 <= tm_buf_offset f1 fso <= zlen mb;
  tf_bo_eq : tm_buf_offset f1 fso = (tm_update_base f1 fso - fr_base f1) * 4096;
  tf_erased : is_erased (zskipn (tm_buf_offset f1 fso) mb) pol = true
}.

Lemma wf_me_facts t f0 f1 rest pre mb fp fso els bl post :
  wf_tree t -> t_slots t = f0 :: f1 :: rest ->
  t_regions t = pre ++ RME mb fp fso :: RBios els bl :: post ->
  fr_ok f0 = true /\ fr_ok f1 = true /\ 1 <= fr_base f1 /\
  zlen mb = end_off f1 - base_off f1 /\
  (fr_base f1 <= fr_limit f1 + 1) /\
  bl = zlen (concat (map elem_buf els)) /\ bl = end_off f0 - base_off f0 /\ fr_base f0 <= fr_limit f0.
Proof.
  intros (_ & _ & _ & F & C & _) S R. rewrite S, R in *.
  pose proof F as F'.
  apply forallb_app' in F as [Fp F]. cbn [forallb] in F.
  apply andb_true_iff in F as [FM F]. apply andb_true_iff in F as [FB _].
  apply region_ok_spec in FM as (M1 & M2 & M3 & _).
  apply region_ok_spec in FB as (B1 & B2 & B3 & B4).
  cbn [region_fr region_buf is_me] in *. rewrite slot_1 in *. rewrite slot_0 in *.
  apply chain_mid in C as (a & C & BM & _). apply chain_le in C; auto.
  cbn [region_fr] in BM. rewrite slot_1 in BM.
  repeat split; auto.
  - unfold base_off in BM. consts. lia.
  - lia.
  - lia.
  - destruct B2 as [B2|[B2 _]]; [lia|discriminate].
Qed.

Lemma tm_inv pol t t' : wf_tree t -> tm pol t = Ok t' ->
  exists f0 f1 rest pre mb fp fso els bl post,
    tm_facts pol t f0 f1 rest pre mb fp fso els bl post /\
    t' = tightened t f0 f1 rest pre mb fp fso els bl post.
Proof.
  intros W H. destruct (wf_slots _ W) as (f0 & f1 & rest & S).
  pose proof W as (_ & _ & _ & F & C & C1 & C2).
  unfold tm in H.
  destruct (last_me (t_regions t) 0 None) as [[[im mb] fso]|] eqn:LM; [|discriminate].
  destruct (last_bios (t_regions t) 0 None) as [[[ib els] bl]|] eqn:LB; [|discriminate].
  rewrite S in H. rewrite slot_1, slot_0 in H.
  destruct (end_off f1 =? base_off f0) eqn:ADJ; cbn [negb] in H; [|discriminate].
  fold (tm_update_base f1 fso) in H.
  change (tm_update_base f1 fso * ifd_block - base_off f1) with (tm_buf_offset f1 fso) in H.
  destruct (slice (tm_buf_offset f1 fso) (zlen mb) mb) as [tail|] eqn:SL; [|discriminate].
  destruct (is_erased tail pol) eqn:ER; cbn [negb] in H; [|discriminate].
  apply slice_tail in SL as [BO ->].
  assert (ADJ' : end_off (slot (t_slots t) ifd_type_me) = base_off (slot (t_slots t) ifd_type_bios))
    by (rewrite S, slot_1, slot_0; lia).
  destruct (shape _ _ _ _ _ _ _ _ _ F C C1 C2 LM LB ADJ') as (pre & fp & post & R & -> & -> & P1 & P2).
  destruct (wf_me_facts _ _ _ _ _ _ _ _ _ _ _ W S R) as (O0 & O1 & B1 & LM' & BL & E1 & E2 & BL0).
  apply fr_ok_spec in O0, O1.
  assert (BOE : tm_buf_offset f1 fso = (tm_update_base f1 fso - fr_base f1) * 4096).
  { unfold tm_buf_offset, base_off. consts. lia. }
  assert (UB : fr_base f1 <= tm_update_base f1 fso <= fr_limit f1 + 1).
  { rewrite BOE in BO. rewrite LM' in BO. unfold end_off, base_off in BO. consts. lia. }
  assert (ADJZ : fr_limit f1 + 1 = fr_base f0).
  { unfold end_off, base_off in ADJ. consts. lia. }
  exists f0, f1, rest, pre, mb, fp, fso, els, bl, post. split.
  - constructor; auto. lia.
  - rewrite set_limit_me, slot_0, set_base_bios in H. cbn [fr_base fr_limit] in H.
    rewrite R, nth_app_here in H. cbn [set_me_buf] in H.
    rewrite upd_nth_app_here, upd_nth_app_next in H.
    injection H as <-. unfold tightened.
    rewrite U16_eq, U64_eq.
    rewrite (Z.mod_small (tm_update_base f1 fso - 1)) by lia.
    rewrite (Z.mod_small (tm_update_base f1 fso)) by lia.
    assert (SH : (base_off f0 - tm_update_base f1 fso * ifd_block) mod 18446744073709551616 =
                 zlen mb - tm_buf_offset f1 fso).
    { rewrite LM', BOE. unfold end_off, base_off in *. consts. rewrite Z.mod_small; lia. }
    rewrite SH.
    rewrite (Z.mod_small (bl + _)).
    + reflexivity.
    + rewrite E2. rewrite LM', BOE. unfold end_off, base_off in *. consts. lia.
Qed.

(* ---- the closed form, computed without well-formedness ---- *)

Lemma last_me_app a b i acc :
  last_me (a ++ b) i acc = last_me b (i + length a)%nat (last_me a i acc).
Proof.
  revert i acc. induction a as [|r a IH]; intros i acc; simpl.
  - rewrite Nat.add_0_r. reflexivity.
  - destruct r; rewrite IH; f_equal; lia.
Qed.

Lemma last_bios_app a b i acc :
  last_bios (a ++ b) i acc = last_bios b (i + length a)%nat (last_bios a i acc).
Proof.
  revert i acc. induction a as [|r a IH]; intros i acc; simpl.
  - rewrite Nat.add_0_r. reflexivity.
  - destruct r; rewrite IH; f_equal; lia.
Qed.

Lemma last_me_nome l i acc : nome l = true -> last_me l i acc = acc.
Proof.
  revert i. induction l as [|r l IH]; intros i N; simpl in *; auto.
  apply andb_true_iff in N as [N1 N2]. destruct r; try discriminate; auto.
Qed.

Lemma last_bios_nobios l i acc : nobios l = true -> last_bios l i acc = acc.
Proof.
  revert i. induction l as [|r l IH]; intros i N; simpl in *; auto.
  apply andb_true_iff in N as [N1 N2]. destruct r; try discriminate; auto.
Qed.

Lemma tm_shape pol t f0 f1 rest pre mb fp fso els bl post :
  t_slots t = f0 :: f1 :: rest ->
  t_regions t = pre ++ RME mb fp fso :: RBios els bl :: post ->
  forallb plain pre = true -> forallb plain post = true ->
  tm pol t =
  if negb (end_off f1 =? base_off f0) then Err E_NONADJ else
  let ub := tm_update_base f1 fso in
  let bo := tm_buf_offset f1 fso in
  match slice bo (zlen mb) mb with
  | None => Panic 1
  | Some tail =>
    if negb (is_erased tail pol) then Err E_NOTERASED else
    let shift := (base_off f0 - ub * ifd_block) mod U64 in
    Ok (mkTree (t_ifd t) (t_dms t) (t_rs t) (t_ms t) (t_dmap t) (t_erase t)
          (mkFR (ub mod U16) (fr_limit f0) :: mkFR (fr_base f1) ((ub - 1) mod U16) :: rest) (t_master t)
          (pre ++ RME (zfirstn bo mb) fp fso ::
                  RBios (BPad tail 0 :: map (shift_elem shift) els) ((bl + shift) mod U64) :: post)
          (t_size t))
  end.
Proof.
  intros HS R P1 P2. unfold tm. rewrite R.
  rewrite last_me_app. rewrite (last_me_nome pre) by (apply plain_nome; auto).
  cbn [last_me]. rewrite (last_me_nome post) by (apply plain_nome; auto).
  rewrite last_bios_app. rewrite (last_bios_nobios pre) by (apply plain_nobios; auto).
  cbn [last_bios]. rewrite (last_bios_nobios post) by (apply plain_nobios; auto).
  rewrite HS, slot_1, slot_0.
  destruct (negb (end_off f1 =? base_off f0)); auto.
  fold (tm_update_base f1 fso).
  change (tm_update_base f1 fso * ifd_block - base_off f1) with (tm_buf_offset f1 fso).
  cbv zeta.
  destruct (slice (tm_buf_offset f1 fso) (zlen mb) mb) as [tail|]; auto.
  destruct (negb (is_erased tail pol)); auto.
  rewrite set_limit_me, slot_0, set_base_bios. cbn [fr_base fr_limit].
  replace (0 + length pre)%nat with (length pre) by lia.
  replace (0 + length pre + 1)%nat with (S (length pre)) by lia.
  rewrite nth_app_here. cbn [set_me_buf]. rewrite upd_nth_app_here, upd_nth_app_next.
  reflexivity.
Qed.

Lemma tm_ok pol t f0 f1 rest pre mb fp fso els bl post :
  wf_tree t -> t_slots t = f0 :: f1 :: rest ->
  t_regions t = pre ++ RME mb fp fso :: RBios els bl :: post ->
  forallb plain pre = true -> forallb plain post = true ->
  end_off f1 = base_off f0 -> 0 <= tm_buf_offset f1 fso <= zlen mb ->
  is_erased (zskipn (tm_buf_offset f1 fso) mb) pol = true ->
  tm pol t = Ok (tightened t f0 f1 rest pre mb fp fso els bl post).
Proof.
  intros W S R P1 P2 ADJ BO ER.
  rewrite (tm_shape pol t f0 f1 rest pre mb fp fso els bl post S R P1 P2).
  replace (end_off f1 =? base_off f0) with true by lia. cbn [negb]. cbv zeta.
  rewrite slice_tail_ok by lia. rewrite ER. cbn [negb].
  destruct (wf_me_facts _ _ _ _ _ _ _ _ _ _ _ W S R) as (O0 & O1 & B1 & LM' & BL & E1 & E2 & BL0).
  apply fr_ok_spec in O0, O1.
  assert (BOE : tm_buf_offset f1 fso = (tm_update_base f1 fso - fr_base f1) * 4096).
  { unfold tm_buf_offset, base_off. consts. lia. }
  assert (UB : fr_base f1 <= tm_update_base f1 fso <= fr_limit f1 + 1).
  { rewrite BOE in BO. rewrite LM' in BO. unfold end_off, base_off in BO. consts. lia. }
  assert (ADJZ : fr_limit f1 + 1 = fr_base f0).
  { unfold end_off, base_off in ADJ. consts. lia. }
  unfold tightened. rewrite U16_eq, U64_eq.
  rewrite (Z.mod_small (tm_update_base f1 fso - 1)) by lia.
  rewrite (Z.mod_small (tm_update_base f1 fso)) by lia.
  assert (SH : (base_off f0 - tm_update_base f1 fso * ifd_block) mod 18446744073709551616 =
               zlen mb - tm_buf_offset f1 fso).
  { rewrite LM', BOE. unfold end_off, base_off in *. consts. rewrite Z.mod_small; lia. }
  rewrite SH.
  rewrite (Z.mod_small (bl + _)).
  - reflexivity.
  - rewrite E2. rewrite LM', BOE. unfold end_off, base_off in *. consts. lia.
Qed.

Lemma existsb_nome l : existsb is_me l = true -> nome l = false.
Proof.
  unfold nome. induction l as [|r l IH]; simpl; [discriminate|].
  destruct (is_me r); simpl; auto.
Qed.
Lemma existsb_nobios l : existsb is_bios l = true -> nobios l = false.
Proof.
  unfold nobios. induction l as [|r l IH]; simpl; [discriminate|].
  destruct (is_bios r); simpl; auto.
Qed.

Lemma tm_nonadjacent pol t :
  existsb is_me (t_regions t) = true -> existsb is_bios (t_regions t) = true ->
  end_off (slot (t_slots t) ifd_type_me) <> base_off (slot (t_slots t) ifd_type_bios) ->
  tm pol t = Err E_NONADJ.
Proof.
  intros M B N. unfold tm.
  destruct (last_me (t_regions t) 0 None) as [[[im mb] fso]|] eqn:LM.
  2:{ apply last_me_none in LM. apply existsb_nome in M. congruence. }
  destruct (last_bios (t_regions t) 0 None) as [[[ib els] bl]|] eqn:LB.
  2:{ apply last_bios_none in LB. apply existsb_nobios in B. congruence. }
  replace (end_off (slot (t_slots t) ifd_type_me) =? base_off (slot (t_slots t) ifd_type_bios))
    with false by lia.
  reflexivity.
Qed.

(* ---- well-formedness is kept ---- *)

Lemma region_plain_idx sl r : region_ok sl r = true ->
  match r with RRaw i _ => 2 <= i | _ => True end.
Proof. intros H. apply region_ok_spec in H as (_ & _ & _ & H). destruct r; auto. lia. Qed.

Lemma region_ok_plain a b a' b' l r : plain r = true ->
  region_ok (a :: b :: l) r = true -> region_ok (a' :: b' :: l) r = true.
Proof.
  intros P H. pose proof (region_plain_idx _ _ H) as I.
  unfold region_ok in *. rewrite <- (region_fr_plain a b a' b' l r P I). exact H.
Qed.

Lemma forallb_region_ok_plain a b a' b' l rs : forallb plain rs = true ->
  forallb (region_ok (a :: b :: l)) rs = true -> forallb (region_ok (a' :: b' :: l)) rs = true.
Proof.
  induction rs as [|r rs IH]; simpl; auto. intros P F.
  apply andb_true_iff in P as [P1 P2]. apply andb_true_iff in F as [F1 F2].
  rewrite (region_ok_plain a b a' b' l r P1 F1), IH; auto.
Qed.

Lemma chain_plain a b a' b' l rs off : forallb plain rs = true ->
  forallb (region_ok (a :: b :: l)) rs = true ->
  chain (a' :: b' :: l) rs off = chain (a :: b :: l) rs off.
Proof.
  revert off. induction rs as [|r rs IH]; intros off P F; simpl in *; auto.
  apply andb_true_iff in P as [P1 P2]. apply andb_true_iff in F as [F1 F2].
  rewrite <- (region_fr_plain a b a' b' l r P1 (region_plain_idx _ _ F1)).
  destruct (base_off (region_fr (a :: b :: l) r) =? off); auto.
Qed.

Lemma count_plain p l : (forall r, plain r = true -> p r = false) -> forallb plain l = true -> count p l = 0.
Proof.
  intros Hp. induction l as [|r l IH]; intros F; simpl in *; [reflexivity|].
  apply andb_true_iff in F as [F1 F2]. rewrite count_cons, (Hp _ F1), IH; auto.
Qed.

Lemma zlen_concat_shift s els :
  zlen (concat (map elem_buf (map (shift_elem s) els))) = zlen (concat (map elem_buf els)).
Proof. rewrite map_elem_buf_shift. reflexivity. Qed.

(* [lia] (zify) is very slow in the presence of hypotheses [forallb (region_ok ..) .. = true] *)
Ltac nobool :=
  repeat match goal with
         | H : forallb _ _ = true |- _ => clear H
         | H : region_ok _ _ = true |- _ => clear H
         end.

Lemma region_ok_intro sl r :
  let fr := region_fr sl r in
  0 <= fr_base fr < 65536 -> 0 <= fr_limit fr < 65536 ->
  (fr_base fr <= fr_limit fr \/ (is_me r = true /\ fr_base fr = fr_limit fr + 1)) ->
  zlen (region_buf r) = end_off fr - base_off fr ->
  match r with
  | RBios els len => len = zlen (concat (map elem_buf els))
  | RME _ (Some es) fso => fso = fso_of es
  | RME _ None fso => fso = 0
  | RRaw i _ => 2 <= i < ifd_nslots
  | RGap _ _ => True
  end ->
  region_ok sl r = true.
Proof.
  intros fr H1 H2 H3 H4 H5. unfold region_ok. fold fr.
  apply andb_true_iff; split; [apply andb_true_iff; split; [apply andb_true_iff; split|]|].
  - unfold fr_ok. rewrite U16_eq. lia.
  - apply orb_true_iff. destruct H3 as [H3|[H3 H3']]; [left; lia|right; rewrite H3; lia].
  - lia.
  - destruct r as [els len|b [es|] f|i b|g b]; try lia; reflexivity.
Qed.

Lemma tightened_wf pol t f0 f1 rest pre mb fp fso els bl post :
  wf_tree t -> tm_facts pol t f0 f1 rest pre mb fp fso els bl post ->
  wf_tree (tightened t f0 f1 rest pre mb fp fso els bl post).
Proof.
  intros W [S R P1 P2 ADJ UB B1 BO BOE ER].
  destruct (wf_me_facts _ _ _ _ _ _ _ _ _ _ _ W S R) as (O0 & O1 & _ & LM' & BL & E1 & E2 & BL0).
  pose proof W as (W1 & W2 & W3 & F & C & C1 & C2).
  rewrite S, R in *.
  pose proof (fr_ok_spec _ O0) as O0'. pose proof (fr_ok_spec _ O1) as O1'.
  assert (ADJZ : fr_limit f1 + 1 = fr_base f0).
  { unfold end_off, base_off in ADJ. consts. lia. }
  set (ub := tm_update_base f1 fso) in *. set (bo := tm_buf_offset f1 fso) in *.
  apply forallb_app' in F as [Fp F]. cbn [forallb] in F.
  apply andb_true_iff in F as [FM F]. apply andb_true_iff in F as [FB Fq].
  unfold wf_tree, tightened. cbn [t_ifd t_slots t_regions t_size]. fold ub bo.
  unfold end_off, base_off in ADJ, E2, LM'. change ifd_block with 4096 in ADJ, E2, LM'.
  clearbody ub bo. clear W ER.
  apply region_ok_spec in FM as (_ & _ & _ & M4). clear FB.
  split; [exact W1|]. split; [exact W2|]. split.
  { cbn [forallb] in *. apply andb_true_iff in W3 as [_ W3]. apply andb_true_iff in W3 as [_ W3].
    rewrite W3, andb_true_r. unfold fr_ok. cbn [fr_base fr_limit]. rewrite U16_eq. nobool.
    apply andb_true_iff; split; repeat (apply andb_true_iff; split); lia. }
  split.
  { rewrite forallb_app. cbn [forallb].
    rewrite (forallb_region_ok_plain f0 f1 _ _ rest pre P1 Fp).
    rewrite (forallb_region_ok_plain f0 f1 _ _ rest post P2 Fq).
    rewrite !andb_true_r. cbn [andb]. nobool.
    apply andb_true_iff. split.
    - apply region_ok_intro; cbn [region_fr region_buf is_me]; rewrite ?slot_1;
        unfold end_off, base_off; cbn [fr_base fr_limit]; change ifd_block with 4096; try lia.
      + rewrite zlen_zfirstn by lia. lia.
      + exact M4.
    - apply region_ok_intro; cbn [region_fr region_buf is_me map concat elem_buf]; rewrite ?slot_0;
        unfold end_off, base_off; cbn [fr_base fr_limit]; change ifd_block with 4096; try lia.
      + rewrite zlen_app, zlen_concat_shift, zlen_zskipn by lia. lia.
      + rewrite zlen_app, zlen_concat_shift, zlen_zskipn by lia. lia. }
  split.
  { apply chain_mid in C as (a & Cp & BM & C).
    cbn [chain] in C. cbn [region_fr] in BM, C. rewrite slot_1 in *. rewrite slot_0 in C.
    destruct (base_off f0 =? end_off f1) eqn:E; [|discriminate].
    rewrite chain_app. rewrite (chain_plain f0 f1 _ _ rest pre _ P1 Fp). rewrite Cp.
    cbn [chain region_fr]. rewrite slot_1, slot_0.
    unfold base_off, end_off in *. cbn [fr_base fr_limit].
    rewrite BM, Z.eqb_refl.
    replace ((ub - 1 + 1) * ifd_block) with (ub * ifd_block) by (f_equal; lia).
    rewrite Z.eqb_refl.
    rewrite (chain_plain f0 f1 _ _ rest post _ P2 Fq). exact C. }
  rewrite !count_app, !count_cons in *. cbn [is_me is_bios] in *. lia.
Qed.

Lemma tm_wf pol t t' : wf_tree t -> tm pol t = Ok t' -> wf_tree t'.
Proof.
  intros W H. destruct (tm_inv _ _ _ W H) as (f0 & f1 & rest & pre & mb & fp & fso & els & bl & post & TF & ->).
  eapply tightened_wf; eauto.
Qed.

(* ------------------------------------------------------------------ *)
(* saved bytes before and after tighten_me                             *)
(* ------------------------------------------------------------------ *)

Definition body (t : tree) : bytes := concat (map region_buf (t_regions t)).

Lemma asm_regions_bufs sl rs pol prs pol' : forallb (region_ok sl) rs = true ->
  asm_regions rs pol = Ok (prs, pol') -> map snd prs = map region_buf rs.
Proof.
  revert pol prs pol'. induction rs as [|r rs IH]; intros pol prs pol' F H; simpl in H.
  - injection H as <- <-. reflexivity.
  - simpl in F. apply andb_true_iff in F as [F1 F2].
    apply bind_ok in H as (x & Hx & H). apply bind_ok in H as ([m pm] & Hm & H).
    injection H as <- <-. cbn [map snd fst]. f_equal.
    + destruct r as [els len|b fp f|i b|fr b]; try (injection Hx as <-; reflexivity).
      apply region_ok_spec in F1 as (_ & _ & _ & L). cbn [region_buf].
      eapply assemble_bios_result; eauto.
    + eapply IH; eauto.
Qed.

Lemma save_ok_body pol t o : wf_tree t -> save pol t = Ok o -> o = assemble_ifd t ++ body t.
Proof.
  intros (_ & _ & _ & F & C & _) H.
  destruct (asm_regions (t_regions t) pol) as [[prs pol']| | |] eqn:A;
    try (unfold save in H; rewrite A in H; discriminate).
  rewrite (save_general _ _ _ _ A F C) in H.
  destruct (negb (fr_valid (slot (t_slots t) ifd_type_bios))); [discriminate|].
  injection H as <-. unfold body. rewrite <- (asm_regions_bufs _ _ _ _ _ F A). reflexivity.
Qed.

Lemma body_tightened t f0 f1 rest pre mb fp fso els bl post :
  t_regions t = pre ++ RME mb fp fso :: RBios els bl :: post ->
  body (tightened t f0 f1 rest pre mb fp fso els bl post) = body t.
Proof.
  intros R. unfold body, tightened. cbn [t_regions]. rewrite R.
  rewrite !map_app, !concat_app. cbn [map concat region_buf elem_buf].
  rewrite map_elem_buf_shift. rewrite <- !app_assoc.
  f_equal. rewrite (app_assoc (zfirstn _ mb)). rewrite zfirstn_zskipn. reflexivity.
Qed.

Lemma fr_valid_tightened f0 ub : fr_ok f0 = true -> fr_base f0 <= fr_limit f0 -> 0 <= ub <= fr_base f0 ->
  fr_valid (mkFR ub (fr_limit f0)) = fr_valid f0.
Proof.
  intros O L U. apply fr_ok_spec in O. unfold fr_valid. cbn [fr_base fr_limit]. lia.
Qed.

(* both saves fail alike, or succeed with the same bytes after the descriptor *)
Lemma save_pair pol t f0 f1 rest pre mb fp fso els bl post :
  wf_tree t -> tm_facts pol t f0 f1 rest pre mb fp fso els bl post ->
  let t' := tightened t f0 f1 rest pre mb fp fso els bl post in
  exists ob : outcome bytes,
    save pol t = omap (app (assemble_ifd t)) ob /\ save pol t' = omap (app (assemble_ifd t')) ob.
Proof.
  intros W TF t'. pose proof (tightened_wf _ _ _ _ _ _ _ _ _ _ _ _ W TF) as W'. fold t' in W'.
  destruct TF as [S R P1 P2 ADJ UB B1 BO BOE ER].
  destruct (wf_me_facts _ _ _ _ _ _ _ _ _ _ _ W S R) as (O0 & O1 & _ & LM' & BL & E1 & E2 & BL0).
  pose proof W as (_ & _ & _ & F & C & _). pose proof W' as (_ & _ & _ & F' & C' & _).
  assert (ADJZ : fr_limit f1 + 1 = fr_base f0).
  { unfold end_off, base_off in ADJ. consts. lia. }
  rewrite (save_shape pol t pre mb fp fso els bl post R P1 P2 F C).
  rewrite (save_shape pol t' pre _ fp fso _ _ post eq_refl P1 P2 F' C').
  replace (bl + (zlen mb - tm_buf_offset f1 fso)) with (bl + zlen (zskipn (tm_buf_offset f1 fso) mb))
    by (rewrite zlen_zskipn by lia; reflexivity).
  rewrite assemble_bios_pad by (rewrite E1; apply zlen_nonneg).
  rewrite assemble_bios_shift.
  unfold t' at 1. unfold tightened at 1. cbn [t_slots]. rewrite S, !slot_0.
  rewrite fr_valid_tightened by (auto; lia).
  exists (do x <- assemble_bios els bl pol;
          if negb (fr_valid f0) then Err E_NOBIOS else
          Ok (concat (map region_buf pre) ++ mb ++ fst x ++ concat (map region_buf post))).
  destruct (assemble_bios els bl pol) as [x| | |]; cbn [bind omap]; auto.
  destruct (negb (fr_valid f0)); cbn [omap fst]; auto.
  split; [reflexivity|]. f_equal. f_equal. f_equal.
  rewrite <- !app_assoc. rewrite (app_assoc (zfirstn _ mb)). rewrite zfirstn_zskipn. reflexivity.
Qed.

(* ------------------------------------------------------------------ *)
(* tree-level statements of the property                               *)
(* ------------------------------------------------------------------ *)

Definition me_fr (t : tree) : fregion := slot (t_slots t) ifd_type_me.
Definition bios_fr (t : tree) : fregion := slot (t_slots t) ifd_type_bios.

Lemma update_base_bounds f fso :
  base_off f + fso <= tm_update_base f fso * ifd_block < base_off f + fso + ifd_block.
Proof.
  unfold tm_update_base. consts. set (x := base_off f + fso).
  pose proof (Z_div_mod_eq_full (x + 4096 - 1) 4096).
  pose proof (Z.mod_pos_bound (x + 4096 - 1) 4096). lia.
Qed.

(* tm_boundary: the new ME end is the first block boundary at or after base + FreeSpaceOffset,
   the BIOS region starts there, and no other slot changes *)
Lemma tm_boundary_tree pol t t' : wf_tree t -> tm pol t = Ok t' ->
  exists mb fp fso, In (RME mb fp fso) (t_regions t) /\
    base_off (me_fr t) + fso <= end_off (me_fr t') < base_off (me_fr t) + fso + ifd_block /\
    fr_base (bios_fr t') = fr_limit (me_fr t') + 1 /\
    fr_base (me_fr t') = fr_base (me_fr t) /\ fr_limit (bios_fr t') = fr_limit (bios_fr t) /\
    end_off (me_fr t') <= end_off (me_fr t) /\
    (forall i, 2 <= i -> slot (t_slots t') i = slot (t_slots t) i).
Proof.
  intros W H. destruct (tm_inv _ _ _ W H) as (f0 & f1 & rest & pre & mb & fp & fso & els & bl & post & TF & ->).
  destruct TF as [S R P1 P2 ADJ UB B1 BO BOE ER].
  exists mb, fp, fso. unfold me_fr, bios_fr, tightened. cbn [t_slots]. rewrite S, !slot_1, !slot_0.
  cbn [fr_base fr_limit]. split; [rewrite R; apply in_or_app; right; left; reflexivity|].
  pose proof (update_base_bounds f1 fso) as UBB.
  unfold end_off at 1 2. cbn [fr_limit].
  replace ((tm_update_base f1 fso - 1 + 1) * ifd_block) with (tm_update_base f1 fso * ifd_block) by lia.
  repeat split; try lia.
  - unfold end_off. cbn [fr_limit]. consts. lia.
  - intros i Hi. apply slot_tail2; auto.
Qed.

(* tm_partitions_inside *)
Lemma fso_step_ge acc e : acc <= fso_step acc e.
Proof. unfold fso_step. destruct (offset_is_valid (fst e)); [|lia]. destruct (acc <? fst e + snd e) eqn:E; lia. Qed.

Lemma fold_fso_ge es acc : acc <= fold_left fso_step es acc.
Proof.
  revert acc. induction es as [|e es IH]; intros acc; simpl; [lia|].
  pose proof (fso_step_ge acc e). pose proof (IH (fso_step acc e)). lia.
Qed.

Lemma fold_fso_max es acc e : In e es -> offset_is_valid (fst e) = true ->
  fst e + snd e <= fold_left fso_step es acc.
Proof.
  revert acc. induction es as [|x es IH]; intros acc I V; simpl in *; [tauto|].
  destruct I as [->|I].
  - pose proof (fold_fso_ge es (fso_step acc e)). unfold fso_step in *. rewrite V in *.
    destruct (acc <? fst e + snd e) eqn:E; lia.
  - apply IH; auto.
Qed.

(* FreeSpaceOffset is the largest end of a partition with a valid offset (0 if there is none) *)
Lemma fso_of_max es : (forall e, In e es -> offset_is_valid (fst e) = true -> fst e + snd e <= fso_of es) /\
  (fso_of es = 0 \/ exists e, In e es /\ offset_is_valid (fst e) = true /\ fso_of es = fst e + snd e).
Proof.
  split; [intros; apply fold_fso_max; auto|].
  unfold fso_of.
  assert (G : forall acc, fold_left fso_step es acc = acc \/
            exists e, In e es /\ offset_is_valid (fst e) = true /\ fold_left fso_step es acc = fst e + snd e).
  { induction es as [|x es IH]; intros acc; simpl; auto.
    destruct (IH (fso_step acc x)) as [E|(e & I & V & E)].
    - rewrite E. unfold fso_step. destruct (offset_is_valid (fst x)) eqn:V; auto.
      destruct (acc <? fst x + snd x); auto. right. exists x. auto.
    - right. exists e. auto. }
  apply G.
Qed.

Lemma tm_partitions_inside_tree pol t t' mb' es fso : wf_tree t -> tm pol t = Ok t' ->
  In (RME mb' (Some es) fso) (t_regions t') ->
  zlen mb' = end_off (me_fr t') - base_off (me_fr t') /\
  forall e, In e es -> offset_is_valid (fst e) = true -> fst e + snd e <= zlen mb'.
Proof.
  intros W H I. destruct (tm_inv _ _ _ W H) as (f0 & f1 & rest & pre & mb & fp & fso0 & els & bl & post & TF & ->).
  pose proof (tightened_wf _ _ _ _ _ _ _ _ _ _ _ _ W TF) as W'.
  destruct TF as [S R P1 P2 ADJ UB B1 BO BOE ER].
  destruct (wf_me_facts _ _ _ _ _ _ _ _ _ _ _ W S R) as (O0 & O1 & _ & LM' & BL & E1 & E2 & BL0).
  pose proof W as (_ & _ & _ & F & _). rewrite R in F.
  apply forallb_app' in F as [_ F]. cbn [forallb] in F. apply andb_true_iff in F as [FM _].
  apply region_ok_spec in FM as (_ & _ & _ & M4).
  unfold tightened in I. cbn [t_regions] in I.
  apply in_app_or in I as [I|[I|[I|I]]].
  - exfalso. assert (X : forallb plain pre = true) by auto. rewrite forallb_forall in X.
    specialize (X _ I). discriminate.
  - injection I as I1 I2 I3. subst mb' fp fso0. unfold me_fr, tightened. cbn [t_slots]. rewrite slot_1.
    rewrite zlen_zfirstn by lia. split.
    + unfold end_off, base_off. cbn [fr_base fr_limit]. consts. lia.
    + intros e Ie Ve. subst fso. pose proof (proj1 (fso_of_max es) e Ie Ve).
      pose proof (update_base_bounds f1 (fso_of es)). unfold tm_buf_offset. lia.
  - discriminate.
  - exfalso. assert (X : forallb plain post = true) by auto. rewrite forallb_forall in X.
    specialize (X _ I). discriminate.
Qed.

(* the freed blocks are an erased padding at offset 0 of the BIOS region *)
Lemma tm_freed_tree pol t t' : wf_tree t -> tm pol t = Ok t' ->
  exists tail els' bl', In (RBios (BPad tail 0 :: els') bl') (t_regions t') /\
    is_erased tail pol = true /\ zlen tail = base_off (bios_fr t) - base_off (bios_fr t').
Proof.
  intros W H. destruct (tm_inv _ _ _ W H) as (f0 & f1 & rest & pre & mb & fp & fso & els & bl & post & TF & ->).
  destruct TF as [S R P1 P2 ADJ UB B1 BO BOE ER].
  destruct (wf_me_facts _ _ _ _ _ _ _ _ _ _ _ W S R) as (O0 & O1 & _ & LM' & BL & E1 & E2 & BL0).
  eexists _, _, _. split; [|split].
  - unfold tightened. cbn [t_regions]. apply in_or_app. right. right. left. reflexivity.
  - exact ER.
  - unfold bios_fr, tightened. cbn [t_slots]. rewrite S, !slot_0.
    rewrite zlen_zskipn by lia. unfold base_off, end_off in *. cbn [fr_base]. consts. lia.
Qed.

(* tm_idempotent_bytes *)
Lemma tm_idempotent_tree pol t t1 : wf_tree t -> tm pol t = Ok t1 ->
  exists t2, tm pol t1 = Ok t2 /\ save pol t2 = save pol t1.
Proof.
  intros W H. destruct (tm_inv _ _ _ W H) as (f0 & f1 & rest & pre & mb & fp & fso & els & bl & post & TF & ->).
  pose proof (tightened_wf _ _ _ _ _ _ _ _ _ _ _ _ W TF) as W1.
  pose proof TF as [S R P1 P2 ADJ UB B1 BO BOE ER].
  set (t1 := tightened t f0 f1 rest pre mb fp fso els bl post) in *.
  set (ub := tm_update_base f1 fso) in *. set (bo := tm_buf_offset f1 fso) in *.
  set (f0' := mkFR ub (fr_limit f0)). set (f1' := mkFR (fr_base f1) (ub - 1)).
  set (mb1 := zfirstn bo mb).
  set (els1 := BPad (zskipn bo mb) 0 :: map (shift_elem (zlen mb - bo)) els).
  set (bl1 := bl + (zlen mb - bo)).
  assert (S1 : t_slots t1 = f0' :: f1' :: rest) by reflexivity.
  assert (R1 : t_regions t1 = pre ++ RME mb1 fp fso :: RBios els1 bl1 :: post) by reflexivity.
  assert (UB1 : tm_update_base f1' fso = ub) by reflexivity.
  assert (BO1 : tm_buf_offset f1' fso = bo) by reflexivity.
  assert (L1 : zlen mb1 = bo) by (unfold mb1; rewrite zlen_zfirstn; lia).
  assert (Z1 : zskipn bo mb1 = []).
  { unfold mb1, zskipn, zfirstn. apply skipn_all2. rewrite firstn_length. lia. }
  assert (TF1 : tm_facts pol t1 f0' f1' rest pre mb1 fp fso els1 bl1 post).
  { constructor; auto;
      try (rewrite ?BO1, ?UB1, ?Z1; unfold f0', f1', end_off, base_off in *;
           cbn [fr_base fr_limit] in *; try reflexivity; lia). }
  exists (tightened t1 f0' f1' rest pre mb1 fp fso els1 bl1 post). split.
  - apply tm_ok; auto.
    + unfold f0', f1', end_off, base_off. cbn [fr_base fr_limit]. lia.
    + rewrite BO1. lia.
    + rewrite BO1, Z1. reflexivity.
  - destruct (save_pair pol t1 _ _ _ _ _ _ _ _ _ _ W1 TF1) as (ob & E1 & E2).
    rewrite E1, E2. reflexivity.
Qed.

(* refusals *)
Lemma tm_nonerased_tree pol t f0 f1 rest pre mb fp fso els bl post :
  t_slots t = f0 :: f1 :: rest ->
  t_regions t = pre ++ RME mb fp fso :: RBios els bl :: post ->
  forallb plain pre = true -> forallb plain post = true ->
  end_off f1 = base_off f0 -> 0 <= tm_buf_offset f1 fso <= zlen mb ->
  is_erased (zskipn (tm_buf_offset f1 fso) mb) pol = false ->
  tm pol t = Err E_NOTERASED.
Proof.
  intros S R P1 P2 ADJ BO ER.
  rewrite (tm_shape pol t f0 f1 rest pre mb fp fso els bl post S R P1 P2).
  replace (end_off f1 =? base_off f0) with true by lia. cbn [negb]. cbv zeta.
  rewrite slice_tail_ok by lia. rewrite ER. reflexivity.
Qed.

Lemma tm_panic_tree pol t f0 f1 rest pre mb fp fso els bl post :
  t_slots t = f0 :: f1 :: rest ->
  t_regions t = pre ++ RME mb fp fso :: RBios els bl :: post ->
  forallb plain pre = true -> forallb plain post = true ->
  end_off f1 = base_off f0 -> 0 <= tm_buf_offset f1 fso ->
  (tm pol t = Panic 1 <-> zlen mb < tm_buf_offset f1 fso).
Proof.
  intros S R P1 P2 ADJ BO.
  rewrite (tm_shape pol t f0 f1 rest pre mb fp fso els bl post S R P1 P2).
  replace (end_off f1 =? base_off f0) with true by lia. cbn [negb]. cbv zeta.
  unfold slice. pose proof (zlen_nonneg mb).
  destruct ((0 <=? tm_buf_offset f1 fso) && (tm_buf_offset f1 fso <=? zlen mb) && (zlen mb <=? zlen mb)) eqn:E.
  - split; [|lia]. destruct (negb (is_erased _ pol)); discriminate.
  - split; [lia|reflexivity].
Qed.

(* ------------------------------------------------------------------ *)
(* the descriptor bytes                                                *)
(* ------------------------------------------------------------------ *)

Lemma nth_error_sub o l (b : bytes) i : 0 <= o ->
  nth_error (sub o l b) i = if Z.of_nat i <? l then nth_error b (Z.to_nat o + i) else None.
Proof.
  intros Ho. unfold sub, zfirstn, zskipn. destruct (Z.of_nat i <? l) eqn:E.
  - rewrite nth_error_firstn_lt' by lia. apply nth_error_skipn'.
  - apply nth_error_None. rewrite firstn_length. lia.
Qed.

Lemma sub_splice_disjoint off d (b : bytes) o2 l2 :
  0 <= off -> off + zlen d <= zlen b -> 0 <= o2 -> 0 <= l2 ->
  (o2 + l2 <= off \/ off + zlen d <= o2) ->
  sub o2 l2 (splice off d b) = sub o2 l2 b.
Proof.
  intros H1 H2 H3 H4 D. apply nth_error_ext. intros i. rewrite !nth_error_sub by lia.
  destruct (Z.of_nat i <? l2) eqn:E; auto.
  destruct D as [D|D].
  - apply nth_error_splice_lo; lia.
  - apply nth_error_splice_hi; lia.
Qed.

Lemma split3 (b : bytes) off len : 0 <= off -> 0 <= len ->
  b = zfirstn off b ++ sub off len b ++ zskipn (off + len) b.
Proof.
  intros H1 H2. unfold sub.
  rewrite <- (zfirstn_zskipn off b) at 1. f_equal.
  rewrite <- (zfirstn_zskipn len (zskipn off b)) at 1. f_equal.
  rewrite zskipn_zskipn by lia. f_equal. lia.
Qed.

Lemma zlen_enc_slots l : zlen (enc_slots l) = 4 * zlen l.
Proof.
  induction l as [|x l IH]; [reflexivity|].
  unfold enc_slots in *. cbn [map concat]. rewrite zlen_app, IH, zlen_cons. unfold enc_fr.
  rewrite zlen_app, !le2. lia.
Qed.

Lemma zlen_enc_region_section e sl : length sl = 15%nat -> zlen (enc_region_section e sl) = 64.
Proof.
  intros L. unfold enc_region_section. rewrite !zlen_app, le2, zlen_enc_slots.
  unfold zlen at 2. rewrite L. reflexivity.
Qed.

(* assembling the descriptor = replacing the 64 bytes of the region section *)
Lemma assemble_ifd_eq t : wf_desc t -> zlen (t_ifd t) = ifd_desc_len -> length (t_slots t) = 15%nat ->
  assemble_ifd t =
  zfirstn (t_rs t) (t_ifd t) ++ enc_region_section (t_erase t) (t_slots t) ++
  zskipn (t_rs t + 64) (t_ifd t).
Proof.
  intros (D1 & D2 & R1 & R2 & M1 & M2 & ED & EM & DJ) L LS. unfold assemble_ifd.
  consts. rewrite ED. rewrite splice_same by lia.
  pose proof (zlen_enc_region_section (t_erase t) (t_slots t) LS) as L64.
  assert (X : splice (t_ms t) (t_master t)
               (splice (t_rs t) (enc_region_section (t_erase t) (t_slots t)) (t_ifd t)) =
              splice (t_rs t) (enc_region_section (t_erase t) (t_slots t)) (t_ifd t)).
  { rewrite EM.
    rewrite <- (sub_splice_disjoint (t_rs t) (enc_region_section (t_erase t) (t_slots t)) (t_ifd t) (t_ms t) 12)
      by lia.
    apply splice_same; try lia. rewrite zlen_splice; lia. }
  rewrite X. unfold splice. rewrite L64. reflexivity.
Qed.

Lemma zlen_assemble_ifd t : wf_desc t -> zlen (t_ifd t) = ifd_desc_len -> length (t_slots t) = 15%nat ->
  zlen (assemble_ifd t) = ifd_desc_len.
Proof.
  intros D L LS. rewrite (assemble_ifd_eq t D L LS).
  destruct D as (D1 & D2 & R1 & R2 & _). consts.
  rewrite !zlen_app, zlen_enc_region_section, zlen_zfirstn, zlen_zskipn by lia. lia.
Qed.

(* tm_descriptor_delta: with a zero blank field the saved descriptor differs from the
   original one exactly in two 16-bit fields, BIOS Base (offset RegionStart+4) and ME Limit
   (offset RegionStart+10) *)
Lemma descriptor_delta t f0 f1 rest pre mb fp fso els bl post :
  wf_desc t -> desc_slots t -> blank_zero t -> zlen (t_ifd t) = ifd_desc_len ->
  t_slots t = f0 :: f1 :: rest -> length (t_slots t) = 15%nat ->
  let t' := tightened t f0 f1 rest pre mb fp fso els bl post in
  exists a mid z,
    zlen a = t_rs t + 4 /\ zlen mid = 4 /\
    t_ifd t = a ++ le_enc 2 (fr_base f0) ++ mid ++ le_enc 2 (fr_limit f1) ++ z /\
    assemble_ifd t' = a ++ le_enc 2 (fr_base (bios_fr t')) ++ mid ++ le_enc 2 (fr_limit (me_fr t')) ++ z.
Proof.
  intros D DS BZ L S LS t'.
  assert (D' : wf_desc t') by exact D.
  assert (LS' : length (t_slots t') = 15%nat).
  { unfold t', tightened. cbn [t_slots]. rewrite S in LS. exact LS. }
  rewrite (assemble_ifd_eq t' D' L LS').
  pose proof D as (D1 & D2 & R1 & R2 & _).
  exists (zfirstn (t_rs t) (t_ifd t) ++ [0; 0] ++ le_enc 2 (t_erase t)),
         (le_enc 2 (fr_limit f0) ++ le_enc 2 (fr_base f1)),
         (enc_slots rest ++ zskipn (t_rs t + 64) (t_ifd t)).
  split; [|split; [|split]].
  - rewrite !zlen_app, le2, zlen_zfirstn by (consts; lia). reflexivity.
  - rewrite zlen_app, !le2. reflexivity.
  - rewrite (split3 (t_ifd t) (t_rs t) 64) at 1 by lia.
    change 64 with ifd_region_section_size at 1. rewrite DS, BZ, S.
    unfold enc_slots. cbn [map concat]. unfold enc_fr.
    rewrite <- !app_assoc. reflexivity.
  - unfold t', tightened, bios_fr, me_fr. cbn [t_rs t_ifd t_erase t_slots]. rewrite slot_0, slot_1.
    cbn [fr_base fr_limit]. unfold enc_region_section, enc_slots. cbn [map concat]. unfold enc_fr.
    cbn [fr_base fr_limit]. rewrite <- !app_assoc. reflexivity.
Qed.

(* without the tightening the saved descriptor is the original one *)
Lemma assemble_ifd_unedited t : wf_desc t -> desc_slots t -> blank_zero t ->
  zlen (t_ifd t) = ifd_desc_len -> length (t_slots t) = 15%nat -> assemble_ifd t = t_ifd t.
Proof.
  intros D DS BZ L LS. rewrite (assemble_ifd_eq t D L LS).
  pose proof D as (D1 & D2 & R1 & R2 & _).
  transitivity (zfirstn (t_rs t) (t_ifd t) ++ sub (t_rs t) 64 (t_ifd t) ++ zskipn (t_rs t + 64) (t_ifd t));
    [|symmetry; apply split3; lia].
  f_equal. f_equal. change 64 with ifd_region_section_size. rewrite DS, BZ. reflexivity.
Qed.

(* ------------------------------------------------------------------ *)
(* parsing: the slots                                                  *)
(* ------------------------------------------------------------------ *)

Lemma zlen_firstn_le {A} n (l : list A) : zlen (firstn n l) <= Z.of_nat n.
Proof. unfold zlen. rewrite firstn_length. lia. Qed.

Lemma rd_bound off w b : bytes_ok b = true -> 0 <= rd off w b < 256 ^ Z.of_nat w.
Proof.
  intros OK. unfold rd.
  pose proof (le_dec_bound (sub off (Z.of_nat w) b) (bytes_ok_sub _ _ _ OK)) as [H1 H2].
  split; auto. eapply Z.lt_le_trans; eauto.
  apply Z.pow_le_mono_r; try lia.
  unfold sub, zfirstn. pose proof (zlen_firstn_le (Z.to_nat (Z.of_nat w)) (zskipn off b)). lia.
Qed.

Lemma rd2_bound off b : bytes_ok b = true -> 0 <= rd off 2 b < 65536.
Proof. intros H. apply (rd_bound off 2 b H). Qed.
Lemma rd1_bound off b : bytes_ok b = true -> 0 <= rd off 1 b < 256.
Proof. intros H. apply (rd_bound off 1 b H). Qed.

Lemma le_enc_rd off w b : bytes_ok b = true -> 0 <= off -> off + Z.of_nat w <= zlen b ->
  le_enc w (rd off w b) = sub off (Z.of_nat w) b.
Proof.
  intros OK H1 H2. unfold rd.
  assert (L : length (sub off (Z.of_nat w) b) = w).
  { pose proof (zlen_sub off (Z.of_nat w) b H1 ltac:(lia) H2) as L. unfold zlen in L. lia. }
  rewrite <- L at 1. apply le_enc_dec. apply bytes_ok_sub; auto.
Qed.

Lemma dec_slots_length n b : length (dec_slots n b) = n.
Proof. revert b; induction n as [|n IH]; intros b; simpl; auto. Qed.

Lemma bytes_ok_zskipn n b : bytes_ok b = true -> bytes_ok (zskipn n b) = true.
Proof. intros. unfold zskipn. apply bytes_ok_skipn; auto. Qed.
Lemma bytes_ok_zfirstn n b : bytes_ok b = true -> bytes_ok (zfirstn n b) = true.
Proof. intros. unfold zfirstn. apply bytes_ok_firstn; auto. Qed.

Lemma dec_slots_ok n b : bytes_ok b = true -> forallb fr_ok (dec_slots n b) = true.
Proof.
  revert b; induction n as [|n IH]; intros b OK; simpl; auto.
  rewrite IH by (apply bytes_ok_zskipn; auto). rewrite andb_true_r.
  unfold fr_ok. cbn [fr_base fr_limit]. rewrite U16_eq.
  pose proof (rd2_bound 0 b OK). pose proof (rd2_bound 2 b OK). lia.
Qed.

Lemma enc_dec_slots n b : bytes_ok b = true -> 4 * Z.of_nat n <= zlen b ->
  enc_slots (dec_slots n b) = zfirstn (4 * Z.of_nat n) b.
Proof.
  revert b; induction n as [|n IH]; intros b OK L.
  - reflexivity.
  - cbn [dec_slots]. unfold enc_slots in *. cbn [map concat]. unfold enc_fr at 1. cbn [fr_base fr_limit].
    change ifd_slot_size with 4.
    rewrite IH by (try apply bytes_ok_zskipn; auto; rewrite zlen_zskipn; lia).
    rewrite (le_enc_rd 0 2 b OK) by lia. rewrite (le_enc_rd 2 2 b OK) by lia.
    change (Z.of_nat 2) with 2. unfold sub. change (zskipn 0 b) with b.
    pose proof (window_glue b 0 2 2 ltac:(lia) ltac:(lia) ltac:(lia)) as G.
    change (zskipn 0 b) with b in G. simpl Z.add in G.
    rewrite G.
    pose proof (window_glue b 0 4 (4 * Z.of_nat n) ltac:(lia) ltac:(lia) ltac:(lia)) as G2.
    change (zskipn 0 b) with b in G2. change (0 + 4) with 4 in G2. rewrite G2.
    f_equal. lia.
Qed.

(* ------------------------------------------------------------------ *)
(* parsing: the BIOS region                                            *)
(* ------------------------------------------------------------------ *)

Lemma firstn_skipn_len {A} n (l : list A) : firstn n l ++ skipn (length (firstn n l)) l = l.
Proof.
  rewrite firstn_length. destruct (Nat.le_ge_cases n (length l)).
  - rewrite Nat.min_l by lia. apply firstn_skipn.
  - rewrite Nat.min_r by lia. rewrite firstn_all2, skipn_all by lia. apply app_nil_r.
Qed.

Lemma zfirstn_zskipn_len {A} n (l : list A) : zfirstn n l ++ zskipn (zlen (zfirstn n l)) l = l.
Proof. unfold zfirstn, zskipn, zlen. rewrite Nat2Z.id. apply firstn_skipn_len. Qed.

Lemma parse_fv_buf data pol vbuf vpol pol1 : parse_fv data pol = Ok (vbuf, vpol, pol1) ->
  exists n, vbuf = zfirstn n data.
Proof.
  unfold parse_fv. destruct (zlen data <? fvh_min_size); [discriminate|].
  destruct (read_blocks _); simpl; try discriminate.
  destruct (set_polarity _ _); simpl; try discriminate.
  destruct (zlen data <? _); [discriminate|].
  destruct (_ <? fvh_min_size); [discriminate|].
  destruct (_ || _); [discriminate|].
  intros [= <- _ _]. eexists. unfold sub. reflexivity.
Qed.

Lemma bios_parse_concat fuel buf abs pol els pol' :
  bios_parse fuel buf abs pol = Ok (els, pol') -> concat (map elem_buf els) = buf.
Proof.
  revert buf abs pol els pol'. induction fuel as [|k IH]; intros buf abs pol els pol' H; [discriminate|].
  cbn [bios_parse] in H.
  destruct (find_fv_offset buf <? 0) eqn:N.
  - injection H as <- _. destruct (zlen buf =? 0) eqn:Z.
    + destruct buf; auto. rewrite zlen_cons in Z. pose proof (zlen_nonneg buf). lia.
    + simpl. apply app_nil_r.
  - set (offset := find_fv_offset buf) in *.
    destruct (parse_fv (zskipn offset buf) pol) as [[[vbuf vpol] pol1]| | |] eqn:PF; try discriminate.
    cbn [bind] in H. destruct (zlen vbuf =? 0); [discriminate|].
    destruct (bios_parse k _ _ pol1) as [[rest pol2]| | |] eqn:BP; try discriminate.
    cbn [bind] in H. injection H as <- _.
    apply IH in BP. apply parse_fv_buf in PF as [n ->].
    rewrite map_app, concat_app. cbn [map concat elem_buf]. rewrite BP.
    assert (P : concat (map elem_buf (if 0 <? offset then [BPad (sub 0 offset buf) abs] else [])) =
                zfirstn offset buf).
    { destruct (0 <? offset) eqn:O.
      - simpl. rewrite app_nil_r. reflexivity.
      - assert (offset = 0) as -> by lia. reflexivity. }
    rewrite P.
    rewrite (Z.add_comm offset).
    rewrite <- (zskipn_zskipn _ offset buf) by (try apply zlen_nonneg; lia).
    rewrite zfirstn_zskipn_len. apply zfirstn_zskipn.
Qed.

(* ------------------------------------------------------------------ *)
(* parsing: the declared regions                                       *)
(* ------------------------------------------------------------------ *)

Definition declared_ok (img : bytes) (sl : list fregion) (r : region) : Prop :=
  let fr := region_fr sl r in
  region_ok sl r = true /\
  region_buf r = sub (base_off fr) (end_off fr - base_off fr) img /\
  fr_base fr <= fr_limit fr /\ base_off fr < zlen img /\ end_off fr <= zlen img /\
  (match r with RGap _ _ => False | _ => True end).

Lemma slot_here done fr rest : slot (done ++ fr :: rest) (zlen done) = fr.
Proof. unfold slot, zlen. rewrite Nat2Z.id. apply nth_app_here. Qed.

Lemma forallb_In {A} (p : A -> bool) l x : forallb p l = true -> In x l -> p x = true.
Proof. intros F I. rewrite forallb_forall in F. auto. Qed.

Lemma parse_regions_inv img nr frs : forall done pol rs pol',
  length (done ++ frs) = 15%nat -> forallb fr_ok (done ++ frs) = true ->
  parse_regions img (zlen img) nr frs (zlen done) pol = Ok (rs, pol') ->
  Forall (declared_ok img (done ++ frs)) rs /\
  count is_me rs <= (if zlen done <=? 1 then 1 else 0) /\
  count is_bios rs <= (if zlen done <=? 0 then 1 else 0).
Proof.
  induction frs as [|fr rest IH]; intros done pol rs pol' LEN OKS H.
  - cbn [parse_regions] in H. injection H as <- _. rewrite !count_nil.
    split; [constructor|]. split; [destruct (zlen done <=? 1); lia|destruct (zlen done <=? 0); lia].
  - pose proof (zlen_nonneg done) as DN.
    assert (A : done ++ fr :: rest = (done ++ [fr]) ++ rest) by (rewrite <- app_assoc; reflexivity).
    assert (ZL : zlen (done ++ [fr]) = zlen done + 1) by (rewrite zlen_app, zlen_cons, zlen_nil; lia).
    assert (REC : forall pol0 rs0 pol0',
              parse_regions img (zlen img) nr rest (zlen done + 1) pol0 = Ok (rs0, pol0') ->
              Forall (declared_ok img (done ++ fr :: rest)) rs0 /\
              count is_me rs0 <= (if zlen done + 1 <=? 1 then 1 else 0) /\
              count is_bios rs0 <= (if zlen done + 1 <=? 0 then 1 else 0)).
    { intros pol0 rs0 pol0' H0. rewrite <- ZL in H0. rewrite A in *.
      rewrite <- ZL. apply (IH (done ++ [fr]) pol0 rs0 pol0'); auto. }
    assert (SK : forall pol0 rs0 pol0',
              parse_regions img (zlen img) nr rest (zlen done + 1) pol0 = Ok (rs0, pol0') ->
              Forall (declared_ok img (done ++ fr :: rest)) rs0 /\
              count is_me rs0 <= (if zlen done <=? 1 then 1 else 0) /\
              count is_bios rs0 <= (if zlen done <=? 0 then 1 else 0)).
    { intros pol0 rs0 pol0' H0. destruct (REC _ _ _ H0) as (R1 & R2 & R3).
      split; auto. split.
      - destruct (zlen done + 1 <=? 1) eqn:?, (zlen done <=? 1) eqn:?; lia.
      - destruct (zlen done + 1 <=? 0) eqn:?, (zlen done <=? 0) eqn:?; lia. }
    cbn [parse_regions] in H.
    destruct (negb (nr =? 0) && (nr <=? zlen done)).
    { injection H as <- _. rewrite !count_nil. split; [constructor|]. split; [destruct (zlen done <=? 1); lia|destruct (zlen done <=? 0); lia]. }
    destruct (fr_valid fr) eqn:V; cbn [negb] in H; [|eapply SK; eauto].
    destruct (zlen img <=? base_off fr) eqn:B1; [eapply SK; eauto|].
    destruct (zlen img <? end_off fr) eqn:B2; [eapply SK; eauto|].
    apply bind_ok in H as ([r pol1] & Hr & H). apply bind_ok in H as ([more pol2] & Hm & H).
    cbn [fst snd] in *. injection H as <- <-.
    destruct (REC _ _ _ Hm) as (R1 & R2 & R3).
    set (sl := done ++ fr :: rest) in *.
    assert (FO : fr_ok fr = true).
    { apply (forallb_In fr_ok sl); auto. unfold sl. apply in_or_app. right. left. reflexivity. }
    pose proof (fr_ok_spec _ FO) as FO'.
    assert (VL : fr_base fr <= fr_limit fr) by (unfold fr_valid in V; lia).
    assert (ZB : zlen (sub (base_off fr) (end_off fr - base_off fr) img) = end_off fr - base_off fr).
    { apply zlen_sub; unfold base_off, end_off in *; consts; lia. }
    assert (SLOT : slot sl (zlen done) = fr) by apply slot_here.
    assert (ILT : zlen done < 15).
    { unfold sl in LEN. rewrite app_length in LEN. cbn [length] in LEN. unfold zlen. lia. }
    assert (D : declared_ok img sl r /\ is_me r = (zlen done =? 1) /\ is_bios r = (zlen done =? 0)).
    { destruct (zlen done =? ifd_type_bios) eqn:I0.
      - assert (zlen done = 0) as Z0 by (consts; lia).
        apply bind_ok in Hr as ([els p] & Hb & Hr). cbn [fst snd] in Hr. injection Hr as <- <-.
        apply bios_parse_concat in Hb. cbn [is_me is_bios]. rewrite Z0. split; [|split; reflexivity].
        unfold declared_ok. cbn [region_fr region_buf]. change ifd_type_bios with 0. rewrite <- Z0, SLOT.
        repeat split; auto; try lia.
        unfold region_ok. cbn [region_fr region_buf is_me]. change ifd_type_bios with 0.
        rewrite <- Z0, SLOT, Hb, ZB, FO. lia.
      - destruct (zlen done =? ifd_type_me) eqn:I1.
        + assert (zlen done = 1) as Z1 by (consts; lia).
          injection Hr as <- <-. rewrite Z1.
          assert (X : exists fp fso, me_region (sub (base_off fr) (end_off fr - base_off fr) img) =
                        RME (sub (base_off fr) (end_off fr - base_off fr) img) fp fso /\
                        match fp with Some es => fso = fso_of es | None => fso = 0 end).
          { unfold me_region. destruct (parse_fpt _) as [es|];
              [exists (Some es), (fso_of es)|exists None, 0]; split; reflexivity. }
          destruct X as (fp & fso & -> & FS). cbn [is_me is_bios]. split; [|split; reflexivity].
          unfold declared_ok. cbn [region_fr region_buf]. change ifd_type_me with 1. rewrite <- Z1, SLOT.
          repeat split; auto; try lia.
          unfold region_ok. cbn [region_fr region_buf is_me]. change ifd_type_me with 1.
          rewrite <- Z1, SLOT, ZB, FO. destruct fp; lia.
        + injection Hr as <- <-. cbn [is_me is_bios].
          assert (2 <= zlen done) by (consts; lia).
          split; [|split; lia].
          unfold declared_ok. cbn [region_fr region_buf]. rewrite SLOT.
          repeat split; auto; try lia.
          unfold region_ok. cbn [region_fr region_buf is_me]. rewrite SLOT, ZB, FO. consts. lia. }
    destruct D as (D & DM & DB).
    split; [constructor; auto|]. rewrite !count_cons, DM, DB.
    split.
    + destruct (zlen done =? 1) eqn:E1, (zlen done + 1 <=? 1) eqn:?, (zlen done <=? 1) eqn:?; lia.
    + destruct (zlen done =? 0) eqn:E0, (zlen done + 1 <=? 0) eqn:?, (zlen done <=? 0) eqn:?; lia.
Qed.

(* ------------------------------------------------------------------ *)
(* parsing: gap filling                                                *)
(* ------------------------------------------------------------------ *)

Lemma sub_glue (b : bytes) a l1 l2 : 0 <= a -> 0 <= l1 -> 0 <= l2 ->
  sub a l1 b ++ sub (a + l1) l2 b = sub a (l1 + l2) b.
Proof. intros. unfold sub. apply window_glue; auto. Qed.

Lemma gap_region_eq img a b : 1 <= a < b -> b * 4096 <= zlen img -> b < 65536 ->
  gap_region img (a * 4096) (b * 4096) =
  Ok (RGap (mkFR a (b - 1)) (sub (a * 4096) (b * 4096 - a * 4096) img)).
Proof.
  intros H1 H2 H3. unfold gap_region. rewrite slice_ok by lia. cbn [of_opt bind].
  consts. rewrite !Z.div_mul by lia.
  rewrite (Z.mod_small a) by lia. rewrite (Z.mod_small b) by lia. rewrite (Z.mod_small (b - 1)) by lia.
  reflexivity.
Qed.

Lemma gap_region_ok sl img a b : 1 <= a < b -> b * 4096 <= zlen img -> b < 65536 ->
  region_ok sl (RGap (mkFR a (b - 1)) (sub (a * 4096) (b * 4096 - a * 4096) img)) = true.
Proof.
  intros H1 H2 H3. unfold region_ok, fr_ok, end_off, base_off. cbn [region_fr region_buf is_me fr_base fr_limit].
  rewrite zlen_sub by lia. consts. lia.
Qed.

Lemma fill_gaps_inv img sl rs : forall a out,
  zlen img < 65536 * 4096 -> (exists s, zlen img = s * 4096) ->
  Forall (declared_ok img sl) rs -> 1 <= a -> a * 4096 <= zlen img ->
  fill_gaps img (zlen img) sl rs (a * 4096) = Ok out ->
  forallb (region_ok sl) out = true /\
  chain sl out (a * 4096) = Some (zlen img) /\
  concat (map region_buf out) = sub (a * 4096) (zlen img - a * 4096) img /\
  count is_me out = count is_me rs /\ count is_bios out = count is_bios rs.
Proof.
  induction rs as [|r rs IH]; intros a out LT [s SZ] F A1 A2 H.
  - cbn [fill_gaps] in H. destruct (a * 4096 =? zlen img) eqn:E; cbn [negb] in H.
    + injection H as <-. cbn [forallb chain map concat]. rewrite !count_nil.
      repeat split; auto. { f_equal. lia. }
      replace (zlen img - a * 4096) with 0 by lia. reflexivity.
    + assert (MZ : (zlen img mod ifd_block =? 0) = true)
        by (rewrite SZ; change ifd_block with 4096; rewrite Z.mod_mul by lia; reflexivity).
      rewrite MZ in H. cbn [negb] in H.
      rewrite SZ in H. rewrite gap_region_eq in H by lia. cbn [bind] in H. injection H as <-.
      cbn [forallb chain map concat region_fr region_buf]. rewrite gap_region_ok by lia.
      unfold base_off, end_off. cbn [fr_base fr_limit]. consts.
      replace (a * 4096 =? a * 4096) with true by lia.
      rewrite app_nil_r, !count_cons, !count_nil. cbn [is_me is_bios].
      repeat split; auto. { f_equal. lia. } f_equal. lia.
  - inversion F as [|r0 rs0 D F']; subst r0 rs0.
    destruct D as (RO & RB & VL & B1 & B2 & NG).
    cbn [fill_gaps] in H.
    set (fr := region_fr sl r) in *.
    pose proof (region_ok_spec _ _ RO) as (FO & _). fold fr in FO. apply fr_ok_spec in FO.
    destruct (base_off fr <? a * 4096) eqn:OV; [discriminate|].
    apply bind_ok in H as (pre & Hp & H). apply bind_ok in H as (more & Hm & H). injection H as <-.
    assert (E1 : 1 <= fr_limit fr + 1) by lia.
    assert (E2 : (fr_limit fr + 1) * 4096 <= zlen img) by (unfold end_off in B2; consts; lia).
    unfold end_off in Hm. change ifd_block with 4096 in Hm.
    destruct (IH _ _ LT (ex_intro _ s SZ) F' E1 E2 Hm) as (I1 & I2 & I3 & I4 & I5).
    assert (PRE : forallb (region_ok sl) pre = true /\
                  chain sl pre (a * 4096) = Some (base_off fr) /\
                  concat (map region_buf pre) = sub (a * 4096) (base_off fr - a * 4096) img /\
                  count is_me pre = 0 /\ count is_bios pre = 0).
    { destruct (a * 4096 <? base_off fr) eqn:G.
      - unfold base_off in *. change ifd_block with 4096 in *.
        rewrite gap_region_eq in Hp by lia. cbn [bind] in Hp. injection Hp as <-.
        cbn [forallb chain map concat region_fr region_buf]. rewrite gap_region_ok by lia.
        unfold base_off, end_off. cbn [fr_base fr_limit]. consts.
        replace (a * 4096 =? a * 4096) with true by lia.
        rewrite app_nil_r, !count_cons, !count_nil. cbn [is_me is_bios].
        repeat split; auto. f_equal. lia.
      - injection Hp as <-. cbn [forallb chain map concat]. rewrite !count_nil.
        repeat split; auto. { f_equal. lia. }
        replace (base_off fr - a * 4096) with 0 by lia. reflexivity. }
    destruct PRE as (P1 & P2 & P3 & P4 & P5).
    split; [|split; [|split]].
    + rewrite forallb_app. cbn [forallb]. rewrite P1, RO, I1. reflexivity.
    + rewrite chain_app, P2. cbn [chain]. fold fr. rewrite Z.eqb_refl.
      unfold end_off. change ifd_block with 4096. exact I2.
    + rewrite map_app, concat_app. cbn [map concat]. rewrite P3, RB, I3. fold fr.
      unfold end_off, base_off in *. change ifd_block with 4096 in *.
      replace (fr_base fr * 4096) with (a * 4096 + (fr_base fr * 4096 - a * 4096)) at 2 by lia.
      rewrite app_assoc. rewrite sub_glue by lia.
      replace ((fr_limit fr + 1) * 4096) with
        (a * 4096 + (fr_base fr * 4096 - a * 4096 + ((fr_limit fr + 1) * 4096 - fr_base fr * 4096))) at 2 by lia.
      rewrite sub_glue by lia. f_equal. lia.
    + rewrite !count_app, !count_cons, P4, P5, I4, I5. lia.
Qed.

(* ------------------------------------------------------------------ *)
(* parsing: NewFlashImage                                              *)
(* ------------------------------------------------------------------ *)

Definition sections_disjoint (t : tree) : Prop :=
  t_ms t + ifd_master_size <= t_rs t \/ t_rs t + ifd_region_section_size <= t_ms t.

Definition desc_bounds (t : tree) : Prop :=
  0 <= t_dms t /\ t_dms t + ifd_dmap_size <= ifd_desc_len /\
  0 <= t_rs t /\ t_rs t + ifd_region_section_size <= ifd_desc_len /\
  0 <= t_ms t /\ t_ms t + ifd_master_size <= ifd_desc_len /\
  t_dmap t = sub (t_dms t) ifd_dmap_size (t_ifd t) /\
  t_master t = sub (t_ms t) ifd_master_size (t_ifd t).

Lemma wf_desc_of t : desc_bounds t -> sections_disjoint t -> wf_desc t.
Proof. intros (A & B & C & D & E & F & G & H) J. unfold wf_desc. repeat split; auto. Qed.

(* images the theorems speak about: bytes, whole 4 KiB blocks, below 256 MiB (the reach of a
   16-bit block index) *)
Definition good_img (img : bytes) : Prop :=
  bytes_ok img = true /\ (exists s, zlen img = s * 4096) /\ zlen img < 65536 * 4096.

Lemma find_signature_ok b dms : find_signature b = Ok dms -> dms = 20 \/ dms = 4.
Proof.
  unfold find_signature. destruct (zlen b <? 20); [discriminate|].
  destruct (bytes_eqb (sub 16 4 b) ifd_signature); [intros [= <-]; auto|].
  destruct (bytes_eqb (sub 0 4 b) ifd_signature); [intros [= <-]; auto|discriminate].
Qed.

Lemma zfirstn_zfirstn {A} a b (l : list A) : 0 <= a <= b -> zfirstn a (zfirstn b l) = zfirstn a l.
Proof. intros H. unfold zfirstn. rewrite firstn_firstn. f_equal. lia. Qed.

Lemma region_section_roundtrip sec : bytes_ok sec = true -> zlen sec = 64 ->
  sec = zfirstn 2 sec ++ le_enc 2 (rd 2 2 sec) ++ enc_slots (dec_slots 15 (zskipn 4 sec)).
Proof.
  intros OK L. rewrite (le_enc_rd 2 2 sec OK) by lia.
  rewrite enc_dec_slots by (try apply bytes_ok_zskipn; auto; rewrite zlen_zskipn; lia).
  change (4 * Z.of_nat 15) with 60.
  replace 60 with (zlen (zskipn 4 sec)) by (rewrite zlen_zskipn; lia). rewrite zfirstn_all.
  change (Z.of_nat 2) with 2. apply (split3 sec 2 2); lia.
Qed.

Lemma parse_flash_inv img pol t pol' : good_img img -> parse_flash img pol = Ok (t, pol') ->
  wf_tree t /\ t_ifd t = zfirstn ifd_desc_len img /\ body t = zskipn ifd_desc_len img /\
  t_size t = zlen img /\ desc_slots t /\ desc_bounds t.
Proof.
  intros (OK & SZ & LT) H. unfold parse_flash in H.
  destruct (zlen img <? ifd_desc_len) eqn:TS; [discriminate|].
  set (ifd := sub 0 ifd_desc_len img) in *.
  assert (LI : zlen ifd = 4096) by (unfold ifd; apply zlen_sub; consts; lia).
  assert (OKI : bytes_ok ifd = true) by (apply bytes_ok_sub; auto).
  apply bind_ok in H as (dms & FS & H). apply find_signature_ok in FS.
  set (rs := rd (dms + ifd_dmap_off_region_base) 1 ifd * 16) in *.
  set (ms := rd (dms + ifd_dmap_off_master_base) 1 ifd * 16) in *.
  destruct ((ifd_desc_len <=? rs) || (ifd_desc_len <=? rs + ifd_region_section_size)) eqn:OOB; [discriminate|].
  set (sec := sub rs ifd_region_section_size ifd) in *.
  set (sl := dec_slots (Z.to_nat ifd_nslots) (zskipn ifd_rsec_off_slots sec)) in *.
  destruct (fr_valid (slot sl ifd_type_bios)); cbn [negb] in H; [|discriminate].
  apply bind_ok in H as ([rs0 pol1] & PR & H). apply bind_ok in H as (filled & FG & H).
  cbn [fst snd] in *. injection H as <- <-.
  pose proof (rd1_bound (dms + ifd_dmap_off_region_base) ifd OKI) as RB.
  pose proof (rd1_bound (dms + ifd_dmap_off_master_base) ifd OKI) as MB.
  assert (RS : 0 <= rs /\ rs + 64 <= 4096) by (unfold rs in *; consts; lia).
  assert (LS : zlen sec = 64) by (unfold sec; apply zlen_sub; consts; lia).
  assert (OKS : bytes_ok sec = true) by (apply bytes_ok_sub; auto).
  assert (LSL : length sl = 15%nat) by apply dec_slots_length.
  assert (OSL : forallb fr_ok sl = true) by (apply dec_slots_ok, bytes_ok_zskipn; auto).
  destruct (parse_regions_inv img _ sl [] pol rs0 pol1 LSL OSL PR) as (D & CM & CB).
  cbn [app] in D. change (zlen (@nil fregion)) with 0 in CM, CB. cbn in CM, CB.
  set (sorted := sort_by (fun r => fr_base (region_fr sl r)) rs0) in *.
  assert (DS : Forall (declared_ok img sl) sorted) by (apply sort_Forall; auto).
  destruct (fill_gaps_inv img sl sorted 1 filled LT SZ DS ltac:(lia) ltac:(consts; lia) FG)
    as (F1 & F2 & F3 & F4 & F5).
  unfold sorted in F4, F5. rewrite sort_count in F4, F5.
  split; [|split; [|split; [|split; [|split]]]].
  - unfold wf_tree. cbn [t_ifd t_slots t_regions t_size].
    repeat split; auto; try lia.
  - reflexivity.
  - unfold body. cbn [t_regions]. rewrite F3. change (1 * 4096) with 4096. consts.
    unfold sub. rewrite <- (zlen_zskipn 4096 img) by lia. apply zfirstn_all.
  - reflexivity.
  - unfold desc_slots. cbn [t_rs t_ifd t_erase t_slots]. fold sec.
    rewrite (region_section_roundtrip sec OKS LS) at 1.
    f_equal. unfold sec, sub. change ifd_region_section_size with 64.
    apply zfirstn_zfirstn. lia.
  - unfold desc_bounds. cbn [t_dms t_rs t_ms t_dmap t_master t_ifd].
    fold rs ms. unfold ms in *. consts.
    repeat split; auto; try lia.
Qed.

Lemma zlen_assemble_ifd_b t : desc_bounds t -> zlen (t_ifd t) = ifd_desc_len ->
  length (t_slots t) = 15%nat -> zlen (assemble_ifd t) = ifd_desc_len.
Proof.
  intros (D1 & D2 & R1 & R2 & M1 & M2 & ED & EM) L LS. unfold assemble_ifd. consts.
  assert (LD : zlen (t_dmap t) = 16) by (rewrite ED; apply zlen_sub; lia).
  assert (LM : zlen (t_master t) = 12) by (rewrite EM; apply zlen_sub; lia).
  pose proof (zlen_enc_region_section (t_erase t) (t_slots t) LS) as LR.
  assert (L1 : zlen (splice (t_dms t) (t_dmap t) (t_ifd t)) = 4096) by (rewrite zlen_splice; lia).
  assert (L2 : zlen (splice (t_rs t) (enc_region_section (t_erase t) (t_slots t))
                       (splice (t_dms t) (t_dmap t) (t_ifd t))) = 4096) by (rewrite zlen_splice; lia).
  rewrite zlen_splice; lia.
Qed.

(* ------------------------------------------------------------------ *)
(* image-level statements                                              *)
(* ------------------------------------------------------------------ *)

Lemma parse_flash_of img t pol : parse img = Ok (RootFlash t, pol) ->
  parse_flash img erase_polarity_poison = Ok (t, pol).
Proof.
  unfold parse. destruct (find_signature img).
  - destruct (parse_flash img erase_polarity_poison) as [[t0 p0]| | |]; simpl; try discriminate.
    intros [= <- <-]. reflexivity.
  - destruct (bios_region img erase_polarity_poison) as [[e0 p0]| | |]; simpl; discriminate.
  - destruct (bios_region img erase_polarity_poison) as [[e0 p0]| | |]; simpl; discriminate.
  - destruct (bios_region img erase_polarity_poison) as [[e0 p0]| | |]; simpl; discriminate.
Qed.

Lemma parse_inv img t pol : good_img img -> parse img = Ok (RootFlash t, pol) ->
  wf_tree t /\ t_ifd t = zfirstn ifd_desc_len img /\ body t = zskipn ifd_desc_len img /\
  t_size t = zlen img /\ desc_slots t /\ desc_bounds t.
Proof. intros G H. apply parse_flash_of in H. eapply parse_flash_inv; eauto. Qed.

Lemma wf_len15 t : wf_tree t -> length (t_slots t) = 15%nat.
Proof. intros (_ & L & _). exact L. Qed.

(* the saved image of any tree obtained from [img] by tighten_me steps *)
Lemma save_split pol t out : wf_tree t -> desc_bounds t -> save pol t = Ok out ->
  zfirstn ifd_desc_len out = assemble_ifd t /\ zskipn ifd_desc_len out = body t /\
  zlen out = ifd_desc_len + zlen (body t).
Proof.
  intros W B H. pose proof (save_ok_body _ _ _ W H) as ->.
  pose proof W as (L & _).
  pose proof (zlen_assemble_ifd_b t B L (wf_len15 _ W)) as LA.
  rewrite <- LA. rewrite zfirstn_app_exact, zskipn_app_exact, zlen_app. auto.
Qed.

Lemma tm_bounds pol t t' : wf_tree t -> desc_bounds t -> tm pol t = Ok t' -> desc_bounds t'.
Proof.
  intros W B H. destruct (tm_inv _ _ _ W H) as (f0 & f1 & rest & pre & mb & fp & fso & els & bl & post & TF & ->).
  exact B.
Qed.

Lemma tm_body pol t t' : wf_tree t -> tm pol t = Ok t' -> body t' = body t.
Proof.
  intros W H. destruct (tm_inv _ _ _ W H) as (f0 & f1 & rest & pre & mb & fp & fso & els & bl & post & TF & ->).
  apply body_tightened. apply TF.
Qed.

(* tm_bytes_outside_descriptor_unchanged + tm_size *)
Lemma c12_bytes_outside img t pol t' out : good_img img -> parse img = Ok (RootFlash t, pol) ->
  tm pol t = Ok t' -> save pol t' = Ok out ->
  zskipn ifd_desc_len out = zskipn ifd_desc_len img /\ zlen out = zlen img.
Proof.
  intros G P T S. destruct (parse_inv _ _ _ G P) as (W & EI & EB & ES & DS & DB).
  pose proof (tm_wf _ _ _ W T) as W'. pose proof (tm_bounds _ _ _ W DB T) as DB'.
  destruct (save_split _ _ _ W' DB' S) as (S1 & S2 & S3).
  rewrite (tm_body _ _ _ W T) in *. rewrite EB in *. split; auto.
  assert (ifd_desc_len <= zlen img).
  { pose proof W as (L & _). rewrite EI in L. unfold zfirstn, zlen in L. rewrite firstn_length in L.
    unfold zlen. consts. lia. }
  rewrite S3, zlen_zskipn by (consts; lia). lia.
Qed.

(* saving without tighten_me, for comparison: only the blank field can change *)
Lemma c12_unedited img t pol out : good_img img -> parse img = Ok (RootFlash t, pol) ->
  sections_disjoint t -> blank_zero t -> save pol t = Ok out -> out = img.
Proof.
  intros G P DJ BZ S. destruct (parse_inv _ _ _ G P) as (W & EI & EB & ES & DS & DB).
  pose proof (save_ok_body _ _ _ W S) as ->.
  pose proof W as (L & _).
  rewrite (assemble_ifd_unedited t (wf_desc_of _ DB DJ) DS BZ L (wf_len15 _ W)).
  rewrite EI, EB. apply zfirstn_zskipn.
Qed.

(* tm_descriptor_delta *)
Lemma c12_descriptor_delta img t pol t' : good_img img -> parse img = Ok (RootFlash t, pol) ->
  tm pol t = Ok t' -> sections_disjoint t -> blank_zero t ->
  exists a mid z,
    zlen a = t_rs t + 4 /\ zlen mid = 4 /\
    zfirstn ifd_desc_len img =
      a ++ le_enc 2 (fr_base (bios_fr t)) ++ mid ++ le_enc 2 (fr_limit (me_fr t)) ++ z /\
    forall out, save pol t' = Ok out ->
      zfirstn ifd_desc_len out =
      a ++ le_enc 2 (fr_base (bios_fr t')) ++ mid ++ le_enc 2 (fr_limit (me_fr t')) ++ z.
Proof.
  intros G P T DJ BZ. destruct (parse_inv _ _ _ G P) as (W & EI & EB & ES & DS & DB).
  pose proof (tm_wf _ _ _ W T) as W'. pose proof (tm_bounds _ _ _ W DB T) as DB'.
  destruct (tm_inv _ _ _ W T) as (f0 & f1 & rest & pre & mb & fp & fso & els & bl & post & TF & ->).
  pose proof W as (L & _).
  destruct (descriptor_delta t f0 f1 rest pre mb fp fso els bl post (wf_desc_of _ DB DJ) DS BZ L
              (tf_slots _ _ _ _ _ _ _ _ _ _ _ _ TF) (wf_len15 _ W)) as (a & mid & z & A1 & A2 & A3 & A4).
  exists a, mid, z. split; auto. split; auto. split.
  - rewrite <- EI, A3. unfold bios_fr, me_fr. rewrite (tf_slots _ _ _ _ _ _ _ _ _ _ _ _ TF), slot_0, slot_1.
    reflexivity.
  - intros out S. destruct (save_split _ _ _ W' DB' S) as (S1 & _). rewrite S1. exact A4.
Qed.

(* ---- locating the two regions from a description of the tree ---- *)

Lemma me_unique a x b c y d : nome a = true -> nome c = true -> is_me x = true -> is_me y = true ->
  a ++ x :: b = c ++ y :: d -> x = y.
Proof.
  revert c. induction a as [|r a IH]; intros [|s c] NA NC MX MY E; simpl in *.
  - congruence.
  - injection E as -> _. apply andb_true_iff in NC as [NC _]. rewrite MX in NC. discriminate.
  - injection E as -> _. apply andb_true_iff in NA as [NA _]. rewrite MY in NA. discriminate.
  - injection E as _ E. apply andb_true_iff in NA as [_ NA]. apply andb_true_iff in NC as [_ NC]. eauto.
Qed.

Lemma locate t mb fp fso : wf_tree t -> In (RME mb fp fso) (t_regions t) ->
  existsb is_bios (t_regions t) = true -> end_off (me_fr t) = base_off (bios_fr t) ->
  exists f0 f1 rest pre els bl post,
    t_slots t = f0 :: f1 :: rest /\
    t_regions t = pre ++ RME mb fp fso :: RBios els bl :: post /\
    forallb plain pre = true /\ forallb plain post = true.
Proof.
  intros W I B ADJ. destruct (wf_slots _ W) as (f0 & f1 & rest & S).
  pose proof W as (_ & _ & _ & F & C & C1 & C2).
  apply in_split in I as (p & q & R).
  assert (N : nome p = true /\ nome q = true).
  { rewrite R, count_app, count_cons in C1. cbn [is_me] in C1.
    pose proof (count_nonneg is_me p). pose proof (count_nonneg is_me q).
    split; apply count_me_zero; lia. }
  destruct N as [Np Nq].
  assert (LM : last_me (t_regions t) 0 None = Some (length p, mb, fso)).
  { rewrite R, last_me_app, (last_me_nome p) by auto. cbn [last_me]. rewrite last_me_nome by auto.
    reflexivity. }
  destruct (last_bios (t_regions t) 0 None) as [[[ib els] bl]|] eqn:LB.
  2:{ apply last_bios_none in LB. apply existsb_nobios in B. congruence. }
  destruct (shape _ _ _ _ _ _ _ _ _ F C C1 C2 LM LB ADJ) as (pre & fp' & post & R' & _ & _ & P1 & P2).
  exists f0, f1, rest, pre, els, bl, post. repeat split; auto.
  rewrite R'. rewrite R in R'.
  assert (X : RME mb fp fso = RME mb fp' fso).
  { eapply me_unique; [exact Np|apply plain_nome; exact P1| | |exact R']; reflexivity. }
  injection X as <-. reflexivity.
Qed.

Lemma wf_fso_nonneg t mb fp fso : wf_tree t -> In (RME mb fp fso) (t_regions t) -> 0 <= fso.
Proof.
  intros (_ & _ & _ & F & _) I. pose proof (forallb_In _ _ _ F I) as RO.
  apply region_ok_spec in RO as (_ & _ & _ & M). destruct fp as [es|]; subst fso; [|lia].
  apply fold_fso_ge.
Qed.

Lemma buf_offset_nonneg f fso : 0 <= fso -> 0 <= tm_buf_offset f fso.
Proof. intros H. pose proof (update_base_bounds f fso). unfold tm_buf_offset. lia. Qed.

(* ---- the remaining clauses ---- *)

Lemma c12_parse_wf img t pol : good_img img -> parse img = Ok (RootFlash t, pol) ->
  wf_tree t /\ t_size t = zlen img /\ t_ifd t ++ body t = img.
Proof.
  intros G P. destruct (parse_inv _ _ _ G P) as (W & EI & EB & ES & _).
  split; [exact W|]. split; [exact ES|].
  rewrite EI, EB. apply zfirstn_zskipn.
Qed.

Lemma c12_boundary img t pol t' : good_img img -> parse img = Ok (RootFlash t, pol) ->
  tm pol t = Ok t' ->
  exists mb fp fso, In (RME mb fp fso) (t_regions t) /\
    base_off (me_fr t) + fso <= end_off (me_fr t') < base_off (me_fr t) + fso + ifd_block /\
    fr_base (bios_fr t') = fr_limit (me_fr t') + 1 /\
    fr_base (me_fr t') = fr_base (me_fr t) /\ fr_limit (bios_fr t') = fr_limit (bios_fr t) /\
    end_off (me_fr t') <= end_off (me_fr t) /\
    (forall i, 2 <= i -> slot (t_slots t') i = slot (t_slots t) i).
Proof. intros G P T. destruct (parse_inv _ _ _ G P) as (W & _). eapply tm_boundary_tree; eauto. Qed.

Lemma c12_partitions_inside img t pol t' mb' es fso : good_img img ->
  parse img = Ok (RootFlash t, pol) -> tm pol t = Ok t' ->
  In (RME mb' (Some es) fso) (t_regions t') ->
  zlen mb' = end_off (me_fr t') - base_off (me_fr t') /\
  forall e, In e es -> offset_is_valid (fst e) = true -> fst e + snd e <= zlen mb'.
Proof. intros G P T I. destruct (parse_inv _ _ _ G P) as (W & _). eapply tm_partitions_inside_tree; eauto. Qed.

Lemma c12_tiles img t pol t' : good_img img -> parse img = Ok (RootFlash t, pol) ->
  tm pol t = Ok t' ->
  wf_tree t' /\ t_size t' = zlen img /\
  (forall o, save pol t = Ok o -> exists o', save pol t' = Ok o').
Proof.
  intros G P T. destruct (parse_inv _ _ _ G P) as (W & EI & EB & ES & _).
  split; [eapply tm_wf; eauto|].
  destruct (tm_inv _ _ _ W T) as (f0 & f1 & rest & pre & mb & fp & fso & els & bl & post & TF & ->).
  split; [exact ES|].
  intros o S. destruct (save_pair pol t _ _ _ _ _ _ _ _ _ _ W TF) as (ob & E1 & E2).
  rewrite E1 in S. rewrite E2. destruct ob; try discriminate. eexists. reflexivity.
Qed.

Lemma c12_refuses_nonadjacent img t pol : parse img = Ok (RootFlash t, pol) ->
  existsb is_me (t_regions t) = true -> existsb is_bios (t_regions t) = true ->
  end_off (me_fr t) <> base_off (bios_fr t) ->
  tm pol t = Err E_NONADJ /\ tm_after pol t = t.
Proof.
  intros _ M B N. pose proof (tm_nonadjacent pol t M B N) as E. split; auto.
  unfold tm_after. rewrite E. reflexivity.
Qed.

Lemma c12_refuses_nonerased img t pol mb fp fso : good_img img ->
  parse img = Ok (RootFlash t, pol) ->
  In (RME mb fp fso) (t_regions t) -> existsb is_bios (t_regions t) = true ->
  end_off (me_fr t) = base_off (bios_fr t) ->
  tm_buf_offset (me_fr t) fso <= zlen mb ->
  is_erased (zskipn (tm_buf_offset (me_fr t) fso) mb) pol = false ->
  tm pol t = Err E_NOTERASED /\ tm_after pol t = t.
Proof.
  intros G P I B ADJ BO ER. destruct (parse_inv _ _ _ G P) as (W & _).
  destruct (locate _ _ _ _ W I B ADJ) as (f0 & f1 & rest & pre & els & bl & post & S & R & P1 & P2).
  pose proof (buf_offset_nonneg (me_fr t) fso (wf_fso_nonneg _ _ _ _ W I)) as BN.
  unfold me_fr, bios_fr in *. rewrite S, slot_1, ?slot_0 in *.
  assert (E : tm pol t = Err E_NOTERASED) by (eapply tm_nonerased_tree; eauto; lia).
  split; auto. unfold tm_after. rewrite E. reflexivity.
Qed.

Lemma c12_accepts img t pol mb fp fso : good_img img ->
  parse img = Ok (RootFlash t, pol) ->
  In (RME mb fp fso) (t_regions t) -> existsb is_bios (t_regions t) = true ->
  end_off (me_fr t) = base_off (bios_fr t) ->
  tm_buf_offset (me_fr t) fso <= zlen mb ->
  is_erased (zskipn (tm_buf_offset (me_fr t) fso) mb) pol = true ->
  exists t', tm pol t = Ok t'.
Proof.
  intros G P I B ADJ BO ER. destruct (parse_inv _ _ _ G P) as (W & _).
  destruct (locate _ _ _ _ W I B ADJ) as (f0 & f1 & rest & pre & els & bl & post & S & R & P1 & P2).
  pose proof (buf_offset_nonneg (me_fr t) fso (wf_fso_nonneg _ _ _ _ W I)) as BN.
  unfold me_fr, bios_fr in *. rewrite S, slot_1, ?slot_0 in *.
  eexists. eapply tm_ok; eauto; lia.
Qed.

Lemma c12_panics_iff img t pol mb fp fso : good_img img ->
  parse img = Ok (RootFlash t, pol) ->
  In (RME mb fp fso) (t_regions t) -> existsb is_bios (t_regions t) = true ->
  end_off (me_fr t) = base_off (bios_fr t) ->
  (tm pol t = Panic 1 <-> zlen mb < tm_buf_offset (me_fr t) fso).
Proof.
  intros G P I B ADJ. destruct (parse_inv _ _ _ G P) as (W & _).
  destruct (locate _ _ _ _ W I B ADJ) as (f0 & f1 & rest & pre & els & bl & post & S & R & P1 & P2).
  pose proof (buf_offset_nonneg (me_fr t) fso (wf_fso_nonneg _ _ _ _ W I)) as BN.
  unfold me_fr, bios_fr in *. rewrite S, slot_1, ?slot_0 in *.
  eapply tm_panic_tree; eauto.
Qed.

Lemma c12_idempotent img t pol t1 : good_img img -> parse img = Ok (RootFlash t, pol) ->
  tm pol t = Ok t1 -> exists t2, tm pol t1 = Ok t2 /\ save pol t2 = save pol t1.
Proof. intros G P T. destruct (parse_inv _ _ _ G P) as (W & _). eapply tm_idempotent_tree; eauto. Qed.

Lemma c12_freed_padding img t pol t' : good_img img -> parse img = Ok (RootFlash t, pol) ->
  tm pol t = Ok t' ->
  exists tail els' bl', In (RBios (BPad tail 0 :: els') bl') (t_regions t') /\
    is_erased tail pol = true /\ zlen tail = base_off (bios_fr t) - base_off (bios_fr t').
Proof. intros G P T. destruct (parse_inv _ _ _ G P) as (W & _). eapply tm_freed_tree; eauto. Qed.

Lemma c12_size img t pol t' out : good_img img -> parse img = Ok (RootFlash t, pol) ->
  tm pol t = Ok t' -> save pol t' = Ok out -> zlen out = zlen img.
Proof. intros G P T S. exact (proj2 (c12_bytes_outside img t pol t' out G P T S)). Qed.

(* ------------------------------------------------------------------ *)
(* tighten_me inside a sequence of edits: the tree it meets is then not *)
(* the result of a parse but whatever the edits before left; all it     *)
(* needs is [wf_tree] (and [desc_bounds] for statements about bytes).   *)
(* ------------------------------------------------------------------ *)

Lemma tm_bytes_outside_tree pol t t' o o' : wf_tree t -> desc_bounds t ->
  tm pol t = Ok t' -> save pol t = Ok o -> save pol t' = Ok o' ->
  zskipn ifd_desc_len o' = zskipn ifd_desc_len o /\ zlen o' = zlen o.
Proof.
  intros W B T S S'.
  pose proof (tm_wf _ _ _ W T) as W'. pose proof (tm_bounds _ _ _ W B T) as B'.
  destruct (save_split _ _ _ W B S) as (_ & K1 & L1).
  destruct (save_split _ _ _ W' B' S') as (_ & K2 & L2).
  rewrite (tm_body _ _ _ W T) in K2, L2. split; congruence.
Qed.

Lemma tm_n_once pol n : forall t t1, wf_tree t -> tm pol t = Ok t1 ->
  exists tn, tm_n n pol t1 = Ok tn /\ save pol tn = save pol t1.
Proof.
  induction n as [|k IH]; intros t t1 W T.
  - exists t1. split; reflexivity.
  - destruct (tm_idempotent_tree _ _ _ W T) as (t2 & T2 & S2).
    destruct (IH t1 t2 (tm_wf _ _ _ W T) T2) as (tn & TN & SN).
    exists tn. split; [cbn [tm_n]; rewrite T2; exact TN|congruence].
Qed.
