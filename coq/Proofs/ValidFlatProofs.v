(* Proofs/ValidFlatProofs.v — property C02 end to end on "flat" trees: the edit operations keep
   the checkable invariant of Proofs/ValidEndProofs.v, Assemble turns a tree with the invariant
   into a region the independent reader accepts, hence utk <image> <ops> save writes a valid image
   of the same size whenever the parsed input has the invariant. *)
From Fiano Require Import Base.Bytes Base.BytesLemmas Gen.Consts Model.Ffs Proofs.FfsParseProofs
  Model.Edit Model.Valid Model.ValidInv
  Proofs.EditProofs Proofs.AsmProofs Proofs.ValidProofs Proofs.ValidTreeProofs Proofs.ValidEndProofs.
From Coq Require Import ZifyBool ZifyNat.
Open Scope Z_scope.

(* ---------- the top-level skeleton: kinds and buffers of the region's elements ---------- *)

Definition skel_eq (x x' : node) : Prop :=
  match x, x' with
  | NPad _ p, NPad _ p' => p' = p
  | NVol _ vb _, NVol _ vb' _ => vb' = vb
  | _, _ => False
  end.

Lemma scan_ok_skel : forall l l', Forall2 skel_eq l l' -> scan_ok l' = scan_ok l.
Proof.
  induction 1 as [|x x' r r' Hx Hr IH]; [reflexivity|].
  destruct x as [| | h vb k | o p], x' as [| | h' vb' k' | o' p']; cbn [skel_eq] in Hx;
    try contradiction; subst; cbn [scan_ok].
  - exact IH.
  - rewrite IH. f_equal. f_equal.
    inversion Hr as [|y y' t t' Hy Ht]; subst; [reflexivity|].
    destruct y as [| | h1 vb1 k1 | o1 p1], y' as [| | h2 vb2 k2 | o2 p2]; cbn [skel_eq] in Hy;
      try contradiction; subst; reflexivity.
Qed.

Lemma skel_bufs : forall l l', Forall2 skel_eq l l' -> map node_buf l' = map node_buf l.
Proof.
  induction 1 as [|x x' r r' Hx Hr IH]; [reflexivity|]. cbn [map]. rewrite IH. f_equal.
  destruct x as [| | h vb k | o p], x' as [| | h' vb' k' | o' p']; cbn [skel_eq] in Hx;
    try contradiction; subst; reflexivity.
Qed.

Lemma map_forall2 {A} (f : A -> A) l : Forall2 (fun x y => y = f x) l (map f l).
Proof. induction l; cbn [map]; constructor; auto. Qed.

Lemma forall2_imp {A B} (R R' : A -> B -> Prop) : (forall x y, R x y -> R' x y) ->
  forall l l', Forall2 R l l' -> Forall2 R' l l'.
Proof. intros H. induction 1; constructor; auto. Qed.

Lemma map_out_same {A} (g : A -> outcome A) : forall l l',
  (forall x y, In x l -> g x = Ok y -> y = x) -> map_out g l = Ok l' -> l' = l.
Proof.
  induction l as [|x r IH]; intros l' Hg H; cbn [map_out] in H.
  - inversion H; reflexivity.
  - apply bind_ok in H as (y & Hy & H). apply bind_ok in H as (ys & Hys & H). inversion H; subst.
    rewrite (Hg x y (or_introl eq_refl) Hy). f_equal. apply IH; auto. intros; eapply Hg; eauto. right; auto.
Qed.

(* ---------- sections and files of the invariant are not entered by the visitors ---------- *)

Lemma sec_leaf k : vtb_sec k = true -> exists h sb, k = NSec h sb [].
Proof.
  destruct k as [h sb kids | | |]; try discriminate. destruct kids; [|discriminate]. eauto.
Qed.

Lemma ins_visit_sec it s nf k : vtb_sec k = true -> ins_visit it s nf k = Ok k.
Proof. intros H. destruct (sec_leaf k H) as (h & sb & ->). reflexivity. Qed.

Lemma ins_fv_sec front s nf k : vtb_sec k = true -> ins_fv front s nf k = k.
Proof. intros H. destruct (sec_leaf k H) as (h & sb & ->). reflexivity. Qed.

Lemma pe_visit_sec s pe k : vtb_sec k = true -> pe_visit s pe k = k.
Proof. intros H. destruct (sec_leaf k H) as (h & sb & ->). reflexivity. Qed.

Lemma rm_visit_sec j s pol pad k n : vtb_sec k = true -> rm_visit j s pol pad k = Ok n -> n = k.
Proof.
  intros H. destruct (sec_leaf k H) as (h & sb & ->). destruct j; [discriminate|].
  cbn [rm_visit map_out bind]. intros E; inversion E; reflexivity.
Qed.

Lemma pe_sec_vtb pe k : zlen pe + 32 < 4294967296 -> vtb_sec k = true -> vtb_sec (pe_sec pe k) = true.
Proof.
  intros Hpe H. destruct (sec_leaf k H) as (h & sb & ->). cbn [pe_sec].
  destruct (s_type h =? section_type_pe32) eqn:E; [|exact H].
  change section_type_pe32 with 16 in E.
  cbn [vtb_sec] in H. apply andb_true_iff in H as [Hg _].
  destruct (gen_sec_header h pe) as [h' nb] eqn:G.
  assert (Hh : h' = fst (gen_sec_header h pe)) by (rewrite G; reflexivity).
  assert (Hb : nb = snd (gen_sec_header h pe)) by (rewrite G; reflexivity).
  cbn [vtb_sec]. apply andb_true_iff. split.
  - rewrite Hh. unfold gen_sec_header, gd_wfb in *. cbn [fst s_gd]. destruct (s_gd h); [exact Hg | reflexivity].
  - apply orb_true_iff. right. rewrite Hb. apply gsh_v_sec0; try lia.
    unfold gd_wf, gd_wfb in *. destruct (s_gd h); [lia | exact I].
Qed.

Section Flat.
Variable dec : Z -> bytes -> option bytes.
Variable d : nat.
Variable pol : Z.

Notation vtbf := (vtb_file dec d pol).

Lemma vtb_file_kids n : vtbf n = true ->
  exists h fb kids, n = NFile h fb kids /\ forallb vtb_sec kids = true.
Proof.
  destruct n as [| h fb kids | |]; try discriminate. cbn [vtb_file]. intros H.
  apply andb_true_iff in H as [_ H]. exists h, fb, kids. split; [reflexivity|].
  destruct kids as [|k0 kr]; [reflexivity|].
  assert (H' : (zlen (f_guid h) =? 16) && (0 <? f_type h) && (f_type h <? 255) && forallb vtb_sec (k0 :: kr) &&
               (if supported_file (f_type h) then (match f_nvar h with None => true | Some _ => false end)
                else true) = true) by (destruct (f_nvar h); exact H).
  apply andb_true_iff in H' as [H' _]. apply andb_true_iff in H' as [_ H']. exact H'.
Qed.

Lemma ins_visit_file it s nf n : vtbf n = true -> ins_visit it s nf n = Ok n.
Proof.
  intros H. destruct (vtb_file_kids n H) as (h & fb & kids & -> & Hk). cbn [ins_visit].
  rewrite map_out_id; [reflexivity|]. apply Forall_forall. intros x Hx. apply ins_visit_sec.
  rewrite forallb_forall in Hk. auto.
Qed.

Lemma ins_fv_file front s nf n : vtbf n = true -> ins_fv front s nf n = n.
Proof.
  intros H. destruct (vtb_file_kids n H) as (h & fb & kids & -> & Hk). cbn [ins_fv].
  rewrite map_id_in; [reflexivity|]. intros x Hx. apply ins_fv_sec. rewrite forallb_forall in Hk. auto.
Qed.

Lemma rm_visit_file j s p pad n n' : vtbf n = true -> rm_visit j s p pad n = Ok n' -> n' = n.
Proof.
  intros H. destruct (vtb_file_kids n H) as (h & fb & kids & -> & Hk). destruct j; [discriminate|].
  cbn [rm_visit]. intros E. apply bind_ok in E as (ks & Hks & E). inversion E; subst. f_equal.
  eapply map_out_same; [|exact Hks]. intros x y Hx Hy. eapply rm_visit_sec; eauto.
  rewrite forallb_forall in Hk. auto.
Qed.

Lemma pe_visit_file s pe n : zlen pe + 32 < 4294967296 -> vtbf n = true -> vtbf (pe_visit s pe n) = true.
Proof.
  intros Hpe H. destruct (vtb_file_kids n H) as (h & fb & kids & -> & Hk). cbn [pe_visit].
  destruct (fmatch s (NFile h fb kids)).
  - cbn [vtb_file] in *. apply andb_true_iff in H as [He H]. rewrite He. cbn [andb].
    destruct kids as [|k0 kr]; [exact H|]. cbn [map].
    assert (H' : (zlen (f_guid h) =? 16) && (0 <? f_type h) && (f_type h <? 255) && forallb vtb_sec (k0 :: kr) &&
                 (if supported_file (f_type h) then (match f_nvar h with None => true | Some _ => false end)
                  else true) = true) by (destruct (f_nvar h); exact H).
    apply andb_true_iff in H' as [H' Hn]. apply andb_true_iff in H' as [H' _].
    assert (G : (zlen (f_guid h) =? 16) && (0 <? f_type h) && (f_type h <? 255) &&
                forallb vtb_sec (pe_sec pe k0 :: map (pe_sec pe) kr) &&
                (if supported_file (f_type h) then (match f_nvar h with None => true | Some _ => false end)
                 else true) = true).
    { rewrite H', Hn. cbn [andb]. rewrite andb_true_r.
      change (forallb vtb_sec (map (pe_sec pe) (k0 :: kr)) = true).
      apply forallb_map_in; [|exact Hk]. intros x _ Hx. apply pe_sec_vtb; auto. }
    destruct (f_nvar h); exact G.
  - rewrite map_id_in; [exact H|]. intros x Hx. apply pe_visit_sec. rewrite forallb_forall in Hk. auto.
Qed.

(* the pad file Remove leaves behind *)
Lemma pad_node_vtb size n : pad_node pol size = Ok n -> size < 18446744073709551616 -> vtbf n = true.
Proof.
  intros H Hs. unfold pad_node in H.
  change file_header_min_length with 24 in H. change file_header_ext_min_length with 32 in H.
  change fv_filetype_pad with 240 in H. change file_state_valid with 7 in H.
  destruct (size <? 24) eqn:E1; [discriminate|].
  destruct (negb ((pol =? 255) || (pol =? 0))) eqn:E2; [discriminate|].
  assert (Hss : exists attr, set_size 0 size false = (size, attr))
    by (unfold set_size; destruct (16777215 <=? size); eexists; reflexivity).
  destruct Hss as (attr & Hss). rewrite Hss in H.
  assert (Hc : create_pad_file pol size =
               Ok (snd (checksum_and_assemble
                          (mkFile (zrepeat pol 16) 0 0 240 attr (write3 size) (Z.lxor 7 pol) size 0 None)
                          size attr (zrepeat pol (if attr_large attr then size - 32 else size - 24))))).
  { unfold create_pad_file. rewrite E1, E2, Hss. reflexivity. }
  set (h0 := mkFile (zrepeat pol 16) 0 0 240 attr (write3 size) (Z.lxor 7 pol) size 0 None) in *.
  set (dat := zrepeat pol (if attr_large attr then size - 32 else size - 24)) in *.
  destruct (checksum_and_assemble h0 size attr dat) as [h' b] eqn:Ec.
  assert (Eh : h' = fst (checksum_and_assemble h0 size attr dat)) by (rewrite Ec; reflexivity).
  assert (Eb : b = snd (checksum_and_assemble h0 size attr dat)) by (rewrite Ec; reflexivity).
  cbn [snd] in Hc. clear Ec.
  match type of H with Ok ?x = Ok _ => assert (En : n = x) by congruence end. subst n. clear H.
  assert (Hh : f_ext h' = size /\ f_nvar h' = None /\ f_attr h' = attr).
  { rewrite Eh. unfold checksum_and_assemble. cbn [fst f_ext f_nvar f_attr]. auto. }
  destruct Hh as (Hx & Hn & Ha).
  cbn [vtb_file]. rewrite Hn, Hx, Ha.
  destruct (pad_file_valid (valid_fv dec d true) (valid_enc dec d) dec pol size b Hc ltac:(lia)) as (V & F & L).
  unfold fok. rewrite V, F. cbn [negb andb].
  assert (R : rd 19 1 b = attr).
  { rewrite Eb. unfold checksum_and_assemble. cbn [snd]. apply fhb_rd19. unfold h0. cbn [f_guid].
    apply zlen_zrepeat. lia. }
  lia.
Qed.

Lemma rm_list_vtb s pad : forall fs fs1, rm_list s pol pad fs = Ok fs1 ->
  forallb vtbf fs = true -> forallb vtbf fs1 = true.
Proof.
  induction fs as [|f r IH]; intros fs1 H Hs; cbn [rm_list] in H.
  - inversion H; reflexivity.
  - cbn [forallb] in Hs. apply andb_true_iff in Hs as [Hf Hr].
    destruct (fmatch s f).
    + destruct (pad || (file_type f =? fv_filetype_peim)).
      * apply bind_ok in H as (pf & Hp & H). apply bind_ok in H as (r' & Hr' & H). inversion H; subst.
        cbn [forallb]. rewrite (IH _ Hr' Hr), andb_true_r.
        apply (pad_node_vtb _ _ Hp).
        destruct f as [| h fb kids | |]; try discriminate. cbn [file_ext vtb_file] in *.
        apply andb_true_iff in Hf as [Hf _]. lia.
      * apply IH; auto.
    + apply bind_ok in H as (r' & Hr' & H). inversion H; subst.
      cbn [forallb]. rewrite Hf, (IH _ Hr' Hr). reflexivity.
Qed.

(* ---------- the elements of the region ---------- *)

Lemma vtb_vol_files h vb kids : vtb_vol dec d pol h vb kids = true -> forallb vtbf kids = true.
Proof.
  unfold vtb_vol. intros H. apply andb_true_iff in H as [H _]. apply andb_true_iff in H as [_ H]. exact H.
Qed.

Lemma vtb_vol_kids h vb kids kids1 : vtb_vol dec d pol h vb kids = true ->
  forallb vtbf kids1 = true -> vtb_vol dec d pol h vb kids1 = true.
Proof.
  unfold vtb_vol. intros H H1. apply andb_true_iff in H as [H U]. apply andb_true_iff in H as [H _].
  rewrite H, H1, U. reflexivity.
Qed.

Definition estep (x x' : node) : Prop := (vtb_elem dec d pol) x' = true /\ skel_eq x x'.

Lemma estep_refl x : (vtb_elem dec d pol) x = true -> estep x x.
Proof.
  intros H. split; [exact H|]. destruct x; try discriminate; reflexivity.
Qed.

Lemma estep_all : forall l l', Forall2 (fun x x' => (vtb_elem dec d pol) x = true -> estep x x') l l' ->
  forallb (vtb_elem dec d pol) l = true -> Forall2 skel_eq l l' /\ forallb (vtb_elem dec d pol) l' = true.
Proof.
  induction 1 as [|x x' r r' Hx Hr IH]; intros Hv; [split; [constructor | reflexivity]|].
  cbn [forallb] in Hv. apply andb_true_iff in Hv as [Hv1 Hv2].
  destruct (Hx Hv1) as [A B]. destruct (IH Hv2) as [C D]. split; [constructor; auto|].
  cbn [forallb]. rewrite A, D. reflexivity.
Qed.

Lemma ins_visit_elem it s nf x x' : vtbf nf = true -> (vtb_elem dec d pol) x = true ->
  ins_visit it s nf x = Ok x' -> estep x x'.
Proof.
  intros Hnf Hx H. destruct x as [| | h vb kids | o p]; try discriminate.
  - cbn [vtb_elem] in Hx. pose proof (vtb_vol_files _ _ _ Hx) as Hk. cbn [ins_visit] in H.
    destruct (first_match_split s kids) as [Hnone | (l1 & f & l2 & -> & Hf & Hl1)].
    + rewrite (first_match_none _ _ _ Hnone) in H.
      rewrite map_out_id in H.
      * cbn [bind] in H. inversion H; subst. apply estep_refl. exact Hx.
      * apply Forall_forall. intros y Hy. apply ins_visit_file. rewrite forallb_forall in Hk. auto.
    + rewrite (first_match_some s l1 f l2 0 Hl1 Hf), ins_at_ok in H. cbn [bind] in H.
      inversion H; subst. split; [|reflexivity]. cbn [vtb_elem].
      eapply vtb_vol_kids; [exact Hx|]. apply ins_list_forallb; auto.
  - cbn [ins_visit] in H. inversion H; subst. apply estep_refl. reflexivity.
Qed.

Lemma ins_fv_elem front s nf x : vtbf nf = true -> (vtb_elem dec d pol) x = true -> estep x (ins_fv front s nf x).
Proof.
  intros Hnf Hx. destruct x as [| | h vb kids | o p]; try discriminate.
  - cbn [vtb_elem] in Hx. pose proof (vtb_vol_files _ _ _ Hx) as Hk. cbn [ins_fv].
    destruct (pred_fv s h).
    + split; [|reflexivity]. cbn [vtb_elem]. eapply vtb_vol_kids; [exact Hx|].
      destruct front; [cbn [forallb]; rewrite Hnf, Hk; reflexivity|].
      rewrite forallb_app. cbn [forallb]. rewrite Hnf, Hk. reflexivity.
    + rewrite map_id_in; [apply estep_refl; exact Hx|].
      intros y Hy. apply ins_fv_file. rewrite forallb_forall in Hk. auto.
  - apply estep_refl. reflexivity.
Qed.

Lemma rm_visit_elem j s pad x x' : (vtb_elem dec d pol) x = true -> rm_visit j s pol pad x = Ok x' -> estep x x'.
Proof.
  intros Hx H. destruct j; [discriminate|]. destruct x as [| | h vb kids | o p]; try discriminate.
  - cbn [vtb_elem] in Hx. pose proof (vtb_vol_files _ _ _ Hx) as Hk. cbn [rm_visit] in H.
    apply bind_ok in H as (fs & Hf & H). apply bind_ok in H as (fs' & Hfs & H). inversion H; subst.
    rewrite rm_loop_is_rm_list in Hf.
    pose proof (rm_list_vtb _ _ _ _ Hf Hk) as Hv.
    assert (fs' = fs).
    { eapply map_out_same; [|exact Hfs]. intros y z Hy Hz. eapply rm_visit_file; eauto.
      rewrite forallb_forall in Hv. auto. }
    subst fs'. split; [|reflexivity]. cbn [vtb_elem]. eapply vtb_vol_kids; eauto.
  - cbn [rm_visit] in H. inversion H; subst. apply estep_refl. reflexivity.
Qed.

Lemma pe_visit_elem s pe x : zlen pe + 32 < 4294967296 -> (vtb_elem dec d pol) x = true -> estep x (pe_visit s pe x).
Proof.
  intros Hpe Hx. destruct x as [| | h vb kids | o p]; try discriminate.
  - cbn [vtb_elem] in Hx. pose proof (vtb_vol_files _ _ _ Hx) as Hk. cbn [pe_visit].
    split; [|reflexivity]. cbn [vtb_elem]. eapply vtb_vol_kids; [exact Hx|].
    apply forallb_map_in; [|exact Hk]. intros y _ Hy. apply pe_visit_file; auto.
  - apply estep_refl. reflexivity.
Qed.

Lemma run_op_flat dd c elems elems' : (cop_flat dec d pol) c = true ->
  run_op dd pol c elems = Ok elems' -> forallb (vtb_elem dec d pol) elems = true ->
  Forall2 skel_eq elems elems' /\ forallb (vtb_elem dec d pol) elems' = true.
Proof.
  intros Hc H Hv. destruct c as [it s nf | pad s | s pe |]; cbn [run_op cop_flat] in *.
  - unfold insert_run in H. destruct (find_elems s elems) as [|m [|m2 r]]; try discriminate.
    destruct m; try discriminate.
    + apply estep_all; [|exact Hv]. eapply map_out_forall2; [|exact H].
      intros x y Hy Hx. eapply ins_visit_elem; eauto.
    + destruct it; try discriminate; inversion H; subst; (apply estep_all; [|exact Hv]);
        (eapply forall2_imp; [|apply map_forall2]); intros x y -> Hx; apply ins_fv_elem; auto.
  - unfold remove_run in H. apply estep_all; [|exact Hv]. eapply map_out_forall2; [|exact H].
    intros x y Hy Hx. eapply rm_visit_elem; eauto.
  - unfold replace_pe32_run in H. destruct (negb (prefixb [77; 90] pe)); [discriminate|].
    destruct (find_elems s elems) as [|m [|m2 r]]; try discriminate. inversion H; subst.
    apply estep_all; [|exact Hv]. eapply forall2_imp; [|apply map_forall2].
    intros x y -> Hx. apply pe_visit_elem; auto. lia.
  - assert (E : elems' = elems) by congruence. subst elems'. split; [|exact Hv].
    clear H. induction elems as [|x r IH]; constructor.
    + cbn [forallb] in Hv. apply andb_true_iff in Hv as [Hx _]. apply estep_refl. exact Hx.
    + apply IH. cbn [forallb] in Hv. apply andb_true_iff in Hv as [_ Hr]. exact Hr.
Qed.

Lemma run_ops_flat dd : forall cs elems elems', forallb (cop_flat dec d pol) cs = true ->
  run_ops dd pol cs elems = Ok elems' -> forallb (vtb_elem dec d pol) elems = true ->
  scan_ok elems' = scan_ok elems /\ map node_buf elems' = map node_buf elems /\
  forallb (vtb_elem dec d pol) elems' = true.
Proof.
  induction cs as [|c r IH]; intros elems elems' Hc H Hv; cbn [run_ops] in H.
  - inversion H; subst. auto.
  - cbn [forallb] in Hc. apply andb_true_iff in Hc as [Hc1 Hc2].
    apply bind_ok in H as (e1 & He & H).
    destruct (run_op_flat _ _ _ _ Hc1 He Hv) as [Sk V1].
    destruct (IH _ _ Hc2 H V1) as (A & B & C).
    rewrite A, B, (scan_ok_skel _ _ Sk), (skel_bufs _ _ Sk). auto.
Qed.

End Flat.

(* ---------- Assemble on a region with the invariant ---------- *)

Lemma copy_elems_exact : forall l fb off b, 0 <= off -> copy_elems fb off l = Ok b ->
  off + total_len l = zlen fb -> b = zfirstn off fb ++ concat (map node_buf l).
Proof.
  induction l as [|x r IH]; intros fb off b Hoff H Ht; cbn [copy_elems] in H.
  - inversion H; subst. unfold total_len in Ht. cbn in Ht. cbn [map concat]. rewrite app_nil_r.
    replace off with (zlen b) by lia. pose proof (zfirstn_app_exact b []) as Z. rewrite app_nil_r in Z.
    symmetry. exact Z.
  - destruct (zlen fb <? off + zlen (node_buf x)) eqn:E; [discriminate|].
    pose proof (zlen_nonneg (node_buf x)) as Hn.
    assert (Ht' : total_len (x :: r) = zlen (node_buf x) + total_len r) by reflexivity.
    assert (Hoff' : 0 <= off + zlen (node_buf x)) by lia.
    rewrite (IH _ _ _ Hoff' H).
    + cbn [map concat]. rewrite app_assoc. f_equal.
      unfold splice. rewrite app_assoc.
      assert (L : zlen (zfirstn off fb ++ node_buf x) = off + zlen (node_buf x))
        by (rewrite zlen_app, zlen_zfirstn by lia; lia).
      rewrite <- L. apply zfirstn_app_exact.
    + rewrite zlen_splice by lia. lia.
Qed.

Section Save.
Variable dec : Z -> bytes -> option bytes.
Variable enc : Z -> bytes -> option bytes.
Variable s2u : bytes -> bytes.
Variable d : nat.
Variable pol : Z.

Lemma asm_elems_rel : forall elems f elems' st', forallb (vtb_elem dec d pol) elems = true ->
  asm_elems enc s2u elems (pol, f) = Ok (elems', st') ->
  Forall2 (elem_rel dec d pol) elems elems' /\ st' = (pol, f).
Proof.
  induction elems as [|x r IH]; intros f elems' st' Hv H; cbn [asm_elems] in H.
  - inversion H; subst. split; [constructor | reflexivity].
  - cbn [forallb] in Hv. apply andb_true_iff in Hv as [Hx Hr].
    apply bind_ok in H as ([x' st1] & Ex & H). apply bind_ok in H as ([r' st2] & Er & H).
    inversion H; subst.
    destruct x as [| | h vb kids | o p]; try discriminate.
    + cbn [vtb_elem] in Hx.
      destruct (asm_vol_elem enc s2u dec d pol h vb kids f x' st1 Hx Ex) as (h' & b & kids' & -> & -> & V & S).
      destruct (IH _ _ _ Hr Er) as [F2 ->]. split; [|reflexivity].
      constructor; [|exact F2]. cbn [elem_rel]. auto.
    + assert (Ep : asm enc s2u (NPad o p) (pol, f) = Ok (NPad o p, (pol, f))) by reflexivity.
      rewrite Ep in Ex. inversion Ex; subst.
      destruct (IH _ _ _ Hr Er) as [F2 ->]. split; [|reflexivity].
      constructor; [|exact F2]. reflexivity.
Qed.

Lemma elem_rel_len : forall l l', Forall2 (elem_rel dec d pol) l l' -> total_len l' = total_len l.
Proof.
  induction 1 as [|x x' r r' Hx Hr IH]; [reflexivity|].
  change (total_len (x' :: r')) with (zlen (node_buf x') + total_len r').
  change (total_len (x :: r)) with (zlen (node_buf x) + total_len r). rewrite IH. f_equal.
  destruct x as [| | h vb k | o p], x' as [| | h' b k' | o' p']; cbn [elem_rel] in Hx; try contradiction.
  - destruct Hx as [_ (L & _)]. exact L.
  - subst. reflexivity.
Qed.

(* a tree with the invariant assembles into a valid region of the announced length *)
Lemma flat_save_valid elems len el b st :
  forallb (vtb_elem dec d pol) elems = true -> scan_ok elems = true -> total_len elems = len ->
  asm_bios enc s2u elems len (pol, false) = Ok (el, b, st) ->
  valid_image dec (S d) b = true /\ zlen b = len.
Proof.
  intros Hv Hs Hl H. unfold asm_bios in H.
  apply bind_ok in H as ([elems' st1] & Ea & H).
  destruct (asm_elems_rel _ _ _ _ Hv Ea) as [F2 ->].
  destruct (first_fv elems') as [vh|]; [|discriminate].
  destruct (set_polarity _ _) as [pol1|]; [|discriminate].
  apply bind_ok in H as (b1 & Ec & H).
  assert (Eb : b = b1) by congruence. subst b1.
  pose proof (elem_rel_len _ _ F2) as L2.
  pose proof (total_len_nonneg elems) as L0.
  assert (Z0 : zlen (zrepeat pol1 len) = len) by (apply zlen_zrepeat; lia).
  assert (Eb : b = zfirstn 0 (zrepeat pol1 len) ++ concat (map node_buf elems'))
    by (apply copy_elems_exact; [lia | exact Ec | lia]).
  change (zfirstn 0 (zrepeat pol1 len)) with (@nil Z) in Eb.
  cbn [app] in Eb.
  assert (Lb : zlen b = len) by (rewrite Eb, (total_len_concat elems'); lia).
  split; [|exact Lb].
  unfold valid_image.
  pose proof (region_valid dec d pol elems elems' F2 Hs [] (S (Z.to_nat (zlen b)))) as R.
  cbn [app] in R. change (zlen (@nil Z)) with 0 in R. rewrite <- Eb in R. apply R. lia.
Qed.

End Save.

(* ---------- utk <image> <ops...> save ---------- *)

Section EndToEnd.
Variable dec : Z -> bytes -> option bytes.
Variable enc : Z -> bytes -> option bytes.
Variable u2s : bytes -> bytes.
Variable s2u : bytes -> bytes.
Variable nvar : bytes -> option bytes.

Theorem flat_edit_valid dd d ops img out : flat_check dec u2s nvar dd d ops img = true ->
  edit_and_save dec enc u2s s2u nvar dd ops img = Ok out ->
  valid_image dec (S d) out = true /\ zlen out = zlen img.
Proof.
  unfold flat_check, edit_and_save, edit_and_save_gen. intros Hc H.
  destruct (parse_cli dec u2s nvar dd 240 ops) as [[cops pol0]| | |]; try discriminate.
  cbn [bind] in H.
  destruct (parse_bios dec u2s nvar dd (Z.to_nat (zlen img) + 1) pol0 img 0) as [[elems pol]| | |] eqn:Ep;
    try discriminate.
  cbn [bind] in H.
  apply andb_true_iff in Hc as [Hc Hops]. apply andb_true_iff in Hc as [Hv Hs].
  apply bind_ok in H as (elems1 & Er & H). apply bind_ok in H as ([[el b] st] & Ea & H).
  assert (Eo : out = b) by congruence. subst out.
  destruct (run_ops_flat dec d pol dd cops elems elems1 Hops Er Hv) as (A & B & C).
  destruct (parse_bios_partition dec u2s nvar dd _ _ _ _ _ _ Ep) as [Pc _].
  eapply flat_save_valid; [exact C | rewrite A; exact Hs | | exact Ea].
  rewrite <- (total_len_concat elems1), B, Pc. reflexivity.
Qed.

End EndToEnd.

(* ---------- the header form of a regenerated plain section, at the size threshold ---------- *)

(* GenSecHeader on a section without a type-specific header: the 4-byte header with the 24-bit
   size while 4 + |body| < 0xFFFFFF; from 4 + |body| = 0xFFFFFF on, the 8-byte header: size field
   FF FF FF, type, 32-bit size 8 + |body| *)
Lemma gsh_plain_form h body : s_gd h = None -> zlen body + 8 < 4294967296 ->
  (4 + zlen body < 16777215 ->
     snd (gen_sec_header h body) = le_enc 3 (4 + zlen body) ++ [s_type h] ++ body) /\
  (16777215 <= 4 + zlen body ->
     snd (gen_sec_header h body) = [255; 255; 255] ++ [s_type h] ++ le_enc 4 (8 + zlen body) ++ body).
Proof.
  intros Hg Hb. pose proof (zlen_nonneg body) as Hn.
  unfold gen_sec_header. rewrite Hg. cbn [snd app].
  replace (zlen body + (4 + 0)) with (4 + zlen body) by lia.
  rewrite (Z.mod_small (4 + zlen body)) by (unfold U32; lia).
  split; intros Hs.
  - replace (16777215 <=? 4 + zlen body) with false by lia.
    replace (16777215 <=? 4 + zlen body) with false by lia.
    rewrite write3_small by lia. rewrite <- app_assoc. reflexivity.
  - replace (16777215 <=? 4 + zlen body) with true by lia.
    rewrite (Z.mod_small (4 + zlen body + 4)) by (unfold U32; lia).
    replace (16777215 <=? 4 + zlen body + 4) with true by lia.
    unfold write3. replace (16777215 <=? 4 + zlen body + 4) with true by lia.
    replace (4 + zlen body + 4) with (8 + zlen body) by lia.
    change (le_enc 3 16777215) with [255; 255; 255].
    rewrite <- ?app_assoc. reflexivity.
Qed.
